import Logrange.Proofs.Persist
/-!
# C07 — Stored state survives restart, including crash-shaped on-disk states

Property theorems only (model: `Logrange/Model/{PersistFS,TIndexFile,CIndexFile,PipeFiles,RestartModel}.lean`, lemmas:
`Logrange/Proofs/Persist.lean`). All theorems are generic in the four codecs (`K : Codecs`) under the codec
contract `K.Laws` (true of `encoding/json` on Go maps/slices; checked by the harness) and in `parseOk` (do the
stored tag lines parse back — C08). Crash statements are about the sequential crash model of `PersistFS`.

Facts regenerated from the source on every run enter through `Logrange.Generated.C07` (call order of
`saveStateUnsafe`, who calls `savePipes` / `saveDataToFile`, file names, `loadState` never reads the backup …):
a repair of one of the open findings changes a generated fact and breaks the matching `cex_…` proof, which is then
replaced by the positive theorem.
-/
namespace Logrange.Props.C07
open Logrange.Persist Logrange.Generated.C07

/-- consistency of a running server's memory with its disk: `tindex.dat` is the encoding of the tag index (it is
saved on every change), the stored tag lines parse back (C08), every journal on disk has a record, and every pipe's
position file decodes to the pipe's positions (saved after every copied batch). -/
def WF (K : Codecs) (parseOk : TagLine → Bool) (s : Srv) : Prop :=
  s.disk.files .tindexDat = some (K.tidx.enc s.mem.tmap) ∧
  s.mem.tmap.all (fun e => parseOk e.1) = true ∧
  (journalsOnDisk s.disk.db).all (tmapHasSrc s.mem.tmap) = true ∧
  ∀ p ∈ s.mem.pipes, loadPipeInfo K.pinfo s.disk.files p.cfg.name = p.poss

/-- **Graceful restart, full statement**: after `shutdown` the server starts and its tag index, chunk hulls and
roots, pipe definitions and pipe positions are exactly what they were, and so are the journals. FALSE today
(`cex_pipe_name_collision_clean`): kept as a definition. -/
def restart_graceful_full : Prop :=
  ∀ (K : Codecs) (parseOk : TagLine → Bool) (s : Srv), K.Laws → WF K parseOk s →
    ∃ s', recover K parseOk (shutdown K s).disk = .started s' ∧ s'.mem = s.mem ∧ s'.disk.db = s.disk.db

theorem loadPipeInfo_congr (c : Codec PosMap) (f g : Files) (n : Bytes) (h : f (pipeInfoPath n) = g (pipeInfoPath n)) :
    loadPipeInfo c f n = loadPipeInfo c g n := by
  simp [loadPipeInfo, h]

/-- **Graceful restart** (proved for every state without a pipe whose position file is the registry file —
the class of finding F33): `recover (shutdown s).disk = s.persistent`. -/
theorem restart_graceful_partial (K : Codecs) (parseOk : TagLine → Bool) (s : Srv) (hK : K.Laws)
    (hwf : WF K parseOk s) (hnc : nameCollision s.mem.pipes = false) :
    ∃ s', recover K parseOk (shutdown K s).disk = .started s' ∧ s'.mem = s.mem ∧ s'.disk.db = s.disk.db := by
  obtain ⟨ht, hp, hj, hpi⟩ := hwf
  have hnc' : ∀ p ∈ s.mem.pipes, pipeInfoPath p.cfg.name ≠ pipesDat := by
    intro p hp'
    have := List.any_eq_false.mp hnc p hp'
    simpa using this
  -- the disk after shutdown
  let e1 := K.pipes.enc (s.mem.pipes.map (·.cfg))
  let e2 := K.cidx.enc s.mem.cidx
  have hf2 : (shutdown K s).disk.files = (s.disk.files.set pipesDat (some e1)).set .cindexDat (some e2) := by
    simp only [shutdown, shutdownSteps, savePipesSteps, cindexSaveSteps, runSteps_append, runSteps_writeFile, e1, e2]
  have hdb : (shutdown K s).disk.db = s.disk.db := rfl
  generalize hF : (shutdown K s).disk.files = f2 at hf2
  have h2t : f2 .tindexDat = some (K.tidx.enc s.mem.tmap) := by
    rw [hf2, Files.set_other _ _ _ _ (by simp), Files.set_other _ _ _ _ (by simp [pipesDat]), ht]
  have hload : loadState K.tidx parseOk f2 = some s.mem.tmap := by
    simp [loadState, h2t, hK.tidx.rt, hp]
  -- after the re-save of the tag index
  let f3 := runSteps f2 (tindexSaveSteps K.tidx f2 s.mem.tmap)
  have hcc : checkConsistency K.tidx parseOk f2 (journalsOnDisk s.disk.db) = some (s.mem.tmap, f3) := by
    simp [checkConsistency, hload, hj, f3]
  have h3 : ∀ q, ¬ tindexPath q → f3 q = f2 q := fun q hq => tindexSave_frame _ _ _ _ q hq
  have h3c : f3 .cindexDat = some e2 := by
    rw [h3 _ (by simp [tindexPath]), hf2]; simp
  have h3p : f3 pipesDat = some e1 := by
    rw [h3 _ (by simp [tindexPath, pipesDat]), hf2, Files.set_other _ _ _ _ (by simp [pipesDat])]; simp
  have hci : cindexLoad K.cidx f3 = s.mem.cidx := by
    simp [cindexLoad, h3c, e2, hK.cidx.rt]
  have hinfo : ∀ p ∈ s.mem.pipes, loadPipeInfo K.pinfo f3 p.cfg.name = p.poss := by
    intro p hp'
    rw [← hpi p hp']
    apply loadPipeInfo_congr
    rw [h3 _ (by simp [tindexPath, pipeInfoPath]), hf2, Files.set_other _ _ _ _ (by simp [pipeInfoPath]),
      Files.set_other _ _ _ _ (hnc' p hp')]
  have hpipes : pipesInit K.pipes K.pinfo f3 = some s.mem.pipes := by
    simp only [pipesInit, loadPipes, h3p, e1, hK.pipes.rt, Option.map_some]
    rw [map_cfg_poss _ _ hinfo]
  refine ⟨⟨⟨s.mem.tmap, s.mem.cidx, s.mem.pipes⟩, ⟨f3, s.disk.db, cleanupTrees s.mem.cidx s.disk.trees⟩⟩, ?_, rfl, rfl⟩
  simp only [recover]
  rw [hF, hdb, hcc]
  simp only [hci, hpipes]
  rfl

/-- **every RANGE query answers as it did** after a graceful restart: the hulls a new cursor sees are the same -/
theorem hulls_survive_graceful (K : Codecs) (parseOk : TagLine → Bool) (s : Srv) (hK : K.Laws)
    (hwf : WF K parseOk s) (hnc : nameCollision s.mem.pipes = false) :
    ∃ s', recover K parseOk (shutdown K s).disk = .started s' ∧
      ∀ src lo hi, rangeVisible (hullView s'.mem.cidx src ((alookup s'.disk.db src).getD [])) ((alookup s'.disk.db src).getD []) lo hi
        = rangeVisible (hullView s.mem.cidx src ((alookup s.disk.db src).getD [])) ((alookup s.disk.db src).getD []) lo hi := by
  obtain ⟨s', h1, h2, h3⟩ := restart_graceful_partial K parseOk s hK hwf hnc
  exact ⟨s', h1, by intro src lo hi; rw [h2, h3]⟩

/-! ## the tag-index save is not crash-atomic (finding F05) -/

/-- **Crash-atomic tag-index save, full statement**: wherever the save of `new` over `old` is cut, start-up finds
`old` or `new`. FALSE today (`cex_tindex_window`, `cex_tindex_torn`): kept as a definition. -/
def tindex_crash_atomic : Prop :=
  ∀ (K : Codecs) (parseOk : TagLine → Bool) (f : Files) (old new : TMap) (js : List Src) (c : Cut), K.Laws →
    f .tindexDat = some (K.tidx.enc old) → old.all (fun e => parseOk e.1) = true → new.all (fun e => parseOk e.1) = true →
    js.all (tmapHasSrc old) = true → js.all (tmapHasSrc new) = true →
    (checkConsistency K.tidx parseOk (diskAt f (tindexSaveSteps K.tidx f new) c) js).map (·.1) = some old ∨
    (checkConsistency K.tidx parseOk (diskAt f (tindexSaveSteps K.tidx f new) c) js).map (·.1) = some new

theorem saveSteps_eq (K : Codecs) (f : Files) (old new : TMap) (h : f .tindexDat = some (K.tidx.enc old)) :
    tindexSaveSteps K.tidx f new =
      [.rename .tindexDat .tindexBak, .truncate .tindexDat, .append .tindexDat (K.tidx.enc new)] := by
  simp [tindexSaveSteps, tindexSaveStepsOf, saveStateCalls, tindexCallSteps, writeFile, h]

/-- **F05, the window**: after the rename and before the rewrite there is no `tindex.dat`; `loadState` takes that for
an empty index (`tindex.bak` is never read: `loadStateReadsBackup = false`) and `checkConsistency` refuses to start as
soon as one journal exists. -/
theorem cex_tindex_window (K : Codecs) (parseOk : TagLine → Bool) (f : Files) (old new : TMap) (j : Src) (js : List Src)
    (h : f .tindexDat = some (K.tidx.enc old)) :
    loadStateReadsBackup = false ∧
    checkConsistency K.tidx parseOk (diskAt f (tindexSaveSteps K.tidx f new) ⟨1, 0⟩) (j :: js) = none := by
  refine ⟨by decide, ?_⟩
  rw [saveSteps_eq K f old new h]
  simp [diskAt, runSteps, applyStep, h, checkConsistency, loadState, Files.set, tmapHasSrc]

/-- **F05, torn**: rename and truncate done, any strict prefix of the new content written (also nothing): the file
does not decode and start-up fails, whatever journals exist. -/
theorem cex_tindex_torn (K : Codecs) (hK : K.Laws) (parseOk : TagLine → Bool) (f : Files) (old new : TMap) (js : List Src)
    (n : Nat) (hn : n < (K.tidx.enc new).length) (h : f .tindexDat = some (K.tidx.enc old)) :
    checkConsistency K.tidx parseOk (diskAt f (tindexSaveSteps K.tidx f new) ⟨2, n⟩) js = none := by
  rw [saveSteps_eq K f old new h]
  simp [diskAt, runSteps, applyStep, h, checkConsistency, loadState, Files.set, hK.tidx.torn new n hn]

/-- **Crash-atomicity outside the rename→rewrite window**: a cut before anything happened finds `old`; a cut after the
complete rewrite finds `new`. -/
theorem tindex_crash_atomic_partial (K : Codecs) (hK : K.Laws) (parseOk : TagLine → Bool) (f : Files) (old new : TMap)
    (js : List Src) (c : Cut) (h : f .tindexDat = some (K.tidx.enc old))
    (ho : old.all (fun e => parseOk e.1) = true) (hn : new.all (fun e => parseOk e.1) = true)
    (hjo : js.all (tmapHasSrc old) = true) (hjn : js.all (tmapHasSrc new) = true)
    (hc : c.k = 0 ∨ (c.k = 2 ∧ (K.tidx.enc new).length ≤ c.len) ∨ 3 ≤ c.k) :
    (checkConsistency K.tidx parseOk (diskAt f (tindexSaveSteps K.tidx f new) c) js).map (·.1) = some old ∨
    (checkConsistency K.tidx parseOk (diskAt f (tindexSaveSteps K.tidx f new) c) js).map (·.1) = some new := by
  rw [saveSteps_eq K f old new h]
  obtain ⟨k, len⟩ := c
  rcases hc with hc | ⟨hc, hl⟩ | hc
  · simp only at hc; subst hc
    left
    simp [diskAt, runSteps, checkConsistency, loadState, h, hK.tidx.rt, ho, hjo]
  · simp only at hc hl; subst hc
    right
    simp [diskAt, runSteps, applyStep, h, checkConsistency, loadState, Files.set, List.take_of_length_le hl, hK.tidx.rt, hn, hjn]
  · simp only at hc
    have e : ([Step.rename .tindexDat .tindexBak, .truncate .tindexDat, .append .tindexDat (K.tidx.enc new)] : List Step).take k
        = [Step.rename .tindexDat .tindexBak, .truncate .tindexDat, .append .tindexDat (K.tidx.enc new)] :=
      List.take_of_length_le (by simp; omega)
    have e2 : ([Step.rename .tindexDat .tindexBak, .truncate .tindexDat, .append .tindexDat (K.tidx.enc new)] : List Step)[k]? = none := by
      apply List.getElem?_eq_none; simp; omega
    right
    simp only [diskAt, e2, e]
    simp [runSteps, applyStep, h, checkConsistency, loadState, Files.set, hK.tidx.rt, hn, hjn]

/-! ## pipes -/

def s0 : Srv := ⟨⟨[], [], []⟩, Disk.fresh⟩

/-- **F07**: an acknowledged CREATE PIPE is not on disk (`savePipes` is called only by `Shutdown`:
`pipeDefsSavedOnCreate = false`); a server started on the crash image has no pipes. -/
theorem cex_pipe_def_lost_on_crash (K : Codecs) (parseOk : TagLine → Bool) (p : Pipe) :
    let s1 := step K s0 (.createPipe p)
    s1.mem.pipes.map (·.cfg) = [p] ∧
    (match recover K parseOk s1.disk with
     | .started s' => s'.mem.pipes = []
     | _ => False) := by
  have hf : pipeDefsSavedOnCreate = false := by decide
  simp [step, s0, hf, runSteps_nil, recover, checkConsistency, loadState,
    Disk.fresh, Files.empty, journalsOnDisk, Files.set, pipesDat, pipesInit, loadPipes,
    tindexSaveSteps, tindexSaveStepsOf, saveStateCalls, tindexCallSteps, writeFile, runSteps, applyStep]

theorem pipeFileName_s : pipeFileName [115] = pipesFileName := by decide

/-- **F33, crash image**: the positions of a pipe named `s` are written to `pipes.dat`; `loadPipes` cannot decode a
position map as a registry and `Service.Init` fails. -/
theorem cex_pipe_name_collision (K : Codecs) (hK : K.Laws) (parseOk : TagLine → Bool) (pm : PosMap) :
    pipeInfoPath [115] = pipesDat ∧
    recover K parseOk (run K s0 [.createPipe ⟨[115], [], []⟩, .savePipeInfo [115] pm]).disk = .refusedPipes := by
  have hp : pipeInfoPath [115] = pipesDat := by simp [pipeInfoPath, pipesDat, pipeFileName_s]
  have hf : pipeDefsSavedOnCreate = false := by decide
  refine ⟨hp, ?_⟩
  simp [run, step, s0, hf, runSteps_nil, savePipeInfoSteps, runSteps_writeFile, hp, recover, checkConsistency, loadState,
    Disk.fresh, Files.empty, journalsOnDisk, Files.set, pipesDat, pipesInit, loadPipes, hK.crossPipes,
    tindexSaveSteps, tindexSaveStepsOf, saveStateCalls, tindexCallSteps, writeFile, runSteps, applyStep]

/-- **F41**: a crash while a graceful shutdown rewrites `pipes.dat` in place (truncated, a strict prefix written)
leaves a registry that does not decode; `Service.Init` fails. -/
theorem cex_pipes_dat_torn (K : Codecs) (hK : K.Laws) (parseOk : TagLine → Bool) (p : Pipe) (n : Nat)
    (hn : n < (K.pipes.enc [p]).length) :
    let s1 := step K s0 (.createPipe p)
    recover K parseOk { s1.disk with files := diskAt s1.disk.files (shutdownSteps K s1.mem) ⟨1, n⟩ } = .refusedPipes := by
  have hf : pipeDefsSavedOnCreate = false := by decide
  simp [step, s0, hf, runSteps_nil, shutdownSteps, savePipesSteps, cindexSaveSteps, writeFile, diskAt, runSteps, applyStep,
    recover, checkConsistency, loadState, Disk.fresh, Files.empty, journalsOnDisk, Files.set, pipesDat, pipesInit, loadPipes,
    hK.pipes.torn [p] n hn, tindexSaveSteps, tindexSaveStepsOf, saveStateCalls, tindexCallSteps]

/-- **F42**: nothing in the shutdown sequence syncs the journals (`partitionShutdownSyncsJournals = false`): records of
an acknowledged write that are still in the chunk writer's buffer are not in the journal after a graceful stop. -/
theorem cex_ack_lost_on_graceful_stop (db : List (Src × List Chunk)) (src : Src) (pending : List (Nat × List Int)) :
    partitionShutdownSyncsJournals = false ∧ shutdownDb db src pending = db := by
  refine ⟨by decide, ?_⟩
  have : partitionShutdownSyncsJournals = false := by decide
  simp [shutdownDb, this]

/-! ## time-index snapshot -/

theorem cindexLoad_missing (c : Codec CMap) (f : Files) (h : f .cindexDat = none) : cindexLoad c f = [] := by
  simp [cindexLoad, h]

theorem cindexLoad_torn (c : Codec CMap) (hc : c.Laws) (f : Files) (m : CMap) (n : Nat) (hn : n < (c.enc m).length)
    (h : f .cindexDat = some ((c.enc m).take n)) : cindexLoad c f = [] := by
  simp [cindexLoad, h, hc.torn m n hn]

/-- **F06 (stale snapshot)**: the index knows chunk 1 with the hull `[10, 20]` of an earlier clean stop; the chunk
grew by a record with timestamp 30 before the crash. `lightFill` skips the chunk (`MaxTs > 0`), the hull is never
extended, and `RANGE [25:35]` returns nothing although the flushed event 30 is in range. -/
theorem cex_stale_snapshot :
    let stale : CMap := [([106], [⟨1, 10, 20, 0⟩])]
    let cks : List Chunk := [⟨1, [10, 20, 30]⟩]
    lightFillSkipsWhenMaxTsPositive = true ∧ cindexSnapshotOnlyAtClose = true ∧
    staleGrown ((alookup stale [106]).getD []) cks = true ∧
    rangeVisible (hullView stale [106] cks) cks 25 35 = [] ∧ rangeSpec cks 25 35 = [30] := by
  decide

/-- the stale snapshot is what a crash leaves: after a clean stop (snapshot written), a restart and a further write,
the disk still holds the snapshot of the clean stop — `cindex.dat` is not touched by `write`. -/
theorem write_keeps_snapshot (K : Codecs) (s : Srv) (src : Src) (pieces : List (Nat × List Int)) :
    (step K s (.write src pieces)).disk.files = s.disk.files := by
  simp only [step]

/-- **Missing or torn snapshot, monotone chunk**: a chunk the loaded index does not know (every chunk, when
`cindex.dat` is missing or torn: `cindexLoad_missing`, `cindexLoad_torn`) gets its hull from `lightFill`; if its
timestamps are monotone and positive the hull contains every record, so no RANGE query loses an event of it. -/
theorem hull_after_recover_partial (old : List ChkInfo) (ck : Chunk)
    (hunk : old.find? (fun o => o.id == ck.id) = none) (hmono : ck.recs.Pairwise (· ≤ ·)) :
    ∀ t ∈ ck.recs, (syncChunk old ck).minTs ≤ t ∧ t ≤ (syncChunk old ck).maxTs := by
  intro t ht
  simp only [syncChunk, hunk, lightFill1]
  cases hh : ck.recs.head? with
  | none => cases hr : ck.recs with
    | nil => rw [hr] at ht; cases ht
    | cons a r => rw [hr] at hh; simp at hh
  | some a =>
    cases hl : ck.recs.getLast? with
    | none => cases hr : ck.recs with
      | nil => rw [hr] at ht; cases ht
      | cons a r => rw [hr] at hl; simp at hl
    | some b =>
      have h1 := head_le_of_pairwise ck.recs a hmono hh t ht
      have h2 := le_last_of_pairwise ck.recs b hmono hl t ht
      have hab : a ≤ b := Int.le_trans h1 h2
      have : ¬ b < a := by omega
      simp [this]
      exact ⟨h1, h2⟩

/-- non-monotone chunk: `lightFill`'s hull (first and last record) misses the record 50 — C02's class
"non-monotone partition" (DESIGN §7 #4) -/
theorem cex_lightFill_nonmonotone :
    let ck : Chunk := ⟨1, [10, 50, 20]⟩
    rangeVisible (syncChunks [] [ck]) [ck] 40 60 = [] ∧ rangeSpec [ck] 40 60 = [50] := by
  decide

/-- a sound hull never hides an event: when every record of every chunk lies inside the chunk's hull, the
hull-level RANGE answer is the specification's filter -/
theorem range_complete_of_sound_hulls : ∀ (hs : List ChkInfo) (cks : List Chunk) (lo hi : Int),
    hs.length = cks.length →
    (∀ (i : Nat) (h : ChkInfo) (ck : Chunk), hs[i]? = some h → cks[i]? = some ck → ∀ t ∈ ck.recs, h.minTs ≤ t ∧ t ≤ h.maxTs) →
    rangeVisible hs cks lo hi = rangeSpec cks lo hi
  | [], [], _, _, _, _ => by simp [rangeVisible, rangeSpec]
  | [], _ :: _, _, _, h, _ => by simp at h
  | _ :: _, [], _, _, h, _ => by simp at h
  | h :: hs, ck :: cks, lo, hi, hl, hsound => by
    have ih := range_complete_of_sound_hulls hs cks lo hi (by simpa using hl)
      (fun i h' ck' a b => hsound (i + 1) h' ck' (by simpa using a) (by simpa using b))
    have h0 := hsound 0 h ck (by simp) (by simp)
    simp only [rangeVisible, rangeSpec, List.flatMap_cons] at ih ⊢
    rw [ih]
    congr 1
    cases hh : hullHits h lo hi with
    | true => simp
    | false =>
      simp [hullHits] at hh
      symm
      simp only [Bool.false_eq_true, if_false]
      apply List.filter_eq_nil_iff.mpr
      intro t ht
      have := h0 t ht
      simp only [inRange, Bool.and_eq_true, decide_eq_true_eq]
      omega

/-! ## non-vacuity -/

example : nameCollision [⟨⟨[116], [], []⟩, []⟩] = false := by decide
example : nameCollision [⟨⟨[115], [], []⟩, []⟩] = true := by decide
example : cutInsideSave [.rename .tindexDat .tindexBak, .truncate .tindexDat, .append .tindexDat [1, 2, 3]] ⟨2, 1⟩ = true := by decide
example : (⟨1, [10, 10, 12]⟩ : Chunk).recs.Pairwise (· ≤ ·) := by decide

end Logrange.Props.C07
