import Logrange.Translated.Cursor
import Logrange.Model.FIter
/-!
# TR — `pkg/cursor`: the *translated* `(*fiterator).fitInRange` equals the hand-written model `FIter.inRange` (C05, C02)

Regenerated from the Go source by `tools/go2lean` on every run; `Int64.toInt` reads the translated `int64` values.
-/
namespace Logrange.Props.TRCursor
open Go.Sem Logrange Logrange.Translated.Cursor

/-- `fitInRange`: `MinTs ≤ Timestamp ≤ MaxTs`, both ends included -/
theorem tr_fitInRange_eq (fit : fiterator_fitInRange_fit) :
    fiterator_fitInRange fit =
      .ok (FIter.inRange fit.tmRange_MinTs.toInt fit.tmRange_MaxTs.toInt fit.le_Timestamp.toInt) := by
  simp [fiterator_fitInRange, FIter.inRange, Int64.le_iff_toInt_le]

example : fiterator_fitInRange { le_Timestamp := 7, tmRange_MinTs := 7, tmRange_MaxTs := 7 } = .ok true := by decide +kernel
example : fiterator_fitInRange { le_Timestamp := 8, tmRange_MinTs := 7, tmRange_MaxTs := 7 } = .ok false := by decide +kernel

end Logrange.Props.TRCursor
