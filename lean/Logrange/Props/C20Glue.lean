import Logrange.Props.C20Parts.Defs
import Logrange.Generated.C20G
/-!
# C20 — the glue around the date-time parsers (facts regenerated into `Generated/C20G.lean`)

The theorems of `Props/C20.lean` are about `parseLqlDateTime` / the default parser as FUNCTIONS of (text, now). The property's LQL
clauses ("as an absolute time literal of an LQL RANGE or ts condition", "relative literals … all not later than now") are about
what reaches those functions and when:

* **no memory**: the answer for a literal must not depend on what the process parsed before — neither `pkg/lql` nor
  `pkg/scanner/parser/date` keeps mutable package-level state (`lql_date_path_is_stateless`), and `(*DateTime).Capture` (RANGE,
  TRUNCATE BEFORE) parses its literal on every call (`capture_parses_every_time`). Otherwise a relative literal, the constants
  `minute` / `hour` / `day` / `week` and the today's-date / current-year formats go stale: a fresh `-0.002m` can come out LATER than
  a remembered `-0.001m`. The harness parses the same texts repeatedly across a clock advance (section `lqltime`).
* **the literal's text reaches the parser unchanged**: `cmdCreatePipe` stores the printed FROM / WHERE text as it is
  (`create_pipe_keeps_condition_text`); blanks inside a literal are significant (`collapsed_blanks_change_the_instant`). The
  harness creates pipes with `ts` conditions through CREATE PIPE and evaluates the stored condition (section `pipepath`).
-/
namespace Logrange.Props.C20Glue
open Logrange.Date Logrange.Generated Logrange.Props.C20

/-- `pkg/lql` and `pkg/scanner/parser/date` keep no mutable package-level state (read from the source on every run; the names of
offending variables are in the generated file's comment) -/
theorem lql_date_path_is_stateless : C20G.lqlMutablePackageVars = 0 ∧ C20G.dateMutablePackageVars = 0 := by decide

/-- `(*DateTime).Capture` parses its literal on every call -/
theorem capture_parses_every_time : C20G.captureParsesEveryTime = true := by decide

/-- `CREATE PIPE` stores the printed text of its conditions, not a transformation of it -/
theorem create_pipe_keeps_condition_text : C20G.createPipeKeepsConditionText = true := by decide

/-- **why the text must arrive unchanged**: `Mon Mar  4 12:34:43 2019` (two blanks: the `_D` text of `DDD MMM _D HH:mm:ss YYYY`, LQL
format 1) is 4 March 2019; with the run of blanks collapsed no dated format matches and `HH:mm:ss` (66) claims the clock —
12:34:43 TODAY -/
theorem collapsed_blanks_change_the_instant :
    parseLql gcfg lqlFmts ⟨2026, 9, 26⟩ [77, 111, 110, 32, 77, 97, 114, 32, 32, 52, 32, 49, 50, 58, 51, 52, 58, 52, 51, 32, 50, 48, 49, 57]
      = .abs 1 ⟨2019, 3, 4, 12, 34, 43, 0, .dflt⟩ ∧
    parseLql gcfg lqlFmts ⟨2026, 9, 26⟩ [77, 111, 110, 32, 77, 97, 114, 32, 52, 32, 49, 50, 58, 51, 52, 58, 52, 51, 32, 50, 48, 49, 57]
      = .abs 66 ⟨2026, 9, 26, 12, 34, 43, 0, .dflt⟩ := by decide +kernel

end Logrange.Props.C20Glue
