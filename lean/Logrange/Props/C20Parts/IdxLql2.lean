import Logrange.Props.C20Parts.Defs
/-! C20 — kernel evaluation: first-match certificates, LQL 36..51 -/
namespace Logrange.Props.C20
open Logrange.Date
theorem lql_idx_ok_2 : idxRangeOK lqlFmts 36 52 = true := by decide +kernel
end Logrange.Props.C20
