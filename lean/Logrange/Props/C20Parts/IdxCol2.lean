import Logrange.Props.C20Parts.Defs
/-! C20 — kernel evaluation: first-match certificates, collector 42.. -/
namespace Logrange.Props.C20
open Logrange.Date
/-- collector formats from 42 on -/
theorem col_idx_ok_2 : idxRangeOK colFmts 42 100000 = true := by decide +kernel
end Logrange.Props.C20
