import Logrange.Props.C20Parts.Defs
/-! C20 — kernel evaluation: ownOK for the collector list -/
namespace Logrange.Props.C20
open Logrange.Date
/-- every collector format: layout well formed for the round trip, own expression returns the whole text on every shape -/
theorem col_formats_own_ok : colFmts.all ownOK = true := by decide +kernel
end Logrange.Props.C20
