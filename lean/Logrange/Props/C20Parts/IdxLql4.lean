import Logrange.Props.C20Parts.Defs
/-! C20 — kernel evaluation: first-match certificates, LQL 62.. -/
namespace Logrange.Props.C20
open Logrange.Date
theorem lql_idx_ok_4 : idxRangeOK lqlFmts 62 100000 = true := by decide +kernel
end Logrange.Props.C20
