import Logrange.Props.C20Parts.Defs
/-! C20 — kernel evaluation: ownOK and literal safety for the LQL list -/
namespace Logrange.Props.C20
open Logrange.Date
/-- every LQL format: layout well formed for the round trip, own expression returns the whole text on every shape; and every shape is
a safe LQL literal (no blank at either end, no leading minus, a digit inside) -/
theorem lql_formats_own_ok : lqlFmts.all (fun cf => ownOK cf && (symLayout cf.layout).all lqlShapeOK) = true := by decide +kernel
end Logrange.Props.C20
