import Logrange.Props.C20Parts.Defs
/-! C20 — kernel evaluation: first-match certificates, LQL 0..35 -/
namespace Logrange.Props.C20
open Logrange.Date
theorem lql_idx_ok_1 : idxRangeOK lqlFmts 0 36 = true := by decide +kernel
end Logrange.Props.C20
