import Logrange.Proofs.DateSecondStage
import Logrange.Generated.C20
/-! C20 — the regenerated tables as compiled formats (shared by the evaluation modules, which lake builds in parallel). -/
namespace Logrange.Props.C20
open Logrange.Date Logrange.Generated

def gterms : List Term := C20.terms
def colFmts : List CFormat := C20.collectorFormats.map (compile gterms C20.regexpLeftGuard)
def lqlFmts : List CFormat := C20.lqlFormats.map (compile gterms C20.regexpLeftGuard)
def gadj : Adjust := { year := C20.formatParseAdjustsYear, date := C20.formatParseAdjustsDate }
def gcfg : LqlCfg :=
  { lower := C20.lqlLowerCases, trim := C20.lqlTrimsBlanks, fmtLower := C20.lqlLowerCases && C20.lqlFormatsSeeLowerCased, adj := gadj }

/-- all entries of both lists -/
def allFmts : List CFormat := colFmts ++ lqlFmts

/-- `idxOK` for the indices `lo ≤ k < hi` of a list (the evaluation is cut into such pieces) -/
def idxRangeOK (fmts : List CFormat) (lo hi : Nat) : Bool :=
  (List.range fmts.length).all (fun k => !(decide (lo ≤ k) && decide (k < hi)) || idxOK fmts k)

theorem idxOK_of_range {fmts : List CFormat} {lo hi k : Nat} (h : idxRangeOK fmts lo hi = true) (hk : k < fmts.length)
    (h1 : lo ≤ k) (h2 : k < hi) : idxOK fmts k = true := by
  simp only [idxRangeOK, List.all_eq_true, List.mem_range] at h
  have := h k hk
  simpa [h1, h2] using this

end Logrange.Props.C20
