import Logrange.Proofs.DateLine
import Logrange.Props.C20Parts.Defs
/-! C20 — kernel evaluation: which bytes are inert separators for every format of both regenerated lists -/
namespace Logrange.Props.C20
open Logrange.Date Logrange.Generated

/-- the separator bytes that are inert for every format of both lists -/
def isLineSep (c : UInt8) : Bool :=
  c < 32 || (33 ≤ c && c ≤ 42) || (59 ≤ c && c ≤ 64) || (91 ≤ c && c ≤ 96) || 123 ≤ c

def lnow : Now := ⟨2026, 9, 26⟩

def fmtInert (c : UInt8) (cf : CFormat) : Bool :=
  match cf.rx with
  | some r => inertD c r
  | none => false

/-- evaluated on the regenerated lists and terms: every byte of `isLineSep` is inert for every format of both lists (one
direction only, so that a table edit which makes MORE bytes inert raises no alarm; an edit that lets some expression consume one
of these separators breaks this obligation) -/
theorem line_separators_table :
    (List.range 256).all (fun n => !isLineSep (UInt8.ofNat n) || allFmts.all (fmtInert (UInt8.ofNat n))) = true := by
  decide +kernel

/-- on the current tables the other printable ASCII bytes are consumed by some expression: blank `+ , - /`, digits, `:`, letters
(the `.` is inert today only because the `.` of `.SSS` and `MM.DD.YYYY` is unescaped; it is not counted as a separator) -/
theorem non_separators_consumed :
    [32, 43, 44, 45, 47, 48, 57, 58, 65, 90, 97, 122].all (fun c => !(allFmts.all (fmtInert c))) = true := by decide +kernel

end Logrange.Props.C20
