import Logrange.Props.C20Parts.Defs
/-! C20 — kernel evaluation: first-match certificates, LQL 52..61 -/
namespace Logrange.Props.C20
open Logrange.Date
theorem lql_idx_ok_3 : idxRangeOK lqlFmts 52 62 = true := by decide +kernel
end Logrange.Props.C20
