import Logrange.Props.C20Parts.Defs
/-! C20 — kernel evaluation: first-match certificates, collector 0..41 -/
namespace Logrange.Props.C20
open Logrange.Date
/-- collector formats 0..41: every earlier format has a clean / dotted / twin certificate against them -/
theorem col_idx_ok_1 : idxRangeOK colFmts 0 42 = true := by decide +kernel
end Logrange.Props.C20
