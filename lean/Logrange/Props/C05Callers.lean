import Logrange.Props.C05
import Logrange.Model.WhereCallers
/-!
# C05, rejection clause for every caller of the builder

`where_rejects` says the *builder* errs exactly on the expressions without a meaning. Here: that error reaches the
client on every path, and nothing — no cursor, no pipe — is created with a partial filter.
-/
namespace Logrange.Props.C05Callers
open Go Logrange Logrange.Where Logrange.WhereCallers Logrange.Props.C05

/-- **The error tests of all callers have the shape the model assumes** (regenerated from /repo on every run by
`tools/extract/c05_callers.go`, matched by structure: any name for the error variable, statements before the return
inside the guard ignored, zero values of any spelling). -/
theorem callers_as_modelled :
    Generated.C05.guardBuildWhereText = "return(zero,err)" ∧ Generated.C05.buildWhereTextTailCallsBuilder = true ∧
    Generated.C05.guardNewFIterator = "return(zero,err)" ∧ Generated.C05.guardNewCursor = "return(zero,err)" ∧
    Generated.C05.guardGetOrCreate = "skip-eq(1);return(zero,err)" ∧
    Generated.C05.guardBackendQuery = "return(zero,err)" ∧ Generated.C05.guardRpcQuery = "reply(err);return" ∧
    Generated.C05.guardNewPPipe = "return(zero,err)" ∧ Generated.C05.guardCreatePipe = "return(zero,err)" ∧
    Generated.C05.createPipeRegistersAfterGuard = true ∧ Generated.C05.guardPipeInit = "return(err)" ∧
    Generated.C05.guardCmdCreatePipe = "return(zero,err)" ∧ Generated.C05.guardRpcEnsurePipe = "reply(err);return" ∧
    Generated.C05.ensurePipeSuccessOnlyFromGet = true ∧ Generated.C05.guardPipeWorker = "return()" := by decide

/-- **A SELECT whose WHERE has no meaning never gets a cursor that delivers anything**: over matching partitions the
client receives the builder's error; over no partition the empty cursor (nothing is delivered, so nothing is "treated
as true"). -/
theorem query_rejects_unsupported (env : Env) (e : Expr) (r hs : Bool) (h : supported env e = false) :
    (hs = true → ∃ err, query env ⟨some e, r⟩ hs = .error (.build err)) ∧
    (hs = false → query env ⟨some e, r⟩ hs = .page .empty) := by
  obtain ⟨err, he⟩ := (where_rejects env e).mpr h
  constructor
  · intro hh; subst hh
    exact ⟨err, by simp [query, getOrCreate, newCursor, newFIterator, he]⟩
  · intro hh; subst hh
    simp [query, getOrCreate, newCursor]

/-- the query path in closed form -/
theorem query_eq (env : Env) (sel : Select) (hs : Bool) :
    query env sel hs =
      if hs = false then .page .empty
      else if sel.where_.isSome || sel.hasRange then
        (match buildWhere env sel.where_ with
         | .error e => .error (.build e)
         | .ok f => .page (.real (some f)))
      else .page (.real none) := by
  cases hs
  · simp [query, getOrCreate, newCursor]
  · by_cases hc : (sel.where_.isSome || sel.hasRange) = true
    · cases hb : buildWhere env sel.where_ <;> simp [query, getOrCreate, newCursor, newFIterator, hc, hb]
    · simp [query, getOrCreate, newCursor, hc]

/-- **No partial filter**: the filter of the cursor a query is served from is the builder's filter of the *whole*
WHERE expression — hence (by `where_correct`) its reference meaning. -/
theorem query_filter_is_builders (env : Env) (sel : Select) (hs : Bool) (f : Pred)
    (h : query env sel hs = .page (.real (some f))) : buildWhere env sel.where_ = .ok f := by
  rw [query_eq] at h
  split at h
  · cases h
  · split at h
    · split at h
      · cases h
      · rename_i g hb; cases h; exact hb
    · cases h

/-- and a query served without any filter had neither WHERE nor RANGE -/
theorem query_unfiltered_only_without_where (env : Env) (sel : Select) (hs : Bool)
    (h : query env sel hs = .page (.real none)) : sel.where_ = none ∧ sel.hasRange = false := by
  rw [query_eq] at h
  split at h
  · cases h
  · split at h
    · split at h <;> cases h
    · rename_i hc
      simp only [Bool.or_eq_true, not_or, Bool.not_eq_true, Option.isSome_eq_false_iff, Option.isNone_iff_eq_none] at hc
      exact hc

/-- **The request text a held cursor is compared with cannot change under it**: the rpc query handler either decodes the
request into strings of its own or never hands the request buffer to a pool, and `ApplyState` refuses another query
(regenerated; a `defer sc.Collect(reqBody)` beside the weak decoding flips the first fact). -/
theorem held_query_text_is_stable :
    (Generated.C05.rpcQueryRequestLifetime = "weak;kept" ∨ Generated.C05.rpcQueryRequestLifetime = "copied;kept" ∨
      Generated.C05.rpcQueryRequestLifetime = "copied;released") ∧
    Generated.C05.applyStateRefusesOtherQuery = true := by decide

/-- **A request that names a held cursor's id but carries another query is answered from its own query**: the cursor it
is served from carries the builder's filter of the request's own WHERE (or the request is rejected / served empty as
any fresh request would be) — never the held cursor's filter. -/
theorem held_id_other_query_uses_own_filter (env : Env) (held : Held) (qtext : Bytes) (sel : Select) (hs : Bool)
    (hne : held.query ≠ qtext) :
    getOrCreateHeld env held qtext sel hs = getOrCreate env sel hs ∧
    (∀ f, getOrCreateHeld env held qtext sel hs = .ok (.real (some f)) → buildWhere env sel.where_ = .ok f) := by
  have e : getOrCreateHeld env held qtext sel hs = getOrCreate env sel hs := by
    simp [getOrCreateHeld, hne]
  refine ⟨e, fun f h => ?_⟩
  rw [e] at h
  apply query_filter_is_builders env sel hs f
  simp [WhereCallers.query, h]

/-- the same id with the same query text is served from the held cursor (paging) -/
example (env : Env) (held : Held) (sel : Select) (hs : Bool) :
    getOrCreateHeld env held held.query sel hs = .ok (.real held.flt) := by simp [getOrCreateHeld]

/-- **CREATE PIPE / CreatePipe with a filter text that does not parse or has no meaning is rejected and the registry is
unchanged** -/
theorem create_pipe_rejects (env : Env) (parse : Bytes → Option (Option Expr)) (reg : Registry) (name flt : Bytes)
    (h : parse flt = none ∨ ∃ e, parse flt = some (some e) ∧ supported env e = false) :
    (∃ err, (createPipe env parse reg name flt).1 = .error err) ∧ (createPipe env parse reg name flt).2 = reg := by
  unfold createPipe
  by_cases hx : reg.has name = true
  · simp [hx]
  · have hbw : ∃ err, buildWhereText env parse flt = .error err := by
      rcases h with h | ⟨e, hp, hsup⟩
      · exact ⟨.parse, by simp [buildWhereText, h]⟩
      · obtain ⟨err, he⟩ := (where_rejects env e).mpr hsup
        exact ⟨.build err, by simp [buildWhereText, hp, he]⟩
    obtain ⟨err, he⟩ := hbw
    simp [hx, he]

/-- a pipe that is registered carries the builder's filter of its whole filter text -/
theorem create_pipe_registers_builders_filter (env : Env) (parse : Bytes → Option (Option Expr)) (reg : Registry)
    (name flt : Bytes) (h : (createPipe env parse reg name flt).1 = .ok ()) :
    ∃ f, buildWhereText env parse flt = .ok f ∧ (createPipe env parse reg name flt).2 = reg ++ [(name, flt, f)] := by
  unfold createPipe at h ⊢
  by_cases hx : reg.has name = true
  · simp [hx] at h
  · cases hb : buildWhereText env parse flt with
    | error e => simp [hx, hb] at h
    | ok f => exact ⟨f, rfl, by simp [hx]⟩

/-- **EnsurePipe (API) with such a filter for a new name fails and creates nothing**, however many rounds -/
theorem ensure_pipe_rejects (env : Env) (parse : Bytes → Option (Option Expr)) (k : Nat) (reg : Registry) (name flt : Bytes)
    (hn : reg.has name = false)
    (h : parse flt = none ∨ ∃ e, parse flt = some (some e) ∧ supported env e = false) :
    (∃ err, (ensurePipe env parse k reg name flt).1 = .error err) ∧ (ensurePipe env parse k reg name flt).2 = reg := by
  have hf : reg.find? (fun p => p.1 == name) = none := by
    simp only [Registry.has, List.any_eq_false] at hn
    simpa [List.find?_eq_none] using hn
  induction k with
  | zero => exact ⟨⟨.gaveUp, rfl⟩, rfl⟩
  | succ k ih =>
    simp only [ensurePipe, hf, (create_pipe_rejects env parse reg name flt h).2]
    exact ih

/-! ### non-vacuity -/

/-- `fields:a ~ "x"`: an operator without a meaning -/
def eBad : Expr := .cons (.cons (.cond false ⟨idOf [102, 105, 101, 108, 100, 115, 58, 97], [126], [120]⟩) .nil) .nil
example : supported env0 eBad = false := by decide
example : (match query env0 ⟨some eBad, false⟩ true with | .error (.build _) => true | _ => false) = true := by decide
example : (match query env0 ⟨some e0, false⟩ true with | .page (.real (some _)) => true | _ => false) = true := by decide
example : (match (createPipe env0 (fun _ => some (some eBad)) [] [112] [120]) with | (.error _, []) => true | _ => false) = true := by
  decide
example : (match (createPipe env0 (fun _ => some (some e0)) [] [112] [120]) with | (.ok (), [_]) => true | _ => false) = true := by
  decide

end Logrange.Props.C05Callers
