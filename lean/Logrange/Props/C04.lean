import Logrange.Proofs.Mixer
import Logrange.Proofs.MixerGrow
import Logrange.Proofs.MixTree
import Logrange.Proofs.MixerErr
import Logrange.Generated.C04
/-!
# C04 — Multi-partition reads are the complete, correctly attributed, time-ordered merge

Property theorems only (model: `Logrange/Model/Mixer.lean`, `Logrange/Model/MixTree.lean`; lemmas:
`Logrange/Proofs/Mixer.lean`, `Logrange/Proofs/MixTree.lean`). Every theorem here is an obligation of the C04
check; the audit lists their axioms.

Reading guide. `σ` is any leaf iterator meeting the `model.Iterator` contract (`LawfulSource`: `view s` is what
reading `s` alone delivers from where it stands, in its direction `dir s`); `Leaf` — `LogEventIterator` over the
code's in-memory `records.Iterator` — is one (instance in `Proofs/Mixer.lean`, used in the examples). An event
`Ev` carries the tag line it is *reported under* (`tags`), so "the union of the single reads" is also the statement
about attribution: a leaf reports its events under its own tag line and the merge hands events on unchanged.
`It.WF` is the invariant every reachable mixer state satisfies (fresh trees: `newCursor_tree_WF`; preserved by
`Get`/`Next`/`Release`/`SetBackward`: `ops_preserve_WF`).
-/
namespace Logrange.Props.C04
open Logrange.Mixer Logrange.MixTree LawfulSource

variable {σ : Type} [Source σ] [LawfulSource σ]
set_option linter.unusedSectionVars false

/-- forward time order / backward time order of a stream -/
abbrev Ascending (l : List Ev) : Prop := l.Pairwise (fun x y => x.ts ≤ y.ts)
abbrev Descending (l : List Ev) : Prop := l.Pairwise (fun x y => y.ts ≤ x.ts)

/-! ## the regenerated facts are the ones the model is written for -/

/-- `GetJournals` compares `len(res) == maxLimit`, `GetEarliest` is `<=`, `testFunc` negates when backward,
`newCursor` mixes with `GetEarliest` — as read from `/repo` by the extractor on this run. -/
theorem facts :
    Generated.C04.limitCheckOp = "==" ∧ Generated.C04.getEarliestOp = "<=" ∧
    Generated.C04.testFuncNegatesBackward = true ∧ Generated.C04.newCursorUsesGetEarliest = true ∧
    1 ≤ Generated.C04.mergeLimit ∧ Generated.C04.newCursorSortsSources = true ∧
    Generated.C04.applyStateResyncs = true := by decide

/-! ## the pure merge -/

/-- the merge delivers every event of both inputs exactly once -/
theorem mergeSpec_perm (bk : Bool) (a b : List Ev) : (mergeSpec bk a b).Perm (a ++ b) :=
  Logrange.Mixer.mergeSpec_perm bk a b

/-- each input keeps its order -/
theorem mergeSpec_sublists (bk : Bool) (a b : List Ev) :
    a.Sublist (mergeSpec bk a b) ∧ b.Sublist (mergeSpec bk a b) :=
  ⟨mergeSpec_sublist_left bk a b, mergeSpec_sublist_right bk a b⟩

/-- time-ordered inputs give a time-ordered output (forward: ascending) -/
theorem mergeSpec_sorted (a b : List Ev) (ha : Ascending a) (hb : Ascending b) : Ascending (mergeSpec false a b) := by
  have := Logrange.Mixer.mergeSpec_sorted false a b (by simpa only [ord_false, ord_true] using ha) (by simpa only [ord_false, ord_true] using hb)
  simpa only [ord_false, ord_true] using this

/-- … and backward: descending -/
theorem mergeSpec_sorted_backward (a b : List Ev) (ha : Descending a) (hb : Descending b) :
    Descending (mergeSpec true a b) := by
  have := Logrange.Mixer.mergeSpec_sorted true a b (by simpa only [ord_false, ord_true] using ha) (by simpa only [ord_false, ord_true] using hb)
  simpa only [ord_false, ord_true] using this

/-- attribution: the merge invents nothing and relabels nothing — an event of the output *is* an event of one of the
inputs, tag line included -/
theorem mergeSpec_tags (bk : Bool) (a b : List Ev) (e : Ev) : e ∈ mergeSpec bk a b ↔ e ∈ a ∨ e ∈ b :=
  mem_mergeSpec bk a b e

example : mergeSpec false [⟨1, 0, 7⟩, ⟨3, 1, 7⟩] [⟨1, 0, 8⟩, ⟨2, 1, 8⟩] = [⟨1, 0, 7⟩, ⟨1, 0, 8⟩, ⟨2, 1, 8⟩, ⟨3, 1, 7⟩] := by
  simp [mergeSpec, pick]
example : mergeSpec true [⟨3, 1, 7⟩, ⟨1, 0, 7⟩] [⟨2, 1, 8⟩, ⟨1, 0, 8⟩] = [⟨3, 1, 7⟩, ⟨2, 1, 8⟩, ⟨1, 0, 8⟩, ⟨1, 0, 7⟩] := by
  simp [mergeSpec, pick]

/-! ## the stateful mixer refines the pure merge -/

/-- **`Mixer.Init(GetEarliest, a, b)` read to the end is the merge of `a` read to the end and `b` read to the end**
(forward; `a`, `b` any iterators — leaves or mixer trees in any reachable state — running forward; `f` any bound
above the number of events). -/
theorem mixer_refines_merge (a b : It σ) (wa : a.WF) (wb : b.WF) (da : a.dir = false) (db : b.dir = false)
    (f : Nat) (hf : a.view.length + b.view.length < f) :
    (It.init a b).drain f = mergeSpec false (a.drain f) (b.drain f) := by
  have hw := (It.init_WF a b wa wb da db).1
  have hl : (It.init a b).view.length = a.view.length + b.view.length := by
    rw [It.init_view, (Logrange.Mixer.mergeSpec_perm _ _ _).length_eq, List.length_append]
  rw [It.drain_eq_view f _ hw (by omega), It.drain_eq_view f a wa (by omega), It.drain_eq_view f b wb (by omega)]
  rfl

/-- **the mirrored statement backward**: a mixer (in any reachable state) switched to the other direction and read to
the end delivers the merge — with the comparison inverted when the new direction is backward — of its two sources
switched and read to the end. -/
theorem mixer_refines_merge_backward (bk : Bool) (m : MixSt) (a b : It σ) (h : (It.mix m a b).WF) (hb : m.bkwd ≠ bk)
    (f : Nat) (hf : (a.setBackward bk).view.length + (b.setBackward bk).view.length < f) :
    ((It.mix m a b).setBackward bk).drain f =
      mergeSpec bk ((a.setBackward bk).drain f) ((b.setBackward bk).drain f) := by
  have hv := It.setBackward_view bk m a b h hb
  have hw := (It.setBackward_spec bk _ h).1
  obtain ⟨wa, wb, _⟩ := h
  have hl : ((It.mix m a b).setBackward bk).view.length =
      (a.setBackward bk).view.length + (b.setBackward bk).view.length := by
    rw [hv, (Logrange.Mixer.mergeSpec_perm _ _ _).length_eq, List.length_append]
  rw [It.drain_eq_view f _ hw (by omega), It.drain_eq_view f _ (It.setBackward_spec bk a wa).1 (by omega),
    It.drain_eq_view f _ (It.setBackward_spec bk b wb).1 (by omega), hv]

/-- every operation keeps the mixer invariant (so every state a cursor can reach satisfies it) -/
theorem ops_preserve_WF (it : It σ) (h : it.WF) (bk : Bool) :
    it.get.1.WF ∧ it.get.1.next.WF ∧ it.release.WF ∧ (it.setBackward bk).WF ∧ (it.setBackward bk).dir = bk := by
  obtain ⟨_, _, gw, _, gs⟩ := It.get_spec it h
  exact ⟨gw, (It.next_spec _ gw gs).2.1, (It.release_spec it h).2.1, It.setBackward_spec bk it h⟩

/-- `Get` shows the head of the remaining stream without consuming it, the following `Next` consumes exactly it, and
`Release` (which resets the `eof` flags and turns `st = 3` into `0`) changes nothing that will be read -/
theorem get_next_release (it : It σ) (h : it.WF) :
    it.get.2 = it.view.head? ∧ it.get.1.view = it.view ∧ it.get.1.next.view = it.view.tail ∧
    it.release.view = it.view := by
  obtain ⟨g2, gv, gw, _, gs⟩ := It.get_spec it h
  exact ⟨g2, gv, by rw [(It.next_spec _ gw gs).1, gv], (It.release_spec it h).1⟩

-- non-vacuity: a fresh mixer over two in-memory leaves (with a tie) satisfies the hypotheses
example : ∃ a b : It Leaf, a.WF ∧ b.WF ∧ a.dir = false ∧ b.dir = false ∧
    (It.init a b).view = [⟨1, 0, 7⟩, ⟨1, 0, 8⟩, ⟨2, 1, 8⟩, ⟨3, 1, 7⟩] :=
  ⟨.leaf ⟨7, [⟨1, 0⟩, ⟨3, 1⟩], 0, false⟩, .leaf ⟨8, [⟨1, 0⟩, ⟨2, 1⟩], 0, false⟩,
    by simp [It.WF, LawfulSource.wf, Leaf.wf], by simp [It.WF, LawfulSource.wf, Leaf.wf], rfl, rfl,
    by simp [It.init, It.view, LawfulSource.view, Leaf.view, Leaf.ev, mergeSpec, pick]⟩

/-! ## the tree `newCursor` builds -/

/-- **every source exactly once**, for every number `n ≥ 1` of sources (odd, even, beyond any limit) and every order
in which Go's map iteration hands them to `newCursor`: the leaves of the built tree, left to right, are the
sources in that order (in particular a permutation of them). -/
theorem mixTree_leaves [Inhabited σ] (srcs : List σ) (hne : srcs ≠ []) :
    ∃ t, build srcs = some t ∧ t.leaves = srcs ∧ t.leaves.Perm srcs := by
  obtain ⟨t, h1, h2⟩ := build_leaves srcs hne
  exact ⟨t, h1, h2, h2 ▸ List.Perm.refl _⟩

/-- no sources: `errNoSources` -/
theorem mixTree_none [Inhabited σ] : build ([] : List σ) = none := build_none

/-- the tree built from sources that stand ready to be read forward satisfies the mixer invariant -/
theorem newCursor_tree_WF [Inhabited σ] (srcs : List σ) (hw : ∀ s ∈ srcs, wf s ∧ dir s = false)
    (t : It σ) (ht : build srcs = some t) : t.WF ∧ t.dir = false := by
  refine build_all (fun t => t.WF ∧ t.dir = false) ?_ srcs ?_ t ht
  · intro a b ha hb; exact It.init_WF a b ha.1 hb.1 ha.2 hb.2
  · intro s hs; exact hw s hs

/-- **a read over a tree of mixers in any reachable state and either direction** — with `Release` calls wherever a
paged reader or `WaitNewData` puts them — is the union of what its sources deliver alone: a permutation of the
concatenated single reads (complete, nothing twice, tag lines untouched), each source's order kept, and in time
order of the reading direction whenever every source is. -/
theorem read_any_state (it : It σ) (h : it.WF) (rel : Nat → Bool × Bool) (f : Nat) (hf : it.view.length < f) :
    let read := it.drainRel rel f 0
    read.Perm (it.leaves.flatMap view) ∧
    (∀ s ∈ it.leaves, (view s).Sublist read) ∧
    ((∀ s ∈ it.leaves, (view s).Pairwise (ord it.dir)) → read.Pairwise (ord it.dir)) ∧
    (∀ e ∈ read, ∃ s ∈ it.leaves, e ∈ view s) := by
  intro read
  have hr : read = it.view := It.drainRel_eq_view rel f 0 it h hf
  rw [hr]
  refine ⟨It.view_perm_leaves it, It.view_sublist_leaf it, It.view_sorted it h, ?_⟩
  intro e he
  have := (It.view_perm_leaves it).mem_iff.mp he
  simpa [List.mem_flatMap] using this

/-- **C04, forward**: for every `n ≥ 1`, every order of the sources, every content: the cursor's read is a
permutation of the concatenation of the single reads, keeps each source's order, is ascending in time when every
source is, and every event is one a source delivers under its own tag line. -/
theorem multi_read [Inhabited σ] (srcs : List σ) (hne : srcs ≠ []) (hw : ∀ s ∈ srcs, wf s ∧ dir s = false)
    (rel : Nat → Bool × Bool) (f : Nat) (hf : (srcs.flatMap view).length < f) :
    ∃ t, build srcs = some t ∧
      let read := t.drainRel rel f 0
      read.Perm (srcs.flatMap view) ∧
      (∀ s ∈ srcs, (view s).Sublist read) ∧
      ((∀ s ∈ srcs, Ascending (view s)) → Ascending read) ∧
      (∀ e ∈ read, ∃ s ∈ srcs, e ∈ view s) := by
  obtain ⟨t, ht, hl, _⟩ := mixTree_leaves srcs hne
  obtain ⟨tw, td⟩ := newCursor_tree_WF srcs hw t ht
  have hlen : t.view.length < f := by
    rw [(It.view_perm_leaves t).length_eq, hl]; exact hf
  have R := read_any_state t tw rel f hlen
  simp only [hl, td] at R
  refine ⟨t, ht, R.1, R.2.1, ?_, R.2.2.2⟩
  intro hs
  have := R.2.2.1 (by intro s h; simpa only [ord_false, ord_true] using hs s h)
  simpa only [ord_false, ord_true] using this

/-- **C04, backward**: the same cursor switched to the other direction at any moment (from any reachable state):
the read is the union of what the switched sources deliver alone, each source's order kept, descending in time when
every source is. (`(t.setBackward true).leaves` are `t`'s sources after `SetBackward(true)` and `Release`.) -/
theorem multi_read_backward (t : It σ) (h : t.WF) (rel : Nat → Bool × Bool) (f : Nat)
    (hf : (t.setBackward true).view.length < f) :
    let t' := t.setBackward true
    let read := t'.drainRel rel f 0
    read.Perm (t'.leaves.flatMap view) ∧
    (∀ s ∈ t'.leaves, (view s).Sublist read) ∧
    ((∀ s ∈ t'.leaves, Descending (view s)) → Descending read) ∧
    (∀ e ∈ read, ∃ s ∈ t'.leaves, e ∈ view s) := by
  intro t' read
  obtain ⟨tw, td⟩ := It.setBackward_spec true t h
  have R := read_any_state t' tw rel f hf
  simp only [show t'.dir = true from td] at R
  refine ⟨R.1, R.2.1, ?_, R.2.2.2⟩
  intro hs
  have := R.2.2.1 (by intro s h; simpa only [ord_false, ord_true] using hs s h)
  simpa only [ord_false, ord_true] using this

/-- **the read after a direction switch, in terms of the sources before the switch**: a tree in any reachable state running
in direction `¬bk`, switched to `bk` and read (with `Release` calls anywhere): a permutation of what its sources, each switched
to `bk`, deliver alone; each source's order kept; in time order of direction `bk` when every switched source is. -/
theorem read_after_switch (bk : Bool) (t : It σ) (h : t.WF) (hd : t.dir ≠ bk) (rel : Nat → Bool × Bool) (f : Nat)
    (hf : (t.setBackward bk).view.length < f) :
    let sw := fun s => view (Source.setBackward bk s)
    let read := (t.setBackward bk).drainRel rel f 0
    read.Perm (t.leaves.flatMap sw) ∧
    (∀ s ∈ t.leaves, (sw s).Sublist read) ∧
    ((∀ s ∈ t.leaves, (sw s).Pairwise (ord bk)) → read.Pairwise (ord bk)) ∧
    (∀ e ∈ read, ∃ s ∈ t.leaves, e ∈ sw s) := by
  intro sw read
  obtain ⟨tw, td⟩ := It.setBackward_spec bk t h
  have R := read_any_state (t.setBackward bk) tw rel f hf
  have hv := It.setBackward_leaves_views bk t h hd
  simp only [td] at R
  obtain ⟨r1, r2, r3, r4⟩ := R
  have tr : ∀ P : List Ev → Prop, (∀ s ∈ (t.setBackward bk).leaves, P (view s)) ↔ (∀ s ∈ t.leaves, P (sw s)) := by
    intro P
    have e1 : (∀ s ∈ (t.setBackward bk).leaves, P (view s)) ↔ ∀ v ∈ (t.setBackward bk).leaves.map view, P v := by
      simp [List.mem_map]
    have e2 : (∀ s ∈ t.leaves, P (sw s)) ↔ ∀ v ∈ t.leaves.map sw, P v := by simp [List.mem_map]
    rw [e1, e2, hv]
  have fm : (t.setBackward bk).leaves.flatMap view = t.leaves.flatMap sw := by
    rw [List.flatMap_def, List.flatMap_def, hv]
  refine ⟨fm ▸ r1, (tr (fun v => v.Sublist read)).mp r2, ?_, ?_⟩
  · intro hs
    exact r3 ((tr (fun v => v.Pairwise (ord bk))).mpr hs)
  · intro e he
    have := r1.mem_iff.mp he
    rw [fm] at this
    simpa [List.mem_flatMap] using this

/-! ## appends between two pages of one read -/

/-- **records appended behind a page boundary are read, in order, by the same cursor.** A cursor in any reachable state, running
forward, is `Release`d (the end of a page: `crsr.commit`, `WaitNewData`); then the partitions grow: every source `s` becomes
`f s`, where a stream that still had something keeps its head and what shows up in a stream that had ended is later than
everything still undelivered (`It.GrowsTo`; an append of a late record to the in-memory source is one: `Leaf.append_growsTo`).
The mixers are not told. Then the continued read (with further `Release` calls anywhere) is the attributed union of what the
*grown* sources deliver alone: permutation, per-source order, ascending when every grown source is. This is what the reset of the
`eof` flags in `Mixer.Release` is for (`cex_sticky_eof_hides_append`). -/
theorem appends_between_pages (t : It σ) (h : t.WF) (hd : t.dir = false) (f : σ → σ)
    (hf : ∀ s ∈ t.release.leaves, It.GrowsTo t.release.view s (f s))
    (rel : Nat → Bool × Bool) (n : Nat) (hn : ((t.release.mapLeaves f).view).length < n) :
    let t' := t.release.mapLeaves f
    let read := t'.drainRel rel n 0
    t'.WF ∧ t'.leaves = t.release.leaves.map f ∧
    read.Perm (t'.leaves.flatMap view) ∧
    (∀ s ∈ t'.leaves, (view s).Sublist read) ∧
    ((∀ s ∈ t'.leaves, Ascending (view s)) → Ascending read) ∧
    (∀ e ∈ read, ∃ s ∈ t'.leaves, e ∈ view s) := by
  intro t' read
  obtain ⟨_, rw', rd, _⟩ := It.release_spec t h
  obtain ⟨gw, gd, _, _, _⟩ := It.mapLeaves_grow f t.release.view t.release rw' (It.release_Released t)
    (rd.trans hd) (fun x hx => hx) hf
  have R := read_any_state t' gw rel n hn
  simp only [show t'.dir = false from gd] at R
  refine ⟨gw, It.mapLeaves_leaves f _, R.1, R.2.1, ?_, R.2.2.2⟩
  intro hs
  have := R.2.2.1 (by intro s h; simpa only [ord_false, ord_true] using hs s h)
  simpa only [ord_false, ord_true] using this

/-- every mixer a `Release` leaves behind has no `eof` flag set and is not in the "both ended" state -/
theorem release_resets (t : It σ) : t.release.Released := It.release_Released t

/-- why `Release` resets the flags: partition 1 = `[1]`, partition 2 = `[5, 6]`; the first page read `1` and peeked (`eof1` is now
set, source 2 selected). If the flag survived the page boundary (the first tree below: the state before `Release`), a record
`7` appended to partition 1 is not delivered by the continued read; after `Release` (the second tree) it is. -/
theorem cex_sticky_eof_hides_append :
    let a : Leaf := ⟨1, [⟨1, 0⟩], 1, false⟩
    let b : Leaf := ⟨2, [⟨5, 0⟩, ⟨6, 1⟩], 0, false⟩
    let m : MixSt := { st := 2, eof1 := true, le2 := ⟨5, 0, 2⟩ }
    let sticky : It Leaf := (It.mix m (.leaf a) (.leaf b)).modifyLeaf (Leaf.append ⟨7, 1⟩) 0
    let released : It Leaf := (It.mix m (.leaf a) (.leaf b)).release.modifyLeaf (Leaf.append ⟨7, 1⟩) 0
    (It.mix m (.leaf a) (.leaf b)).WF ∧
    sticky.drain 5 = [⟨5, 0, 2⟩, ⟨6, 1, 2⟩] ∧
    released.drain 5 = [⟨5, 0, 2⟩, ⟨6, 1, 2⟩, ⟨7, 1, 1⟩] := by
  refine ⟨by simp [It.WF, It.view, It.dir, It.settled, LawfulSource.wf, LawfulSource.view, LawfulSource.dir,
    LawfulSource.settled, Leaf.wf, Leaf.view, Leaf.settled, Leaf.ev, sel], ?_, ?_⟩ <;>
  simp [It.drain, It.get, It.next, It.release, It.modifyLeaf, It.nleaves, MixSt.selectState, MixSt.fetch1, MixSt.fetch2,
    MixSt.choose, MixSt.out, MixSt.testFunc, getEarliest, Source.get, Source.next, Source.release, Leaf.get, Leaf.next,
    Leaf.release, Leaf.clamp, Leaf.append, Leaf.ev]

/-! ## appends at arbitrary `Get`/`Next` boundaries -/

/-- **appends to partitions the cursor has not exhausted are read in order, whenever they happen.** A cursor in any reachable
state, either direction, at any point between two calls — no `Release` needed —; the partitions grow: every source `s` becomes
`f s`, where a stream that still has something keeps its head (it is extended at its end) and a stream that has ended stays ended
(`It.GrowsLive`; an append to an in-memory partition with undelivered records is one: `Leaf.append_growsLive`; a source that does
not change is one: `It.GrowsLive.refl`). The mixers are not told, and need not be: the invariant holds for the grown tree as it
stands, what `Get` showed before the append is still the head, and the continued read (with `Release` calls anywhere) is the
attributed union of what the *grown* sources deliver alone — permutation, per-source order, time order. -/
theorem appends_at_any_boundary (t : It σ) (h : t.WF) (f : σ → σ)
    (hf : ∀ s ∈ t.leaves, It.GrowsLive s (f s))
    (rel : Nat → Bool × Bool) (n : Nat) (hn : ((t.mapLeaves f).view).length < n) :
    let t' := t.mapLeaves f
    let read := t'.drainRel rel n 0
    t'.WF ∧ t'.leaves = t.leaves.map f ∧ (∀ x, t.view.head? = some x → t'.view.head? = some x) ∧
    read.Perm (t'.leaves.flatMap view) ∧
    (∀ s ∈ t'.leaves, (view s).Sublist read) ∧
    ((∀ s ∈ t'.leaves, (view s).Pairwise (ord t.dir)) → read.Pairwise (ord t.dir)) ∧
    (∀ e ∈ read, ∃ s ∈ t'.leaves, e ∈ view s) := by
  intro t' read
  obtain ⟨gw, gd, _, gh, _⟩ := It.mapLeaves_grow_live f t h hf
  have R := read_any_state t' gw rel n hn
  simp only [show t'.dir = t.dir from gd] at R
  exact ⟨gw, It.mapLeaves_leaves f _, gh, R.1, R.2.1, R.2.2.1, R.2.2.2⟩

/-- **… and that is all the code gives in the middle of a page: a record appended to a partition the cursor HAS exhausted is not
read in order before the next `Release`.** Partition 1 = `[1]`, partition 2 = `[5, 6, 8]`; the reader has taken `1` and been shown
`5` (partition 1 was asked, answered `io.EOF`, its flag is set). Now `7` is appended to partition 1 — later than everything
delivered and than the head shown. Read on without a `Release`: `5, 6, 8` and the end; the `7` comes only after the next `Release`,
behind the `8`: the whole read is out of time order. Had the append happened behind a `Release` (`appends_between_pages`) the
read would be `5, 6, 7, 8`; an append to the partition that has NOT ended (`9` to partition 2) is read in order at once. -/
theorem cex_midpage_append_to_exhausted_partition :
    let a : Leaf := ⟨1, [⟨1, 0⟩], 0, false⟩
    let b : Leaf := ⟨2, [⟨5, 0⟩, ⟨6, 1⟩, ⟨8, 2⟩], 0, false⟩
    let t1 : It Leaf := (It.init (.leaf a) (.leaf b)).get.1.next.get.1
    let mid : It Leaf := t1.modifyLeaf (Leaf.append ⟨7, 1⟩) 0
    t1.get.2 = some ⟨5, 0, 2⟩ ∧
    mid.drain 9 = [⟨5, 0, 2⟩, ⟨6, 1, 2⟩, ⟨8, 2, 2⟩] ∧
    mid.drainRel (fun k => (k == 3, false)) 9 0 = [⟨5, 0, 2⟩, ⟨6, 1, 2⟩, ⟨8, 2, 2⟩, ⟨7, 1, 1⟩] ∧
    (t1.release.modifyLeaf (Leaf.append ⟨7, 1⟩) 0).drain 9 = [⟨5, 0, 2⟩, ⟨6, 1, 2⟩, ⟨7, 1, 1⟩, ⟨8, 2, 2⟩] ∧
    (t1.modifyLeaf (Leaf.append ⟨9, 3⟩) 1).drain 9 = [⟨5, 0, 2⟩, ⟨6, 1, 2⟩, ⟨8, 2, 2⟩, ⟨9, 3, 2⟩] := by
  decide +kernel

-- non-vacuity of `appends_at_any_boundary`: the tree above (a selection pending, an `eof` flag set), `9` appended to the live
-- partition 2, partition 1 untouched
example : ∃ (t : It Leaf) (f : Leaf → Leaf), t.WF ∧ (∀ s ∈ t.leaves, It.GrowsLive s (f s)) ∧
    (t.mapLeaves f).view = [⟨5, 0, 2⟩, ⟨6, 1, 2⟩, ⟨8, 2, 2⟩, ⟨9, 3, 2⟩] := by
  refine ⟨It.mix { st := 2, eof1 := true, le2 := ⟨5, 0, 2⟩ } (.leaf ⟨1, [⟨1, 0⟩], 1, false⟩)
      (.leaf ⟨2, [⟨5, 0⟩, ⟨6, 1⟩, ⟨8, 2⟩], 0, false⟩),
    fun l => if l.tags = 2 then l.append ⟨9, 3⟩ else l, ?_, ?_, ?_⟩
  · simp [It.WF, It.view, It.dir, It.settled, LawfulSource.wf, LawfulSource.view, LawfulSource.dir,
      LawfulSource.settled, Leaf.wf, Leaf.view, Leaf.settled, Leaf.ev, sel]
  · intro s hs
    simp only [It.leaves, List.cons_append, List.nil_append, List.mem_cons, List.not_mem_nil, or_false] at hs
    rcases hs with rfl | rfl
    · simp only [show ¬ ((1 : Nat) = 2) by decide, if_false]
      exact It.GrowsLive.refl _ (by simp [LawfulSource.wf, Leaf.wf])
    · simp only [if_true]
      exact Leaf.append_growsLive _ _ (by simp [LawfulSource.wf, Leaf.wf]) rfl
        (by simp [LawfulSource.view, Leaf.view])
  · simp [It.mapLeaves, It.view, LawfulSource.view, Leaf.view, Leaf.append, Leaf.ev, mergeSpec]

/-! ## re-positioning a held cursor (`crsr.ApplyState`) -/

/-- what `ApplyState` does to the iterator tree when the requested position differs, **as the code is now** (regenerated fact
`applyStateResyncs`): the journal iterators are moved (`g`: `SetPos` on every source, behind the mixers' back), then — if the
code does it unconditionally — the whole tree is switched backward and forward again -/
def applyStatePos (g : σ → σ) (t : It σ) : It σ :=
  if Generated.C04.applyStateResyncs then ((t.mapLeaves g).setBackward true).setBackward false else t.mapLeaves g

/-- **a re-positioned merged cursor serves the merge from the new position.** A cursor in *any* reachable forward state (a
selection pending, `eof` flags set, buffered heads of the old position) whose sources are moved to arbitrary new positions
(`g s` well formed, forward) is, after `ApplyState`, a well-formed tree over the moved sources: its read is a permutation of
what the moved sources deliver alone, keeps each source's order, is ascending when each is — nothing of the old position is
served. Sources: a direction switch there and back does not change what a source will deliver (`hround`), nor does a `Release`
in between (`hrel`); both hold for the in-memory iterator (`leaf_reposition_laws`) — the journal iterators only set a flag. -/
theorem repositioned_cursor_serves_new_position (t : It σ) (h : t.WF) (hd : t.dir = false) (g : σ → σ)
    (hg : ∀ s ∈ t.leaves, wf (g s) ∧ dir (g s) = false)
    (hrel : ∀ s : σ, wf s → view (Source.setBackward false (Source.release s)) = view (Source.setBackward false s))
    (hround : ∀ s : σ, wf s → dir s = false → view (Source.setBackward false (Source.setBackward true s)) = view s)
    (rel : Nat → Bool × Bool) (n : Nat) (hn : (applyStatePos g t).view.length < n) :
    let t' := applyStatePos g t
    let read := t'.drainRel rel n 0
    t'.WF ∧ t'.dir = false ∧ t'.leaves.map view = t.leaves.map (fun s => view (g s)) ∧
    read.Perm (t.leaves.flatMap (fun s => view (g s))) ∧
    (∀ s ∈ t.leaves, (view (g s)).Sublist read) ∧
    ((∀ s ∈ t.leaves, Ascending (view (g s))) → Ascending read) := by
  intro t' read
  have hf : Generated.C04.applyStateResyncs = true := facts.2.2.2.2.2.2
  have et : t' = ((t.mapLeaves g).setBackward true).setBackward false := by
    show applyStatePos g t = _
    unfold applyStatePos; rw [hf]; rfl
  have d0 := It.WF_DirOK t h
  rw [hd] at d0
  have d1 := It.mapLeaves_DirOK g false t d0 hg
  obtain ⟨w2, dir2⟩ := It.setBackward_of_DirOK true false _ d1 (by decide)
  obtain ⟨w3, dir3⟩ := It.setBackward_spec false _ w2
  -- the streams of the sources, through the two switches
  have v3 := It.setBackward_leaves_views false _ w2 (by rw [dir2]; decide)
  have v2 := It.setBackward_leaves_map (fun s => view (Source.setBackward false s)) hrel true false _ d1 (by decide)
  have hv : t'.leaves.map view = t.leaves.map (fun s => view (g s)) := by
    rw [et, v3, v2, It.mapLeaves_leaves, List.map_map]
    apply List.map_congr_left
    intro s hs
    exact hround (g s) (hg s hs).1 (hg s hs).2
  have w' : t'.WF := et ▸ w3
  have dd : t'.dir = false := et ▸ dir3
  have R := read_any_state t' w' rel n hn
  simp only [dd] at R
  obtain ⟨r1, r2, r3, _⟩ := R
  have fm : t'.leaves.flatMap view = t.leaves.flatMap (fun s => view (g s)) := by
    rw [List.flatMap_def, List.flatMap_def, hv]
  have tr : ∀ P : List Ev → Prop, (∀ s ∈ t'.leaves, P (view s)) ↔ (∀ s ∈ t.leaves, P (view (g s))) := by
    intro P
    have e1 : (∀ s ∈ t'.leaves, P (view s)) ↔ ∀ v ∈ t'.leaves.map view, P v := by simp [List.mem_map]
    have e2 : (∀ s ∈ t.leaves, P (view (g s))) ↔ ∀ v ∈ t.leaves.map (fun s => view (g s)), P v := by simp [List.mem_map]
    rw [e1, e2, hv]
  refine ⟨w', dd, hv, fm ▸ r1, (tr (fun v => v.Sublist read)).mp r2, ?_⟩
  intro hs
  have := r3 ((tr (fun v => v.Pairwise (ord false))).mpr (by intro s h; simpa only [ord_false] using hs s h))
  simpa only [ord_false] using this

/-- the in-memory iterator meets the two source hypotheses of `repositioned_cursor_serves_new_position` -/
theorem leaf_reposition_laws (l : Leaf) (hb : l.bkwd = false) :
    view (Source.setBackward false (Source.release l)) = view (Source.setBackward false l) ∧
    view (Source.setBackward false (Source.setBackward true l)) = view l := by
  refine ⟨rfl, ?_⟩
  show (Leaf.setBackward false (Leaf.setBackward true l)).view = l.view
  simp only [Leaf.setBackward, Leaf.view, Bool.false_eq_true, if_false, hb]
  rfl

/-- `Release` is not enough for a re-position: partition 1 = `[1, 3]`, partition 2 = `[2, 4]`; the cursor has read `1` and `2`,
peeked `3` (selected, buffered) and is released; both iterators are moved back to their first record. Without the switch the
read starts with the stale head `3` and `1` comes after it; with `ApplyState`'s switch there and back it is `1, 2, 3, 4`. -/
theorem cex_release_does_not_forget :
    let a : Leaf := ⟨1, [⟨1, 0⟩, ⟨3, 1⟩], 1, false⟩
    let b : Leaf := ⟨2, [⟨2, 0⟩, ⟨4, 1⟩], 1, false⟩
    let m : MixSt := { st := 1, le1 := ⟨3, 1, 1⟩, le2 := ⟨4, 1, 2⟩ }
    let back : Leaf → Leaf := fun l => { l with idx := 0 }
    (It.mix m (.leaf a) (.leaf b)).WF ∧
    (((It.mix m (.leaf a) (.leaf b)).release.mapLeaves back).drain 6).head? = some ⟨3, 1, 1⟩ ∧
    (applyStatePos back (It.mix m (.leaf a) (.leaf b))).drain 6 = [⟨1, 0, 1⟩, ⟨2, 0, 2⟩, ⟨3, 1, 1⟩, ⟨4, 1, 2⟩] := by
  refine ⟨by simp [It.WF, It.view, It.dir, It.settled, LawfulSource.wf, LawfulSource.view, LawfulSource.dir,
    LawfulSource.settled, Leaf.wf, Leaf.view, Leaf.settled, Leaf.ev, sel, pick], ?_, ?_⟩ <;>
  simp [applyStatePos, Generated.C04.applyStateResyncs, It.drain, It.get, It.next, It.release, It.setBackward, It.mapLeaves,
    MixSt.selectState, MixSt.fetch1, MixSt.fetch2, MixSt.choose, MixSt.out, MixSt.testFunc, getEarliest, Source.get,
    Source.next, Source.release, Source.setBackward, Leaf.get, Leaf.next, Leaf.release, Leaf.setBackward, Leaf.clamp, Leaf.ev]

/-! ## a source that fails is not a source that has ended -/

/-- the error model is the proved model when nothing fails: on answers that are events or `io.EOF`, `selectStateE` is
`selectState` and reports no error -/
theorem error_model_extends {α : Type} (m : MixSt) (a b a' b' : α) (oa ob : Option Ev) :
    m.selectStateE a b (a', Res.ofOption oa) (b', Res.ofOption ob) =
      ((m.selectState a b (a', oa) (b', ob)).1, (m.selectState a b (a', oa) (b', ob)).2.1,
       (m.selectState a b (a', oa) (b', ob)).2.2, false) :=
  selectStateE_noerr m a b a' b' oa ob

/-- **an erroring source is never treated as ended**: when a source that is asked answers an error that is not `io.EOF`,
`selectState` returns the error, keeps `st = 0` and does not set that source's `eof` flag (first source: the second is not even
asked; second source: the first one's flag is set only if it really answered `io.EOF`) -/
theorem error_is_not_eof {α : Type} (m : MixSt) (a b : α) (ga gb : α × Res) (h0 : m.st = 0) :
    (m.eof1 = false → ga.2 = .err →
      (m.selectStateE a b ga gb).2.2.2 = true ∧ (m.selectStateE a b ga gb).1.st = 0 ∧
      (m.selectStateE a b ga gb).1.eof1 = false ∧ (m.selectStateE a b ga gb).1.eof2 = m.eof2) ∧
    ((m.eof1 = true ∨ ga.2 ≠ .err) → m.eof2 = false → gb.2 = .err →
      (m.selectStateE a b ga gb).2.2.2 = true ∧ (m.selectStateE a b ga gb).1.st = 0 ∧
      (m.selectStateE a b ga gb).1.eof2 = false ∧
      ((m.selectStateE a b ga gb).1.eof1 = true → m.eof1 = true ∨ ga.2 = .eof)) := by
  constructor
  · intro he hg
    obtain ⟨e1, e2, e3, e4, _⟩ := selectStateE_err1 m a b ga gb h0 he hg
    exact ⟨e1, e2, e3, e4⟩
  · intro h1 he hg
    obtain ⟨e1, e2, e3, _, _, e6⟩ := selectStateE_err2 m a b ga gb h0 h1 he hg
    exact ⟨e1, e2, e3, e6⟩

/-- **the query fails instead of silently reading a subset**: while a source the mixers would ask keeps failing (`P`: states in
which its `Get` answers a non-EOF error and stays there — a record that cannot be read), every `Get` of the tree answers the
error, and afterwards that source would still be asked: the tree never goes on to deliver the merge of the other sources. -/
theorem failing_source_blocks_read {τ : Type} [SourceE τ] (P : τ → Prop)
    (hP : ∀ s, P s → (SourceE.getE s).2 = .err ∧ P (SourceE.getE s).1)
    (t : It τ) (h : t.Blocked P) : t.getE.2 = .err ∧ t.getE.1.Blocked P ∧ t.getE.1.getE.2 = .err := by
  obtain ⟨h1, h2⟩ := It.getE_blocked P hP t h
  exact ⟨h1, h2, (It.getE_blocked P hP _ h2).1⟩

-- non-vacuity: a fresh mixer over an in-memory source whose first record cannot be read, and a healthy one
example : ∃ t : It LeafE, t.Blocked LeafE.Stuck ∧ (∀ s, LeafE.Stuck s → (SourceE.getE s).2 = .err ∧ LeafE.Stuck (SourceE.getE s).1) :=
  ⟨It.init (.leaf { l := ⟨1, [⟨5, 0⟩], 0, false⟩, bad := [0] }) (.leaf { l := ⟨2, [⟨1, 0⟩], 0, false⟩ }),
    by simp [It.init, It.Blocked, LeafE.Stuck, Leaf.clamp], LeafE.stuck_getE⟩

/-- the in-memory leaf reports every event under its own tag line (with `multi_read`: every event of a merged read
carries the tag line of the partition it is stored in) -/
theorem leaf_attribution (l : Leaf) (e : Ev) (h : e ∈ view l) : e.tags = l.tags := by
  simp only [LawfulSource.view, Leaf.view] at h
  split at h <;> (simp only [List.mem_map] at h; obtain ⟨r, _, rfl⟩ := h; rfl)

-- non-vacuity: three in-memory partitions (one empty, a tie across partitions) meet the hypotheses of `multi_read`
example : ∃ srcs : List Leaf, srcs ≠ [] ∧ srcs.length = 3 ∧ (∀ s ∈ srcs, wf s ∧ dir s = false) ∧
    (∀ s ∈ srcs, Ascending (view s)) :=
  ⟨[⟨1, [⟨1, 0⟩, ⟨2, 1⟩], 0, false⟩, ⟨2, [], 0, false⟩, ⟨3, [⟨1, 0⟩, ⟨9, 1⟩], 0, false⟩], by simp, rfl,
    by simp [LawfulSource.wf, LawfulSource.dir, Leaf.wf],
    by simp [LawfulSource.view, Leaf.view, Leaf.ev]⟩

/-! ## the order of the sources is the tag-line order (repair of finding #23) -/

/-- the iterator `newCursor` builds **as the code is now** (with the regenerated fact whether it sorts the tag lines) for a map
`srcs` that Go happens to iterate in `mapOrder` -/
def cursorTree [Inhabited σ] (mapOrder : List (Bytes × σ)) : Option (It σ) :=
  buildFromMap Generated.C04.newCursorSortsSources mapOrder

/-- **two cursor incarnations over the same partition set build the same tree**: whatever two orders Go's map iteration
produces (`o1`, `o2`: permutations of one another, keys distinct as map keys are), the tree — shape, leaf order, everything —
is the same, hence so is every answer of every operation sequence, in particular the order among equal timestamps of
different partitions. -/
theorem merged_order_deterministic [Inhabited σ] (o1 o2 : List (Bytes × σ)) (hp : o1.Perm o2)
    (hn : (o1.map (·.1)).Nodup) : cursorTree o1 = cursorTree o2 := by
  have hf : Generated.C04.newCursorSortsSources = true := facts.2.2.2.2.2.1
  unfold cursorTree buildFromMap sourceOrder
  rw [hf]
  simp only [if_true]
  rw [sortLines_order_independent o1 o2 hp hn]

/-- … and the priority is the tag-line order: the leaves of the tree, left to right, are the sources in ascending Go string
order of their tag lines (each exactly once) -/
theorem source_priority_is_tag_line_order [Inhabited σ] (mapOrder : List (Bytes × σ)) (hne : mapOrder ≠ []) :
    ∃ (t : It σ) (sorted : List (Bytes × σ)), cursorTree mapOrder = some t ∧ t.leaves = sorted.map (·.2) ∧ sorted.Perm mapOrder ∧
      sorted.Pairwise (fun a b => Go.bytesLe a.1 b.1 = true) := by
  have hf : Generated.C04.newCursorSortsSources = true := facts.2.2.2.2.2.1
  have hne' : (sortLines mapOrder).map (·.2) ≠ [] := by
    intro h
    have := (sortLines_perm mapOrder).length_eq
    have h0 : ((sortLines mapOrder).map (·.2)).length = 0 := by rw [h]; rfl
    rw [List.length_map] at h0
    cases mapOrder with
    | nil => exact hne rfl
    | cons x xs => simp at this; omega
  obtain ⟨t, h1, h2⟩ := build_leaves _ hne'
  refine ⟨t, sortLines mapOrder, ?_, h2, sortLines_perm _, sortLines_sorted _⟩
  unfold cursorTree buildFromMap sourceOrder
  rw [hf]; exact h1

/-- how ties are broken: among equal timestamps the left source (the smaller tag line) goes first forward, the right one
(the greater tag line) first backward — one total order `(ts, tag-line rank, stored position)` walked in both directions -/
theorem tie_priority (x y : Ev) (xs ys : List Ev) (h : x.ts = y.ts) :
    mergeSpec false (x :: xs) (y :: ys) = x :: mergeSpec false xs (y :: ys) ∧
    mergeSpec true (x :: xs) (y :: ys) = y :: mergeSpec true (x :: xs) ys := by
  constructor <;> rw [mergeSpec_cons_cons] <;> simp [pick, h]

/-- the same map in two iteration orders; the *old* code (no sorting: `buildFromMap false`) built two different trees, with the
tie between the two partitions broken differently — what finding #23 was -/
theorem cex_unsorted_order_dependent :
    let a : Leaf := ⟨1, [⟨5, 0⟩], 0, false⟩
    let b : Leaf := ⟨2, [⟨5, 0⟩], 0, false⟩
    (buildFromMap false [([97], a), ([98], b)]).map It.view = some [⟨5, 0, 1⟩, ⟨5, 0, 2⟩] ∧
    (buildFromMap false [([98], b), ([97], a)]).map It.view = some [⟨5, 0, 2⟩, ⟨5, 0, 1⟩] ∧
    (cursorTree [([98], b), ([97], a)]).map It.view = some [⟨5, 0, 1⟩, ⟨5, 0, 2⟩] := by
  simp [cursorTree, buildFromMap, sourceOrder, sortLines, insertLine, Go.bytesLe, Go.bytesLt, build, reduce, round,
    pairLoop, It.init, It.view, LawfulSource.view, Leaf.view, Leaf.ev, mergeSpec, pick, Generated.C04.newCursorSortsSources]

-- non-vacuity: three map entries in two different iteration orders
example : ([([98], (0 : Nat)), ([97], 1), ([99], 2)] : List (Bytes × Nat)).Perm [([99], 2), ([98], 0), ([97], 1)] ∧
    (([([98], (0 : Nat)), ([97], 1), ([99], 2)] : List (Bytes × Nat)).map (·.1)).Nodup := by
  refine ⟨?_, by decide⟩
  exact List.perm_iff_count.mpr (by intro x; simp only [List.count_cons, List.count_nil]; omega)

/-! ## the merge limit -/

/-- **too many matching partitions: the query fails and nothing stays acquired.** `GetJournals` with the limit
`newCursor` passes (regenerated: 50) over `matching` (the partitions `tindex.Visit` walks, any order) fails as soon
as the count *reaches* the limit — so certainly for more than the limit, which is what the property demands — and
hands back the reader counts exactly as it found them. -/
theorem limit_fails (matching : List Part) (rd : Readers) (hnd : (matching.map (·.line)).Nodup)
    (hlim : Generated.C04.mergeLimit ≤ matching.length) :
    getJournals Generated.C04.mergeLimit matching rd = (rd, none) :=
  getJournals_limit_fails _ matching rd facts.2.2.2.2.1 hnd hlim

/-- below the limit every matching partition is acquired exactly once and returned: no silent subset -/
theorem under_limit_all (matching : List Part) (rd : Readers) (hnd : (matching.map (·.line)).Nodup)
    (hlim : matching.length < Generated.C04.mergeLimit) :
    getJournals Generated.C04.mergeLimit matching rd =
      (matching.foldl (fun r p => acquire r p.src) rd, some matching) :=
  getJournals_under_limit _ matching rd hnd hlim

/-- remark (not a finding): exactly `limit` partitions already fail, although the property only demands failure for
more than the limit -/
theorem remark_fails_at_exactly_the_limit :
    (getJournals 2 [⟨0, 0⟩, ⟨1, 1⟩] (fun _ => 0)).2 = none ∧ (getJournals 2 [⟨0, 0⟩] (fun _ => 0)).2 = some [⟨0, 0⟩] := by
  simp [getJournals, visitLoop, mapPut]

end Logrange.Props.C04
