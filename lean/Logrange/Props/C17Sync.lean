import Logrange.Proofs.ScanSync
/-!
# C17 (sync): a file replaced under the same name is read once, from its beginning, by a worker that reads THAT file

Property theorems over `Model/ScanSync.lean` (scan, merge, open as separate steps of `Scanner.sync`; `replace` can fall
anywhere). Proofs: the invariant `YInv` of `Proofs/ScanSync.lean`. The one excluded timing — a replacement between the
scan and the open of one sync, ghost `hit` — is a finding: `cex_replaced_between_scan_and_open`.
-/
namespace Logrange.Props.C17Sync
open Logrange.ScanSync

/-- a worker reads the inode its descriptor is stored under — for replacements between two syncs, while a worker reads,
any number of times between two scans; the only excluded timing is a replacement between the scan and the open of one
sync (`hit`) -/
theorem worker_reads_the_file_its_descriptor_names (off : Nat) (tr : List L) :
    let w := run (initWith off) tr
    w.hit = false → ∀ d ∈ workers w, ∀ o, d.opened = some o → o = d.key := by
  intro w hh
  exact (yinv_run (yinv_initWith off) tr).openedEq hh

/-- non-vacuity: replaced twice between two syncs: no `hit`; the new inode's worker has the new inode open, the retired
worker of inode 0 (resumed at the saved offset 17) keeps inode 0 -/
example :
    (run (initWith 17) (sync ++ [.replace, .replace] ++ sync)).hit = false ∧
    (run (initWith 17) (sync ++ [.replace, .replace] ++ sync)).descs = [⟨2, some 2, 0⟩] ∧
    (run (initWith 17) (sync ++ [.replace, .replace] ++ sync)).retired = [⟨0, some 0, 17⟩] := by decide

/-- read once: no two workers (current or draining) were started on the same inode -/
theorem no_inode_read_by_two_workers (off : Nat) (tr : List L) :
    let w := run (initWith off) tr
    w.hit = false →
    (workers w).Pairwise (fun a b => a.key ≠ b.key) ∧
    (workers w).Pairwise (fun a b => ∀ o, a.opened = some o → b.opened ≠ some o) := by
  intro w hh
  have h := yinv_run (yinv_initWith off) tr
  exact ⟨h.keysDistinct, h.openedDistinct hh⟩

/-- non-vacuity: three workers (one current, two draining) after a replacement between every two syncs, no `hit` -/
example :
    (run (initWith 17) (sync ++ [.replace] ++ sync ++ [.replace, .replace] ++ sync)).hit = false ∧
    workers (run (initWith 17) (sync ++ [.replace] ++ sync ++ [.replace, .replace] ++ sync)) =
      [⟨3, some 3, 0⟩, ⟨0, some 0, 17⟩, ⟨1, some 1, 0⟩] := by decide

/-- the first half holds with or without `hit`: a retired key never comes back, whatever the timing -/
theorem no_two_descriptors_under_one_key (off : Nat) (tr : List L) :
    (workers (run (initWith off) tr)).Pairwise (fun a b => a.key ≠ b.key) :=
  (yinv_run (yinv_initWith off) tr).keysDistinct

/-- from its beginning: only the inode the state file named is resumed at a saved offset; every file that came under the
name later is read from offset 0 -/
theorem replaced_file_read_from_its_beginning (off : Nat) (tr : List L) :
    let w := run (initWith off) tr
    ∀ d ∈ workers w, d.key ≠ 0 → d.offset0 = 0 := by
  intro w
  exact (yinv_run (yinv_initWith off) tr).offZero

/-- non-vacuity: replaced while the state file's inode was never synced in this session (before any sync): the new
inode is read from 0, the saved offset 17 stays with inode 0, whose descriptor leaves without ever getting a worker -/
example :
    (run (initWith 17) ([.replace] ++ sync)).hit = false ∧
    (run (initWith 17) ([.replace] ++ sync)).descs = [⟨1, some 1, 0⟩] ∧
    (run (initWith 17) ([.replace] ++ sync)).retired = [⟨0, none, 17⟩] := by decide

/-- non-vacuity: no replacement: the state file's inode is resumed at the saved offset and kept by every later sync -/
example :
    (run (initWith 17) (sync ++ sync)).hit = false ∧
    (run (initWith 17) (sync ++ sync)).descs = [⟨0, some 0, 17⟩] ∧
    (run (initWith 17) (sync ++ sync)).retired = [] := by decide

/-- whatever happened before — any number of replacements at any time outside a scan-to-open window —, one sync without
a replacement inside leaves exactly one descriptor: it names the inode under the name, its worker has that inode open,
and unless that is still the inode the state file named it reads from offset 0 -/
theorem quiet_sync_watches_current_file (off : Nat) (tr : List L) :
    let w0 := run (initWith off) tr
    let w := run w0 sync
    w0.hit = false → w.hit = false ∧ w.cur = w0.cur ∧
      ∃ d, w.descs = [d] ∧ d.key = w.cur ∧ d.opened = some w.cur ∧ (w.cur ≠ 0 → d.offset0 = 0) := by
  intro w0 w hh
  have h : YInv w0 := yinv_run (yinv_initWith off) tr
  obtain ⟨h1, h2, d, h3, h4, h5, h6⟩ := h.quiet_sync hh
  have h2' : w.cur = w0.cur := h2
  refine ⟨h1, h2', d, h3, ?_, ?_, ?_⟩
  · rw [h2']; exact h4
  · rw [h2']; exact h5
  · rw [h2']; exact h6

/-- non-vacuity: the trace before the sync ends in the middle of an earlier sync (scan done, merge and open not), with
replacements before it and while the first worker reads; the complete sync that follows watches inode 2 from 0 -/
example :
    (run (initWith 17) (sync ++ [.replace, .replace, .scan])).hit = false ∧
    (run (run (initWith 17) (sync ++ [.replace, .replace, .scan])) sync).hit = false ∧
    (run (run (initWith 17) (sync ++ [.replace, .replace, .scan])) sync).cur = 2 ∧
    (run (run (initWith 17) (sync ++ [.replace, .replace, .scan])) sync).descs = [⟨2, some 2, 0⟩] := by decide

/-- non-vacuity: the trace before ends between merge and open (the descriptor is there, its worker is not) -/
example :
    (run (initWith 17) ([.replace, .scan, .merge])).hit = false ∧
    (run (initWith 17) ([.replace, .scan, .merge])).descs = [⟨1, none, 0⟩] ∧
    (run (run (initWith 17) ([.replace, .scan, .merge])) sync).descs = [⟨1, some 1, 0⟩] := by decide

/-- the excluded timing (open finding): the name is replaced between scanPaths' stat and the open of the worker: the
descriptor of the OLD inode gets a worker that opens the path — the NEW inode — from 0; the next sync adds the new
inode's own descriptor and a second worker from 0: the new file is shipped twice, the file the scan saw never -/
theorem cex_replaced_between_scan_and_open :
    let w := run init [.scan, .replace, .merge, .open, .scan, .merge, .open]
    w.hit = true ∧ w.descs = [⟨1, some 1, 0⟩] ∧ w.retired = [⟨0, some 1, 0⟩] := by decide

/-- so without `hit = false` both `worker_reads_the_file_its_descriptor_names` and the second half of
`no_inode_read_by_two_workers` fail: the worker under key 0 reads inode 1, and inode 1 is open in two workers -/
example :
    ∃ d ∈ workers (run init [.scan, .replace, .merge, .open, .scan, .merge, .open]),
      ∃ o, d.opened = some o ∧ o ≠ d.key :=
  ⟨⟨0, some 1, 0⟩, by decide, 1, by decide⟩

end Logrange.Props.C17Sync
