import Logrange.Proofs.ScanSync
import Logrange.Generated.C17
/-!
# C17 (sync): a file replaced under the same name is read once, from its beginning, by a worker that reads THAT file

Property theorems over `Model/ScanSync.lean` (scan, merge, open, check as separate steps of `Scanner.sync`; `replace`
can fall anywhere). Proofs: the invariant `YInv c` of `Proofs/ScanSync.lean`, for both branches of `Cfg.checksId`.
Since fix 5ccf34b the worker's open is followed by a second stat of the path and a comparison of its file id with the
descriptor's (`codeSync`): the theorems hold for EVERY timing of replacements. The code before the fix (`⟨false⟩`) is
kept as the other branch: there a replacement between the scan and the open of one sync (ghost `hit`) had to be
excluded — fixed finding F-C17-901, `cex_replaced_between_scan_and_open`.
-/
namespace Logrange.Props.C17Sync
open Logrange.ScanSync

/-- the `Scanner.sync` the code has now: the worker's open is followed by the file-id check -/
def codeSync : Cfg := ⟨Generated.C17.workerOpenChecksFileId⟩   -- regenerated from the source on every run

theorem codeSync_checks : codeSync.checksId = true := by decide

/-- (fix 5ccf34b) UNCONDITIONAL now: whatever the timing of replacements — between two syncs, while a worker reads, any
number of times between two scans, and also between the scan and the open or between the open and the id check of one
sync — a worker reads the inode its descriptor is stored under -/
theorem worker_reads_the_file_its_descriptor_names (off : Nat) (tr : List L) :
    let w := run codeSync (initWith off) tr
    ∀ d ∈ workers w, ∀ o, d.opened = some o → o = d.key := by
  intro w
  exact (yinv_run (yinv_initWith codeSync off) tr).openedEq (Or.inl codeSync_checks)

/-- non-vacuity: replaced twice between two syncs: the new inode's worker has the new inode open, the retired worker of
inode 0 (resumed at the saved offset 17) keeps inode 0 -/
example :
    (run codeSync (initWith 17) (sync ++ [.replace, .replace] ++ sync)).hit = false ∧
    (run codeSync (initWith 17) (sync ++ [.replace, .replace] ++ sync)).descs = [⟨2, some 2, 0⟩] ∧
    (run codeSync (initWith 17) (sync ++ [.replace, .replace] ++ sync)).retired = [⟨0, some 0, 17⟩] := by decide

/-- non-vacuity, a `hit` history: replaced between the open (the parser has inode 0 open) and the id check (the name
shows inode 1): the check closes the parser, descriptor 0 stays without a worker; the next sync forgets it (retired,
never opened) and starts ONE worker on inode 1 from 0 -/
example :
    (run codeSync init [.scan, .merge, .open, .replace, .check]).hit = true ∧
    (run codeSync init [.scan, .merge, .open, .replace, .check]).descs = [⟨0, none, 0⟩] ∧
    (run codeSync init [.scan, .merge, .open, .replace, .check]).retired = [] ∧
    (run codeSync init ([.scan, .merge, .open, .replace, .check] ++ sync)).descs = [⟨1, some 1, 0⟩] ∧
    (run codeSync init ([.scan, .merge, .open, .replace, .check] ++ sync)).retired = [⟨0, none, 0⟩] := by decide

/-- non-vacuity, a `hit` history with a worker that stays: inode 0 is synced (worker from the saved offset 17), then a
replacement falls between the open and the check of the NEXT sync: the old worker is retired with inode 0 still open,
the new descriptor's open is rejected once, the sync after that starts it -/
example :
    (run codeSync (initWith 17) (sync ++ [.replace, .scan, .merge, .open, .replace, .check])).hit = true ∧
    (run codeSync (initWith 17) (sync ++ [.replace, .scan, .merge, .open, .replace, .check])).descs =
      [⟨1, none, 0⟩] ∧
    (run codeSync (initWith 17) (sync ++ [.replace, .scan, .merge, .open, .replace, .check])).retired =
      [⟨0, some 0, 17⟩] ∧
    workers (run codeSync (initWith 17) (sync ++ [.replace, .scan, .merge, .open, .replace, .check] ++ sync)) =
      [⟨2, some 2, 0⟩, ⟨0, some 0, 17⟩, ⟨1, none, 0⟩] := by decide

/-- read once: no two workers (current or draining) were started on the same inode — unconditional with the id check -/
theorem no_inode_read_by_two_workers (off : Nat) (tr : List L) :
    let w := run codeSync (initWith off) tr
    (workers w).Pairwise (fun a b => a.key ≠ b.key) ∧
    (workers w).Pairwise (fun a b => ∀ o, a.opened = some o → b.opened ≠ some o) := by
  intro w
  have h := yinv_run (yinv_initWith codeSync off) tr
  exact ⟨h.keysDistinct, h.openedDistinct (Or.inl codeSync_checks)⟩

/-- non-vacuity: three workers (one current, two draining) after a replacement between every two syncs -/
example :
    workers (run codeSync (initWith 17) (sync ++ [.replace] ++ sync ++ [.replace, .replace] ++ sync)) =
      [⟨3, some 3, 0⟩, ⟨0, some 0, 17⟩, ⟨1, some 1, 0⟩] := by decide

/-- non-vacuity: the same with the first replacement INSIDE a sync (between scan and merge): inode 1 is still opened
only once, under key 1 -/
example :
    (run codeSync (initWith 17) (sync ++ [.scan, .replace, .merge, .open, .check] ++ sync ++ [.replace] ++ sync)).hit
      = true ∧
    workers (run codeSync (initWith 17) (sync ++ [.scan, .replace, .merge, .open, .check] ++ sync ++ [.replace] ++ sync))
      = [⟨2, some 2, 0⟩, ⟨0, some 0, 17⟩, ⟨1, some 1, 0⟩] := by decide

/-- both branches, with or without `hit`: a retired key never comes back, whatever the timing -/
theorem no_two_descriptors_under_one_key (c : Cfg) (off : Nat) (tr : List L) :
    (workers (run c (initWith off) tr)).Pairwise (fun a b => a.key ≠ b.key) :=
  (yinv_run (yinv_initWith c off) tr).keysDistinct

/-- non-vacuity: the old code's bad schedule still has two descriptors under two keys (0 and 1) -/
example :
    workers (run ⟨false⟩ init [.scan, .replace, .merge, .open, .check, .scan, .merge, .open, .check]) =
      [⟨1, some 1, 0⟩, ⟨0, some 1, 0⟩] := by decide

/-- from its beginning (both branches): only the inode the state file named is resumed at a saved offset; every file
that came under the name later is read from offset 0 -/
theorem replaced_file_read_from_its_beginning (c : Cfg) (off : Nat) (tr : List L) :
    let w := run c (initWith off) tr
    ∀ d ∈ workers w, d.key ≠ 0 → d.offset0 = 0 := by
  intro w
  exact (yinv_run (yinv_initWith c off) tr).offZero

/-- non-vacuity: replaced while the state file's inode was never synced in this session (before any sync): the new
inode is read from 0, the saved offset 17 stays with inode 0, whose descriptor leaves without ever getting a worker -/
example :
    (run codeSync (initWith 17) ([.replace] ++ sync)).hit = false ∧
    (run codeSync (initWith 17) ([.replace] ++ sync)).descs = [⟨1, some 1, 0⟩] ∧
    (run codeSync (initWith 17) ([.replace] ++ sync)).retired = [⟨0, none, 17⟩] := by decide

/-- non-vacuity: no replacement: the state file's inode is resumed at the saved offset and kept by every later sync -/
example :
    (run codeSync (initWith 17) (sync ++ sync)).hit = false ∧
    (run codeSync (initWith 17) (sync ++ sync)).descs = [⟨0, some 0, 17⟩] ∧
    (run codeSync (initWith 17) (sync ++ sync)).retired = [] := by decide

/-- after ANY history (also one with replacements inside sync windows, rejected opens, a sync broken off with the
parser still open), one sync without a replacement inside leaves exactly one descriptor: it names the inode under the
name, its worker has that inode open, and unless that is still the inode the state file named it reads from offset 0 -/
theorem quiet_sync_watches_current_file (off : Nat) (tr : List L) :
    let w0 := run codeSync (initWith off) tr
    let w := run codeSync w0 sync
    w.cur = w0.cur ∧ ∃ d, w.descs = [d] ∧ d.key = w.cur ∧ d.opened = some w.cur ∧ (w.cur ≠ 0 → d.offset0 = 0) := by
  intro w0 w
  have h : YInv codeSync w0 := yinv_run (yinv_initWith codeSync off) tr
  obtain ⟨_, h2, _, _, d, h3, h4, h5, h6⟩ := h.quiet_sync (Or.inl codeSync_checks)
  have h2' : w.cur = w0.cur := h2
  refine ⟨h2', d, h3, ?_, ?_, ?_⟩
  · rw [h2']; exact h4
  · rw [h2']; exact h5
  · rw [h2']; exact h6

/-- non-vacuity: the trace before the sync ends with a rejected open (`hit`, descriptor 0 without a worker) -/
example :
    (run codeSync (initWith 17) [.scan, .replace, .merge, .open, .check]).hit = true ∧
    (run codeSync (initWith 17) [.scan, .replace, .merge, .open, .check]).descs = [⟨0, none, 17⟩] ∧
    (run (codeSync) (run codeSync (initWith 17) [.scan, .replace, .merge, .open, .check]) sync).descs =
      [⟨1, some 1, 0⟩] ∧
    (run (codeSync) (run codeSync (initWith 17) [.scan, .replace, .merge, .open, .check]) sync).retired =
      [⟨0, none, 17⟩] := by decide

/-- non-vacuity: the trace before ends with the parser open and the id check pending (`probe`), after a replacement
inside that sync: the new sync's scan drops the pending parser -/
example :
    (run codeSync (initWith 17) (sync ++ [.replace, .scan, .replace, .merge, .open])).probe = some 2 ∧
    (run codeSync (initWith 17) (sync ++ [.replace, .scan, .replace, .merge, .open])).descs = [⟨1, none, 0⟩] ∧
    (run codeSync (run codeSync (initWith 17) (sync ++ [.replace, .scan, .replace, .merge, .open])) sync).cur = 2 ∧
    (run codeSync (run codeSync (initWith 17) (sync ++ [.replace, .scan, .replace, .merge, .open])) sync).descs =
      [⟨2, some 2, 0⟩] ∧
    (run codeSync (run codeSync (initWith 17) (sync ++ [.replace, .scan, .replace, .merge, .open])) sync).retired =
      [⟨0, some 0, 17⟩, ⟨1, none, 0⟩] := by decide

/-- non-vacuity: the trace before ends in the middle of an earlier sync (scan done, merge and open not) / between merge
and open (the descriptor is there, its worker is not) -/
example :
    (run codeSync (run codeSync (initWith 17) (sync ++ [.replace, .replace, .scan])) sync).descs =
      [⟨2, some 2, 0⟩] ∧
    (run codeSync (initWith 17) ([.replace, .scan, .merge])).descs = [⟨1, none, 0⟩] ∧
    (run codeSync (run codeSync (initWith 17) ([.replace, .scan, .merge])) sync).descs = [⟨1, some 1, 0⟩] := by
  decide

/-- the old code (no id check), kept as the other branch: the theorems above need `hit = false` there -/
theorem old_code_needs_quiet_window (off : Nat) (tr : List L) :
    let w := run ⟨false⟩ (initWith off) tr
    w.hit = false → ∀ d ∈ workers w, ∀ o, d.opened = some o → o = d.key := by
  intro w hh
  exact (yinv_run (yinv_initWith ⟨false⟩ off) tr).openedEq (Or.inr hh)

/-- the old code, the other two: no inode open in two workers, and a quiet sync watches the current file, from a
history without `hit` -/
theorem old_code_quiet_sync (off : Nat) (tr : List L) :
    let w0 := run ⟨false⟩ (initWith off) tr
    let w := run ⟨false⟩ w0 sync
    w0.hit = false →
      (workers w0).Pairwise (fun a b => ∀ o, a.opened = some o → b.opened ≠ some o) ∧
      w.hit = false ∧ w.cur = w0.cur ∧
      ∃ d, w.descs = [d] ∧ d.key = w.cur ∧ d.opened = some w.cur ∧ (w.cur ≠ 0 → d.offset0 = 0) := by
  intro w0 w hh
  have h : YInv ⟨false⟩ w0 := yinv_run (yinv_initWith ⟨false⟩ off) tr
  obtain ⟨h1, h2, _, _, d, h3, h4, h5, h6⟩ := h.quiet_sync (Or.inr hh)
  have h2' : w.cur = w0.cur := h2
  refine ⟨h.openedDistinct (Or.inr hh), h1.trans hh, h2', d, h3, ?_, ?_, ?_⟩
  · rw [h2']; exact h4
  · rw [h2']; exact h5
  · rw [h2']; exact h6

/-- non-vacuity: the old code without a replacement inside a window behaves like the new one -/
example :
    (run ⟨false⟩ (initWith 17) (sync ++ [.replace, .replace] ++ sync)).hit = false ∧
    (run ⟨false⟩ (initWith 17) (sync ++ [.replace, .replace] ++ sync)).descs = [⟨2, some 2, 0⟩] ∧
    (run ⟨false⟩ (initWith 17) (sync ++ [.replace, .replace] ++ sync)).retired = [⟨0, some 0, 17⟩] := by decide

/-- fixed finding F-C17-901, kept as the behaviour of the code before fix 5ccf34b: the name is replaced between
scanPaths' stat and the open of the worker: the descriptor of the OLD inode gets a worker that opens the path — the NEW
inode — from 0; the next sync adds the new inode's own descriptor and a second worker from 0: the new file is shipped
twice, the file the scan saw never -/
theorem cex_replaced_between_scan_and_open :
    let w := run ⟨false⟩ init [.scan, .replace, .merge, .open, .check, .scan, .merge, .open, .check]
    w.hit = true ∧ w.descs = [⟨1, some 1, 0⟩] ∧ w.retired = [⟨0, some 1, 0⟩] := by decide

/-- so for the old code without `hit = false` both `worker_reads_the_file_its_descriptor_names` and the second half of
`no_inode_read_by_two_workers` fail: the worker under key 0 reads inode 1, and inode 1 is open in two workers -/
example :
    ∃ d ∈ workers (run ⟨false⟩ init [.scan, .replace, .merge, .open, .check, .scan, .merge, .open, .check]),
      ∃ o, d.opened = some o ∧ o ≠ d.key :=
  ⟨⟨0, some 1, 0⟩, by decide, 1, by decide⟩

/-- the same schedule with the id check: the open of the first sync is rejected (descriptor 0 never gets a worker), the
second sync starts ONE worker on the new inode -/
theorem fixed_replaced_between_scan_and_open :
    let w := run ⟨true⟩ init [.scan, .replace, .merge, .open, .check, .scan, .merge, .open, .check]
    w.hit = true ∧ w.descs = [⟨1, some 1, 0⟩] ∧ w.retired = [⟨0, none, 0⟩] := by decide

/-- and `codeSync` is that branch -/
example :
    run codeSync init [.scan, .replace, .merge, .open, .check, .scan, .merge, .open, .check] =
      run ⟨true⟩ init [.scan, .replace, .merge, .open, .check, .scan, .merge, .open, .check] := by decide

end Logrange.Props.C17Sync
