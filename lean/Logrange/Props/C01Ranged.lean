import Logrange.Props.C01E2E
import Logrange.Proofs.WriteReadRanged
/-!
# C01 — the end-to-end theorem with a time range, and through `backend.Querier`

Property theorems only (models `Model/WriteReadE2E.lean`, `Model/WriteReadRanged.lean`; lemmas `Proofs/WriteReadRanged.lean`). The
ranged read goes through C03's RANGED iterator model (`partition.JIterator` over `chkSelector`; read-only import of
`Model/RdSelector.lean` and `Proofs/RdRng*.lean`); the time index itself is C02's: window soundness is the named input contract.
-/
namespace Logrange.Props.C01Ranged
open Go Logrange.WireRT Logrange.JournalW Logrange.WriteLoopM Logrange.E2E Logrange.Props.C01E2E

/-- **End to end with RANGE.** For every sequence of acknowledged RPC `Write` bodies to one partition from the empty partition
(hypotheses as in `acknowledged_writes_read_back_end_to_end`), every time range `[lo, hi]` (either bound may be absent), every
assignment `win` of time-index windows to the partition's chunks that is SOUND for the range (`Rd.WinSound`: every record whose
timestamp is in the range lies inside its chunk's window — what C02 proves of the index; windows may be wider): the ranged read —
`partition.JIterator` over `chkSelector` positioned at the head and drained (C03's ranged iterator model), every delivered record
re-checked against the range (`fiterator`), fetched, unmarshalled, sent through the query loop and the result pages — returns
**exactly the acknowledged events whose timestamp lies in the range, each once, in write order**, with message, tag line and printed
fields. In particular no acknowledged event in the range is hidden and nothing outside the range is returned. -/
theorem acknowledged_writes_read_back_in_time_range
    (parseKV : Bytes → Option Bytes) (asKV : Bytes → Bytes) (tagLine next : Bytes) (env : Bytes → Bytes)
    (maxChunk maxRec lim : Nat) (bodies : List Bytes) (j' : Journal) (acked : List (List Event))
    (win : Nat → Nat × Nat) (lo hi : Option Int)
    (hm : 1 ≤ maxChunk) (hr : 0 < maxRec) (hl : 1 ≤ lim) (hl2 : lim < two32) (hkv0 : asKV [] = [])
    (hack : writeAll parseKV maxChunk maxRec [] bodies = some (j', acked))
    (hgo : ∀ es ∈ acked, ∀ e ∈ es, e.WF) (htl : Small tagLine)
    (hkv : ∀ es ∈ acked, ∀ e ∈ es, Small (asKV e.fields))
    (hwin : Rd.WinSound (rdViewW win j') lo hi) :
    readBackRanged win lo hi asKV tagLine maxRec lim next env j'
      = some ((acked.flatten.filter (fun e => tsInRange lo hi (tsInt e.ts))).map (returned asKV tagLine)) := by
  have hfact : Generated.C01.pooledBuffersReleasedAfterLastUse = true := by decide
  have hq1 : Generated.C01.queryCacheRefreshOnAnyDifference = true := by decide
  have hq2 : Generated.C01.queryCacheKeepsCopy = true := by decide
  obtain ⟨h1, _⟩ := writeAll_servable parseKV maxChunk maxRec hm hr bodies [] j' [] acked
    (by simp [readEvents, readAll, decodeAll]) hack hgo
  simp only [List.nil_append, readEvents] at h1
  unfold readBackRanged
  rw [iterLabelsRanged_eq win lo hi j' hwin, fetchDecode_ranged maxRec lo hi (readAll j') acked.flatten h1]
  simp only
  rw [queryLoop_eq asKV tagLine hq1 hq2 _ {} (by simp [hkv0])]
  apply clientRead_ok lim next env _ hfact hl hl2
  intro we hwe
  obtain ⟨e, he, rfl⟩ := List.mem_map.mp hwe
  obtain ⟨es, hes, hee⟩ := List.mem_flatten.mp (List.mem_filter.mp he).1
  have hw := hgo es hes e hee
  exact ⟨hw.ts, hw.msg, htl, hkv es hes e hee⟩

/-- **End to end through the in-process `backend.Querier`** (the variant of the query loop in `pkg/backend/querier.go`: same
cursor, same fields cache — the regenerated cache facts are read from BOTH loops —, events handed over as Go values in pages of
`lim`): exactly the concatenation of the acknowledged batches, each event once, in order. -/
theorem acknowledged_writes_read_back_through_backend_querier
    (parseKV : Bytes → Option Bytes) (asKV : Bytes → Bytes) (tagLine : Bytes)
    (maxChunk maxRec lim : Nat) (bodies : List Bytes) (j' : Journal) (acked : List (List Event))
    (hm : 1 ≤ maxChunk) (hr : 0 < maxRec) (hl : 1 ≤ lim) (hkv0 : asKV [] = [])
    (hack : writeAll parseKV maxChunk maxRec [] bodies = some (j', acked))
    (hgo : ∀ es ∈ acked, ∀ e ∈ es, e.WF) :
    readBackQuerier asKV tagLine maxRec lim j' = some (acked.flatten.map (returned asKV tagLine)) := by
  have hq1 : Generated.C01.queryCacheRefreshOnAnyDifference = true := by decide
  have hq2 : Generated.C01.queryCacheKeepsCopy = true := by decide
  obtain ⟨h1, _⟩ := writeAll_servable parseKV maxChunk maxRec hm hr bodies [] j' [] acked
    (by simp [readEvents, readAll, decodeAll]) hack hgo
  simp only [List.nil_append, readEvents] at h1
  unfold readBackQuerier
  rw [iterLabels_eq, fetchDecode_all, h1]
  simp only
  rw [queryLoop_eq asKV tagLine hq1 hq2 _ {} (by simp [hkv0])]
  congr 1
  exact pagesOf_flatten lim hl acked.flatten.length (acked.flatten.map (returned asKV tagLine))
    (by rw [List.length_map]; exact Nat.le_refl _)

/-- non-vacuity: the two bodies of `Props/C01E2E.lean`'s example (timestamps 1, 2, 3; chunks of 40 bytes); whole-chunk windows
for the range [2, 3] and a window that cuts chunk 1 down to its second record: the ranged read returns events 2 and 3; the
backend querier returns all three -/
example :
    (match writeAll toyKV 40 64 [] [wpEncode (ofAscii "a=b") (ofAscii "w=1") [⟨1, ofAscii "m1", [], ofAscii "k=v"⟩, ⟨2, ofAscii "m2", [], []⟩],
                                    wpEncode (ofAscii "a=b") [] [⟨3, ofAscii "m3", [], ofAscii "k=v"⟩]] with
     | some (j', _) =>
       decide (readBackRanged (fun k => if k = 0 then (1, 1) else (0, 100)) (some 2) (some 3) id (ofAscii "a=b") 64 2 [9] id j'
           = some [⟨2, ofAscii "m2", ofAscii "a=b", [1, 119, 1, 49]⟩, ⟨3, ofAscii "m3", ofAscii "a=b", [1, 107, 1, 118]⟩] ∧
         readBackRanged (fun _ => (0, 100)) (some 2) none id (ofAscii "a=b") 64 2 [9] id j'
           = some [⟨2, ofAscii "m2", ofAscii "a=b", [1, 119, 1, 49]⟩, ⟨3, ofAscii "m3", ofAscii "a=b", [1, 107, 1, 118]⟩] ∧
         (readBackQuerier id (ofAscii "a=b") 64 2 j').map List.length = some 3)
     | none => false) = true := by decide +kernel

end Logrange.Props.C01Ranged
