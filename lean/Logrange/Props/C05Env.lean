import Logrange.Props.C05
import Logrange.Proofs.WhereEnv
import Logrange.Props.C20
/-!
# C05 — the two parameters of the WHERE theorems, instantiated

`Props/C05.lean` is parametric in `env : Env` = (`strings.ToUpper`, `strings.ToLower`, the time literal parser). Here:

* **time literal** — `c20Env`: `Env.parseTs` is C20's proved model of `parseLqlDateTime` (`Date.parseLql` on the
  regenerated format list `lqlFmts` and switches `gcfg`; imported read-only). C20 facts used: `integer_literal`
  (`Props/C20.lean`: every int64 written in decimal is read as that many Unix nanoseconds) and `C20_lql`
  (`Props/C20Formats.lean`: the text of every valid instant in every LQL format `k` is read as the fields that format
  carries). What stays a parameter (`TimeBase`), exactly as in C20: Go's `time.Date(fields, zone).UnixNano()`
  (`civilNs`, trusted there too), "now", and `strconv.ParseFloat` for relative literals.
* **case mapping** — `AsciiCase env`: on ASCII strings `ToUpper`/`ToLower` are the byte-wise mappings (Go's ASCII fast
  path; compared with the real functions by the harness section `casemap`). Under it the UPPER()/LOWER() clauses are
  stated concretely for ASCII values; for strings with bytes ≥ 0x80 the mapping remains a parameter.
-/
namespace Logrange.Props.C05Env
open Go Logrange Logrange.Where Logrange.Props.C05

/-- the expression consisting of one optionally negated condition -/
def single (n : Bool) (c : Cond) : Expr := .cons (.cons (.cond n c) .nil) .nil

/-! ## time literals through C20's model of `parseLqlDateTime` -/

/-- what C20 leaves outside its model, too -/
structure TimeBase where
  /-- today's civil date (a year-less or time-only format is completed from it) -/
  now : Date.Now
  /-- Go's `time.Date(year, month, day, hour, min, sec, nsec, zone).UnixNano()` -/
  civilNs : Date.Civil → Int
  /-- `now − time.Duration(ParseFloat(num) · unit)` in Unix nanoseconds; `none` = `ParseFloat` rejects `num` -/
  relNs : UInt8 → Bytes → Option Int
  /-- the instant of the constants `minute` / `hour` / `day` / `week` (0..3) -/
  constNs : Nat → Int

/-- the instant (Unix nanoseconds) of a result of C20's `parseLql` -/
def lqlInstant (tb : TimeBase) : Date.LqlRes → Option Int
  | .rel u num orElse => (match tb.relNs u num with | some v => some v | none => lqlInstant tb orElse)
  | .const k => some (tb.constNs k)
  | .abs _ c => some (tb.civilNs c)
  | .unixNano n => some n
  | .err => none
  | .unsupported _ _ => none

/-- **the environment whose time literal parser is C20's model of `parseLqlDateTime`** on the regenerated tables -/
def c20Env (up lo : Bytes → Bytes) (tb : TimeBase) : Env where
  up := up
  lo := lo
  parseTs v := lqlInstant tb (Date.parseLql Props.C20.gcfg Props.C20.lqlFmts tb.now v)

/-- the `ts` clause for any environment: an accepted `[NOT] ts <op> <literal>` whose literal the parser reads as `t`
compares the event's timestamp with `t` -/
theorem ts_clause_meaning (env : Env) (n : Bool) (c : Cond) (o : TsOp) (t : Int) (f : Pred)
    (hs : subjectOf env c.ident = .ts) (ho : tsOpOf c.op = some o) (ht : env.parseTs c.value = some t)
    (hb : buildWhere env (some (single n c)) = .ok f) :
    ∀ ev : Event, Fields.WF ev.fields → f ev = (n != evalTsOp o ev.ts t) := by
  intro ev hev
  rw [where_correct env _ f hb (by simp [single, wellFormed, wellFormedAnd, wellFormedX]) ev hev]
  simp [single, evalRef, evalAnd, evalX, condRef, hs, ht, ho]

/-- **`ts <op> "<integer>"` with the actual parser: the integer is Unix nanoseconds, exactly** — every int64, any "now",
any case mapping. C20 fact used: `Props.C20.integer_literal` (no format of the regenerated LQL list can claim a signed
digit string, so the `strconv.ParseInt` fallback decides). -/
theorem ts_integer_literal_c20 (up lo : Bytes → Bytes) (tb : TimeBase) (n : Bool) (c : Cond) (o : TsOp) (i : Int) (f : Pred)
    (hlo : -9223372036854775808 ≤ i) (hhi : i ≤ 9223372036854775807)
    (hs : subjectOf (c20Env up lo tb) c.ident = .ts) (ho : tsOpOf c.op = some o) (hv : c.value = Date.decimal i)
    (hb : buildWhere (c20Env up lo tb) (some (single n c)) = .ok f) :
    ∀ ev : Event, Fields.WF ev.fields → f ev = (n != evalTsOp o ev.ts i) := by
  apply ts_clause_meaning (c20Env up lo tb) n c o i f hs ho _ hb
  simp only [c20Env, hv, Props.C20.integer_literal tb.now i hlo hhi, lqlInstant]

/-- the literal is never rejected: an int64 in decimal is a supported `ts` operand value -/
theorem c20Env_reads_integer (up lo : Bytes → Bytes) (tb : TimeBase) (i : Int)
    (hlo : -9223372036854775808 ≤ i) (hhi : i ≤ 9223372036854775807) :
    (c20Env up lo tb).parseTs (Date.decimal i) = some i := by
  simp only [c20Env, Props.C20.integer_literal tb.now i hlo hhi, lqlInstant]

/-- **`ts <op> "<text of instant i in format k>"` compares with instant i** — every format `k` of the regenerated LQL list,
every valid instant `i` (years 1000–2999, any fraction width 3–9, any numeric offset or three-letter zone name). The
text is `renderLayout` of format `k`'s layout; the filter compares the event's timestamp with
`civilNs (adjAll … (projectX layout i))` — the instant whose civil fields are those format `k` carries of `i`
(completed from "now" where the format has no year / no date), converted by `time.Date`. C20 fact used:
`Props.C20.C20_lql` (own expression matches, no earlier format claims a different reading). -/
theorem ts_format_literal_c20 (up lo : Bytes → Bytes) (tb : TimeBase) (k : Nat) (hk : k < Props.C20.lqlFmts.length)
    (i : Date.XInst) (hi : Date.ValidX i) :
    ∃ ck txt cv, Props.C20.lqlFmts[k]? = some ck ∧ Date.renderLayout ck.layout i = some txt ∧
      Date.projectX ck.layout i = .ok cv ∧
      (c20Env up lo tb).parseTs txt = some (tb.civilNs (Date.adjAll Props.C20.gadj ck tb.now cv)) ∧
      ∀ (n : Bool) (c : Cond) (o : TsOp) (f : Pred),
        subjectOf (c20Env up lo tb) c.ident = .ts → tsOpOf c.op = some o → c.value = txt →
        buildWhere (c20Env up lo tb) (some (single n c)) = .ok f →
        ∀ ev : Event, Fields.WF ev.fields →
          f ev = (n != evalTsOp o ev.ts (tb.civilNs (Date.adjAll Props.C20.gadj ck tb.now cv))) := by
  obtain ⟨ck, txt, cv, j', hck, htxt, hcv, _, hp⟩ := Props.C20.C20_lql k hk i hi tb.now
  have hpt : (c20Env up lo tb).parseTs txt = some (tb.civilNs (Date.adjAll Props.C20.gadj ck tb.now cv)) := by
    simp only [c20Env, hp, lqlInstant]
  refine ⟨ck, txt, cv, hck, htxt, hcv, hpt, ?_⟩
  intro n c o f hs ho hv hb
  exact ts_clause_meaning (c20Env up lo tb) n c o _ f hs ho (by rw [hv]; exact hpt) hb

/-! ## UPPER() / LOWER() with Go's case mapping on ASCII -/

/-- **The string clauses over an ASCII subject, concretely.** Under an ASCII-exact case mapping, for a condition on
`msg` or `fields:<name>` with any nest of UPPER()/LOWER() around the operand: on every event whose subject value is
ASCII the built filter is the operator applied to the byte-wise converted value (`applyFnsAscii`: UPPER = `a–z ↦ A–Z`,
LOWER = `A–Z ↦ a–z`, innermost first, every other byte unchanged). -/
theorem string_clause_ascii (env : Env) (hA : AsciiCase env) (n : Bool) (c : Cond) (o : StrOp) (f : Pred)
    (ho : strOpOf (env.up c.op) = some o)
    (hb : buildWhere env (some (single n c)) = .ok f) (ev : Event) (hev : Fields.WF ev.fields) :
    (subjectOf env c.ident = .msg → isAscii ev.msg = true →
      f ev = (n != evalStrOp o (applyFnsAscii env c.ident ev.msg) c.value)) ∧
    (∀ name, subjectOf env c.ident = .field name → isAscii (fieldRef ev.fields name) = true →
      f ev = (n != evalStrOp o (applyFnsAscii env c.ident (fieldRef ev.fields name)) c.value)) := by
  have h := where_correct env _ f hb (by simp [single, wellFormed, wellFormedAnd, wellFormedX]) ev hev
  constructor
  · intro hs ha
    rw [h]
    simp [single, evalRef, evalAnd, evalX, condRef, hs, ho, (applyFns_ascii env hA c.ident _ ha).1]
  · intro name hs ha
    rw [h]
    simp [single, evalRef, evalAnd, evalX, condRef, hs, ho, (applyFns_ascii env hA c.ident _ ha).1]

/-- **`UPPER(fields:x) = "ABC"` holds iff the value equals `abc` up to ASCII letter case.** For any operand under one
UPPER() (any spelling `fn` the mapping turns into `UPPER`), the operator `=`, and an upper-case literal `L`
(`asciiUpper L = L`): on an event whose field value `v` is ASCII the filter is `asciiLower v = asciiLower L`
(negated under NOT). -/
theorem upper_eq_caseless (env : Env) (hA : AsciiCase env) (n : Bool) (fn operand op L name : Bytes) (f : Pred)
    (hfn : env.up fn = sUPPER)
    (hs : subjectOf env (.mk fn (.cons (.mk operand .nil) .nil)) = .field name)
    (ho : strOpOf (env.up op) = some .eq) (hL : asciiUpper L = L)
    (hb : buildWhere env (some (single n ⟨.mk fn (.cons (.mk operand .nil) .nil), op, L⟩)) = .ok f)
    (ev : Event) (hev : Fields.WF ev.fields) (ha : isAscii (fieldRef ev.fields name) = true) :
    f ev = (n != decide (asciiLower (fieldRef ev.fields name) = asciiLower L)) := by
  rw [(string_clause_ascii env hA n _ .eq f ho hb ev hev).2 name hs ha]
  simp only [applyFnsAscii, hfn, beq_self_eq_true, if_true, evalStrOp]
  congr 1
  rw [Bool.eq_iff_iff]
  simp only [beq_iff_eq, decide_eq_true_eq]
  rw [← asciiUpper_eq_iff_lower, hL]

/-- the mirror image: `LOWER(x) = "abc"` (a lower-case literal) iff the value equals it up to ASCII letter case -/
theorem lower_eq_caseless (env : Env) (hA : AsciiCase env) (n : Bool) (fn operand op L name : Bytes) (f : Pred)
    (hfn : env.up fn = sLOWER)
    (hs : subjectOf env (.mk fn (.cons (.mk operand .nil) .nil)) = .field name)
    (ho : strOpOf (env.up op) = some .eq) (hL : asciiLower L = L)
    (hb : buildWhere env (some (single n ⟨.mk fn (.cons (.mk operand .nil) .nil), op, L⟩)) = .ok f)
    (ev : Event) (hev : Fields.WF ev.fields) (ha : isAscii (fieldRef ev.fields name) = true) :
    f ev = (n != decide (asciiUpper (fieldRef ev.fields name) = asciiUpper L)) := by
  rw [(string_clause_ascii env hA n _ .eq f ho hb ev hev).2 name hs ha]
  have h1 : (sLOWER == sUPPER) = false := by decide
  simp only [applyFnsAscii, hfn, h1, Bool.false_eq_true, if_false, beq_self_eq_true, if_true, evalStrOp]
  congr 1
  rw [Bool.eq_iff_iff]
  simp only [beq_iff_eq, decide_eq_true_eq]
  rw [asciiUpper_eq_iff_lower, hL]

/-! ### non-vacuity -/

/-- the examples' environment: ASCII-exact case mapping (empty exception tables), C20's parser, an arbitrary base -/
def tb0 : TimeBase := ⟨⟨2026, 9, 29⟩, fun _ => 0, fun _ _ => none, fun _ => 0⟩
def envC : Env := c20Env asciiUpper asciiLower tb0

theorem envC_ascii : AsciiCase envC := fun _ _ => ⟨rfl, rfl⟩
example : AsciiCase env0 := tableEnv_asciiCase [] [] _ (by simp) (by simp)

/-- `ts < "1552307683123456789"` through C20's parser model compares with exactly that integer (above 2^53) -/
example : envC.parseTs (Date.decimal 1552307683123456789) = some 1552307683123456789 :=
  c20Env_reads_integer _ _ _ _ (by decide) (by decide)

/-- `upper(fields:x) = "ABC"` built with the ASCII mapping: accepted, and decided by the caseless comparison with `abc` -/
def cU : Cond := ⟨.mk [117, 112, 112, 101, 114] (.cons (.mk [102, 105, 101, 108, 100, 115, 58, 120] .nil) .nil), sEQ, [65, 66, 67]⟩
example : ∃ f, buildWhere env0 (some (single false cU)) = .ok f ∧
    ∀ ev : Event, Fields.WF ev.fields → isAscii (fieldRef ev.fields [120]) = true →
      f ev = decide (asciiLower (fieldRef ev.fields [120]) = [97, 98, 99]) := by
  have hok : (buildWhere env0 (some (single false cU))).toBool = true := by decide
  cases hb : buildWhere env0 (some (single false cU)) with
  | error err => rw [hb] at hok; cases hok
  | ok f =>
    refine ⟨f, rfl, fun ev hev ha => ?_⟩
    have := upper_eq_caseless env0 (tableEnv_asciiCase [] [] _ (by simp) (by simp)) false
      [117, 112, 112, 101, 114] [102, 105, 101, 108, 100, 115, 58, 120] sEQ [65, 66, 67] [120] f
      (by decide) (by rfl) (by rfl) (by decide) hb ev hev ha
    have e : asciiLower [65, 66, 67] = [97, 98, 99] := by decide
    rw [e] at this
    simpa using this
/-- and on a concrete event with `x=aBc` it is true, with `x=abd` false -/
example : (match buildWhere env0 (some (single false cU)) with
    | .ok f => (f ⟨1, [], Fields.encode [([120], [97, 66, 99])]⟩, f ⟨1, [], Fields.encode [([120], [97, 98, 100])]⟩)
    | .error _ => (false, true)) = (true, false) := by decide

end Logrange.Props.C05Env
