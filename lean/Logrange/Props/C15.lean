import Logrange.Proofs.Provider
import Logrange.Generated.C15
/-!
# C15 — server-side query cursors: one user at a time, resources released exactly once

Property theorems about the model of pkg/cursor/provider.go (`Model/Provider.lean`, ring: `Model/Ring.lean`).
Every theorem of this namespace is an obligation of `./check C15`.

Proved here
* `busy_refused`            — a request naming a cursor that is in use is refused and changes nothing;
* `closed_at_most_once`     — along **every** trace (any interleaving of the split steps of any number of requests,
                              any clock advances, any knobs, either shape of `insert`/`Release`) no cursor's
                              partitions are released more often than acquired, and at most once;
* `closed_exactly_once_at_end`, `ring_inv`, `release_never_panics` — for the code as it is now (F16 and F28 repaired),
  every well-formed trace of the split steps, no hypothesis on ids;
* `repaired_f28`, `repaired_f16`: the former findings' witness traces end clean for the regenerated code shape;
  `regression_shape_f28`, `regression_shape_f16`: what the old shape did (documents a revert);
* `unknown_id_continues`    — an unknown/expired id falls through with the same id and the supplied position;
* `release_uncached_closes`, `evict_idle_closes`, `evict_busy_keeps_open` — the single life-cycle steps;
* `lock_discipline`, `knobs_sane` — regenerated facts.

* `never_panics`, `sweeps_never_nil`, `map_size_eq_ring_length`, `close_called_exactly_once` — same reachable states;
* `get_refines_split`, `get_parts_well_formed` — the composite `GetOrCreate` step is the run of its split parts, so
  well-formed traces may mix composite gets with split steps.

Nothing of the safety part of the property is left unproved in the model; not stated here: liveness (that the sweeper
runs and an idle cursor is therefore eventually closed) and `provider.Shutdown` (closes nothing; see design note).
-/
namespace Logrange.Props.C15
open Logrange.Provider Logrange.Ring

/-! ## one user at a time -/

/-- `GetOrCreate`'s first locked section: the map knows the id and the holder is busy ⇒ the request is refused
    and the state is untouched (the cursor is never handed to a second request). -/
theorem busy_refused (s : St) (id e query pos : Nat) (posOk : Bool)
    (hid : id > 0) (hm : s.curs.get id = some e) (hb : (s.holders e).busy = true) :
    lookup s id query pos posOk = (s, .refused, id) := by
  simp [lookup, hid, hm, hb]

/-- …and so is the whole `GetOrCreate`, whatever the other arguments -/
theorem busy_refused_getOrCreate (chk : Bool) (s : St) (id e query pos : Nat) (posOk : Bool) (k : CreateKind)
    (cache : Bool) (c n : Nat) (hid : id > 0) (hm : s.curs.get id = some e) (hb : (s.holders e).busy = true) :
    getOrCreate chk s id query pos posOk k cache c n = (s, .refused) := by
  simp [getOrCreate, busy_refused s id e query pos posOk hid hm hb]

/-- a freshly cached cursor: the next request for its id is refused -/
def sBusy : St := (getOrCreate false (init 3 60 300) 0 0 0 false .ok true 1 7).1
example : sBusy.curs.get 7 = some 0 ∧ (sBusy.holders 0).busy = true ∧
    (getOrCreate false sBusy 7 0 0 true .ok true 2 0).2 = .refused := by decide

/-! ## released at most once — every trace -/

/-- For all traces of model steps from the empty provider — arbitrary interleavings of `lookup`/`create`/`insert`
    of any number of requests, releases, clock advances, sweeps; any `maxCurs`, timeouts; both shapes of the code —
    every cursor object's partitions are released at most as often as acquired, hence at most once.
    (`closed` mirrors the real `close()`: it releases what `jDescs` holds and forgets it.) -/
theorem closed_at_most_once (chk byId : Bool) (maxCurs : Nat) (idleTo busyTo : Int) (tr : List Label) (c : Nat) :
    let s := run chk byId (init maxCurs idleTo busyTo) tr
    (s.cursors c).closed ≤ (s.cursors c).acquired ∧ (s.cursors c).closed ≤ 1 := by
  have h := curOK_run chk byId tr (curOK_init maxCurs idleTo busyTo) c
  exact ⟨h.1, Nat.le_trans h.1 h.2⟩

/-- non-vacuity: a trace on which a cursor is acquired and closed (idle expiry) -/
def idleExpiryTrace : List Label := [.get 0 0 0 false .ok true 1 7, .release 1 2, .age 61, .sweepT]
example : ((run false true (init 3 60 300) idleExpiryTrace).cursors 1).acquired = 1 ∧
    ((run false true (init 3 60 300) idleExpiryTrace).cursors 1).closed = 1 ∧
    (run false true (init 3 60 300) idleExpiryTrace).ring = [] := by decide

/-! ## finding F28 — `Release` finds the holder by id, not by cursor (sequential) -/

/-- request 1 gets cursor A (number 1) cached under id 7; it stays busy longer than `busyTo`; the sweeper drops it
    (unclosed, still held); request 2 names id 7, misses and gets cursor B (number 2) cached under id 7;
    request 1 releases A; request 2 releases B. -/
def f28Trace (byId : Bool) : St × RelRes :=
  let s := init 100 60 300
  let s := (getOrCreate false s 0 0 0 false .ok true 1 7).1
  let s := sweepByTime (age s 301)
  let s := (getOrCreate false s 7 0 0 false .ok true 2 0).1
  let s := (release byId s 1).1
  release byId s 2

/-- REGRESSION SHAPE (what a revert of the repair would do): with `Release` looking the holder up by id only,
    `Release(B)` panics and A is never closed although it is neither held nor cached. -/
theorem regression_shape_f28 :
    let r := f28Trace true
    r.2 = .panic ∧ r.1.panicked = true ∧
    (r.1.cursors 1).acquired = 1 ∧ (r.1.cursors 1).closed = 0 ∧ (r.1.cursors 1).held = false ∧
    r.1.ring.all (fun e => (r.1.holders e).cur != some 1) = true := by decide

/-- the same witness without any expiry: an un-cached cursor A under a client-supplied id 9 is still held when a
    caching request names id 9 and gets B. -/
def f28bTrace (byId : Bool) : St × RelRes :=
  let s := init 100 60 300
  let s := (getOrCreate false s 9 0 0 false .ok false 1 0).1
  let s := (getOrCreate false s 9 0 0 false .ok true 2 0).1
  let s := (release byId s 1).1
  release byId s 2

/-- for the code as it is (`releaseLooksUpById` regenerated): both F28 witness traces end clean — no panic, A closed
    exactly once, B idle in the cache and open -/
theorem repaired_f28 :
    let r := f28Trace Logrange.Generated.C15.releaseLooksUpById
    let r' := f28bTrace Logrange.Generated.C15.releaseLooksUpById
    r.2 = .idle ∧ r.1.panicked = false ∧ (r.1.cursors 1).closed = 1 ∧ (r.1.cursors 1).closeCalls = 1 ∧
    (r.1.cursors 2).closed = 0 ∧
    r'.2 = .idle ∧ r'.1.panicked = false ∧ (r'.1.cursors 1).closed = 1 ∧ (r'.1.cursors 2).closed = 0 := by decide

/-! ## finding F16 — two in-flight requests with the same uncached id -/

/-- lookup₁ miss, lookup₂ miss, create₁, create₂, insert₁, insert₂, release₁, release₂ (id 9, cursors 1 and 2) -/
def f16Trace (chk : Bool) : (LookupRes × LookupRes) × St × List RelRes :=
  let s := init 100 60 300
  let (s, l1, id1) := lookup s 9 0 0 false
  let (s, l2, id2) := lookup s 9 0 0 false
  let s := (create s id1 0 0 .ok 1 0).1
  let s := (create s id2 0 0 .ok 2 0).1
  let s := (insert chk s 1).1
  let (s, i2) := insert chk s 2
  let (s, r1) := release true s 1
  -- (with the repair the second request was refused and has nothing to release)
  let (s, r2) := if i2 = .cached then release true s 2 else (s, .closed)
  ((l1, l2), s, [r1, r2])

/-- REGRESSION SHAPE (what a revert of the repair would do): with a blind second locked section the second insert
    overwrites the first one's map entry; `Release` of cursor 2 panics; cursor 1 is never closed. -/
theorem regression_shape_f16 :
    let r := f16Trace false
    r.1 = (.miss, .miss) ∧ r.2.2 = [.idle, .panic] ∧ r.2.1.ring.length = 2 ∧ r.2.1.curs.size = 1 ∧
    (let s := sweepByTime (age r.2.1 301)
     (s.cursors 1).closed = 0 ∧ (s.cursors 1).held = false ∧
     s.ring.all (fun e => (s.holders e).cur != some 1) = true) := by decide

/-- for the code as it is (`insertChecksExisting` regenerated): the F16 witness schedule ends clean — the loser is
    refused late and its cursor closed exactly once, the winner is cached, nothing panics -/
theorem repaired_f16 :
    let r := f16Trace Logrange.Generated.C15.insertChecksExisting
    r.1 = (.miss, .miss) ∧ r.2.2 = [.idle, .closed] ∧ r.2.1.panicked = false ∧
    (r.2.1.cursors 2).closed = 1 ∧ (r.2.1.cursors 2).closeCalls = 1 ∧ (r.2.1.cursors 1).closed = 0 ∧
    r.2.1.ring.length = 1 ∧ r.2.1.curs.size = 1 := by decide

/-! ## unknown or expired id: transparently continued -/

/-- An id the map does not know (never cached, expired or evicted) is not an error: the first locked section
    changes nothing and the request goes on **with the same id**; the cursor then built carries that id and the
    supplied query and position. -/
theorem unknown_id_continues (s : St) (id query pos : Nat) (posOk : Bool) (newCur newId : Nat)
    (hid : id > 0) (hm : s.curs.get id = none) :
    lookup s id query pos posOk = (s, .miss, id) ∧
    (let r := create s id query pos .ok newCur newId
     r.2 = .cur newCur ∧ (r.1.cursors newCur).id = id ∧ (r.1.cursors newCur).query = query ∧
     (r.1.cursors newCur).pos = pos ∧ (r.1.cursors newCur).held = true ∧ r.1.curs.get = s.curs.get) := by
  have h0 : id ≠ 0 := by omega
  constructor
  · simp [lookup, hid, hm]
  · simp [create, setCur, h0]

example : (init 3 60 300).curs.get 5 = none ∧
    (getOrCreate false (init 3 60 300) 5 1 4 false .ok true 1 0).2 = .new 1 := by decide

/-! ## the single life-cycle steps -/

/-- normal release of a cursor the map does not know (un-cached, or dropped while busy): it is closed -/
theorem release_uncached_closes (byId : Bool) (s : St) (c cp : Nat) (hm : s.curs.get (s.cursors c).id = none) :
    let r := release byId s c cp
    r.2 = .closed ∧ (r.1.cursors c).closed = (s.cursors c).acquired ∧
    (r.1.cursors c).closeCalls = (s.cursors c).closeCalls + 1 ∧ (r.1.cursors c).held = false := by
  simp [release, setCur, closeCur, hm]

/-- a sweep removing an idle holder closes its cursor (once) and forgets its id -/
theorem evict_idle_closes (s : St) (e c : Nat) (r : Bool) (hc : (s.holders e).cur = some c)
    (hb : (s.holders e).busy = false) :
    let s' := evict s e r
    (s'.cursors c).closed = (s.cursors c).acquired ∧ (s'.cursors c).closeCalls = (s.cursors c).closeCalls + 1 ∧
    s'.curs.get (s.cursors c).id = none ∧ (s'.holders e).cur = none ∧ s'.panicked = s.panicked := by
  cases r <;> by_cases hf : s.freeSz < freePoolCap <;>
    simp [evict, hc, hb, closeCur, setCur, hset, IdMap.del, hf]

/-- a sweep removing a busy holder (expired while busy, or evicted by size) does not close the cursor — its user
    still has it — but forgets its id, so that the user's `Release` will close it (`release_uncached_closes`) -/
theorem evict_busy_keeps_open (s : St) (e c : Nat) (r : Bool) (hc : (s.holders e).cur = some c)
    (hb : (s.holders e).busy = true) :
    let s' := evict s e r
    s'.cursors = s.cursors ∧ s'.curs.get (s.cursors c).id = none ∧ (s'.holders e).cur = none := by
  cases r <;> by_cases hf : s.freeSz < freePoolCap <;>
    simp [evict, hc, hb, hset, IdMap.del, hf]

/-- life cycle "expiry while busy": dropped unclosed by the sweeper, closed exactly once by its own release -/
example : let s := (getOrCreate false (init 3 60 300) 0 0 0 false .ok true 1 7).1
    let s := sweepByTime (age s 301)
    (s.cursors 1).closed = 0 ∧ s.ring = [] ∧
    (release true s 1).2 = .closed ∧ ((release true s 1).1.cursors 1).closed = 1 ∧
    ((release true s 1).1.cursors 1).closeCalls = 1 := by decide

/-- life cycle "eviction by size": the least recently used holder goes, idle ⇒ closed -/
example : let s := (getOrCreate false (init 1 60 300) 0 0 0 false .ok true 1 7).1
    let s := (release true s 1).1
    let s := (getOrCreate false s 0 0 0 false .ok true 2 8).1
    let s := sweepBySize s
    (s.cursors 1).closed = 1 ∧ (s.cursors 2).closed = 0 ∧ s.ring.length = 1 ∧ s.curs.size = 1 := by decide

/-- life cycle "state cannot be applied": the cached cursor stays (idle), a new one is built under a new id -/
example : let s := (getOrCreate false (init 3 60 300) 0 0 0 false .ok true 1 7).1
    let s := (release true s 1).1
    let r := getOrCreate false s 7 1 2 true .ok true 2 8
    r.2 = .new 2 ∧ (r.1.cursors 2).id = 8 ∧ r.1.ring.length = 2 ∧ (r.1.cursors 1).closed = 0 := by decide

/-! ## regenerated facts -/

/-- every access to `p.curs`, `p.busy`, `p.free`, `p.freePoolSz` in provider.go happens under `p.lock`
    (so the locked sections are the atomic steps of the model) -/
theorem lock_discipline : Logrange.Generated.C15.unlockedAccesses = [] := by decide

/-- NewProvider's knobs: a cache exists, timeouts are positive, a busy request gets at least the idle time,
    the sweeper's period `idleTo / 5` is positive; the model's free-pool cap is the code's -/
theorem knobs_sane :
    0 < Logrange.Generated.C15.maxCurs ∧ 0 < Logrange.Generated.C15.idleToSec ∧
    Logrange.Generated.C15.idleToSec ≤ Logrange.Generated.C15.busyToSec ∧
    0 < Logrange.Generated.C15.idleToSec / Logrange.Generated.C15.sweeperPeriodDivisor ∧
    Logrange.Generated.C15.freePoolCap = freePoolCap := by decide

/-! ## exactly once at the end of life, ring invariant, no panic on release — the code as it is now

All three are consequences of the invariant `Logrange.Provider.J` (Proofs/Provider.lean), proved for the repaired code
shape (`insert` re-checks the map, `Release` compares the cursor object) along **every** well-formed trace of the SPLIT
steps (lookup / create / insert / release / age / sweepByTime / sweepBySize of any number of requests, interleaved
arbitrarily) with **no hypothesis on ids**: ids and new ids are arbitrary, the same id may be in flight many times and
may be re-used while a cursor built under it is still held. Well-formedness (`WF`, `wfLabel`) is only the client
protocol: a created cursor object is fresh, `insert c` follows a `create` of a still held, not yet cached `c`,
`release c` is called for held cursors only; the composite `.get` label needs a fresh cursor object (it is the run
of its split parts, `get_refines_split`).
The shape of the code enters through the regenerated facts, so a regression of either fact breaks these theorems. -/

theorem code_shape : Logrange.Generated.C15.insertChecksExisting = true ∧
    Logrange.Generated.C15.releaseLooksUpById = false := by decide

/-- a cursor is at the end of its life: acquired, not held by a request, not cached in any ring element -/
def Dead (s : St) (c : Nat) : Prop :=
  (s.cursors c).acquired = 1 ∧ (s.cursors c).held = false ∧ ∀ e ∈ s.ring, (s.holders e).cur ≠ some c

/-- reachable states of the code as it is -/
def Reachable (s : St) : Prop :=
  ∃ (maxCurs : Nat) (idleTo busyTo : Int) (tr : List Label), WF (init maxCurs idleTo busyTo) tr ∧
    s = run Logrange.Generated.C15.insertChecksExisting Logrange.Generated.C15.releaseLooksUpById
          (init maxCurs idleTo busyTo) tr

theorem reachable_K {s : St} (h : Reachable s) : K s := by
  obtain ⟨m, i, b, tr, wf, rfl⟩ := h
  rw [code_shape.1, code_shape.2]
  exact K_run tr (K_init m i b) wf

theorem reachable_J {s : St} (h : Reachable s) : J s := (reachable_K h).j

/-- Every cursor whose life has ended had its partitions released exactly once, and a cursor that is still held by
    a request or cached has not been closed (never closed while in use, never pinned after its end). -/
theorem closed_exactly_once_at_end {s : St} (h : Reachable s) (c : Nat) :
    (Dead s c → (s.cursors c).closed = 1) ∧
    ((s.cursors c).acquired = 1 → ((s.cursors c).held = true ∨ ∃ e ∈ s.ring, (s.holders e).cur = some c) →
      (s.cursors c).closed = 0) := by
  have j := (reachable_J h).h c
  constructor
  · rintro ⟨ha, hd⟩; exact (j.2.2.1 ha).2 hd
  · intro ha hlive
    have h1 : ¬ (s.cursors c).closed = 1 := by
      intro k
      have := (j.2.2.1 ha).1 k
      rcases hlive with hh | ⟨e, he, hc⟩
      · rw [this.1] at hh; cases hh
      · exact this.2 e he hc
    have := j.2.2.2; omega

/-- The busy ring and the map hold the same holders; the free ring is disjoint from it. -/
theorem ring_inv {s : St} (h : Reachable s) :
    s.ring.Nodup ∧ s.free.Nodup ∧ (∀ e ∈ s.ring, e ∉ s.free) ∧
    (∀ e ∈ s.ring, ∃ c, (s.holders e).cur = some c ∧ s.curs.get (s.cursors c).id = some e) ∧
    (∀ id e, s.curs.get id = some e → e ∈ s.ring ∧ ∃ c, (s.holders e).cur = some c ∧ (s.cursors c).id = id) := by
  have j := reachable_J h
  refine ⟨j.a, j.b1, j.b2, ?_, j.f⟩
  intro e he; obtain ⟨c, k1, k2, _⟩ := j.e e he; exact ⟨c, k1, k2⟩

/-- In a reachable state, releasing a held cursor never panics. -/
theorem release_never_panics {s : St} (h : Reachable s) (c cp : Nat) (hheld : (s.cursors c).held = true) :
    (release Logrange.Generated.C15.releaseLooksUpById s c cp).2 ≠ .panic := by
  rw [code_shape.2]
  exact (J_release c cp (reachable_J h) hheld).2

/-- non-vacuity: the F16 schedule (same uncached id twice in flight) followed by the F28 pattern (id re-used while
    held) is a well-formed trace; it ends with every dead cursor closed once -/
def mixedTrace : List Label :=
  [.lookup 9 0 0 false, .lookup 9 0 0 false, .create 9 0 0 .ok 1 0, .create 9 0 0 .ok 2 0, .insert 1, .insert 2,
   .age 301, .sweepT, .lookup 9 0 0 false, .create 9 0 0 .ok 3 0, .insert 3, .release 1 2, .release 3 2,
   .age 61, .sweepT]
example : WF (init 3 60 300) mixedTrace := by
  simp only [mixedTrace, WF, wfLabel]; decide
example : let s := run true false (init 3 60 300) mixedTrace
    (s.cursors 1).closed = 1 ∧ (s.cursors 2).closed = 1 ∧ (s.cursors 3).closed = 1 ∧ s.ring = [] ∧ s.panicked = false := by
  decide

/-! ## nothing panics; `close()` is called exactly once -/

/-- No reachable state has panicked: `Release` of a held cursor never hits "releasing cursor, which is not busy", and
    neither sweep nor the first locked section ever dereferences a nil cursor or an empty ring (the model's
    `panicked` flag is set exactly in those branches). Rests on the map and the ring having the same size, on
    `Prev()` staying inside the ring, and on the walk of `sweepByTime` (with the `Next()`-returns-prev quirk) making
    at most `len(p.curs)` rounds. -/
theorem never_panics {s : St} (h : Reachable s) : s.panicked = false := (reachable_K h).r.np

/-- the id map and the busy ring have the same number of entries -/
theorem map_size_eq_ring_length {s : St} (h : Reachable s) : s.curs.size = s.ring.length := (reachable_K h).r.sz

/-- in particular one more pass of either sweep from a reachable state does not panic -/
theorem sweeps_never_nil {s : St} (h : Reachable s) :
    (sweepByTime s).panicked = false ∧ (sweepBySize s).panicked = false :=
  ⟨(K_sweepByTime (reachable_K h)).r.np, (K_sweepBySizeLoop _ (reachable_K h)).r.np⟩

/-- `close()` is called at most once on every cursor object; exactly once on a cursor that was handed to a request
    and whose life has ended; not at all on a cursor that is still held or cached. (`handed = false` marks the record
    of a failed `newCursor`, whose journals `releaseJournals` gives back without there ever being a cursor.) -/
theorem close_called_exactly_once {s : St} (h : Reachable s) (c : Nat) :
    (s.cursors c).closeCalls ≤ 1 ∧
    (Dead s c → (s.cursors c).handed = true → (s.cursors c).closeCalls = 1) ∧
    ((s.cursors c).acquired = 1 → ((s.cursors c).held = true ∨ ∃ e ∈ s.ring, (s.holders e).cur = some c) →
      (s.cursors c).closeCalls = 0) := by
  have k := reachable_K h
  have m := k.r.m c
  have ce := closed_exactly_once_at_end h c
  refine ⟨m.1, ?_, ?_⟩
  · intro hd hh; exact m.2.2 hh (ce.1 hd)
  · intro ha hl; exact closeCalls0 k.r.m (ce.2 ha hl)

/-! ## the composite `GetOrCreate` is the sequence of its three parts -/

/-- For all arguments and both code shapes, the composite `get` step equals the run of its split parts
    (`[lookup]`, `[lookup, create]` or `[lookup, create, insert]`, see `getParts`). -/
theorem get_refines_split (chk byId : Bool) (s : St) (id q p : Nat) (ok : Bool) (k : CreateKind) (cache : Bool) (c n : Nat) :
    run chk byId s (getParts s id q p ok k cache c n) = stepL chk byId s (.get id q p ok k cache c n) :=
  Logrange.Provider.get_refines_split chk byId s id q p ok k cache c n

/-- …and the parts of a well-formed `get` (fresh cursor object) in a reachable state are a well-formed trace of
    split steps — so every `Reachable`-based theorem covers traces that mix composite gets with split steps. -/
theorem get_parts_well_formed {s : St} (h : Reachable s) (id q p : Nat) (ok : Bool) (k : CreateKind) (cache : Bool)
    (c n : Nat) (hfresh : (s.cursors c).acquired = 0) :
    WF s (getParts s id q p ok k cache c n) ∧ ∀ l ∈ getParts s id q p ok k cache c n, l.isSplit = true :=
  ⟨get_parts_wf (reachable_J h) id q p ok k cache c n hfresh, getParts_split s id q p ok k cache c n⟩

/-- non-vacuity: composite gets mixed with split steps; `maxCurs = 1`, so `sweepBySize` evicts first a busy cursor
    (1, later closed by its own release) and then an idle one (2, closed by the sweep); a position error; a refused get;
    a hit; an idle expiry. Every dead handed cursor ends with `closed = 1`, `closeCalls = 1`; nothing panics. -/
def sizeTrace : List Label :=
  [.get 0 0 0 false .ok true 1 7, .get 0 0 0 false .ok true 2 8, .sweepS, .release 2 2,
   .get 0 0 0 false .ok true 3 9, .sweepS, .release 1 2, .get 0 0 1 false .posErr true 4 10,
   .lookup 8 0 0 false, .get 9 0 0 true .ok true 5 0, .release 3 2, .lookup 9 0 2 true, .release 3 2, .age 61, .sweepT]
example : WF (init 1 60 300) sizeTrace := by
  simp only [sizeTrace, WF, wfLabel]; decide
example : let s := run true false (init 1 60 300) sizeTrace
    ((s.cursors 1).closed, (s.cursors 1).closeCalls) = (1, 1) ∧ ((s.cursors 2).closed, (s.cursors 2).closeCalls) = (1, 1) ∧
    ((s.cursors 3).closed, (s.cursors 3).closeCalls) = (1, 1) ∧ ((s.cursors 4).closed, (s.cursors 4).closeCalls) = (1, 0) ∧
    (s.cursors 4).handed = false ∧ (s.cursors 5).acquired = 0 ∧ s.ring = [] ∧ s.curs.size = 0 ∧ s.panicked = false := by
  decide

end Logrange.Props.C15
