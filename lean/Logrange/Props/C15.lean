import Logrange.Proofs.Provider
import Logrange.Generated.C15
/-!
# C15 — server-side query cursors: one user at a time, resources released exactly once

Property theorems about the model of pkg/cursor/provider.go (`Model/Provider.lean`, ring: `Model/Ring.lean`).
Every theorem of this namespace is an obligation of `./check C15`.

Proved here
* `busy_refused`            — a request naming a cursor that is in use is refused and changes nothing;
* `closed_at_most_once`     — along **every** trace (any interleaving of the split steps of any number of requests,
                              any clock advances, any knobs, either shape of `insert`/`Release`) no cursor's
                              partitions are released more often than acquired, and at most once;
* `cex_expired_busy_then_same_id`, `cex_uncached_then_cached_same_id` (finding F28, sequential),
  `cex_same_unknown_id_race` (finding F16): concrete traces after which a cursor is never closed and `Release` panics;
  `repaired_*`: the same traces with the proposed repairs end with everything closed and no panic;
* `unknown_id_continues`    — an unknown/expired id falls through with the same id and the supplied position;
* `release_uncached_closes`, `evict_idle_closes`, `evict_busy_keeps_open` — the single life-cycle steps;
* `lock_discipline`, `knobs_sane` — regenerated facts.

Not proved (kept as `def … : Prop`, exercised by the harness only): `C15_full` — exactly-once at end of life and
the ring/map agreement for histories outside the findings' classes.
-/
namespace Logrange.Props.C15
open Logrange.Provider Logrange.Ring

/-! ## one user at a time -/

/-- `GetOrCreate`'s first locked section: the map knows the id and the holder is busy ⇒ the request is refused
    and the state is untouched (the cursor is never handed to a second request). -/
theorem busy_refused (s : St) (id e query pos : Nat) (posOk : Bool)
    (hid : id > 0) (hm : s.curs.get id = some e) (hb : (s.holders e).busy = true) :
    lookup s id query pos posOk = (s, .refused, id) := by
  simp [lookup, hid, hm, hb]

/-- …and so is the whole `GetOrCreate`, whatever the other arguments -/
theorem busy_refused_getOrCreate (chk : Bool) (s : St) (id e query pos : Nat) (posOk : Bool) (k : CreateKind)
    (cache : Bool) (c n : Nat) (hid : id > 0) (hm : s.curs.get id = some e) (hb : (s.holders e).busy = true) :
    getOrCreate chk s id query pos posOk k cache c n = (s, .refused) := by
  simp [getOrCreate, busy_refused s id e query pos posOk hid hm hb]

/-- a freshly cached cursor: the next request for its id is refused -/
def sBusy : St := (getOrCreate false (init 3 60 300) 0 0 0 false .ok true 1 7).1
example : sBusy.curs.get 7 = some 0 ∧ (sBusy.holders 0).busy = true ∧
    (getOrCreate false sBusy 7 0 0 true .ok true 2 0).2 = .refused := by decide

/-! ## released at most once — every trace -/

/-- For all traces of model steps from the empty provider — arbitrary interleavings of `lookup`/`create`/`insert`
    of any number of requests, releases, clock advances, sweeps; any `maxCurs`, timeouts; both shapes of the code —
    every cursor object's partitions are released at most as often as acquired, hence at most once.
    (`closed` mirrors the real `close()`: it releases what `jDescs` holds and forgets it.) -/
theorem closed_at_most_once (chk byId : Bool) (maxCurs : Nat) (idleTo busyTo : Int) (tr : List Label) (c : Nat) :
    let s := run chk byId (init maxCurs idleTo busyTo) tr
    (s.cursors c).closed ≤ (s.cursors c).acquired ∧ (s.cursors c).closed ≤ 1 := by
  have h := curOK_run chk byId tr (curOK_init maxCurs idleTo busyTo) c
  exact ⟨h.1, Nat.le_trans h.1 h.2⟩

/-- non-vacuity: a trace on which a cursor is acquired and closed (idle expiry) -/
def idleExpiryTrace : List Label := [.get 0 0 0 false .ok true 1 7, .release 1 2, .age 61, .sweepT]
example : ((run false true (init 3 60 300) idleExpiryTrace).cursors 1).acquired = 1 ∧
    ((run false true (init 3 60 300) idleExpiryTrace).cursors 1).closed = 1 ∧
    (run false true (init 3 60 300) idleExpiryTrace).ring = [] := by decide

/-! ## finding F28 — `Release` finds the holder by id, not by cursor (sequential) -/

/-- request 1 gets cursor A (number 1) cached under id 7; it stays busy longer than `busyTo`; the sweeper drops it
    (unclosed, still held); request 2 names id 7, misses and gets cursor B (number 2) cached under id 7;
    request 1 releases A; request 2 releases B. -/
def f28Trace (byId : Bool) : St × RelRes :=
  let s := init 100 60 300
  let s := (getOrCreate false s 0 0 0 false .ok true 1 7).1
  let s := sweepByTime (age s 301)
  let s := (getOrCreate false s 7 0 0 false .ok true 2 0).1
  let s := (release byId s 1).1
  release byId s 2

/-- After that trace: `Release(B)` panicked; A was never closed although it is neither held nor cached. -/
theorem cex_expired_busy_then_same_id :
    let r := f28Trace true
    r.2 = .panic ∧ r.1.panicked = true ∧
    (r.1.cursors 1).acquired = 1 ∧ (r.1.cursors 1).closed = 0 ∧ (r.1.cursors 1).held = false ∧
    r.1.ring.all (fun e => (r.1.holders e).cur != some 1) = true := by decide

/-- the same defect without any expiry: an un-cached cursor A under a client-supplied id 9 is still held when a
    caching request names id 9 and gets B; `Release(A)` marks B's holder idle, `Release(B)` panics. -/
def f28bTrace (byId : Bool) : St × RelRes :=
  let s := init 100 60 300
  let s := (getOrCreate false s 9 0 0 false .ok false 1 0).1
  let s := (getOrCreate false s 9 0 0 false .ok true 2 0).1
  let s := (release byId s 1).1
  release byId s 2

theorem cex_uncached_then_cached_same_id :
    let r := f28bTrace true
    r.2 = .panic ∧ (r.1.cursors 1).closed = 0 ∧ (r.1.cursors 1).held = false ∧
    r.1.ring.all (fun e => (r.1.holders e).cur != some 1) = true := by decide

/-- with the proposed repair (`Release` treats a holder of another cursor as a miss) both traces end well -/
theorem repaired_f28 :
    (f28Trace false).2 = .idle ∧ (f28Trace false).1.panicked = false ∧ ((f28Trace false).1.cursors 1).closed = 1 ∧
    (f28bTrace false).2 = .idle ∧ ((f28bTrace false).1.cursors 1).closed = 1 := by decide

/-! ## finding F16 — two in-flight requests with the same uncached id -/

/-- lookup₁ miss, lookup₂ miss, create₁, create₂, insert₁, insert₂, release₁, release₂ (id 9, cursors 1 and 2) -/
def f16Trace (chk : Bool) : (LookupRes × LookupRes) × St × List RelRes :=
  let s := init 100 60 300
  let (s, l1, id1) := lookup s 9 0 0 false
  let (s, l2, id2) := lookup s 9 0 0 false
  let s := (create s id1 0 0 .ok 1 0).1
  let s := (create s id2 0 0 .ok 2 0).1
  let s := (insert chk s 1).1
  let (s, i2) := insert chk s 2
  let (s, r1) := release true s 1
  -- (with the repair the second request was refused and has nothing to release)
  let (s, r2) := if i2 = .cached then release true s 2 else (s, .closed)
  ((l1, l2), s, [r1, r2])

/-- Both look-ups miss; the second insert overwrites the first one's map entry (the ring has two holders, the map
    one); `Release` of cursor 1 marks cursor 2's holder idle, `Release` of cursor 2 panics; after `busyTo` the
    sweeper drops cursor 1's still-busy holder unclosed: cursor 1 is never closed. -/
theorem cex_same_unknown_id_race :
    let r := f16Trace false
    r.1 = (.miss, .miss) ∧ r.2.2 = [.idle, .panic] ∧ r.2.1.ring.length = 2 ∧ r.2.1.curs.size = 1 ∧
    (let s := sweepByTime (age r.2.1 301)
     (s.cursors 1).closed = 0 ∧ (s.cursors 1).held = false ∧
     s.ring.all (fun e => (s.holders e).cur != some 1) = true) := by decide

/-- with the proposed repair (the second locked section re-checks the map, closes the loser, refuses) -/
theorem repaired_f16 :
    let r := f16Trace true
    r.2.2 = [.idle, .closed] ∧ r.2.1.panicked = false ∧ (r.2.1.cursors 2).closed = 1 ∧ r.2.1.ring.length = 1 := by decide

/-! ## unknown or expired id: transparently continued -/

/-- An id the map does not know (never cached, expired or evicted) is not an error: the first locked section
    changes nothing and the request goes on **with the same id**; the cursor then built carries that id and the
    supplied query and position. -/
theorem unknown_id_continues (s : St) (id query pos : Nat) (posOk : Bool) (newCur newId : Nat)
    (hid : id > 0) (hm : s.curs.get id = none) :
    lookup s id query pos posOk = (s, .miss, id) ∧
    (let r := create s id query pos .ok newCur newId
     r.2 = .cur newCur ∧ (r.1.cursors newCur).id = id ∧ (r.1.cursors newCur).query = query ∧
     (r.1.cursors newCur).pos = pos ∧ (r.1.cursors newCur).held = true ∧ r.1.curs.get = s.curs.get) := by
  have h0 : id ≠ 0 := by omega
  constructor
  · simp [lookup, hid, hm]
  · simp [create, setCur, h0]

example : (init 3 60 300).curs.get 5 = none ∧
    (getOrCreate false (init 3 60 300) 5 1 4 false .ok true 1 0).2 = .new 1 := by decide

/-! ## the single life-cycle steps -/

/-- normal release of a cursor the map does not know (un-cached, or dropped while busy): it is closed -/
theorem release_uncached_closes (byId : Bool) (s : St) (c cp : Nat) (hm : s.curs.get (s.cursors c).id = none) :
    let r := release byId s c cp
    r.2 = .closed ∧ (r.1.cursors c).closed = (s.cursors c).acquired ∧
    (r.1.cursors c).closeCalls = (s.cursors c).closeCalls + 1 ∧ (r.1.cursors c).held = false := by
  simp [release, setCur, closeCur, hm]

/-- a sweep removing an idle holder closes its cursor (once) and forgets its id -/
theorem evict_idle_closes (s : St) (e c : Nat) (r : Bool) (hc : (s.holders e).cur = some c)
    (hb : (s.holders e).busy = false) :
    let s' := evict s e r
    (s'.cursors c).closed = (s.cursors c).acquired ∧ (s'.cursors c).closeCalls = (s.cursors c).closeCalls + 1 ∧
    s'.curs.get (s.cursors c).id = none ∧ (s'.holders e).cur = none ∧ s'.panicked = s.panicked := by
  cases r <;> by_cases hf : s.freeSz < freePoolCap <;>
    simp [evict, hc, hb, closeCur, setCur, hset, IdMap.del, hf]

/-- a sweep removing a busy holder (expired while busy, or evicted by size) does not close the cursor — its user
    still has it — but forgets its id, so that the user's `Release` will close it (`release_uncached_closes`) -/
theorem evict_busy_keeps_open (s : St) (e c : Nat) (r : Bool) (hc : (s.holders e).cur = some c)
    (hb : (s.holders e).busy = true) :
    let s' := evict s e r
    s'.cursors = s.cursors ∧ s'.curs.get (s.cursors c).id = none ∧ (s'.holders e).cur = none := by
  cases r <;> by_cases hf : s.freeSz < freePoolCap <;>
    simp [evict, hc, hb, hset, IdMap.del, hf]

/-- life cycle "expiry while busy": dropped unclosed by the sweeper, closed exactly once by its own release -/
example : let s := (getOrCreate false (init 3 60 300) 0 0 0 false .ok true 1 7).1
    let s := sweepByTime (age s 301)
    (s.cursors 1).closed = 0 ∧ s.ring = [] ∧
    (release true s 1).2 = .closed ∧ ((release true s 1).1.cursors 1).closed = 1 ∧
    ((release true s 1).1.cursors 1).closeCalls = 1 := by decide

/-- life cycle "eviction by size": the least recently used holder goes, idle ⇒ closed -/
example : let s := (getOrCreate false (init 1 60 300) 0 0 0 false .ok true 1 7).1
    let s := (release true s 1).1
    let s := (getOrCreate false s 0 0 0 false .ok true 2 8).1
    let s := sweepBySize s
    (s.cursors 1).closed = 1 ∧ (s.cursors 2).closed = 0 ∧ s.ring.length = 1 ∧ s.curs.size = 1 := by decide

/-- life cycle "state cannot be applied": the cached cursor stays (idle), a new one is built under a new id -/
example : let s := (getOrCreate false (init 3 60 300) 0 0 0 false .ok true 1 7).1
    let s := (release true s 1).1
    let r := getOrCreate false s 7 1 2 true .ok true 2 8
    r.2 = .new 2 ∧ (r.1.cursors 2).id = 8 ∧ r.1.ring.length = 2 ∧ (r.1.cursors 1).closed = 0 := by decide

/-! ## regenerated facts -/

/-- every access to `p.curs`, `p.busy`, `p.free`, `p.freePoolSz` in provider.go happens under `p.lock`
    (so the locked sections are the atomic steps of the model) -/
theorem lock_discipline : Logrange.Generated.C15.unlockedAccesses = [] := by decide

/-- NewProvider's knobs: a cache exists, timeouts are positive, a busy request gets at least the idle time,
    the sweeper's period `idleTo / 5` is positive; the model's free-pool cap is the code's -/
theorem knobs_sane :
    0 < Logrange.Generated.C15.maxCurs ∧ 0 < Logrange.Generated.C15.idleToSec ∧
    Logrange.Generated.C15.idleToSec ≤ Logrange.Generated.C15.busyToSec ∧
    0 < Logrange.Generated.C15.idleToSec / Logrange.Generated.C15.sweeperPeriodDivisor ∧
    Logrange.Generated.C15.freePoolCap = freePoolCap := by decide

/-! ## not proved: the full statement -/

/-- a cursor is at the end of its life: acquired, not held by a request, not reachable from the ring -/
def Dead (s : St) (c : Nat) : Prop :=
  (s.cursors c).acquired = 1 ∧ (s.cursors c).held = false ∧ ∀ e ∈ s.ring, (s.holders e).cur ≠ some c

/-- the ring and the map hold the same holders; the free ring is disjoint from the busy ring -/
def RingInv (s : St) : Prop :=
  s.ring.Nodup ∧ s.free.Nodup ∧ (∀ e ∈ s.ring, e ∉ s.free) ∧ s.freeSz = s.free.length ∧ s.curs.size = s.ring.length ∧
  (∀ e ∈ s.ring, ∃ c, (s.holders e).cur = some c ∧ s.curs.get (s.cursors c).id = some e) ∧
  (∀ id e, s.curs.get id = some e → e ∈ s.ring)

/-- a sequential, well-behaved history: requests are not interleaved (`get`, no split steps), only held cursors
    are released, new cursor numbers/ids are fresh, and no cursor is built under an id while another cursor built
    under that id is still held (the class of F28; F16 needs interleaving) -/
def WellBehaved (chk byId : Bool) : St → List Label → Prop
  | _, [] => True
  | s, l :: tr =>
    (match l with
     | .get id _ _ _ _ _ c n =>
        (s.cursors c).acquired = 0 ∧ n > 0 ∧ (∀ c', (s.cursors c').acquired = 1 → (s.cursors c').id ≠ n) ∧
        (∀ c', (s.cursors c').held = true → (s.cursors c').id = id → s.curs.get id ≠ none)
     | .release c _ => (s.cursors c).held = true
     | .age d => d ≥ 0
     | .sweepT | .sweepS => True
     | _ => False) ∧ WellBehaved chk byId (stepL chk byId s l) tr

/-- FULL statement (NOT proved; the harness's `provider` section evaluates it on the implementation after every
    step): on well-behaved histories nothing panics, the ring invariant holds, and every dead cursor was closed
    exactly once by exactly one call of `close()`. -/
def C15_full : Prop :=
  ∀ (maxCurs : Nat) (idleTo busyTo : Int) (tr : List Label),
    WellBehaved false true (init maxCurs idleTo busyTo) tr →
    let s := run false true (init maxCurs idleTo busyTo) tr
    s.panicked = false ∧ RingInv s ∧ ∀ c, Dead s c → (s.cursors c).closed = 1 ∧ (s.cursors c).closeCalls = 1

end Logrange.Props.C15
