import Logrange.Model.IdGen
/-!
# C06 — fresh partition ids across restarts, and FROM through a held cursor (wave-5 seeds C06-13, C06-14)

"Writes with different tag sets never share a partition" rests on `getOrCreateJournal` giving a NEW partition an id no stored
partition has. Inside one process the counter only grows; across restarts it is re-seeded from the clock. `id_seed_pinned` pins
how (regenerated from `pkg/utils/simpleid.go`, `pkg/tindex/idgen.go`), `ids_disjoint_across_lives` is the contract under which
no id is issued twice, `cex_seconds_seed` shows the contract is lost when the seed counts seconds.

**Residual (honest statement).** The ids are time-seeded. They can still repeat when (a) the wall clock is set back between two
process starts by more than the gap, (b) a process issues more than one id per 65 536 ns averaged over its life and is restarted
immediately (≈ 15 258 ids/s), (c) two processes share a host id and a data directory at the same time. None of these is excluded
by the code; the harness section `idgen` runs the contract on the real generator with child processes.
-/
namespace Logrange.Props.C06Ids
open Logrange.IdGen

/-- the counter is seeded from the nanosecond clock, masked to ticks of 2^16 ns, and advances one tick per id; the source id
spells the counter -/
theorem id_seed_pinned : Logrange.Generated.C06.idSeedClock = "UnixNano" ∧
    Logrange.Generated.C06.idSeedMask = 0xFFFFFFFFFFFF0000 ∧ Logrange.Generated.C06.idSeedShift = 0 ∧
    Logrange.Generated.C06.idIncrement = tick ∧ Logrange.Generated.C06.newSrcFormat = "%X%02X" := by decide

/-- within one process the ids grow strictly -/
theorem ids_increase_within_life (t h k k' : Nat) (hk : k < k') : idN t h k < idN t h k' := by
  unfold idN
  have : k * tick < k' * tick := Nat.mul_lt_mul_of_pos_right hk (by decide)
  omega

/-- **No id is issued twice across a restart**: a process that started at `t1` and issued `n1` ids, followed by a process (same
host id) that starts at `t2 ≥ t1 + n1` ticks — every id of the second is larger than every id of the first -/
theorem ids_disjoint_across_lives (t1 t2 h n1 : Nat) (hgap : t1 + n1 * tick ≤ t2) (i j : Nat) (hi : i ≤ n1) (hj : 1 ≤ j) :
    idN t1 h i < idN t2 h j := by
  unfold idN seedN
  have hd : t1 / tick + n1 ≤ t2 / tick := by
    have h1 : (t1 + n1 * tick) / tick = t1 / tick + n1 := by
      rw [Nat.add_mul_div_right _ _ (by decide : 0 < tick)]
    rw [← h1]
    exact Nat.div_le_div_right hgap
  have e1 : t1 / tick * tick + h + i * tick = (t1 / tick + i) * tick + h := by rw [Nat.add_mul]; omega
  have e2 : t2 / tick * tick + h + j * tick = (t2 / tick + j) * tick + h := by rw [Nat.add_mul]; omega
  rw [e1, e2]
  have : (t1 / tick + i) * tick < (t2 / tick + j) * tick := Nat.mul_lt_mul_of_pos_right (by omega) (by decide)
  omega

/-- … hence a partition created after the restart never gets the id of a partition stored before it -/
theorem new_id_not_stored (t1 t2 h n1 : Nat) (hgap : t1 + n1 * tick ≤ t2) (stored : List Nat)
    (hs : ∀ x ∈ stored, ∃ i, 1 ≤ i ∧ i ≤ n1 ∧ x = idN t1 h i) (j : Nat) (hj : 1 ≤ j) : idN t2 h j ∉ stored := by
  intro hm
  obtain ⟨i, _, hi, e⟩ := hs _ hm
  have := ids_disjoint_across_lives t1 t2 h n1 hgap i j hi hj
  omega

/-- the contract is lost when the seed counts SECONDS (`Unix() << 16`, seeded change C06-14): two processes started one second
apart, the first issuing two ids — the second id of the first is the first id of the second -/
theorem cex_seconds_seed : idS 1000 7 2 = idS 1001 7 1 := by decide

/-- non-vacuity: 3000 ids, restart 0.2 s (196 608 000 ns) later -/
example : idN 1000000000 0 3000 < idN (1000000000 + 3000 * tick) 0 1 :=
  ids_disjoint_across_lives _ _ 0 3000 (Nat.le_refl _) 3000 1 (Nat.le_refl _) (Nat.le_refl _)

/-- **the raw-text fast path of `getOrCreateJournal` reads `tmap` only** (regenerated: the maps indexed with a key built from
the raw text parameter). `fast_path_sound`, `tindex_map_inv` and the roll-back / `Delete` reasoning assume that a raw text can
reach a descriptor through `tmap` alone; a second map keyed by the client's spelling (seeded change C06-18: `amap`) is state the
model does not have — `Delete` leaves it pointing to a dropped, exclusively locked descriptor and the spelling hangs. -/
theorem fast_path_reads_only_tmap : Logrange.Generated.C06.fastPathMaps = ["tmap"] := by decide

/-! ## FROM through a held cursor -/

/-- `crsr.ApplyState` refuses a state that carries another query text (regenerated from `pkg/cursor/cursor.go`) -/
theorem held_cursor_refuses_other_query : Logrange.Generated.C06.applyStateChecksQuery = true := by decide

/-- **the cursor that serves a request was built from the request's own query text** — whatever the cache holds, whatever ReqId
the request names; so the FROM that selects the partitions (`Props.C06Utf8.from_selects_exactly_or_fails`) is the FROM that was sent -/
theorem serving_query_is_request (cache : List Held) (rid : Nat) (q : List UInt8) :
    servingQuery true cache rid q = q := by
  unfold servingQuery
  cases h : cache.find? (fun h => h.id == rid) with
  | none => rfl
  | some hd =>
    by_cases e : hd.query = q
    · simp [e]
    · simp [e]

/-- without the comparison (seeded change C06-13) a request is served from the cached cursor of ANOTHER query -/
theorem cex_no_query_check : servingQuery false [⟨7, [97]⟩] 7 [98] = [97] := by decide

end Logrange.Props.C06Ids
