import Logrange.Props.C15
import Logrange.Proofs.ProviderRing
import Logrange.Proofs.ProviderSweep
import Logrange.Proofs.ProviderTouch
/-!
# C15, second part — the rings at pointer level, and the sweeper in bounded form

Every theorem of this namespace is an obligation of `./check C15`.

**Pointer level.** `Model/RingPtr.lean` is `container.CLElement` as it is in `pkg/container/clist.go`: two pointer fields per
cell in a heap, `Append` / `TearOff` / `Len` / `Prev` / `Next` statement by statement (the writes alias when cells
coincide, e.g. singleton rings; `Next()` returns `prev`). `ring_primitives_refine`: each primitive refines the list-level
ring of `Model/Ring.lean` (the one the provider proof uses) — for all rings. `ring_ops_refine`: for ALL sequences of the
ring manipulations provider.go performs, each under its side condition, the pointer-level run is simulated by the
list-level run. `ring_pointer_level`: every reachable state of the provider model (any well-formed trace) has a
pointer-level twin — the side conditions always hold in the provider — in which `Prev()`/`Next()`/`Len()` agree.

**Sweeper.** `sweepByTime` steps over the element before a removed one (`Next()` returns `prev`), passes live busy holders,
stops at a live idle holder, and its counter lets it go round the ring again: one sweep does NOT close every expired
idle cursor. What holds: `sweep_exact` (what one sweep removes and closes, exactly), `sweep_closes_oldest` (the holder
touched longest ago, if expired and idle, is always closed by the next sweep), `sweep_halves` (a sweep at least halves the
number of expired holders in a ring ordered by last touch), `sorted_reachable` (the ring IS ordered by last touch in every
reachable state whose clock does not run backwards), `sweeper_bound` (with the regenerated `maxCurs` fewer than `2^16` holders
exist after `sweepBySize`, so 16 sweeps leave no expired holder and every expired idle cursor is closed).
`provider.Shutdown` closes nothing (regenerated fact `shutdownClosesCursors = false`; the process exits): not a theorem.
-/
namespace Logrange.Props.C15Live
open Logrange.Provider Logrange.Ring Logrange.RingPtr Logrange.Props.C15

/-! ## the rings at pointer level -/

/-- **Each primitive of `clist.go` refines the list-level ring**, for all rings (also empty and singleton ones):
`NewCLElement`, `Append` of two disjoint rings, `TearOff` of a member (the removed cell is a singleton ring again),
`Prev()`, `Next()` (= prev), `Len()`. -/
theorem ring_primitives_refine (h : Heap) :
    (∀ e, Repr (newElem h e) [e]) ∧
    (∀ r1 r2, Repr h r1 → Repr h r2 → (∀ x, x ∈ r1 → x ∉ r2) →
      (RingPtr.append h (ptr r1) (ptr r2)).2 = ptr (Ring.append r1 r2) ∧
      Repr (RingPtr.append h (ptr r1) (ptr r2)).1 (Ring.append r1 r2)) ∧
    (∀ r e, Repr h r → e ∈ r →
      (RingPtr.tearOff h (ptr r) (some e)).2 = ptr (Ring.tearOff r (some e)) ∧
      Repr (RingPtr.tearOff h (ptr r) (some e)).1 (Ring.tearOff r (some e)) ∧
      Repr (RingPtr.tearOff h (ptr r) (some e)).1 [e]) ∧
    (∀ r e, Repr h r → e ∈ r → prevM h e = Ring.prev r e ∧ nextM h e = Ring.next r e) ∧
    (∀ r fuel, Repr h r → r.length ≤ fuel → RingPtr.len h (ptr r) fuel = Ring.len r) :=
  ⟨fun e => repr_new h e, fun r1 r2 h1 h2 hd => append_refines h r1 r2 h1 h2 hd,
   fun r e h1 he => tearOff_refines h r e h1 he,
   fun r e h1 he => ⟨prev_refines h r e h1 he, next_refines h r e h1 he⟩,
   fun r fuel h1 hf => len_refines h r fuel h1 hf⟩

/-- **For all operation sequences**: from any simulated pair of states, every sequence of the provider's ring
manipulations (`toHead`, `insertNew`, `insertFree`, `evict`) whose side conditions hold along the list-level run keeps the
pointer-level state simulated: one heap holds both rings, disjoint, both pointer chains of each describe the same cycle,
`p.busy`/`p.free` point at the heads. -/
theorem ring_ops_refine (ops : List Op) (p : PSt) (l : LSt) (hs : Sim p l) (ok : OkRun l ops) :
    Sim (prun p ops) (lrun l ops) := sim_run ops hs ok

/-- **Every reachable provider state has a pointer-level twin**: the side conditions hold at every ring manipulation
the provider performs (the element moved to the head is in the busy ring, a new element is in neither ring, the evicted
element is in the busy ring, the free ring is not empty when an element is taken from it) — so executing the real pointer
manipulations yields a heap that represents the model's two rings, and `Prev()`, `Next()`, `Len()` read from the heap
are what the list-level model says. -/
theorem ring_pointer_level {s : St} (h : Reachable s) :
    ∃ ops, OkRun LSt.init ops ∧ Sim (prun PSt.init ops) ⟨s.ring, s.free⟩ ∧
      (∀ e, e ∈ s.ring → prevM (prun PSt.init ops).heap e = Ring.prev s.ring e ∧
                          nextM (prun PSt.init ops).heap e = Ring.next s.ring e) ∧
      (∀ fuel, s.ring.length ≤ fuel → RingPtr.len (prun PSt.init ops).heap (prun PSt.init ops).busy fuel = Ring.len s.ring) := by
  obtain ⟨m, i, b, tr, wf, rfl⟩ := h
  rw [code_shape.1, code_shape.2]
  obtain ⟨ops, ok, sim⟩ := pointer_twin m i b tr wf
  exact ⟨ops, ok, sim, (sim_prev sim).1, fun fuel hf => (sim_len sim fuel).1 hf⟩

/-- non-vacuity: three cursors cached, the first touched again, the second evicted into the free pool and re-used -/
example : OkRun LSt.init [.insertNew 1, .insertNew 2, .insertNew 3, .toHead 1, .evict 2 true, .insertFree] ∧
    lrun LSt.init [.insertNew 1, .insertNew 2, .insertNew 3, .toHead 1, .evict 2 true, .insertFree] = ⟨[2, 1, 3], []⟩ := by
  decide

/-! ## the sweeper, bounded form -/

/-- **What one `sweepByTime` does, exactly**: the ring afterwards is the old ring (order kept) without `removed s` — the
removals of the cyclic walk `cwalk` evaluated on the holders as they were; every removed holder was expired; the cursor of a
removed idle holder has given its partitions back; cursors not cached by a removed holder and holders not removed are
untouched. -/
theorem sweep_exact {s : St} (h : Reachable s) :
    (sweepByTime s).ring = s.ring.filter (fun y => decide (y ∉ removed s)) ∧
    (∀ e ∈ removed s, e ∈ s.ring ∧ (s.holders e).exp < s.now) ∧
    (∀ e ∈ removed s, (s.holders e).busy = false → ∀ c, (s.holders e).cur = some c →
        ((sweepByTime s).cursors c).closed = 1 ∧ ((sweepByTime s).cursors c).acquired = 1) ∧
    (∀ c, (∀ e ∈ removed s, (s.holders e).cur ≠ some c) → (sweepByTime s).cursors c = s.cursors c) ∧
    (∀ e, e ∉ removed s → (sweepByTime s).holders e = s.holders e) :=
  sweepByTime_removes (reachable_K h)

/-- **The oldest cursor is always reached**: the tail of the busy ring (the holder touched longest ago), if expired and
idle, is unlinked by the next sweep and its cursor's partitions are given back. -/
theorem sweep_closes_oldest {s : St} (h : Reachable s) {e c : Nat} (hl : s.ring.getLast? = some e)
    (hexp : (s.holders e).exp < s.now) (hidle : (s.holders e).busy = false) (hc : (s.holders e).cur = some c) :
    e ∉ (sweepByTime s).ring ∧ ((sweepByTime s).cursors c).closed = 1 ∧ ((sweepByTime s).cursors c).acquired = 1 :=
  Logrange.Provider.sweep_closes_oldest (reachable_K h) hl hexp hidle hc

/-- **A sweep at least halves the expired holders** of a ring that is ordered by last touch (`Sorted`: nothing expired
lies beyond a live idle holder in examination order). -/
theorem sweep_halves {s : St} (h : Reachable s) (hs : Sorted s) :
    ((sweepByTime s).ring.filter (expd s)).length ≤ (s.ring.filter (expd s)).length / 2 :=
  Logrange.Provider.sweep_halves (reachable_K h) hs

/-- the ring order follows from the touch order when `idleTo ≤ busyTo` (the regenerated constants: `knobs_sane`) -/
theorem sorted_of_touch_order {s : St} (hto : s.idleTo ≤ s.busyTo)
    (hord : s.ring.Pairwise (fun x y => touch s y ≤ touch s x)) : Sorted s :=
  Sorted_of_touch_order hto hord

/-- reachable states of the code as it is, with a clock that does not run backwards (`.age d` with `0 ≤ d`) and
`idleTo ≤ busyTo` (true of `NewProvider`'s constants: `knobs_sane`) -/
def ReachableClock (s : St) : Prop :=
  ∃ (maxCurs : Nat) (idleTo busyTo : Int) (tr : List Label), idleTo ≤ busyTo ∧ WF (init maxCurs idleTo busyTo) tr ∧
    ClockOK tr ∧
    s = run Logrange.Generated.C15.insertChecksExisting Logrange.Generated.C15.releaseLooksUpById
          (init maxCurs idleTo busyTo) tr

theorem ReachableClock.reachable {s : St} (h : ReachableClock s) : Reachable s := by
  obtain ⟨m, i, b, tr, _, wf, _, e⟩ := h; exact ⟨m, i, b, tr, wf, e⟩

/-- **The busy ring is ordered by last touch in every reachable state** (every get/release moves its holder to the head
and stamps it `now + busyTo` / `now + idleTo`; sweeps only unlink; the clock does not run backwards) — so nothing expired
lies beyond a live idle holder, and the early `return` of `sweepByTime` never leaves an expired holder unexamined behind it. -/
theorem sorted_reachable {s : St} (h : ReachableClock s) : Sorted s := by
  obtain ⟨m, i, b, tr, hib, wf, hc, rfl⟩ := h
  rw [code_shape.1, code_shape.2]
  exact Sorted_reachable m i b hib tr wf hc

/-- **The sweeper's bound with the regenerated constants**: after `sweepBySize` at most `maxCurs` (= 50 000 < 2^16)
holders exist; then 16 sweeps leave no expired holder in the ring, and the cursor of every expired idle holder has given
its partitions back — in every reachable state, no ordering hypothesis. (The sweeper runs every `idleTo / 5`; sweeps are
iterated here at one instant — holders that expire later are the business of later sweeps; that the sweeper goroutine is
scheduled at all is not a statement about this model.) -/
theorem sweeper_bound {s : St} (h : ReachableClock s) (hsz : s.ring.length ≤ Logrange.Generated.C15.maxCurs) :
    (sweepN 16 s).ring.filter (expd s) = [] ∧
    ∀ e ∈ s.ring, (s.holders e).exp < s.now → e ∉ (sweepN 16 s).ring ∧
      ((s.holders e).busy = false → ∀ c, (s.holders e).cur = some c →
        ((sweepN 16 s).cursors c).closed = ((sweepN 16 s).cursors c).acquired) := by
  have hs := sorted_reachable h
  have hr := h.reachable
  have hlt : (s.ring.filter (expd s)).length < 2 ^ 16 := by
    have h1 := List.length_filter_le (expd s) s.ring
    have h2 : Logrange.Generated.C15.maxCurs < 2 ^ 16 := by decide
    omega
  exact ⟨sweeps_finish 16 s (reachable_K hr) hs hlt, sweeps_close 16 s (reachable_K hr) hs hlt⟩

/-- one sweep at least halves the expired holders, in every reachable state -/
theorem sweep_halves_reachable {s : St} (h : ReachableClock s) :
    ((sweepByTime s).ring.filter (expd s)).length ≤ (s.ring.filter (expd s)).length / 2 :=
  Logrange.Provider.sweep_halves (reachable_K h.reachable) (sorted_reachable h)

/-- non-vacuity: a well-formed trace with a forward clock (two cursors used at 0, one at 50, now = 70) -/
example : ReachableClock (run true false (init 50000 60 300)
    [.get 0 7 0 true .ok true 1 11, .release 1 2, .get 0 7 0 true .ok true 2 12, .release 2 2, .age 50,
     .get 0 7 0 true .ok true 3 13, .release 3 2, .age 20]) := by
  refine ⟨50000, 60, 300, _, by decide, ?_, ?_, by rw [code_shape.1, code_shape.2]⟩
  · simp only [WF, wfLabel]; decide
  · intro l hl; simp only [List.mem_cons, List.not_mem_nil, or_false] at hl
    rcases hl with rfl | rfl | rfl | rfl | rfl | rfl | rfl | rfl <;> simp [clockOKL]

/-- non-vacuity (`exA`: two cursors used at t = 0, one at t = 50, now = 70): the oldest is closed, the second oldest is
expired but stepped over, the sweep stops at the live idle head; a second sweep closes the one stepped over.
(`exB`: three expired idle holders — the counter lets the loop go round again and all three are removed.) -/
example : exA.ring = [2, 1, 0] ∧ removed exA = [0] ∧ (sweepByTime exA).ring = [2, 1] ∧ (sweepN 2 exA).ring = [2] := by
  decide +kernel
example : removed exB = [0, 2, 1] ∨ (sweepByTime exB).ring = [] := by
  right; decide +kernel

end Logrange.Props.C15Live
