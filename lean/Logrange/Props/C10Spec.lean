import Logrange.Proofs.PipeSpec
import Logrange.Props.C10
/-!
# C10 — the pipe specification for clean schedules (ghost monitor)

Property theorems only (model: `Logrange/Model/PipeLts.lean`; monitor, invariant and lemmas: `Logrange/Proofs/PipeSpec.lean`).

`pipe_spec_partial` (Props/C10) assumes two facts about the *final descriptor* (`d.start = createdAt`,
`d.lastKnown = log.length`). Here they are derived from a condition on the *schedule*: the monitor `Mon` runs alongside
the LTS (`runM`; the model is untouched, `monitor_is_ghost`) and keeps, per source, the flag `clean` —

* no notification of the source was in flight when the pipe was created,
* every notification of the source processed since was looked up successfully (no stale cache entry) and started where
  the previous one ended (write order; the first one at the creation point),
* every stop (`halt`) found nothing of the source queued or unpublished and nothing behind `LastKnwnPos`.

`clean = false` is exactly the class of finding F10 and its relatives; each way of losing it is witnessed below by a
kernel-evaluated run in which the pipe partition differs from the specification.
-/
namespace Logrange.Props.C10Spec
open Logrange.PipeLts Logrange.Props.C10

/-- the monitor is a ghost: the LTS component of the instrumented run is the plain run -/
theorem monitor_is_ghost (st : State) (m : Mon) (ls : List Label) : (runM cfgNow (st, m) ls).1 = run cfgNow st ls :=
  runM_fst cfgNow (st, m) ls

/-- **The specification, for every clean schedule** (all interleavings; any number of sources, batches, worker steps,
shutdowns and restarts): in a quiescent state of a running service with the pipe alive, the pipe partition holds for a
listening source whose schedule was clean exactly the events written to it after the pipe's creation for which the
filter is true — once, in stored order, provenance appended. No hypothesis about the descriptor. -/
theorem pipe_spec (n : Nat) (l : Nat → Bool) (p : Nat → Bytes) (f : Ev → Bool) (o : Bool) (ls : List Label) (s : Nat) :
    let r := runM cfgNow (init n l p f o, mon0) ls
    let st := r.1
    quiescent st = true → st.closed = false → st.down = false → st.pipe = .live → s < st.n →
    (st.srcs s).listens = true → r.2.clean s = true →
    proj s st.dest = specProj st s :=
  spec_of_clean cfgNow (by decide) (by decide) (by decide) (by decide) n l p f o ls s

/-- the same about the plain run: the final state is that of `run`, cleanliness is the monitor's verdict on `ls` -/
theorem pipe_spec_run (n : Nat) (l : Nat → Bool) (p : Nat → Bytes) (f : Ev → Bool) (o : Bool) (ls : List Label) (s : Nat) :
    let st := run cfgNow (init n l p f o) ls
    quiescent st = true → st.closed = false → st.down = false → st.pipe = .live → s < st.n →
    (st.srcs s).listens = true → (runM cfgNow (init n l p f o, mon0) ls).2.clean s = true →
    proj s st.dest = specProj st s := by
  have h := pipe_spec n l p f o ls s
  simp only [monitor_is_ghost] at h
  exact h

/-! ### the ways of losing `clean` (each: a quiescent live state, `clean = false`, partition ≠ specification) -/

/-- (a) **F10**, racing first writes, the later one notified first (the run of `cex_first_notification_reordered`) -/
example :
    let r := runM cfgNow (init 1 (fun _ => true) (fun _ => prov0) (fun _ => true) false, mon0)
      ([.create, .write 0 [evA], .write 0 [evB], .enqueue 1, .enqueue 0, .notify, .notify] ++ copyCycle)
    quiescent r.1 = true ∧ r.1.closed = false ∧ r.1.down = false ∧ r.1.pipe = .live ∧
      r.2.clean 0 = false ∧ proj 0 r.1.dest ≠ specProj r.1 0 := by
  decide

/-- (b) a notification still queued at `halt` (the run of `cex_notification_lost_at_shutdown`) -/
example :
    let r := runM cfgNow (init 1 (fun _ => true) (fun _ => prov0) (fun _ => true) false, mon0)
      ([.create, .write 0 [evA], .enqueue 0, .shutdown, .halt, .restart, .write 0 [evB], .enqueue 0, .notify] ++ copyCycle)
    quiescent r.1 = true ∧ r.1.closed = false ∧ r.1.down = false ∧ r.1.pipe = .live ∧
      r.2.clean 0 = false ∧ proj 0 r.1.dest ≠ specProj r.1 0 := by
  decide

/-- (c) a notification in flight at `create`: the pipe copies an event that is older than itself -/
example :
    let r := runM cfgNow (init 1 (fun _ => true) (fun _ => prov0) (fun _ => true) false, mon0)
      ([.write 0 [evA], .enqueue 0, .create, .notify] ++ copyCycle)
    quiescent r.1 = true ∧ r.1.closed = false ∧ r.1.down = false ∧ r.1.pipe = .live ∧
      r.2.clean 0 = false ∧ proj 0 r.1.dest = [addProv prov0 evA] ∧ specProj r.1 0 = [] := by
  decide

/-- (d) a stop with data behind `LastKnwnPos` (the worker left before copying): the descriptor comes back stale and
nothing wakes it — `clean` is lost at the `halt` -/
example :
    let r := runM cfgNow (init 1 (fun _ => true) (fun _ => prov0) (fun _ => true) false, mon0)
      [.create, .write 0 [evA], .enqueue 0, .notify, .wopen 0, .wcopy 0 0, .wsave 0, .shutdown, .wtimeout 0, .wdone 0,
       .halt, .restart]
    quiescent r.1 = true ∧ r.1.closed = false ∧ r.1.down = false ∧ r.1.pipe = .live ∧
      r.2.clean 0 = false ∧ proj 0 r.1.dest ≠ specProj r.1 0 := by
  decide

/-! ### non-vacuity: a clean schedule -/

/-- two sources, interleaved workers, a restart at a quiescent point, later writes to both: `clean` holds for both
sources, every hypothesis of `pipe_spec` is met, and the partition is the specification (four events) -/
example :
    let r := runM cfgNow (init 2 (fun _ => true) (fun s => [s.toUInt8]) (fun _ => true) false, mon0)
      [.create, .write 0 [evA], .write 1 [evB], .enqueue 0, .enqueue 0, .notify, .notify, .wopen 1, .wopen 0, .wcopy 1 5,
       .wcopy 0 5, .wsave 0, .wsave 1, .wtimeout 0, .wtimeout 1, .wdone 0, .wdone 1, .shutdown, .halt, .restart,
       .write 0 [evB], .write 1 [evA], .enqueue 0, .enqueue 0, .notify, .notify,
       .wopen 0, .wcopy 0 5, .wsave 0, .wtimeout 0, .wdone 0, .wopen 1, .wcopy 1 5, .wsave 1, .wtimeout 1, .wdone 1]
    quiescent r.1 = true ∧ r.1.closed = false ∧ r.1.down = false ∧ r.1.pipe = .live ∧
      r.2.clean 0 = true ∧ r.2.clean 1 = true ∧
      proj 0 r.1.dest = specProj r.1 0 ∧ proj 1 r.1.dest = specProj r.1 1 ∧
      r.1.dest = [(1, addProv [1] evB), (0, addProv [0] evA), (0, addProv [0] evB), (1, addProv [1] evA)] := by
  decide

/-- a filtering pipe over a source that already held data at the creation: clean, and only the accepted later event -/
example :
    let r := runM cfgNow (init 1 (fun _ => true) (fun _ => prov0) fltNotA false, mon0)
      ([.write 0 [evB], .enqueue 0, .notify, .create, .write 0 [evA, evB], .enqueue 0, .notify] ++ copyCycle)
    quiescent r.1 = true ∧ r.2.clean 0 = true ∧ r.2.nextExp 0 = 3 ∧ (r.1.srcs 0).createdAt = 1 ∧
      proj 0 r.1.dest = [addProv prov0 evB] ∧ specProj r.1 0 = [addProv prov0 evB] := by
  decide

end Logrange.Props.C10Spec
