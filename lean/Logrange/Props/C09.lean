import Logrange.Proofs.TruncateDry
import Logrange.Proofs.TruncateWriter
import Logrange.Proofs.TruncateDisk
import Logrange.Proofs.TruncateUnsel
import Logrange.Proofs.TruncateInUse
import Logrange.Generated.C09
/-!
# C09 — Truncation removes only whole oldest chunks, within the requested bounds

Property theorems only (lemmas: `Logrange/Proofs/Truncate.lean`, model: `Logrange/Model/Truncate.lean`).
The model is instantiated with the facts the extractor reads from `/repo` on every run
(`Generated.C09`: the comparison operator of the time loop, the constants of the MAXDBSIZE pass' inner call).
-/
namespace Logrange.Props.C09
open Logrange.Truncate

/-- the time loop's comparison as the code has it now -/
def strict : Bool := Generated.C09.timeLoopStrict
def gMin : Nat := Generated.C09.globalMinSrcSize
def gMax : Nat := Generated.C09.globalMaxSrcSize
/-- the accounting shape of the MAXDBSIZE pass as the code has it now (`false`: only when the partition was dropped,
finding F77; `true`: whenever the inner truncate ran, the repair) — every theorem about `runNow` holds for both -/
def acct : Bool := Generated.C09.globalAccountsWhenDropRefused

/-- the chooser / the truncation of one partition / the command, as the code is now -/
local notation "chooseNow" => choose strict
local notation "truncateNow" => truncate strict
local notation "runNow" => run acct strict gMin gMax

/-- **The shape of the code the model mirrors** (regenerated from the source): strict `<` in the time loop, both
loops re-check MINSIZE, the size loop is guarded by `Max > 0 && Max > Min`, deletion addresses `cks[idx-1]` and is
skipped by DRYRUN, the MAXDBSIZE pass calls `truncate` with `MinSrcSize 0, MaxSrcSize 1`. -/
theorem code_shape :
    Generated.C09.timeLoopStrict = true ∧ Generated.C09.sizeLoopGuarded = true ∧
    Generated.C09.sizeLoopChecksMin = true ∧ Generated.C09.timeLoopChecksMin = true ∧
    Generated.C09.deletesUpToIdxMinusOne = true ∧ Generated.C09.dryRunReturnsBeforeDelete = true ∧
    Generated.C09.globalMinSrcSize = 0 ∧ Generated.C09.globalMaxSrcSize = 1 ∧
    -- b1a5e66: one snapshot of the chunk sizes for the total and the guards
    Generated.C09.truncateReadsJournalSize = false ∧ Generated.C09.totalIsSnapshotSum = true ∧
    Generated.C09.loopsRereadChunkSize = false ∧
    -- 49b0b2b: the dry MAXDBSIZE pass subtracts the chunks phase I already counted
    Generated.C09.globalDeltaIsLenCks = true ∧ Generated.C09.dryDeltaSubtractsPhase1 = true ∧
    -- the time index folds a write notification into a chunk's hull with two independent ifs (MinTs, MaxTs)
    Generated.C09.hullUpdateIndependentIfs = true ∧
    -- deleteJournal re-checks the size under its exclusive lock, after a Sync (eafecef)
    Generated.C09.deleteJournalRechecksSize = true ∧ Generated.C09.deleteJournalSyncsBeforeRecheck = true ∧
    -- deleteJournal removes the partition's own folder from the disk, nothing above it
    Generated.C09.deleteJournalRemovesOwnFolderOnly = true ∧
    -- 46009da (F77): the MAXDBSIZE pass accounts for and reports what it removed also when the drop is refused;
    -- 4d9dcd4 (F56, statement vs statement): Service.Truncate is serialised by a mutex
    Generated.C09.globalAccountsWhenDropRefused = true ∧ Generated.C09.truncateSerialized = true ∧
    -- the visitor of Service.Truncate flushes before it looks at the partition's size, dry run included (466355c)
    Generated.C09.truncateVisitorSyncsBeforeSize = true ∧
    -- cac5c5d: equal latest timestamps are ordered by source id
    Generated.C09.insertOrdersByTsDescThenSrcAsc = true := by decide

/-! ## one partition (phase I: `truncate` with the statement's parameters) -/

/-- **Only whole chunks, only the oldest**: whatever `Journal.Size()` answered, the chunks afterwards are the
chunks before minus a prefix of `n ≤ len` chunks (`n` = the chooser's count, also the count reported), and a DRYRUN
keeps all of them. Chunk ids ascend (library contract A.2). -/
theorem truncate_prefix (p : Params) (cks : List Chunk) (hs : Ascending cks) :
    (chooseNow p cks).n ≤ cks.length ∧
    (truncateNow p cks).n = (chooseNow p cks).n ∧
    (truncateNow p cks).chunks = if p.dryRun = true then cks else cks.drop (chooseNow p cks).n :=
  ⟨choose_n_le _ p cks, truncate_n _ p cks hs, truncate_chunks _ p cks hs⟩

/-- **Content afterwards is a suffix of the content before** (`ev` = the events a chunk holds). -/
theorem suffix_after {α : Type} (ev : Chunk → List α) (p : Params) (cks : List Chunk) (hs : Ascending cks) :
    ((truncateNow p cks).chunks.flatMap ev) <:+ (cks.flatMap ev) := by
  rw [(truncate_prefix p cks hs).2.2]
  split
  · exact List.suffix_refl _
  · refine ⟨(cks.take (chooseNow p cks).n).flatMap ev, ?_⟩
    rw [← List.flatMap_append, List.take_append_drop]

/-- **Size rule** (no hypothesis on the sizes: the total is the sum of the snapshot the guards use, b1a5e66): the `i`-th chunk taken by the size
loop was taken with MAXSIZE given, the partition above MAXSIZE before it went, and at least MINSIZE left after. -/
theorem size_rule (p : Params) (cks : List Chunk) (i : Nat) (hi : i < (chooseNow p cks).bySize) :
    0 < p.maxSrc ∧ p.maxSrc < psize (cks.drop i) ∧ p.minSrc ≤ psize (cks.drop (i + 1)) := by
  have := (choose_spec strict p cks).2.1 i hi
  rw [psize_drop_eq, psize_drop_eq]; exact this

/-- **BEFORE rule**: a chunk taken by the time loop has its newest timestamp strictly below `t`. -/
theorem before_rule (p : Params) (cks : List Chunk) (i : Nat)
    (h1 : (chooseNow p cks).bySize ≤ i) (h2 : i < (chooseNow p cks).n) :
    (cks.getD i default).maxTs < p.oldestTs ∧ 0 < p.oldestTs := by
  have hfact : strict = true := by decide
  have := ((choose_spec strict p cks).2.2 i h1 h2).1
  rw [hfact] at this
  refine ⟨by simpa [older] using this, ?_⟩
  -- the time loop only runs when OldestTs > 0
  have hn : 0 < (chooseNow p cks).byTime := by simp only [Choice.n] at h2; omega
  unfold choose chooseAt timePhase at hn
  by_cases g : 0 < p.oldestTs ∧ (sizePhase p cks (psize cks)).1 < cks.length
  · exact g.1
  · simp [g] at hn

/-- **Removed for BEFORE t only if ALL its events are older than t.** The newest timestamp `truncate` compares is the
`MaxTs` of the hull the time index keeps for the chunk: created from the chunk's first write notification, every
further notification folded in by `chkInfo.update` — whose shape (two independent `if`s) is regenerated from the
source. `rs` are the notifications of the chunk (each the [min, max] of the records one write put there); an event
with timestamp `ts` lies in one of them. Then a chunk taken by the time loop holds no event with `ts ≥ t`, for every
order of arrival of the batches (in-order, out-of-order, straddling the hull on both sides). -/
theorem before_removes_only_older (p : Params) (cks : List Chunk) (i : Nat)
    (h1 : (chooseNow p cks).bySize ≤ i) (h2 : i < (chooseNow p cks).n)
    (rs : List Hull) (h : Hull) (hh : chunkHull Generated.C09.hullUpdateIndependentIfs rs = some h)
    (hc : (cks.getD i default).maxTs = h.maxTs) (ts : Int) (hts : ∃ r ∈ rs, ts ≤ r.maxTs) :
    ts < p.oldestTs := by
  have hfact : Generated.C09.hullUpdateIndependentIfs = true := by decide
  rw [hfact] at hh
  obtain ⟨r, hr, hle⟩ := hts
  have hcov := (chunkHull_covers rs h hh r hr).2
  have hb := (before_rule p cks i h1 h2).1
  omega

/-- with `if … else if …` in `chkInfo.update` (a seeded change the check must catch) a batch that extends the hull on
both sides leaves `MaxTs` stale: notifications [100,117] then [50,200] give the hull [50,117], and `BEFORE 150` would
take a chunk holding the event of 200 -/
theorem cex_hull_else_if :
    chunkHull false [⟨100, 117⟩, ⟨50, 200⟩] = some ⟨50, 117⟩ ∧ chunkHull true [⟨100, 117⟩, ⟨50, 200⟩] = some ⟨50, 200⟩ := by
  decide

/-- **Never below MINSIZE** in phase I: after every single removal (by either loop) at least MINSIZE is left. -/
theorem never_below_min (p : Params) (cks : List Chunk) (i : Nat) (hi : i < (chooseNow p cks).n) :
    p.minSrc ≤ psize (cks.drop (i + 1)) := by
  rw [psize_drop_eq]
  by_cases h : i < (chooseNow p cks).bySize
  · exact ((choose_spec strict p cks).2.1 i h).2.2
  · exact ((choose_spec strict p cks).2.2 i (by omega) hi).2

/-- **A partition not above MAXSIZE loses nothing to the size rule**, and nothing at all without BEFORE. -/
theorem untouched_if_not_above_max (p : Params) (cks : List Chunk) (h : psize cks ≤ p.maxSrc ∨ p.maxSrc = 0) :
    (chooseNow p cks).bySize = 0 ∧
    (p.oldestTs ≤ 0 → (truncateNow p cks).chunks = cks ∧ (truncateNow p cks).n = 0) := by
  have hb : (chooseNow p cks).bySize = 0 := by
    cases hz : (chooseNow p cks).bySize with
    | zero => rfl
    | succ k =>
      have := (choose_spec strict p cks).2.1 0 (by omega)
      simp only [List.take_zero, psize_nil, Nat.sub_zero] at this
      omega
  refine ⟨hb, ?_⟩
  intro ht
  have hn : (chooseNow p cks).n = 0 := by
    have hb' := hb
    unfold choose chooseAt at hb' ⊢
    simp only [Choice.n] at hb' ⊢
    unfold timePhase
    have : ¬ 0 < p.oldestTs := by omega
    simp [this, hb']
  unfold truncate
  simp [hn]

/-- the reported byte count is the size of the removed prefix -/
theorem removed_bytes (p : Params) (cks : List Chunk) :
    (truncateNow p cks).removed = psize (cks.take (chooseNow p cks).n) :=
  truncate_removed strict p cks

/-! ## the whole command -/

/-- **DRYRUN changes nothing**: for every visiting order and every parameter combination the partitions
afterwards are the partitions before. -/
theorem dryrun_changes_nothing (p : Params) (hd : p.dryRun = true) (order : List Part) :
    (runNow p order).db = order := by
  unfold run phase2
  simp only []
  rw [globalLoop_dry_db strict gMin gMax p hd]
  unfold phase1
  rw [phase1_foldl_db_dry strict p hd]; rfl

/-- **Partitions that do not match the source condition are untouched — the whole command, MAXDBSIZE pass included.**
For every layout, every parameter combination (DRYRUN or not, any MINSIZE / MAXSIZE / BEFORE / MAXDBSIZE), every
visiting order and any holders (`users` arbitrary), with distinct source ids: the partitions the condition does not
select are afterwards exactly the records they were, in the same relative order, and no report line names one of
them. (Phase I skips them before anything is read; the MAXDBSIZE pass only ever looks up source ids of entries phase I
made, and it makes entries for selected partitions only.) -/
theorem unselected_untouched (p : Params) (order : List Part) (hnd : (order.map (·.src)).Nodup) :
    (runNow p order).db.filter (fun q => !q.sel) = order.filter (fun q => !q.sel) ∧
    ∀ r ∈ (runNow p order).reports, ∀ q ∈ order, q.sel = false → r.src ≠ q.src :=
  run_unselected_untouched strict gMin gMax p order hnd

/-- non-vacuity: a selected partition above MAXSIZE loses a chunk, the unselected one beside it (same layout) stays -/
example :
    let order : List Part := [⟨1, true, 0, [⟨1, 10, 5⟩, ⟨2, 10, 6⟩]⟩, ⟨2, false, 0, [⟨1, 10, 5⟩, ⟨2, 10, 6⟩]⟩]
    (runNow { maxSrc := 10 } order).db ≠ order ∧
    (runNow { maxSrc := 10 } order).db.filter (fun q => !q.sel) = order.filter (fun q => !q.sel) := by decide

/-- **What the MAXDBSIZE pass guarantees**: every entry of the sorted list is either left alone or its partition is
taken whole (`after = 0`, `deleted`), and the pass does nothing at all when the total is within MAXDBSIZE. -/
theorem global_pass (p : Params) (infos : List Info) (ts : Nat) (db : List Part) :
    Forall2 Taken infos (globalLoop acct strict gMin gMax p infos ts db).1 ∧
    (ts ≤ p.maxDB → globalLoop acct strict gMin gMax p infos ts db = (infos, db)) :=
  ⟨globalLoop_shape strict gMin gMax p infos ts db, globalLoop_idle strict gMin gMax p infos ts db⟩

/-- **Size clause for the whole command, partial** (`MAXDBSIZE` absent or not exceeded after phase I): the command is
phase I alone — every partition afterwards is what `truncate` with the statement's parameters left of it (so
`size_rule`, `before_rule`, `never_below_min`, `untouched_if_not_above_max` apply), nothing else is touched. -/
theorem size_rule_partial (p : Params) (order : List Part)
    (h : totalAfter (phase1 strict p order).infos ≤ p.maxDB) :
    (runNow p order).db = (phase1 strict p order).db ∧
    (runNow p order).reports = (phase1 strict p order).reports ++
      (phase1 strict p order).infos.filter (fun ti => ti.after != ti.before) := by
  unfold run phase2
  simp only []
  rw [globalLoop_idle strict gMin gMax p _ _ _ h]
  exact ⟨rfl, rfl⟩

/-- phase I, one partition: untouched when the source condition does not match; otherwise dropped, or kept with
the chunks `truncate` (statement's parameters) left -/
theorem phase1_part_cases (p : Params) (part : Part) :
    (part.sel = false → (phase1Part strict p part).part = some part) ∧
    ((phase1Part strict p part).part = none ∨ (phase1Part strict p part).part = some part ∨
     (phase1Part strict p part).part =
       some { part with chunks := (truncateNow p part.chunks).chunks }) := by
  refine ⟨?_, ?_⟩
  · intro hsel; unfold phase1Part; simp [hsel]
  · unfold phase1Part
    by_cases hsel : part.sel = false
    · simp [hsel]
    · by_cases hz : psize part.chunks = 0
      · by_cases hd : p.dryRun = true
        · simp [hsel, hz, hd]
        · by_cases hc : canDelete part.users part.chunks = true
          · simp [hsel, hz, hd, hc]
          · simp [hsel, hz, hd, hc]
      · simp only [if_neg hsel, if_neg hz]
        generalize (if (truncate strict p part.chunks).removed = psize part.chunks
          then (p.dryRun || canDelete part.users (truncate strict p part.chunks).chunks) else false) = D
        by_cases hD : D = true ∧ p.dryRun = false
        · simp [hD]
        · simp [hD]

/-- **A partition is dropped in phase I only when it holds no data afterwards and nobody else uses it.** -/
theorem drop_only_if_empty_and_unused (p : Params) (part : Part) (h : (phase1Part strict p part).part = none) :
    part.users = 0 ∧ p.dryRun = false ∧
    psize (truncateNow p part.chunks).chunks = 0 := by
  unfold phase1Part at h
  by_cases hsel : part.sel = false
  · simp [hsel] at h
  · simp only [hsel, if_false] at h
    by_cases hz : psize part.chunks = 0
    · simp only [hz, if_true] at h
      by_cases hd : p.dryRun = true
      · simp [hd] at h
      · simp only [hd, if_false] at h
        by_cases hc : canDelete part.users part.chunks = true
        · have hd' : p.dryRun = false := by cases hp : p.dryRun <;> simp_all
          simp only [canDelete, Bool.and_eq_true, beq_iff_eq] at hc
          refine ⟨hc.1, hd', ?_⟩
          have := truncate_psize_le strict p part.chunks
          omega
        · simp [hc] at h
    · simp only [hz, if_false] at h
      by_cases hd : p.dryRun = true
      · simp [hd] at h
      · have hd' : p.dryRun = false := by cases hp : p.dryRun <;> simp_all
        simp only [hd', Bool.false_or] at h
        by_cases hr : (truncate strict p part.chunks).removed = psize part.chunks
        · simp only [hr, if_true] at h
          by_cases hc : canDelete part.users (truncate strict p part.chunks).chunks = true
          · simp only [canDelete, Bool.and_eq_true, beq_iff_eq] at hc
            exact ⟨hc.1, hd', hc.2⟩
          · simp [hc] at h
        · simp [hr] at h

/-- **A partition is dropped only when, at the moment `deleteJournal` holds its exclusive lock, nobody else holds it
and it holds no data** — whatever happened between the caller's look at the partition and the lock (`now` is
arbitrary: a writer may have appended into a new chunk and released in between). Rests on the regenerated fact that
`deleteJournal` re-checks `j.Size() > 0` under the lock. `canDelete`, the guard the sequential model uses, is this
step with `now` = what the caller saw. -/
theorem drop_only_without_data_at_lock (users : Nat) (now : List Chunk)
    (h : deleteJournalAt Generated.C09.deleteJournalRechecksSize users now = true) : users = 0 ∧ psize now = 0 := by
  have hfact : Generated.C09.deleteJournalRechecksSize = true := by decide
  rw [hfact] at h
  simpa [deleteJournalAt] using h

theorem canDelete_is_drop_step (users : Nat) (cks : List Chunk) : canDelete users cks = deleteJournalAt true users cks := by
  simp [canDelete, deleteJournalAt]

/-- without the re-check (a seeded change the check must catch) a partition that received an event between
`truncate`'s snapshot and the lock is dropped with the event in it -/
theorem cex_drop_without_recheck : deleteJournalAt false 0 [⟨2, 19, 500⟩] = true ∧ deleteJournalAt true 0 [⟨2, 19, 500⟩] = false := by
  decide

/-- **Dropping a partition leaves the files of every other partition alone** — also of one that lives in the same
two-character parent folder (`<dir>/<bucket>/<id>`, any bucket function, equal buckets included): `deleteJournal`
hands `os.RemoveAll` the partition's own folder (regenerated from the source), and the folders of two different
partitions are not nested. What goes is exactly what lies at or below the dropped partition's folder. -/
theorem drop_leaves_other_partitions_files {α : Type} [DecidableEq α] (bucket : α → α) (base : List α) (id : α)
    (files : List (List α)) :
    (∀ other f, other ≠ id → f ∈ files → partFolder bucket base other <+: f →
      f ∈ dropOnDisk Generated.C09.deleteJournalRemovesOwnFolderOnly bucket base id files) ∧
    (∀ f, f ∈ dropOnDisk Generated.C09.deleteJournalRemovesOwnFolderOnly bucket base id files ↔
      f ∈ files ∧ ¬ partFolder bucket base id <+: f) := by
  have hfact : Generated.C09.deleteJournalRemovesOwnFolderOnly = true := by decide
  rw [hfact]
  refine ⟨fun other f hne hf hin => keeps_other bucket base id other files f hne hf hin, fun f => ?_⟩
  simp only [dropOnDisk, dropTarget, if_true]
  exact mem_removeAll _ _ _

/-- non-vacuity: partitions 0x1CC and 0x2CC share the folder 0xCC; dropping the first keeps the second one's file -/
example : dropOnDisk true (· % 256) [0] 0x1CC [[0, 0xCC, 0x1CC, 7], [0, 0xCC, 0x2CC, 7], [0, 0xC8, 0x1C8, 7]] =
    [[0, 0xCC, 0x2CC, 7], [0, 0xC8, 0x1C8, 7]] := by decide

/-- removing the parent folder as well (a seeded change the check must catch) takes the files of the partition that
shares it -/
theorem cex_drop_removes_shared_folder :
    dropOnDisk false (· % 256) [0] 0x1CC [[0, 0xCC, 0x1CC, 7], [0, 0xCC, 0x2CC, 7], [0, 0xC8, 0x1C8, 7]] =
      [[0, 0xC8, 0x1C8, 7]] := by decide

/-- **A partition is not dropped while it holds acknowledged records, flushed or not** (fix eafecef): `deleteJournal`
flushes under the exclusive lock before it re-checks the size — both regenerated from the source. -/
theorem drop_only_without_acknowledged_data (users confirmed unflushed : Nat)
    (h : deleteJournalSeen Generated.C09.deleteJournalRechecksSize Generated.C09.deleteJournalSyncsBeforeRecheck
      users confirmed unflushed = true) : users = 0 ∧ confirmed = 0 ∧ unflushed = 0 := by
  have h1 : Generated.C09.deleteJournalRechecksSize = true := by decide
  have h2 : Generated.C09.deleteJournalSyncsBeforeRecheck = true := by decide
  rw [h1, h2] at h
  simp [deleteJournalSeen] at h
  omega

/-- regression of F76 (fixed): without the Sync a new partition whose 57 acknowledged bytes wait for their flush looks
empty to the re-check and is dropped; with it the drop is refused -/
theorem regress_unflushed_drop :
    deleteJournalSeen true false 0 0 57 = true ∧ deleteJournalSeen true true 0 0 57 = false := by decide

/-- **For a partition nobody else holds, the dry run announces its drop exactly when the run drops it — acknowledged
records that are not flushed yet included** (fix 466355c: the visitor flushes before it reads the size, in a dry run
too; fix eafecef: `deleteJournal` flushes before its re-check). All three shapes are regenerated from the source. -/
theorem dry_announces_drop_iff_run_drops (confirmed unflushed : Nat) :
    dryAnnouncesDrop Generated.C09.truncateVisitorSyncsBeforeSize confirmed unflushed =
      deleteJournalSeen Generated.C09.deleteJournalRechecksSize Generated.C09.deleteJournalSyncsBeforeRecheck
        0 confirmed unflushed := by
  have h1 : Generated.C09.deleteJournalRechecksSize = true := by decide
  have h2 : Generated.C09.deleteJournalSyncsBeforeRecheck = true := by decide
  have h3 : Generated.C09.truncateVisitorSyncsBeforeSize = true := by decide
  rw [h1, h2, h3]
  simp [dryAnnouncesDrop, deleteJournalSeen]

/-- regression of F84 (fixed by 466355c): a dry run that goes by `Size()` alone announces the drop of a partition whose
57 acknowledged bytes wait for their flush, which the run refuses; with the flush it announces nothing -/
theorem regress_dry_announces_unflushed_drop :
    dryAnnouncesDrop false 0 57 = true ∧ dryAnnouncesDrop true 0 57 = false ∧ deleteJournalSeen true true 0 0 57 = false := by
  decide

/-- **DRYRUN announces what the run does — phase I, one partition, nobody else using it**: same immediate report,
same entry for the sorted list (bytes, chunk count, deleted flag). -/
theorem dryrun_equals_run_phase1 (p : Params) (part : Part) (hu : part.users = 0) (hs : Ascending part.chunks) :
    (phase1Part strict { p with dryRun := true } part).report = (phase1Part strict { p with dryRun := false } part).report ∧
    (phase1Part strict { p with dryRun := true } part).info = (phase1Part strict { p with dryRun := false } part).info :=
  phase1Part_dry_eq_run strict p part hu hs

/-! ## DRYRUN and the MAXDBSIZE pass -/

/-- **The inner call of the MAXDBSIZE pass empties the partition it takes** (ascending ids, no chunk smaller than two
bytes — a stored record takes at least 14), so `deleteJournal` then succeeds whenever nobody else holds the partition:
the run deletes exactly where the dry run says "deleted". -/
theorem global_truncate_empties_partition (cks : List Chunk) (hs : Ascending cks) (hall : ∀ c ∈ cks, 2 ≤ c.size) :
    (truncateNow { dryRun := false, minSrc := gMin, maxSrc := gMax } cks).chunks = [] ∧
    canDelete 0 (truncateNow { dryRun := false, minSrc := gMin, maxSrc := gMax } cks).chunks = true := by
  have h1 : gMin = 0 := by decide
  have h2 : gMax = 1 := by decide
  rw [h1, h2, global_truncate_empties strict cks hs hall]
  exact ⟨rfl, by decide⟩

/-- **Chunk count of a partition the MAXDBSIZE pass takes: DRYRUN = run** (replaces the retired counterexample of
finding F30, fixed by 49b0b2b). `ti` is the partition's phase-I entry (`ti.chunksDeleted` chunks chosen there); the dry
pass sees the unreduced chunk list, the real pass the list phase I left: both write the same entry. -/
theorem dryrun_chunk_count_agrees (ti : Info) (cks : List Chunk) (h : ti.chunksDeleted ≤ cks.length) :
    takenInfo true ti cks = takenInfo false ti (cks.drop ti.chunksDeleted) ∧
    (takenInfo true ti cks).chunksDeleted = cks.length :=
  ⟨takenInfo_dry_eq_run ti cks h, by simp [takenInfo]; omega⟩

/-- **`sortedInfos` is sorted and is the same list for every visiting order** (`insert_perm_invariant` lifted to
phase I): by latest timestamp descending, equal timestamps by source id ascending — Go's map order cannot show. -/
theorem sortedInfos_order_invariant (p : Params) (o1 o2 : List Part) (hp : o1.Perm o2) (hnd : (o1.map (·.src)).Nodup) :
    (phase1 strict p o1).infos = (phase1 strict p o2).infos ∧ SortedInfos (phase1 strict p o1).infos := by
  rw [phase1_eq, phase1_eq]
  have hndI : ((o1.filterMap (fun q => (phase1Part strict p q).info)).map (·.src)).Nodup :=
    nodup_filterMap_map _ _ (·.src) (fun x y h => p1_info_src strict _ x y h) o1 hnd
  obtain ⟨h1, h2, _⟩ := insert_perm_invariant _ _ (hp.filterMap (fun q => (phase1Part strict p q).info)) hndI
  exact ⟨h1, h2⟩

/-- the order-independence of the sorted insertion itself: the same entries (distinct source ids) inserted in any two
orders give the same, sorted, list -/
theorem insert_perm_invariant (l1 l2 : List Info) (hp : l1.Perm l2) (hnd : (l1.map (·.src)).Nodup) :
    sortInfos l1 = sortInfos l2 ∧ SortedInfos (sortInfos l1) ∧ (sortInfos l1).Perm l1 :=
  Logrange.Truncate.insert_perm_invariant l1 l2 hp hnd

/-- **DRYRUN announces exactly what the run does — the whole command, MAXDBSIZE pass included.** For every layout,
every parameter combination and every visiting order of the two calls (`o1`: the dry run's walk over the tag index,
`o2`: the run's — two independent walks over a Go map), with nobody else using the partitions
(`users = 0`: `noConcurrentUsers`), distinct source ids, ascending chunk ids, and partitions that are empty or have no
chunk below two bytes (`WellSized`; a stored record takes at least 14): every report line of the dry run (partition,
size before and after, chunk count, deleted flag) is a report line of the run and vice versa. No tie hypothesis, no
double-count hypothesis (repairs cac5c5d, 49b0b2b). Together with `dryrun_changes_nothing` this is the property's
DRYRUN clause. -/
theorem dryrun_equals_run_full (p : Params) (o1 o2 : List Part) (hp : o1.Perm o2) (hnd : (o1.map (·.src)).Nodup)
    (hq : ∀ q ∈ o1, q.users = 0 ∧ Ascending q.chunks ∧ WellSized q) :
    (∀ r, r ∈ (runNow { p with dryRun := true } o1).reports ↔ r ∈ (runNow { p with dryRun := false } o2).reports) ∧
    (runNow { p with dryRun := true } o1).db = o1 := by
  have h1 : gMin = 0 := by decide
  have h2 : gMax = 1 := by decide
  refine ⟨?_, dryrun_changes_nothing _ rfl o1⟩
  rw [h1, h2]
  exact dryrun_equals_run strict p o1 o2 hp hnd hq

/-- **The MAXDBSIZE pass takes the front of the latest-timestamp order and stops as soon as the total fits**
(stated on the dry run, whose reports are the run's by `dryrun_equals_run_full`): the list the pass walks is sorted
(`SortedInfos`: latest timestamp descending, ties by source id); the pass visits exactly its first
`passLen MaxDBSize infos total` entries — `passLen` counts entries while the running total exceeds MAXDBSIZE —, every
visited entry leaves with nothing left (`after = 0`: its partition is taken whole, or was already emptied by phase I),
and every entry behind them is untouched. -/
theorem global_pass_front (p : Params) (hd : p.dryRun = true) (order : List Part) (hnd : (order.map (·.src)).Nodup) :
    let I := (phase1 strict p order).infos
    let res := (globalLoop acct strict gMin gMax p I (totalAfter I) (phase1 strict p order).db).1
    let k := passLen p.maxDB I (totalAfter I)
    SortedInfos I ∧ (∀ x ∈ res.take k, x.after = 0) ∧ res.drop k = I.drop k := by
  intro I res k
  refine ⟨(sortedInfos_order_invariant p order order (List.Perm.refl _) hnd).2, ?_⟩
  apply globalLoop_dry_front strict gMin gMax p hd
  -- every candidate's partition is still there: a dry phase I drops nothing
  intro ti hti _
  have hdb : (phase1 strict p order).db = order := by
    unfold phase1; rw [phase1_foldl_db_dry strict p hd]; rfl
  rw [hdb]
  have hI : I = sortInfos (order.filterMap (fun q => (phase1Part strict p q).info)) := by
    show (phase1 strict p order).infos = _
    rw [phase1_eq]
  have hndI : ((order.filterMap (fun q => (phase1Part strict p q).info)).map (·.src)).Nodup :=
    nodup_filterMap_map _ _ (·.src) (fun x y h => p1_info_src strict _ x y h) order hnd
  obtain ⟨_, _, hperm⟩ := Logrange.Truncate.insert_perm_invariant _ _ (List.Perm.refl _) hndI
  rw [hI] at hti
  obtain ⟨q, hq, hqi⟩ := List.mem_filterMap.mp (hperm.mem_iff.mp hti)
  rw [p1_info_src strict p q ti hqi, dbFind_of_mem order hnd q hq]
  rfl

def c (id size : Nat) (ts : Int) : Chunk := ⟨id, size, ts⟩

/-- regression of F30 (fixed): layout 200+200+120, `MAXSIZE 400 MINSIZE 100 MAXDBSIZE 100` — the dry run and the run both
report 3 chunks. -/
theorem regress_dryrun_chunk_count :
    let part : Part := ⟨1, true, 0, [c 1 200 5, c 2 200 9, c 3 120 12]⟩
    let p : Params := { maxSrc := 400, minSrc := 100, maxDB := 100 }
    (runNow { p with dryRun := true } [part]).reports.map (·.chunksDeleted) = [3] ∧
    (runNow { p with dryRun := false } [part]).reports.map (·.chunksDeleted) = [3] ∧
    (runNow { p with dryRun := false } [part]).db = [] := by decide

/-- regression of F31 (fixed): two partitions whose newest events share a timestamp, `MAXDBSIZE` lets exactly one go —
in either visiting order the dry run and the run name the partition with the smaller source id, with equal reports. -/
theorem regress_dryrun_tie :
    let a : Part := ⟨1, true, 0, [c 1 60 20]⟩
    let b : Part := ⟨2, true, 0, [c 1 60 20]⟩
    let p : Params := { maxDB := 60 }
    (runNow { p with dryRun := true } [a, b]).reports = (runNow { p with dryRun := false } [b, a]).reports ∧
    (runNow { p with dryRun := true } [b, a]).reports = (runNow { p with dryRun := false } [a, b]).reports ∧
    (runNow { p with dryRun := false } [b, a]).reports.map (·.src) = [1] := by decide

/-- **The order of the sorted insertion is total on distinct source ids** (replaces the retired counterexample of
finding F31, fixed by cac5c5d): of two entries with different source ids exactly one comes before the other, whatever
their timestamps — the visiting order can no longer decide. -/
theorem tie_break_total (a b : Info) (h : a.src ≠ b.src) : notBefore a b = !notBefore b a := by
  unfold notBefore
  by_cases h1 : a.latestTs < b.latestTs
  · have n1 : ¬ b.latestTs < a.latestTs := by omega
    have n2 : ¬ b.latestTs = a.latestTs := by omega
    have n3 : ¬ a.latestTs = b.latestTs := by omega
    simp [h1, n1, n2, n3]
  · by_cases h2 : b.latestTs < a.latestTs
    · have n2 : ¬ b.latestTs = a.latestTs := by omega
      have n3 : ¬ a.latestTs = b.latestTs := by omega
      simp [h1, h2, n2, n3]
    · have e : a.latestTs = b.latestTs := by omega
      by_cases h3 : b.src ≤ a.src
      · have n4 : ¬ a.src ≤ b.src := by omega
        simp [e, h3, n4]
      · have n4 : a.src ≤ b.src := by omega
        simp [e, h3, n4]

/-- F32 — the MAXDBSIZE pass ignores MAXSIZE and MINSIZE: a 113-byte partition, `MINSIZE 100 MAXSIZE 500 MAXDBSIZE 97`,
is emptied and dropped although it is not above MAXSIZE and ends below MINSIZE. -/
theorem cex_global_ignores_bounds :
    (runNow { minSrc := 100, maxSrc := 500, maxDB := 97 } [⟨1, true, 0, [c 1 113 31]⟩]).db = [] ∧
    (phase1 strict { minSrc := 100, maxSrc := 500, maxDB := 97 } [⟨1, true, 0, [c 1 113 31]⟩]).db =
      [⟨1, true, 0, [c 1 113 31]⟩] := by decide

/-- regression of F43 (fixed by b1a5e66): `MINSIZE 57 MAXSIZE 113` on a one-chunk partition that has grown from 114 to
152 bytes keeps the chunk — the loops start from the sum of the sizes they subtract; started from a stale total of 114
(`chooseAt`, the code before the fix, whose `jrnl.Size()` read could be older) the guard `114 - 152` wraps and the
chunk is taken. The general statement is `never_below_min`, which no longer has a snapshot hypothesis. -/
theorem regress_size_wrap :
    (chooseNow { minSrc := 57, maxSrc := 113 } [c 1 152 8]).n = 0 ∧
    (chooseAt strict { minSrc := 57, maxSrc := 113 } [c 1 152 8] 114).n = 1 := by decide

/-- F21 (fixed by 62f799c) — with `<=` in the time loop `BEFORE 5` would take a chunk whose newest record is exactly 5;
with `<` (the code now, `strict = true`) it keeps it. -/
theorem cex_before_equal :
    (choose false { oldestTs := 5 } [c 1 2 4, c 2 3 5]).n = 2 ∧ (chooseNow { oldestTs := 5 } [c 1 2 4, c 2 3 5]).n = 1 := by
  decide

/-- **A reader without an open chunk handle continues at the first remaining event.** -/
theorem reader_continues_partial (remaining : List (Nat × Nat)) (first : Nat × Nat) (rest : List (Nat × Nat)) (pos : RPos)
    (closed : Bool) (hr : remaining = first :: rest) (hid : pos.cid ≤ first.1) (hrec : 0 < first.2) :
    getAfterRemoval remaining pos false closed = .record first.1 0 := by
  subst hr
  simp [getAfterRemoval, List.find?, hid, hrec]

/-- F26 — a cursor the server holds between two pages keeps its chunk handle: after the chunk was removed and closed
the next `Get` answers `ClosedState` instead of the first remaining event. -/
theorem cex_open_handle_after_truncate :
    getAfterRemoval [(2, 3)] ⟨1, 3⟩ true true = .closedState ∧ getAfterRemoval [(2, 3)] ⟨1, 3⟩ false true = .record 2 0 := by
  decide

/-! ## one partition while a writer appends (every schedule of the writer between the snapshot and the deletion) -/

/-- **Under a concurrent writer TRUNCATE still removes only whole oldest chunks.** `snap` is the chunk list `truncate`
decided on, `now` the journal when `DeleteChunks` runs — any journal the snapshot can have grown into (`GrownFrom`: the
writer appended to the last chunk and/or opened new chunks, any number of times, at any moments). Then exactly the `n`
oldest chunks of the journal as it is then go (`n` = the chooser's count on the snapshot, `n ≤ len(snap)`); the content
afterwards is a suffix of the content at that moment (which is the old content followed by everything appended); and
every chunk the writer opened after the snapshot survives whole. -/
theorem truncate_under_writer (p : Params) (snap now : List Chunk) (hg : GrownFrom snap now) (hs : Ascending now) :
    (chooseNow p snap).n ≤ snap.length ∧
    truncateAt strict p snap now = (if p.dryRun = true then now else now.drop (chooseNow p snap).n) ∧
    (∀ {α : Type} (ev : Chunk → List α), (truncateAt strict p snap now).flatMap ev <:+ now.flatMap ev) ∧
    now.drop snap.length <:+ truncateAt strict p snap now := by
  have hle := choose_n_le strict p snap
  have heq := truncateAt_eq strict p snap now hg hs
  refine ⟨hle, heq, ?_, ?_⟩
  · intro α ev
    rw [heq]
    split
    · exact List.suffix_refl _
    · refine ⟨(now.take (chooseNow p snap).n).flatMap ev, ?_⟩
      rw [← List.flatMap_append, List.take_append_drop]
  · rw [heq]
    split
    · exact List.drop_suffix _ _
    · have e : now.drop snap.length = (now.drop (chooseNow p snap).n).drop (snap.length - (chooseNow p snap).n) := by
        rw [List.drop_drop]; congr 1; omega
      rw [e]
      exact List.drop_suffix _ _

/-- **Size clause under a concurrent writer**: the sizes the snapshot showed are lower bounds of the sizes at deletion
time, so a chunk taken by the size loop goes from a partition that IS above MAXSIZE, and after every single removal
(either loop) at least MINSIZE IS left. -/
theorem size_rule_under_writer (p : Params) (snap now : List Chunk) (hg : GrownFrom snap now) (i : Nat) :
    (i < (chooseNow p snap).bySize → p.maxSrc < psize (now.drop i)) ∧
    (i < (chooseNow p snap).n → p.minSrc ≤ psize (now.drop (i + 1))) := by
  have g1 := grown_psize_drop hg i
  have g2 := grown_psize_drop hg (i + 1)
  refine ⟨?_, ?_⟩
  · intro hi
    have := ((choose_spec strict p snap).2.1 i hi).2.1
    rw [← psize_drop_eq] at this
    omega
  · intro hi
    have : p.minSrc ≤ psize (snap.drop (i + 1)) := by
      rw [psize_drop_eq]
      by_cases h : i < (chooseNow p snap).bySize
      · exact ((choose_spec strict p snap).2.1 i h).2.2
      · exact ((choose_spec strict p snap).2.2 i (by omega) hi).2
    omega

/-- **What goes is what the snapshot showed, unless everything goes**: when the chooser keeps at least one chunk of
the snapshot, the removed chunks are the snapshot's, unchanged (no appended event is removed, and
`before_removes_only_older` applies to them as they are). -/
theorem removed_as_seen_partial (p : Params) (snap now : List Chunk) (hg : GrownFrom snap now)
    (h : (chooseNow p snap).n < snap.length) : now.take (chooseNow p snap).n = snap.take (chooseNow p snap).n :=
  grown_take hg _ h

/-- When TRUNCATE takes EVERY chunk it saw, the last of them can have grown in between: `BEFORE 10` over a partition
whose only chunk ended at timestamp 5; an event of timestamp 12 is appended to that chunk after the time loop looked at
its hull and before `DeleteChunks`; the chunk goes with it. (Race window between `SyncChunks` and `DeleteChunks`; no
lock covers it. Finding F-C09-R1: reproduced on the implementation with a hook point before the `DeleteChunks` call —
`TRUNCATE … BEFORE "50"` removed the chunk together with the acknowledged event of timestamp 400 and dropped the
partition.) -/
theorem cex_before_race :
    GrownFrom [c 1 100 5] [c 1 119 12] ∧ (chooseNow { oldestTs := 10 } [c 1 100 5]).n = 1 ∧
    truncateAt strict { oldestTs := 10 } [c 1 100 5] [c 1 119 12] = [] := by
  refine ⟨?_, by decide, by decide⟩
  exact GrownFrom.cons _ _ [] [] rfl (by decide) (by intro h; exact absurd rfl h) (GrownFrom.nil [])

/-- non-vacuity: a snapshot of three chunks grown by an append to the last one and two new chunks; MAXSIZE 400 takes the
oldest, everything else — including what the writer added — stays -/
example : GrownFrom [c 10 200 5, c 13 200 9, c 17 120 12] [c 10 200 5, c 13 200 9, c 17 150 13, c 20 90 14, c 21 10 15] ∧
    truncateAt strict { maxSrc := 400, minSrc := 100 } [c 10 200 5, c 13 200 9, c 17 120 12]
      [c 10 200 5, c 13 200 9, c 17 150 13, c 20 90 14, c 21 10 15] = [c 13 200 9, c 17 150 13, c 20 90 14, c 21 10 15] := by
  refine ⟨?_, by decide⟩
  refine GrownFrom.cons _ _ _ _ rfl (by decide) (fun _ => rfl) ?_
  refine GrownFrom.cons _ _ _ _ rfl (by decide) (fun _ => rfl) ?_
  exact GrownFrom.cons _ _ [] _ rfl (by decide) (by intro h; exact absurd rfl h) (GrownFrom.nil _)

/-! ## the MAXDBSIZE pass and a partition somebody holds (finding F77) -/

/-- F77 — `dryrun_equals_run_full` needs `users = 0` for a reason: three partitions of 57 bytes, the newest events in
partition 3, which a reader holds; `MAXDBSIZE 114`. The dry run announces partition 3 (and only it). The run removes
partition 3's chunk, cannot drop it (`deleteJournal` refuses: in use), so it neither reports nor subtracts it, goes on
and drops partition 2: the report names partition 2 only, partition 3 is left empty without a word. -/
theorem cex_in_use_divergence :
    let o : List Part := [⟨1, true, 0, [c 1 57 12]⟩, ⟨2, true, 0, [c 1 57 22]⟩, ⟨3, true, 1, [c 1 57 32]⟩]
    (run false strict gMin gMax { dryRun := true, maxDB := 114 } o).reports.map (·.src) = [3] ∧
    (run false strict gMin gMax { dryRun := false, maxDB := 114 } o).reports.map (·.src) = [2] ∧
    (run false strict gMin gMax { dryRun := false, maxDB := 114 } o).db = [⟨1, true, 0, [c 1 57 12]⟩, ⟨3, true, 1, []⟩] := by decide

/-- the repaired accounting (`proposed-fixes/F77.diff`, shape `acct = true`) on the same input: the run reports partition 3
with the bytes and the chunk the dry run announced (only the deleted flag differs: it is in use and stays, empty), the
total is reduced, and partition 2 is left alone -/
theorem repaired_in_use_agreement :
    let o : List Part := [⟨1, true, 0, [c 1 57 12]⟩, ⟨2, true, 0, [c 1 57 22]⟩, ⟨3, true, 1, [c 1 57 32]⟩]
    (run true strict gMin gMax { dryRun := true, maxDB := 114 } o).reports.map (fun i => (i.src, i.before, i.after, i.chunksDeleted, i.deleted)) = [(3, 57, 0, 1, true)] ∧
    (run true strict gMin gMax { dryRun := false, maxDB := 114 } o).reports.map (fun i => (i.src, i.before, i.after, i.chunksDeleted, i.deleted)) = [(3, 57, 0, 1, false)] ∧
    (run true strict gMin gMax { dryRun := false, maxDB := 114 } o).db =
      [⟨1, true, 0, [c 1 57 12]⟩, ⟨2, true, 0, [c 1 57 22]⟩, ⟨3, true, 1, []⟩] := by decide

/-- **With the repaired accounting DRYRUN announces what the run removes whoever holds the partitions** (the positive
statement for shape `acct = true`, `proposed-fixes/F77.diff`): the whole command, MAXDBSIZE pass included, every layout,
every parameter combination, two arbitrary visiting orders, ANY holders — every report line of the dry run (partition, size
before and after, chunk count) is a report line of the run up to the deleted flag (a partition somebody holds is emptied,
not dropped), and vice versa. Hypotheses: distinct source ids, ascending chunk ids, `WellSized` (not used by the proof), and
no selected partition that is empty AND in use (the dry run's `size = 0` branch announces a drop the run must refuse). -/
theorem dryrun_equals_run_in_use_repaired (p : Params) (o1 o2 : List Part) (hp : o1.Perm o2)
    (hnd : (o1.map (·.src)).Nodup)
    (hq : ∀ q ∈ o1, Ascending q.chunks ∧ WellSized q ∧ (q.users ≠ 0 → q.sel = true → 0 < psize q.chunks)) :
    ∀ r, r ∈ ((run true strict gMin gMax { p with dryRun := true } o1).reports.map unflag) ↔
         r ∈ ((run true strict gMin gMax { p with dryRun := false } o2).reports.map unflag) := by
  have h1 : gMin = 0 := by decide
  have h2 : gMax = 1 := by decide
  rw [h1, h2]
  exact dryrun_equals_run_in_use strict p o1 o2 hp hnd hq

/-- **the code as it is now is one of the two shapes**, and in the repaired shape the pass never leaves an entry it
emptied unreported: every entry the pass visits (total above MAXDBSIZE, data left, partition found) leaves with
`after = 0`, dropped or not -/
theorem pass_accounts_by_shape (p : Params) (ti : Info) (rest : List Info) (ts : Nat) (db : List Part) (part : Part)
    (h1 : p.maxDB < ts) (h2 : 0 < ti.after) (hf : dbFind db ti.src = some part) :
    ((globalLoop true strict gMin gMax p (ti :: rest) ts db).1.head?.map (·.after)) = some 0 := by
  unfold globalLoop
  simp only [h1, h2, if_true, hf]
  split
  · rfl
  · rfl

/-! ## chunk objects that outlive their chunk (finding F56, journal library) -/

/-- F56 — two TRUNCATE statements overlap on a partition: both took the snapshot [1,2,3] and chose the two oldest
chunks; the first one's removal has completed (wrappers 1 and 2 closed); the second one's `DeleteChunks(cks[1].Id(), …)`
dereferences a closed wrapper. Reproduced deterministically (section trunc2race); the same dereference is reached from
`journal.Write` and `getChunkForWrite` under several writers and one TRUNCATE loop (stress program cmd/c09crash). -/
theorem cex_overlapping_truncates :
    deleteArg strict { maxSrc := 120 } [c 1 100 5, c 2 100 9, c 3 100 12] [1, 2] = none ∧
    deleteArg strict { maxSrc := 120 } [c 1 100 5, c 2 100 9, c 3 100 12] [] = some 2 := by decide

/-- the ids another TRUNCATE statement can have closed between this statement's snapshot and its `DeleteChunks`:
none when `Service.Truncate` is serialised by a mutex (regenerated fact `truncateSerialized`, `proposed-fixes/F56.diff`) -/
def overlapClosed (serialized : Bool) (other : List Nat) : List Nat := if serialized then [] else other

/-- **statement vs statement, by code shape**: with the mutex no TRUNCATE dereferences a chunk object another TRUNCATE
closed, whatever that one removed; without it the counterexample of F56 stands -/
theorem overlapping_truncates_by_shape :
    (∀ (p : Params) (snap : List Chunk) (other : List Nat), 0 < (chooseNow p snap).n →
      (deleteArg strict p snap (overlapClosed true other)).isSome = true) ∧
    deleteArg strict { maxSrc := 120 } [c 1 100 5, c 2 100 9, c 3 100 12] (overlapClosed false [1, 2]) = none ∧
    (Generated.C09.truncateSerialized = true ∨ Generated.C09.truncateSerialized = false) := by
  refine ⟨?_, by decide, by decide⟩
  intro p snap other hn
  unfold deleteArg derefId overlapClosed
  simp

/-- a statement whose snapshot was taken after every earlier removal completed never touches a closed chunk object:
the snapshot then holds none of the closed ids (`Chunks()` excludes chunks marked for deletion) — serialising TRUNCATE
statements would remove this path (not the writer paths inside the library) -/
theorem serialized_truncate_never_derefs_closed (p : Params) (snap : List Chunk) (closed : List Nat)
    (h : ∀ x ∈ snap, x.id ∉ closed) (hn : 0 < (chooseNow p snap).n) :
    (deleteArg strict p snap closed).isSome = true := by
  unfold deleteArg derefId
  have hle := choose_n_le strict p snap
  have hi : (chooseNow p snap).n - 1 < snap.length := by omega
  have hm : snap.getD ((chooseNow p snap).n - 1) default ∈ snap := by
    rw [List.getD_eq_getElem?_getD, List.getElem?_eq_getElem hi]; exact List.getElem_mem hi
  have := h _ hm
  rw [List.getD_eq_getElem?_getD] at this
  simp [List.contains_iff_mem, this]

/-! ### non-vacuity: the hypotheses above are met by concrete, non-trivial states -/

def lay : List Chunk := [c 10 200 5, c 13 200 9, c 17 120 12]

example : Ascending lay := by unfold Ascending lay c; decide
/-- size rule fires: MAXSIZE 400 MINSIZE 100 takes exactly the oldest chunk -/
example : (chooseNow { maxSrc := 400, minSrc := 100 } lay).bySize = 1 ∧
    (truncateNow { maxSrc := 400, minSrc := 100 } lay).chunks = [c 13 200 9, c 17 120 12] := by decide
/-- time rule fires: BEFORE 10 takes the two chunks older than 10, BEFORE 9 only the first -/
example : (chooseNow { oldestTs := 10 } lay).byTime = 2 ∧ (chooseNow { oldestTs := 9 } lay).byTime = 1 := by
  decide
/-- both loops in one call -/
example : (chooseNow { maxSrc := 400, minSrc := 100, oldestTs := 10 } lay).bySize = 1 ∧
    (chooseNow { maxSrc := 400, minSrc := 100, oldestTs := 10 } lay).byTime = 1 := by decide
/-- MINSIZE stops the time loop -/
example : (chooseNow { minSrc := 300, oldestTs := 100 } lay).n = 1 := by decide
/-- a dry run with the global pass active reports but keeps everything -/
example : (runNow { dryRun := true, maxDB := 100 } [⟨1, true, 0, lay⟩]).reports.length = 1 := by decide
/-- the global pass idles when the total fits -/
example : totalAfter (phase1 strict { maxSrc := 400 } [⟨1, true, 0, lay⟩]).infos ≤ ({ maxSrc := 400 } : Params).maxDB := by decide
/-- the hypotheses of `dryrun_equals_run_full` are met by two visiting orders of two partitions whose newest events tie,
with the MAXDBSIZE pass active (total 150 > 100) -/
example : ([⟨1, true, 0, [c 1 60 20]⟩, ⟨2, true, 0, [c 1 60 19, c 2 30 20]⟩] : List Part).Perm
      [⟨2, true, 0, [c 1 60 19, c 2 30 20]⟩, ⟨1, true, 0, [c 1 60 20]⟩] ∧
    (([⟨1, true, 0, [c 1 60 20]⟩, ⟨2, true, 0, [c 1 60 19, c 2 30 20]⟩] : List Part).map (·.src)).Nodup ∧
    (∀ q ∈ ([⟨1, true, 0, [c 1 60 20]⟩, ⟨2, true, 0, [c 1 60 19, c 2 30 20]⟩] : List Part),
      q.users = 0 ∧ Ascending q.chunks ∧ WellSized q) ∧
    (runNow { dryRun := true, maxDB := 100 } [⟨1, true, 0, [c 1 60 20]⟩, ⟨2, true, 0, [c 1 60 19, c 2 30 20]⟩]).reports.map (·.src) = [1] := by
  refine ⟨List.Perm.swap _ _ _, by decide, ?_, by decide⟩
  intro q hq
  simp only [List.mem_cons, List.not_mem_nil, or_false] at hq
  rcases hq with rfl | rfl
  · exact ⟨rfl, by simp [Ascending], Or.inr (by simp [c])⟩
  · exact ⟨rfl, by simp [Ascending, c], Or.inr (by simp [c])⟩
/-- an empty, unused partition is dropped; a used one is not -/
example : (phase1Part strict {} ⟨1, true, 0, []⟩).part = none ∧ (phase1Part strict {} ⟨1, true, 1, []⟩).part = some ⟨1, true, 1, []⟩ := by
  decide

end Logrange.Props.C09
