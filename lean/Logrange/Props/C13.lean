import Logrange.Proofs.Wire
import Logrange.Proofs.EscapeJson
import Logrange.Proofs.PosStr
import Logrange.Proofs.WireFields
import Logrange.Proofs.C13KV
import Logrange.Proofs.Format
import Logrange.Model.Where
import Logrange.Model.Nesting
import Logrange.Model.ShowPartitions
/-!
# C13 — No request content can crash the server-side decoders and evaluators

Property theorems only; every theorem in this namespace is an obligation of the C13 check (axioms audited).
Models: `Logrange/Model/{Outcome,Wire,WireFields,EscapeJson,PosStr,Nesting}.lean`; lemmas: `Logrange/Proofs/{Wire,WireFields,EscapeJson,PosStr}.lean`.

State after the repairs 72eac47 (F44), dbbc1a7 (F13), 8131efe (F25) and c6bbc14 (`wpIterator.init` validates the whole
packet — fact `wpInitValidates`; the decoder theorems hold for either value of that fact):

* the api/rpc decoders (`wpIterator.init/Get/Next`, `unmarshalQueryRequest`, `unmarshalLogEvent`, client-side
  `unmarshalQueryResult`) are **total for all byte strings** (`decode_total`): their string reads go through the length
  guard, regenerated as the fact `Generated.C13.rpcStringLengthGuard`;
* what a Write stores is well-formed **unconditionally** (`fromKV_WF`, `stored_fields_WF`): the length is tested again after
  `strconv.Unquote` (facts `fieldLenTestedAfterUnquote`, `fieldMaxLenAfterUnquote`);
* `model.LogEvent.Unmarshal` (pkg/model) keeps the direct library call. It is applied only to records the server read from
  its own journal (`pkg/model/iterator.go: LogEventIterator.Get`, `pkg/tmindex/cindex.go` rebuild), i.e. to bytes produced by
  `LogEvent.Marshal` in `partition.iwrapper` — no request path hands client bytes to it. `record_decode_total_partial` and
  `cex_record_varint` describe it: a remark (an on-disk corruption concern of C07), not a finding of C13;
* LQL nesting: the guard of commit 8131efe counts on the lexer's tokens since 6345cd4 (facts `lqlGuardKind = 2`, `lqlMaxNesting`):
  `answers_every_request`; `cex_guard_hole` remains as the statement about the byte-scan branch (repaired finding F25b) and the
  unguarded branch (F25);
* admin statements: `SHOW PARTITIONS` refuses a negative OFFSET or LIMIT since commit c80057f (fact
  `showPartitionsRejectsNegative`): `show_partitions_total`; `cex_show_partitions_negative` remains as the statement about the
  unguarded arithmetic (repaired finding F55). No open finding: `C13_full` is a theorem (`C13_holds`).
-/
namespace Logrange.Props.C13
open Go Logrange Logrange.Wire Logrange.Outcome

/-! ## request decoders (api/rpc) -/

/-- the regenerated fact the decoder theorems rest on: api/rpc reads every length-prefixed string through the guard -/
theorem rpc_guard_in_place : Generated.C13.rpcStringLengthGuard = true := by decide

/-- **Request decoders are total, for ALL byte strings** and every field-text parser `kv`: whatever bytes arrive as the body
of a Write or Query request (or — client side — as a query result), `wpIterator.init`, every `Get`/`Next` of the drain (any
fuel), the whole Write decoding, `unmarshalQueryRequest`, `unmarshalLogEvent` and `unmarshalQueryResult` return a value or
an error: no slice or index expression of the mirrored code fails its bounds check. The only hypothesis, `IsGoSlice buf`
(`len(buf) < 2⁶³`), is no condition on the content: the length of a Go slice is an `int`. -/
theorem decode_total (kv : Bytes → Option Bytes) (buf : Bytes) (h : IsGoSlice buf) :
    (wpInit kv buf).isPanic = false ∧
    (∀ it, wpInit kv buf = .ok it → ∀ fuel acc, (wpDrain kv fuel it acc).isPanic = false) ∧
    (wpDecode kv buf).isPanic = false ∧
    (unmarshalQueryRequest buf).isPanic = false ∧
    (unmarshalLogEvent buf).isPanic = false ∧
    (unmarshalQueryResult buf).isPanic = false := by
  have hg := rpc_guard_in_place
  have hdrain : ∀ it, wpInit kv buf = .ok it → ∀ fuel acc, (wpDrain kv fuel it acc).isPanic = false := by
    intro it hit fuel acc
    exact wpDrain_noPanic hg kv fuel it acc (wpInit_inv kv buf h it hit).1
  refine ⟨wpInit_noPanic hg kv buf h, hdrain, ?_, (good_queryRequest hg buf h).1, (good_logEvent hg buf h).1,
    (good_queryResult hg buf h).1⟩
  unfold wpDecode
  refine bind_isPanic_false (wpInit_noPanic hg kv buf h) ?_
  intro it hit
  refine bind_isPanic_false (hdrain it hit _ _) ?_
  intro evs _
  rfl

/-- **Never reads outside the request buffer**: the number of bytes a decoder reports as consumed, and the iterator's
position, never exceed the buffer (every intermediate `buf[nn:]` is a checked slice in the model, so this also holds for
every prefix of the decoding). -/
theorem never_reads_outside (buf : Bytes) (h : IsGoSlice buf) :
    (∀ n q, unmarshalQueryRequest buf = .ok (n, q) → n ≤ buf.length) ∧
    (∀ n e, unmarshalLogEvent buf = .ok (n, e) → n ≤ buf.length) ∧
    (∀ n r, unmarshalQueryResult buf = .ok (n, r) → n ≤ buf.length) ∧
    (∀ kv it, wpInit kv buf = .ok it → it.pos ≤ buf.length) := by
  have hg := rpc_guard_in_place
  refine ⟨(good_queryRequest hg buf h).2, (good_logEvent hg buf h).2, (good_queryResult hg buf h).2, ?_⟩
  intro kv it hit
  have := wpInit_inv kv buf h it hit
  rw [← this.2]; exact this.1.2

/-- **The drain loop terminates, with a bound in terms of the buffer**: whatever the (client-controlled, up to 2³²−1) count
field says, a consumer that calls `Get`, stops at `io.EOF`, and calls `Next`, is done within `(bytes left) + 2` iterations —
every event that is not served from the cache consumed at least the 8 bytes of its timestamp (`unmarshalLogEvent_ge`: there
are no zero-byte events, the loop cannot spin). Also within `(count − cur) + 2` iterations (every uncached `Get` increments
`cur`), which is the fuel the model's `wpDecode` uses; so the whole Write decoding never runs out of fuel. For every `kv`
and every buffer (no hypothesis on the content). -/
theorem wpDrain_terminates (kv : Bytes → Option Bytes) (it : WpIter) (acc : List Wire.Event) (fuel : Nat) :
    (it.pos ≤ it.buf.length → it.buf.length - it.pos + 2 ≤ fuel → (wpDrain kv fuel it acc).isOutOfFuel = false) ∧
    (it.recs - it.cur + 2 ≤ fuel → (wpDrain kv fuel it acc).isOutOfFuel = false) ∧
    (∀ buf, (wpDecode kv buf).isOutOfFuel = false) := by
  refine ⟨?_, ?_, ?_⟩
  · intro hp hf
    refine wpDrain_terminates_buf kv fuel it acc hp ?_
    split <;> omega
  · intro hf
    refine wpDrain_terminates_cnt kv fuel it acc ?_
    split <;> omega
  · intro buf
    unfold wpDecode
    have h0 := wpInit_noFuel kv buf
    cases hi : wpInit kv buf with
    | ok it0 =>
      rw [bind_ok]
      obtain ⟨hr, _⟩ := wpInit_fresh kv buf it0 hi
      have hd := wpDrain_terminates_cnt kv (wpFuel it0) it0 [] (by rw [hr]; unfold wpFuel; simp)
      cases hdr : wpDrain kv (wpFuel it0) it0 [] with
      | ok evs => rfl
      | err => rfl
      | panic w => rfl
      | outOfFuel => rw [hdr] at hd; cases hd
    | err => rfl
    | panic w => rfl
    | outOfFuel => rw [hi] at h0; cases h0

/-- non-vacuity: a fresh iterator over a 24-byte body that announces 2³²−1 events is drained with fuel 26 -/
def hostileIter : WpIter := ⟨[], [], List.replicate 24 0, false, 0, 4294967295, 0, default⟩
example (kv : Bytes → Option Bytes) (acc : List Wire.Event) : (wpDrain kv 26 hostileIter acc).isOutOfFuel = false :=
  (wpDrain_terminates kv hostileIter acc 26).1 (by decide) (by decide)

/-- the former F13 witness: a Write body whose first field (the tags) announces the length 2⁶⁴−1 -/
def f13Witness : Bytes := [0xff, 0xff, 0xff, 0xff, 0xff, 0xff, 0xff, 0xff, 0xff, 0x01]

set_option maxRecDepth 100000 in
/-- non-vacuity / regression for the repaired finding F13 (commit dbbc1a7): the witness is an ordinary Go slice, the guarded
decoder answers it with an error — and the decoder without the guard (the code before the commit) panics on it -/
theorem f13_witness_rejected :
    IsGoSlice f13Witness ∧ rpcStringG true f13Witness = .err ∧
    rpcStringG false f13Witness = .panic "slice bounds out of range" := by
  have h1 : IsGoSlice f13Witness := by unfold IsGoSlice; decide
  have h2 : rpcStringG true f13Witness = .err := by decide
  have h3 : rpcStringG false f13Witness = .panic "slice bounds out of range" := by decide
  exact ⟨h1, h2, h3⟩

/-! ## stored records (pkg/model) — a remark -/

/-- `lensSafe` (what the driver evaluates) implies `Safe` -/
theorem lensSafe_sound (buf : Bytes) (h : lensSafe buf = true) : Safe buf := by
  intro k idx v hu
  unfold lensSafe at h
  rw [List.all_eq_true] at h
  by_cases hk : k < buf.length + 1
  · have := h k (List.mem_range.mpr hk)
    rw [hu] at this
    simpa using this
  · have hnil : buf.drop k = [] := List.drop_eq_nil_of_le (by omega)
    rw [hnil] at hu
    simp [unmarshalUint, uvarintGo] at hu

/-- `model.LogEvent.Unmarshal` still calls `xbinary.UnmarshalBytes` directly: it is total on every record **without a
length varint of the class `≥ 2⁶³ − size`** (`Safe`, decidable form `lensSafe`), and reports at most the record's length.
It only ever sees records the server marshalled itself (see the file header). -/
theorem record_decode_total_partial (buf : Bytes) (h : Safe buf) :
    (Event.unmarshal buf).isPanic = false ∧ ∀ n e, Event.unmarshal buf = .ok (n, e) → n ≤ buf.length :=
  good_event buf h

/-- the regenerated fact behind "it only ever sees records the server marshalled itself": outside tests and verif-tagged
exports, `LogEvent.Unmarshal(buf, bool)` is called from exactly these files — the journal-record iterator and the index
rebuild. A new caller (for instance a request path) changes the list and breaks this obligation. -/
theorem record_decoder_callers :
    Generated.C13.logEventUnmarshalCallers = ["pkg/model/iterator.go", "pkg/tmindex/cindex.go"] := by decide

/-- non-vacuity: a real stored record (`ts = 1`, message `m`, fields `01 'c' 01 'd'`) meets the hypothesis -/
def validRecord : Bytes := [0x21, 0, 0, 0, 0, 0, 0, 0, 1, 1, 109, 4, 1, 99, 1, 100]
set_option maxRecDepth 100000 in
example : Safe validRecord := lensSafe_sound _ (by decide)

/-- … and the excluded class is real for this decoder (kernel-evaluated): a record whose message length is 2⁶⁴−1. Not
reachable from request content; it would take a corrupted chunk file. -/
theorem cex_record_varint :
    (Event.unmarshal ([0x20, 0, 0, 0, 0, 0, 0, 0, 1] ++ f13Witness)).isPanic = true ∧
    lensSafe ([0x20, 0, 0, 0, 0, 0, 0, 0, 1] ++ f13Witness) = false := by
  constructor
  · rfl
  · decide

/-! ## stored field lists -/

open Logrange.WireFields in
/-- **The readers are total on well-formed field lists**: `Fields.Value` (any name) and the walk of `Fields.AsKVString`
pass every bounds check and end within `|f| + 1` iterations; `AsKVString` visits exactly the items. -/
theorem value_total (f name : Bytes) (h : WF f) :
    (value f name).isPanic = false ∧ (value f name).isOutOfFuel = false ∧ (∃ its, items f = .ok its) ∧ check f = true := by
  obtain ⟨its, h1, h2, rfl⟩ := h
  have hv := valueGo_encode name its ((encodeItems its).length + 1) true h1 (by simpa using h2) (by omega)
  refine ⟨hv.1, hv.2, ⟨its, itemsGo_encode its _ h1 (by omega)⟩, ?_⟩
  -- Check walks the same length bytes
  have hc : ∀ (l : List Bytes) (fuel : Nat), (∀ v ∈ l, v.length ≤ 255) → (encodeItems l).length < fuel →
      checkGo fuel (encodeItems l) = true := by
    intro l
    induction l with
    | nil => intro fuel _ hf; cases fuel with
      | zero => simp [encodeItems] at hf
      | succ n => rfl
    | cons v r ih =>
      intro fuel hv hf
      cases fuel with
      | zero => omega
      | succ n =>
        rw [encodeItems_length_cons] at hf
        simp only [encodeItems, checkGo]
        rw [lenByte v (hv v (by simp))]
        simp only [List.length_append, Nat.not_lt_of_le (Nat.le_add_right _ _), if_false]
        have hd : (v ++ encodeItems r).drop v.length = encodeItems r := by simp
        rw [hd]
        exact ih n (fun x hx => hv x (by simp [hx])) (by omega)
  exact hc its _ h1 (by omega)

/-- non-vacuity: `a=b` as a binary list is well-formed, `Value("a")` is `b` -/
example : WireFields.WF [1, 97, 1, 98] := ⟨[[97], [98]], by simp, rfl, rfl⟩
example : WireFields.value [1, 97, 1, 98] [97] = .ok [98] := by decide

/-- on arbitrary bytes `Fields.Value` can fail its bounds check (`f = 01 'a'`, name `a`: the key matches and the
value's length byte is missing). Not reachable from the API as long as only well-formed lists are stored — a remark. -/
theorem cex_value_oob : (WireFields.value [1, 97] [97]).isPanic = true := by decide

/-- `NewFieldsFromKVString`'s builder loop only produces well-formed lists — **for every** result of `SplitString`, every
`TrimSpaces` that does not lengthen, every `Unquote`: the length of an unquoted item is tested again (commit 72eac47; the
regenerated facts `fieldLenTestedAfterUnquote = true`, `fieldMaxLenAfterUnquote = 255`, `fieldMaxLen = 255`). -/
theorem fromKV_WF (split : Bytes → Option (List Bytes)) (trim : Bytes → Bytes) (unq : Bytes → Option Bytes)
    (htrim : ∀ v, (trim v).length ≤ v.length) (s f : Bytes)
    (h : WireFields.fromKV split trim unq s = some f) : WireFields.WF f :=
  WireFields.fromKV_WF split trim unq htrim (by decide) (Or.inl ⟨by decide, by decide⟩) s f h

/-- **What a Write stores is readable**: every event the server-side iterator hands to the partition has a well-formed
field list (write-level fields concatenated with the event's own) — for all request bytes and all behaviours of the
split / trim / unquote functions (trim must not lengthen); hence `value_total` applies to everything stored. -/
theorem stored_fields_WF (split : Bytes → Option (List Bytes)) (trim : Bytes → Bytes) (unq : Bytes → Option Bytes)
    (htrim : ∀ v, (trim v).length ≤ v.length)
    (buf : Bytes) (tags : Bytes) (evs : List Wire.Event)
    (h : wpDecode (WireFields.fromKV split trim unq) buf = .ok (tags, evs)) :
    ∀ e ∈ evs, WireFields.WF e.fields := by
  have hkv : ∀ s f, WireFields.fromKV split trim unq s = some f → WireFields.WF f :=
    fun s f hs => fromKV_WF split trim unq htrim s f hs
  unfold wpDecode at h
  obtain ⟨it, hit, h⟩ := bind_eq_ok h
  obtain ⟨evs', hd, h⟩ := bind_eq_ok h
  cases h
  exact WireFields.wpDrain_WF _ hkv _ it [] evs (WireFields.wpInit_FInv _ hkv buf it hit) (by simp) hd

/-- what `strconv.Unquote` does to a double-quoted string without backslashes or inner quotes: the quotes go, every
byte ≥ 0x80 that is not part of a valid sequence becomes U+FFFD (`EF BF BD`); enough for the witness (only 0xff bytes) -/
def unqWitness (v : Bytes) : Option Bytes :=
  some ((v.drop 1).dropLast.flatMap fun b => if b = 0xff then [0xEF, 0xBF, 0xBD] else [b])

/-- the former F44 witness: `f="<86 × 0xff>"` — 88 bytes quoted (passes the first `len(v) > 255`), 258 bytes unquoted -/
def f44Parts : List Bytes := [[102], [34] ++ List.replicate 86 0xff ++ [34]]

set_option maxRecDepth 100000 in
/-- non-vacuity / regression for the repaired finding F44: the builder now refuses the witness (the event's own field text
is then dropped by `field.Parse`, nothing malformed is stored), while a quoted value that stays within 255 bytes is built -/
theorem f44_witness_rejected :
    WireFields.build id unqWitness f44Parts = none ∧
    WireFields.build id unqWitness [[107], [34, 118, 0xff, 34]] = some [1, 107, 4, 118, 0xEF, 0xBF, 0xBD] := by
  constructor <;> decide

/-! ## the text parsers of kvstring / tag / field (C08's model) -/

/-- **`kv_total`.** C08's models of `RemoveCurlyBraces`, `SplitString`, `TrimSpaces`, `ToMap`, `tag.Parse` and
`NewFieldsFromKVString` are total functions by structural recursion over the input (no index arithmetic, no panic outcome):
every byte string gets a value or an error. For such models "never reads outside its input" means that what they return is
made of the input's bytes in place — `TrimSpaces` and `RemoveCurlyBraces` return a contiguous piece of their argument — and
that the field builder on top of them only yields well-formed lists. That the *code* (which does index: `str[idx]`,
`str[i:j+1]`, `endIdx`) agrees with these models, also where an index slip would panic, is the differential correspondence
of C08's harness and of C13's `robust` section (under `recover`; corpus case `""""\`). -/
theorem kv_total (s : Bytes) :
    KV.trimSpaces s <:+: s ∧
    (∀ t, KV.removeCurlyBraces s = some t → t <:+: s) ∧
    (∀ f, FieldsKV.fromKV s = some f → WireFields.WF f) ∧
    ((KV.splitString s).isSome ∨ KV.splitString s = none) ∧ ((KV.toMap s).isSome ∨ KV.toMap s = none) ∧
    ((Tags.parse s).isSome ∨ Tags.parse s = none) := by
  refine ⟨C13KV.trimSpaces_infix s, C13KV.removeCurlyBraces_infix s,
    C13KV.fromKV_WF (by decide) (by decide) (by decide) s, ?_, ?_, ?_⟩
  · cases KV.splitString s <;> simp
  · cases KV.toMap s <;> simp
  · cases Tags.parse s <;> simp

/-- **The whole server-side decoding of a Write request with the modelled `NewFieldsFromKVString`** (C08's `FieldsKV.fromKV`
in the place of the parameter `kv`): for every request body it ends, without a panic, and every event it hands to the
partition has a well-formed field list. -/
theorem write_decode_total_kv (buf : Bytes) (h : IsGoSlice buf) :
    (wpDecode FieldsKV.fromKV buf).isPanic = false ∧ (wpDecode FieldsKV.fromKV buf).isOutOfFuel = false ∧
    ∀ tags evs, wpDecode FieldsKV.fromKV buf = .ok (tags, evs) → ∀ e ∈ evs, WireFields.WF e.fields := by
  refine ⟨(decode_total FieldsKV.fromKV buf h).2.2.1, (wpDrain_terminates FieldsKV.fromKV default [] 0).2.2 buf, ?_⟩
  intro tags evs hd
  have hkv : ∀ s f, FieldsKV.fromKV s = some f → WireFields.WF f := fun s f hs => (kv_total s).2.2.1 f hs
  unfold wpDecode at hd
  obtain ⟨it, hit, hd⟩ := bind_eq_ok hd
  obtain ⟨evs', hdr, hd⟩ := bind_eq_ok hd
  cases hd
  exact WireFields.wpDrain_WF _ hkv _ it [] evs (WireFields.wpInit_FInv _ hkv buf it hit) (by simp) hdr

/-! ## format strings and filters -/

/-- **`format_total`.** `model.NewFormatParser` passes every bounds check for all format strings and every behaviour of
`strings.ToLower` (which may change the length of the text between the braces); and the two places where
`FormatParser.FormatStr` indexes into an event — `Fields.Value` for `{vars:name}` and `Fields.AsKVString` for `{vars}` — are
total on every stored (well-formed) field list. (`time.Format` and `tag.Parse` are total library / C08 functions;
`{msg.json()}` is `escapeJson_terminates`.) -/
theorem format_total (lower : Bytes → Bytes) (fstr : Bytes) :
    (Format.parse lower fstr).isPanic = false ∧
    ∀ f name, WireFields.WF f → (WireFields.value f name).isPanic = false ∧ ∃ its, WireFields.items f = .ok its := by
  refine ⟨Format.parse_noPanic lower fstr, ?_⟩
  intro f name hf
  have := value_total f name hf
  exact ⟨this.1, this.2.2.1⟩

example : Format.parse id [123, 109, 115, 103, 125, 32, 123, 118, 97, 114, 115, 58, 97, 125]
    = .ok [.msg [], .const [32], .var [97]] := by decide          -- "{msg} {vars:a}"
example : Format.parse id [123, 116, 115, 46, 102, 111, 114, 109, 97, 116, 40, 41, 125] = .ok [.ts []] := by decide   -- "{ts.format()}": accepted, empty layout
example : Format.parse id [123, 109, 115, 103] = .err := by decide                                                      -- "{msg": no closing brace

/-- **`eval_total`.** In C05's model of the WHERE evaluator an accepted filter is a total function `Event → Bool` built from
total string functions; the one place where the Go closure indexes into the event is `Fields.Value`, which C05 models with
its panic visible (`Fields.valueP … = none`) and then masks (`Fields.value`). On every stored event — well-formed fields —
no look-up an evaluation can make (any field name) is that panic, so the masked function *is* the code's behaviour: every
accepted filter answers on every stored event. -/
theorem eval_total (env : Where.Env) (e : Option Where.Expr) (flt : Where.Pred) (_hb : Where.buildWhere env e = .ok flt)
    (ev : Where.Event) (h : WireFields.WF ev.fields) (name : Bytes) :
    Fields.valueP ev.fields name = some (Fields.value ev.fields name) ∧ (flt ev = true ∨ flt ev = false) := by
  have hw := C13KV.WF_bridge ev.fields h
  obtain ⟨ps, hp⟩ := hw
  refine ⟨?_, by cases flt ev <;> simp⟩
  rw [Fields.valueP_wf ev.fields name ps hp]
  simp [Fields.value, Fields.valueP_wf ev.fields name ps hp]

/-! ## recursion depth (findings F25, F25b) -/

/-- the regenerated facts: the parser entry points of pkg/lql have a nesting guard with the limit 1000 (commit 8131efe) that
counts on the tokens of the parser's own lexer (kind 2, commit 6345cd4) -/
theorem nesting_guard_in_place :
    Generated.C13.lqlNestingGuard = true ∧ Generated.C13.lqlMaxNesting = 1000 ∧ Generated.C13.lqlGuardKind = 2 := by decide

/-- **With a guard that counts on the parser's own tokens, every text is answered**: if the stack holds `lqlMaxNesting` frames,
no text exhausts it — whatever it contains (string literals, `{…}` tags, lexer errors), because guard and parser see the same
lazily lexed token stream (`tscan_mono`). (1 000 levels cost about 5 MB of the 1 000 MB a goroutine may use.) -/
theorem answers_every_request_guarded (hk : Generated.C13.lqlGuardKind = 2) (budget : Nat)
    (hb : Generated.C13.lqlMaxNesting ≤ budget) (s : Bytes) : (Nesting.parseNow budget s).isPanic = false := by
  unfold Nesting.parseNow
  rw [hk]
  exact Nesting.parseG_token_guarded _ budget hb s

/-- the text `{a='}((((a=1))))` -/
def holeText : Bytes := [123, 97, 61, 39, 125, 40, 40, 40, 40, 97, 61, 49, 41, 41, 41, 41]

set_option maxRecDepth 100000 in
/-- **The byte-scan branch (the code between commits 8131efe and 6345cd4, repaired finding F25b)**, on a small instance of the guards (limit 3, stack of 3 frames): the byte scan of
commit 8131efe takes the `'` inside the tags token `{a='}` for the start of a string literal, skips the rest of the text and lets
it pass, although its four nested parentheses exceed the limit — the parser then exhausts the stack; a guard that counts on
the tokens refuses the same text with an error; and without any guard four parentheses exhaust three frames (F25). Evaluated
by the kernel through C12's lexer model. -/
theorem cex_guard_hole :
    Nesting.holeClass 3 holeText = true ∧ (Nesting.parseG 1 3 3 holeText).isPanic = true ∧
    Nesting.parseG 2 3 3 holeText = .err ∧ (Nesting.parseG 0 0 3 [40, 40, 40, 40]).isPanic = true ∧
    Nesting.parseG 1 3 3 [40, 40, 40, 40] = .err ∧ Nesting.parseG 1 3 3 [40, 40, 40, 97, 61, 49, 41, 41, 41] = .ok 3 := by
  decide

/-! ## position strings -/

/-- **Positions**: `journal.ParsePos` and `crsr.applyStatePos` answer with a value or an error for all strings. -/
theorem pos_total (s : Bytes) :
    (PosStr.parsePos s).isPanic = false ∧ (PosStr.applyStatePos s).isPanic = false :=
  ⟨PosStr.parsePos_noPanic s, PosStr.applyParts_noPanic _ _⟩

/-! ## EscapeJsonStr -/

/-- **`EscapeJsonStr` terminates and passes its bounds checks**, for all byte strings, within `|s| + 1` iterations
of its loop — for the rune test the extractor finds in `/repo` now. -/
theorem escapeJson_terminates (s : Bytes) :
    (EscapeJson.escapeJson Generated.C13.escapeJsonSkipsValidRunes s).isOutOfFuel = false ∧
    (EscapeJson.escapeJson Generated.C13.escapeJsonSkipsValidRunes s).isPanic = false := by
  have hfact : Generated.C13.escapeJsonSkipsValidRunes = true := by decide
  rw [hfact]
  have := EscapeJson.loop_ends s (s.length + 1) 0 0 [34] (by omega) (by omega) (by omega)
  exact ⟨this.2, this.1⟩

example : EscapeJson.escapeJson true [97, 10, 0xff, 34] = .ok [34, 97, 92, 110, 92, 117, 102, 102, 102, 100, 92, 34, 34] := by decide
example : PosStr.applyStatePos [106, 61] = .ok [([106], (0, 0))] := by decide   -- "j=" : the empty position is the zero position

/-- regression for the repaired finding F14 (commit d161ff4): the well-formed U+FFFD is copied and the loop ends -/
theorem escapeJson_fffd_regression :
    EscapeJson.escapeJson true [0xEF, 0xBF, 0xBD] = .ok [34, 0xEF, 0xBF, 0xBD, 34] := by decide

/-- … and with the rune test of the code before that commit no amount of fuel is enough -/
theorem cex_escapeJson_fffd_before_fix (fuel i start : Nat) (e : Bytes) (hi : i = 0) :
    EscapeJson.loop false [0xEF, 0xBF, 0xBD] fuel i start e = .outOfFuel := by
  subst hi
  induction fuel with
  | zero => rfl
  | succ n ih =>
    unfold EscapeJson.loop
    simpa [Go.index, Go.sliceFrom, Outcome.bind, EscapeJson.decodeRune, EscapeJson.seqSize, EscapeJson.loBound,
      EscapeJson.hiBound, EscapeJson.runeError] using ih

/-! ## admin statements: SHOW PARTITIONS paging (finding F55) -/

open Logrange.ShowPartitions in
/-- **`SHOW PARTITIONS … OFFSET o LIMIT l` answers for every non-negative OFFSET and LIMIT** (absent ones take their
defaults), any number of partitions, and whichever way `/repo` treats negative arguments: the paging arithmetic of
`partition.Service.Partitions` indexes neither `parts` nor the result page outside their bounds. -/
theorem show_partitions_total_partial (n : Nat) (hn : (n : Int) < 9223372036854775808) (offset limit : Option Int)
    (h : negativeArg offset limit = false) : (showPartitionsNow n offset limit).isPanic = false := by
  unfold showPartitionsNow showPartitions
  simp only []
  unfold negativeArg at h
  simp only [Bool.or_eq_false_iff, decide_eq_false_iff_not] at h
  split
  · rfl
  · exact partitions_nonneg n hn _ _ (by omega) (by omega)

/-- **The unguarded arithmetic (the code before commit c80057f, repaired finding F55)**, evaluated by the kernel: `show partitions offset -1` (no partition needed:
`parts[-1]`, index out of range) and, with at least one partition, `show partitions limit -1` (`make([]…, -1)`: makeslice: len
out of range) and `offset -9223372036854775808` (the subtraction wraps); with a guard the same statements get an error. With no
partition `limit -1` is answered (early return). -/
theorem cex_show_partitions_negative :
    (ShowPartitions.showPartitions false 0 (some (-1)) none).isPanic = true ∧
    (ShowPartitions.showPartitions false 1 none (some (-1))).isPanic = true ∧
    (ShowPartitions.showPartitions false 1 (some (-9223372036854775808)) none).isPanic = true ∧
    ShowPartitions.showPartitions false 0 none (some (-1)) = .ok [] ∧
    ShowPartitions.showPartitions true 1 none (some (-1)) = .err ∧
    ShowPartitions.showPartitions false 3 (some 1) (some 5) = .ok [1, 2] := by decide

/-- **With the guard, every SHOW PARTITIONS statement is answered** — any OFFSET and LIMIT the parser can deliver. -/
theorem show_partitions_total_guarded (hg : Generated.C13.showPartitionsRejectsNegative = true) (n : Nat)
    (hn : (n : Int) < 9223372036854775808) (offset limit : Option Int) :
    (ShowPartitions.showPartitionsNow n offset limit).isPanic = false := by
  cases hneg : ShowPartitions.negativeArg offset limit with
  | false => exact show_partitions_total_partial n hn offset limit hneg
  | true =>
    unfold ShowPartitions.showPartitionsNow ShowPartitions.showPartitions
    simp only []
    unfold ShowPartitions.negativeArg at hneg
    simp only [Bool.or_eq_true, decide_eq_true_eq] at hneg
    rw [hg]
    simp only [true_and, hneg, if_true]
    rfl

/-! ## the full statement -/

/-- **C13 at full strength**: every request body is answered with a result or an error by the decoders, within a bounded number
of steps; every position string by the position parser; the escaper returns; whatever a Write stores is readable; format
strings are total; and no LQL text exhausts the stack (for the parser entry points as `/repo` has them now). -/
def C13_full : Prop :=
  (∀ (kv : Bytes → Option Bytes) (buf : Bytes), IsGoSlice buf →
    (wpDecode kv buf).isPanic = false ∧ (wpDecode kv buf).isOutOfFuel = false ∧ (unmarshalQueryRequest buf).isPanic = false) ∧
  (∀ s, (PosStr.applyStatePos s).isPanic = false) ∧
  (∀ s, (EscapeJson.escapeJson Generated.C13.escapeJsonSkipsValidRunes s).isPanic = false ∧
        (EscapeJson.escapeJson Generated.C13.escapeJsonSkipsValidRunes s).isOutOfFuel = false) ∧
  (∀ split (trim : Bytes → Bytes) unq s f, (∀ v, (trim v).length ≤ v.length) →
      WireFields.fromKV split trim unq s = some f → WireFields.WF f) ∧
  (∀ lower fstr, (Format.parse lower fstr).isPanic = false) ∧
  (∃ budget, ∀ s, (Nesting.parseNow budget s).isPanic = false) ∧
  (∀ (n : Nat) offset limit, (n : Int) < 9223372036854775808 → (ShowPartitions.showPartitionsNow n offset limit).isPanic = false)

/-- **Where C13 stands**: every clause but the last two is proved above unconditionally; the nesting clause through the token
guard (`lqlGuardKind = 2`, in place: `nesting_guard_in_place`); the last one holds as soon as SHOW PARTITIONS refuses a negative
OFFSET / LIMIT (`showPartitionsRejectsNegative`, commit c80057f). Before that commit the fact was `false`:
`cex_show_partitions_negative`, repaired finding F55. -/
theorem C13_holds_with_guards (hk : Generated.C13.lqlGuardKind = 2) (hg : Generated.C13.showPartitionsRejectsNegative = true) :
    C13_full := by
  refine ⟨?_, fun s => (pos_total s).2, fun s => ⟨(escapeJson_terminates s).2, (escapeJson_terminates s).1⟩, ?_,
    fun lower fstr => (format_total lower fstr).1, ⟨Generated.C13.lqlMaxNesting, fun s =>
      answers_every_request_guarded hk _ (Nat.le_refl _) s⟩, fun n o l hn => show_partitions_total_guarded hg n hn o l⟩
  · intro kv buf hb
    exact ⟨(decode_total kv buf hb).2.2.1, (wpDrain_terminates kv default [] 0).2.2 buf, (decode_total kv buf hb).2.2.2.1⟩
  · intro split trim unq s f ht hs
    exact fromKV_WF split trim unq ht s f hs

/-- **Every LQL text is answered by the parser** on the tree as it is now: with a stack of 1000 frames (or more) no text
exhausts it — the positive statement that replaces the counterexamples of F25 and F25b. -/
theorem answers_every_request (budget : Nat) (hb : 1000 ≤ budget) (s : Bytes) : (Nesting.parseNow budget s).isPanic = false :=
  answers_every_request_guarded nesting_guard_in_place.2.2 budget (by rw [nesting_guard_in_place.2.1]; exact hb) s

set_option maxRecDepth 100000 in
/-- regression for F25b on the current guard kind with a small limit: the hole text is refused, three levels are parsed -/
example : Nesting.parseG Generated.C13.lqlGuardKind 3 3 holeText = .err ∧
    Nesting.parseG Generated.C13.lqlGuardKind 3 3 [40, 40, 40, 97, 61, 49, 41, 41, 41] = .ok 3 := by decide

/-- on the tree before c80057f only the SHOW PARTITIONS guard was missing -/
theorem C13_holds_with_show_guard (hg : Generated.C13.showPartitionsRejectsNegative = true) : C13_full :=
  C13_holds_with_guards nesting_guard_in_place.2.2 hg

/-- the regenerated fact: a negative OFFSET or LIMIT of SHOW PARTITIONS is refused with an error (commit c80057f) -/
theorem show_partitions_guard_in_place : Generated.C13.showPartitionsRejectsNegative = true := by decide

/-- **Every SHOW PARTITIONS statement is answered** on the tree as it is now: any OFFSET and LIMIT the parser can deliver, any
number of partitions — the positive statement that replaces the counterexample of F55. -/
theorem show_partitions_total (n : Nat) (hn : (n : Int) < 9223372036854775808) (offset limit : Option Int) :
    (ShowPartitions.showPartitionsNow n offset limit).isPanic = false :=
  show_partitions_total_guarded show_partitions_guard_in_place n hn offset limit

/-- regression for F55 on the current fact: the three witnesses get an error, an ordinary page is served -/
example : ShowPartitions.showPartitionsNow 0 (some (-1)) none = .err ∧ ShowPartitions.showPartitionsNow 1 none (some (-1)) = .err ∧
    ShowPartitions.showPartitionsNow 1 (some (-9223372036854775808)) none = .err ∧
    ShowPartitions.showPartitionsNow 3 (some 1) (some 5) = .ok [1, 2] := by decide

/-- **C13 holds at full strength** on the tree as it is now (no open finding). -/
theorem C13_holds : C13_full := C13_holds_with_show_guard show_partitions_guard_in_place

end Logrange.Props.C13
