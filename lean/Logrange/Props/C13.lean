import Logrange.Proofs.Wire
import Logrange.Proofs.EscapeJson
import Logrange.Proofs.PosStr
import Logrange.Proofs.WireFields
import Logrange.Model.Nesting
/-!
# C13 — No request content can crash the server-side decoders and evaluators

Property theorems only; every theorem in this namespace is an obligation of the C13 check (axioms audited).
Models: `Logrange/Model/{Outcome,Wire,WireFields,EscapeJson,PosStr}.lean`; lemmas: `Logrange/Proofs/{Wire,EscapeJson,PosStr}.lean`.

The full statement `C13_full` is **false** on the current tree; what is proved is the `_partial` form under explicit
hypotheses that exclude the classes of the open findings, plus a kernel-evaluated counterexample per class:

* **F13** — `xbinary.UnmarshalBytes`: a length varint `≥ 2⁶³ − idx` makes `buf[idx:idx+ln]` panic
  (`cex_varint_negative_length`); excluded by `Safe` / `lensSafe`.
* **F44** — `field.NewFieldsFromKVString` tests `len(v) > 255` *before* `strconv.Unquote`; unquoting can make the
  value longer (every invalid UTF-8 byte becomes the three bytes of U+FFFD), the length byte wraps and the stored
  field list is malformed: a later `AsKVString` panics (`cex_unquote_expands`).
* **F25** — recursion depth of the LQL parser is not bounded (`cex_nesting_exhausts_stack`).
-/
namespace Logrange.Props.C13
open Go Logrange Logrange.Wire Logrange.Outcome

/-! ## decoders -/

/-- the outcome of running everything the server does with the body of a Write request -/
def writeBodyPanics (kv : Bytes → Option Bytes) (buf : Bytes) : Bool := (wpDecode kv buf).isPanic

/-- **The full statement for the decoders (false: see `cex_varint_negative_length`).** -/
def decode_total_full : Prop :=
  ∀ (kv : Bytes → Option Bytes) (buf : Bytes),
    (wpDecode kv buf).isPanic = false ∧ (unmarshalQueryRequest buf).isPanic = false ∧
    (unmarshalLogEvent buf).isPanic = false ∧ (Event.unmarshal buf).isPanic = false ∧
    (unmarshalQueryResult buf).isPanic = false

/-- **Decoders are total on every byte string without a length varint of the F13 class**: whatever bytes arrive as
the body of a Write or Query request (or as a stored record, or — client side — as a query result), if at no
position a varint decodes to a value `≥ 2⁶³ − (its size)`, then `wpIterator.init`, every `Get`/`Next` of the
drain, `unmarshalQueryRequest`, `unmarshalLogEvent`, `LogEvent.Unmarshal` and `unmarshalQueryResult` return a
value or an error: no slice or index expression of the mirrored code fails its bounds check. For every
field-text parser `kv`. -/
theorem decode_total_partial (kv : Bytes → Option Bytes) (buf : Bytes) (h : Safe buf) :
    (wpInit kv buf).isPanic = false ∧
    (∀ it, wpInit kv buf = .ok it → ∀ fuel acc, (wpDrain kv fuel it acc).isPanic = false) ∧
    (wpDecode kv buf).isPanic = false ∧
    (unmarshalQueryRequest buf).isPanic = false ∧
    (unmarshalLogEvent buf).isPanic = false ∧
    (Event.unmarshal buf).isPanic = false ∧
    (unmarshalQueryResult buf).isPanic = false := by
  have hdrain : ∀ it, wpInit kv buf = .ok it → ∀ fuel acc, (wpDrain kv fuel it acc).isPanic = false := by
    intro it hit fuel acc
    exact wpDrain_noPanic kv fuel it acc (wpInit_inv kv buf h it hit).1
  refine ⟨wpInit_noPanic kv buf h, hdrain, ?_, (good_queryRequest buf h).1, (good_logEvent buf h).1,
    (good_event buf h).1, (good_queryResult buf h).1⟩
  unfold wpDecode
  refine bind_isPanic_false (wpInit_noPanic kv buf h) ?_
  intro it hit
  refine bind_isPanic_false (hdrain it hit _ _) ?_
  intro evs _
  rfl

/-- `lensSafe` (what the driver evaluates) implies `Safe` -/
theorem lensSafe_sound (buf : Bytes) (h : lensSafe buf = true) : Safe buf := by
  intro k idx v hu
  unfold lensSafe at h
  rw [List.all_eq_true] at h
  by_cases hk : k < buf.length + 1
  · have := h k (List.mem_range.mpr hk)
    rw [hu] at this
    simpa using this
  · have hnil : buf.drop k = [] := List.drop_eq_nil_of_le (by omega)
    rw [hnil] at hu
    simp [unmarshalUint, uvarintGo] at hu

/-- the same with the decidable hypothesis, in contrapositive form: **every panic of the Write decoding is of the
F13 class** (some position of the body holds a varint `≥ 2⁶³ − its size`). -/
theorem decode_panic_only_F13 (kv : Bytes → Option Bytes) (buf : Bytes) (h : (wpDecode kv buf).isPanic = true) :
    lensSafe buf = false := by
  cases hl : lensSafe buf with
  | false => rfl
  | true =>
    have := (decode_total_partial kv buf (lensSafe_sound buf hl)).2.2.1
    rw [this] at h; cases h

/-- **Never reads outside the request buffer**: on the same buffers, the number of bytes a decoder reports as
consumed never exceeds the buffer (every intermediate `buf[nn:]` is a checked slice in the model, so this also
holds for every prefix of the decoding). -/
theorem never_reads_outside (buf : Bytes) (h : Safe buf) :
    (∀ n q, unmarshalQueryRequest buf = .ok (n, q) → n ≤ buf.length) ∧
    (∀ n e, unmarshalLogEvent buf = .ok (n, e) → n ≤ buf.length) ∧
    (∀ n e, Event.unmarshal buf = .ok (n, e) → n ≤ buf.length) ∧
    (∀ kv it, wpInit kv buf = .ok it → it.pos ≤ buf.length) := by
  refine ⟨(good_queryRequest buf h).2, (good_logEvent buf h).2, (good_event buf h).2, ?_⟩
  intro kv it hit
  have := wpInit_inv kv buf h it hit
  rw [← this.2]; exact this.1.2

/-- non-vacuity: a real Write body (tags `a=b`, no write-level fields, one event `ts=1, msg="m", fields="c=d"`) meets
the hypothesis of `decode_total_partial` (that the model decodes it to exactly that event is part of the harness' corpus) -/
def validBody : Bytes := [3, 97, 61, 98, 0, 0, 0, 0, 1, 0, 0, 0, 0, 0, 0, 0, 1, 1, 109, 0, 3, 99, 61, 100]
set_option maxRecDepth 100000 in
example : Safe validBody := lensSafe_sound _ (by decide)
set_option maxRecDepth 100000 in
/-- … and so does the same body cut in the middle of the event (a decode error inside the batch ends the batch) -/
example : Safe (validBody.take 19) := lensSafe_sound _ (by decide)

/-- the F13 witness: a Write body whose first field (the tags) announces the length 2⁶⁴−1 -/
def f13Witness : Bytes := [0xff, 0xff, 0xff, 0xff, 0xff, 0xff, 0xff, 0xff, 0xff, 0x01]

/-- **Counterexample (open finding F13)**: the ten-byte Write body `ff×9 01` makes `wpIterator.init` panic —
`ln = int(2⁶⁴−1) = −1`, `ln+idx = 9 ≤ len(buf)`, `buf[10:9]`. Evaluated by the kernel. -/
theorem cex_varint_negative_length (kv : Bytes → Option Bytes) :
    wpInit kv f13Witness = .panic "slice bounds out of range" ∧ lensSafe f13Witness = false := by
  constructor
  · rfl
  · decide

/-- so the full statement is false -/
theorem decode_total_full_false : ¬ decode_total_full := by
  intro h
  have h1 := (h (fun _ => some []) f13Witness).1
  have h2 : (wpDecode (fun _ => some []) f13Witness).isPanic = true := by rfl
  rw [h1] at h2; cases h2

/-! ## stored field lists -/

open Logrange.WireFields in
/-- **The readers are total on well-formed field lists**: `Fields.Value` (any name) and the walk of `Fields.AsKVString`
pass every bounds check and end within `|f| + 1` iterations; `AsKVString` visits exactly the items. -/
theorem value_total (f name : Bytes) (h : WF f) :
    (value f name).isPanic = false ∧ (value f name).isOutOfFuel = false ∧ (∃ its, items f = .ok its) ∧ check f = true := by
  obtain ⟨its, h1, h2, rfl⟩ := h
  have hv := valueGo_encode name its ((encodeItems its).length + 1) true h1 (by simpa using h2) (by omega)
  refine ⟨hv.1, hv.2, ⟨its, itemsGo_encode its _ h1 (by omega)⟩, ?_⟩
  -- Check walks the same length bytes
  have hc : ∀ (l : List Bytes) (fuel : Nat), (∀ v ∈ l, v.length ≤ 255) → (encodeItems l).length < fuel →
      checkGo fuel (encodeItems l) = true := by
    intro l
    induction l with
    | nil => intro fuel _ hf; cases fuel with
      | zero => simp [encodeItems] at hf
      | succ n => rfl
    | cons v r ih =>
      intro fuel hv hf
      cases fuel with
      | zero => omega
      | succ n =>
        rw [encodeItems_length_cons] at hf
        simp only [encodeItems, checkGo]
        rw [lenByte v (hv v (by simp))]
        simp only [List.length_append, Nat.not_lt_of_le (Nat.le_add_right _ _), if_false]
        have hd : (v ++ encodeItems r).drop v.length = encodeItems r := by simp
        rw [hd]
        exact ih n (fun x hx => hv x (by simp [hx])) (by omega)
  exact hc its _ h1 (by omega)

/-- non-vacuity: `a=b` as a binary list is well-formed, `Value("a")` is `b` -/
example : WireFields.WF [1, 97, 1, 98] := ⟨[[97], [98]], by simp, rfl, rfl⟩
example : WireFields.value [1, 97, 1, 98] [97] = .ok [98] := by decide

/-- on arbitrary bytes `Fields.Value` can fail its bounds check (`f = 01 'a'`, name `a`: the key matches and the
value's length byte is missing). Not reachable from the API as long as only well-formed lists are stored — a remark. -/
theorem cex_value_oob : (WireFields.value [1, 97] [97]).isPanic = true := by decide

/-- **What a Write stores is readable — partial.** If the field-text parser `kv` only produces well-formed lists, every
event the server-side iterator hands to the partition has a well-formed field list (write-level fields
concatenated with the event's own), hence `value_total` applies to everything stored. -/
theorem stored_fields_WF_partial (kv : Bytes → Option Bytes) (hkv : ∀ s f, kv s = some f → WireFields.WF f)
    (buf : Bytes) (tags : Bytes) (evs : List Wire.Event) (h : wpDecode kv buf = .ok (tags, evs)) :
    ∀ e ∈ evs, WireFields.WF e.fields := by
  unfold wpDecode at h
  obtain ⟨it, hit, h⟩ := bind_eq_ok h
  obtain ⟨evs', hd, h⟩ := bind_eq_ok h
  cases h
  exact WireFields.wpDrain_WF kv hkv _ it [] evs (WireFields.wpInit_FInv kv hkv buf it hit) (by simp) hd

/-- … and `NewFieldsFromKVString`'s builder loop only produces well-formed lists **provided unquoting does not make an
item longer than 255 bytes** (or the code tests the length again after unquoting — it does not: the regenerated fact
`fieldLenTestedAfterUnquote` is `false`). For every result of `SplitString`, every `TrimSpaces` that does not
lengthen, every `Unquote`. -/
theorem fromKV_WF_partial (trim : Bytes → Bytes) (unq : Bytes → Option Bytes)
    (htrim : ∀ v, (trim v).length ≤ v.length)
    (hunq : ∀ v w, unq v = some w → w.length ≤ 255)
    (parts : List Bytes) (f : Bytes) (h : WireFields.build trim unq parts = some f) : WireFields.WF f :=
  WireFields.build_WF trim unq htrim (by decide) (Or.inr hunq) parts f h

/-- non-vacuity of `fromKV_WF_partial`: an unquoter that strips the quotes of items up to 257 bytes meets the hypothesis,
and the builder produces `k="v"` ↦ `01 'k' 01 'v'` -/
example : ∀ v w, (fun (v : Bytes) => if v.length ≤ 257 then some ((v.drop 1).dropLast) else none) v = some w → w.length ≤ 255 := by
  intro v w h
  simp only [] at h
  split at h
  · cases h; simp; omega
  · cases h
example : WireFields.build id (fun v => if v.length ≤ 257 then some ((v.drop 1).dropLast) else none) [[107], [34, 118, 34]]
    = some [1, 107, 1, 118] := by decide

/-- what `strconv.Unquote` does to a double-quoted string without backslashes or inner quotes: the quotes go, every
byte ≥ 0x80 that is not part of a valid sequence becomes U+FFFD (`EF BF BD`); enough for the witness (only 0xff bytes) -/
def unqWitness (v : Bytes) : Option Bytes :=
  some ((v.drop 1).dropLast.flatMap fun b => if b = 0xff then [0xEF, 0xBF, 0xBD] else [b])

/-- the F44 witness: `f="<86 × 0xff>"` — 88 bytes quoted (passes `len(v) > 255`), 258 bytes unquoted -/
def f44Parts : List Bytes := [[102], [34] ++ List.replicate 86 0xff ++ [34]]

set_option maxRecDepth 100000 in
/-- **Counterexample (open finding F44)**: the builder accepts the witness, writes the length byte `258 mod 256 = 2`,
and the resulting list is malformed: `field.Check` rejects it and the walk of `AsKVString` fails a bounds check. -/
theorem cex_unquote_expands :
    ∃ f, WireFields.build id unqWitness f44Parts = some f ∧ WireFields.check f = false ∧
      (WireFields.items f).isPanic = true := by
  refine ⟨[1, 102, 2] ++ (List.replicate 86 [0xEF, 0xBF, 0xBD]).flatten, ?_, ?_, ?_⟩
  · decide
  · decide
  · decide

/-! ## recursion depth (finding F25) -/

/-- **Answers every request — partial**: with a stack of `budget` frames, a text with at most `budget` opening
parentheses never exhausts it. -/
theorem answers_every_request_partial (budget : Nat) (s : Bytes) (h : s.count 40 ≤ budget) :
    (Nesting.parse budget s).isPanic = false :=
  Nesting.scan_noPanic budget s 0 0 (by omega)

example : (Nesting.parse 2 [40, 40, 97, 41, 41]) = .ok 2 := by decide
example : ([40, 40, 97, 41, 41] : Bytes).count 40 ≤ 2 := by decide

/-- **Counterexample (open finding F25)**: for every stack size there is a request (`budget + 1` opening parentheses)
that exhausts it — the code has no depth bound, and stack exhaustion is fatal in Go. -/
theorem cex_nesting_exhausts_stack (budget : Nat) :
    (Nesting.parse budget (List.replicate (budget + 1) 40)).isPanic = true :=
  Nesting.scan_overflow budget budget 0 0 (by omega)

/-! ## position strings -/

/-- **Positions**: `journal.ParsePos` and `crsr.applyStatePos` answer with a value or an error for all strings. -/
theorem pos_total (s : Bytes) :
    (PosStr.parsePos s).isPanic = false ∧ (PosStr.applyStatePos s).isPanic = false :=
  ⟨PosStr.parsePos_noPanic s, PosStr.applyParts_noPanic _ _⟩

/-! ## EscapeJsonStr -/

/-- **`EscapeJsonStr` terminates and passes its bounds checks**, for all byte strings, within `|s| + 1` iterations
of its loop — for the rune test the extractor finds in `/repo` now. -/
theorem escapeJson_terminates (s : Bytes) :
    (EscapeJson.escapeJson Generated.C13.escapeJsonSkipsValidRunes s).isOutOfFuel = false ∧
    (EscapeJson.escapeJson Generated.C13.escapeJsonSkipsValidRunes s).isPanic = false := by
  have hfact : Generated.C13.escapeJsonSkipsValidRunes = true := by decide
  rw [hfact]
  have := EscapeJson.loop_ends s (s.length + 1) 0 0 [34] (by omega) (by omega) (by omega)
  exact ⟨this.2, this.1⟩

example : EscapeJson.escapeJson true [97, 10, 0xff, 34] = .ok [34, 97, 92, 110, 92, 117, 102, 102, 102, 100, 92, 34, 34] := by decide
example : PosStr.applyStatePos [106, 61] = .ok [([106], (0, 0))] := by decide   -- "j=" : the empty position is the zero position

/-- regression for the repaired finding F14 (commit d161ff4): the well-formed U+FFFD is copied and the loop ends -/
theorem escapeJson_fffd_regression :
    EscapeJson.escapeJson true [0xEF, 0xBF, 0xBD] = .ok [34, 0xEF, 0xBF, 0xBD, 34] := by decide

/-- … and with the rune test of the code before that commit no amount of fuel is enough -/
theorem cex_escapeJson_fffd_before_fix (fuel i start : Nat) (e : Bytes) (hi : i = 0) :
    EscapeJson.loop false [0xEF, 0xBF, 0xBD] fuel i start e = .outOfFuel := by
  subst hi
  induction fuel with
  | zero => rfl
  | succ n ih =>
    unfold EscapeJson.loop
    simpa [Go.index, Go.sliceFrom, Outcome.bind, EscapeJson.decodeRune, EscapeJson.seqSize, EscapeJson.loBound,
      EscapeJson.hiBound, EscapeJson.runeError] using ih

/-! ## the full statement -/

/-- **C13 at full strength** (kept as a definition: it is false on the current tree through F13, F44 and F25): every
request body is answered with a result or an error by the decoders; every position string by the position parser;
the escaper returns; whatever a Write stores is readable; and no LQL text exhausts the stack. -/
def C13_full : Prop :=
  decode_total_full ∧
  (∀ s, (PosStr.applyStatePos s).isPanic = false) ∧
  (∀ s, (EscapeJson.escapeJson Generated.C13.escapeJsonSkipsValidRunes s).isOk = true) ∧
  (∀ (trim : Bytes → Bytes) (unq : Bytes → Option Bytes) parts f, (∀ v, (trim v).length ≤ v.length) →
      WireFields.build trim unq parts = some f → WireFields.WF f) ∧
  (∃ budget, ∀ s, (Nesting.parse budget s).isPanic = false)

theorem C13_full_false : ¬ C13_full := fun h => decode_total_full_false h.1

end Logrange.Props.C13
