import Logrange.Props.C05
import Logrange.Proofs.LqlLex
/-!
# C05 at text level: from the characters of the WHERE clause to the delivered events

`Props/C05.lean`'s headline `select_where_exact` starts from a token list. Here it starts from the **text**: C12 owns a
character-level model of the lexer (`Lql.lex`: maximal munch over the seven token groups, blanks skipped, participle's
unquote) and proves what it does on printed expressions. Imported read-only; the C12 facts used are named in each
theorem:

* `parseWhereText f text = (Lql.lex text).bind …` — the model of `lql.ParseExpr` on text: C12's lexer model, then C12's
  direct recursive-descent parser `Lql.dExpr`, all tokens consumed. It is word for word C12's
  `parseExprText` of `Props/C12.lean` (restated here so that this file depends on C12's *proof* modules only, not on its property
  file, which is under construction by its owner);
* `Proofs/LqlLex.lean: lex_printExpr` (C12's obligation `lexable_expr`): `lex (printExpr e) = some (toksExpr e)` for every
  expression with lexable atoms (`laExpr`, decidable), and `Proofs/Lql.lean: dExpr_toks` (C12's `token_roundtrip_expr`):
  the direct parser inverts `toksExpr` on the parser's image (`wfExpr`). Together they are C12's `print_parse_expr`,
  re-derived below as `print_parse_where`.

What remains C12's: that the lexer model and the direct parser agree with the real `participle` lexer/parser on every
text (their correspondence harness; the C05 harness compares the real parser's AST with the intended one of every
generated text as well).
-/
namespace Logrange.Props.C05Text
open Go Logrange Logrange.Where Logrange.FIter Logrange.Props.C05

/-- `lql.ParseExpr` on text as modelled by C12 (= C12's `parseExprText`): lexer model, then the direct parser, all
tokens consumed; `f` = parser fuel -/
def parseWhereText (f : Nat) (text : Bytes) : Option Lql.Expr :=
  (Lql.lex text).bind (fun ts => match Lql.dExpr f ts with | some (e, []) => some e | _ => none)

/-- a text the parser model reads as `e` is a token list the direct parser reads as `e` -/
theorem text_tokens (f : Nat) (text : Bytes) (e : Lql.Expr) (hp : parseWhereText f text = some e) :
    ∃ toks, Lql.lex text = some toks ∧ Lql.dExpr f toks = some (e, []) := by
  unfold parseWhereText at hp
  cases hl : Lql.lex text with
  | none => rw [hl] at hp; cases hp
  | some toks =>
    rw [hl] at hp
    simp only [Option.bind_some] at hp
    refine ⟨toks, rfl, ?_⟩
    split at hp
    · rename_i e' h; cases hp; exact h
    · cases hp

/-- print then parse is the identity on the image (C12's `print_parse_expr`, from `lex_printExpr` and `dExpr_toks`) -/
theorem print_parse_where (e : Lql.Expr) (hw : Lql.wfExpr e = true) (hl : Lql.laExpr e = true) :
    parseWhereText (Lql.szExpr e) (Lql.printExpr e) = some e := by
  have h := Lql.dExpr_toks e (Lql.szExpr e) [] (Nat.le_refl _) hw (by simp [Lql.headNot]) (by simp [Lql.headNot])
  simp only [List.append_nil] at h
  simp [parseWhereText, Lql.lex_printExpr e hl, h]

/-- **C05 headline at text level, every text the lexer model tokenises.** If the characters of the WHERE clause are
read (C12's lexer model, then C12's direct parser) as the expression `e`, and the builder accepts `e`, then reading any
underlying iterator (ends within `n` steps, events with well-formed fields) through the filtering iterator delivers
exactly the underlying events for which `e` holds (and whose timestamp is in range) — same events, same order, once
each. C12 facts used: only the *definitions* of its lexer model and direct parser; no hypothesis about lexing is left. -/
theorem select_where_text_exact {σ : Type} (env : Env) (f : Nat) (text : Bytes) (e : Lql.Expr) (flt : Pred)
    (I : It σ Event) (rng : Event → Bool) (n : Nat) (s : σ)
    (hp : parseWhereText f text = some e)
    (hb : buildWhere env (some (trExpr e)) = .ok flt)
    (hex : Exhausts I n s) (hwf : ∀ ev ∈ drainIt I n s, Fields.WF ev.fields)
    (g k : Nat) (hg : n + 1 ≤ g) (hk : n + 1 ≤ k) :
    drain I flt rng g k (new s) = (drainIt I n s).filter (fun ev => evalParsed env e ev && rng ev) := by
  obtain ⟨toks, _, hd⟩ := text_tokens f text e hp
  exact select_where_exact env f toks e flt I rng n s hd hb hex hwf g k hg hk

/-- **…and for the printed form of every expression of the image.** For every expression `e` the parser can produce
(`wfExpr`) with lexable atoms (`laExpr`: operands identifier-shaped, operators symbolic or keyword-shaped, values whose
`strconv.Quote` text is one String token that unquotes back), of any nesting depth: the text `printExpr e` (what
`Expression.String()` prints, what a pipe stores as its filter) is read back as `e` itself, and if the builder accepts
it the filtering iterator delivers `filter (meaning of e ∧ in range)`. C12 facts used: `lex_printExpr` (its obligation
`lexable_expr`) and `dExpr_toks` (its `token_roundtrip_expr`). -/
theorem select_where_printed_exact {σ : Type} (env : Env) (e : Lql.Expr) (flt : Pred)
    (I : It σ Event) (rng : Event → Bool) (n : Nat) (s : σ)
    (hw : Lql.wfExpr e = true) (hl : Lql.laExpr e = true)
    (hb : buildWhere env (some (trExpr e)) = .ok flt)
    (hex : Exhausts I n s) (hwf : ∀ ev ∈ drainIt I n s, Fields.WF ev.fields)
    (g k : Nat) (hg : n + 1 ≤ g) (hk : n + 1 ≤ k) :
    parseWhereText (Lql.szExpr e) (Lql.printExpr e) = some e ∧
    drain I flt rng g k (new s) = (drainIt I n s).filter (fun ev => evalParsed env e ev && rng ev) :=
  ⟨print_parse_where e hw hl,
   select_where_text_exact env _ _ e flt I rng n s (print_parse_where e hw hl) hb hex hwf g k hg hk⟩

/-- **Rejection at text level**: a text read as `e` gets a filter if and only if `e` has a meaning; otherwise the
builder reports an error (never a filter that is true). -/
theorem where_text_rejects (env : Env) (f : Nat) (text : Bytes) (e : Lql.Expr)
    (_hp : parseWhereText f text = some e) :
    (∃ err, buildWhere env (some (trExpr e)) = .error err) ↔ supported env (trExpr e) = false :=
  where_rejects env (trExpr e)

/-- a text the lexer model or the parser rejects yields no expression at all (so no filter is ever built from it) -/
theorem unlexable_text_no_filter (f : Nat) (text : Bytes) (h : Lql.lex text = none) :
    parseWhereText f text = none := by
  simp [parseWhereText, h]

/-! ### non-vacuity -/

/-- `msg CONTAINS "a" AND ts < "10" OR NOT fields:a = "x" AND msg PREFIX "b"` as C12's AST -/
def exW : Lql.Expr :=
  .mk (.cons (.mk (.cons (.cond false cA) (.cons (.cond false cB) .nil)))
      (.cons (.mk (.cons (.cond true cC) (.cons (.cond false cD) .nil))) .nil))

example : Lql.wfExpr exW = true ∧ Lql.laExpr exW = true := by decide +kernel
example : (buildWhere env0 (some (trExpr exW))).toBool = true := by decide
/-- the printed text, character by character (`Expression.String()` puts a blank before every condition) -/
example : Lql.printExpr exW = Go.ofAscii " msg CONTAINS \"a\" AND  ts < \"10\" OR  NOT fields:a = \"x\" AND  msg PREFIX \"b\"" := by
  decide +kernel
example : parseWhereText (Lql.szExpr exW) (Lql.printExpr exW) = some exW :=
  print_parse_where exW (by decide +kernel) (by decide +kernel)
/-- all hypotheses of `select_where_printed_exact` are met by `exW` over a three-event list iterator -/
example : ∃ flt, buildWhere env0 (some (trExpr exW)) = .ok flt ∧
    drain (listIt Event) flt (fun _ => true) 4 4 (new ⟨[ev0, ev1, ev0], 0, false, false⟩) =
      [ev0, ev1, ev0].filter (fun ev => evalParsed env0 exW ev && true) := by
  have hok : (buildWhere env0 (some (trExpr exW))).toBool = true := by decide
  cases hb : buildWhere env0 (some (trExpr exW)) with
  | error err => rw [hb] at hok; cases hok
  | ok flt =>
    refine ⟨flt, rfl, ?_⟩
    have hd := listIt_drain_fwd [ev0, ev1, ev0] 3 0 (by decide)
    have h := (select_where_printed_exact env0 exW flt (listIt Event) (fun _ => true) 3 ⟨[ev0, ev1, ev0], ((0 : Nat) : Int), false, false⟩
      (by decide +kernel) (by decide +kernel) hb (listIt_exhausts_fwd [ev0, ev1, ev0] 3 0 (by decide))
      (by rw [hd]; intro ev hev; simp at hev; rcases hev with rfl | rfl | rfl <;> decide) 4 4 (by omega) (by omega)).2
    rw [hd] at h
    simpa using h
/-- a text that is not printer output (lower-case keywords, no leading blank, extra blanks) is still covered by
`select_where_text_exact`: the model reads it -/
example : (parseWhereText 40 (Go.ofAscii "msg contains \"a\"  and  not ts<\"10\"")).isSome = true := by decide +kernel

end Logrange.Props.C05Text
