import Logrange.Proofs.PipeLts
import Logrange.Generated.C10
/-!
# C10 — Pipes copy exactly the matching events, once, in order, with provenance

Property theorems only (model: `Logrange/Model/PipeLts.lean`, lemmas: `Logrange/Proofs/PipeLts.lean`).
The model's configuration is what the extractor reads from `/repo` now (`Generated.C10`).
-/
namespace Logrange.Props.C10
open Logrange.PipeLts

/-- the pipe LTS configured by the facts regenerated from the source -/
def cfgNow : Cfg :=
  { chanCap := Generated.C10.weChanCap
    dropOnCreate := Generated.C10.createDropsCache
    dropOnDelete := Generated.C10.deleteDropsCache
    applyFilter := Generated.C10.filterAppliedBySourceIterator
    rearm := Generated.C10.workerDoneRearms
    saveOnCreate := Generated.C10.createSavesRegistry
    saveOnDelete := Generated.C10.deleteSavesRegistry
    saveOnShutdown := Generated.C10.shutdownSavesRegistry
    startChecksPipe := Generated.C10.startWorkerChecksPipeAlive }

/-- structural facts the shape of the model relies on (each is re-read from the source on every run) -/
theorem model_shape_facts :
    Generated.C10.workerSavesAfterWrite = true ∧ Generated.C10.writePublishesAfterLoop = true ∧
    Generated.C10.startWorkerCondition = true ∧ Generated.C10.saveStatePersists = true ∧
    Generated.C10.deleteCancelsWorkers = true ∧ Generated.C10.provenanceFromSourceTags = true ∧
    Generated.C10.saveStateWritesFileUnderLock = true := by decide

/-- **Copy invariant** (all interleavings of writes, notifications in any order, worker steps, creation, deletion,
shutdown and restart; any number of sources, batch sizes and steps): the events of the pipe partition that were copied
from source `s` are exactly the stored records of `s` from the descriptor's start position up to the worker's cursor
— each once, in stored order — passed through `siterator` (provenance appended), and nothing of `s` is in the pipe
partition while the pipe has no descriptor for it. -/
theorem pipe_copy_inv (n : Nat) (l : Nat → Bool) (p : Nat → Bytes) (f : Ev → Bool) (o : Bool) (ls : List Label) (s : Nat) :
    let st := run cfgNow (init n l p f o) ls
    ((st.srcs s).desc = none → proj s st.dest = []) ∧
    (∀ d, (st.srcs s).desc = some d →
      d.start ≤ d.pos ∧ d.pos ≤ curOf (st.srcs s) d ∧ curOf (st.srcs s) d ≤ (st.srcs s).log.length ∧
      proj s st.dest = (sel cfgNow st.flt (slice (st.srcs s).log d.start (curOf (st.srcs s) d))).map (addProv (st.srcs s).prov)) := by
  intro st
  have _facts := model_shape_facts
  have hg : GInv cfgNow st := run_ginv cfgNow _ ls (ginv_init cfgNow n l p f o)
  constructor
  · intro hd; exact ((hg.1 s).1 hd).1
  · intro d hd
    obtain ⟨a1, a2, a3, _, _, a6, _, _⟩ := (hg.1 s).2 d hd
    exact ⟨a1, a2, a3, a6⟩

/-- what `siterator` does to an event: timestamp and message unchanged, the source's tags appended as fields -/
theorem provenance_only_appends (prov : Bytes) (e : Ev) :
    (addProv prov e).ts = e.ts ∧ (addProv prov e).msg = e.msg ∧ (addProv prov e).fields = e.fields ++ prov := by
  simp [addProv]

/-- the copy invariant in the words of the property for the code as it is now (the pipe's source iterator applies
the filter — repair f08ebbf of finding F09) and a worker that is not between its write and its `saveState`: the pipe
holds, of source `s`, exactly the records of `[start, Pos)` **for which the filter is true**, once, in stored order. -/
theorem pipe_copy_exactly_once_in_order (n : Nat) (l : Nat → Bool) (p : Nat → Bytes) (f : Ev → Bool) (o : Bool)
    (ls : List Label) (s : Nat) (d : Desc) :
    let st := run cfgNow (init n l p f o) ls
    (st.srcs s).desc = some d → (∀ c, (st.srcs s).wk ≠ .written c) →
    proj s st.dest = ((slice (st.srcs s).log d.start d.pos).filter st.flt).map (addProv (st.srcs s).prov) := by
  intro st hd hw
  have h := ((pipe_copy_inv n l p f o ls s).2 d hd).2.2.2
  have hc : curOf (st.srcs s) d = d.pos := by
    unfold curOf; split
    · rename_i c hc; exact absurd hc (hw c)
    · rfl
  have hf : cfgNow.applyFilter = true := by decide
  rw [hc] at h
  simpa [sel, hf] using h

/-- **Only accepted events are copied** (F09 repaired): every event the pipe partition holds of source `s` is a
stored event of `s` that satisfies the filter, with the provenance appended. -/
theorem pipe_copies_only_accepted (n : Nat) (l : Nat → Bool) (p : Nat → Bytes) (f : Ev → Bool) (o : Bool)
    (ls : List Label) (s : Nat) (e : Ev) :
    let st := run cfgNow (init n l p f o) ls
    e ∈ proj s st.dest → ∃ e0, e0 ∈ (st.srcs s).log ∧ st.flt e0 = true ∧ e = addProv (st.srcs s).prov e0 := by
  intro st he
  have hf : cfgNow.applyFilter = true := by decide
  cases hd : (st.srcs s).desc with
  | none =>
    have := (pipe_copy_inv n l p f o ls s).1 hd
    rw [this] at he; cases he
  | some d =>
    have h := ((pipe_copy_inv n l p f o ls s).2 d hd).2.2.2
    rw [h] at he
    simp only [sel, hf, if_true, List.mem_map, List.mem_filter] at he
    obtain ⟨e0, ⟨hm, hflt⟩, rfl⟩ := he
    refine ⟨e0, ?_, hflt, rfl⟩
    unfold slice at hm
    exact List.mem_of_mem_drop (List.mem_of_mem_take hm)

/-- **The saved position passes rejected events**: a copy step moves the worker's cursor over everything it saw —
`min (c + k) (stored)` — whatever the filter let through, and the following `saveState` stores that position. So a run
of rejected events at the end of a source is read once, not again at every wake-up or after a restart. -/
theorem position_passes_rejected (st : State) (s k c : Nat) (hwk : (st.srcs s).wk = .opened c)
    (hlive : st.pipe = .live) (hcl : st.closed = false) :
    ∃ st', step cfgNow st (.wcopy s k) = some st' ∧ (st'.srcs s).wk = .written (min (c + k) (st.srcs s).log.length) := by
  have hs : step cfgNow st (.wcopy s k) = some
      { st with dest := st.dest ++ (sel cfgNow st.flt (slice (st.srcs s).log c (min (c + k) (st.srcs s).log.length))).map
                  (fun e => (s, addProv (st.srcs s).prov e)),
                srcs := upd st.srcs s { st.srcs s with wk := .written (min (c + k) (st.srcs s).log.length) } } := by
    simp [step, hwk, hlive, hcl]
  exact ⟨_, hs, by simp⟩

/-- **No stranded data** (also the pipe clause of C11): after every step, a descriptor whose `Pos` is behind
`LastKnwnPos` has a charged worker — unless the service is shutting down, the pipe is deleted (since 69cc67a `startWorker`
tests the pipe's own context: a deleted pipe starts no worker, see `deleted_pipe_starts_no_worker`), or the descriptor
was loaded by a restart from a stop that was not quiescent (`stale`) and has not been notified since. -/
theorem no_stranded_data (n : Nat) (l : Nat → Bool) (p : Nat → Bytes) (f : Ev → Bool) (o : Bool) (ls : List Label)
    (s : Nat) (d : Desc) :
    let st := run cfgNow (init n l p f o) ls
    (st.srcs s).desc = some d →
    st.closed = true ∨ st.pipe = .deleted ∨ d.charged = true ∨ ¬ d.pos < d.lastKnown ∨ d.stale = true := by
  intro st hd
  have hre : cfgNow.rearm = true := by decide
  have h0 : NS cfgNow (init n l p f o) := by intro s d h; simp [init] at h
  have h := run_ns cfgNow hre _ ls (ginv_init cfgNow n l p f o) h0 s d hd
  rcases h with h | h
  · simp only [noStart, Bool.or_eq_true, Bool.and_eq_true, beq_iff_eq] at h
    rcases h with h | h
    · exact Or.inl h
    · exact Or.inr (Or.inl h.2)
  · exact Or.inr (Or.inr h)

/-- the same for a live pipe, in the words of the property: data behind `LastKnwnPos` has a worker -/
theorem no_stranded_data_live (n : Nat) (l : Nat → Bool) (p : Nat → Bytes) (f : Ev → Bool) (o : Bool) (ls : List Label)
    (s : Nat) (d : Desc) :
    let st := run cfgNow (init n l p f o) ls
    (st.srcs s).desc = some d → st.pipe = .live →
    st.closed = true ∨ d.charged = true ∨ ¬ d.pos < d.lastKnown ∨ d.stale = true := by
  intro st hd hl
  rcases no_stranded_data n l p f o ls s d hd with h | h | h
  · exact Or.inl h
  · rw [hl] at h; cases h
  · exact Or.inr h

/-- a charged descriptor has a live worker goroutine, and only a charged one has -/
theorem charged_iff_worker (n : Nat) (l : Nat → Bool) (p : Nat → Bytes) (f : Ev → Bool) (o : Bool) (ls : List Label)
    (s : Nat) (d : Desc) :
    let st := run cfgNow (init n l p f o) ls
    (st.srcs s).desc = some d → (d.charged = false ↔ (st.srcs s).wk = .none) := by
  intro st hd
  have hg : GInv cfgNow st := run_ginv cfgNow _ ls (ginv_init cfgNow n l p f o)
  exact ((hg.1 s).2 d hd).2.2.2.1

/-- **Deleting the pipe stops the copying**: once the pipe is deleted (and, as `DeletePipe` saves the registry, gone from
`pipes.dat`) no step changes its partition, and it stays deleted — also across shutdown and restart. -/
theorem delete_stops (st st' : State) (lb : Label) (hdel : st.pipe = .deleted) (hreg : st.reg = false)
    (hs : step cfgNow st lb = some st') :
    st'.dest = st.dest ∧ st'.pipe = .deleted ∧ st'.reg = false := by
  have _fact : Generated.C10.deleteCancelsWorkers = true := by decide
  cases lb with
  | write s b =>
    simp only [step] at hs; split at hs
    · cases hs
    · simp only [Option.some.injEq] at hs; subst hs; exact ⟨rfl, hdel, hreg⟩
  | enqueue i =>
    simp only [step] at hs; split at hs
    · cases hs
    · split at hs
      · cases hs
      · simp only [Option.some.injEq] at hs; subst hs; exact ⟨rfl, hdel, hreg⟩
  | notify =>
    simp only [step] at hs; split at hs
    · cases hs
    · split at hs
      · cases hs
      · split at hs <;> (simp only [Option.some.injEq] at hs; subst hs; exact ⟨rfl, hdel, hreg⟩)
  | wopen s =>
    simp only [step] at hs; split at hs
    · simp only [Option.some.injEq] at hs; subst hs; exact ⟨rfl, hdel, hreg⟩
    · cases hs
  | wcopy s k =>
    simp only [step] at hs; split at hs
    · split at hs
      · cases hs
      · rename_i hg; simp [hdel] at hg
    · cases hs
  | wsave s =>
    simp only [step] at hs; split at hs
    · simp only [Option.some.injEq] at hs; subst hs; exact ⟨rfl, hdel, hreg⟩
    · cases hs
  | wtimeout s =>
    simp only [step] at hs; split at hs
    · simp only [Option.some.injEq] at hs; subst hs; exact ⟨rfl, hdel, hreg⟩
    · simp only [Option.some.injEq] at hs; subst hs; exact ⟨rfl, hdel, hreg⟩
    · cases hs
  | wdone s =>
    simp only [step] at hs; split at hs
    · simp only [Option.some.injEq] at hs; subst hs; exact ⟨rfl, hdel, hreg⟩
    · cases hs
  | create =>
    simp only [step] at hs; split at hs
    · cases hs
    · rename_i hg; simp [hdel] at hg
  | delete =>
    simp only [step] at hs; split at hs
    · cases hs
    · rename_i hg; simp [hdel] at hg
  | shutdown =>
    simp only [step] at hs; split at hs
    · cases hs
    · simp only [Option.some.injEq] at hs; subst hs; exact ⟨rfl, hdel, hreg⟩
  | halt =>
    simp only [step] at hs; split at hs
    · simp only [Option.some.injEq] at hs; subst hs
      refine ⟨rfl, hdel, ?_⟩
      simp [hdel, hreg]
    · cases hs
  | restart =>
    simp only [step] at hs; split at hs
    · simp only [Option.some.injEq] at hs; subst hs
      refine ⟨rfl, ?_, hreg⟩
      simp [hreg, hdel]
    · cases hs

/-- the same along a whole trace -/
theorem delete_stops_forever (st : State) (ls : List Label) (hdel : st.pipe = .deleted) (hreg : st.reg = false) :
    (run cfgNow st ls).dest = st.dest := by
  induction ls generalizing st with
  | nil => rfl
  | cons lb ls ih =>
    simp only [run]
    cases hs : step cfgNow st lb with
    | none => exact ih st hdel hreg
    | some st' =>
      obtain ⟨h1, h2, h3⟩ := delete_stops st st' lb hdel hreg hs
      simp only []
      rw [ih st' h2 h3, h1]

/-! ### the registry file -/

/-- **The registry file agrees with the registry** (repairs 9273e4f: `CreatePipe` and `DeletePipe` save it; `Shutdown`
saves it too): in every reachable state `pipes.dat` lists the pipe iff it is live. -/
theorem registry_file_matches (n : Nat) (l : Nat → Bool) (p : Nat → Bytes) (f : Ev → Bool) (o : Bool) (ls : List Label) :
    let st := run cfgNow (init n l p f o) ls
    st.reg = (st.pipe == .live) := by
  intro st
  have hc : cfgNow.saveOnCreate = true := by decide
  have hd : cfgNow.saveOnDelete = true := by decide
  have hsd : cfgNow.saveOnShutdown = true := by decide
  suffices h : ∀ (st0 : State), st0.reg = (st0.pipe == .live) → (run cfgNow st0 ls).reg = ((run cfgNow st0 ls).pipe == .live) from
    h _ (by simp [init])
  induction ls with
  | nil => intro st0 h0; simpa [run] using h0
  | cons lb ls ih =>
    intro st0 h0
    simp only [run]
    cases hs : step cfgNow st0 lb with
    | none => exact ih st0 h0
    | some st1 =>
      apply ih st1
      cases lb with
      | write s b =>
        simp only [step] at hs; split at hs
        · cases hs
        · simp only [Option.some.injEq] at hs; subst hs; exact h0
      | enqueue i =>
        simp only [step] at hs; split at hs
        · cases hs
        · split at hs
          · cases hs
          · simp only [Option.some.injEq] at hs; subst hs; exact h0
      | notify =>
        simp only [step] at hs; split at hs
        · cases hs
        · split at hs
          · cases hs
          · split at hs <;> (simp only [Option.some.injEq] at hs; subst hs; exact h0)
      | wopen s =>
        simp only [step] at hs; split at hs
        · simp only [Option.some.injEq] at hs; subst hs; exact h0
        · cases hs
      | wcopy s k =>
        simp only [step] at hs; split at hs
        · split at hs
          · cases hs
          · simp only [Option.some.injEq] at hs; subst hs; exact h0
        · cases hs
      | wsave s =>
        simp only [step] at hs; split at hs
        · simp only [Option.some.injEq] at hs; subst hs; exact h0
        · cases hs
      | wtimeout s =>
        simp only [step] at hs; split at hs
        · simp only [Option.some.injEq] at hs; subst hs; exact h0
        · simp only [Option.some.injEq] at hs; subst hs; exact h0
        · cases hs
      | wdone s =>
        simp only [step] at hs; split at hs
        · simp only [Option.some.injEq] at hs; subst hs; exact h0
        · cases hs
      | create =>
        simp only [step] at hs; split at hs
        · cases hs
        · simp only [Option.some.injEq] at hs; subst hs; simp [hc]
      | delete =>
        simp only [step] at hs; split at hs
        · cases hs
        · simp only [Option.some.injEq] at hs; subst hs; simp [hd]
      | shutdown =>
        simp only [step] at hs; split at hs
        · cases hs
        · simp only [Option.some.injEq] at hs; subst hs; exact h0
      | halt =>
        simp only [step] at hs; split at hs
        · simp only [Option.some.injEq] at hs; subst hs; simp [hsd]
        · cases hs
      | restart =>
        simp only [step] at hs; split at hs
        · simp only [Option.some.injEq] at hs; subst hs
          simp only []
          cases hp : st0.pipe <;> simp [h0, hp]
        · cases hs

/-- **The registry survives every restart**: a restart step never changes which pipe exists — a live pipe stays live,
a deleted one stays deleted (it does not come back and copy again), an absent one stays absent. -/
theorem registry_survives_restart (n : Nat) (l : Nat → Bool) (p : Nat → Bytes) (f : Ev → Bool) (o : Bool) (ls : List Label)
    (st' : State) :
    let st := run cfgNow (init n l p f o) ls
    step cfgNow st .restart = some st' → st'.pipe = st.pipe ∧ st'.reg = st.reg := by
  intro st hs
  have hreg := registry_file_matches n l p f o ls
  simp only [step] at hs; split at hs
  · simp only [Option.some.injEq] at hs; subst hs
    refine ⟨?_, rfl⟩
    simp only []
    have h0 : st.reg = (st.pipe == .live) := hreg
    cases hp : st.pipe <;> simp [h0, hp]
  · cases hs

/-! ### against the property's specification -/

/-- The property at full strength: in every reachable quiescent state of a running service, the pipe partition
holds for every source exactly the events written to it after the pipe's creation that satisfy `S` and `F`,
provenance appended, once, in stored order. **False for the code as it is** — see the counterexamples (racing first writes, F10; a notification lost at shutdown); the filter clause holds since the repair of F09. -/
def C10_full : Prop :=
  ∀ (n : Nat) (l : Nat → Bool) (p : Nat → Bytes) (f : Ev → Bool) (o : Bool) (ls : List Label) (s : Nat),
    let st := run cfgNow (init n l p f o) ls
    quiescent st = true → st.closed = false → st.pipe = .live → proj s st.dest = specProj st s

/-- **Partial**: the specification — *including the filter* — holds for a source under two explicit hypotheses: the
descriptor started at the pipe's creation point (class of F10: the first *notified* batch defines the start) and the last
processed notification is that of the last write (notifications not overtaken; no restart from a non-quiescent stop).
The hypothesis "F is true on the source" of the earlier version is gone with the repair of F09. -/
theorem pipe_spec_partial (n : Nat) (l : Nat → Bool) (p : Nat → Bytes) (f : Ev → Bool) (o : Bool) (ls : List Label)
    (s : Nat) (d : Desc) :
    let st := run cfgNow (init n l p f o) ls
    quiescent st = true → st.closed = false → st.pipe = .live → s < st.n →
    (st.srcs s).desc = some d → (st.srcs s).listens = true →
    d.start = (st.srcs s).createdAt →
    d.lastKnown = (st.srcs s).log.length → d.stale = false →
    proj s st.dest = specProj st s := by
  intro st hq hcl hlive hsn hd hl hstart hlk hst
  have hg : GInv cfgNow st := run_ginv cfgNow _ ls (ginv_init cfgNow n l p f o)
  obtain ⟨a1, a2, a3, a4, _, _, _, _⟩ := (hg.1 s).2 d hd
  have hidle : (st.srcs s).wk = .none := by
    simp only [quiescent, Bool.and_eq_true] at hq
    exact allIdle_spec st hq.2 s hsn
  have hch : d.charged = false := a4.mpr hidle
  have hns := no_stranded_data_live n l p f o ls s d hd hlive
  have hpos : d.pos = (st.srcs s).log.length := by
    simp only [curOf, hidle] at a2 a3
    rcases hns with h | h | h | h
    · rw [hcl] at h; cases h
    · rw [hch] at h; cases h
    · omega
    · rw [hst] at h; cases h
  have hcopy := pipe_copy_exactly_once_in_order n l p f o ls s d hd (by intro c hc; rw [hidle] at hc; cases hc)
  rw [hcopy]
  unfold specProj
  simp only [hl, if_true]
  have hsl : slice (st.srcs s).log d.start d.pos = (st.srcs s).log.drop (st.srcs s).createdAt := by
    unfold slice; rw [hstart, hpos]
    apply List.take_of_length_le; simp
  rw [hsl]

/-! ### counterexamples (kernel-evaluated runs of the model configured as the code is now) -/

def evA : Ev := ⟨1, [97], []⟩
def evB : Ev := ⟨2, [98], []⟩
/-- `where msg != "a"` -/
def fltNotA : Ev → Bool := fun e => e.msg != [97]
def prov0 : Bytes := [1, 120, 1, 49]

/-- the whole life of one batch: write, publish, notify, worker opens, copies, saves, times out, is done -/
def copyCycle : List Label := [.wopen 0, .wcopy 0 100, .wsave 0, .wtimeout 0, .wdone 0]

/-- **F09 repaired** (regression witness, formerly `cex_filter_ignored`): a pipe with filter `msg != "a"`; the source
receives an event with message `a` and one with `b` after the creation. The run ends quiescent and the pipe partition
holds exactly what the specification demands — the event the filter accepts; the saved position is past both. -/
theorem filter_applied_witness :
    let st := run cfgNow (init 1 (fun _ => true) (fun _ => prov0) fltNotA false)
      ([.create, .write 0 [evA, evB], .enqueue 0, .notify] ++ copyCycle)
    quiescent st = true ∧ proj 0 st.dest = [addProv prov0 evB] ∧ specProj st 0 = [addProv prov0 evB] ∧
      (st.srcs 0).desc.map (·.pos) = some 2 := by
  decide

/-- a run of rejected events at the end of the source, a clean restart, more rejected events, then an accepted one:
nothing is copied until the accepted event, which arrives once; the position follows the stored count throughout. -/
theorem rejected_tail_witness :
    let st1 := run cfgNow (init 1 (fun _ => true) (fun _ => prov0) fltNotA false)
      ([.create, .write 0 [evA, evA, evA], .enqueue 0, .notify] ++ copyCycle)
    let st2 := run cfgNow st1 ([.shutdown, .halt, .restart, .write 0 [evA, evA], .enqueue 0, .notify] ++ copyCycle)
    let st3 := run cfgNow st2 ([.write 0 [evB], .enqueue 0, .notify] ++ copyCycle)
    (st1.dest = [] ∧ (st1.srcs 0).desc.map (·.pos) = some 3) ∧
    (st2.dest = [] ∧ (st2.srcs 0).desc.map (·.pos) = some 5) ∧
    (st3.dest = [(0, addProv prov0 evB)] ∧ (st3.srcs 0).desc.map (·.pos) = some 6 ∧ proj 0 st3.dest = specProj st3 0) := by
  decide

/-- **F10**: two writers' first batches to a new source; the second writer's notification is published first.
The descriptor starts at the second batch, the first batch is never copied although everything is quiescent. -/
theorem cex_first_notification_reordered :
    let st := run cfgNow (init 1 (fun _ => true) (fun _ => prov0) (fun _ => true) false)
      ([.create, .write 0 [evA], .write 0 [evB], .enqueue 1, .enqueue 0, .notify, .notify] ++ copyCycle)
    quiescent st = true ∧ proj 0 st.dest = [addProv prov0 evB] ∧ specProj st 0 = [addProv prov0 evA, addProv prov0 evB] := by
  decide

/-- a first-ever batch whose notification is still queued at a clean shutdown is never copied after the restart
(only a later write re-creates the descriptor, starting at *that* write) -/
theorem cex_notification_lost_at_shutdown :
    let st := run cfgNow (init 1 (fun _ => true) (fun _ => prov0) (fun _ => true) false)
      ([.create, .write 0 [evA], .enqueue 0, .shutdown, .halt, .restart, .write 0 [evB], .enqueue 0, .notify] ++ copyCycle)
    quiescent st = true ∧ proj 0 st.dest = [addProv prov0 evB] := by
  decide

/-- **F79**: a clean stop while the pipe is behind. The second batch is stored and notified, the worker is cancelled by
the shutdown before it copies it, `workerDone`, the stop completes; after the restart the state is quiescent and running, the
descriptor stands at `Pos = 1` behind two stored events, nobody is charged (`newPPipe` starts no worker) — the pipe
partition lacks the event until some later write to that source arrives (which then makes a worker copy everything). -/
theorem cex_restart_strands_data :
    let st := run cfgNow (init 1 (fun _ => true) (fun _ => prov0) (fun _ => true) false)
      [.create, .write 0 [evA], .enqueue 0, .notify, .wopen 0, .wcopy 0 9, .wsave 0, .write 0 [evB], .enqueue 0, .notify,
       .shutdown, .wtimeout 0, .wdone 0, .halt, .restart]
    let st' := run cfgNow st ([.write 0 [evA], .enqueue 0, .notify] ++ copyCycle)
    (quiescent st = true ∧ st.closed = false ∧ st.down = false ∧ st.pipe = .live ∧
      (st.srcs 0).desc.map (fun d => (d.pos, d.charged)) = some (1, false) ∧ (st.srcs 0).log.length = 2 ∧
      proj 0 st.dest = [addProv prov0 evA] ∧ specProj st 0 = [addProv prov0 evA, addProv prov0 evB]) ∧
    (proj 0 st'.dest = specProj st' 0 ∧ (proj 0 st'.dest).length = 3) := by
  decide

theorem c10_full_false : ¬ C10_full := by
  intro h
  have h1 := h 1 (fun _ => true) (fun _ => prov0) (fun _ => true) false
    ([.create, .write 0 [evA], .write 0 [evB], .enqueue 1, .enqueue 0, .notify, .notify] ++ copyCycle) 0
  obtain ⟨c1, c2, c3⟩ := cex_first_notification_reordered
  have := h1 c1 (by decide) (by decide)
  rw [c2, c3] at this
  exact absurd this (by decide)

/-- **A graceful stop never duplicates and never loses a position — quiescent or not.** `Shutdown` waits for the workers
(`wwg.Wait()`): `halt` is enabled only when every worker has run `workerDone`, and a worker always calls `saveState` after
its `Journals.Write` returned (no context check in between). So for *any* reachable state in which the stop completes —
notifications may still be queued, descriptors may be behind `LastKnwnPos` — and the restart that follows:
the pipe partition is untouched; what it holds of a source is exactly the accepted records of `[start, Pos)`; a descriptor
that has copied anything comes back with the same `Pos` and the same start (so copying resumes exactly there: no
duplicate, no loss); a descriptor that does not come back (never saved) had copied nothing. What a non-quiescent stop
*can* cost is outside this statement: queued notifications are gone and data behind `LastKnwnPos` waits for the next
write (`cex_notification_lost_at_shutdown`, ghost `stale`). -/
theorem restart_no_dup_no_loss (n : Nat) (l : Nat → Bool) (p : Nat → Bytes) (f : Ev → Bool) (o : Bool)
    (ls : List Label) (st1 st2 : State) (s : Nat) :
    let st := run cfgNow (init n l p f o) ls
    step cfgNow st .halt = some st1 → step cfgNow st1 .restart = some st2 →
    st2.dest = st.dest ∧
    (∀ d, (st.srcs s).desc = some d →
      proj s st.dest = ((slice (st.srcs s).log d.start d.pos).filter st.flt).map (addProv (st.srcs s).prov) ∧
      (d.start < d.pos → ∃ d', (st2.srcs s).desc = some d' ∧ d'.pos = d.pos ∧ d'.start = d.start) ∧
      ((st2.srcs s).desc = none → d.pos = d.start ∧ proj s st.dest = [])) := by
  intro st hh hr
  have hg : GInv cfgNow st := run_ginv cfgNow _ ls (ginv_init cfgNow n l p f o)
  simp only [step] at hh
  split at hh
  · rename_i hgd
    simp only [Bool.and_eq_true, Bool.not_eq_true'] at hgd
    simp only [Option.some.injEq] at hh; subst hh
    simp only [step, if_true, Option.some.injEq] at hr; subst hr
    refine ⟨rfl, ?_⟩
    intro d hd
    have hwk : (st.srcs s).wk = .none := by
      by_cases e : s < st.n
      · exact allIdle_spec st hgd.2 s e
      · have := hg.2.2.1 s (by omega); rw [hd] at this; cases this
    have hcopy := pipe_copy_exactly_once_in_order n l p f o ls s d hd (by intro c hc; rw [hwk] at hc; cases hc)
    obtain ⟨_, _, _, _, _, _, a7, a8⟩ := (hg.1 s).2 d hd
    refine ⟨hcopy, ?_, ?_⟩
    · intro hlt
      cases hsv : (st.srcs s).saved with
      | none => have := a8 hsv; omega
      | some sv =>
        obtain ⟨c1, c2⟩ := a7 sv hsv
        refine ⟨{ sv with charged := false, stale := decide (sv.pos < sv.lastKnown) }, ?_, c1, c2⟩
        simp [hsv]
    · intro hnone
      cases hsv : (st.srcs s).saved with
      | none =>
        have hps := a8 hsv
        refine ⟨hps, ?_⟩
        rw [hcopy, hps, slice_self]; rfl
      | some sv => simp [hsv] at hnone
  · cases hh

/-- what a **crash** (not part of the LTS: the process dies at an arbitrary reachable state) leaves for the next start:
descriptors come back from the positions file, nothing else survives -/
def crashRestart (st : State) : State :=
  { st with
    down := false
    closed := false
    chan := []
    pend := []
    cache := (fun _ => none)
    srcs := (fun s =>
      { st.srcs s with
        wk := Wk.none
        desc := (st.srcs s).saved.map (fun d => { d with charged := false, stale := decide (d.pos < d.lastKnown) }) }) }

/-- **The duplicate window, exactly**: at any reachable state the position a crash would restore for a source (the saved
`Pos`; a descriptor never saved has `Pos = start`) is the descriptor's `Pos`, the pipe partition holds the accepted
records of `[start, c)` with `Pos ≤ c`, and `c ≠ Pos` only while the source's worker is between the return of its
`Journals.Write` and its `saveState` (`wk = written c`). So a crash **loses nothing** and duplicates **at most the one
batch** `[Pos, c)` of each worker that was in that window; outside the window (`c = Pos`) nothing is duplicated. A graceful
stop is never in the window (`restart_no_dup_no_loss`). -/
theorem crash_duplicates_at_most_one_batch (n : Nat) (l : Nat → Bool) (p : Nat → Bytes) (f : Ev → Bool) (o : Bool)
    (ls : List Label) (s : Nat) (d : Desc) :
    let st := run cfgNow (init n l p f o) ls
    (st.srcs s).desc = some d →
    ∃ c, d.pos ≤ c ∧ c ≤ (st.srcs s).log.length ∧
      proj s st.dest = ((slice (st.srcs s).log d.start c).filter st.flt).map (addProv (st.srcs s).prov) ∧
      (c ≠ d.pos → (st.srcs s).wk = .written c) ∧
      (∀ d', ((crashRestart st).srcs s).desc = some d' → d'.pos = d.pos ∧ d'.start = d.start) ∧
      (((crashRestart st).srcs s).desc = none → d.pos = d.start) := by
  intro st hd
  have hg : GInv cfgNow st := run_ginv cfgNow _ ls (ginv_init cfgNow n l p f o)
  have hf : cfgNow.applyFilter = true := by decide
  obtain ⟨_, a2, a3, _, _, a6, a7, a8⟩ := (hg.1 s).2 d hd
  refine ⟨curOf (st.srcs s) d, a2, a3, by simpa [sel, hf] using a6, ?_, ?_, ?_⟩
  · intro hne
    cases hw : (st.srcs s).wk with
    | written c => simp [curOf, hw]
    | _ => simp [curOf, hw] at hne
  · intro d' hd'
    simp only [crashRestart] at hd'
    cases hsv : (st.srcs s).saved with
    | none => simp [hsv] at hd'
    | some sv =>
      simp only [hsv, Option.map_some, Option.some.injEq] at hd'; subst hd'
      exact a7 sv hsv
  · intro hnone
    simp only [crashRestart] at hnone
    cases hsv : (st.srcs s).saved with
    | none => exact a8 hsv
    | some sv => simp [hsv] at hnone

/-! ### a deleted pipe starts no worker (finding F49, repaired by 69cc67a) -/

/-- `startWorker` with its first conjunct false starts nothing -/
theorem startWorker_noStart (σ : SrcSt) (d : Desc) : startWorker true σ d = { σ with desc := some d } := by
  simp [startWorker]

/-- **After `DeletePipe` no worker is started for the pipe** (`startWorker` tests `pp.clsCtx`, fact
`startWorkerChecksPipeAlive`): in a state with the pipe deleted, no step puts a source's worker into `starting` — neither a
late notification through a stale cache entry nor `workerDone` with data behind `LastKnwnPos`. A worker that was running
leaves (`wtimeout`), runs `workerDone`, and that was the last of it: the busy loop of finding F49 is gone. -/
theorem deleted_pipe_starts_no_worker (st st' : State) (lb : Label) (s : Nat) (hdel : st.pipe = .deleted)
    (hs : step cfgNow st lb = some st') (hw : (st'.srcs s).wk = .starting) : (st.srcs s).wk = .starting := by
  have hns : noStart cfgNow st = true := by
    have hc : cfgNow.startChecksPipe = true := by decide
    simp [noStart, hc, hdel]
  have key : ∀ (σ' : SrcSt) (t : Nat), σ'.wk ≠ .starting ∨ σ'.wk = (st.srcs t).wk →
      (upd st.srcs t σ' s).wk = .starting → (st.srcs s).wk = .starting := by
    intro σ' t h hh
    by_cases e : s = t
    · subst e; simp only [upd_self] at hh
      rcases h with h | h
      · exact absurd hh h
      · rw [← h]; exact hh
    · rw [upd_ne _ _ _ _ e] at hh; exact hh
  cases lb with
  | write t b =>
    simp only [step] at hs; split at hs
    · cases hs
    · simp only [Option.some.injEq] at hs; subst hs
      exact key { st.srcs t with log := (st.srcs t).log ++ b } t (Or.inr rfl) hw
  | enqueue i =>
    simp only [step] at hs; split at hs
    · cases hs
    · split at hs
      · cases hs
      · simp only [Option.some.injEq] at hs; subst hs; exact hw
  | notify =>
    simp only [step] at hs; split at hs
    · cases hs
    · split at hs
      · cases hs
      · rename_i we rest hch
        split at hs
        · simp only [Option.some.injEq] at hs; subst hs
          refine key _ we.src (Or.inr ?_) hw
          rw [hns]; unfold onWriteEvent
          cases (st.srcs we.src).desc <;> simp [startWorker_noStart]
        · simp only [Option.some.injEq] at hs; subst hs; exact hw
  | wopen t =>
    simp only [step] at hs; split at hs
    · simp only [Option.some.injEq] at hs; subst hs; exact key _ t (Or.inl (by simp)) hw
    · cases hs
  | wcopy t k =>
    simp only [step] at hs; split at hs
    · split at hs
      · cases hs
      · rename_i hg; simp [hdel] at hg
    · cases hs
  | wsave t =>
    simp only [step] at hs; split at hs
    · rename_i c d hwk hd
      simp only [Option.some.injEq] at hs; subst hs
      simp only [] at hw
      exact key _ t (Or.inl (by simp)) hw
    · cases hs
  | wtimeout t =>
    simp only [step] at hs; split at hs
    · simp only [Option.some.injEq] at hs; subst hs; exact key _ t (Or.inl (by simp)) hw
    · simp only [Option.some.injEq] at hs; subst hs; exact key _ t (Or.inl (by simp)) hw
    · cases hs
  | wdone t =>
    simp only [step] at hs; split at hs
    · simp only [Option.some.injEq] at hs; subst hs
      refine key _ t (Or.inl ?_) hw
      rw [hns]; split <;> simp [startWorker_noStart]
    · cases hs
  | create =>
    simp only [step] at hs; split at hs
    · cases hs
    · rename_i hg; simp [hdel] at hg
  | delete =>
    simp only [step] at hs; split at hs
    · cases hs
    · rename_i hg; simp [hdel] at hg
  | shutdown =>
    simp only [step] at hs; split at hs
    · cases hs
    · simp only [Option.some.injEq] at hs; subst hs; exact hw
  | halt =>
    simp only [step] at hs; split at hs
    · simp only [Option.some.injEq] at hs; subst hs; exact hw
    · cases hs
  | restart =>
    simp only [step] at hs; split at hs
    · simp only [Option.some.injEq] at hs; subst hs; exact hw
    · cases hs

/-- **F49 repaired** (regression witness, formerly `cex_deleted_pipe_respawns_workers`): the pipe is deleted while its
descriptor is behind `LastKnwnPos` and a worker runs; the worker leaves, `workerDone` clears `wCharged` and starts nobody;
the respawn round is not enabled any more and nothing was copied. -/
theorem deleted_pipe_quiesces_witness :
    let st0 := run cfgNow (init 1 (fun _ => true) (fun _ => prov0) (fun _ => true) false)
      [.create, .write 0 [evA], .enqueue 0, .notify, .wopen 0, .delete]
    let st1 := run cfgNow st0 [.wtimeout 0, .wdone 0]
    (st0.srcs 0).desc.map (fun d => (d.pos, d.lastKnown, d.charged)) = some (0, 1, true) ∧
    (st1.srcs 0).wk = .none ∧ (st1.srcs 0).desc.map (fun d => (d.pos, d.lastKnown, d.charged)) = some (0, 1, false) ∧
    (step cfgNow st1 (.wopen 0)).isNone = true ∧ (step cfgNow st1 (.wtimeout 0)).isNone = true ∧
    (step cfgNow st1 (.wdone 0)).isNone = true ∧ allIdle st1 = true ∧ st1.dest = [] := by
  decide

/-! ### deletion and re-creation under one name (finding F74) -/

/-- **F74 repaired** (84f34ca): `DeletePipe` runs the deleted pipe's clean-up (cancel, removal of the positions file) itself,
before it acknowledges, and `saveState` refuses for a deleted pipe — so once `DeletePipe` has returned the positions file is
gone for good and a pipe created under the same name afterwards starts from nothing. The LTS has one incarnation per name;
this obligation pins the two regenerated facts (one-sided: it breaks if either is lost); the behaviour is the harness' section
`lifecycle` (parked, free-running, escaped names, churn). -/
theorem f74_window_closed :
    Generated.C10.deleteCleansUpBeforeAcknowledging = true ∧ Generated.C10.saveStateRefusesDeletedPipe = true := by
  decide

/-! ### record sizes (finding F52) -/

theorem varintLen_mono (a b : Nat) (h : a ≤ b) : varintLen a ≤ varintLen b := by
  unfold varintLen
  repeat' split
  all_goals omega

/-- **The copy is longer than the source record**: with a non-empty provenance the journal record of the copied event
has the source record's size plus the provenance bytes, plus the length prefix of the field list when the source event
had no fields of its own (and possibly a longer prefix otherwise). -/
theorem copy_record_grows (prov : Bytes) (e : Ev) (hp : prov ≠ []) :
    recSize e + prov.length ≤ recSize (addProv prov e) := by
  have hne : (e.fields ++ prov).isEmpty = false := by
    cases h : e.fields <;> cases hq : prov <;> simp_all
  simp only [recSize, addProv, hne, List.length_append]
  have hm := varintLen_mono e.fields.length (e.fields.length + prov.length) (by omega)
  split <;> simp_all <;> omega

/-- exact size of the copy -/
theorem copy_record_size (prov : Bytes) (e : Ev) (hp : prov ≠ []) :
    recSize (addProv prov e) =
      1 + 8 + varintLen e.msg.length + e.msg.length +
        (varintLen (e.fields.length + prov.length) + (e.fields.length + prov.length)) := by
  have hne : (e.fields ++ prov).isEmpty = false := by
    cases h : e.fields <;> cases hq : prov <;> simp_all
  simp [recSize, addProv, hne, List.length_append]

/-- a source event whose record has 297 bytes (message of 286 bytes, no fields) and the provenance of `{app=a1,grp=g1}`
(14 bytes of binary fields) -/
def evBig : Ev := ⟨2, List.replicate 286 120, []⟩
def prov14 : Bytes := [3, 97, 112, 112, 2, 97, 49, 3, 103, 114, 112, 2, 103, 49]

set_option maxRecDepth 16384 in
/-- **F52**: nothing in the copy path looks at the record size (the LTS copies every accepted event: `pipe_copy_inv`). A
source record that fits `MaxRecordSize = 300` (297 bytes) is copied into a record of 312 bytes: the run ends quiescent with
that record in the pipe partition — which the journal's readers cannot serve. -/
theorem cex_copy_exceeds_max_record_size :
    let st := run cfgNow (init 1 (fun _ => true) (fun _ => prov14) (fun _ => true) false)
      ([.create, .write 0 [evA, evBig, evB], .enqueue 0, .notify] ++ copyCycle)
    quiescent st = true ∧ recSize evBig = 297 ∧ (proj 0 st.dest).map recSize = [26, 312, 26] ∧
      (proj 0 st.dest) = specProj st 0 := by
  decide

/-! ### non-vacuity -/

/-- a run with two sources, interleaved workers and a restart, ending with both sources fully copied -/
example :
    let st := run cfgNow (init 2 (fun _ => true) (fun s => [s.toUInt8]) (fun _ => true) false)
      [.create, .write 0 [evA], .write 1 [evB], .enqueue 0, .enqueue 0, .notify, .notify, .wopen 1, .wopen 0, .wcopy 1 5,
       .wcopy 0 5, .wsave 0, .wsave 1, .write 0 [evB], .enqueue 0, .notify, .wcopy 0 1, .wsave 0, .wtimeout 0, .wtimeout 1,
       .wdone 0, .wdone 1, .shutdown, .halt, .restart]
    st.dest = [(1, addProv [1] evB), (0, addProv [0] evA), (0, addProv [0] evB)] ∧ quiescent st = true ∧
      ((st.srcs 0).desc.map (·.pos)) = some 2 := by
  decide

/-- a NON-quiescent graceful stop: a second batch is stored and notified, the worker is cancelled before it copies it
(`wtimeout` = its context ended), `workerDone`, the stop completes with a third batch's notification still queued; after
the restart the descriptor is back at `Pos = 1`, the pipe partition still holds exactly the first event, and the next
notification makes a worker copy everything that is stored: nothing twice, nothing lost -/
example :
    let st := run cfgNow (init 1 (fun _ => true) (fun _ => prov0) (fun _ => true) false)
      [.create, .write 0 [evA], .enqueue 0, .notify, .wopen 0, .wcopy 0 9, .wsave 0, .write 0 [evB], .enqueue 0, .notify,
       .write 0 [evA], .enqueue 0, .shutdown, .wtimeout 0, .wdone 0, .halt, .restart]
    let st' := run cfgNow st ([.write 0 [evB], .enqueue 0, .notify] ++ copyCycle)
    (st.dest = [(0, addProv prov0 evA)] ∧ (st.srcs 0).desc.map (fun d => (d.pos, d.start, d.stale)) = some (1, 0, false)) ∧
    (proj 0 st'.dest = [evA, evB, evA, evB].map (addProv prov0) ∧ proj 0 st'.dest = specProj st' 0) := by
  decide

/-- the duplicate window: a crash between `Journals.Write` and `saveState` restores `Pos = 0` although the pipe partition
already holds the batch `[0, 2)` — exactly that batch will be copied again -/
example :
    let st := run cfgNow (init 1 (fun _ => true) (fun _ => prov0) (fun _ => true) false)
      [.create, .write 0 [evA, evB], .enqueue 0, .notify, .wopen 0, .wcopy 0 9]
    (st.srcs 0).wk = .written 2 ∧ st.dest.length = 2 ∧ ((crashRestart st).srcs 0).desc = none ∧
      (st.srcs 0).desc.map (·.pos) = some 0 := by
  decide

/-- the registry through create, restart, delete, restart -/
example :
    let st := run cfgNow (init 1 (fun _ => true) (fun _ => prov0) (fun _ => true) false)
      [.create, .shutdown, .halt, .restart, .delete, .shutdown, .halt, .restart, .write 0 [evA], .enqueue 0, .notify]
    st.pipe = .deleted ∧ st.reg = false ∧ st.dest = [] := by
  decide

/-- the hypotheses of `pipe_spec_partial` are met by a run that copies two batches -/
example :
    let st := run cfgNow (init 1 (fun _ => true) (fun _ => prov0) (fun _ => true) false)
      ([.write 0 [evB], .enqueue 0, .notify, .create, .write 0 [evA], .enqueue 0, .notify] ++ copyCycle)
    quiescent st = true ∧ (st.srcs 0).desc = some ⟨2, 2, false, 1, false⟩ ∧ (st.srcs 0).createdAt = 1 ∧
      proj 0 st.dest = specProj st 0 := by
  decide

/-- a deleted pipe with a worker still charged: no step copies any more -/
example :
    let st := run cfgNow (init 1 (fun _ => true) (fun _ => prov0) (fun _ => true) false)
      [.create, .write 0 [evA], .enqueue 0, .notify, .wopen 0, .delete, .wcopy 0 5, .write 0 [evB], .enqueue 0, .notify]
    st.pipe = .deleted ∧ st.dest = [] := by
  decide

end Logrange.Props.C10
