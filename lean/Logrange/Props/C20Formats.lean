import Logrange.Proofs.DateFirstMatch
import Logrange.Generated.C20
/-!
# C20 — every format of both regenerated lists: round trip, own expression, first match

Part of the property theorems of C20 (same namespace as `Props/C20.lean`, which imports this file). Everything here is
about the **regenerated** lists and terms; the `decide +kernel` theorems are evaluations by the Lean kernel.
-/
namespace Logrange.Props.C20
open Logrange.Date Logrange.Generated

def gterms : List Term := C20.terms
def colFmts : List CFormat := C20.collectorFormats.map (compile gterms C20.regexpLeftGuard)
def lqlFmts : List CFormat := C20.lqlFormats.map (compile gterms C20.regexpLeftGuard)
def gadj : Adjust := { year := C20.formatParseAdjustsYear, date := C20.formatParseAdjustsDate }
def gcfg : LqlCfg :=
  { lower := C20.lqlLowerCases, trim := C20.lqlTrimsBlanks, fmtLower := C20.lqlLowerCases && C20.lqlFormatsSeeLowerCased, adj := gadj }

/-- all 127 entries of both lists -/
def allFmts : List CFormat := colFmts ++ lqlFmts

/-! ## (1) + (2): every format parses its own text back, and its own expression returns the whole text -/

/-- for EVERY entry of both lists: the layout is well formed for the round trip (`ParseWF`: nothing that could follow an
element in the text can be mistaken for part of it) and on every shape of the format's texts the first match of its own
expression, in priority order, is the whole text (`ownMatchD`, the exact matcher on shapes). Kernel evaluation. -/
theorem all_formats_own_ok : allFmts.all ownOK = true := by decide +kernel

/-- **`format_parse_fields` for every format of both lists and every layout element they use** (`Jan January Mon Monday 1 2 _2
3 03 04 05 06 15 2006 PM .999999999 -0700 -07:00 MST`): the text of any valid instant (years 1000..2999, fraction of 3..9
digits, zone offset of whole minutes, three-letter zone abbreviation) is parsed back by the format's layout to Go's
epilogue of exactly the fields the layout carries, and that parse succeeds. -/
theorem format_parse_fields_all (cf : CFormat) (hcf : cf ∈ allFmts) (i : XInst) (hi : ValidX i) :
    ∃ txt c, renderLayout cf.layout i = some txt ∧ parseLayout cf.layout txt = .ok c ∧ projectX cf.layout i = .ok c := by
  have hown := List.all_eq_true.mp all_formats_own_ok cf hcf
  have hwf : ParseWF cf.layout = true := by simp only [ownOK, Bool.and_eq_true] at hown; exact hown.1
  obtain ⟨txt, ht, hp⟩ := render_parse_all cf.layout hwf i hi
  obtain ⟨c, hc⟩ := projectX_ok cf.layout i hi
  exact ⟨txt, c, ht, by rw [hp, hc], hc⟩

/-- **`own_regexp_matches` for every format of both lists**: the expression `NewParser` derives for the format, searched
unanchored in the format's own text, returns the whole text — for every valid instant. -/
theorem own_regexp_matches (cf : CFormat) (hcf : cf ∈ allFmts) (i : XInst) (hi : ValidX i) :
    ∃ txt r, renderLayout cf.layout i = some txt ∧ cf.rx = some r ∧ find r txt = some txt := by
  obtain ⟨txt, _, ht, _, _⟩ := format_parse_fields_all cf hcf i hi
  obtain ⟨r, hr, hf, _⟩ := own_regexp_whole (List.all_eq_true.mp all_formats_own_ok cf hcf) hi ht
  exact ⟨txt, r, ht, hr, hf⟩

/-- so a format alone (`date.NewParser(fmt)`) accepts its own text and gives the fields it carries -/
theorem format_alone_correct (cf : CFormat) (hcf : cf ∈ allFmts) (i : XInst) (hi : ValidX i) (adj : Adjust) (now : Now) :
    ∃ txt c, renderLayout cf.layout i = some txt ∧ projectX cf.layout i = .ok c ∧
      formatParse adj cf now txt = adjustRes adj cf now c := by
  obtain ⟨txt, c, ht, hp, hc⟩ := format_parse_fields_all cf hcf i hi
  obtain ⟨r, hr, _, hf⟩ := own_regexp_whole (List.all_eq_true.mp all_formats_own_ok cf hcf) hi ht
  exact ⟨txt, c, ht, hc, formatParse_of_find hr hf hp⟩

/-! ## (3): which formats are claimed by themselves — a verified checker instead of a sweep -/

/-- collector formats whose texts no earlier format's expression can match anywhere (shape abstraction, `findSG`). The list
depends on the tree: with the repair F19s (left guard in `NewParser` + AM/PM formats before the 24-hour formats they
extend: `regexpLeftGuard = true`) 43 of 59, before it 37 of 59. -/
def cleanCollector : List Nat :=
  if C20.regexpLeftGuard then
    [0, 1, 2, 3, 4, 5, 6, 8, 9, 10, 11, 12, 13, 17, 19, 21, 22, 23, 25, 27, 28, 31, 33, 35, 36, 37, 38, 39, 40, 41, 42, 43,
     44, 45, 46, 47, 48, 49, 50, 51, 52, 53, 54]
  else
    [0, 1, 2, 3, 4, 5, 6, 8, 9, 10, 11, 12, 17, 19, 22, 23, 25, 35, 36, 37, 38, 39, 40, 41, 42, 43, 44, 45, 46, 47, 48, 49,
     50, 51, 52, 53, 54]

/-- the other collector formats: some earlier expression may match inside their text. On the repaired tree these are only
(a) *twins* — the earlier format differs in digit widths and reads the same fields from the text (7 after 6, 14 15 16 after
13, 18 after 17, 20 after 19, 24 after 23, 26 after 25, 29 30 after 28, 32 after 31, 34 after 33, 56 after 55, 58 after
57) and (b) texts in which the unescaped `.` of `MM.DD.YYYY` / `MM.DD.YY` (53, 54) matches a `:` (55 56 57 58), whose layout
then rejects the match: decided by the sweep. Before the repair the 11 formats of the 34 recorded shadowing classes
(16 20 21 27 … 34) are here too. -/
def unclearCollector : List Nat :=
  if C20.regexpLeftGuard then [7, 14, 15, 16, 18, 20, 24, 26, 29, 30, 32, 34, 55, 56, 57, 58]
  else [7, 13, 14, 15, 16, 18, 20, 21, 24, 26, 27, 28, 29, 30, 31, 32, 33, 34, 55, 56, 57, 58]

def cleanLql : List Nat :=
  if C20.regexpLeftGuard then
    [0, 1, 2, 3, 4, 5, 6, 8, 9, 10, 11, 12, 13, 17, 19, 21, 22, 23, 25, 27, 28, 31, 33, 35, 36, 37, 38, 39, 40, 41, 42, 43,
     44, 45, 46, 47, 48, 49, 50, 51, 52, 53, 54, 61, 64, 67]
  else
    [0, 1, 2, 3, 4, 5, 6, 8, 9, 10, 11, 12, 17, 19, 22, 23, 25, 35, 36, 37, 38, 39, 40, 41, 42, 43, 44, 45, 46, 47, 48, 49,
     50, 51, 52, 53, 54, 61, 64, 67]

def unclearLql : List Nat :=
  if C20.regexpLeftGuard then [7, 14, 15, 16, 18, 20, 24, 26, 29, 30, 32, 34, 55, 56, 57, 58, 59, 60, 62, 63, 65, 66]
  else [7, 13, 14, 15, 16, 18, 20, 21, 24, 26, 27, 28, 29, 30, 31, 32, 33, 34, 55, 56, 57, 58, 59, 60, 62, 63, 65, 66]

theorem clean_collector_checked : cleanCollector.all (cleanIdx colFmts) = true := by decide +kernel
theorem clean_lql_checked : cleanLql.all (cleanIdx lqlFmts) = true := by decide +kernel

/-- the two index lists partition each format list, and the second is exactly where the checker does not succeed -/
theorem clean_lists_partition :
    (cleanCollector ++ unclearCollector).length = colFmts.length ∧ (cleanLql ++ unclearLql).length = lqlFmts.length ∧
    (List.range 59).all (fun k => cleanCollector.contains k != unclearCollector.contains k) = true ∧
    (List.range 68).all (fun k => cleanLql.contains k != unclearLql.contains k) = true := by decide +kernel

theorem unclear_not_clean : unclearCollector.all (fun k => !cleanIdx colFmts k) = true ∧
    unclearLql.all (fun k => !cleanIdx lqlFmts k) = true := by decide +kernel

/-- before the repair every recorded shadowing class (known_findings.d/C20.json: 17 collector + 17 LQL classes over these 11
formats) is among the unclear ones — none of the formats proved correct is a recorded deviation; with the repair there is
no recorded class -/
theorem recorded_classes_unclear : (C20.regexpLeftGuard || [16, 20, 21, 27, 28, 29, 30, 31, 32, 33, 34].all
    (fun k => unclearCollector.contains k && unclearLql.contains k)) = true := by decide +kernel

/-- **no shadowing among the heads of the families, on the repaired tree**: with F19s every format that used to be claimed by
an earlier, unrelated format — `D/M/YYYY hh:mm:ss P` (now 12), `D/M/YYYY hh:mm P` (17), `YYYY/MM/DD HH:mm:ss.SSS` (27),
`YYYY/MM/DD HH:mm:ss` (28), `YYYY/MM/DD HH:mm` (31), `YYYY/MM/DD` (33) — is in the clean list of both tables, i.e. proved
correct for every instant by `C20_collector` / `C20_lql`; their digit-width twins are claimed by those heads with the same
fields (tested). A table edit that re-introduces such a shadow removes the index from the checked list and breaks
`clean_collector_checked` / this obligation. -/
theorem no_shadowing_heads : (!C20.regexpLeftGuard || [12, 17, 27, 28, 31, 33].all
    (fun k => cleanCollector.contains k && cleanLql.contains k)) = true := by decide +kernel

/-- the clean formats all carry a year or are time-only, and their texts are safe LQL literals (no blank at either end, no
leading `-`, a digit inside) -/
theorem clean_side_conditions :
    cleanCollector.all (fun k => match colFmts[k]? with | some ck => ck.noDate || ck.hasYear | none => false) = true ∧
    cleanLql.all (fun k => match lqlFmts[k]? with
      | some ck => (ck.noDate || ck.hasYear) && (symLayout ck.layout).all lqlShapeOK | none => false) = true := by
  decide +kernel

/-- the instant a claimed text denotes after `Format.Parse`'s defaulting: today for a time-only format -/
def adjC (adj : Adjust) (cf : CFormat) (now : Now) (c : Civil) : Civil :=
  if cf.noDate then (if adj.date then adjustDate now c else c) else c

theorem adjustRes_ok {adj : Adjust} {cf : CFormat} {now : Now} {c : Civil} (h : (cf.noDate || cf.hasYear) = true) :
    adjustRes adj cf now c = .ok (adjC adj cf now c) := by
  simp only [adjustRes, adjC]
  cases hn : cf.noDate with
  | true => simp; split <;> rfl
  | false =>
    rw [hn] at h
    have : cf.hasYear = true := by simpa using h
    simp [this]

theorem cleanIdx_some {fmts : List CFormat} {k : Nat} (h : cleanIdx fmts k = true) : ∃ ck, fmts[k]? = some ck := by
  simp only [cleanIdx] at h
  cases hk : fmts[k]? with
  | none => rw [hk] at h; cases h
  | some ck => exact ⟨ck, rfl⟩

/-! ## (4): the headline -/

/-- **C20 for the collector list.** For every format index in `cleanCollector` (43 of 59 with the repair F19s, 37 before) and EVERY valid instant: the
default parser, given the text of the instant in that format alone, answers with that very format and the fields the
format carries (UTC without a zone; today's date for a time-only format). No sweep, no sample: all instants. -/
theorem C20_collector (k : Nat) (hk : k ∈ cleanCollector) (i : XInst) (hi : ValidX i) (now : Now) :
    ∃ ck txt c, colFmts[k]? = some ck ∧ renderLayout ck.layout i = some txt ∧ projectX ck.layout i = .ok c ∧
      parseFirst gadj colFmts now txt = .ok k (adjC gadj ck now c) := by
  have hclean := List.all_eq_true.mp clean_collector_checked k hk
  obtain ⟨ck, hck⟩ := cleanIdx_some hclean
  have hmem : ck ∈ allFmts := List.mem_append_left _ (List.mem_of_getElem? hck)
  have hown := List.all_eq_true.mp all_formats_own_ok ck hmem
  obtain ⟨txt, c, ht, hc, hpf⟩ := first_match_clean (adj := gadj) (now := now) hck hclean hown i hi
  have hside := List.all_eq_true.mp clean_side_conditions.1 k hk
  rw [hck] at hside
  rw [adjustRes_ok hside] at hpf
  exact ⟨ck, txt, c, hck, ht, hc, hpf⟩

/-- **C20 for LQL literals.** For every format index in `cleanLql` (46 of 68 with the repair F19s, 40 before) and every valid instant:
`parseLqlDateTime`, given the text of the instant in that format, answers with that format and the fields it carries. -/
theorem C20_lql (k : Nat) (hk : k ∈ cleanLql) (i : XInst) (hi : ValidX i) (now : Now) :
    ∃ ck txt c, lqlFmts[k]? = some ck ∧ renderLayout ck.layout i = some txt ∧ projectX ck.layout i = .ok c ∧
      parseLql gcfg lqlFmts now txt = .abs k (adjC gadj ck now c) := by
  have hclean := List.all_eq_true.mp clean_lql_checked k hk
  obtain ⟨ck, hck⟩ := cleanIdx_some hclean
  have hmem : ck ∈ allFmts := List.mem_append_right _ (List.mem_of_getElem? hck)
  have hown := List.all_eq_true.mp all_formats_own_ok ck hmem
  obtain ⟨txt, c, ht, hc, hpf⟩ := first_match_clean (adj := gadj) (now := now) hck hclean hown i hi
  have hside := List.all_eq_true.mp clean_side_conditions.2 k hk
  rw [hck] at hside
  simp only [Bool.and_eq_true] at hside
  rw [adjustRes_ok hside.1] at hpf
  obtain ⟨sh, hsh, hs⟩ := renderLayout_shape ck.layout i hi txt ht
  have hok := List.all_eq_true.mp hside.2 sh hsh
  have hfl : gcfg.fmtLower = false := by decide
  exact ⟨ck, txt, c, hck, ht, hc, parseLql_of_list gcfg hfl lqlFmts now hs hok hpf⟩

/-- what the fields are, on an example (evaluation): `MMM D, YYYY h:mm:ss P` (format 0), 2019-03-11 13:04:05 — the text is
`Mar 11, 2019 1:04:05 PM` and the projected fields are 13:04:05 on 2019-03-11 in the default zone -/
example : let i : XInst := { year := 2019, month := 3, day := 11, hour := 13, min := 4, sec := 5, wd := 1 }
    (colFmts[0]?.map (fun cf => (renderLayout cf.layout i, projectX cf.layout i))) =
      some (some [77, 97, 114, 32, 49, 49, 44, 32, 50, 48, 49, 57, 32, 49, 58, 48, 52, 58, 48, 53, 32, 80, 77],
            .ok ⟨2019, 3, 11, 13, 4, 5, 0, .dflt⟩) := by decide +kernel

/-- …and `YYYY-MM-DDTHH:mm:ss.SSSZZZZ` (format 35) with a 6-digit fraction and offset +05:30:
`2019-03-11T13:04:05.000123+0530` → nanoseconds 123000, zone offset 19800 s -/
def exInst : XInst :=
  { year := 2019, month := 3, day := 11, hour := 13, min := 4, sec := 5, nsec := 123000, wd := 1, fracDigits := 6, offMin := 330 }

example :
    (colFmts[35]?.map (fun cf => (renderLayout cf.layout exInst, projectX cf.layout exInst))) =
      some (some [50, 48, 49, 57, 45, 48, 51, 45, 49, 49, 84, 49, 51, 58, 48, 52, 58, 48, 53, 46, 48, 48, 48, 49, 50, 51, 43, 48, 53, 51, 48],
            .ok ⟨2019, 3, 11, 13, 4, 5, 123000, .offset 19800⟩) := by decide +kernel

end Logrange.Props.C20
