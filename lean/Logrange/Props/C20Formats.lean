import Logrange.Props.C20Parts.OwnCol
import Logrange.Props.C20Parts.OwnLql
import Logrange.Props.C20Parts.IdxCol1
import Logrange.Props.C20Parts.IdxCol2
import Logrange.Props.C20Parts.IdxLql1
import Logrange.Props.C20Parts.IdxLql2
import Logrange.Props.C20Parts.IdxLql3
import Logrange.Props.C20Parts.IdxLql4
/-!
# C20 — every format of both regenerated lists: round trip, own expression, first match — for every valid instant

Part of the property theorems of C20 (same namespace as `Props/C20.lean`, which imports this file). Everything here is
about the **regenerated** lists and terms. The kernel evaluations over the tables live in `Props/C20Parts/*` (one module
per piece, built in parallel); the theorems below lift them to all instants.
-/
namespace Logrange.Props.C20
open Logrange.Date Logrange.Generated

/-! ## the repaired tree is pinned -/

/-- `NewParser` wraps every format's expression in the left guard `(?:^|[^0-9])`: a date never starts inside a digit run
(/repo 6279a73). A revert flips the regenerated fact and breaks this obligation (and the first-match certificates). -/
theorem regexp_left_guard_present : C20.regexpLeftGuard = true := by decide

/-- the AM/PM formats come before the 24-hour formats whose texts they extend, in both lists (/repo 6279a73):
`D/M/YYYY hh:mm:ss P` before `DD/MM/YYYY HH:mm:ss`; `D/M/YYYY hh:mm P` and `D/M/YYYY h:mm P` before `DD/MM/YYYY HH:mm` -/
theorem ampm_formats_come_first :
    [C20.collectorFormats, C20.lqlFormats].all (fun l =>
      l.idxOf [68, 47, 77, 47, 89, 89, 89, 89, 32, 104, 104, 58, 109, 109, 58, 115, 115, 32, 80] <
        l.idxOf [68, 68, 47, 77, 77, 47, 89, 89, 89, 89, 32, 72, 72, 58, 109, 109, 58, 115, 115] &&
      l.idxOf [68, 47, 77, 47, 89, 89, 89, 89, 32, 104, 104, 58, 109, 109, 32, 80] <
        l.idxOf [68, 68, 47, 77, 77, 47, 89, 89, 89, 89, 32, 72, 72, 58, 109, 109] &&
      l.idxOf [68, 47, 77, 47, 89, 89, 89, 89, 32, 104, 58, 109, 109, 32, 80] <
        l.idxOf [68, 68, 47, 77, 77, 47, 89, 89, 89, 89, 32, 72, 72, 58, 109, 109] &&
      l.idxOf [68, 68, 47, 77, 77, 47, 89, 89, 89, 89, 32, 72, 72, 58, 109, 109] < l.length) = true := by decide +kernel

/-! ## (1) + (2): every format parses its own text back, and its own expression returns the whole text -/

theorem all_formats_own_ok : allFmts.all ownOK = true := by
  simp only [allFmts, List.all_append, Bool.and_eq_true]
  refine ⟨col_formats_own_ok, ?_⟩
  rw [List.all_eq_true]
  intro cf hcf
  have := List.all_eq_true.mp lql_formats_own_ok cf hcf
  simp only [Bool.and_eq_true] at this
  exact this.1

/-- **`format_parse_fields` for every format of both lists and every layout element they use** (`Jan January Mon Monday 1 2 _2
3 03 04 05 06 15 2006 PM .999999999 -0700 -07:00 MST`): the text of any valid instant (years 1000..2999, fraction of 3..9
digits, zone offset of whole minutes, three-letter zone abbreviation) is parsed back by the format's layout to Go's
epilogue of exactly the fields the layout carries, and that parse succeeds. -/
theorem format_parse_fields_all (cf : CFormat) (hcf : cf ∈ allFmts) (i : XInst) (hi : ValidX i) :
    ∃ txt c, renderLayout cf.layout i = some txt ∧ parseLayout cf.layout txt = .ok c ∧ projectX cf.layout i = .ok c := by
  have hown := List.all_eq_true.mp all_formats_own_ok cf hcf
  have hwf : ParseWF cf.layout = true := by simp only [ownOK, Bool.and_eq_true] at hown; exact hown.1
  obtain ⟨txt, ht, hp⟩ := render_parse_all cf.layout hwf i hi
  obtain ⟨c, hc⟩ := projectX_ok cf.layout i hi
  exact ⟨txt, c, ht, by rw [hp, hc], hc⟩

/-- **`own_regexp_matches` for every format of both lists**: the expression `NewParser` derives for the format, searched
unanchored in the format's own text, returns the whole text — for every valid instant. -/
theorem own_regexp_matches (cf : CFormat) (hcf : cf ∈ allFmts) (i : XInst) (hi : ValidX i) :
    ∃ txt r, renderLayout cf.layout i = some txt ∧ cf.rx = some r ∧ find r txt = some txt := by
  obtain ⟨txt, _, ht, _, _⟩ := format_parse_fields_all cf hcf i hi
  obtain ⟨r, hr, hf, _⟩ := own_regexp_whole (List.all_eq_true.mp all_formats_own_ok cf hcf) hi ht
  exact ⟨txt, r, ht, hr, hf⟩

/-- so a format alone (`date.NewParser(fmt)`) accepts its own text and gives the fields it carries -/
theorem format_alone_correct (cf : CFormat) (hcf : cf ∈ allFmts) (i : XInst) (hi : ValidX i) (adj : Adjust) (now : Now) :
    ∃ txt c, renderLayout cf.layout i = some txt ∧ projectX cf.layout i = .ok c ∧
      formatParse adj cf now txt = adjustRes adj cf now c := by
  obtain ⟨txt, c, ht, hp, hc⟩ := format_parse_fields_all cf hcf i hi
  obtain ⟨r, hr, _, hf⟩ := own_regexp_whole (List.all_eq_true.mp all_formats_own_ok cf hcf) hi ht
  exact ⟨txt, c, ht, hc, formatParse_of_find hr hf hp⟩

/-! ## (3) + (4): first match — the property for EVERY format of both lists -/

theorem col_idx_ok (k : Nat) (hk : k < colFmts.length) : idxOK colFmts k = true := by
  by_cases h : k < 42
  · exact idxOK_of_range col_idx_ok_1 hk (Nat.zero_le _) h
  · have hlen : colFmts.length < 100000 := by simp [colFmts]; decide
    exact idxOK_of_range col_idx_ok_2 hk (by omega) (by omega)

theorem lql_idx_ok (k : Nat) (hk : k < lqlFmts.length) : idxOK lqlFmts k = true := by
  have hlen : lqlFmts.length < 100000 := by simp [lqlFmts]; decide
  by_cases h1 : k < 36
  · exact idxOK_of_range lql_idx_ok_1 hk (Nat.zero_le _) h1
  · by_cases h2 : k < 52
    · exact idxOK_of_range lql_idx_ok_2 hk (by omega) h2
    · by_cases h3 : k < 62
      · exact idxOK_of_range lql_idx_ok_3 hk (by omega) h3
      · exact idxOK_of_range lql_idx_ok_4 hk (by omega) (by omega)

/-- **C20 for the collector list — every format, every valid instant, text alone.** The default parser, given the text of
the instant in format `k`, answers with exactly the fields format `k` carries (UTC without a zone; the current or previous
year for a year-less format; today's date for a time-only one). The claimant `j'` is format `k` itself or an earlier
digit-width twin that reads the same fields (`DD/MM/YYYY…` claims the two-digit texts of `D/M/YYYY…`). No sweep, no
sample: all instants of `ValidX`. A table edit that re-introduces a shadow breaks `col_idx_ok_*`. -/
theorem C20_collector (k : Nat) (hk : k < colFmts.length) (i : XInst) (hi : ValidX i) (now : Now) :
    ∃ ck txt c j', colFmts[k]? = some ck ∧ renderLayout ck.layout i = some txt ∧ projectX ck.layout i = .ok c ∧ j' ≤ k ∧
      parseFirst gadj colFmts now txt = .ok j' (adjAll gadj ck now c) := by
  have hck : colFmts[k]? = some colFmts[k] := List.getElem?_eq_getElem hk
  have hmem : colFmts[k] ∈ allFmts := List.mem_append_left _ (List.getElem_mem hk)
  have hown := List.all_eq_true.mp all_formats_own_ok _ hmem
  obtain ⟨txt, c, j', ht, hc, hj, hpf⟩ := first_match_agree (adj := gadj) (now := now) hck (col_idx_ok k hk) hown i hi
  exact ⟨_, txt, c, j', hck, ht, hc, hj, hpf⟩

/-- **C20 for LQL literals — every format, every valid instant.** `parseLqlDateTime`, given the text of the instant in
format `k` of the LQL list as an absolute literal, answers with the fields format `k` carries. -/
theorem C20_lql (k : Nat) (hk : k < lqlFmts.length) (i : XInst) (hi : ValidX i) (now : Now) :
    ∃ ck txt c j', lqlFmts[k]? = some ck ∧ renderLayout ck.layout i = some txt ∧ projectX ck.layout i = .ok c ∧ j' ≤ k ∧
      parseLql gcfg lqlFmts now txt = .abs j' (adjAll gadj ck now c) := by
  have hck : lqlFmts[k]? = some lqlFmts[k] := List.getElem?_eq_getElem hk
  have hside := List.all_eq_true.mp lql_formats_own_ok _ (List.getElem_mem hk)
  simp only [Bool.and_eq_true] at hside
  obtain ⟨txt, c, j', ht, hc, hj, hpf⟩ := first_match_agree (adj := gadj) (now := now) hck (lql_idx_ok k hk) hside.1 i hi
  obtain ⟨sh, hsh, hs⟩ := renderLayout_shape lqlFmts[k].layout i hi txt ht
  have hok := List.all_eq_true.mp hside.2 sh hsh
  have hfl : gcfg.fmtLower = false := by decide
  exact ⟨_, txt, c, j', hck, ht, hc, hj, parseLql_of_list gcfg hfl lqlFmts now hs hok hpf⟩

/-- what the fields are, on an example (evaluation): `MMM D, YYYY h:mm:ss P` (format 0), 2019-03-11 13:04:05 — the text is
`Mar 11, 2019 1:04:05 PM` and the projected fields are 13:04:05 on 2019-03-11 in the default zone -/
example : let i : XInst := { year := 2019, month := 3, day := 11, hour := 13, min := 4, sec := 5, wd := 1 }
    (colFmts[0]?.map (fun cf => (renderLayout cf.layout i, projectX cf.layout i))) =
      some (some [77, 97, 114, 32, 49, 49, 44, 32, 50, 48, 49, 57, 32, 49, 58, 48, 52, 58, 48, 53, 32, 80, 77],
            .ok ⟨2019, 3, 11, 13, 4, 5, 0, .dflt⟩) := by decide +kernel

def exInst : XInst :=
  { year := 2019, month := 3, day := 11, hour := 13, min := 4, sec := 5, nsec := 123000, wd := 1, fracDigits := 6, offMin := 330 }

/-- …and `YYYY-MM-DDTHH:mm:ss.SSSZZZZ` (format 35) with a 6-digit fraction and offset +05:30:
`2019-03-11T13:04:05.000123+0530` → nanoseconds 123000, zone offset 19800 s -/
example :
    (colFmts[35]?.map (fun cf => (renderLayout cf.layout exInst, projectX cf.layout exInst))) =
      some (some [50, 48, 49, 57, 45, 48, 51, 45, 49, 49, 84, 49, 51, 58, 48, 52, 58, 48, 53, 46, 48, 48, 48, 49, 50, 51, 43, 48, 53, 51, 48],
            .ok ⟨2019, 3, 11, 13, 4, 5, 123000, .offset 19800⟩) := by decide +kernel

end Logrange.Props.C20
