import Logrange.Proofs.RdRngOffset
import Logrange.Proofs.RdRngFwd
import Logrange.Proofs.RdRngWin
import Logrange.Proofs.RdOffsetBwd
import Logrange.Proofs.RdRngOffsetBwd
/-!
# C16 with RANGE — the forward offset law over the ranged journal iterator

"These hold with RANGE and WHERE applied": `head` with offset +k over a cursor whose leaf is `partition.JIterator` under the
`fiterator` (range re-check + WHERE), and the backward laws `tail − k`, `+k −k` on the same cursor. Input contract as in
`Props/C03Ranged.lean`: `WinSound j lo hi` (every in-range record lies inside its chunk's window; windows may be wider).
Hypotheses of the backward laws as for the un-ranged ones: no chunk id 0 (`PosIds`), at most 2^32 records per chunk
(`bw_ChunkBound`), ids below the `tail` id (`IdsBelowTail`). All on the faithful `crsr.Offset` model (negative branch with the
EOF special case, step loop, direction switches, fiterator cache reset) over the ranged iterator model.
-/
namespace Logrange.Props.C16Ranged
open Logrange.Rd

def fwdAllR (j : Journal) (w : Bool) (lo hi : Option Int) : List Rec := (flat j).filter (passR lo hi w)

/-- from ANY forward state of the ranged one-source cursor standing at index `i` of the admitted records,
`Offset(+k)` leaves exactly the old remaining output without its first `k` matching events -/
theorem offset_forward_ranged (name : Nat) (j : Journal) (w sy : Bool) (lo hi : Option Int) (c : Cur) (i k : Nat)
    (hs : Sorted j) (h : AbsR lo hi name j w sy c i) :
    ∃ i', AbsR lo hi name j w sy (offset c (k : Int)) i' ∧ FLR lo hi j w i' = (FLR lo hi j w i).drop k :=
  ro_offset_pos lo hi rGetFwd rNextFwd hs k h

/-- **head_plus_k with RANGE (and WHERE)**: `head` with offset +k skips exactly the first k matching events — for ALL sorted
journals, chunk layouts, windows sound for the range, k and read lengths. -/
theorem head_plus_k_ranged (name : Nat) (j : Journal) (w : Bool) (lo hi : Option Int) (k n : Nat) (hs : Sorted j)
    (hw : WinSound j lo hi) :
    readN n (offset (applyCorner (mkR lo hi name j w) false) (k : Int)) = ((fwdAllR j w lo hi).drop k).take n := by
  have h0 := rp_head_abs lo hi name j w
  obtain ⟨i', a', f'⟩ := ro_offset_pos lo hi rGetFwd rNextFwd hs k h0
  have hr := (rp_readLoop_abs lo hi rGetFwd rNextFwd hs n _ i' [] a').1
  have hf : FLR lo hi j w 0 = fwdAllR j w lo hi := by
    unfold FLR fwdAllR
    rw [List.drop_zero]
    exact rwn_filter_wflat (hw.toF (f := passR lo hi w) (fun r h => by
      simp only [passR, Bool.and_eq_true] at h; exact h.2))
  unfold readN
  rw [hr, f', hf]; simp

theorem fwdAllR_eq (j : Journal) (w : Bool) (lo hi : Option Int) (hw : WinSound j lo hi) :
    (wflat j).filter (passR lo hi w) = fwdAllR j w lo hi :=
  rwn_filter_wflat (hw.toF (f := passR lo hi w) (fun r h => by
    simp only [passR, Bool.and_eq_true] at h; exact h.2))

/-- from ANY forward state, `Offset(−k)` moves back over `k` matching events (or to the start) -/
theorem offset_backward_ranged (name : Nat) (j : Journal) (w : Bool) (lo hi : Option Int) (c : Cur) (i k : Nat)
    (hs : Sorted j) (hp : PosIds j) (hcb : bw_ChunkBound j) (h : AbsR lo hi name j w false c i) :
    ∃ i', AbsR lo hi name j w false (offset c (-(k : Int))) i' ∧
      FLR lo hi j w i' = (FLR lo hi j w 0).drop (((FLR lo hi j w 0).length - (FLR lo hi j w i).length) - k) :=
  rob_offset_neg lo hi rGetFwd rNextFwd rGetBwd rNextBwd hs hp hcb k h

def tail_minus_k_ranged_stmt : Prop :=
  ∀ (name : Nat) (j : Journal) (w : Bool) (lo hi : Option Int) (k n : Nat), Sorted j → PosIds j → bw_ChunkBound j →
    IdsBelowTail j → WinSound j lo hi →
    readN n (offset (applyCorner (mkR lo hi name j w) true) (-(k : Int))) =
      ((fwdAllR j w lo hi).drop ((fwdAllR j w lo hi).length - k)).take n

/-- **tail_minus_k with RANGE (and WHERE)**: `tail` with offset −k followed by a forward read returns exactly the last k
events of the forward result (all of it if shorter). -/
theorem tail_minus_k_ranged : tail_minus_k_ranged_stmt := by
  intro name j w lo hi k n hs hp hcb ht hw
  rw [rob_tail_minus_k lo hi rGetFwd rNextFwd rGetBwd rNextBwd name j w k n hs hp hcb ht, fwdAllR_eq j w lo hi hw]

def plus_minus_k_ranged_stmt : Prop :=
  ∀ (name : Nat) (j : Journal) (w : Bool) (lo hi : Option Int) (m k n : Nat), Sorted j → PosIds j → bw_ChunkBound j →
    WinSound j lo hi → m + k ≤ (fwdAllR j w lo hi).length →
    readN n (offset (offset (readLoop m (applyCorner (mkR lo hi name j w) false) []).1 (k : Int)) (-(k : Int))) =
      readN n (readLoop m (applyCorner (mkR lo hi name j w) false) []).1

/-- **plus_minus_k with RANGE (and WHERE)**: after any `m` delivered events, `+k` then `−k` (both inside the result) changes
nothing. -/
theorem plus_minus_k_ranged : plus_minus_k_ranged_stmt := by
  intro name j w lo hi m k n hs hp hcb hw hk
  exact rob_plus_minus_k lo hi rGetFwd rNextFwd rGetBwd rNextBwd name j w m k n hs hp hcb
    (by rw [fwdAllR_eq j w lo hi hw]; exact hk)

/-! ### instances evaluated by the kernel -/

def rr (l : Nat) (t : Int) (k : Bool := true) : Rec := { lbl := l, ts := t, keep := k }
/-- windows narrower than the chunks and wider than the range `[12,13]`, an empty chunk, a chunk wholly outside -/
def jw : Journal :=
  [⟨10, [rr 0 10, rr 1 11, rr 2 12 false, rr 3 12, rr 4 13, rr 5 14], 1, 4⟩, ⟨20, [], 0, maxU32⟩,
   ⟨30, [rr 6 14, rr 7 15], maxU32, maxU32⟩, ⟨40, [rr 8 12, rr 9 13, rr 10 20], 0, 1⟩]

theorem head_plus_k_ranged_jw : ∀ w ∈ [false, true], ∀ k ∈ ([0, 1, 2, 3, 4, 5, 6] : List Nat), ∀ n ∈ [1, 3, 9],
    readN n (offset (applyCorner (mkR (some 12) (some 13) 0 jw w) false) (k : Int))
      = ((fwdAllR jw w (some 12) (some 13)).drop k).take n := by decide +kernel

theorem tail_minus_k_ranged_jw : ∀ w ∈ [false, true], ∀ k ∈ ([0, 1, 2, 3, 4, 5, 6] : List Nat), ∀ n ∈ [1, 3, 9],
    readN n (offset (applyCorner (mkR (some 12) (some 13) 0 jw w) true) (-(k : Int)))
      = ((fwdAllR jw w (some 12) (some 13)).drop ((fwdAllR jw w (some 12) (some 13)).length - k)).take n := by
  decide +kernel

theorem plus_minus_k_ranged_jw : ∀ w ∈ [false, true], ∀ m ∈ ([0, 1, 2] : List Nat), ∀ k ∈ ([0, 1, 2] : List Nat), ∀ n ∈ [1, 9],
    readN n (offset (offset (readLoop m (applyCorner (mkR (some 12) (some 13) 0 jw w) false) []).1 (k : Int)) (-(k : Int)))
      = readN n (readLoop m (applyCorner (mkR (some 12) (some 13) 0 jw w) false) []).1 := by decide +kernel

end Logrange.Props.C16Ranged
