import Logrange.Props.C20Parts.LineSep
import Logrange.Props.C20Formats
/-!
# C20 — the text of an instant **at the start of a log line read by the collector**

`Format.Parse` searches the whole line, and `parser.Parse` asks the formats in list order, not the line in position order: what
follows the timestamp can change the answer. This file says exactly when it cannot (`C20_collector_line`) and exhibits the
other cases on the model (the harness reproduces each on the real parser, sections `sweep-col` / `linesep`).

* **Proved** — separator byte `c` that no atom of any format's expression can consume (`isLineSep`: control bytes incl. TAB
  and newline, `! " # $ % & ' ( ) * ; < = > ? @ [ \ ] ^ _ \` { | } ~`, bytes ≥ 0x7f; the unescaped `.` of `.SSS` and
  `MM.DD.YYYY` consumes any byte but must be followed by a digit), a rest of the line that does not begin with a digit, and in
  which no format up to the text's own finds a date: the answer is the answer for the text alone, for every format of the
  collector list and every valid instant.
* **Counterexamples (kernel-evaluated)** for the separators the expressions can consume (blank `,` `:` `/` `-` `+`, letters,
  digits): a format that is a prefix of another plus trailing text (`YYYY-MM-DD` + ` 12:00:00 x`), a second date later in
  the line, a fraction followed by a digit; and the harmless variant: ` INFO` after the seconds is read as a zone abbreviation of
  offset 0 (another claimant, the same instant).
-/
namespace Logrange.Props.C20
open Logrange.Date Logrange.Generated

theorem line_separator_inert (c : UInt8) (h : isLineSep c = true) (cf : CFormat) (hcf : cf ∈ allFmts) : fmtInert c cf = true := by
  have hb : (!isLineSep c || allFmts.all (fmtInert c)) = true := by
    have hc : c = UInt8.ofNat c.toNat := by simp
    rw [hc]
    exact (List.all_eq_true.mp line_separators_table) c.toNat (List.mem_range.mpr c.toNat_lt)
  rw [h] at hb
  have h2 : allFmts.all (fmtInert c) = true := by simpa using hb
  exact List.all_eq_true.mp h2 cf hcf

/-- **C20 at the start of a log line (collector list), every format, every valid instant**: the text of the instant in format
`k`, followed by a separator of `isLineSep` and a rest of the line `w` that does not begin with a digit and in which no format
up to `k` finds a date (`noDateInRest`), is answered by the default parser with exactly the fields format `k` carries — the
answer for the text alone (`C20_collector`). -/
theorem C20_collector_line (k : Nat) (hk : k < colFmts.length) (i : XInst) (hi : ValidX i) (now : Now)
    (c : UInt8) (w : Bytes) (hc : isLineSep c = true) (hw : noDigitHead w = true) (hrest : noDateInRest colFmts k c w) :
    ∃ ck txt cv j', colFmts[k]? = some ck ∧ renderLayout ck.layout i = some txt ∧ projectX ck.layout i = .ok cv ∧ j' ≤ k ∧
      parseFirst gadj colFmts now (txt ++ c :: w) = .ok j' (adjAll gadj ck now cv) := by
  have hck : colFmts[k]? = some colFmts[k] := List.getElem?_eq_getElem hk
  have hmem : colFmts[k] ∈ allFmts := List.mem_append_left _ (List.getElem_mem hk)
  have hown := List.all_eq_true.mp all_formats_own_ok _ hmem
  have hsep : sepInert colFmts k c = true := by
    simp only [sepInert, List.all_eq_true]
    intro cf hcf
    have := line_separator_inert c hc cf (List.mem_append_left _ (List.mem_of_mem_take hcf))
    exact this
  obtain ⟨txt, cv, j', ht, hcv, hj, hpf⟩ :=
    first_match_line (adj := gadj) (now := now) hck (col_idx_ok k hk) hown i hi c w hsep hw hrest
  exact ⟨_, txt, cv, j', hck, ht, hcv, hj, hpf⟩

/-- non-vacuity (evaluation): `2019-03-11 12:00:00` + TAB + `INFO [main] request served in 35 ms` — TAB is a separator, the rest
does not begin with a digit, and the formats up to 49 find nothing in it; the line is dated as the text alone -/
example :
    isLineSep 9 = true ∧
    noDigitHead [73, 78, 70, 79, 32, 91, 109, 97, 105, 110, 93, 32, 114, 101, 113, 117, 101, 115, 116, 32, 115, 101, 114, 118, 101, 100, 32, 105, 110, 32, 51, 53, 32, 109, 115] = true ∧
    ((colFmts.take 50).all (fun cf => match cf.rx with
      | some r => findFrom cf.guard r false [73, 78, 70, 79, 32, 91, 109, 97, 105, 110, 93, 32, 114, 101, 113, 117, 101, 115, 116, 32, 115, 101, 114, 118, 101, 100, 32, 105, 110, 32, 51, 53, 32, 109, 115] == none
      | none => false)) = true ∧
    parseFirst gadj colFmts lnow ([50, 48, 49, 57, 45, 48, 51, 45, 49, 49, 32, 49, 50, 58, 48, 48, 58, 48, 48] ++ [9, 73, 78, 70, 79, 32, 91, 109, 97, 105, 110, 93, 32, 114, 101, 113, 117, 101, 115, 116, 32, 115, 101, 114, 118, 101, 100, 32, 105, 110, 32, 51, 53, 32, 109, 115])
      = .ok 49 ⟨2019, 3, 11, 12, 0, 0, 0, .dflt⟩ := by decide +kernel

/-! ## what the theorem excludes, on the model -/

/-- the blank, `,`, `:`, `/`, `-`, `+` are consumed by some format's expression: not separators in the sense above -/
theorem blank_is_not_inert : [32, 43, 44, 45, 47, 58].all (fun c => !isLineSep c) = true := by decide

/-- **a format that is a prefix of another**: `2019-03-11` (format `YYYY-MM-DD`, 52; alone: midnight) followed by ` 12:00:00 x`
is the text of `YYYY-MM-DD HH:mm:ss` (49): noon. Inherent: the line IS a text of format 49 at the start of a line. -/
theorem cex_line_prefix_format :
    parseFirst gadj colFmts lnow [50, 48, 49, 57, 45, 48, 51, 45, 49, 49] = .ok 52 ⟨2019, 3, 11, 0, 0, 0, 0, .dflt⟩ ∧
    parseFirst gadj colFmts lnow ([50, 48, 49, 57, 45, 48, 51, 45, 49, 49] ++ [32, 49, 50, 58, 48, 48, 58, 48, 48, 32, 120])
      = .ok 49 ⟨2019, 3, 11, 12, 0, 0, 0, .dflt⟩ := by decide +kernel

/-- **a second date later in the line wins when its format comes earlier in the list** (finding F-C20-901): `2019-03-11`, TAB,
`see 2018-01-01 10:00:00 for details` is dated 2018-01-01 10:00:00 by format 49 — `parser.Parse` asks the formats in list
order and each searches the whole line. (`noDateInRest` fails for this rest.) -/
theorem cex_line_later_date_wins :
    parseFirst gadj colFmts lnow ([50, 48, 49, 57, 45, 48, 51, 45, 49, 49] ++ [9, 115, 101, 101, 32, 50, 48, 49, 56, 45, 48, 49, 45, 48, 49, 32, 49, 48, 58, 48, 48, 58, 48, 48, 32, 102, 111, 114, 32, 100, 101, 116, 97, 105, 108, 115])
      = .ok 49 ⟨2018, 1, 1, 10, 0, 0, 0, .dflt⟩ := by decide +kernel

/-- **a date followed by digits**: `2019-03-11 12:00:00.123` followed by `4 ms` is read with the fraction `.1234` — the text
of another instant of the same format (inherent: `.SSS` is `.\d{3,}`) -/
theorem cex_line_fraction_then_digit :
    parseFirst gadj colFmts lnow ([50, 48, 49, 57, 45, 48, 51, 45, 49, 49, 32, 49, 50, 58, 48, 48, 58, 48, 48, 46, 49, 50, 51] ++ [52, 32, 109, 115])
      = .ok 42 ⟨2019, 3, 11, 12, 0, 0, 123400000, .dflt⟩ := by decide +kernel

/-- **blank + upper-case word**: `2019-03-11 12:00:00 INFO x` is claimed by `YYYY-MM-DD HH:mm:ss ZZZ` (47), which reads `INF`
as a zone abbreviation; Go fabricates offset 0 for it, so the instant is the one of the text alone (12:00 UTC) — another
claimant, the same instant -/
theorem line_blank_word_same_instant :
    parseFirst gadj colFmts lnow ([50, 48, 49, 57, 45, 48, 51, 45, 49, 49, 32, 49, 50, 58, 48, 48, 58, 48, 48] ++ [32, 73, 78, 70, 79, 32, 120])
      = .ok 47 ⟨2019, 3, 11, 12, 0, 0, 0, .named [73, 78, 70] 0⟩ := by decide +kernel

end Logrange.Props.C20
