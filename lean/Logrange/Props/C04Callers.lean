import Logrange.Proofs.MixerErrRun
import Logrange.Proofs.MixTree
import Logrange.Generated.C04
/-!
# C04 — one model for reads and failures; what the callers of the merged cursor make of a failing source; attribution up to
the query result

Property theorems only (model: `Logrange/Model/MixerErr.lean` — the mixer with the non-EOF branch of `selectState`, `crsr.Offset`,
`iterateToPos` and the read loop of the two `Query` functions on top of it; lemmas: `Logrange/Proofs/MixerErrRun.lean`).

Reading guide. A source `σ` has two reads: `Source.get` — the read of the *proved* model (`Props/C04.lean`: what the partition
holds; `none` = `io.EOF`) — and `SourceE.getE`, the real read, which may also answer an error that is not `io.EOF`.
`LawfulSourceE`: when the real read does not fail it is the proved model's read. `It.getE`/`It.nextE` are `Mixer.Get`/`Next` with
the error branch; `Release`/`SetBackward` do not look at errors and are shared by the two models.
`P` is a set of source states in which the record under the iterator cannot be read, persistently (`It.Persistent P`: `Get`
fails and stays; `Release` and a direction switch do not move the source off the record).
-/
namespace Logrange.Props.C04Callers
open Logrange Logrange.Mixer

variable {σ : Type} [SourceE σ]
set_option linter.unusedSectionVars false

/-! ## the regenerated facts about the callers are the ones the model is written for -/

/-- as read from `/repo` on this run: both `Query` read loops stop at the first error of `cur.Get`, emit only when there was none
and answer a page only after `err == nil || err == io.EOF` (else the error and no page); `Offset` is called once before the
loop; the tag line travels with its event through `Mixer`, `LogEventIterator`, the filter iterator, `newCursor`'s `Wrap` and into
`le.Tags` of every result event, and the RPC encoder writes it for every event (third field); `GetJournals` is called only by
`itfactory.GetJournals` ← `getSourcesByState` ← `newCursor` ← `provider.GetOrCreate` ← {the two `Query` functions, the pipe worker
(which reads a single journal by `Src`, never a merge)}, and the merge-limit error — a real error value — is handed on by every one
of them. -/
theorem caller_facts :
    Generated.C04.backendQueryFailsOnError = true ∧ Generated.C04.rpcQueryFailsOnError = true ∧
    Generated.C04.queryCallsOffsetBeforeLoop = true ∧
    Generated.C04.mixerKeepsTagsWithEvent = true ∧ Generated.C04.leafReportsOwnTags = true ∧
    Generated.C04.filterKeepsTagsWithEvent = true ∧ Generated.C04.cursorWrapsJournalWithItsTagLine = true ∧
    Generated.C04.queryResultCarriesTags = true ∧
    Generated.C04.wireEventFieldOrder = ["Timestamp", "Message", "Tags", "Fields"] ∧
    Generated.C04.getJournalsCallers = ["pkg/cursor.getSourcesByState", "pkg/cursor.itfactory.GetJournals"] ∧
    Generated.C04.newCursorCallers = ["pkg/cursor.provider.GetOrCreate"] ∧
    Generated.C04.getOrCreateCallers = ["api/rpc.ServerQuerier.query", "pkg/backend.Querier.Query", "pkg/pipe.worker.run"] ∧
    Generated.C04.limitErrorPropagates = true ∧ Generated.C04.limitErrorConstructor = "errors.Errorf" ∧
    Generated.C04.commitReleasesLast = true ∧ Generated.C04.applyStatePosParsesBeforeMoving = true ∧
    Generated.C04.fieldsCacheRefreshedOnAnyDifference = true := by decide

/-! ## ONE model -/

/-- **the error model is the proved model wherever nothing fails — tree level, any nesting, any state.** A `Get` of a tree of
mixers that does not answer an error answers what the proved model's `Get` answers and leaves the tree in the proved model's
state (the sources may well fail elsewhere: only the answers the mixers ask for matter). -/
theorem get_without_error_is_the_proved_get [LawfulSourceE σ] (t : It σ) (h : t.getE.2 ≠ .err) :
    t.getE = (t.get.1, Res.ofOption t.get.2) := It.getE_ok t h

/-- **over sources that never fail the two models are the same functions**: `Get`, `Next` and the read loop (which then never
fails); `Release` and `SetBackward` are shared by definition. Every theorem of `Props/C04.lean` (refinement to the pure merge,
`multi_read`, …) is therefore a theorem about the error model on error-free sources. -/
theorem error_model_is_the_proved_model [LawfulSourceE σ] (hN : ∀ s : σ, (SourceE.getE s).2 ≠ .err) (t : It σ) (n : Nat) :
    t.getE = (t.get.1, Res.ofOption t.get.2) ∧ t.nextE = t.next ∧
    It.pageE n t = ((It.page n t).1, (It.page n t).2, false) :=
  ⟨It.getE_errfree hN t, It.nextE_errfree hN t, It.pageE_errfree hN n t⟩

/-- **the refinement theorem on the error model**: `Mixer.Init(GetEarliest, a, b)` over iterators that never fail, read by the
loop of `Query` with the error branch in place, delivers the pure merge of the two streams and ends with `io.EOF`, not with an
error (`a`, `b`: leaves or mixer trees in any reachable state, running forward). -/
theorem mixer_refines_merge_on_error_model [LawfulSourceE σ] [LawfulSource σ]
    (hN : ∀ s : σ, (SourceE.getE s).2 ≠ .err) (a b : It σ) (wa : a.WF) (wb : b.WF)
    (da : a.dir = false) (db : b.dir = false) (n : Nat) (hn : a.view.length + b.view.length ≤ n) :
    (It.pageE n (It.init a b)).2 = (mergeSpec false a.view b.view, false) := by
  have hw := (It.init_WF a b wa wb da db).1
  obtain ⟨p1, _, _⟩ := It.page_eq_take n _ hw
  rw [It.pageE_errfree hN n]
  simp only [p1, It.init_view]
  rw [List.take_of_length_le]
  rw [(Logrange.Mixer.mergeSpec_perm _ _ _).length_eq, List.length_append]; exact hn

/-! ## a failing source and the callers -/

/-- **a `Get` that fails leaves the merged cursor blocked, and nothing a caller can do un-blocks it.** Failures are persistent
(`hE`: a failing read leaves the source in `P`). After a `Get` of a merge (root a mixer) answered the error, the tree is
`Blocked P`; `Get` (again the error), `Next` (drops the error, advances nothing), `Release`, `SetBackward` keep it so. -/
theorem failed_get_blocks_for_good (P : σ → Prop) (hP : It.Persistent P)
    (hE : ∀ s : σ, (SourceE.getE s).2 = .err → P (SourceE.getE s).1)
    (t : It σ) (hm : t.isMix) (h : t.getE.2 = .err) (ops : List It.Op) :
    let t' := ops.foldl (fun u op => (u.stepE op).1) t.getE.1
    t'.Blocked P ∧ t'.getE.2 = .err := by
  intro t'
  have hb : t.getE.1.Blocked P := It.getE_err_blocked P hE t h
  have hm' : t.getE.1.isMix := It.getE_isMix t hm
  suffices ∀ (ops : List It.Op) (u : It σ), u.isMix → u.Blocked P →
      (ops.foldl (fun u op => (u.stepE op).1) u).Blocked P by
    have hb' := this ops _ hm' hb
    exact ⟨hb', (It.getE_blocked P hP.getE _ hb').1⟩
  intro ops
  induction ops with
  | nil => intro u _ hu; exact hu
  | cons op ops ih =>
    intro u hmu hu
    exact ih _ (It.stepE_isMix u hmu op) (It.blocked_stepE P hP u hmu hu op)

/-- **any caller of the merged cursor** — `Offset` with the errors it drops, `iterateToPos`, `ApplyState`'s switch there and
back, `State`, `WaitNewData`'s `Release`, in any order, deciding from everything it has seen (answers, `CurrentPos`, … : `obs`) —
**drives the error model step by step like the proved model (same decisions, same answers, none of them an error, same final
tree), or ends on a blocked tree.** -/
theorem caller_sees_proved_model_or_blocks [LawfulSourceE σ] {ω : Type} (P : σ → Prop) (hP : It.Persistent P)
    (hE : ∀ s : σ, (SourceE.getE s).2 = .err → P (SourceE.getE s).1)
    (obs : It σ → ω) (c : It.Caller ω) (n : Nat) (t : It σ) (hs : t.Sane) (hm : t.isMix) :
    It.runE obs c n t [] = It.run obs c n t [] ∨ (It.runE obs c n t []).1.Blocked P :=
  It.runE_dich P hP hE obs c n t [] hs hm

/-- **a failing source never leads to a silently incomplete page.** A merged cursor (root a mixer) in any reachable state `t`; any
caller program runs first (`c`, `n` steps: `Offset`, a re-position, … — whatever errors it drops); then the read loop of
`Query` with a limit `lim ≥ 1`. Either the loop ends with the error — the query then answers the error and no page (regenerated
facts `backendQueryFailsOnError`, `rpcQueryFailsOnError`) — or the page is exactly the first `lim` events of the complete merge
that the proved model — in which every record can be read — delivers after the same caller program: nothing of any partition is
left out, whatever failed on the way. -/
theorem failing_source_never_gives_incomplete_page [LawfulSourceE σ] [LawfulSource σ] {ω : Type}
    (P : σ → Prop) (hP : It.Persistent P) (hE : ∀ s : σ, (SourceE.getE s).2 = .err → P (SourceE.getE s).1)
    (obs : It σ → ω) (c : It.Caller ω) (n lim : Nat) (hl : 0 < lim) (t : It σ) (hw : t.WF) (hm : t.isMix)
    (hwB : (It.run obs c n t []).1.WF) :
    (It.pageE lim (It.runE obs c n t []).1).2.2 = true ∨
    ((It.pageE lim (It.runE obs c n t []).1).2.2 = false ∧
     (It.pageE lim (It.runE obs c n t []).1).2.1 = (It.run obs c n t []).1.view.take lim) := by
  rcases It.runE_dich P hP hE obs c n t [] (It.WF_sane t hw) hm with q | q
  · rw [q]
    rcases It.pageE_dich P hP.getE hE lim _ (It.WF_sane _ hwB) with r | ⟨r1, r2, _⟩
    · left; exact r
    · right; exact ⟨r1, by rw [r2, (It.page_eq_take lim _ hwB).1]⟩
  · left
    cases lim with
    | zero => omega
    | succ k => exact It.pageE_of_err k _ (It.getE_blocked P hP.getE _ q).1

/-- the hypotheses are met by in-memory partitions with an unreadable record: every failure of a sticky leaf is persistent -/
theorem sticky_leaf_failures_are_persistent :
    It.Persistent StickyLeaf.OnBad ∧ ∀ s : StickyLeaf, (SourceE.getE s).2 = .err → StickyLeaf.OnBad (SourceE.getE s).1 :=
  ⟨StickyLeaf.persistent, StickyLeaf.err_onBad⟩

-- non-vacuity: a fresh merge of two in-memory partitions, the first record of the second cannot be read: sane, a mixer, and the
-- first `Get` fails
example : ∃ t : It StickyLeaf, t.Sane ∧ t.isMix ∧ t.getE.2 = .err :=
  ⟨It.init (.leaf ⟨{ l := ⟨1, [⟨1, 0⟩], 0, false⟩ }, rfl⟩) (.leaf ⟨{ l := ⟨2, [⟨5, 0⟩], 0, false⟩, bad := [0] }, rfl⟩),
    by simp [It.init, It.Sane], by simp [It.init, It.isMix], by decide +kernel⟩

/-! ## `Offset` drops the error: persistent failures fail the query, a transient one moves the page -/

private def pa (bad : List Nat) (sticky : Bool) : LeafE := { l := ⟨1, [⟨1, 0⟩, ⟨3, 1⟩, ⟨5, 2⟩], 1, false⟩, bad := bad, sticky := sticky }
private def pb : LeafE := { l := ⟨2, [⟨2, 0⟩, ⟨4, 1⟩, ⟨6, 2⟩], 1, false⟩ }

/-- `crsr.Offset` drops every error its `Get`s answer. Partition 1 = `[1, 3, 5]`, partition 2 = `[2, 4, 6]`, the cursor stands
behind `1` and `2`; the query asks for offset −1, limit 10. All records readable: the page is `2 … 6`. Record `3` unreadable for
good: the query fails. Record `3` unreadable **once** (a transient failure — e.g. no file descriptor at that moment): `Offset`'s
first `Get` fails, the position to come back to is unknown, and the query answers the page `3 … 6` *without an error*: one event
short of what was asked for (finding F-C04-901; the page is still the complete merge from where it starts). -/
theorem cex_offset_drops_transient_error :
    (It.init (.leaf (pa [] true)) (.leaf pb)).queryE 20 true (-1) 10 =
      some [⟨2, 0, 2⟩, ⟨3, 1, 1⟩, ⟨4, 1, 2⟩, ⟨5, 2, 1⟩, ⟨6, 2, 2⟩] ∧
    (It.init (.leaf (pa [1] true)) (.leaf pb)).queryE 20 true (-1) 10 = none ∧
    (It.init (.leaf (pa [1] false)) (.leaf pb)).queryE 20 true (-1) 10 =
      some [⟨3, 1, 1⟩, ⟨4, 1, 2⟩, ⟨5, 2, 1⟩, ⟨6, 2, 2⟩] := by
  decide +kernel

/-! ## attribution up to the query result -/

/-- `api.LogEvent` as the two `Query` functions fill it from what `cur.Get` hands out: `le.Tags = string(tags)` for every event
(regenerated fact `queryResultCarriesTags`; nothing is elided when consecutive events have the same tag line — the RPC encoder
writes `ev.Tags` for every event: `writeLogEvent`, fact `wireEventFieldOrder`) -/
structure ApiEv where
  ts : Int
  msg : Nat
  tagsText : Nat
deriving DecidableEq, Repr

/-- the events of the query result, in order -/
def resultEvents (page : List Ev) : List ApiEv :=
  if Generated.C04.queryResultCarriesTags then page.map (fun e => ⟨e.ts, e.msg, e.tags⟩) else page.map (fun e => ⟨e.ts, e.msg, 0⟩)

/-- **every event of a query result carries the tag line of the partition it is stored in.** The merged cursor (any reachable
state, any caller program before, failing sources or not); `tagOf s` the tag line `newCursor` wrapped source `s` with (fact
`cursorWrapsJournalWithItsTagLine`), and every source reports its records under it (`hleaf`: `leaf_attribution`,
`multi_read_journals`). If the query answers a page, the `i`-th event of the result is the `i`-th event of the complete merge, and
its `Tags` text is the tag line of a source of the cursor that holds this very event. -/
theorem query_result_attribution [LawfulSourceE σ] [LawfulSource σ] {ω : Type}
    (P : σ → Prop) (hP : It.Persistent P) (hE : ∀ s : σ, (SourceE.getE s).2 = .err → P (SourceE.getE s).1)
    (obs : It σ → ω) (c : It.Caller ω) (n lim : Nat) (hl : 0 < lim) (t : It σ) (hw : t.WF) (hm : t.isMix)
    (hwB : (It.run obs c n t []).1.WF)
    (tagOf : σ → Nat) (hleaf : ∀ s ∈ (It.run obs c n t []).1.leaves, ∀ e ∈ LawfulSource.view s, e.tags = tagOf s)
    (hok : (It.pageE lim (It.runE obs c n t []).1).2.2 = false) :
    let res := resultEvents (It.pageE lim (It.runE obs c n t []).1).2.1
    res = ((It.run obs c n t []).1.view.take lim).map (fun e => ⟨e.ts, e.msg, e.tags⟩) ∧
    ∀ a ∈ res, ∃ s ∈ (It.run obs c n t []).1.leaves, ∃ e ∈ LawfulSource.view s,
      a = ⟨e.ts, e.msg, e.tags⟩ ∧ a.tagsText = tagOf s := by
  intro res
  have hf : Generated.C04.queryResultCarriesTags = true := by decide
  have hp : (It.pageE lim (It.runE obs c n t []).1).2.1 = (It.run obs c n t []).1.view.take lim := by
    rcases failing_source_never_gives_incomplete_page P hP hE obs c n lim hl t hw hm hwB with r | ⟨_, r⟩
    · rw [hok] at r; exact absurd r (by simp)
    · exact r
  have e1 : res = ((It.run obs c n t []).1.view.take lim).map (fun e => ⟨e.ts, e.msg, e.tags⟩) := by
    show resultEvents _ = _
    unfold resultEvents
    rw [hf, hp]; rfl
  refine ⟨e1, ?_⟩
  intro a ha
  rw [e1] at ha
  obtain ⟨e, he, rfl⟩ := List.mem_map.mp ha
  have hv : e ∈ (It.run obs c n t []).1.view := List.mem_of_mem_take he
  have := (It.view_perm_leaves _).mem_iff.mp hv
  obtain ⟨s, hs, hes⟩ := List.mem_flatMap.mp this
  exact ⟨s, hs, e, hes, rfl, hleaf s hs e hes⟩

/-! ## the fields text of the result events (the one-entry cache of both read loops) -/

/-- a result event with the text of its fields -/
structure ApiEvF where
  ts : Int
  msg : Nat
  tagsText : Nat
  fieldsText : Nat
deriving DecidableEq, Repr

/-- the loop body of both `Query` functions as far as the fields go, **as the code is now**: `fld e` = the fields stored with record
`e` (`0` = none; reading the partition alone returns exactly these), `cf` = the cached fields (`flds`), `ct` = the text made of them
(`kvsFields`). `if lge.Fields != flds { kvsFields = lge.Fields.AsKVString(); flds = lge.Fields.MakeCopy() }` when the regenerated
fact `fieldsCacheRefreshedOnAnyDifference` holds; otherwise the narrower refresh that skips events without fields. -/
def buildResultF (fld : Ev → Nat) : Nat → Nat → List Ev → List ApiEvF
  | _, _, [] => []
  | cf, ct, e :: es =>
    let refresh := if Generated.C04.fieldsCacheRefreshedOnAnyDifference then fld e != cf else (fld e != 0 && fld e != cf)
    let cf' := if refresh then fld e else cf
    let ct' := if refresh then fld e else ct
    ⟨e.ts, e.msg, e.tags, ct'⟩ :: buildResultF fld cf' ct' es

/-- the same with the refresh rule as a parameter (for the counterexample) -/
def buildResultFWith (any : Bool) (fld : Ev → Nat) : Nat → Nat → List Ev → List ApiEvF
  | _, _, [] => []
  | cf, ct, e :: es =>
    let refresh := if any then fld e != cf else (fld e != 0 && fld e != cf)
    let cf' := if refresh then fld e else cf
    let ct' := if refresh then fld e else ct
    ⟨e.ts, e.msg, e.tags, ct'⟩ :: buildResultFWith any fld cf' ct' es

theorem buildResultF_spec (fld : Ev → Nat) (page : List Ev) : ∀ c : Nat,
    buildResultF fld c c page = page.map (fun e => ⟨e.ts, e.msg, e.tags, fld e⟩) := by
  have hf : Generated.C04.fieldsCacheRefreshedOnAnyDifference = true := by decide
  induction page with
  | nil => intro c; rfl
  | cons e es ih =>
    intro c
    simp only [buildResultF, hf, if_true, List.map_cons]
    by_cases h : fld e = c
    · subst h; simp [ih]
    · simp [h, ih]

/-- **every event of a query result carries the fields text of its own record** — what reading its partition alone returns —, and
its tag line, whatever events of other partitions (with other fields, or none) stand before it in the merged stream: the loops
start with an empty cache (`flds = ""`, `kvsFields = ""`) and refresh it on every difference (regenerated fact). With
`failing_source_never_gives_incomplete_page`: the result is the first `lim` events of the complete merge, each with its own tag line
and its own fields. -/
theorem query_result_fields (fld : Ev → Nat) (page : List Ev) :
    buildResultF fld 0 0 page = page.map (fun e => ⟨e.ts, e.msg, e.tags, fld e⟩) :=
  buildResultF_spec fld page 0

/-- the narrower refresh (`len(Fields) > 0 && Fields != flds`) sends an event WITHOUT fields with the text of the previous event:
partition 1 written with fields `7`, partition 2 without; merged `[e1 (p1), e2 (p2)]` -/
theorem cex_narrow_refresh_leaks_fields :
    let fld : Ev → Nat := fun e => if e.tags = 1 then 7 else 0
    buildResultFWith false fld 0 0 [⟨10, 0, 1⟩, ⟨11, 0, 2⟩] = [⟨10, 0, 1, 7⟩, ⟨11, 0, 2, 7⟩] ∧
    buildResultFWith true fld 0 0 [⟨10, 0, 1⟩, ⟨11, 0, 2⟩] = [⟨10, 0, 1, 7⟩, ⟨11, 0, 2, 0⟩] := by
  decide

/-! ## what a held cursor keeps between two requests -/

/-- the iterator tree `crsr.commit` leaves in the provider's cache at the end of a request, **as the code is now**: `State` (its
`Get` selects, and may set sticky `eof` flags) and `Release` in the order the regenerated fact `commitReleasesLast` says -/
def commitTree (t : It σ) : It σ :=
  if Generated.C04.commitReleasesLast then t.get.1.release else t.release.get.1

/-- **the tree a held cursor keeps from one page to the next is a released one** — no `eof` flag set, no mixer in the "both ended"
state: exactly the hypothesis under which `appends_between_pages` (Props/C04.lean) shows that records appended between two pages
are read, in order, by the continued cursor. (With the two steps of `commit` swapped the `Get` inside `State` would set the flag of
an exhausted partition again after the reset: `cex_sticky_eof_hides_append` is what happens then.) -/
theorem held_cursor_tree_is_released [LawfulSource σ] (t : It σ) : (commitTree t).Released := by
  have hf : Generated.C04.commitReleasesLast = true := by decide
  unfold commitTree
  rw [hf]
  exact It.release_Released _

/-- `crsr.applyStatePos` on a position string of elements `(journal, parsed position or malformed)`, as the code is now (regenerated
fact `applyStatePosParsesBeforeMoving`): everything is parsed first, and only a string without a malformed element moves iterators;
the alternative — apply each element as soon as it is parsed — moves the iterators named before the first malformed element -/
def applyStatePosModel (els : List (Nat × Option Int)) (pos : Nat → Int) : (Nat → Int) × Bool :=
  if Generated.C04.applyStatePosParsesBeforeMoving then
    (if els.all (fun e => e.2.isSome) then
      (els.foldl (fun p e => fun j => if j = e.1 then e.2.getD 0 else p j) pos, true) else (pos, false))
  else
    els.foldl (fun (acc : (Nat → Int) × Bool) e =>
      if acc.2 then (match e.2 with
        | some v => (fun j => if j = e.1 then v else acc.1 j, true)
        | none => (acc.1, false)) else acc) (pos, true)

/-- **a refused position moves nothing**: when `ApplyState` answers an error for a held cursor (the provider then keeps the cursor
in its cache with its old `state.Pos`), no journal iterator under the live mixer tree has been moved — so the ordinary
continuation still reads from the position the cursor claims -/
theorem refused_position_moves_nothing (els : List (Nat × Option Int)) (pos : Nat → Int)
    (h : (applyStatePosModel els pos).2 = false) : (applyStatePosModel els pos).1 = pos := by
  have hf : Generated.C04.applyStatePosParsesBeforeMoving = true := by decide
  unfold applyStatePosModel at h ⊢
  rw [hf] at h ⊢
  simp only [if_true] at h ⊢
  split at h
  · simp at h
  · rename_i hc; simp [hc]

-- non-vacuity: a well-formed element (journal 1 to the tail) before a malformed one is refused
example : (applyStatePosModel [(1, some 99), (2, none)] (fun _ => 0)).2 = false := by decide

/-! ## the limit clause up to the client -/

/-- what a query over `matching` partitions gets to merge, as the callers are now: `GetJournals`' answer travels unchanged through
`itfactory.GetJournals`, `getSourcesByState`, `newCursor`, `provider.GetOrCreate` to the `Query` function when the regenerated fact
`limitErrorPropagates` holds (`none` = the query answers the error); if some caller swallowed the error the query would go on
with what it has — the silent subset -/
def queryMergeSet (matching : List MixTree.Part) (rd : MixTree.Readers) : Option (List MixTree.Part) :=
  if Generated.C04.limitErrorPropagates then (MixTree.getJournals Generated.C04.mergeLimit matching rd).2
  else some (matching.take Generated.C04.mergeLimit)

/-- **more partitions match than a query may merge: the query fails** (it does not read a subset), for every caller path there
is: the only callers of `GetJournals` are the chain above (fact `getJournalsCallers` …), each hands the error on; and when fewer
match, all of them are merged. -/
theorem too_many_partitions_fail_the_query (matching : List MixTree.Part) (rd : MixTree.Readers)
    (hnd : (matching.map (·.line)).Nodup) :
    (Generated.C04.mergeLimit ≤ matching.length → queryMergeSet matching rd = none) ∧
    (matching.length < Generated.C04.mergeLimit → queryMergeSet matching rd = some matching) := by
  have hf : Generated.C04.limitErrorPropagates = true := by decide
  unfold queryMergeSet
  rw [hf]
  simp only [if_true]
  constructor
  · intro h
    rw [MixTree.getJournals_limit_fails _ matching rd (by decide) hnd h]
  · intro h
    rw [MixTree.getJournals_under_limit _ matching rd hnd h]

-- non-vacuity: 60 distinct partitions are more than the limit
example : (((List.range 60).map (fun i => (⟨i, i⟩ : MixTree.Part))).map (·.line)).Nodup ∧
    Generated.C04.mergeLimit ≤ ((List.range 60).map (fun i => (⟨i, i⟩ : MixTree.Part))).length := by decide

end Logrange.Props.C04Callers
