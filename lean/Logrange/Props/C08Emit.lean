import Logrange.Proofs.FieldsEmit
/-!
# C08 — the Fields text of multi-event query results (the RPC querier's loop with its cache)

The querier renders `AsKVString` only when an event's fields differ from the previous event's, and remembers the previous
fields as a copy (regenerated fact `Generated.C08Q.querierCacheCopies`, obligation `querier_cache_copies`). On the model of
that loop the text emitted for every event is `AsKVString` of that event's own fields — whatever was read before it, also
for an event without fields after events with fields — so the per-event round trip (`fields_roundtrip_partial`,
`stored_event_fields_roundtrip`) carries over to every event of a multi-event result.
-/
namespace Logrange.Props.C08Emit
open Go Logrange.FieldsKV Logrange.FieldsEmit Logrange.Proofs.FieldsEmit Logrange.Proofs.FieldsRT

/-- the cache of the previous event's fields holds a copy, not an alias of the record buffer (regenerated from
`api/rpc/querier.go`; the model `emitLoop` is the loop with a copying cache) -/
theorem querier_cache_copies : Logrange.Generated.C08Q.querierCacheCopies = true := by decide

/-- the pipe worker computes the provenance fields in its own run from its own source tag line (`field.Parse(w.srcTags)`,
regenerated from `pkg/pipe/worker.go`): what a piped event carries is a function of the source's persisted tag line alone
(`Props.C08.provenance_fields_partial` says which), also for sources whose descriptors were loaded from disk after a restart -/
theorem worker_provenance_from_src_tags : Logrange.Generated.C08Q.workerProvenanceFromSrcTags = true := by decide

/-- **Every event of a query result carries the text of its OWN fields**, for every sequence of events -/
theorem querier_emits_own_fields (events : List Bytes) : emit events = events.map asKV := emit_map events

/-- the text emitted for an event does not depend on the events read before it (emission is a function of the event) -/
theorem emission_independent_of_history (before after : List Bytes) (f : Bytes) :
    (emit (before ++ f :: after))[before.length]? = some (asKV f) := by
  rw [querier_emits_own_fields]; simp

/-- an event without fields is emitted with the empty Fields text, also right after an event with fields -/
theorem no_fields_after_fields (before : List Bytes) (f : Bytes) (after : List Bytes) :
    (emit (before ++ f :: [] :: after))[before.length + 1]? = some (.ok []) := by
  rw [querier_emits_own_fields]
  simp [asKV_nil]

/-- **Round trip of every event of a multi-event result**: if the stored fields of the events are in the class `safeF`,
the i-th emitted text is accepted by `NewFieldsFromKVString` and denotes exactly the i-th event's fields -/
theorem query_result_fields_roundtrip (events : List Bytes) (hs : ∀ f ∈ events, safeF f = true) (i : Nat)
    (hi : i < events.length) : ∃ kv, (emit events)[i]? = some (.ok kv) ∧ fromKV kv = some events[i] := by
  obtain ⟨kv, hk, hf⟩ := fields_roundtrip_safeF events[i] (hs _ (List.getElem_mem hi))
  refine ⟨kv, ?_, hf⟩
  rw [querier_emits_own_fields, List.getElem?_map, List.getElem?_eq_getElem hi]
  simp [hk]

/-- non-vacuity: three events — `a=1`, no fields, `a=2` (same length as the first) -/
example : emit [[1,97,1,49], [], [1,97,1,50]] = [.ok [97,61,49], .ok [], .ok [97,61,50]] := by decide +kernel
example : safeF [1,97,1,49] = true ∧ safeF [] = true := by decide +kernel

end Logrange.Props.C08Emit
