import Logrange.Proofs.TIndexLts
import Logrange.Proofs.TIndexProg
import Logrange.Proofs.TIndexDnr
import Logrange.Proofs.TIndexWr
import Logrange.Generated.C14
/-!
# C14 — A partition is never deleted, re-created or left locked while someone uses it

Property theorems only (model: `Logrange/Model/TIndexLts.lean`, lemmas: `Logrange/Proofs/TIndexLts.lean`).
All theorems quantify over **every trace** of the transition system (`run init tr`): any number of actors,
any number of partitions, every interleaving of the critical sections of `tindex.inmemService`, including the
interleavings inside `Visit` (callbacks, waiting, aborting, `VF_DO_NOT_RELEASE`).

`readers` is the counter in the code; `holds` is the ghost multiset of acquisitions not yet given back.
-/
namespace Logrange.Props.C14
open Logrange.TIndexLts

/-- the state after an arbitrary trace -/
def reach (tr : List Lbl) : St := run init tr

theorem reach_inv (tr : List Lbl) : StInv (reach tr) := run_inv tr init inv_init

/-- The regenerated lock-discipline facts: every access to `tmap`/`smap`/`done` and to the descriptor fields
`readers`/`exclusive` in `pkg/tindex/inmem.go` is lexically inside `ims.lock.Lock() … Unlock()` (or in a function that
is only called with the lock held / before the service is published). This is what makes "one label = one critical
section" the right granularity. -/
theorem lock_discipline : Generated.C14.unlockedAccesses = [] := by decide

/-- `deleteJournal` (the only exclusive section in the code base) is straight-line: between `LockExclusively` and
the matching `UnlockExclusively` it calls nothing that can wait for a partition (lock; `j.Sync()`; size test; then
either unlock + return, or `Delete` + unlock), it contains no loop, switch, goroutine or defer, and no `return` or `panic`
is reached while the lock is held. With `progress_*` below this is
the deadlock-freedom argument: waiting happens only on an exclusively locked source, and its locker never waits. -/
theorem exclusive_section_straight_line : Generated.C14.blockingCallsInsideExclusiveSection = [] ∧
    Generated.C14.exclusiveSectionLockedExits = [] := by decide

/-- exclusive locks are taken by `deleteJournal` only, and only on a partition with exactly one reader (the model's
`lockRaw` demands `readers == 1`) -/
theorem only_deleteJournal_locks :
    Generated.C14.lockExclusivelyCallers = ["pkg/partition/partition.go:deleteJournal"] ∧
    Generated.C14.lockExclusivelyReaders = 1 := by decide

/-- **No leak, no double release**: the reader count of every live partition equals the number of outstanding
acquisitions (Σ over all actors). -/
theorem readers_eq_holds (tr : List Lbl) (s : Nat) (p : Part) (h : (reach tr).c.parts s = some p) :
    p.readers = (nTok s (reach tr).c.holds : Int) :=
  (reach_inv tr).core.cnt s p h

/-- **Exclusive means alone**: an exclusively locked partition has exactly one reader, that acquisition belongs
to the locker, and nobody else holds the partition. -/
theorem exclusive_single (tr : List Lbl) (s : Nat) (p : Part) (h : (reach tr).c.parts s = some p)
    (hx : p.exclusive = true) :
    p.readers = 1 ∧ ∃ a, (reach tr).c.locker s = some a ∧ holdsAny (reach tr).c.holds a s = true ∧
      ∀ t, t ∈ (reach tr).c.holds → t.src = s → t.actor = a := by
  have hi := (reach_inv tr).core
  obtain ⟨r1, a, au, hl, hm⟩ := hi.excl s p h hx
  refine ⟨r1, a, hl, ?_, ?_⟩
  · cases au with
    | false => simp [holdsAny, hm]
    | true => simp [holdsAny, hm]
  · intro t ht hts
    by_cases e : t = ⟨a, s, au⟩
    · rw [e]
    · have two := nTok_two s t ⟨a, s, au⟩ _ ht hm e hts rfl
      have := hi.cnt s p h
      omega

/-- **Nobody gets in while it is exclusive** (`GetJournalTags`): the call changes nothing and has to retry. -/
theorem no_acquire_while_exclusive_getTags (st : St) (a s : Nat) (lock : Bool) (p : Part)
    (h : st.c.parts s = some p) (hx : p.exclusive = true) : step st (.getTags a s lock) = some st := by
  by_cases hd : st.done = true <;> simp [step, h, hx, hd]

/-- … `getOrCreateJournal` / `GetJournal` -/
theorem no_acquire_while_exclusive_getOrCreate (st : St) (a tags s : Nat) (create : Bool) (p : Part)
    (hf : findTags st.c.parts tags st.c.next = some s)
    (h : st.c.parts s = some p) (hx : p.exclusive = true) : step st (.getOrCreate a tags create) = some st := by
  by_cases hd : st.done = true <;> simp [step, hf, h, hx, hd]

/-- … the per-item section of the waiting `Visit`: it neither acquires nor calls the visitor (and before a shutdown
it changes nothing at all: the visit retries) -/
theorem no_acquire_while_exclusive_visitTry (st st' : St) (a s : Nat) (p : Part)
    (h : st.c.parts s = some p) (hx : p.exclusive = true) (hs : step st (.visitTry a s) = some st') :
    st'.c = st.c ∧ (st.done = false → st' = st) := by
  simp only [step] at hs
  split at hs
  · simp at hs
  · split at hs
    · simp at hs
    · by_cases hd : st.done = true
      · simp [hd] at hs; subst hs; simp [hd]
      · simp [h, hx, hd] at hs; subst hs; simp

/-- … the snapshot of both `Visit` flavours never contains (and the skipping flavour never acquires) an
exclusively locked partition: the number of acquisitions of an exclusively locked source is unchanged -/
theorem no_acquire_while_exclusive_visitBegin (tr : List Lbl) (a : Nat) (sel : List Nat) (skipping noRelease : Bool)
    (st' : St) (s : Nat) (p : Part)
    (h : (reach tr).c.parts s = some p) (hx : p.exclusive = true)
    (hs : step (reach tr) (.visitBegin a sel skipping noRelease) = some st') :
    nTok s st'.c.holds = nTok s (reach tr).c.holds ∧ st'.c.parts s = some p := by
  have hi := reach_inv tr
  have hi' := step_inv _ _ _ hi hs
  simp only [step] at hs
  split at hs
  · simp at hs
  · split at hs
    · simp at hs; subst hs; exact ⟨rfl, h⟩
    simp at hs; subst hs
    -- the snapshot only touches `readers` of not exclusively locked descriptors
    have key : ∀ (l : List Nat) (parts : Nat → Option Part) (holds : List Tok), parts s = some p →
        (snap a sel skipping l parts holds).1 s = some p := by
      intro l
      induction l with
      | nil => intro parts holds hp; simpa [snap] using hp
      | cons x xs ih =>
        intro parts holds hp
        unfold snap
        cases hpx : parts x with
        | none => simpa [hpx] using ih parts holds hp
        | some q =>
          simp only []
          by_cases hc : (sel.contains q.tags && !q.exclusive) = true
          · have hne : x ≠ s := by
              intro e; subst e; rw [hp] at hpx; cases hpx; simp [hx] at hc
            simp only [hc, if_true]
            cases skipping with
            | false => simpa using ih parts holds hp
            | true =>
              simp only [if_true]
              exact ih _ _ (by simp only [incDesc, upd_other _ _ _ _ (Ne.symm hne)]; exact hp)
          · simp only [hc, Bool.false_eq_true, if_false]; exact ih parts holds hp
    have hp' := key (List.range (reach tr).c.next) (reach tr).c.parts (reach tr).c.holds h
    have c1 := hi.core.cnt s p h
    have c2 : p.readers = ((nTok s (snap a sel skipping (List.range (reach tr).c.next) (reach tr).c.parts
        (reach tr).c.holds).2.1 : Nat) : Int) := hi'.core.cnt s p hp'
    refine ⟨?_, hp'⟩
    show nTok s (snap a sel skipping (List.range (reach tr).c.next) (reach tr).c.parts (reach tr).c.holds).2.1 = _
    omega

/-- **Delete only when unused**: a `Delete` that removes the partition happens in a state where the only
outstanding acquisition is the deleter's own. -/
theorem delete_only_unused (tr : List Lbl) (a s : Nat) (st' : St) (p : Part)
    (h : (reach tr).c.parts s = some p) (hs : step (reach tr) (.delete a s) = some st') (hd : st'.c.parts s = none) :
    nTok s (reach tr).c.holds = 1 ∧ (reach tr).c.locker s = some a ∧
      ∀ t, t ∈ (reach tr).c.holds → t.src = s → t.actor = a := by
  simp only [step, h] at hs
  split at hs
  · simp at hs; subst hs; rw [h] at hd; cases hd
  · rename_i hx
    have hx' : p.exclusive = true := by simpa using hx
    split at hs
    · rename_i hl
      have hl' : (reach tr).c.locker s = some a := by simpa using hl
      obtain ⟨r1, b, hb, _, hall⟩ := exclusive_single tr s p h hx'
      have := readers_eq_holds tr s p h
      rw [hl'] at hb; cases hb
      exact ⟨by omega, hl', hall⟩
    · simp at hs

/-- **A deleted partition stays deleted** (sources are never re-used, so a running `Visit` that still points at
the old descriptor can never touch a re-created one): `Delete` on a live, locked partition removes it. -/
theorem delete_removes (st : St) (a s : Nat) (p : Part) (h : st.c.parts s = some p) (hx : p.exclusive = true)
    (hl : st.c.locker s = some a) :
    ∃ st', step st (.delete a s) = some st' ∧ st'.c.parts s = none := by
  refine ⟨_, by simp [step, h, hx, hl]; rfl, ?_⟩
  simp [deleteRaw, h, hx, upd_same]

/-- **No half-deleted partition is handed out** (`GetJournalTags(src, true)`): when the call acquires, the
source is in the maps, not exclusively locked, and counted. -/
theorem no_half_deleted_getTags (tr : List Lbl) (a s : Nat) (st' : St)
    (hs : step (reach tr) (.getTags a s true) = some st') (hne : st'.c.holds ≠ (reach tr).c.holds) :
    ∃ p', st'.c.parts s = some p' ∧ p'.exclusive = false ∧ 1 ≤ p'.readers ∧ (⟨a, s, false⟩ : Tok) ∈ st'.c.holds := by
  have hi' := step_inv _ _ _ (reach_inv tr) hs
  simp only [step] at hs
  split at hs
  · simp at hs; subst hs; exact absurd rfl hne
  split at hs
  · simp at hs; subst hs; exact absurd rfl hne
  · rename_i p hp
    split at hs
    · simp at hs; subst hs; exact absurd rfl hne
    · rename_i hx
      simp at hs; subst hs
      refine ⟨{ p with readers := p.readers + 1 }, by simp [incDesc, upd_same], by simpa using hx, ?_, by simp⟩
      have := (reach_inv tr).core.cnt s p hp
      simp only []; omega

/-- … the per-item section of the waiting `Visit`: the visitor is only called (`cur = some s`) on a partition that
is in the maps at that moment, not exclusively locked, and acquired for the visit. -/
theorem no_half_deleted_visitTry (tr : List Lbl) (a s : Nat) (st' : St) (v' : Visit)
    (hs : step (reach tr) (.visitTry a s) = some st') (hv : st'.vis a = some v') (hc : v'.cur = some s) :
    ∃ p', st'.c.parts s = some p' ∧ p'.exclusive = false ∧ (⟨a, s, true⟩ : Tok) ∈ st'.c.holds := by
  simp only [step] at hs
  split at hs
  · simp at hs
  · rename_i v hva
    split at hs
    · simp at hs
    · rename_i hcond
      have hcur : v.cur = none := by
        cases hcv : v.cur with
        | none => rfl
        | some x => simp [hcv] at hcond
      split at hs
      · simp at hs; subst hs
        simp only [upd_same] at hv; cases hv
      split at hs
      · simp at hs; subst hs
        simp only [upd_same, Option.some.injEq] at hv; subst hv
        simp [hcur] at hc
      · rename_i p hp
        split at hs
        · simp at hs; subst hs
          rw [hva] at hv; cases hv; rw [hcur] at hc; cases hc
        · rename_i hx
          simp at hs; subst hs
          exact ⟨{ p with readers := p.readers + 1 }, by simp [incDesc, upd_same], by simpa using hx, by simp⟩

/-- … every callback of either `Visit` flavour runs while the visit itself holds the partition, so (by
`exclusive_single`) nobody else can lock it exclusively or delete it during the callback. -/
theorem callback_holds (tr : List Lbl) (a s : Nat) (v : Visit) (hv : (reach tr).vis a = some v)
    (hc : cbOk v s = true) : (⟨a, s, true⟩ : Tok) ∈ (reach tr).c.holds := by
  have hso : s ∈ v.owed := by
    simp only [cbOk, Bool.and_eq_true, List.contains_iff_mem] at hc
    exact hc.2
  have := (reach_inv tr).visTok a v hv s
  have h1 := List.one_le_count_iff.mpr hso
  exact List.one_le_count_iff.mp (by omega)

/-- **Release never panics** for a caller that releases what it acquired and does not release what it holds
exclusively; and the server never reaches a panic along any trace of protocol-following actors. -/
theorem release_never_panics (tr : List Lbl) (a s : Nat) (au : Bool)
    (hm : (⟨a, s, au⟩ : Tok) ∈ (reach tr).c.holds) (hmay : mayRelease (reach tr).c a s = true) :
    (relRaw (reach tr).c.parts s).2 = .ok ∨ (relRaw (reach tr).c.parts s).2 = .absent := by
  rcases relRaw_of_inv _ (reach_inv tr).core a s au hm hmay with h | ⟨_, h⟩
  · left; rw [h]
  · right; rw [h]

theorem never_panics (tr : List Lbl) : (reach tr).panicked = false := (reach_inv tr).noPanic

/-- the final locked section of a `Visit` gives back exactly what the visit still owes: afterwards the actor has
no visit-owned acquisition left on sources the visit owed nothing else for -/
theorem visit_end_releases (tr : List Lbl) (a : Nat) (v : Visit) (st' : St)
    (hv : (reach tr).vis a = some v) (hs : step (reach tr) (.visitEnd a) = some st') (s : Nat) :
    st'.c.holds.count ⟨a, s, true⟩ + v.owed.count s = (reach tr).c.holds.count ⟨a, s, true⟩ ∧ st'.vis a = none := by
  have hi := reach_inv tr
  simp only [step, hv] at hs
  split at hs
  · rename_i hcond
    simp only [Bool.and_eq_true, List.all_eq_true] at hcond
    simp at hs; subst hs
    obtain ⟨_, _, i3⟩ := relAll_inv a _ _ v.owed _ _ hi.core (fun s hs' => hcond.2 s hs') (hi.visTok a v hv)
    exact ⟨i3 s, by simp [upd_same]⟩
  · simp at hs

/-- **Counts return to zero when activity stops**: once every acquisition has been given back, every live
partition has `readers = 0` and is not exclusively locked — so it can be locked exclusively and deleted. -/
theorem quiescent_zero (tr : List Lbl) (hq : (reach tr).c.holds = []) (s : Nat) (p : Part)
    (h : (reach tr).c.parts s = some p) : p.readers = 0 ∧ p.exclusive = false := by
  have hi := (reach_inv tr).core
  have c := hi.cnt s p h
  rw [hq] at c
  refine ⟨by simpa [nTok] using c, ?_⟩
  cases hx : p.exclusive with
  | false => rfl
  | true =>
    obtain ⟨_, _, _, _, hm⟩ := hi.excl s p h hx
    rw [hq] at hm; cases hm

/-- **Progress**: a partition that is not exclusively locked is acquired at once (waiting happens only behind an
exclusive lock, whose holder — `deleteJournal` — runs straight through, `exclusive_section_straight_line`). -/
theorem progress_getTags (st : St) (a s : Nat) (p : Part) (h : st.c.parts s = some p) (hx : p.exclusive = false)
    (hd : st.done = false) :
    ∃ st', step st (.getTags a s true) = some st' ∧ st'.c.holds = ⟨a, s, false⟩ :: st.c.holds := by
  exact ⟨_, by simp [step, h, hx, hd]; rfl, rfl⟩

/-- **Shutdown**: after `Shutdown()` nothing is acquired any more and no visit starts; a waiting `Visit` that notices
the flag in its per-item section ends without its final locked section — what it still owes stays counted (the
process is about to exit; this is the one way `readers` can stay above 0 without a holder that will come back). -/
theorem shutdown_stops_acquisitions (st : St) (hd : st.done = true) (a x : Nat) (b c : Bool) (sel : List Nat) :
    step st (.getTags a x b) = some st ∧ step st (.getOrCreate a x b) = some st ∧
    (st.vis a = none → step st (.visitBegin a sel b c) = some st) := by
  refine ⟨by simp [step, hd], by simp [step, hd], ?_⟩
  intro hv; simp [step, hd, hv]

/-- the flag is never reset: a trace whose final state is not shut down never was -/
theorem done_monotone (st : St) (l : Lbl) (st' : St) (hs : step st l = some st') (hd : st.done = true) :
    st'.done = true := by
  cases l <;> simp only [step] at hs <;> (repeat' split at hs) <;> simp at hs <;> (try subst hs) <;> simp_all

/-! ### caller programs; finding F15 and its repair

`partition.Service.GetJournals` as an actor program: a `VF_DO_NOT_RELEASE` visit of the waiting flavour; for every
visited source `ok` says whether `Journals.GetOrCreate` succeeded; a failure makes the visitor return `false`;
the error path then releases the journals collected in `res` — which does not contain the failing one.
`fix` is the code shape (`Generated.C14.getJournalsVisitorReleasesFailed`): with the repair of F15 the visitor
itself calls `Release` on the partition it gives up on. (In the code that `Release` runs inside the callback,
i.e. just before the label `visitCb … false`; for this one actor the two orders reach the same state, and the
`release` label is only enabled for a client-owned token, which the entry becomes at `visitCb`.) -/
def progGetJournals (fix : Bool) (a : Nat) (sel : List Nat) (visits : List (Nat × Bool)) : List Lbl :=
  [Lbl.visitBegin a sel false true]
    ++ visits.flatMap (fun x =>
        [Lbl.visitTry a x.1, Lbl.visitCb a x.1 x.2] ++ (if fix && !x.2 then [Lbl.release a x.1] else []))
    ++ [Lbl.visitEnd a]
    ++ (if visits.all (·.2) then [] else (visits.filter (·.2)).map (fun x => Lbl.release a x.1))

/-- a writer created partition 0 with tags 7 and released it -/
def setup : List Lbl := [.getOrCreate 0 7 true, .release 0 0]

/-- two partitions (tags 7 and 8), nobody holds them -/
def setup2 : List Lbl := [.getOrCreate 0 7 true, .release 0 0, .getOrCreate 0 8 true, .release 0 1]

/-- **F15 (the un-repaired shape)**: `GetJournals` whose visitor aborts because `Journals.GetOrCreate` failed keeps one
acquisition that nobody releases: the partition's `readers` stays 1 for ever, so it can never be locked exclusively
(deleted) by anybody who acquires it first, as `deleteJournal` does. Kept as the record of what a revert would do. -/
theorem cex_getjournals_error_leak :
    let st := reach (setup ++ progGetJournals false 1 [7] [(0, false)])
    st.c.holds = [⟨1, 0, false⟩] ∧ st.vis 1 = none ∧ st.c.parts 0 = some ⟨7, 1, false⟩ ∧
      (reach (setup ++ progGetJournals false 1 [7] [(0, false)] ++ [.getTags 2 0 true, .lockX 2 0])).c.parts 0
        = some ⟨7, 2, false⟩ := by
  decide

/-- **The repaired shape gives everything back**: the same failing run, and a run that fails on its second partition
after a first success, leave no acquisition behind and every count at 0. -/
theorem getjournals_error_path_balanced_repaired :
    (reach (setup ++ progGetJournals true 1 [7] [(0, false)])).c.holds = [] ∧
    (reach (setup ++ progGetJournals true 1 [7] [(0, false)])).c.parts 0 = some ⟨7, 0, false⟩ ∧
    (reach (setup2 ++ progGetJournals true 1 [7, 8] [(1, true), (0, false)])).c.holds = [] ∧
    (reach (setup2 ++ progGetJournals true 1 [7, 8] [(0, true), (1, false)])).c.holds = [] := by
  decide

/-- **The code as it is now** (shape regenerated from the source): the failing `GetJournals` run leaks exactly when
the visitor does not release the entry it gives up on. When the repair is applied this theorem turns into "no leak"
by itself; when it is reverted, into the leak. -/
theorem getjournals_error_path_current :
    (reach (setup ++ progGetJournals Generated.C14.getJournalsVisitorReleasesFailed 1 [7] [(0, false)])).c.holds
      = (if Generated.C14.getJournalsVisitorReleasesFailed then [] else [⟨1, 0, false⟩]) := by
  decide

/-- the limit path (`len(res) == maxLimit`): the visitor returns `false` on an entry that IS in `res` (no `GetOrCreate`
failure, so the repair's extra `Release` is not involved); the error path releases `res`: balanced, no double release -/
theorem getjournals_limit_path_balanced :
    let st := reach (setup2 ++ [.visitBegin 1 [7, 8] false true, .visitTry 1 0, .visitCb 1 0 false, .visitEnd 1, .release 1 0])
    st.c.holds = [] ∧ st.panicked = false ∧ st.vis 1 = none ∧ st.c.parts 0 = some ⟨7, 0, false⟩ := by
  decide

/-! ### the real callers as programs: they follow the protocol, they are balanced, they cannot deadlock

`Model/TIndexProg.lean` mirrors every caller of the tag index in /repo as a control-state machine over the labels
above (`Write`, `GetParitionInfo`, `GetJournal`+`Release`, `tmirebuilder.serve`, `cleanupTsIndex`, `truncateGlobally`,
`ppipe.cleanPartitions`, `Partitions`, `GetJournals` incl. limit and repaired error path + `cursor.close`, `Truncate` with
`deleteJournal`). `Reach` = any number of such callers, started at any time, interleaved in any way, with `Shutdown()` of
the tag index at any point of the run (`Reach.shutdown`). -/
open Logrange.TIndexProg in
/-- **The callers follow the protocol**: every critical section a caller is about to perform is enabled (it releases
only what it holds, locks only what it holds, unlocks/deletes only what it locked, …) — so every theorem above about
protocol-following actors applies to the real callers. -/
theorem callers_follow_protocol (x : Sys) (h : Reach x) (a : Nat) (l : Lbl) (c' : Ctl)
    (ho : (l, c') ∈ pnext a x.st (x.ctl a)) : ∃ st', step x.st l = some st' := by
  have hi := sysInv_reach h
  obtain ⟨o, hl⟩ := hi.locE a
  obtain ⟨st', _, hs, _⟩ := own_step hi.st hl l c' ho
  exact ⟨st', hs⟩

open Logrange.TIndexProg in
/-- **Every caller program is balanced**: whatever the interleaving with any number of other callers, a caller that
has returned holds nothing — no client acquisition, no visit-owned acquisition, no exclusive lock, no visit (as long as
the tag index has not been shut down; for runs with `Shutdown()` see `program_balanced_shutdown`). -/
theorem program_balanced (x : Sys) (h : Reach x) (hd : x.st.done = false) (a : Nat) (hf : x.ctl a = .fin) :
    (∀ t, t ∈ x.st.c.holds → t.actor ≠ a) ∧ x.st.vis a = none ∧ ∀ s, x.st.c.locker s ≠ some a := by
  have hl := (sysInv_reach h).loc0 hd a
  rw [hf] at hl
  have hv : x.st.vis a = none := hl.vis
  refine ⟨?_, hv, fun s hlk => by have := hl.lck s hlk; simp [lockedAt] at this⟩
  intro t ht hta
  obtain ⟨ta, ts, tau⟩ := t
  simp only [] at hta; subst hta
  have h1 := List.one_le_count_iff.mpr ht
  cases tau with
  | false => have := hl.cli ts; simp [heldOf] at this; omega
  | true => have := hl.aut ts; rw [hv] at this; simp [owedCount] at this; omega

open Logrange.TIndexProg in
/-- **Matched release in every run, `Shutdown()` included**: whenever `Shutdown()` happens (before, between or inside
the callers' critical sections), a caller that has returned holds no client acquisition (everything it obtained through
`GetOrCreateJournal`, `GetJournalTags` or a `VF_DO_NOT_RELEASE` visit was given back exactly once), no exclusive lock and no
running visit. What it may legitimately still owe are visit-owned acquisitions (`auto = true`) — see `shutdown_orphans`. -/
theorem program_balanced_shutdown (x : Sys) (h : Reach x) (a : Nat) (hf : x.ctl a = .fin) :
    (∀ s, x.st.c.holds.count ⟨a, s, false⟩ = 0) ∧ x.st.vis a = none ∧ ∀ s, x.st.c.locker s ≠ some a := by
  obtain ⟨o, hl⟩ := (sysInv_reach h).locE a
  rw [hf] at hl
  exact ⟨fun s => by rw [hl.cli s]; simp [heldOf], hl.vis, fun s hlk => by have := hl.lck s hlk; simp [lockedAt] at this⟩

open Logrange.TIndexProg in
/-- **What a `Visit` interrupted by `Shutdown()` ends owing**: in every reachable state there is a book `orph` of orphaned
visit-owned acquisitions — empty as long as the index is not shut down — such that every actor's visit-owned tokens are
exactly what its running visit still owes plus its orphans. Orphans arise in one place only: the per-item section of a
waiting `Visit` that sees `ims.done` and returns `WrongState` without the final locked section (`own_visit`); the process
is then about to exit. Nothing else is ever left behind. -/
theorem shutdown_orphans (x : Sys) (h : Reach x) :
    ∃ orph : Nat → Nat → Nat, (x.st.done = false → ∀ a s, orph a s = 0) ∧
      ∀ a s, x.st.c.holds.count ⟨a, s, true⟩ = owedCount (x.st.vis a) s + orph a s := by
  obtain ⟨orph, h0, hl⟩ := (sysInv_reach h).loc
  exact ⟨orph, h0, fun a s => (hl a).aut s⟩

/-- **`GetJournals` interrupted by `Shutdown()` owes nothing**: along every trace of the LTS, a waiting visit with
`VF_DO_NOT_RELEASE` owes exactly the entry whose callback is running, and nothing between two callbacks — where the per-item
section stands when it sees `ims.done`. So skipping the final locked section loses nothing for `GetJournals` (what it
acquired is in `res` and is released by its error path: `program_balanced_shutdown`); orphans (`shutdown_orphans`) can only
come from the auto-release waiting visit, `Partitions`. -/
theorem interrupted_getjournals_owes_nothing (tr : List Lbl) (a : Nat) (v : Visit) (hv : (reach tr).vis a = some v)
    (hw : v.skipping = false) (hn : v.noRelease = true) :
    (v.cur = none → v.owed = []) ∧ (∀ s, v.cur = some s → v.owed = [s]) :=
  dnrInv_run tr init dnrInv_init a v hv hw hn

open Logrange.TIndexProg in
/-- … the same in the system of caller programs (any callers, any interleaving, `Shutdown()` at any point) -/
theorem callers_getjournals_owes_nothing (x : Sys) (h : Reach x) (a : Nat) (v : Visit) (hv : x.st.vis a = some v)
    (hw : v.skipping = false) (hn : v.noRelease = true) (hc : v.cur = none) : v.owed = [] := by
  have hi : DnrInv x.st := dnrInv_reach h
  exact (hi a v hv hw hn).1 hc

open Logrange.TIndexProg in
/-- `Shutdown()` is reachable at any point and is final: the flag stays set along every further run -/
theorem shutdown_reachable (x : Sys) (h : Reach x) : Reach ⟨{ x.st with done := true }, x.ctl⟩ := Reach.shutdown h

open Logrange.TIndexProg in
/-- `cursor.newCursor` with all its error paths (a filter that cannot be built, a position that cannot be applied, too
many partitions, a failing `GetOrCreate`) is one of the caller programs, so `callers_follow_protocol`,
`program_balanced` and `no_deadlock` cover it: each error path gives back exactly what was acquired, once. -/
theorem newCursor_is_a_caller (sel : List Nat) (s : Nat) : isEntry (newCursorByQuery sel) ∧ isEntry (newCursorBySrc s) :=
  ⟨trivial, trivial⟩

/-- **Matched release inside the callers that acquire by id and go on** (regenerated from the source on every run): in
`ppipe.catchUp` (the pipe's start-up catch-up), `Service.truncateGlobally`, `Service.cleanupTsIndex` and `tmirebuilder.serve` no
way out — `return`, `continue` / `break` of the loop the acquisition stands in, the end of that loop body or of the function,
`panic` — is reached after a successful `GetJournal` / `GetJournalTags(…, true)` without a `Release` on the way (a deferred
one counts). This is what makes the programs `catchUp srcs` / `idLoopOf srcs del` mirror these functions: every acquisition
is followed by its `rel`. -/
theorem matched_release_in_callers : Generated.C14.acquiredAtExit = [] := by decide

open Logrange.TIndexProg in
/-- the pipe's start-up catch-up is one of the caller programs (acquire by id, release, next source), so
`callers_follow_protocol`, `program_balanced`, `program_balanced_shutdown`, `no_deadlock` cover it -/
theorem catchUp_is_a_caller (srcs : List Nat) : isEntry (catchUp srcs) := by
  cases srcs <;> simp [catchUp, idLoopOf, isEntry]

open Logrange.TIndexProg in
/-- … and once only: a control state that is about to `Release` the same partition twice (an error path calling both
`cur.close()` and `releaseJournals`) is consistent with the caller's tokens only if it acquired the partition twice —
after one acquisition the second `Release` is not enabled (it would take away somebody else's hold or panic). -/
theorem double_release_needs_two_holds (o : Nat → Nat) (a s : Nat) (st : St) (k : Ctl) (h : Local o a (.rel s [s] k) st) :
    2 ≤ st.c.holds.count ⟨a, s, false⟩ := by
  rw [h.cli s]; simp [heldOf]

open Logrange.TIndexProg in
/-- **Counts return to zero when activity stops** — for the real callers, by theorem: when every caller has returned,
no acquisition is outstanding, every live partition has `readers = 0` and none is exclusively locked. -/
theorem callers_quiescent_zero (x : Sys) (h : Reach x) (hd : x.st.done = false) (hall : ∀ a, x.ctl a = .fin) :
    x.st.c.holds = [] ∧ ∀ s p, x.st.c.parts s = some p → p.readers = 0 ∧ p.exclusive = false := by
  have hnil : x.st.c.holds = [] := by
    apply List.eq_nil_iff_forall_not_mem.mpr
    intro t ht
    exact (program_balanced x h hd t.actor (hall t.actor)).1 t ht rfl
  refine ⟨hnil, ?_⟩
  intro s p hp
  have hi := (sysInv_reach h).st.core
  have c := hi.cnt s p hp
  rw [hnil] at c
  refine ⟨by simpa [nTok] using c, ?_⟩
  cases hx : p.exclusive with
  | false => rfl
  | true =>
    obtain ⟨_, _, _, _, hm⟩ := hi.excl s p hp hx
    rw [hnil] at hm; cases hm

open Logrange.TIndexProg in
/-- … and in runs with `Shutdown()`: when every caller has returned, the only acquisitions left are visit-owned orphans
of interrupted waiting visits, and no partition is exclusively locked. -/
theorem callers_quiescent_shutdown (x : Sys) (h : Reach x) (hall : ∀ a, x.ctl a = .fin) :
    (∀ t, t ∈ x.st.c.holds → t.auto = true) ∧ ∀ s p, x.st.c.parts s = some p → p.exclusive = false := by
  refine ⟨?_, ?_⟩
  · intro t ht
    obtain ⟨ta, ts, tau⟩ := t
    cases tau with
    | true => rfl
    | false =>
      have := (program_balanced_shutdown x h ta (hall ta)).1 ts
      have h1 := List.one_le_count_iff.mpr ht
      omega
  · intro s p hp
    cases hx : p.exclusive with
    | false => rfl
    | true =>
      obtain ⟨_, b, _, hlb, _⟩ := (sysInv_reach h).st.core.excl s p hp hx
      exact absurd hlb ((program_balanced_shutdown x h b (hall b)).2.2 s)

open Logrange.TIndexProg in
/-- **The exclusive holder is inside `deleteJournal`'s straight-line section and its next step frees the partition**:
whenever a partition is exclusively locked, its locker `b` stands right before `Delete` or before `UnlockExclusively`;
that step is enabled, and after it the partition is gone or no longer exclusively locked (bounded progress: a waiter
waits for at most this one step of the holder — the second, final `UnlockExclusively` after a `Delete` is a no-op). -/
theorem exclusive_holder_frees (x : Sys) (h : Reach x) (s : Nat) (p : Part) (hp : x.st.c.parts s = some p)
    (hx : p.exclusive = true) :
    ∃ b k, x.st.c.locker s = some b ∧ (x.ctl b = .dj .delete s k ∨ x.ctl b = .dj .unlock s k) ∧
      ∃ l c' st', (l, c') ∈ pnext b x.st (x.ctl b) ∧ step x.st l = some st' ∧
        (st'.c.parts s = none ∨ ∃ p', st'.c.parts s = some p' ∧ p'.exclusive = false) := by
  have hi := sysInv_reach h
  obtain ⟨hr1, b, _, hlb, _⟩ := hi.st.core.excl s p hp hx
  obtain ⟨ob, hloc⟩ := hi.locE b
  have hat := hloc.lck s hlb
  cases hc : x.ctl b with
  | dj ph s' k =>
    rw [hc] at hat hloc
    cases ph with
    | lock => simp [lockedAt] at hat
    | delete =>
      simp only [lockedAt] at hat; subst hat
      refine ⟨b, k, hlb, Or.inl hc, .delete b s, .dj .unlock s k, stUnl x.st (upd x.st.c.parts s none) s,
        by simp [hc, pnext, djOpts], by simp [step, stUnl, hp, hx, hlb, deleteRaw], Or.inl (upd_same _ _ _)⟩
    | unlock =>
      simp only [lockedAt] at hat; subst hat
      refine ⟨b, k, hlb, Or.inr hc, .unlockX b s, k,
        stUnl x.st (upd x.st.c.parts s (some { p with exclusive := false })) s,
        by simp [hc, pnext, djOpts], by simp [step, stUnl, hp, hlb, unlockRaw, hx, hr1], Or.inr ⟨_, upd_same _ _ _, rfl⟩⟩
  | _ => rw [hc] at hat; simp [lockedAt] at hat

open Logrange.TIndexProg in
/-- **No deadlock**: in every reachable state in which some caller has not returned, some caller can perform a step
that is not a pure wait (its control state or the shared state changes). A caller only ever waits behind an
exclusively locked partition (`moves_or_excl`), and then the locker itself can move (`exclusive_holder_frees`). -/
theorem no_deadlock (x : Sys) (h : Reach x) (a : Nat) (hc : x.ctl a ≠ .fin) :
    ∃ b l c', (l, c') ∈ pnext b x.st (x.ctl b) ∧ Moves x.st (x.ctl b) l c' := by
  have hi := sysInv_reach h
  obtain ⟨o, hl⟩ := hi.locE a
  rcases moves_or_excl hi.st hl hc with ⟨l, c', ho, hm⟩ | ⟨s, p, hp, hx⟩
  · exact ⟨a, l, c', ho, hm⟩
  · obtain ⟨b, k, _, _, l, c', st', ho, hs, hfree⟩ := exclusive_holder_frees x h s p hp hx
    refine ⟨b, l, c', ho, st', hs, Or.inr ?_⟩
    intro e; rw [e, hp] at hfree
    rcases hfree with hf | ⟨p', hp', hx'⟩
    · cases hf
    · cases hp'; rw [hx] at hx'; cases hx'

open Logrange.TIndexProg in
/-- a caller waits only behind an exclusive lock: if no live partition is exclusively locked, every caller that has
not returned can move itself -/
theorem waits_only_behind_exclusive (x : Sys) (h : Reach x) (a : Nat) (hc : x.ctl a ≠ .fin)
    (hno : ∀ s p, x.st.c.parts s = some p → p.exclusive = false) :
    ∃ l c', (l, c') ∈ pnext a x.st (x.ctl a) ∧ Moves x.st (x.ctl a) l c' := by
  have hi := sysInv_reach h
  obtain ⟨o, hl⟩ := hi.locE a
  rcases moves_or_excl hi.st hl hc with hm | ⟨s, p, hp, hx⟩
  · exact hm
  · rw [hno s p hp] at hx; cases hx

open Logrange.TIndexProg in
/-- **Nobody waits after `Shutdown()`**: every caller that has not returned has an option that changes its control
state (acquisitions fail at once, a waiting visit returns `WrongState`, running visitors and `deleteJournal` finish). -/
theorem no_wait_after_shutdown (x : Sys) (h : Reach x) (hd : x.st.done = true) (a : Nat) (hc : x.ctl a ≠ .fin) :
    ∃ l c', (l, c') ∈ pnext a x.st (x.ctl a) ∧ Moves x.st (x.ctl a) l c' := by
  have hi := sysInv_reach h
  obtain ⟨o, hl⟩ := hi.locE a
  exact moves_down hi.st hd hl hc

open Logrange.TIndexProg in
/-- a caller waits for ONE named partition: it can move unless the partition it needs next (`needs`) is exclusively
locked — and as soon as that partition is gone or unlocked, it can move -/
theorem waiter_proceeds_when_free (x : Sys) (h : Reach x) (a : Nat) (hc : x.ctl a ≠ .fin) (s : Nat)
    (hn : needs a x.st (x.ctl a) s)
    (hfree : x.st.c.parts s = none ∨ ∃ p, x.st.c.parts s = some p ∧ p.exclusive = false) :
    ∃ l c', (l, c') ∈ pnext a x.st (x.ctl a) ∧ Moves x.st (x.ctl a) l c' := by
  have hi := sysInv_reach h
  obtain ⟨o, hl⟩ := hi.locE a
  exact waiter_moves_when_free hi.st hl hc s hn hfree

open Logrange.TIndexProg in
/-- **Bounded waiting (liveness in bounded form, k = 1)**. Fairness is taken in its weakest useful form: the holder of the
exclusive lock is scheduled at least once in the run segment (`b ∈ as`; its steps are never waits — `exclusive_holder_frees`).
Then, whatever the other callers do meanwhile (any number of them, any interleaving, `Shutdown()` aside): the lock on `s`
stays with `b` and `b` stays where it is in `deleteJournal` until `b`'s FIRST step; that step frees `s` (deleted or
unlocked); and at that very moment every caller that was waiting for `s` can proceed. A waiter therefore waits for exactly
one step of the holder. (Not claimed: that the waiter itself is scheduled before a NEW `deleteJournal` locks the
partition again — an unfair scheduler can starve it; that needs fairness towards the waiter.) -/
theorem bounded_wait (x z : Sys) (h : Reach x) (as : List Nat) (b s : Nat) (hl : x.st.c.locker s = some b)
    (r : Run x as z) (hb : b ∈ as) :
    ∃ as1 as2 y y', as = as1 ++ b :: as2 ∧ b ∉ as1 ∧ Run x as1 y ∧ y.st.c.locker s = some b ∧ y.ctl b = x.ctl b ∧
      SysStepBy b y y' ∧ Run y' as2 z ∧
      (y'.st.c.parts s = none ∨ ∃ p', y'.st.c.parts s = some p' ∧ p'.exclusive = false) ∧
      ∀ a, y'.ctl a ≠ .fin → needs a y'.st (y'.ctl a) s →
        ∃ l c', (l, c') ∈ pnext a y'.st (y'.ctl a) ∧ Moves y'.st (y'.ctl a) l c' := by
  obtain ⟨as1, as2, y, y', e, n1, r1, l1, c1, s1, r2, f⟩ := first_holder_step_frees as x z h b s hl r hb
  refine ⟨as1, as2, y, y', e, n1, r1, l1, c1, s1, r2, f, ?_⟩
  intro a hc hn
  have hy' : Reach y' := Reach.step (reach_run r1 h) s1.toStep
  exact waiter_proceeds_when_free y' hy' a hc s hn f

/-! ### the per-partition write lock of `partition.Service.Write` (`wrLocks`, since 25f9816 / 3e8b3c3)

`Model/TIndexProgWr.lean`: the system of caller programs extended by the write mutex of every partition — a writer takes it
AFTER its tag-index acquisition and gives it back right after its `Release`; nobody else takes it. -/

open Logrange.TIndexProg in
/-- the extension changes nothing for the tag index: every state of the extended system projects to a reachable state of
the system of caller programs — so every theorem above (protocol, balance, exclusive means alone, …) holds with the write
lock in place -/
theorem write_lock_conservative (z : SysW) (h : ReachW z) : Reach z.x := reachW_reach h

open Logrange.TIndexProg in
/-- **The write lock adds no wait-for cycle**: in every reachable state of the extended system in which some caller has
not returned, some step is possible that is not a pure wait. Lock order: tag-index acquisition → write lock. The holder of a
write lock stands right before its `Release`, which never blocks (it holds an acquisition, so the partition is not
exclusively locked by anybody else); a writer waiting for the write lock waits only for that holder; everybody else waits
as before, only behind `deleteJournal`'s straight-line exclusive section — and `deleteJournal` never takes a write lock. -/
theorem write_lock_no_deadlock (z : SysW) (h : ReachW z) (a : Nat) (hc : z.x.ctl a ≠ .fin) :
    ∃ z', StepW z z' ∧ MovesW z z' := by
  have hr := reachW_reach h
  have hi := winv_reach h
  by_cases h1 : ∃ b s, z.ph b = some (s, true)
  · -- somebody holds a write lock: its `Release` (+ unlock) is enabled
    obtain ⟨b, s, hp⟩ := h1
    have hcb := hi.ctl b s true hp
    have ho : (Lbl.release b s, Ctl.fin) ∈ pnext b z.x.st (z.x.ctl b) := by simp [hcb, pnext, relThen]
    obtain ⟨st', hs⟩ := callers_follow_protocol z.x hr b _ _ ho
    refine ⟨_, StepW.rel (y := ⟨st', upd z.x.ctl b .fin⟩) b s hp ⟨_, _, ho, hs, rfl⟩, Or.inl ?_⟩
    intro e
    have := congrFun e b
    simp only [upd_same] at this
    rw [hcb] at this; cases this
  · by_cases h2 : ∃ b s, z.ph b = some (s, false)
    · -- nobody holds any write lock, so a waiting writer gets the one it wants
      obtain ⟨b, s, hp⟩ := h2
      have hfree : z.wr s = none := by
        cases hw : z.wr s with
        | none => rfl
        | some c => exact absurd ⟨c, s, hi.own s c hw⟩ h1
      refine ⟨_, StepW.take b s hp hfree, Or.inr (Or.inr ?_)⟩
      intro e
      have := congrFun e b
      simp only [upd_same] at this
      rw [hp] at this; simp at this
    · -- no writer is between its acquisition and its `Release`: the system of caller programs as before
      have hnone : ∀ b, z.ph b = none := by
        intro b
        cases hb : z.ph b with
        | none => rfl
        | some sb =>
          obtain ⟨s, bb⟩ := sb
          cases bb with
          | true => exact absurd ⟨b, s, hb⟩ h1
          | false => exact absurd ⟨b, s, hb⟩ h2
      obtain ⟨b, l, c', ho, st', hs, hm⟩ := no_deadlock z.x hr a hc
      refine ⟨_, StepW.base (y := ⟨st', upd z.x.ctl b c'⟩) b (hnone b) ⟨l, c', ho, hs, rfl⟩, ?_⟩
      rcases hm with hm | hm
      · left; intro e
        have := congrFun e b
        simp only [upd_same] at this
        exact hm this
      · right; left; exact hm

/-! non-vacuity of the write-lock theorems -/
namespace WrExample
open Logrange.TIndexProg

/-- two writers to the same tags -/
def ctlW : Nat → Ctl := fun a => if a = 1 then .acqTags 7 true else if a = 2 then .acqTags 7 true else .fin
def u1 : St := (step init (.getOrCreate 1 7 true)).getD init
def u2 : St := (step u1 (.getOrCreate 2 7 true)).getD init
def z0 : SysW := ⟨⟨init, ctlW⟩, fun _ => none, fun _ => none⟩
def y1 : Sys := ⟨u1, upd ctlW 1 (.rel 0 [] .fin)⟩
def z1 : SysW := ⟨y1, z0.wr, upd z0.ph 1 (mark (z0.x.ctl 1) (y1.ctl 1))⟩
def z2 : SysW := ⟨z1.x, upd z1.wr 0 (some 1), upd z1.ph 1 (some (0, true))⟩
def y3 : Sys := ⟨u2, upd y1.ctl 2 (.rel 0 [] .fin)⟩
def z3 : SysW := ⟨y3, z2.wr, upd z2.ph 2 (mark (z2.x.ctl 2) (y3.ctl 2))⟩

theorem reach_z3 : ReachW z3 := by
  have h0 : ReachW z0 := ReachW.start ctlW (by
    intro a; unfold ctlW; split
    · simp [isEntry]
    · split <;> simp [isEntry])
  have h1 : ReachW z1 := ReachW.step h0 (StepW.base 1 rfl ⟨.getOrCreate 1 7 true, .rel 0 [] .fin,
    by simp [pnext, z0, ctlW, init, findTags], rfl, rfl⟩)
  have h2 : ReachW z2 := ReachW.step h1 (StepW.take 1 0 (by decide) rfl)
  exact ReachW.step h2 (StepW.base 2 (by decide) ⟨.getOrCreate 2 7 true, .rel 0 [] .fin, by
    have hf : findTags u1.c.parts 7 u1.c.next = some 0 := by decide
    have hp : u1.c.parts 0 = some ⟨7, 1, false⟩ := by decide
    have hd : u1.done = false := rfl
    simp [pnext, z2, z1, y1, upd, ctlW, hf, hp, hd], rfl, rfl⟩)

/-- writer 1 holds the write lock of partition 0, writer 2 has acquired the partition and waits for the write lock -/
example : z3.wr 0 = some 1 ∧ z3.ph 1 = some (0, true) ∧ z3.ph 2 = some (0, false) ∧
    z3.x.st.c.parts 0 = some ⟨7, 2, false⟩ := by decide
example : ∃ z', StepW z3 z' ∧ MovesW z3 z' := write_lock_no_deadlock z3 reach_z3 2 (by simp [z3, y3, upd])

end WrExample

/-! non-vacuity of the caller-program theorems: a writer and a `Truncate` (with a `MAXDBSIZE` pass over source 0)
start together; the writer creates partition 0 — a reachable state with one unfinished caller holding a partition
and another one about to visit it -/
namespace CallersExample
open Logrange.TIndexProg

def ctl0 : Nat → Ctl := fun a => if a = 0 then .acqTags 7 true else if a = 1 then .vStart (.truncate [0]) [7] else .fin
def st1 : St := (step init (.getOrCreate 0 7 true)).getD init
def sys1 : Sys := ⟨st1, upd ctl0 0 (.rel 0 [] .fin)⟩

theorem reach_sys1 : Reach sys1 := by
  refine Reach.step (Reach.start ctl0 ?_) ⟨0, .getOrCreate 0 7 true, .rel 0 [] .fin, ?_, rfl, rfl⟩
  · intro a; unfold ctl0; split
    · simp [isEntry]
    · split <;> simp [isEntry]
  · simp [pnext, ctl0, init, findTags]

example : sys1.st.c.holds = [⟨0, 0, false⟩] ∧ sys1.ctl 0 = .rel 0 [] .fin := ⟨rfl, rfl⟩
example : ∃ b l c', (l, c') ∈ pnext b sys1.st (sys1.ctl b) ∧ Moves sys1.st (sys1.ctl b) l c' :=
  no_deadlock sys1 reach_sys1 0 (by simp [sys1, upd])
/-- `Shutdown()` while the writer still holds partition 0: the state is reachable, the writer is not stuck (it releases),
and the truncation that has not started yet ends at once -/
example : Reach ⟨{ sys1.st with done := true }, sys1.ctl⟩ := shutdown_reachable sys1 reach_sys1
example : ∃ l c', (l, c') ∈ pnext 1 ({ sys1.st with done := true } : St) (sys1.ctl 1) ∧
    Moves ({ sys1.st with done := true } : St) (sys1.ctl 1) l c' :=
  no_wait_after_shutdown ⟨{ sys1.st with done := true }, sys1.ctl⟩ (shutdown_reachable sys1 reach_sys1) rfl 1
    (by simp [sys1, upd, ctl0])
end CallersExample

/-! non-vacuity of `bounded_wait`: a reachable state in which TRUNCATE (actor 0) holds partition 0 exclusively, right before
`Delete`, while a writer (actor 2) needs it -/
namespace WaitExample
open Logrange.TIndexProg

/-- actor 1 writes to tags 7 (creating partition 0), actor 0 truncates (no `MAXDBSIZE` pass), actor 2 wants to write too -/
def ctlA : Nat → Ctl := fun a =>
  if a = 0 then .vStart (.truncate []) [7] else if a = 1 then .acqTags 7 true else if a = 2 then .acqTags 7 true else .fin
def nx (st : St) (l : Lbl) : St := (step st l).getD init
def t1 : St := nx init (.getOrCreate 1 7 true)
def t2 : St := nx t1 (.release 1 0)
def t3 : St := nx t2 (.visitBegin 0 [7] true false)
def t4 : St := nx t3 (.lockX 0 0)
def c1 : Nat → Ctl := upd ctlA 1 (.rel 0 [] .fin)
def c2 : Nat → Ctl := upd c1 1 .fin
def c3 : Nat → Ctl := upd c2 0 (.vPick (.truncate []) [])
def c4 : Nat → Ctl := upd c3 0 (.dj .delete 0 (.vRet (.truncate []) 0 []))
def x4 : Sys := ⟨t4, c4⟩

theorem reach_x4 : Reach x4 := by
  have h0 : Reach ⟨init, ctlA⟩ := Reach.start ctlA (by
    intro a; unfold ctlA; split
    · simp [isEntry]
    · split
      · simp [isEntry]
      · split <;> simp [isEntry])
  have h1 : Reach ⟨t1, c1⟩ := Reach.step h0 ⟨1, .getOrCreate 1 7 true, .rel 0 [] .fin,
    by simp [pnext, ctlA, init, findTags], rfl, rfl⟩
  have h2 : Reach ⟨t2, c2⟩ := Reach.step h1 ⟨1, .release 1 0, .fin, by simp [pnext, c1, upd, relThen], rfl, rfl⟩
  have h3 : Reach ⟨t3, c3⟩ := Reach.step h2 ⟨0, .visitBegin 0 [7] true false, .vPick (.truncate []) [],
    by simp [pnext, c2, c1, upd, ctlA, skipOf, dnrOf, t2, t1, nx, step, init, findTags, relRaw, mayRelease], rfl, rfl⟩
  exact Reach.step h3 ⟨0, .lockX 0 0, .dj .delete 0 (.vRet (.truncate []) 0 []), by
    have hv : t3.vis 0 = some ⟨true, false, [0], [0], none, false⟩ := by decide
    have hk : lockOk t3 0 = true := by decide
    simp [pnext, c3, upd, hv, skipOf, cbOpts, djOpts, retOpts, hk], rfl, rfl⟩

example : x4.st.c.locker 0 = some 0 := by decide

/-- the truncating actor 0 holds partition 0 exclusively; the writer 2 needs it -/
example : needs 2 x4.st (x4.ctl 2) 0 := by
  show findTags t4.c.parts 7 t4.c.next = some 0
  decide

/-- the holder's only option: `Delete` -/
def t5 : St := nx t4 (.delete 0 0)
def x5 : Sys := ⟨t5, upd c4 0 (.dj .unlock 0 (.vRet (.truncate []) 0 []))⟩
theorem step_x4_x5 : SysStepBy 0 x4 x5 :=
  ⟨.delete 0 0, .dj .unlock 0 (.vRet (.truncate []) 0 []), by simp [pnext, x4, c4, upd, djOpts], rfl, rfl⟩

/-- `bounded_wait` applies: a run segment `[2, 0]` (the waiting writer spins once, then the holder moves) — after the
holder's first step partition 0 is gone and the writer can proceed (it will create the partition anew) -/
example : ∃ y, SysStepBy 2 x4 y ∧ y.st = x4.st :=
  ⟨⟨t4, upd c4 2 (.acqTags 7 true)⟩, ⟨.getOrCreate 2 7 true, .acqTags 7 true, by
    have hf : findTags t4.c.parts 7 t4.c.next = some 0 := by decide
    have hp : t4.c.parts 0 = some ⟨7, 1, true⟩ := by decide
    have hd : t4.done = false := rfl
    simp [pnext, x4, c4, c3, c2, c1, upd, ctlA, hf, hp, hd], by
    show step t4 (.getOrCreate 2 7 true) = some t4
    have hf : findTags t4.c.parts 7 t4.c.next = some 0 := by decide
    have hp : t4.c.parts 0 = some ⟨7, 1, true⟩ := by decide
    have hd : t4.done = false := rfl
    simp [step, hf, hp, hd], rfl⟩, rfl⟩
example : x5.st.c.parts 0 = none := by decide
example := bounded_wait x4 x5 reach_x4 [0] 0 0 (by decide) (Run.cons step_x4_x5 (Run.nil x5)) (by simp)

end WaitExample

/-- what an interrupted waiting visit leaves behind (LTS level): `Partitions` (waiting, auto-release) has visited
partition 0 and still owes its release when `Shutdown()` comes; its next per-item section ends the visit without the
final locked section — the acquisition of partition 0 stays (an orphan), exactly the case `shutdown_orphans` books -/
example : let st := reach (setup2 ++ [.visitBegin 1 [7, 8] false false, .visitTry 1 0, .visitCb 1 0 true, .shutdown, .visitTry 1 1])
    st.c.holds = [⟨1, 0, true⟩] ∧ st.vis 1 = none ∧ st.done = true ∧ st.c.parts 0 = some ⟨7, 1, false⟩ := by decide

/-! ### non-vacuity: concrete traces that meet the hypotheses above -/

/-- `Truncate` deleting an empty partition from inside its (skipping, auto-release) visit while a reader holds
another partition: lock, delete, the no-op unlock, end of the visit on the orphaned descriptor. -/
def trTruncate : List Lbl :=
  [.getOrCreate 0 7 true, .release 0 0, .getOrCreate 0 8 true,          -- partitions 0 (tags 7) and 1 (tags 8, still held by 0)
   .visitBegin 2 [7, 8] true false, .visitCb 2 0 true, .lockX 2 0]

example : (reach trTruncate).c.parts 0 = some ⟨7, 1, true⟩ ∧ (reach trTruncate).c.locker 0 = some 2 ∧
    (reach trTruncate).c.parts 1 = some ⟨8, 2, false⟩ := by decide
example : ((reach (trTruncate ++ [.delete 2 0, .unlockX 2 0, .visitCb 2 1 true, .visitEnd 2, .release 0 1])).c.holds = []) ∧
    (reach (trTruncate ++ [.delete 2 0, .unlockX 2 0, .visitCb 2 1 true, .visitEnd 2, .release 0 1])).c.parts 1 = some ⟨8, 0, false⟩ ∧
    (reach (trTruncate ++ [.delete 2 0, .unlockX 2 0, .visitCb 2 1 true, .visitEnd 2, .release 0 1])).c.parts 0 = none := by decide
/-- a reader arriving while partition 0 is exclusively locked changes nothing (it retries) -/
example : (step (reach trTruncate) (.getTags 5 0 true)).map (·.c.holds.length) = some (reach trTruncate).c.holds.length := by
  decide
/-- the waiting visit: snapshot, partition 0 found locked (wait), then deleted (skipped), partition 1 visited -/
example : let st := reach (trTruncate ++ [.visitBegin 3 [7, 8] false false, .delete 2 0, .visitTry 3 0, .visitTry 3 1,
      .visitCb 3 1 true, .visitEnd 3])
    st.vis 3 = none ∧ st.c.parts 1 = some ⟨8, 2, false⟩ := by decide
/-- a successful `GetJournals` keeps exactly the returned journals acquired -/
example : (reach (setup ++ progGetJournals false 1 [7] [(0, true)])).c.holds = [⟨1, 0, false⟩] := by decide

end Logrange.Props.C14
