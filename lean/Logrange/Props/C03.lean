import Logrange.Proofs.RdPos
import Logrange.Generated.C03
/-!
# C03 — Paged and resumed reading delivers every matching event exactly once

Property theorems only. The executable model is `Logrange/Model/Rd*.lean` (journal iterators, cursor, mixer
tree, fiterator, `Querier.Query` loop, provider), compared step by step with the code by harness/cmd/c03.

Status (see props/C03.json): the position text round trip is proved for all positions; the code-shape facts
the model is written for are re-checked against /repo on every run; the universal statements about the
iterator and the paging chain are kept as `…_stmt : Prop` (not yet proved) with kernel-evaluated bounded
instances beside them; the open findings have counterexample theorems evaluated on the model.
-/
namespace Logrange.Props.C03
open Logrange.Rd Logrange.Generated.C03

/-- The code still has the shape the model mirrors (each conjunct is one of the repaired defects or a
structural fact of the two query loops); regenerated from /repo on every run. -/
theorem code_shape_facts :
    offsetPositiveBranchSettles = true ∧ fiteratorSetBackwardDropsCache = true ∧ backwardEofKeepsPos = true ∧
    fwdEndPosFromDecisionCount = true ∧ bothLoopsClampAndCount = true ∧ cacheIsWaitOrClamped = true := by decide

/-- widths of the position text as the code has them now -/
theorem pos_widths_generated :
    posCidWidth = 16 ∧ posIdxWidth = 8 ∧ posParseLen = 24 ∧ posParseCut = 16 ∧
    posJrnlSplit = ":" ∧ posJrnlVal = "=" := by decide

/-- **`ParsePos (Pos.String p) = p`** for every chunk id below 2^64 and record index below 2^32, with the
widths read from the code. -/
theorem pos_string_roundtrip (p : Pos) (hc : p.cid < 2 ^ 64) (hi : p.idx < 2 ^ 32) :
    parsePosW posParseCut (posParseLen - posParseCut) (showPosW posCidWidth posIdxWidth p) = some p := by
  have h : posCidWidth = 16 ∧ posIdxWidth = 8 ∧ posParseLen = 24 ∧ posParseCut = 16 := by decide
  rw [h.1, h.2.1, h.2.2.1, h.2.2.2]
  exact parsePosW_showPosW 16 8 p (by decide) (by simpa using hc) (by simpa using hi)

theorem pos_string_roundtrip' (p : Pos) (hc : p.cid < 2 ^ 64) (hi : p.idx < 2 ^ 32) :
    parsePos (showPos p) = some p :=
  parsePosW_showPosW 16 8 p (by decide) (by simpa using hc) (by simpa using hi)

/-- the empty text is position zero (`head`) -/
theorem pos_empty_is_zero : parsePos [] = some {} := by decide

example : parsePos (showPos ⟨0x18D8DAD11BBA0000, 7⟩) = some ⟨0x18D8DAD11BBA0000, 7⟩ :=
  pos_string_roundtrip' _ (by decide) (by decide)

/-! ## the universal statements (kept as statements; bounded instances below) -/

/-- draining the library iterator forward: `get`, emit, `next`, until EOF -/
def drain (j : Journal) : Nat → It → List Rec
  | 0, _ => []
  | n + 1, it =>
    match get j it with
    | (it', some r) => r :: drain j n (next j it')
    | (_, none) => []

/-- **iter_enumerates** (statement): from any position, a forward drain delivers exactly the records from the
normalised position on, across chunk edges and empty chunks. -/
def iter_enumerates_stmt : Prop :=
  ∀ (j : Journal) (p : Pos), Sorted j →
    drain j ((flat j).length + 1) (setPos j {} p) = recordsFrom j p

/-- one partition, un-ranged: the server with that partition, a chain of pages -/
def onePart (j : Journal) : Server := { store := [(0, j)] }
def qAll (w : Bool) : Qry := { text := 1, where_ := w }
def keepOf (w : Bool) (r : Rec) : Bool := !w || r.keep

/-- **paging** (statement): for one partition, every sequence of limits and every resume choice per page, the
concatenated pages are the first Σ limits events of the unlimited read. -/
def paging_stmt : Prop :=
  ∀ (j : Journal) (w : Bool) (l0 : Nat) (steps : List Step), Sorted j →
    (∀ s ∈ steps, s.store' = none) →
    (pages queryMaxLimit (onePart j) [] { query := some (qAll w), limit := l0, wait := true } steps).flatten
      = (((flat j).filter (keepOf w)).take
          ((l0 :: steps.map (·.limit)).map (fun l => min l queryMaxLimit)).sum)

/-! ### bounded instances, evaluated by the kernel on the model -/

def r (l : Nat) (k : Bool := true) : Rec := { lbl := l, ts := l, keep := k }
/-- three chunks, the middle one empty -/
def j3 : Journal := [⟨10, [r 0, r 1 false, r 2], 0, maxU32⟩, ⟨20, [], 0, maxU32⟩, ⟨30, [r 3, r 4 false, r 5], 0, maxU32⟩]

/-- `iter_enumerates` on `j3` for every position on a grid that covers before/inside/between/after the
chunks, idx 0..4 and `tail` -/
theorem iter_enumerates_j3 :
    ∀ cid ∈ [0, 9, 10, 11, 19, 20, 21, 30, 31, tailCid], ∀ idx ∈ [0, 1, 2, 3, 4, maxU32],
      drain j3 7 (setPos j3 {} ⟨cid, idx⟩) = recordsFrom j3 ⟨cid, idx⟩ := by decide

def stepsOf (ls : List Nat) (rs : List Resume) : List Step :=
  (ls.zip rs).map (fun p => { resume := p.2, limit := p.1, wait := true })

/-- `paging` on `j3`, with and without WHERE: first limit 1..3, then two more pages with limits from 1..3 and
every resume choice (follow / evicted / id zeroed / position only) -/
theorem paging_j3 :
    ∀ w ∈ [false, true], ∀ l0 ∈ [1, 2, 3], ∀ l1 ∈ [1, 2, 3], ∀ l2 ∈ [1, 3],
    ∀ r1 ∈ [Resume.follow, .evicted, .zeroId, .posOnly], ∀ r2 ∈ [Resume.follow, .evicted, .zeroId, .posOnly],
      (pages queryMaxLimit (onePart j3) [] { query := some (qAll w), limit := l0, wait := true }
          (stepsOf [l1, l2] [r1, r2])).flatten
        = ((flat j3).filter (keepOf w)).take (l0 + l1 + l2) := by decide +kernel

/-! ## open findings: counterexamples evaluated on the model -/

/-- #22: a held cursor, WHERE; page 1, page 2, then page 2's request again (same id, the older position):
the repeated answer differs from page 2 — it starts with the event the fiterator had buffered. -/
theorem cex_stale_buffer_same_id_older_pos :
    let q : Qry := qAll true
    let j : Journal := [⟨10, [r 0, r 1, r 2, r 3, r 4, r 5], 0, maxU32⟩]
    let (s1, p1) := query queryMaxLimit (onePart j) [] { query := some q, limit := 2, wait := true }
    let (s2, p2) := query queryMaxLimit s1 [] p1.next
    let (_, p3) := query queryMaxLimit s2 [] p1.next
    p2.events.map (·.lbl) = [2, 3] ∧ p3.events.map (·.lbl) = [4, 3] := by decide +kernel

/-- #35: a first page served while no partition matches answers with an empty next request; following it
never delivers anything once the partition exists, the original request does. -/
theorem cex_empty_first_page_loses_query :
    let q : Qry := qAll false
    let j : Journal := [⟨10, [r 0, r 1], 0, maxU32⟩]
    let (s1, p1) := query queryMaxLimit ({} : Server) [] { query := some q, limit := 5 }
    let s1' : Server := { s1 with store := [(0, j)] }
    let (_, p2) := query queryMaxLimit s1' [] { p1.next with limit := 5 }
    let (_, p2') := query queryMaxLimit s1' [] { query := some q, limit := 5 }
    p1.next.query = none ∧ p2.events = [] ∧ p2.next.query = none ∧ p2'.events.map (·.lbl) = [0, 1] := by decide +kernel

/-- #40: a held cursor never sees a partition created after it; the same chain resumed by position only does. -/
theorem cex_held_cursor_misses_new_partition :
    let q : Qry := qAll false
    let j0 : Journal := [⟨10, [r 0, r 1], 0, maxU32⟩]
    let j1 : Journal := [⟨10, [r 100000, r 100001], 0, maxU32⟩]
    let (s1, p1) := query queryMaxLimit (onePart j0) [] { query := some q, limit := 1, wait := true }
    let s1' : Server := { s1 with store := [(0, j0), (1, j1)] }
    let (_, p2) := query queryMaxLimit s1' [0, 1] { p1.next with limit := 10 }
    let (_, p2') := query queryMaxLimit s1' [0, 1] { query := some q, pos := p1.next.pos, limit := 10 }
    p2.events.map (·.lbl) = [1] ∧ p2'.events.map (·.lbl) = [1, 100000, 100001] := by decide +kernel

end Logrange.Props.C03
