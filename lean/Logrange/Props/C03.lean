import Logrange.Proofs.RdPos
import Logrange.Proofs.RdIterFwd
import Logrange.Proofs.RdPaging
import Logrange.Proofs.RdQueryLift
import Logrange.Proofs.RdResend
import Logrange.Proofs.RdMerge2
import Logrange.Generated.C03
/-!
# C03 — Paged and resumed reading delivers every matching event exactly once

Property theorems only. The executable model is `Logrange/Model/Rd*.lean` (journal iterators, cursor, mixer
tree, fiterator, `Querier.Query` loop, provider), compared step by step with the code by harness/cmd/c03.

Status (see props/C03.json): proved for ALL inputs — the position text round trip, the forward laws of the
library journal iterator (`get_forward`, `next_forward`, `iter_enumerates`, `pos_after`), stability of positions
under appends, and `paging` / `appends_between_pages` for one partition at the level of the cursor (read loop +
commit; same cursor object or fresh cursor from the position text). The lift of `paging` to the request level
(`query`/`pages`, ids and held cursors) is a statement with a kernel-evaluated instance. The code-shape facts
the model is written for are re-checked against /repo on every run; the open findings have counterexample
theorems evaluated on the model.
-/
namespace Logrange.Props.C03
open Logrange.Rd Logrange.Generated.C03

/-- The code still has the shape the model mirrors (each conjunct is one of the repaired defects or a
structural fact of the two query loops); regenerated from /repo on every run. -/
theorem code_shape_facts :
    offsetPositiveBranchSettles = true ∧ fiteratorSetBackwardDropsCache = true ∧ backwardEofKeepsPos = true ∧
    fwdEndPosFromDecisionCount = true ∧ bothLoopsClampAndCount = true ∧ cacheIsWaitOrClamped = true ∧
    newCursorSortsSources = true ∧ emptyCursorKeepsState = true ∧ applyStateDropsBuffers = true ∧
    advanceKeepsIteratorPos = true := by decide

/-- widths of the position text as the code has them now -/
theorem pos_widths_generated :
    posCidWidth = 16 ∧ posIdxWidth = 8 ∧ posParseLen = 24 ∧ posParseCut = 16 ∧
    posJrnlSplit = ":" ∧ posJrnlVal = "=" := by decide

/-- **`ParsePos (Pos.String p) = p`** for every chunk id below 2^64 and record index below 2^32, with the
widths read from the code. -/
theorem pos_string_roundtrip (p : Pos) (hc : p.cid < 2 ^ 64) (hi : p.idx < 2 ^ 32) :
    parsePosW posParseCut (posParseLen - posParseCut) (showPosW posCidWidth posIdxWidth p) = some p := by
  have h : posCidWidth = 16 ∧ posIdxWidth = 8 ∧ posParseLen = 24 ∧ posParseCut = 16 := by decide
  rw [h.1, h.2.1, h.2.2.1, h.2.2.2]
  exact parsePosW_showPosW 16 8 p (by decide) (by simpa using hc) (by simpa using hi)

theorem pos_string_roundtrip' (p : Pos) (hc : p.cid < 2 ^ 64) (hi : p.idx < 2 ^ 32) :
    parsePos (showPos p) = some p :=
  parsePosW_showPosW 16 8 p (by decide) (by simpa using hc) (by simpa using hi)

/-- the empty text is position zero (`head`) -/
theorem pos_empty_is_zero : parsePos [] = some {} := by decide

example : parsePos (showPos ⟨0x18D8DAD11BBA0000, 7⟩) = some ⟨0x18D8DAD11BBA0000, 7⟩ :=
  pos_string_roundtrip' _ (by decide) (by decide)

/-! ## the journal iterator (library `journal.JIterator`), forward, for ALL journals and positions

`flatIdx j p` = number of records stored strictly before `p`; `recordsFrom j p = (flat j).drop (flatIdx j p)`.
`WF j it` holds for every iterator state the code can reach (in particular for a fresh iterator positioned by
`SetPos`, whatever the position: before/inside/between/after the chunks, `tail`). -/

/-- `Get` returns the record at the iterator's flat index (EOF = past the end) and does not move -/
theorem get_forward (j : Journal) (it : It) (hs : Sorted j) (hw : WF j it) (hb : it.bkwd = false) :
    (get j it).2 = (flat j)[fIdx j it]? ∧ fIdx j (get j it).1 = fIdx j it ∧ WF j (get j it).1 :=
  let h := getFwd j it hs hw hb; ⟨h.1, h.2.2.2.1, h.2.1⟩

/-- `Next` advances the flat index by exactly one (it stays at the end) -/
theorem next_forward (j : Journal) (it : It) (hs : Sorted j) (hw : WF j it) (hb : it.bkwd = false) :
    fIdx j (next j it) = min (fIdx j it + 1) (flat j).length ∧ WF j (next j it) :=
  let h := nextFwd j it hs hw hb; ⟨h.2.2.2, h.1⟩

/-- **iter_enumerates**: from ANY position, draining the iterator (`Get`, emit, `Next`, until EOF) delivers
exactly the records from the normalised position on — across chunk edges and empty chunks. -/
theorem iter_enumerates (j : Journal) (p : Pos) (n : Nat) (hs : Sorted j) (hn : (flat j).length ≤ n) :
    drain j n (setPos j {} p) = recordsFrom j p := by
  obtain ⟨h1, h2, h3⟩ := setPos_fresh j p
  have hw : WF j (setPos j {} p) := by unfold WF; rw [h1]; trivial
  have := Logrange.Rd.iter_enumerates j (setPos j {} p) n hs hw h3 hn
  rw [this]; unfold effPos; rw [h1]; simp [h2]

/-- with any fuel: the first `n` of them -/
theorem drain_take (j : Journal) (it : It) (n : Nat) (hs : Sorted j) (hw : WF j it) (hb : it.bkwd = false) :
    drain j n it = (recordsFrom j (effPos it)).take n := drain_eq j it n hs hw hb

/-- **pos_after**: after `k` rounds of `Get; Next` the iterator stands at the (k+1)-th remaining record -/
theorem pos_after (j : Journal) (it : It) (k : Nat) (hs : Sorted j) (hw : WF j it) (hb : it.bkwd = false) :
    fIdx j (stepK j k it) = min (fIdx j it + k) (flat j).length :=
  (Logrange.Rd.pos_after j it k hs hw hb).1

/-- appends do not move a settled position and only extend what is stored behind it -/
theorem position_survives_appends (j j' : Journal) (p : Pos) (hg : Grows j j') (hs : Sorted j') (hp : Settled j p) :
    flatIdx j' p = flatIdx j p ∧ recordsFrom j p <+: recordsFrom j' p := by
  obtain ⟨⟨e, he⟩, h2, _⟩ := grows j j' hg hs
  refine ⟨(h2 p hp).1, ?_⟩
  unfold recordsFrom
  rw [(h2 p hp).1, ← he, List.drop_append_of_le_length (pg_flatIdx_le j p)]
  exact List.prefix_append _ _

/-! ## paging, one partition (un-ranged), for ALL journals, limits and environment choices

A page is the read loop of `Querier.Query` followed by `commit` (`pageOn`); before every further page the
environment chooses: the server still holds the cursor object (`same`) or a new cursor is built from the
position text of the previous answer (`fresh`: evicted cursor, request id zeroed and position-only requests
are this case). `pagesC` starts at `head`. `keepW w` is the WHERE filter (`w = false`: no filter). -/

/-- **paging**: the concatenated pages are the first Σ limits events of the unlimited read. -/
theorem paging (name : Nat) (w : Bool) (j : Journal) (l0 : Nat) (steps : List PStep) (hs : Sorted j)
    (hfix : ∀ st ∈ steps, st.jrnl = j) :
    (pagesC name w j l0 steps).flatten = ((flat j).filter (keepW w)).take (l0 + (steps.map (·.limit)).sum) :=
  pg_paging getFwd nextFwd hs l0 steps hfix

/-- **appends_between_pages**: when the journal grows between pages (`GrowsChain`: appends only), the
concatenated pages are a prefix of the matching events of the FINAL journal in stored order — nothing twice,
nothing foreign, later appends later — and if the last page came back shorter than its limit they are all of them. -/
theorem appends_between_pages (name : Nat) (w : Bool) (j0 : Journal) (l0 : Nat) (steps : List PStep)
    (hne : j0 ≠ []) (hs : Sorted j0) (hch : GrowsChain j0 steps) :
    ∃ R, (flat (lastJ j0 steps)).filter (keepW w) = (pagesC name w j0 l0 steps).flatten ++ R ∧
      (∀ st evs, steps.getLast? = some st → (pagesC name w j0 l0 steps).getLast? = some evs →
        evs.length < st.limit → R = []) :=
  pg_pages_grow getFwd nextFwd grows j0 l0 steps hne hs hch

/-! ## paging over a MERGED cursor of two partitions, for ALL journals, limits and environment choices

`pages2 n1 n2 j1 j2 l0 steps`: the cursor `newCursor` builds over two partitions (the faithful mixer-tree model:
two `LogEventIterator` leaves under one `Mixer`, no filter), first page from `head`, then per step the held
cursor object continues (`same`: the mixer keeps its selected head over `Release`) or a new cursor is built from
the position text of both partitions (`fresh`). -/

/-- **paging_two_partitions**: the concatenated pages are the first Σ limits events of the timestamp merge of the two
partitions (ties to the first source in leaf order) — whatever the limits and whatever is chosen per page. -/
theorem paging_two_partitions (n1 n2 : Nat) (j1 j2 : Journal) (l0 : Nat) (steps : List (Choice × Nat))
    (hs1 : Sorted j1) (hs2 : Sorted j2) (hne : n1 ≠ n2) :
    (pages2 n1 n2 j1 j2 l0 steps).flatten =
      (List.merge (flat j1) (flat j2) leTs).take (l0 + (steps.map (·.2)).sum) :=
  m2_paging getFwd nextFwd hs1 hs2 hne l0 steps

/-- … and that merge is the property's unlimited read: the same multiset as the two partitions together, each
partition's events in stored order (so every event exactly once, nothing foreign). -/
theorem merged_read_is_interleaving (j1 j2 : Journal) :
    (List.merge (flat j1) (flat j2) leTs).Perm (flat j1 ++ flat j2) ∧
    (flat j1).Sublist (List.merge (flat j1) (flat j2) leTs) ∧
    (flat j2).Sublist (List.merge (flat j1) (flat j2) leTs) :=
  ⟨List.merge_perm_append leTs, m2_sublist_left leTs _ _, m2_sublist_right leTs _ _⟩

/-- one `Get` of the merged cursor returns the head of the merge and one `Next` consumes it (any state) -/
theorem merged_get_next (n1 n2 : Nat) (j1 j2 : Journal) (c : Cur) (a b : Nat) (hs1 : Sorted j1) (hs2 : Sorted j2)
    (h : Abs2 n1 n2 j1 j2 c a b) :
    (curGet c).2 = (R2 j1 j2 a b).head? ∧
    ∃ a' b', Abs2 n1 n2 j1 j2 (curNext c) a' b' ∧ R2 j1 j2 a' b' = (R2 j1 j2 a b).tail :=
  ⟨(m2_curGet_abs getFwd nextFwd hs1 hs2 h).1, m2_curNext_abs getFwd nextFwd hs1 hs2 h⟩

/-- non-vacuity: two partitions with a timestamp tie, a fresh cursor and then the same one -/
example : (pages2 0 1 [⟨10, [⟨0, 0, true⟩, ⟨2, 2, true⟩], 0, maxU32⟩] [⟨10, [⟨1, 1, true⟩, ⟨2, 2, false⟩], 0, maxU32⟩] 1
      [(.fresh, 2), (.same, 5)]).flatten = [⟨0, 0, true⟩, ⟨1, 1, true⟩, ⟨2, 2, true⟩, ⟨2, 2, false⟩] := by decide +kernel

/-! ### the same chain through `Querier.Query` and the provider -/

/-- one partition, un-ranged: the server with that partition, a chain of pages -/
def onePart (j : Journal) : Server := { store := [(0, j)] }
def qAll (w : Bool) : Qry := { text := 1, where_ := w }
def keepOf (w : Bool) (r : Rec) : Bool := !w || r.keep

/-- the statement of `paging` at the level of `Logrange.Rd.pages`: `Querier.Query` with its limit clamp and cache
flag, the provider (held cursor found by request id + `ApplyState`, new cursor otherwise, ids zeroed on release of
an un-held cursor) and a client that follows / zeroes the id / sends only the position / meets an evicted cursor -/
def paging_query_level_stmt : Prop :=
  ∀ (j : Journal) (w : Bool) (l0 : Nat) (steps : List Step), Sorted j →
    (∀ s ∈ steps, s.store' = none) →
    (pages queryMaxLimit (onePart j) { query := some (qAll w), limit := l0, wait := true } steps).flatten
      = (((flat j).filter (keepOf w)).take
          ((l0 :: steps.map (·.limit)).map (fun l => min l queryMaxLimit)).sum)

/-- **paging at the request level**, for all journals, limits (clamped by `QueryMaxLimit`) and resume modes -/
theorem paging_query_level : paging_query_level_stmt := by
  intro j w l0 steps hs hall
  have := ql_pages getFwd nextFwd (j := j) (w := w) hs queryMaxLimit l0 true steps hall
  have hk : keepOf = keepW := rfl
  simpa [onePart, qAll, qOne, hk] using this

/-! ### bounded instances, evaluated by the kernel on the model -/

def r (l : Nat) (k : Bool := true) : Rec := { lbl := l, ts := l, keep := k }
/-- three chunks, the middle one empty -/
def j3 : Journal := [⟨10, [r 0, r 1 false, r 2], 0, maxU32⟩, ⟨20, [], 0, maxU32⟩, ⟨30, [r 3, r 4 false, r 5], 0, maxU32⟩]

example : Sorted j3 ∧ j3 ≠ [] := ⟨by unfold Sorted j3; decide, by simp [j3]⟩
/-- the cursor-level chain of `paging` on `j3`: a fresh cursor, then the same one -/
example : (pagesC 0 true j3 1 [⟨.fresh, 2, j3⟩, ⟨.same, 1, j3⟩]).flatten = ((flat j3).filter (keepW true)).take 4 := by
  decide +kernel

/-- `iter_enumerates` on `j3` for every position on a grid that covers before/inside/between/after the
chunks, idx 0..4 and `tail` -/
theorem iter_enumerates_j3 :
    ∀ cid ∈ [0, 9, 10, 11, 19, 20, 21, 30, 31, tailCid], ∀ idx ∈ [0, 1, 2, 3, 4, maxU32],
      drain j3 7 (setPos j3 {} ⟨cid, idx⟩) = recordsFrom j3 ⟨cid, idx⟩ := by decide +kernel

def stepsOf (ls : List Nat) (rs : List Resume) : List Step :=
  (ls.zip rs).map (fun p => { resume := p.2, limit := p.1, wait := true })

/-- `paging` on `j3`, with and without WHERE: first limit 1..3, then two more pages with limits from 1..3 and
every resume choice (follow / evicted / id zeroed / position only) -/
theorem paging_j3 :
    ∀ w ∈ [false, true], ∀ l0 ∈ [1, 2, 3], ∀ l1 ∈ [1, 2, 3], ∀ l2 ∈ [1, 3],
    ∀ r1 ∈ [Resume.follow, .evicted, .zeroId, .posOnly], ∀ r2 ∈ [Resume.follow, .evicted, .zeroId, .posOnly],
      (pages queryMaxLimit (onePart j3) { query := some (qAll w), limit := l0, wait := true }
          (stepsOf [l1, l2] [r1, r2])).flatten
        = ((flat j3).filter (keepOf w)).take (l0 + l1 + l2) := by decide +kernel

/-! ## open findings: counterexamples evaluated on the model -/

/-- the old witness of #22 (repaired by 0706090), now passing: a held cursor, WHERE; page 1, page 2, then page 2's
request again (same id, the older position) repeats page 2 (it used to start with the event the fiterator had buffered). -/
theorem resend_older_pos_filtered :
    let q : Qry := qAll true
    let j : Journal := [⟨10, [r 0, r 1, r 2, r 3, r 4, r 5], 0, maxU32⟩]
    let (s1, p1) := query queryMaxLimit (onePart j) { query := some q, limit := 2, wait := true }
    let (s2, p2) := query queryMaxLimit s1 p1.next
    let (_, p3) := query queryMaxLimit s2 p1.next
    p2.events.map (·.lbl) = [2, 3] ∧ p3.events.map (·.lbl) = [2, 3] := by decide +kernel

/-- `ApplyState` with a position that differs from the held cursor's own yields the re-positioned cursor with its
buffers dropped (0706090; the code shape is the regenerated fact `applyStateDropsBuffers` in `code_shape_facts`). -/
theorem applyState_repaired (h : Held) (qt : Nat) (m : List (Nat × Pos))
    (hq : h.qtext = qt) (hne : h.pos ≠ .map m) :
    applyState h qt (.map m) =
      some { h with pos := .map m, cur := curSetBackward (curSetBackward (applyStatePos h.cur m) true) false } := by
  simp [applyState, hq, hne]

/-- **a re-sent page is the page a fresh cursor serves** (one partition, un-ranged, ± WHERE; ALL journals, ANY state
of the held cursor — in particular with an event cached in its fiterator —, any settled position, any limit): the
re-positioned held cursor of `applyState_repaired` and a new cursor built from the position text deliver the same
page, the first `lim` matching records from that position. -/
theorem resent_page_is_fresh_page (name : Nat) (j : Journal) (w : Bool) (c : Cur) (i : Nat) (p : Pos) (lim : Nat)
    (hs : Sorted j) (h : Abs name j w true c i) (hp : Settled j p) :
    (pageOn lim (curSetBackward (curSetBackward (applyStatePos c [(name, p)]) true) false)).2.1
        = (FL j w (flatIdx j p)).take lim ∧
    (pageOn lim (applyStatePos (mk1 name j w) [(name, p)])).2.1 = (FL j w (flatIdx j p)).take lim :=
  ⟨(pg_pageOn_abs getFwd nextFwd hs lim (rs_reposition hs h hp)).1,
   (pg_pageOn_abs getFwd nextFwd hs lim (pg_fresh_abs name j w p)).1⟩

/-- the merged witness of #22, now passing: two partitions WITHOUT any filter, page 1, page 2, page 2's request again
repeats page 2 (the `Mixer`'s selected head used to survive `ApplyState`: stale head first, event 1 lost). -/
theorem resend_older_pos_merged :
    let q : Qry := qAll false
    let rt (l : Nat) (t : Int) : Rec := { lbl := l, ts := t }
    let s0 : Server := { store := [(0, [⟨10, [rt 0 10, rt 1 12, rt 2 14], 0, maxU32⟩]),
                                    (1, [⟨10, [rt 100000 11, rt 100001 13], 0, maxU32⟩])] }
    let (s1, p1) := query queryMaxLimit s0 { query := some q, limit := 2, wait := true }
    let (s2, p2) := query queryMaxLimit s1 p1.next
    let (_, p3) := query queryMaxLimit s2 p1.next
    p1.events.map (·.lbl) = [0, 100000] ∧ p2.events.map (·.lbl) = [1, 100001] ∧
      p3.events.map (·.lbl) = [1, 100001] := by decide +kernel

/-! ### a chain that starts while no partition matches (finding #35, repaired by a8a4a54) -/

/-- **no matching partition: the answer hands the request back** — no events, and the next request carries the
same query and position with request id 0 (and the clamped limit), for EVERY store without a matching partition. -/
theorem empty_page_keeps_query (M : Nat) (srv : Server) (req : Req) (q : Qry) (hq : req.query = some q)
    (hid : req.id = 0) (hno : resolve srv.store q = []) :
    (query M srv req).2.events = [] ∧ (query M srv req).2.next.query = some q ∧
    (query M srv req).2.next.pos = req.pos ∧ (query M srv req).2.next.id = 0 ∧
    ((query M srv req).1.store = srv.store) := by
  simp [query, hq, hid, newCur, hno, sortSrcs]

/-- … so following it is asking the original question again: once the partition exists, the followed chain
delivers its events (the old witness of #35, now passing). -/
theorem chain_started_empty_delivers :
    let q : Qry := qAll false
    let j : Journal := [⟨10, [r 0, r 1], 0, maxU32⟩]
    let (s1, p1) := query queryMaxLimit ({} : Server) { query := some q, limit := 5 }
    let s1' : Server := { s1 with store := [(0, j)] }
    let (_, p2) := query queryMaxLimit s1' { p1.next with limit := 5 }
    p1.events = [] ∧ p1.next.query = some q ∧ p2.events.map (·.lbl) = [0, 1] := by decide +kernel

/-! ### the ranged tail reader at the end of the LAST chunk (finding F59, the second half of #34; repaired by 008ef8e)

One chunk (id 10). The reader has delivered the 3 confirmed records and asks for the next one: its chunk iterator
answers EOF against the journal as it is (`jd`, 3 records); before `advanceChunk → ensureChkIt → getPosForward` read
the chunk's count in the `idx == n` branch the writer confirms 7 more (`ja`, 10 records). `rGetObs jd ja` is that
call with the observation split. -/

def f59jd : Journal := [⟨10, [r 0, r 1, r 2], 0, maxU32⟩]
def f59ja : Journal := [⟨10, [r 0, r 1, r 2, r 3, r 4, r 5, r 6, r 7, r 8, r 9], 0, maxU32⟩]
/-- the reader after three `Get; Next` rounds over `jd` -/
def f59reader : RIt := rNext f59jd (rNext f59jd (rNext f59jd {}))

/-- the old witness, now passing: the call answers EOF, the position stays where the chunk iterator stopped, (10, 3),
and the next calls deliver records 3..9 (the position used to jump to (10, 10): records 3..9 lost for good). -/
theorem tail_no_skip_last_chunk :
    (rGetObs f59jd f59ja f59reader).2 = none ∧ (rGetObs f59jd f59ja f59reader).1.pos = ⟨10, 3⟩ ∧
    (rDrain f59ja 20 (rGetObs f59jd f59ja f59reader).1).map (·.lbl) = [3, 4, 5, 6, 7, 8, 9] := by decide +kernel

/-- the same for every amount confirmed before (1..4 of 6 records) and a growth to all 6 -/
theorem tail_no_skip_last_chunk_grid :
    let all := [r 0, r 1, r 2, r 3, r 4, r 5]
    ∀ c1 ∈ [1, 2, 3, 4],
      let jd : Journal := [⟨10, all.take c1, 0, maxU32⟩]
      let ja : Journal := [⟨10, all, 0, maxU32⟩]
      let reader := (List.range c1).foldl (fun s _ => rNext jd s) ({} : RIt)
      rDrain ja 20 (rGetObs jd ja reader).1 = all.drop c1 := by decide +kernel

/-- #40: a held cursor never sees a partition created after it; the same chain resumed by position only does. -/
theorem cex_held_cursor_misses_new_partition :
    let q : Qry := qAll false
    let j0 : Journal := [⟨10, [r 0, r 1], 0, maxU32⟩]
    let j1 : Journal := [⟨10, [r 100000, r 100001], 0, maxU32⟩]
    let (s1, p1) := query queryMaxLimit (onePart j0) { query := some q, limit := 1, wait := true }
    let s1' : Server := { s1 with store := [(0, j0), (1, j1)] }
    let (_, p2) := query queryMaxLimit s1' { p1.next with limit := 10 }
    let (_, p2') := query queryMaxLimit s1' { query := some q, pos := p1.next.pos, limit := 10 }
    p2.events.map (·.lbl) = [1] ∧ p2'.events.map (·.lbl) = [1, 100000, 100001] := by decide +kernel

end Logrange.Props.C03
