import Logrange.Props.C04Journal
import Logrange.Proofs.RdRngSource
/-!
# C04 on RANGE queries: the multi-partition read over the ranged journal iterator

`RSrc` (`Proofs/RdRngSource.lean`, property C03/C16's file, imported read-only) is `LogEventIterator` over `partition.JIterator`
— the iterator `newCursor` makes for every partition when the query has a RANGE — on the model of C03/C16
(`Model/RdSelector.lean`), proved there to meet the mixer's leaf contract (`instLawfulRSrc`; property theorem
`Logrange.Props.C03Merged.ranged_iterator_lawful`, both directions, hypotheses `GoodJournal` and `RWF`). So the theorems of
`Props/C04.lean` apply to merged cursors of RANGE queries as well. `s.all` = the records of the partition that the chunk windows of
the time index ADMIT (`Rd.wflat`), in stored order, as events under the partition's tag line: what a ranged read of that partition
alone delivers below the filter. (The exact comparison with the range bounds is made once more above the mixer tree, by the filter
iterator, event by event — it drops events and relabels nothing.)
-/
namespace Logrange.Props.C04Ranged
open Logrange.Mixer Logrange.MixTree LawfulSource Logrange.Props.C04 Logrange.Props.C04Journal

/-- **a cursor over n RANGE-read partitions, forward from the head**: for every `n ≥ 1`, every order of the partitions, every
content and chunking, every set of chunk windows, with `Release` calls anywhere: the read is a permutation of the concatenated
single ranged reads (every admitted record exactly once, under its partition's tag line), each partition's stored order is kept,
and it is ascending in time whenever every single ranged read is. -/
theorem multi_read_journals_ranged (srcs : List RSrc) (hne : srcs ≠ [])
    (hg : ∀ s ∈ srcs, GoodJournal s.j ∧ s.it = {})
    (rel : Nat → Bool × Bool) (f : Nat) (hf : (srcs.flatMap RSrc.all).length < f) :
    ∃ t, build srcs = some t ∧
      let read := t.drainRel rel f 0
      read.Perm (srcs.flatMap RSrc.all) ∧
      (∀ s ∈ srcs, s.all.Sublist read) ∧
      ((∀ s ∈ srcs, Ascending s.all) → Ascending read) ∧
      (∀ e ∈ read, ∃ s ∈ srcs, e ∈ s.all ∧ e.tags = s.tags) := by
  have hv : ∀ s ∈ srcs, view s = s.all := by
    intro s hs
    obtain ⟨_, hi⟩ := hg s hs
    obtain ⟨tags, j, it⟩ := s
    simp only at hi; subst hi
    exact RSrc.view_head tags j
  have hw : ∀ s ∈ srcs, wf s ∧ dir s = false := by
    intro s hs
    obtain ⟨⟨h1, h2, h3⟩, hi⟩ := hg s hs
    refine ⟨⟨h1, h2, h3, ?_⟩, ?_⟩
    · rw [hi]; simp [Rd.RWF, Rd.RStats]
    · show s.it.bkwd = false; rw [hi]
  have hfm : srcs.flatMap view = srcs.flatMap RSrc.all := JSrc.flatMap_congr' hv
  obtain ⟨t, ht, R⟩ := multi_read srcs hne hw rel f (by rw [hfm]; exact hf)
  simp only at R
  obtain ⟨r1, r2, r3, r4⟩ := R
  refine ⟨t, ht, hfm ▸ r1, fun s hs => hv s hs ▸ r2 s hs, ?_, ?_⟩
  · intro ha; exact r3 (fun s hs => (hv s hs).symm ▸ ha s hs)
  · intro e he
    obtain ⟨s, hs, hes⟩ := r4 e he
    rw [hv s hs] at hes
    refine ⟨s, hs, hes, ?_⟩
    simp only [RSrc.all, List.mem_map] at hes
    obtain ⟨r, _, rfl⟩ := hes; rfl

/-- **the same cursor placed at the tail and walked backward** (a RANGE query with `POSITION tail` and a negative offset): every
ranged iterator stands behind all chunks of its journal, the cursor is switched backward and read: a permutation of the
concatenated single ranged reads, each partition in *reversed* stored order, descending in time whenever every single ranged
read is ascending. -/
theorem multi_read_journals_ranged_backward (srcs : List RSrc) (hne : srcs ≠ [])
    (hg : ∀ s ∈ srcs, GoodJournal s.j ∧ ∃ cid idx, s.it = { cid := cid, idx := idx } ∧ ∀ c ∈ s.j, c.id < cid)
    (rel : Nat → Bool × Bool) (f : Nat) (hf : (srcs.flatMap RSrc.all).length < f) :
    ∃ t, build srcs = some t ∧
      let read := (t.setBackward true).drainRel rel f 0
      read.Perm (srcs.flatMap (fun s => s.all.reverse)) ∧
      (∀ s ∈ srcs, s.all.reverse.Sublist read) ∧
      ((∀ s ∈ srcs, Ascending s.all) → Descending read) ∧
      (∀ e ∈ read, ∃ s ∈ srcs, e ∈ s.all ∧ e.tags = s.tags) := by
  have hv : ∀ s ∈ srcs, view (Source.setBackward true s) = s.all.reverse := by
    intro s hs
    obtain ⟨_, cid, idx, hi, hc⟩ := hg s hs
    obtain ⟨tags, j, it⟩ := s
    simp only at hi hc; subst hi
    exact RSrc.view_tail_backward tags j cid idx hc
  have hw : ∀ s ∈ srcs, wf s ∧ dir s = false := by
    intro s hs
    obtain ⟨⟨h1, h2, h3⟩, cid, idx, hi, _⟩ := hg s hs
    refine ⟨⟨h1, h2, h3, ?_⟩, ?_⟩
    · rw [hi]; simp [Rd.RWF, Rd.RStats]
    · show s.it.bkwd = false; rw [hi]
  obtain ⟨t, ht, hl, _⟩ := mixTree_leaves srcs hne
  obtain ⟨tw, td⟩ := newCursor_tree_WF srcs hw t ht
  have hfm : srcs.flatMap (fun s => view (Source.setBackward true s)) = srcs.flatMap (fun s => s.all.reverse) :=
    JSrc.flatMap_congr' hv
  have hlen : (t.setBackward true).view.length < f := by
    have p1 := It.view_perm_leaves (t.setBackward true)
    have := It.setBackward_leaves_views true t tw (by rw [td]; decide)
    rw [p1.length_eq, List.flatMap_def, this, ← List.flatMap_def, hl, hfm]
    have : (srcs.flatMap (fun s => s.all.reverse)).length = (srcs.flatMap RSrc.all).length := by
      clear hf hfm hv hw hg hl ht hne
      induction srcs with
      | nil => rfl
      | cons x xs ih => simp [List.flatMap_cons, ih]
    omega
  have R := read_after_switch true t tw (by rw [td]; decide) rel f hlen
  simp only [hl] at R
  obtain ⟨r1, r2, r3, r4⟩ := R
  refine ⟨t, ht, hfm ▸ r1, fun s hs => hv s hs ▸ r2 s hs, ?_, ?_⟩
  · intro ha
    have := r3 (fun s hs => by
      rw [hv s hs, ord_true, List.pairwise_reverse]
      exact ha s hs)
    simpa only [ord_true] using this
  · intro e he
    obtain ⟨s, hs, hes⟩ := r4 e he
    rw [hv s hs, List.mem_reverse] at hes
    refine ⟨s, hs, hes, ?_⟩
    simp only [RSrc.all, List.mem_map] at hes
    obtain ⟨r, _, rfl⟩ := hes; rfl

/-- **from any reachable state**: a merged cursor over ranged iterators in any well-formed states (after pages, re-positions,
direction switches), read on with `Release` calls anywhere, delivers the attributed, ordered union of what its ranged iterators
deliver alone from where they stand -/
theorem read_any_state_ranged (t : It RSrc) (h : t.WF) (rel : Nat → Bool × Bool) (f : Nat) (hf : t.view.length < f) :
    let read := t.drainRel rel f 0
    read.Perm (t.leaves.flatMap view) ∧ (∀ s ∈ t.leaves, (view s).Sublist read) ∧
    ((∀ s ∈ t.leaves, (view s).Pairwise (ord t.dir)) → read.Pairwise (ord t.dir)) ∧
    (∀ e ∈ read, ∃ s ∈ t.leaves, e ∈ view s ∧ e.tags = s.tags) := by
  intro read
  obtain ⟨r1, r2, r3, r4⟩ := read_any_state t h rel f hf
  refine ⟨r1, r2, r3, ?_⟩
  intro e he
  obtain ⟨s, hs, hes⟩ := r4 e he
  refine ⟨s, hs, hes, ?_⟩
  have hes' : e ∈ RSrc.view s := hes
  unfold RSrc.view at hes'
  split at hes' <;> (simp only [List.mem_map] at hes'; obtain ⟨r, _, rfl⟩ := hes'; rfl)

-- non-vacuity: two partitions whose chunk windows admit only part of what is stored (first chunk of partition 1: records 1..2 of
-- three; partition 2: record 0 of two), a tie across the partitions among the admitted records
example : ∃ srcs : List RSrc, srcs.length = 2 ∧ (∀ s ∈ srcs, GoodJournal s.j ∧ s.it = {}) ∧
    (∀ s ∈ srcs, Ascending s.all) ∧ (srcs.flatMap RSrc.all).length = 3 :=
  ⟨[⟨1, [⟨10, [⟨0, 1, true⟩, ⟨1, 2, true⟩, ⟨2, 3, true⟩], 1, 2⟩], {}⟩,
    ⟨2, [⟨7, [⟨0, 2, true⟩, ⟨1, 9, true⟩], 0, 0⟩], {}⟩], rfl,
    by simp [GoodJournal, Rd.Sorted, Rd.PosIds, Rd.bw_ChunkBound, Rd.Chunk.cnt, Rd.maxU32],
    by decide +kernel, by decide +kernel⟩

end Logrange.Props.C04Ranged
