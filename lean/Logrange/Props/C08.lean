import Logrange.Proofs.Tags
import Logrange.Proofs.Quote
import Logrange.Proofs.FieldsKV
import Logrange.Proofs.FieldsRT
import Logrange.Proofs.FieldsConcat
import Logrange.Proofs.ParsedKeys
/-!
# C08 — Tag lines and field lists the system emits parse back to the same values

Property theorems only (lemmas: `Logrange/Proofs/{KV,Tags,FieldsKV}.lean`; models: `Logrange/Model/{Quote,KV,Tags,
FieldsKV}.lean`). Every theorem here is an obligation of the C08 check.

The full statements (`tags_roundtrip_full`, `mapset_roundtrip_full`, `fields_roundtrip_full`, `provenance_full`) are
**false** for the code as it is (open findings F08, F08b, F08c): they stay here as `def … : Prop` with kernel-checked counterexamples (`cex_…`), and
the `…_partial` theorems are proved under the explicit decidable hypothesis `Tags.safe`. Well-formedness of parsed
fields (`fromKV_WF`) is unconditional since fix 72eac47 (the limit is tested again after unquoting). What `strconv.Quote`/`Unquote` contribute is the contract `QuoteContract`
(`unquote (quote v) = v`, and `quote v` is `"body"` with no bare quote and paired escapes); it is **proved** on the
byte-level model of `strconv` (`unquote_quote`, `quote_shape`, for every byte string and whatever `IsPrint` table,
given only that `\n` is not printable), and the harness evaluates it on the real `strconv` on every run.
-/
namespace Logrange.Props.C08
open Go Logrange.Quote Logrange.KV Logrange.Tags Logrange.FieldsKV Logrange.Proofs.KV Logrange.Proofs.Tags
  Logrange.Proofs.FieldsKV Logrange.Proofs.FieldsRT Logrange.Proofs.FieldsConcat Logrange.Proofs.ParsedKeys

/-! ## The statements at full strength -/

/-- every accepted tag text: the emitted line is accepted and denotes the same set -/
def tags_roundtrip_full : Prop := ∀ t m, parse t = some m → parse (line m) = some m
/-- every map (`tag.MapToSet`, the collector's path): the emitted line denotes the same set -/
def mapset_roundtrip_full : Prop := ∀ m, Map.WF m → parse (line m) = some m
/-- every accepted field text: `AsKVString` of the result is accepted and denotes the same fields -/
def fields_roundtrip_full : Prop := ∀ t f, fromKV t = some f → ∃ kv, asKV f = .ok kv ∧ fromKV kv = some f
/-- a pipe's provenance fields (`field.Parse(srcTags)`) list exactly the pairs of the source's tag set -/
def provenance_full : Prop := ∀ t m, parse t = some m → fromKVItems (line m) = some (m.flatMap (fun p => [p.1, p.2]))

/-! ## What is proved -/

/-- **`strconv.Unquote (strconv.Quote s) = s`** for every byte string (valid UTF-8 or not) on the model of `strconv`. -/
theorem unquote_quote (v : Bytes) : unquote (quote v) = some v := Logrange.Proofs.Quote.unquote_quote v

/-- **`strconv.Quote s` is `"body"`** where the body, read by `SplitString`'s automaton inside a string, stays inside
the string: no bare quote, escapes paired. -/
theorem quote_shape (v : Bytes) : ∃ body, quote v = DQ :: body ++ [DQ] ∧ scan body true = some true :=
  Logrange.Proofs.Quote.quote_shape v

/-- **`SplitString`'s automaton consumes an inert piece as a unit** (key lemma of the round trip). -/
theorem split_inert (p : Bytes) (b b' : Bool) (rest : Bytes) (s : SS) (h : scan p b = some b') :
    splitGo (p ++ rest) { s with inStr := b } = splitGo rest { s with inStr := b', cur := p.reverse ++ s.cur } :=
  Logrange.Proofs.KV.split_inert p b b' rest s h

/-- **Round trip on `Safe` sets**: the line emitted for an accepted tag text whose set is `safe` is accepted and
denotes exactly the same names and values. -/
theorem tags_roundtrip_partial (t : Bytes) (m : Map) (h : parse t = some m)
    (hs : safe m = true) : parse (line m) = some m :=
  roundtrip_core Logrange.Proofs.Quote.quoteContract m (parse_WF t m h) hs

/-- the same for any map handed to `tag.MapToSet` -/
theorem mapset_roundtrip_partial (m : Map) (hwf : Map.WF m) (hs : safe m = true) :
    parse (line m) = some m :=
  roundtrip_core Logrange.Proofs.Quote.quoteContract m hwf hs

/-- on `Safe` sets the line determines the set (what C06's partition identity rests on) -/
theorem line_injective_partial (m1 m2 : Map) (h1 : Map.WF m1) (h2 : Map.WF m2)
    (s1 : safe m1 = true) (s2 : safe m2 = true) (h : line m1 = line m2) : m1 = m2 :=
  line_injective Logrange.Proofs.Quote.quoteContract m1 m2 h1 h2 s1 s2 h

/-- **Emitting is deterministic**: whatever order Go's map iteration produces, `tagMap.line()` prints the same
text (all sets, no `Safe` hypothesis). -/
theorem line_deterministic (o1 o2 : List (Bytes × Bytes)) (hp : o1.Perm o2) (hn : (o1.map (·.1)).Nodup) :
    lineOf o1 = lineOf o2 :=
  Logrange.Proofs.Tags.line_deterministic o1 o2 hp hn

/-- the sorted, duplicate-free representation a parse produces is already the iteration order `line` prints -/
theorem line_is_sorted_join (t : Bytes) (m : Map) (h : parse t = some m) :
    line m = joinItems (m.map (item encTag)) :=
  line_of_WF m (parse_WF t m h)

/-- **Independent of the spelling**: two accepted texts whose sets consist of the same pairs (in any order of
arrival, any quoting style, blanks, braces) print the same line. -/
theorem line_independent_of_spelling (t1 t2 : Bytes) (m1 m2 : Map) (h1 : parse t1 = some m1) (_h2 : parse t2 = some m2)
    (hp : m1.Perm m2) : line m1 = line m2 := by
  have hwf := parse_WF t1 m1 h1
  have hn : (m1.map (·.1)).Nodup := by
    have : (m1.map (·.1)).Pairwise (fun a b => bytesLt a b = true) := by
      rw [List.pairwise_map]; exact hwf
    exact this.imp (fun h => bytesLt_ne h)
  exact Logrange.Proofs.Tags.line_deterministic m1 m2 hp hn

/-- what a parse returns is a map: keys strictly increasing (no duplicates) -/
theorem parse_is_map (t : Bytes) (m : Map) (h : parse t = some m) : Map.WF m := parse_WF t m h

/-- the limit of `NewFieldsFromKVString` is 255, tested on the raw piece and (fix 72eac47) again on the unquoted
value — the facts `fromKV_WF` and the class of F08b rest on -/
theorem field_limit_facts : Logrange.Generated.C08.fieldMaxLen = 255 ∧ Logrange.Generated.C08.fieldLimitBeforeUnquote = true ∧
    Logrange.Generated.C08.fieldLimitAfterUnquote = true := by
  decide

/-- **Parsed fields are well-formed binary fields**: every accepted field text yields a byte string that decodes into
an even number of pieces (names and values). Unconditional since fix 72eac47. -/
theorem fromKV_WF (t : Bytes) (f : Bytes) (h : fromKV t = some f) : WF f := by
  unfold fromKV at h
  cases hi : fromKVItems t with
  | none => simp [hi] at h
  | some items =>
    simp [hi] at h; subst h
    have hlen : ∀ p ∈ items, p.length ≤ 255 :=
      fromKVItems_items_le field_limit_facts.2.1 field_limit_facts.2.2 t items hi
    exact ⟨items, decode_encode items hlen _ (encodeItems_length items), fromKVItems_even t items hi⟩

/-- what the parser stores is exactly the encoding of the pieces it decoded, and they decode back -/
theorem fromKV_decodes (t : Bytes) (items : List Bytes) (h : fromKVItems t = some items) :
    fromKV t = some (encodeItems items) ∧ decodeItems (encodeItems items).length (encodeItems items) = some items := by
  refine ⟨by simp [fromKV, h], ?_⟩
  exact decode_encode items (fromKVItems_items_le field_limit_facts.2.1 field_limit_facts.2.2 t items h) _
    (encodeItems_length items)

/-! ### Fields: emitting and re-reading (on the binary encoding) -/

/-- `AsKVString` on the encoding of a list of pairs prints `name=value` joined by `,`, every value through the
regenerated trigger (`encField`): never a panic on well-formed fields. -/
theorem askv_prints_pairs (ps : List (Bytes × Bytes)) (hlen : ∀ p ∈ ps, p.1.length ≤ 255 ∧ p.2.length ≤ 255) :
    asKV (encodeItems (ps.flatMap (fun p => [p.1, p.2]))) = .ok (kvText ps) :=
  asKV_encode ps hlen

/-- **Fields round trip** (analogue of `tags_roundtrip_partial`): for every accepted field text whose result is in
the class `safeF` (it decodes into pairs that `kvstring` reads back as printed, and no printed piece exceeds the
limit), `AsKVString` succeeds and `NewFieldsFromKVString` of the emitted text gives back exactly the same bytes. -/
theorem fields_roundtrip_partial (t f : Bytes) (_h : fromKV t = some f) (hs : safeF f = true) :
    ∃ kv, asKV f = .ok kv ∧ fromKV kv = some f :=
  fields_roundtrip_safeF f hs

/-- the same on the decoded pieces: the emitted text is `kvText` of the pairs and parses back to the pieces -/
theorem fields_roundtrip_items (items : List Bytes) (hev : items.length % 2 = 0)
    (hs : safeFields (pairsOf items) = true) :
    asKV (encodeItems items) = .ok (kvText (pairsOf items)) ∧
    fromKV (kvText (pairsOf items)) = some (encodeItems items) :=
  fields_roundtrip_core items hev hs

/-- **Emitting fields is deterministic and independent of the spelling**: `AsKVString` is a function of the stored
bytes, and two accepted texts that decode to the same pieces store the same bytes — hence print the same text. -/
theorem fields_emit_independent_of_spelling (t1 t2 : Bytes) (items : List Bytes)
    (h1 : fromKVItems t1 = some items) (h2 : fromKVItems t2 = some items) :
    fromKV t1 = fromKV t2 ∧ (fromKV t1).map asKV = (fromKV t2).map asKV := by
  simp [fromKV, h1, h2]

/-- **Pipe provenance**: for an accepted tag text whose set is Safe and fits fields (every name/value/printed value at
most 255 bytes — F08d's class excluded — and no name starting with a quote — F08c's class excluded),
`field.Parse(line)` — what `pipe.worker` attaches to piped events — lists exactly the set's names and values. -/
theorem provenance_fields_partial (t : Bytes) (m : Map) (h : parse t = some m) (hs : safe m = true)
    (hf : fitsFields m = true) : fromKVItems (line m) = some (m.flatMap (fun p => [p.1, p.2])) :=
  provenance_core m (parse_WF t m h) hs hf

/-- the quoting trigger of `tagMap.line()` regenerated from the source is the one the class of finding F08 was
written for (empty, or contains `=` or `,`): a changed trigger breaks this obligation -/
theorem quote_trigger_pinned (v : Bytes) : needsQuote v = needsQuotePinned v := by
  simp [needsQuote, needsQuotePinned, Logrange.Generated.C08.tagQuoteEmpty, Logrange.Generated.C08.tagQuoteBytes,
    Bool.or_assoc]

/-- the same for `Fields.AsKVString()` (contains `,` or `=`; the empty value is printed as nothing) -/
theorem field_trigger_pinned (v : Bytes) : needsQuoteF v = needsQuoteFPinned v := by
  simp [needsQuoteF, needsQuoteFPinned, Logrange.Generated.C08.fieldQuoteEmpty, Logrange.Generated.C08.fieldQuoteBytes]

/-- the KV functions are total: every input has an answer (ok or error), there is no panic outcome in
`RemoveCurlyBraces`, `SplitString`, `TrimSpaces`, `ToMap`, `tag.Parse`, `NewFieldsFromKVString` -/
theorem kv_total (s : Bytes) :
    (removeCurlyBraces s).isSome ∨ removeCurlyBraces s = none := by
  cases removeCurlyBraces s <;> simp

/-! ## Counterexamples to the full statements (one per excluded class; evaluated by the kernel) -/

/-- value `x"y` (text `a="x\"y"`): printed as `a=x"y`, which the parser rejects -/
theorem cex_value_with_quote :
    parse [97,61,34,120,92,34,121,34] = some [([97],[120,34,121])] ∧
    line [([97],[120,34,121])] = [97,61,120,34,121] ∧ parse [97,61,120,34,121] = none := by decide +kernel

/-- value ` c ` (text `a=" c "`): printed as `a= c `, which parses to the value `c` -/
theorem cex_value_with_blanks :
    parse [97,61,34,32,99,32,34] = some [([97],[32,99,32])] ∧
    line [([97],[32,99,32])] = [97,61,32,99,32] ∧ parse [97,61,32,99,32] = some [([97],[99])] := by decide +kernel

/-- value `}` (text `a="}"`): printed as `a=}`, rejected (unbalanced brace) -/
theorem cex_value_closing_brace :
    parse [97,61,34,125,34] = some [([97],[125])] ∧ line [([97],[125])] = [97,61,125] ∧ parse [97,61,125] = none := by
  decide +kernel

/-- value starting with a backquote (text ``a="`b"``): printed as ``a=`b``, rejected (`Unquote` fails) -/
theorem cex_value_leading_backquote :
    parse [97,61,34,96,98,34] = some [([97],[96,98])] ∧ line [([97],[96,98])] = [97,61,96,98] ∧
    parse [97,61,96,98] = none := by decide +kernel

/-- name starting with `{` that sorts first (text `|d=1,{c=2`): printed as `{c=2,|d=1`, rejected -/
theorem cex_key_leading_brace :
    parse [124,100,61,49,44,123,99,61,50] = some [([123,99],[50]), ([124,100],[49])] ∧
    line [([123,99],[50]), ([124,100],[49])] = [123,99,61,50,44,124,100,61,49] ∧
    parse [123,99,61,50,44,124,100,61,49] = none := by decide +kernel

/-- name with an unbalanced `"` (only through `MapToSet`): `{k": v}` is printed as `k"=v`, rejected -/
theorem cex_key_unbalanced_quote :
    Map.WF [([107,34],[118])] ∧ line [([107,34],[118])] = [107,34,61,118] ∧ parse [107,34,61,118] = none := by
  refine ⟨?_, by decide +kernel, by decide +kernel⟩
  simp [Map.WF]

/-- two different sets print the same line: the empty value and the value `""` (two quote characters) -/
theorem cex_same_line_different_sets :
    line [([97],[])] = line [([97],[34,34])] ∧ ([([97],[])] : Map) ≠ [([97],[34,34])] := by decide +kernel

theorem tags_roundtrip_full_false : ¬ tags_roundtrip_full := by
  intro h
  have := h _ _ cex_value_with_quote.1
  rw [cex_value_with_quote.2.1, cex_value_with_quote.2.2] at this
  cases this

theorem mapset_roundtrip_full_false : ¬ mapset_roundtrip_full := by
  intro h
  have := h _ cex_key_unbalanced_quote.1
  rw [cex_key_unbalanced_quote.2.1, cex_key_unbalanced_quote.2.2] at this
  cases this

/-- F08c: the field parser unquotes names: the line `` `b=v `` of the set {`` `b ``: v} is rejected by it, and
the name `"q"` of the set {`"q"`: v} becomes `q` -/
theorem cex_provenance_quoted_name :
    parse [96,98,61,118] = some [([96,98],[118])] ∧ line [([96,98],[118])] = [96,98,61,118] ∧
    fromKVItems [96,98,61,118] = none ∧
    parse [34,113,34,61,118] = some [([34,113,34],[118])] ∧ line [([34,113,34],[118])] = [34,113,34,61,118] ∧
    fromKVItems [34,113,34,61,118] = some [[113],[118]] := by decide +kernel

/-- F08d: a tag value of 256 bytes (`long=<256 × v>`): the tag parser reads the line back, the field parser rejects it
(no provenance fields at all) -/
def f08dSet : Map := [([108,111,110,103], List.replicate 256 118)]

theorem cex_provenance_long_value :
    parse (line f08dSet) = some f08dSet ∧ safe f08dSet = true ∧ fromKVItems (line f08dSet) = none := by decide +kernel

theorem provenance_full_false : ¬ provenance_full := by
  intro h
  have := h _ _ cex_provenance_quoted_name.1
  rw [cex_provenance_quoted_name.2.1, cex_provenance_quoted_name.2.2.1] at this
  cases this


/-- F08b1 (fixed by 72eac47) regression witness: `k="<253 bytes 0x80>"` (255 bytes; every 0x80 unquotes to U+FFFD,
3 bytes) used to be accepted with a wrapped length byte; it is rejected now -/
def f08b1Witness : Bytes := [107,61,34] ++ List.replicate 253 128 ++ [34]

theorem f08b1_witness_rejected : fromKV f08b1Witness = none := by decide +kernel

/-- F08b (what remains): `k="=<64 bytes 0x01>"` — a 65 byte value whose quoted form (`\\x01` per byte) has 259 bytes:
accepted, printed through `strconv.Quote` because of the `=`, and the printed text is rejected by the limit on the
raw piece -/
def f08bWitness : Bytes := [107,61,34,61] ++ List.replicate 64 1 ++ [34]

theorem cex_quoted_form_too_long :
    (fromKV f08bWitness).map (fun f => (decodeItems f.length f).map (fun it => it.map List.length)) = some (some [1, 65]) ∧
    (match fromKV f08bWitness with
     | some f => (match asKV f with | .ok kv => (decide (kv.length = 261), fromKV kv) | .panic => (false, none))
     | none => (false, none)) = (true, none) := by decide +kernel

/-- fields: value `x"y` is printed unquoted and the text is rejected (F08 in `AsKVString`) -/
theorem cex_fields_value_with_quote :
    fromKV [97,61,34,120,92,34,121,34] = some [1,97,3,120,34,121] ∧
    asKV [1,97,3,120,34,121] = .ok [97,61,120,34,121] ∧ fromKV [97,61,120,34,121] = none := by decide +kernel

theorem fields_roundtrip_full_false : ¬ fields_roundtrip_full := by
  intro h
  obtain ⟨h1, h2, h3⟩ := cex_fields_value_with_quote
  obtain ⟨kv, hk, hf⟩ := h _ _ h1
  rw [h2] at hk
  cases hk
  rw [h3] at hf
  cases hf

/-! ## Non-vacuity: the hypotheses are met by non-trivial concrete sets -/

/-- a set with a quoted value (contains `,`), an empty value and a raw value with inner quotes is `safe` -/
example : safe [([97],[120,44,121]), ([98],[]), ([99],[120,34,121,34,122])] = true := by decide +kernel
/-- …and such sets are produced by the parser (`c=x"y"z,a=b`) -/
example : parse [99,61,120,34,121,34,122,44,97,61,98] = some [([97],[98]), ([99],[120,34,121,34,122])] := by
  decide +kernel
/-- `fromKV_WF` is not vacuous: an ordinary text is accepted -/
example : fromKVItems [97,61,98,44,99,61,34,100,34] = some [[97],[98],[99],[100]] := by decide +kernel
/-- `line_deterministic` on two different iteration orders -/
example : lineOf [([98],[49]), ([97],[50])] = lineOf [([97],[50]), ([98],[49])] := by decide +kernel

/-- `fields_roundtrip_partial` is not vacuous: `a="x,y",b=,c=x"y"z` is accepted and its result is in the class -/
example : (fromKV [97,61,34,120,44,121,34,44,98,61,44,99,61,120,34,121,34,122]).map safeF = some true := by decide +kernel
/-- `provenance_fields_partial` is not vacuous -/
example : parse [97,61,34,120,44,121,34,44,98,61,49] = some [([97],[120,44,121]), ([98],[49])] ∧
    safe [([97],[120,44,121]), ([98],[49])] = true ∧ fitsFields [([97],[120,44,121]), ([98],[49])] = true := by decide +kernel

/-! ## Names of parsed sets, `Concat`, the fields of a stored event -/

/-- every piece `SplitString` returns is inert (so the parser never produces a name it could not read back) -/
theorem split_pieces_inert (s : Bytes) (ps : List Bytes) (h : splitString s = some ps) :
    ∀ p ∈ ps, scan p false = some false :=
  Logrange.Proofs.ParsedKeys.split_pieces_inert s ps h

/-- **The names of every parsed set are readable**: non-empty, trimmed, inert — for every accepted tag text. The only
name defect reachable through `tag.Parse` is a leading `{` (`parsed_names_safeKey`); unbalanced quotes or blanks around a
name can only come from `tag.MapToSet`. -/
theorem parsed_names_readable (t : Bytes) (m : Map) (h : parse t = some m) :
    ∀ p ∈ m, p.1 ≠ [] ∧ trimmed p.1 = true ∧ inert p.1 = true :=
  Logrange.Proofs.ParsedKeys.parsed_names_readable t m h

theorem parsed_names_safeKey (t : Bytes) (m : Map) (h : parse t = some m) :
    ∀ p ∈ m, safeKey p.1 = true ∨ p.1.head? = some LB :=
  Logrange.Proofs.ParsedKeys.parsed_names_safeKey t m h

/-- **Round trip for parsed sets under the weaker, value-only hypothesis**: for an accepted tag text, if no name starts
with `{` and every value either triggers quoting or is `safeRaw`, the emitted line parses back to exactly the same set
(the name conditions of `safe` hold automatically for parsed sets). -/
theorem tags_roundtrip_parsed (t : Bytes) (m : Map) (h : parse t = some m)
    (hv : ∀ p ∈ m, p.1.head? ≠ some LB ∧ (needsQuote p.2 || safeRaw p.2) = true) : parse (line m) = some m := by
  apply tags_roundtrip_partial t m h
  unfold safe
  rw [List.all_eq_true]
  intro p hp
  obtain ⟨hb, hval⟩ := hv p hp
  rcases parsed_names_safeKey t m h p hp with hk | hk
  · simp [safePair, hk, hval]
  · exact absurd hk hb

/-- `Concat` (what the ingestor stores for an event: write-level fields ++ the event's fields) preserves
well-formedness and denotes the concatenation of the pieces -/
theorem concat_WF (f g : Bytes) (hf : WF f) (hg : WF g) : WF (concat f g) :=
  Logrange.Proofs.FieldsConcat.concat_WF f g hf hg

theorem concat_decodes (f g : Bytes) (a b : List Bytes) (ha : decodeItems f.length f = some a)
    (hb : decodeItems g.length g = some b) : decodeItems (concat f g).length (concat f g) = some (a ++ b) :=
  Logrange.Proofs.FieldsConcat.concat_decodes f g a b ha hb

/-- **The `Fields` text of a stored event parses back**: write-level field text `tf`, event field text `te`, both
accepted; the stored list is their `Concat`; when the pairs (write-level first, then the event's) are in `safeFields`,
`AsKVString` prints exactly those pairs and `NewFieldsFromKVString` reads the text back as the stored bytes. -/
theorem stored_event_fields_roundtrip (tf te : Bytes) (a b : List Bytes) (ha : fromKVItems tf = some a)
    (hb : fromKVItems te = some b) (hs : safeFields (pairsOf a ++ pairsOf b) = true) :
    ∃ fa fb, fromKV tf = some fa ∧ fromKV te = some fb ∧
      asKV (concat fa fb) = .ok (kvText (pairsOf a ++ pairsOf b)) ∧
      fromKV (kvText (pairsOf a ++ pairsOf b)) = some (concat fa fb) :=
  Logrange.Proofs.FieldsConcat.stored_event_fields_roundtrip tf te a b ha hb hs

/-- non-vacuity: write-level `app=web`, event `lvl="a,b"` -/
example : fromKVItems [97,112,112,61,119,101,98] = some [[97,112,112],[119,101,98]] ∧
    fromKVItems [108,118,108,61,34,97,44,98,34] = some [[108,118,108],[97,44,98]] ∧
    safeFields (pairsOf [[97,112,112],[119,101,98]] ++ pairsOf [[108,118,108],[97,44,98]]) = true := by decide +kernel

end Logrange.Props.C08
