import Logrange.Proofs.RdMergeNJournal
import Logrange.Proofs.RdFilterPaging
import Logrange.Proofs.RdRngWin
/-!
# C03 — paging over a merged cursor of ANY number of partitions; the ranged iterator as a lawful mixer source

Property theorems only. The mixer tree is C04's model (`Logrange.Mixer.It`, `Logrange.MixTree.build` = the pairwise reduction
of `newCursor`; read-only import) with its proved semantics (`It.view` = nested `mergeSpec` in the shape of the tree,
`It.get_spec/next_spec/release_spec`, i.e. `mixer_refines_merge` applied at every node). The leaves are the journal iterator
models of C03/C16: `JSrc` (library iterator, C04's `Proofs/MixerJournal.lean`) and `RSrc` (ranged iterator,
`Proofs/RdRngSource.lean`). Chains of pages (`MergeN.pagesN`): page = read loop (`Get`, emit, `Next`, ≤ limit times) +
commit (`Get`, export every leaf's position, `Release`); per page the held cursor continues (`false`) or `newCursor` builds
a new tree over fresh iterators placed at the exported positions (`true`). Journals fixed; no filter above the tree.
-/
namespace Logrange.Props.C03Merged
open Logrange.Mixer Logrange.MixTree Logrange.MergeN Logrange.Rd LawfulSource

def GoodJournal (j : Journal) : Prop := Sorted j ∧ PosIds j ∧ bw_ChunkBound j

/-- **the ranged journal iterator (`partition.JIterator` under `LogEventIterator`) meets C04's leaf contract** in both
directions: `Get` = head of its stream and keeps it, `Next` = tail, `Release` keeps it, every operation keeps well-formedness.
The stream (`view`) is the list of records the chunk windows admit from the iterator's position on (backward: at or before
it, reversed). The instance is `Logrange.Mixer.RSrc.instLawfulRSrc`; every theorem of `Props/C04.lean` stated for a
`LawfulSource` applies to trees over `RSrc`. -/
theorem ranged_iterator_lawful (s : RSrc) (h : GoodJournal s.j) (hw : RWF s.j s.it) :
    (Source.get s).2 = (view s).head? ∧ view (Source.get s).1 = view s ∧
    view (Source.next s) = (view s).tail ∧ view (Source.release s) = view s ∧
    wf (Source.get s).1 ∧ wf (Source.next s) ∧ wf (Source.release s) ∧ ∀ bk, wf (Source.setBackward bk s) := by
  have w : wf s := ⟨h.1, h.2.1, h.2.2, hw⟩
  obtain ⟨g1, g2, g3, _, _⟩ := LawfulSource.get_spec s w
  obtain ⟨n1, n2, _⟩ := LawfulSource.next_spec s w trivial
  obtain ⟨r1, r2, _, _⟩ := LawfulSource.release_spec s w
  exact ⟨g1, g2, n1, r1, g3, n2, r2, fun bk => (LawfulSource.setBackward_spec bk s w).1⟩

/-- **paging_n_partitions** (un-ranged, unfiltered): for every `n ≥ 1`, every order and content of the partitions (any
chunking, empty chunks, empty journals, timestamp ties across partitions), every list of limits and every per-page choice:
the concatenated pages are the first Σ limits events of the merged stream of the cursor `newCursor` builds — and that
stream is a permutation of all stored events with every partition in stored order (each event exactly once). -/
theorem paging_n_partitions (srcs : List JSrc) (hne : srcs ≠ []) (hg : ∀ s ∈ srcs, GoodJournal s.j ∧ s.it = {})
    (steps : List (Bool × Nat)) :
    ∃ t, build srcs = some t ∧
      (pagesN refreshJ t steps).flatten = t.view.take (steps.map (·.2)).sum ∧
      t.view.Perm (srcs.flatMap JSrc.all) ∧ (∀ s ∈ srcs, s.all.Sublist t.view) := by
  obtain ⟨t, ht, hl⟩ := build_leaves srcs hne
  have hv : ∀ s ∈ srcs, view s = s.all := by
    intro s hs
    obtain ⟨⟨_, hp, _⟩, hi⟩ := hg s hs
    obtain ⟨tags, j, it⟩ := s
    simp only at hi hp; subst hi
    exact JSrc.view_head tags j hp
  have hP : ∀ s ∈ srcs, PJ s ∧ wf s ∧ dir s = false := by
    intro s hs
    obtain ⟨⟨h1, h2, h3⟩, hi⟩ := hg s hs
    have hw : JSrc.wf s := ⟨h1, h2, h3, by rw [hi]; simp [Rd.WF]⟩
    exact ⟨⟨hw, by rw [hi], by rw [hi]; simp [Synced]⟩, hw, by show s.it.bkwd = false; rw [hi]⟩
  have hinv := built_inv PJ refreshJ pj_get pj_next pj_release pj_refresh srcs t ht hP
  refine ⟨t, ht, pagesN_spec PJ refreshJ pj_get pj_next pj_release pj_refresh steps t hinv, ?_, ?_⟩
  · have := It.view_perm_leaves t
    rw [hl, JSrc.flatMap_congr' hv] at this; exact this
  · intro s hs
    have := It.view_sublist_leaf t s (by rw [hl]; exact hs)
    rw [hv s hs] at this; exact this

/-- **paging_n_partitions with RANGE**, below the range re-check: the same for a cursor whose leaves are ranged iterators —
the merged stream is a permutation of the events the chunk windows ADMIT (`RSrc.all`; under window soundness these contain
every in-range event, `Props/C03Ranged.lean`), every partition in stored order. The `fiterator` above the tree (range
re-check, WHERE) is not part of this statement. -/
theorem paging_n_partitions_ranged (srcs : List RSrc) (hne : srcs ≠ []) (hg : ∀ s ∈ srcs, GoodJournal s.j ∧ s.it = {})
    (steps : List (Bool × Nat)) :
    ∃ t, build srcs = some t ∧
      (pagesN refreshR t steps).flatten = t.view.take (steps.map (·.2)).sum ∧
      t.view.Perm (srcs.flatMap RSrc.all) ∧ (∀ s ∈ srcs, s.all.Sublist t.view) := by
  obtain ⟨t, ht, hl⟩ := build_leaves srcs hne
  have hv : ∀ s ∈ srcs, view s = s.all := by
    intro s hs
    obtain ⟨_, hi⟩ := hg s hs
    obtain ⟨tags, j, it⟩ := s
    simp only at hi; subst hi
    exact RSrc.view_head tags j
  have hP : ∀ s ∈ srcs, PR s ∧ wf s ∧ dir s = false := by
    intro s hs
    obtain ⟨⟨h1, h2, h3⟩, hi⟩ := hg s hs
    have hw : RSrc.wf s := ⟨h1, h2, h3, by rw [hi]; simp [RWF, RStats]⟩
    exact ⟨⟨hw, by rw [hi], by rw [hi]; simp [RSynced]⟩, hw, by show s.it.bkwd = false; rw [hi]⟩
  have hinv := built_inv PR refreshR pr_get pr_next pr_release pr_refresh srcs t ht hP
  refine ⟨t, ht, pagesN_spec PR refreshR pr_get pr_next pr_release pr_refresh steps t hinv, ?_, ?_⟩
  · have := It.view_perm_leaves t
    rw [hl, JSrc.flatMap_congr' hv] at this; exact this
  · intro s hs
    have := It.view_sublist_leaf t s (by rw [hl]; exact hs)
    rw [hv s hs] at this; exact this

/-- **`fiterator` is a transformer of lawful sources**: over any lawful iterator (a mixer tree, a single partition) the
`fiterator` (`Get` skip loop, `Next`, `Release`, `SetBackward` dropping its cache) is again a lawful source whose stream is the
FILTER of the stream below (`Logrange.MergeN.FSrc.instLawfulFSrc`, `Proofs/RdFilterSrc.lean`). `Next` needs a preceding `Get`. -/
theorem fiterator_lawful {σ : Type} [Source σ] [LawfulSource σ] (f : FSrc σ) (h : wf f) :
    (Source.get f).2 = ((view f.inner).filter f.p).head? ∧ view (Source.get f).1 = (view f.inner).filter f.p ∧
    view (Source.next (Source.get f).1) = ((view f.inner).filter f.p).tail ∧
    view (Source.release f) = (view f.inner).filter f.p ∧ wf (Source.get f).1 ∧ ∀ bk, wf (Source.setBackward bk f) := by
  obtain ⟨g1, g2, g3, _, g5⟩ := LawfulSource.get_spec f h
  obtain ⟨n1, _, _⟩ := LawfulSource.next_spec _ g3 g5
  obtain ⟨r1, _, _, _⟩ := LawfulSource.release_spec f h
  exact ⟨g1, g2, by rw [n1, g2]; rfl, r1, g3, fun bk => (LawfulSource.setBackward_spec bk f h).1⟩

/-- **paging_n_partitions with WHERE** (un-ranged): the cursor is the `fiterator` (filter `p` on events) above the mixer tree
over any number of partitions; per page the held cursor continues or a new `fiterator` over a new tree over fresh iterators
at the exported positions is built. The concatenated pages are the first Σ limits events of the filtered merged stream,
which is a permutation of all stored events that pass the filter. -/
theorem paging_n_partitions_filtered (srcs : List JSrc) (hne : srcs ≠ []) (hg : ∀ s ∈ srcs, GoodJournal s.j ∧ s.it = {})
    (p : Ev → Bool) (steps : List (Bool × Nat)) :
    ∃ t, build srcs = some t ∧
      (pagesS (refreshF refreshJ) (⟨t, p, false, none⟩ : FSrc (It JSrc)) steps).flatten =
        (t.view.filter p).take (steps.map (·.2)).sum ∧
      (t.view.filter p).Perm ((srcs.flatMap JSrc.all).filter p) := by
  obtain ⟨t, ht, hl⟩ := build_leaves srcs hne
  have hv : ∀ s ∈ srcs, view s = s.all := by
    intro s hs
    obtain ⟨⟨_, hp, _⟩, hi⟩ := hg s hs
    obtain ⟨tags, j, it⟩ := s
    simp only at hi hp; subst hi
    exact JSrc.view_head tags j hp
  have hP : ∀ s ∈ srcs, PJ s ∧ wf s ∧ dir s = false := by
    intro s hs
    obtain ⟨⟨h1, h2, h3⟩, hi⟩ := hg s hs
    have hw : JSrc.wf s := ⟨h1, h2, h3, by rw [hi]; simp [Rd.WF]⟩
    exact ⟨⟨hw, by rw [hi], by rw [hi]; simp [Synced]⟩, hw, by show s.it.bkwd = false; rw [hi]⟩
  have hinv := built_inv PJ refreshJ pj_get pj_next pj_release pj_refresh srcs t ht hP
  refine ⟨t, ht, pagesF_spec PJ refreshJ pj_get pj_next pj_release pj_refresh steps _
    ⟨hinv, hinv.1, by intro h; cases h⟩, ?_⟩
  have := It.view_perm_leaves t
  rw [hl, JSrc.flatMap_congr' hv] at this
  exact this.filter p

/-- **paging_n_partitions with RANGE (and WHERE)**: ranged iterators as leaves, the `fiterator` with the range re-check above
the tree. Under window soundness for the filter (`WinSoundF`: every stored record whose event passes `p` lies inside its
chunk's window — for `p` = "timestamp in the range, and WHERE" this is `WinSound`, C02's subject) the filtered merged stream
is a permutation of all STORED events that pass the filter. -/
theorem paging_n_partitions_ranged_filtered (srcs : List RSrc) (hne : srcs ≠ [])
    (hg : ∀ s ∈ srcs, GoodJournal s.j ∧ s.it = {}) (p : Ev → Bool)
    (hw : ∀ s ∈ srcs, WinSoundF s.j (fun r => p (s.ev r))) (steps : List (Bool × Nat)) :
    ∃ t, build srcs = some t ∧
      (pagesS (refreshF refreshR) (⟨t, p, false, none⟩ : FSrc (It RSrc)) steps).flatten =
        (t.view.filter p).take (steps.map (·.2)).sum ∧
      (t.view.filter p).Perm ((srcs.flatMap (fun s => (flat s.j).map s.ev)).filter p) := by
  obtain ⟨t, ht, hl⟩ := build_leaves srcs hne
  have hv : ∀ s ∈ srcs, view s = s.all := by
    intro s hs
    obtain ⟨_, hi⟩ := hg s hs
    obtain ⟨tags, j, it⟩ := s
    simp only at hi; subst hi
    exact RSrc.view_head tags j
  have hP : ∀ s ∈ srcs, PR s ∧ wf s ∧ dir s = false := by
    intro s hs
    obtain ⟨⟨h1, h2, h3⟩, hi⟩ := hg s hs
    have hw' : RSrc.wf s := ⟨h1, h2, h3, by rw [hi]; simp [RWF, RStats]⟩
    exact ⟨⟨hw', by rw [hi], by rw [hi]; simp [RSynced]⟩, hw', by show s.it.bkwd = false; rw [hi]⟩
  have hinv := built_inv PR refreshR pr_get pr_next pr_release pr_refresh srcs t ht hP
  refine ⟨t, ht, pagesF_spec PR refreshR pr_get pr_next pr_release pr_refresh steps _
    ⟨hinv, hinv.1, by intro h; cases h⟩, ?_⟩
  have hperm := It.view_perm_leaves t
  rw [hl, JSrc.flatMap_congr' hv] at hperm
  have h1 := hperm.filter p
  have h2 : (srcs.flatMap RSrc.all).filter p = (srcs.flatMap (fun s => (flat s.j).map s.ev)).filter p := by
    clear hperm h1 hinv hP hv hl ht hne hg
    induction srcs with
    | nil => rfl
    | cons s rest ih =>
      simp only [List.flatMap_cons, List.filter_append]
      rw [ih (fun x hx => hw x (List.mem_cons_of_mem _ hx))]
      congr 1
      have := rwn_filter_wflat (hw s (List.mem_cons_self ..))
      simp only [RSrc.all, List.filter_map]
      rw [show (p ∘ s.ev) = (fun r => p (s.ev r)) from rfl, this]
  rw [h2] at h1; exact h1

/-- **event content across pagings**: every event of every page is a stored record of one of the partitions, delivered
unchanged — its timestamp, its payload identity (`lbl`: message and fields are one opaque payload in the model) and the tag
line of the partition it is stored in. (One partition: `paging`/`paging_ranged` are equalities of lists of whole records.) -/
theorem paged_event_content (srcs : List JSrc) (hne : srcs ≠ []) (hg : ∀ s ∈ srcs, GoodJournal s.j ∧ s.it = {})
    (steps : List (Bool × Nat)) (t : It JSrc) (ht : build srcs = some t) :
    ∀ e ∈ (pagesN refreshJ t steps).flatten, ∃ s ∈ srcs, ∃ r ∈ flat s.j, e = ⟨r.ts, r.lbl, s.tags⟩ := by
  obtain ⟨t', ht', hpg, hperm, _⟩ := paging_n_partitions srcs hne hg steps
  rw [ht] at ht'; cases ht'
  intro e he
  rw [hpg] at he
  have h1 : e ∈ srcs.flatMap JSrc.all := hperm.mem_iff.mp (List.mem_of_mem_take he)
  obtain ⟨s, hs, hes⟩ := List.mem_flatMap.mp h1
  simp only [JSrc.all, List.mem_map] at hes
  obtain ⟨r, hr, rfl⟩ := hes
  exact ⟨s, hs, r, hr, rfl⟩

-- non-vacuity: three partitions (a nested mixer), one with two chunks of which one is empty, ties across partitions
example : ∃ srcs : List JSrc, srcs.length = 3 ∧ (∀ s ∈ srcs, GoodJournal s.j ∧ s.it = {}) ∧ srcs.flatMap JSrc.all ≠ [] :=
  ⟨[⟨1, [⟨10, [⟨0, 1, true⟩, ⟨1, 2, true⟩], 0, 4294967295⟩, ⟨11, [], 0, 4294967295⟩], {}⟩,
    ⟨2, [⟨7, [⟨0, 2, true⟩], 0, 4294967295⟩], {}⟩, ⟨3, [⟨5, [⟨0, 2, true⟩, ⟨1, 3, true⟩], 0, 4294967295⟩], {}⟩], rfl,
    by simp [GoodJournal, Rd.Sorted, Rd.PosIds, Rd.bw_ChunkBound, Rd.Chunk.cnt, Rd.maxU32],
    by simp [JSrc.all, Rd.flat, JSrc.ev]⟩

end Logrange.Props.C03Merged
