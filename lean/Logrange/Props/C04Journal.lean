import Logrange.Props.C04
import Logrange.Proofs.MixerJournal
/-!
# C04 on journals: the multi-partition read over the journal iterator model

`JSrc` (`Proofs/MixerJournal.lean`) is `LogEventIterator` over the library's `journal.JIterator` as modelled for C03/C16
(`Model/RdJIter.lean`), proved to meet the mixer's leaf contract (`instLawfulJSrc`). So the theorems of `Props/C04.lean` apply to
cursors over real partitions, not only over the in-memory iterator. A journal is the list of its chunks (`Rd.Journal`),
`Rd.flat j` its records in stored order, `s.all` the same as events under the partition's tag line.

Hypotheses on every journal, and where they come from:
* `Rd.Sorted j` — chunk ids strictly increase (the library keeps chunks sorted by id);
* `Rd.PosIds j` — chunk ids are positive (they are time-derived);
* `Rd.bw_ChunkBound j` — a chunk holds at most 2³² records (the real counter is a `uint32`). Only the *backward* lemmas of
  C03/C16 need the last two (without the bound they are false: `Rd.bw_getBwdSpec_false`); they appear in the forward theorem as
  well because the leaf contract is one for both directions (`JSrc.wf`) — the forward proofs do not use them.
The store is quiescent while the cursor reads (the journal value does not change between the calls).
-/
namespace Logrange.Props.C04Journal
open Logrange.Mixer Logrange.MixTree LawfulSource Logrange.Props.C04

/-- what is assumed of a partition's journal -/
def GoodJournal (j : Rd.Journal) : Prop := Rd.Sorted j ∧ Rd.PosIds j ∧ Rd.bw_ChunkBound j

/-- the journal iterator under `LogEventIterator` meets the contract of a mixer source (forward: `getFwd`, `nextFwd`;
backward: `bw_getBwd_bounded`, `bw_nextBwd_bounded`; `Release`: `release_keeps`) -/
theorem journal_iterator_lawful (s : JSrc) (h : GoodJournal s.j) (hw : Rd.WF s.j s.it) :
    (Source.get s).2 = (view s).head? ∧ view (Source.get s).1 = view s ∧
    view (Source.next s) = (view s).tail ∧ view (Source.release s) = view s ∧
    wf (Source.get s).1 ∧ wf (Source.next s) ∧ wf (Source.release s) ∧ ∀ bk, wf (Source.setBackward bk s) := by
  have w : wf s := ⟨h.1, h.2.1, h.2.2, hw⟩
  obtain ⟨g1, g2, g3, _, _⟩ := LawfulSource.get_spec s w
  obtain ⟨n1, n2, _⟩ := LawfulSource.next_spec s w trivial
  obtain ⟨r1, r2, _, _⟩ := LawfulSource.release_spec s w
  exact ⟨g1, g2, n1, r1, g3, n2, r2, fun bk => (LawfulSource.setBackward_spec bk s w).1⟩

/-- **a cursor over n journals, read forward from the head**: for every `n ≥ 1`, every order of the partitions, every content
(any chunking, empty chunks, empty journals), with `Release` calls anywhere: the read is a permutation of the concatenated
journals (every stored record exactly once, under its partition's tag line), each partition's stored order is kept, and it
is ascending in time whenever every journal is. -/
theorem multi_read_journals (srcs : List JSrc) (hne : srcs ≠ [])
    (hg : ∀ s ∈ srcs, GoodJournal s.j ∧ s.it = {})
    (rel : Nat → Bool × Bool) (f : Nat) (hf : (srcs.flatMap JSrc.all).length < f) :
    ∃ t, build srcs = some t ∧
      let read := t.drainRel rel f 0
      read.Perm (srcs.flatMap JSrc.all) ∧
      (∀ s ∈ srcs, s.all.Sublist read) ∧
      ((∀ s ∈ srcs, Ascending s.all) → Ascending read) ∧
      (∀ e ∈ read, ∃ s ∈ srcs, e ∈ s.all ∧ e.tags = s.tags) := by
  have hv : ∀ s ∈ srcs, view s = s.all := by
    intro s hs
    obtain ⟨⟨_, hp, _⟩, hi⟩ := hg s hs
    obtain ⟨tags, j, it⟩ := s
    simp only at hi hp; subst hi
    exact JSrc.view_head tags j hp
  have hw : ∀ s ∈ srcs, wf s ∧ dir s = false := by
    intro s hs
    obtain ⟨⟨h1, h2, h3⟩, hi⟩ := hg s hs
    refine ⟨⟨h1, h2, h3, ?_⟩, ?_⟩
    · rw [hi]; simp [Rd.WF]
    · show s.it.bkwd = false; rw [hi]
  have hfm : srcs.flatMap view = srcs.flatMap JSrc.all := JSrc.flatMap_congr' hv
  obtain ⟨t, ht, R⟩ := multi_read srcs hne hw rel f (by rw [hfm]; exact hf)
  simp only at R
  obtain ⟨r1, r2, r3, r4⟩ := R
  refine ⟨t, ht, hfm ▸ r1, fun s hs => hv s hs ▸ r2 s hs, ?_, ?_⟩
  · intro ha; exact r3 (fun s hs => (hv s hs).symm ▸ ha s hs)
  · intro e he
    obtain ⟨s, hs, hes⟩ := r4 e he
    rw [hv s hs] at hes
    refine ⟨s, hs, hes, ?_⟩
    simp only [JSrc.all, List.mem_map] at hes
    obtain ⟨r, _, rfl⟩ := hes; rfl

/-- **the same cursor placed at the tail and walked backward**: every iterator stands behind all chunks of its journal
(`POSITION tail`: chunk id and index all ones), the cursor is switched backward and read: a permutation of the concatenated
journals, each partition in *reversed* stored order, descending in time whenever every journal is ascending.
Needs the chunk-size bound (part of `GoodJournal`), as the backward iterator lemmas do. -/
theorem multi_read_journals_backward (srcs : List JSrc) (hne : srcs ≠ [])
    (hg : ∀ s ∈ srcs, GoodJournal s.j ∧ ∃ cid idx, s.it = { cid := cid, idx := idx } ∧ ∀ c ∈ s.j, c.id < cid)
    (rel : Nat → Bool × Bool) (f : Nat) (hf : (srcs.flatMap JSrc.all).length < f) :
    ∃ t, build srcs = some t ∧
      let read := (t.setBackward true).drainRel rel f 0
      read.Perm (srcs.flatMap (fun s => s.all.reverse)) ∧
      (∀ s ∈ srcs, s.all.reverse.Sublist read) ∧
      ((∀ s ∈ srcs, Ascending s.all) → Descending read) ∧
      (∀ e ∈ read, ∃ s ∈ srcs, e ∈ s.all ∧ e.tags = s.tags) := by
  have hv : ∀ s ∈ srcs, view (Source.setBackward true s) = s.all.reverse := by
    intro s hs
    obtain ⟨_, cid, idx, hi, hc⟩ := hg s hs
    obtain ⟨tags, j, it⟩ := s
    simp only at hi hc; subst hi
    exact JSrc.view_tail_backward tags j cid idx hc
  have hw : ∀ s ∈ srcs, wf s ∧ dir s = false := by
    intro s hs
    obtain ⟨⟨h1, h2, h3⟩, cid, idx, hi, _⟩ := hg s hs
    refine ⟨⟨h1, h2, h3, ?_⟩, ?_⟩
    · rw [hi]; simp [Rd.WF]
    · show s.it.bkwd = false; rw [hi]
  obtain ⟨t, ht, hl, _⟩ := mixTree_leaves srcs hne
  obtain ⟨tw, td⟩ := newCursor_tree_WF srcs hw t ht
  have hfm : srcs.flatMap (fun s => view (Source.setBackward true s)) = srcs.flatMap (fun s => s.all.reverse) :=
    JSrc.flatMap_congr' hv
  have hlen : (t.setBackward true).view.length < f := by
    have p1 := It.view_perm_leaves (t.setBackward true)
    have := It.setBackward_leaves_views true t tw (by rw [td]; decide)
    rw [p1.length_eq, List.flatMap_def, this, ← List.flatMap_def, hl, hfm]
    have : (srcs.flatMap (fun s => s.all.reverse)).length = (srcs.flatMap JSrc.all).length := by
      clear hf hfm hv hw hg hl ht hne
      induction srcs with
      | nil => rfl
      | cons x xs ih => simp [List.flatMap_cons, ih]
    omega
  have R := read_after_switch true t tw (by rw [td]; decide) rel f hlen
  simp only [hl] at R
  obtain ⟨r1, r2, r3, r4⟩ := R
  refine ⟨t, ht, hfm ▸ r1, fun s hs => hv s hs ▸ r2 s hs, ?_, ?_⟩
  · intro ha
    have := r3 (fun s hs => by
      rw [hv s hs, ord_true, List.pairwise_reverse]
      exact ha s hs)
    simpa only [ord_true] using this
  · intro e he
    obtain ⟨s, hs, hes⟩ := r4 e he
    rw [hv s hs, List.mem_reverse] at hes
    refine ⟨s, hs, hes, ?_⟩
    simp only [JSrc.all, List.mem_map] at hes
    obtain ⟨r, _, rfl⟩ := hes; rfl

-- non-vacuity: two partitions, one with two chunks (one of them empty), a tie across the partitions
example : ∃ srcs : List JSrc, srcs.length = 2 ∧ (∀ s ∈ srcs, GoodJournal s.j ∧ s.it = {}) ∧
    (∀ s ∈ srcs, Ascending s.all) ∧ srcs.flatMap JSrc.all ≠ [] :=
  ⟨[⟨1, [⟨10, [⟨0, 1, true⟩, ⟨1, 2, true⟩], 0, 4294967295⟩, ⟨11, [], 0, 4294967295⟩, ⟨12, [⟨2, 2, true⟩], 0, 4294967295⟩], {}⟩,
    ⟨2, [⟨7, [⟨0, 2, true⟩], 0, 4294967295⟩], {}⟩], rfl,
    by simp [GoodJournal, Rd.Sorted, Rd.PosIds, Rd.bw_ChunkBound, Rd.Chunk.cnt, Rd.maxU32],
    by simp [JSrc.all, Rd.flat, JSrc.ev],
    by simp [JSrc.all, Rd.flat]⟩

end Logrange.Props.C04Journal
