import Logrange.Translated.Model
import Logrange.Model.Wire
/-!
# TR — `pkg/model`: the *translated* `(*LogEvent).header` equals the hand-written model `Wire.Event.header` (C13, C01)

Regenerated from the Go source by `tools/go2lean` on every run. `recVersion | 1` is folded by go/types to the byte the
code returns; the model computes `recVersion + 1` from the regenerated fact `Generated.C13.recVersion` — the theorem
therefore also re-checks that fact (and that bit 0 of `recVersion` is clear) against the source.
-/
namespace Logrange.Props.TRModel
open Go.Sem Logrange Logrange.Translated.Model

/-- `header()`: the stored-record header byte, as a function of "has fields" only -/
theorem tr_LogEvent_header_eq (le : LogEvent_header_le) (e : Wire.Event) (h : e.fields = le.Fields) :
    ∃ b, LogEvent_header le = .ok b ∧ b.toNat = e.header := by
  cases hf : le.Fields with
  | nil => simp [LogEvent_header, Wire.Event.header, h, hf, Generated.C13.recVersion]
  | cons x xs =>
    have : (0 : Int) < ((xs.length : Int) + 1) := by omega
    simp [LogEvent_header, Wire.Event.header, h, hf, Generated.C13.recVersion, len, this]

example : LogEvent_header { Fields := [1, 97, 1, 98] } = .ok 33 := by decide +kernel

end Logrange.Props.TRModel
