import Logrange.Proofs.TruncateHolders
import Logrange.Generated.C09
/-!
# C09, drop clause among concurrent holders — "a partition is dropped entirely only when it holds no data and nobody uses it"

Stated on the product of C14's transition system of the tag index (`Model/TIndexLts.lean`, read-only: acquisition
counts, exclusive lock, both `Visit` flavours) with the acknowledged bytes of every partition and the program of
`deleteJournal` run statement by statement (`Model/TruncateHolders.lean`). The theorems quantify over **every trace**:
any number of actors and partitions, every interleaving of TRUNCATE's visit and of the statements of `deleteJournal`
with acquire / release / write / flush / chunk-removal steps of everybody else (other TRUNCATEs included). The two shape
facts of `deleteJournal` are the regenerated ones.
-/
namespace Logrange.Props.C09Holders
open Logrange.TruncHolders
open Logrange.TIndexLts (nTok)

/-- the system with `deleteJournal` as the code has it now -/
def reach (tr : List Lbl) : St :=
  run Generated.C09.deleteJournalRechecksSize Generated.C09.deleteJournalSyncsBeforeRecheck init tr

/-- **Whenever a partition is dropped, at that very moment it holds no acknowledged byte (flushed or not) and the only
outstanding acquisition is the dropper's own** — every trace, every interleaving. -/
theorem drop_only_empty_and_unused_among_holders (tr : List Lbl) :
    ∀ d ∈ (reach tr).drops, d.toks = 1 ∧ d.conf = 0 ∧ d.unfl = 0 := by
  intro d hd
  have h1 : Generated.C09.deleteJournalRechecksSize = true := by decide
  have h2 : Generated.C09.deleteJournalSyncsBeforeRecheck = true := by decide
  have h := drops_inv _ _ tr d hd
  exact ⟨h.1, (h.2 h1 h2).1, (h.2 h1 h2).2⟩

/-- "nobody uses it" does not depend on the two shape facts: the exclusive lock alone gives it -/
theorem drop_only_unused_any_shape (recheck synced : Bool) (tr : List Lbl) :
    ∀ d ∈ (run recheck synced init tr).drops, d.toks = 1 :=
  fun d hd => (drops_inv recheck synced tr d hd).1

/-- the index part of every reachable state satisfies C14's invariant: reader counts equal outstanding acquisitions and
nothing panicked (`deleteJournal` follows the calling protocol of the index in every interleaving) -/
theorem holders_index_invariant (tr : List Lbl) :
    (reach tr).t.panicked = false ∧
    ∀ s p, (reach tr).t.c.parts s = some p → p.readers = (nTok s (reach tr).t.c.holds : Int) :=
  let h := reach_idx_inv _ _ tr
  ⟨h.noPanic, h.core.cnt⟩

/-- non-vacuity: an emptied partition nobody else holds IS dropped -/
theorem drop_happens_when_empty_and_unused :
    (run true true init [ .idx (.getOrCreate 1 7 true), .write 1 0 57, .idx (.release 1 0), .idx (.getTags 2 0 true),
      .remove 2 0 57 57, .djLock 2 0, .djCheck 2, .djDelete 2, .djUnlock 2 ]).drops.map
        (fun d => (d.src, d.conf, d.unfl, d.toks)) = [(0, 0, 0, 1)] := drop_happens

/-- without the size re-check under the lock (a seeded change) a writer that appends between TRUNCATE's chunk removal
and the lock loses its 19 acknowledged bytes with the partition; with the re-check the drop is refused -/
theorem cex_holders_drop_without_recheck :
    ((run false true init raceTrace).drops.map (fun d => (d.src, d.conf, d.unfl, d.toks)) = [(0, 19, 0, 1)]) ∧
    (run true true init raceTrace).drops = [] := cex_drop_race_without_recheck

/-- regression of F76 at the level of interleavings: the re-check without the `Sync` drops a partition whose 19
acknowledged bytes are flushed by the timer between the re-check and `Delete` -/
theorem regress_holders_recheck_without_sync :
    (run true false init [ .idx (.getOrCreate 1 7 true), .write 1 0 19, .idx (.release 1 0), .idx (.getTags 2 0 true),
      .djLock 2 0, .djCheck 2, .flush 0, .djDelete 2, .djUnlock 2 ]).drops.map
        (fun d => (d.src, d.conf, d.unfl, d.toks)) = [(0, 19, 0, 1)] := cex_recheck_without_sync.1

end Logrange.Props.C09Holders
