import Logrange.Proofs.PipeLive
import Logrange.Props.C10
/-!
# C11 — the pipe-worker half: an event written while a worker is finishing is copied without waiting for a later write

Property theorems only (model: the pipe LTS `Logrange/Model/PipeLts.lean` of C10; lemmas: `Logrange/Proofs/PipeLive.lean`).
`no_stranded_data` (C10) is the safety half for all interleavings: data behind `LastKnwnPos` has a charged worker. Here is
the liveness half in bounded form, like `eventually_delivered` for readers: the two critical sections that can race — the
finishing worker's `workerDone` (hook `pipe.worker.beforeDone` parks the worker right before it) and the notificator's
`onWriteEvent` for the late write — are taken in **either order**, and in both the result is the same state: a NEW worker is
charged for the source with `LastKnwnPos` at the end of the late write; that worker's first round (open the cursor at `Pos`,
copy, save — no step of any writer) puts everything stored, the late event included, into the pipe's partition.
The write itself and its publication (`write`, `enqueue`) touch neither the descriptor nor the worker, so every interleaving
of the worker's finishing steps with the write's three steps reduces to these two orders.
-/
namespace Logrange.Props.C11Pipe
open Logrange.PipeLts Logrange.Props.C10

/-- the order of "sign off" and "check for more data", regenerated from `ppipe.workerDone` / `ppipe.onWriteEvent`:
`wCharged = false` precedes `startWorker` in `workerDone`; `LastKnwnPos = …` precedes `startWorker` in `onWriteEvent`; each
pair lies inside one critical section of the pipe's lock (so the model's `wdone` and `notify` are atomic steps); and
`workerDone` does call `startWorker`. The model's `wdone` clears `charged` first and `onWriteEvent` records first — as here. -/
theorem finishing_order_facts :
    Generated.C10.workerDoneSignsOffBeforeRecheck = true ∧ Generated.C10.onWriteEventRecordsBeforeStart = true ∧
    Generated.C10.signOffAndNotificationUnderOneLock = true ∧ Generated.C10.workerDoneRearms = true ∧
    Generated.C10.startWorkerCondition = true := by decide

/-- **Either order re-arms** (any state of the LTS — no reachability needed — with the pipe alive and the service running):
a worker of source `s` has left its loop (`finishing`, still charged), the notification `we` of a write that ends beyond the
saved position is at the head of the channel and finds the pipe. Whether the notificator or `workerDone` takes the pipe's
lock first, afterwards a new worker is `starting`, the descriptor is charged with `LastKnwnPos = we.EndPos`, the
notification is consumed and nothing was written to the pipe's partition yet. -/
theorem late_event_rearms_in_either_order (st : State) (s : Nat) (d : Desc) (we : WE) (rest : List WE)
    (hns : noStart cfgNow st = false) (hdn : st.down = false)
    (hch : st.chan = we :: rest) (hsrc : we.src = s) (hhit : (pipesForSource st s).1 = true)
    (hd : (st.srcs s).desc = some d) (hw : (st.srcs s).wk = .finishing) (hc : d.charged = true)
    (hlt : d.pos < we.endPos) (tr : List Label) (htr : tr = [.notify, .wdone s] ∨ tr = [.wdone s, .notify]) :
    let st' := run cfgNow st tr
    (st'.srcs s).wk = .starting ∧ (st'.srcs s).desc = some (rearmed d we) ∧ st'.chan = rest ∧ st'.dest = st.dest := by
  have _facts := finishing_order_facts
  have hre : cfgNow.rearm = true := by decide
  rcases htr with h | h
  · subst h
    obtain ⟨a, b, c, e, _⟩ := notify_then_done cfgNow st s d we rest hre hns hdn hch hsrc hhit hd hw hc hlt
    exact ⟨a, b, c, e⟩
  · subst h
    obtain ⟨a, b, c, e, _⟩ := done_then_notify cfgNow st s d we rest hre hns hdn hch hsrc hhit hd hw hc hlt
    exact ⟨a, b, c, e⟩

/-- **The late event is copied without a later write** (bounded liveness): from such a state, for either order of the two
critical sections, the explicit schedule `order ++ [wopen s, wcopy s k, wsave s]` — which contains no `write`, `enqueue` or
further `notify` — ends with the saved position at the end of the stored data (`k` large enough for one round; a smaller `k`
just means more rounds), and the pipe's partition has grown by exactly the accepted events from the old position to the end
— the late write's events among them (`d.pos < we.EndPos ≤ stored`). Length of the schedule: 5. -/
theorem event_written_while_finishing_is_copied (st : State) (s : Nat) (d : Desc) (we : WE) (rest : List WE)
    (hns : noStart cfgNow st = false) (hdn : st.down = false) (hlive : st.pipe = .live)
    (hch : st.chan = we :: rest) (hsrc : we.src = s) (hhit : (pipesForSource st s).1 = true)
    (hd : (st.srcs s).desc = some d) (hw : (st.srcs s).wk = .finishing) (hc : d.charged = true)
    (hlt : d.pos < we.endPos) (hend : we.endPos ≤ (st.srcs s).log.length)
    (tr : List Label) (htr : tr = [.notify, .wdone s] ∨ tr = [.wdone s, .notify])
    (k : Nat) (hk : (st.srcs s).log.length ≤ d.pos + k) :
    let st2 := run cfgNow st (tr ++ [.wopen s, .wcopy s k, .wsave s])
    (st2.srcs s).desc = some { rearmed d we with pos := (st.srcs s).log.length } ∧
    we.endPos ≤ (st.srcs s).log.length ∧
    st2.dest = st.dest ++ ((slice (st.srcs s).log d.pos (st.srcs s).log.length).filter st.flt).map
      (fun e => (s, addProv (st.srcs s).prov e)) ∧
    (st2.srcs s).log = (st.srcs s).log ∧ st2.chan = rest := by
  have hre : cfgNow.rearm = true := by decide
  have hcl : st.closed = false := by
    simp only [noStart, Bool.or_eq_false_iff] at hns; exact hns.1
  have hmid : let st' := run cfgNow st tr
      (st'.srcs s).wk = .starting ∧ (st'.srcs s).desc = some (rearmed d we) ∧ st'.chan = rest ∧ st'.dest = st.dest ∧
      (st'.srcs s).log = (st.srcs s).log ∧ st'.pipe = st.pipe ∧ st'.closed = st.closed ∧ st'.flt = st.flt ∧
      (st'.srcs s).prov = (st.srcs s).prov := by
    rcases htr with h | h
    · subst h; exact notify_then_done cfgNow st s d we rest hre hns hdn hch hsrc hhit hd hw hc hlt
    · subst h; exact done_then_notify cfgNow st s d we rest hre hns hdn hch hsrc hhit hd hw hc hlt
  obtain ⟨m1, m2, m3, m4, m5, m6, m7, m8, m9⟩ := hmid
  have hround := starting_worker_round cfgNow (run cfgNow st tr) s k (rearmed d we) m1 m2 (by rw [m7]; exact hcl) (by rw [m6]; exact hlive)
  rw [run_append]
  obtain ⟨r1, _, r3, r4, r5⟩ := hround
  have hmin : min ((rearmed d we).pos + k) (st.srcs s).log.length = (st.srcs s).log.length := by
    have : (rearmed d we).pos = d.pos := rfl
    rw [this]; exact Nat.min_eq_right hk
  have hf : cfgNow.applyFilter = true := by decide
  rw [m5, hmin] at r1 r3
  refine ⟨r1, hend, ?_, by rw [r4, m5], by rw [r5, m3]⟩
  rw [r3, m4, m8, m9]
  simp [sel, hf, rearmed]

/-- the four ways `workerDone` can fall between the three steps of the late write (stored, published, notified) -/
def finishingInterleavings (s : Nat) (batch : List Ev) : List (List Label) :=
  [[.wdone s, .write s batch, .enqueue 0, .notify], [.write s batch, .wdone s, .enqueue 0, .notify],
   [.write s batch, .enqueue 0, .wdone s, .notify], [.write s batch, .enqueue 0, .notify, .wdone s]]

/-- **Every interleaving of the worker's sign-off with the late write** (stored → published → notified): a worker of source
`s` has left its loop (`finishing`, charged), nothing is queued or unpublished, a batch is written to `s`. Wherever
`workerDone` falls — before the write, between the write and its publication, between publication and notification, or after
the notification — the same three worker steps afterwards (open, copy, save; no further write) leave the saved position at the
end of the stored data and the pipe's partition grown by exactly the accepted events from the old position to that end: the
late batch is there. (`write`/`enqueue` commute with `wdone`: `done_commutes_with_write_and_publication`; the remaining two
orders are `late_event_rearms_in_either_order`.) -/
theorem late_write_copied_in_every_interleaving (st : State) (s : Nat) (d : Desc) (batch : List Ev)
    (hns : noStart cfgNow st = false) (hdn : st.down = false) (hlive : st.pipe = .live) (hs : s < st.n)
    (hb : batch.isEmpty = false) (hpend : st.pend = []) (hchan : st.chan = [])
    (hhit : (pipesForSource st s).1 = true)
    (hd : (st.srcs s).desc = some d) (hw : (st.srcs s).wk = .finishing) (hc : d.charged = true)
    (hpos : d.pos ≤ (st.srcs s).log.length)
    (tr : List Label) (htr : tr ∈ finishingInterleavings s batch) (k : Nat) (hk : (st.srcs s).log.length + batch.length ≤ d.pos + k) :
    let st2 := run cfgNow st (tr ++ [.wopen s, .wcopy s k, .wsave s])
    (∃ d2, (st2.srcs s).desc = some d2 ∧ d2.pos = (st.srcs s).log.length + batch.length ∧ d2.charged = true) ∧
    (st2.srcs s).log = (st.srcs s).log ++ batch ∧
    st2.dest = st.dest ++ ((slice ((st.srcs s).log ++ batch) d.pos ((st.srcs s).log.length + batch.length)).filter st.flt).map
      (fun e => (s, addProv (st.srcs s).prov e)) := by
  have hre : cfgNow.rearm = true := by decide
  have hcap : st.chan.length < cfgNow.chanCap := by rw [hchan]; decide
  have hblen : 0 < batch.length := by
    cases batch with
    | nil => simp at hb
    | cons _ _ => simp
  -- the state after "stored and published"
  have hW := step_write0 cfgNow st s batch hdn hs hb hpend
  have hE := step_enqueue0 cfgNow st s (st.srcs s) batch hdn hcap
  have hWE : ∀ rest, run cfgNow st (.write s batch :: .enqueue 0 :: rest) = run cfgNow (published st s (st.srcs s) batch) rest := by
    intro rest; rw [run_cons_some _ _ _ _ _ hW, run_cons_some _ _ _ _ _ hE]
  obtain ⟨hc1, hc2⟩ := done_commutes_with_write_and_publication cfgNow st s d batch hre hns hdn hs hb hpend hcap hd hw
  -- the hypotheses of the two-order theorem hold in that state
  let we : WE := ⟨s, (st.srcs s).log.length, (st.srcs s).log.length + batch.length⟩
  have key : ∀ o, (o = [Label.notify, .wdone s] ∨ o = [Label.wdone s, .notify]) →
      let st2 := run cfgNow (published st s (st.srcs s) batch) (o ++ [.wopen s, .wcopy s k, .wsave s])
      (∃ d2, (st2.srcs s).desc = some d2 ∧ d2.pos = (st.srcs s).log.length + batch.length ∧ d2.charged = true) ∧
      (st2.srcs s).log = (st.srcs s).log ++ batch ∧
      st2.dest = st.dest ++ ((slice ((st.srcs s).log ++ batch) d.pos ((st.srcs s).log.length + batch.length)).filter st.flt).map
        (fun e => (s, addProv (st.srcs s).prov e)) := by
    intro o ho
    have hlen : ((published st s (st.srcs s) batch).srcs s).log.length = (st.srcs s).log.length + batch.length := by
      simp [published, setSrc]
    have h := event_written_while_finishing_is_copied (published st s (st.srcs s) batch) s d we []
      hns hdn hlive (by simp [published, setSrc, hchan, we]) rfl
      (by rw [pipesForSource_congr st (published st s (st.srcs s) batch) s rfl rfl rfl (by simp [published, setSrc])]; exact hhit)
      (by simp [published, setSrc, hd]) (by simp [published, setSrc, hw]) hc
      (by simp only [we]; omega) (by rw [hlen]; exact Nat.le_refl _) o ho k (by rw [hlen]; exact hk)
    obtain ⟨h1, _, h3, h4, _⟩ := h
    refine ⟨⟨_, h1, by rw [hlen], rfl⟩, ?_, ?_⟩
    · rw [h4]; simp [published, setSrc]
    · rw [h3, hlen]; simp [published, setSrc]
  simp only [finishingInterleavings, List.mem_cons, List.mem_nil_iff, or_false] at htr
  rcases htr with h | h | h | h
  · -- D W E N
    subst h
    have : run cfgNow st ([.wdone s, .write s batch, .enqueue 0, .notify] ++ [.wopen s, .wcopy s k, .wsave s])
        = run cfgNow (published st s (st.srcs s) batch) ([.wdone s, .notify] ++ [.wopen s, .wcopy s k, .wsave s]) := by
      have e1 : ([Label.wdone s, .write s batch, .enqueue 0, .notify] ++ [Label.wopen s, .wcopy s k, .wsave s])
          = [Label.wdone s, .write s batch, .enqueue 0] ++ ([Label.notify] ++ [Label.wopen s, .wcopy s k, .wsave s]) := rfl
      rw [e1, run_append, hc1, hWE [Label.wdone s], ← run_append]
      rfl
    rw [this]; exact key _ (Or.inr rfl)
  · -- W D E N
    subst h
    have : run cfgNow st ([.write s batch, .wdone s, .enqueue 0, .notify] ++ [.wopen s, .wcopy s k, .wsave s])
        = run cfgNow (published st s (st.srcs s) batch) ([.wdone s, .notify] ++ [.wopen s, .wcopy s k, .wsave s]) := by
      have e1 : ([Label.write s batch, .wdone s, .enqueue 0, .notify] ++ [Label.wopen s, .wcopy s k, .wsave s])
          = [Label.write s batch, .wdone s, .enqueue 0] ++ ([Label.notify] ++ [Label.wopen s, .wcopy s k, .wsave s]) := rfl
      rw [e1, run_append, hc2, hWE [Label.wdone s], ← run_append]
      rfl
    rw [this]; exact key _ (Or.inr rfl)
  · -- W E D N
    subst h
    have : run cfgNow st ([.write s batch, .enqueue 0, .wdone s, .notify] ++ [.wopen s, .wcopy s k, .wsave s])
        = run cfgNow (published st s (st.srcs s) batch) ([.wdone s, .notify] ++ [.wopen s, .wcopy s k, .wsave s]) := hWE _
    rw [this]; exact key _ (Or.inr rfl)
  · -- W E N D
    subst h
    have : run cfgNow st ([.write s batch, .enqueue 0, .notify, .wdone s] ++ [.wopen s, .wcopy s k, .wsave s])
        = run cfgNow (published st s (st.srcs s) batch) ([.notify, .wdone s] ++ [.wopen s, .wcopy s k, .wsave s]) := hWE _
    rw [this]; exact key _ (Or.inl rfl)

/-- non-vacuity, and the behaviour section `pipe` of the harness measures: a worker copied `evA`, timed out and is parked
before `workerDone`; `evB` is written and its notification queued; both orders end with `evB` in the pipe's partition -/
example :
    let st := run cfgNow (init 1 (fun _ => true) (fun _ => prov0) (fun _ => true) false)
      [.create, .write 0 [evA], .enqueue 0, .notify, .wopen 0, .wcopy 0 100, .wsave 0, .wtimeout 0, .write 0 [evB], .enqueue 0]
    noStart cfgNow st = false ∧ st.down = false ∧ st.pipe = .live ∧ st.chan = [⟨0, 1, 2⟩] ∧ (pipesForSource st 0).1 = true ∧
    (st.srcs 0).wk = .finishing ∧ (st.srcs 0).desc = some ⟨1, 1, true, 0, false⟩ ∧
    (proj 0 (run cfgNow st [.notify, .wdone 0, .wopen 0, .wcopy 0 100, .wsave 0]).dest).map (·.msg) = [[97], [98]] ∧
    (proj 0 (run cfgNow st [.wdone 0, .notify, .wopen 0, .wcopy 0 100, .wsave 0]).dest).map (·.msg) = [[97], [98]] := by
  decide

end Logrange.Props.C11Pipe
