import Logrange.Proofs.RdMergeNJournal
import Logrange.Proofs.RdOffsetBwd
/-!
# C16 — the forward offset law on a merged cursor of ANY number of partitions

On C04's mixer-tree model (`Logrange.Mixer.It`, `build` = `newCursor`'s reduction; read-only import) over the journal
iterator leaves of C03/C16 (`JSrc` library iterator, `RSrc` ranged iterator). `offsetFwdT k` is the positive branch of
`crsr.Offset` as a call sequence: `Get` (settle), then `k` times `Next; Get`, stopping at the first EOF. The backward
laws on merged cursors (`Mixer.SetBackward` with its inverted comparison, `iterateToPos`) stay as stated in
`Props/C16.lean` (`offset_laws_fixed_order_stmt`, instance, tests).
-/
namespace Logrange.Props.C16Merged
open Logrange.Mixer Logrange.MixTree Logrange.MergeN Logrange.Rd LawfulSource

variable {σ : Type} [Source σ] [LawfulSource σ]

/-- `Offset(+k)`: `Get`, then (`Next`, `Get`) `k` times or until EOF -/
def offsetFwdT (k : Nat) (t : It σ) : It σ := (afterK k t).get.1

/-- from ANY well-formed forward state of a mixer tree over lawful leaves: after `Offset(+k)` a read of `n` events delivers
the old stream without its first `k` events -/
theorem offset_forward_n (t : It σ) (h : t.WF) (k n : Nat) :
    (offsetFwdT k t).drain n = (t.view.drop k).take n := by
  obtain ⟨_, r2, r3, _, _, _⟩ := page_read (fun _ : σ => True) (fun _ _ => trivial) (fun _ _ => trivial)
    (fun _ _ => trivial) k t h
  obtain ⟨_, gv, gw, _, _⟩ := It.get_spec (afterK k t) r2
  obtain ⟨d1, _⟩ := page_read (fun _ : σ => True) (fun _ _ => trivial) (fun _ _ => trivial)
    (fun _ _ => trivial) n (afterK k t).get.1 gw
  unfold offsetFwdT
  rw [d1, gv, r3]

def GoodJournal (j : Journal) : Prop := Sorted j ∧ PosIds j ∧ bw_ChunkBound j

/-- **head_plus_k on a merged cursor of n partitions** (un-ranged, unfiltered): `head` with offset +k skips exactly the first
k events of the merged stream, which is a permutation of all stored events with every partition in stored order -/
theorem head_plus_k_n_partitions (srcs : List JSrc) (hne : srcs ≠ []) (hg : ∀ s ∈ srcs, GoodJournal s.j ∧ s.it = {})
    (k n : Nat) :
    ∃ t, build srcs = some t ∧ (offsetFwdT k t).drain n = (t.view.drop k).take n ∧
      t.view.Perm (srcs.flatMap JSrc.all) ∧ (∀ s ∈ srcs, s.all.Sublist t.view) := by
  obtain ⟨t, ht, hl⟩ := build_leaves srcs hne
  have hv : ∀ s ∈ srcs, view s = s.all := by
    intro s hs
    obtain ⟨⟨_, hp, _⟩, hi⟩ := hg s hs
    obtain ⟨tags, j, it⟩ := s
    simp only at hi hp; subst hi
    exact JSrc.view_head tags j hp
  have hP : ∀ s ∈ srcs, PJ s ∧ wf s ∧ dir s = false := by
    intro s hs
    obtain ⟨⟨h1, h2, h3⟩, hi⟩ := hg s hs
    have hw : JSrc.wf s := ⟨h1, h2, h3, by rw [hi]; simp [Rd.WF]⟩
    exact ⟨⟨hw, by rw [hi], by rw [hi]; simp [Synced]⟩, hw, by show s.it.bkwd = false; rw [hi]⟩
  have hinv := built_inv PJ refreshJ pj_get pj_next pj_release pj_refresh srcs t ht hP
  refine ⟨t, ht, offset_forward_n t hinv.1 k n, ?_, ?_⟩
  · have := It.view_perm_leaves t
    rw [hl, JSrc.flatMap_congr' hv] at this; exact this
  · intro s hs
    have := It.view_sublist_leaf t s (by rw [hl]; exact hs)
    rw [hv s hs] at this; exact this

/-! ### the backward laws on NESTED mixers (three and four partitions), evaluated by the kernel on the array interpreter

`Model/RdCursor.lean` (the faithful interpreter: per-node mixer state, `SetBackward` with release and inverted comparison,
`iterateToPos`): partitions with timestamp ties across and inside them, several chunks, an empty chunk. All k. -/

def rq (l : Nat) (t : Int) : Rd.Rec := { lbl := l, ts := t }
def jA : Journal := [⟨10, [rq 0 10, rq 1 12], 0, maxU32⟩, ⟨20, [], 0, maxU32⟩, ⟨30, [rq 2 12, rq 3 15], 0, maxU32⟩]
def jB : Journal := [⟨10, [rq 100 11, rq 101 12, rq 102 12], 0, maxU32⟩]
def jC : Journal := [⟨10, [rq 200 9], 0, maxU32⟩, ⟨20, [rq 201 12, rq 202 16], 0, maxU32⟩]
def jD : Journal := [⟨10, [rq 300 12, rq 301 13], 0, maxU32⟩]
def curN (np : Nat) : Cur :=
  mkCur (([(0, jA), (1, jB), (2, jC), (3, jD)].take np).map (fun x => { name := x.1, jrnl := x.2 })) false none none false
def fwdN (np : Nat) : List Rd.Rec := readN 20 (applyCorner (curN np) false)

theorem offset_laws_nested_instance : ∀ np ∈ ([3, 4] : List Nat), ∀ k ∈ List.range 13,
    readN 20 (offset (applyCorner (curN np) false) (k : Nat)) = (fwdN np).drop k ∧
    readN 20 (offset (applyCorner (curN np) true) (-(k : Int))) = (fwdN np).drop ((fwdN np).length - k) := by
  decide +kernel

theorem plus_minus_nested_instance : ∀ np ∈ ([3, 4] : List Nat), ∀ m ∈ ([0, 1, 4, 7] : List Nat), ∀ k ∈ ([1, 2, 3] : List Nat),
    readN 20 (offset (offset (readLoop m (applyCorner (curN np) false) []).1 (k : Int)) (-(k : Int))) =
      readN 20 (readLoop m (applyCorner (curN np) false) []).1 := by
  decide +kernel

end Logrange.Props.C16Merged
