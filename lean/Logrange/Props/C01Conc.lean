import Logrange.Proofs.WritersPos
import Logrange.Proofs.JIterObsRefine
/-!
# C01 — concurrency: the positions concurrent writers get back; the observation model refines to the tail model

Property theorems only. Models: `Model/WritersLts.lean` + `Model/WritersPos.lean` (returns of `Chunk.write`), `Model/JIterObs.lean`
(general observation model of the library journal iterator and its tail specialisation). Lemmas: `Proofs/WritersPos.lean`,
`Proofs/JIterObsRefine.lean`.
-/
namespace Logrange.Props.C01Conc
open Logrange

/-! ## positions returned to concurrent writers -/

/-- **Every announcement delimits exactly the caller's own records, under every schedule** — with the chunk's record count taken
inside `Chunk.write`'s critical section (`retOf`): for any number of writers, any batches, any `maxChunkSize`, EVERY schedule of
`submit` / `GetChunkForWrite` / `Chunk.write` steps, every call that wrote `n > 0` records and returned `(chunk, cnt)`: in the
final state of the schedule the records `[cnt-n, cnt)` of that chunk — the range `Service.Write` hands to `OnWrite(first, last)` and
builds `StartPos`/`EndPos` from — are exactly the `n` records that call wrote, all the caller's own. -/
theorem writer_positions_delimit_own_records (maxSize : Nat) (sched : List WritersLts.Label) :
    ∀ r ∈ (WritersLts.runLog maxSize {} sched).2, ∃ c : WritersLts.Chunk,
      (WritersLts.run maxSize {} sched).chunks[r.chunk]? = some c ∧
      (c.recs.drop r.first).take r.n = r.recs ∧ r.recs.length = r.n ∧ 0 < r.n ∧ (∀ x ∈ r.recs, x.w = r.w) :=
  WritersLts.positions_delimit_own_records maxSize sched

/-- … and they go on doing so whatever happens afterwards (chunks are append-only) -/
theorem writer_positions_stable (maxSize : Nat) (sched more : List WritersLts.Label) :
    ∀ r ∈ (WritersLts.runLog maxSize {} sched).2,
      WritersLts.Delimits (WritersLts.run maxSize (WritersLts.run maxSize {} sched) more) r :=
  WritersLts.positions_delimit_in_every_later_state maxSize sched more

/-- **Every stored record is announced exactly once, to its writer, in stored order**: the records announced to writer `w` by its
successive calls, concatenated in call order, are exactly `w`'s records in the journal in stored order (with
`writers_interleave`: its submitted batches minus the unwritten rest of the current one). So the first announced position of a
`Service.Write` (`StartPos`) is the position of the batch's first record, the last (`EndPos`) is one past its last record, and
between them lie all records of the batch — plus other writers' records only where the batch was split at a roll-over. -/
theorem writer_returns_cover_exactly (maxSize : Nat) (sched : List WritersLts.Label) (w : Nat) :
    (((WritersLts.runLog maxSize {} sched).2.filter (fun r => r.w == w)).flatMap (·.recs)) =
      WritersLts.byWriter w (WritersLts.readAll (WritersLts.run maxSize {} sched).chunks) :=
  WritersLts.returns_cover_exactly maxSize sched w

/-- the statement at full strength for the code AS IT IS: the library reads the count after the writer lock is released
(`cw.lock.Unlock(); …; return wrtn, cw.cnt, err` in `chunkfs.cWrtier.write`), i.e. in some LATER state -/
def late_positions_exact : Prop :=
  ∀ (maxSize : Nat) (s later : WritersLts.State) (more : List WritersLts.Label) (l : WritersLts.Label) (r : WritersLts.Ret),
    WritersLts.retOf maxSize s l = some r → later = WritersLts.run maxSize ((WritersLts.step maxSize s l).getD s) more →
    WritersLts.lateCount later r.chunk - r.n = r.first

/-- **partial**: the late count gives the exact range whenever nothing was appended to that chunk between the end of the critical
section and the count read -/
theorem late_positions_exact_partial (maxSize : Nat) (s later : WritersLts.State) (l : WritersLts.Label) (r : WritersLts.Ret)
    (h : WritersLts.retOf maxSize s l = some r)
    (hq : WritersLts.lateCount later r.chunk = WritersLts.lateCount ((WritersLts.step maxSize s l).getD s) r.chunk) :
    WritersLts.lateCount later r.chunk - r.n = r.first :=
  WritersLts.late_count_exact_when_quiet maxSize s later l r h hq

/-- **counterexample (kernel-checked)**: two writers hold the same chunk; writer 1 writes records 0,1; writer 2's record lands
between writer 1's unlock and its count read: the count is 3, writer 1 announces `[1,2]` — its own first record is missing from
the range and writer 2's record is inside it. -/
theorem cex_late_count_shifts_positions :
    WritersLts.retOf 100 WritersLts.cexBefore (.chunkWrite 1) = some ⟨1, 0, 0, 2, [⟨1, [1]⟩, ⟨1, [2]⟩]⟩ ∧
    WritersLts.lateCount WritersLts.cexS2 0 = 3 ∧ WritersLts.lateCount WritersLts.cexS2 0 - 2 = 1 ∧
    (WritersLts.cexS2.chunks[0]?.map (fun c => (c.recs.drop 1).take 2)) = some [⟨1, [2]⟩, ⟨2, [9]⟩] :=
  WritersLts.cex_late_count_shifts_positions

theorem not_late_positions_exact : ¬ late_positions_exact := by
  intro h
  have h1 := WritersLts.cex_late_count_shifts_positions
  have := h 100 WritersLts.cexBefore WritersLts.cexS2 [.chunkWrite 2] (.chunkWrite 1) _ h1.1 (by
    show WritersLts.cexS2 = _
    unfold WritersLts.cexS2 WritersLts.cexS1 WritersLts.cexBefore
    rfl)
  rw [h1.2.2.1] at this
  exact absurd this (by decide)

/-! ### … and under the per-partition write lock of `Service.Write` (regenerated fact `writeLockScope`; /repo 25f9816) -/

/-- the statement at full strength for the write lock as the source has it: between a call's return and its late count read the
other writers take whatever steps the lock leaves them (`between`) — for every assignment `noEv` of `noEvent` arguments to writers -/
def late_positions_exact_locked : Prop :=
  ∀ (maxSize : Nat) (noEv : Nat → Bool) (s : WritersLts.State) (more : List WritersLts.Label) (l : WritersLts.Label)
    (r : WritersLts.Ret), WritersLts.retOf maxSize s l = some r →
    WritersLts.lateCount (WritersLts.run maxSize ((WritersLts.step maxSize s l).getD s) (WritersLts.between noEv r.w more)) r.chunk
      - r.n = r.first

/-- **Positions are exact among writers that all take the partition's write lock** — whatever `writeLockScope` is: if every
writer of the partition holds the lock (`takesLock (noEv v)` for all `v`), then whatever the others attempt between a call's return
and its late count read, `cnt - n` is the index of the call's first record (with `writer_positions_delimit_own_records`: the
announced range is exactly the call's own records). -/
theorem late_positions_exact_for_locking_writers (maxSize : Nat) (noEv : Nat → Bool)
    (hall : ∀ v, WritersLts.takesLock (noEv v) = true) (s : WritersLts.State) (more : List WritersLts.Label)
    (l : WritersLts.Label) (r : WritersLts.Ret) (h : WritersLts.retOf maxSize s l = some r) :
    WritersLts.lateCount (WritersLts.run maxSize ((WritersLts.step maxSize s l).getD s) (WritersLts.between noEv r.w more)) r.chunk
      - r.n = r.first :=
  WritersLts.late_count_exact_when_all_lock maxSize noEv hall s more l r h

/-- on a tree where at least the event-publishing writers are serialised (`1 ≤ writeLockScope`, /repo 25f9816): writers that all
call with `noEvent = false` (the RPC ingestor) get exact positions -/
theorem late_positions_exact_when_events_published (h1 : 1 ≤ Generated.C01.writeLockScope ∧ Generated.C01.writeLockScope ≤ 2)
    (maxSize : Nat) (noEv : Nat → Bool) (hev : ∀ v, noEv v = false) (s : WritersLts.State) (more : List WritersLts.Label)
    (l : WritersLts.Label) (r : WritersLts.Ret) (h : WritersLts.retOf maxSize s l = some r) :
    WritersLts.lateCount (WritersLts.run maxSize ((WritersLts.step maxSize s l).getD s) (WritersLts.between noEv r.w more)) r.chunk
      - r.n = r.first := by
  apply late_positions_exact_for_locking_writers maxSize noEv _ s more l r h
  intro v
  have : Generated.C01.writeLockScope = 1 ∨ Generated.C01.writeLockScope = 2 := by omega
  rcases this with e | e <;> simp [WritersLts.takesLock, e, hev v]

/-- **the branch for the complete repair** (`writeLockScope = 2`: every caller of `Service.Write` takes the lock): the full statement
holds. Vacuous while the lock is conditional. -/
theorem late_positions_exact_all_writers (h2 : Generated.C01.writeLockScope = 2) : late_positions_exact_locked := by
  intro maxSize noEv s more l r h
  exact late_positions_exact_for_locking_writers maxSize noEv (fun v => by simp [WritersLts.takesLock, h2]) s more l r h

/-- **the other branch (finding F-C01-901, open while `writeLockScope ≠ 2`)**: as long as some callers do not take the lock — the
pipe workers call with `noEvent = true` — the counterexample schedule stands: two such writers on one chunk, writer 2's record lands
between writer 1's unlock and its count read. -/
theorem cex_unlocked_writers_shift (h2 : Generated.C01.writeLockScope ≠ 2) : ¬ late_positions_exact_locked := by
  intro h
  have h1 := WritersLts.cex_late_count_shifts_positions
  have hno : WritersLts.takesLock true = false := by
    unfold WritersLts.takesLock
    simp only [h2, ↓reduceIte]
    split <;> rfl
  have hb : WritersLts.between (fun _ => true) 1 [.chunkWrite 2] = [.chunkWrite 2] := by
    simp [WritersLts.between, hno]
  have := h 100 (fun _ => true) WritersLts.cexBefore [.chunkWrite 2] (.chunkWrite 1) _ h1.1
  rw [show (⟨1, 0, 0, 2, [⟨1, [1]⟩, ⟨1, [2]⟩]⟩ : WritersLts.Ret).w = 1 from rfl, hb] at this
  have e : WritersLts.run 100 ((WritersLts.step 100 WritersLts.cexBefore (.chunkWrite 1)).getD WritersLts.cexBefore) [.chunkWrite 2]
      = WritersLts.cexS2 := by
    unfold WritersLts.cexS2 WritersLts.cexS1 WritersLts.cexBefore
    rfl
  rw [e, h1.2.2.1] at this
  exact absurd this (by decide)

/-- **Regression statement for the fixed finding F-C01-901** (/repo 25f9816 + 3e8b3c3: every caller of `Service.Write` holds the
partition's write lock for the whole call — regenerated fact `writeLockScope = 2`): the positions every writer computes from the
late count are exact, whatever the other writers of the partition attempt in between and whatever `noEvent` they call with.
Unconditional: a lock that is dropped, or taken only by some callers (`if !noEvent`), regenerates the fact to 0/1 and breaks this
theorem (and `cex_unlocked_writers_shift` becomes live again). -/
theorem repaired_write_lock_makes_positions_exact : late_positions_exact_locked :=
  late_positions_exact_all_writers (by decide)

/-- non-vacuity of the hypothesis "all writers take the lock", whichever of the two lock shapes the source has: writers that
publish their events do -/
example (h : 1 ≤ Generated.C01.writeLockScope ∧ Generated.C01.writeLockScope ≤ 2) : ∀ v : Nat, WritersLts.takesLock ((fun _ => false) v) = true := by
  intro _
  have : Generated.C01.writeLockScope = 1 ∨ Generated.C01.writeLockScope = 2 := by omega
  rcases this with e | e <;> simp [WritersLts.takesLock, e]

/-- non-vacuity: writer 1's batch spans a roll-over, writer 2's record lands in between; three calls wrote something -/
example : (WritersLts.runLog 10 {} [.submit 1 [[1], [2], [3]], .submit 2 [[9]], .getChunk 1, .chunkWrite 1, .getChunk 2,
    .chunkWrite 2, .getChunk 2, .chunkWrite 2, .getChunk 1, .chunkWrite 1]).2.map (fun r => (r.w, r.chunk, r.first, r.n))
      = [(1, 0, 0, 2), (2, 1, 0, 1), (1, 1, 1, 1)] := by decide

/-! ## the general observation model refines to the tail model (finding F34) -/

/-- **Refinement**: the general observation model of `journal.JIterator` (chunk list, chunk iterators per contract A.1, every
`Count()` read taken from the chunk's script) run on the probe journal — an old chunk, fully read, and a new last chunk whose
confirmed count follows ANY script — behaves exactly like the tail model (`Tail`: the algorithm specialised to a reader on the last
chunk): same first answer, same position, same delivered records, same class predicate, for every `old`, script, fuel and number
of polls. (Round 1–7: tested three-way on every script; `tail_model_agrees_on_witnesses` was three instances of this.) -/
theorem obs_model_refines_to_tail (old : Nat) (script : List Nat) (fuel polls : Nat) :
    JIterObs.probe old script fuel polls = JIterObs.Tail.probe script fuel polls :=
  JIterObs.probe_refines old script fuel polls

/-- **No skip on the OBSERVATION model when every end-of-data step sees one count**: for every sorted script (confirmed counts only
grow) — if no end-of-data step of the run saw the count grow between the EOF decision and the position read (`grew = false`) then
the reader was handed exactly the records `0, 1, 2, …` in order: nothing skipped, nothing repeated. -/
theorem obs_no_skip_when_stable (old : Nat) (script : List Nat) (hs : script.Pairwise (· ≤ ·)) (fuel polls : Nat) :
    (JIterObs.probe old script fuel polls).grew = false →
    (JIterObs.probe old script fuel polls).delivered = List.range (JIterObs.probe old script fuel polls).delivered.length :=
  JIterObs.obs_probe_no_skip old script (JIterObs.mono_of_sorted script hs) fuel polls

/-- non-vacuity, and the hypothesis cannot be dropped: `[0,0,1,1,1,1,1,3]` is stable and delivers all three records; in `[0,1,1,3]`
one end-of-data step sees the count grow and record 0 is skipped -/
example : (JIterObs.probe 3 [0, 0, 1, 1, 1, 1, 1, 3] 60 10).grew = false ∧
    (JIterObs.probe 3 [0, 0, 1, 1, 1, 1, 1, 3] 60 10).delivered = [0, 1, 2] ∧
    (JIterObs.probe 3 [0, 1, 1, 3] 60 10).grew = true ∧ (JIterObs.probe 3 [0, 1, 1, 3] 60 10).delivered = [1, 2] := by decide

end Logrange.Props.C01Conc
