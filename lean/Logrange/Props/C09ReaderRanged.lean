import Logrange.Proofs.RdRngFwd
import Logrange.Proofs.RdRngWin
import Logrange.Proofs.RdRngPaging
/-!
# C09, reader clause with RANGE — "a reader positioned inside removed data simply continues at the first remaining event"

Stated on the C03/C16 model of the ranged journal iterator (`partition.JIterator` + `chkSelector`:
`Model/RdSelector.lean`, proofs `Proofs/RdRngFwd.lean`, `RdRngWin.lean`, imported read-only; its correspondence with the
real iterator is checked by the C03 harness, and this check's section `reader` runs half of its cases with RANGE).
The journal before the TRUNCATE is `pre ++ rest`, the TRUNCATE removes `pre`. A paging request builds a fresh iterator
and applies the position text of the previous page (`rSetPos rest {} p`): the record index of `p` belonged to the chunk
that is gone — `getPosForward` must forget it (the seeded changes C09-1, C09-5, C09-11 keep it and skip events).
Input contract as in C03Ranged: `WinSound rest lo hi` (every record in the range lies inside its chunk's window; C02).
-/
namespace Logrange.Props.C09ReaderRanged
open Logrange.Rd

/-- **A RANGE reader positioned anywhere inside removed chunks delivers exactly the remaining events of the range,
each once, in stored order, starting with the first remaining one** — for every sorted journal, every removed prefix,
every record index of the stale position, every range and all sound windows. -/
theorem reader_continues_ranged (pre rest : Journal) (hs : Sorted (pre ++ rest)) (p : Pos) (lo hi : Option Int)
    (hw : WinSound rest lo hi) (hin : ∃ c ∈ pre, c.id = p.cid) (n : Nat) (hn : (flat rest).length ≤ n) :
    (rDrain rest n (rSetPos rest {} p)).filter (inRange lo hi) = (flat rest).filter (inRange lo hi) ∧
    ((rDrain rest n (rSetPos rest {} p)).filter (inRange lo hi)).head? = ((flat rest).filter (inRange lo hi)).head? := by
  have hrest : Sorted rest := (List.pairwise_append.mp hs).2.1
  obtain ⟨c0, hc0, hid⟩ := hin
  have hlt : ∀ c ∈ rest, p.cid < c.id := by
    intro c hc
    have := (List.pairwise_append.mp hs).2.2 c0 hc0 c hc
    omega
  have hzero : flatIdx rest p = 0 := by
    apply flatIdx_eq_zero
    intro c hc
    have := hlt c hc
    unfold fiTerm
    have h1 : ¬ c.id < p.cid := by omega
    have h2 : ¬ c.id = p.cid := by omega
    simp [h1, h2]
  obtain ⟨h1, h2, h3, h4⟩ := rw_setPos_fresh rest p
  have hwf : RWF rest (rSetPos rest {} p) := by unfold RWF; rw [h1]; exact Or.inl h4
  have hidx : wIdx rest (rSetPos rest {} p) = wflatIdx rest p := by unfold wIdx rEffPos; rw [h1]; simp [h2]
  have hd : rDrain rest n (rSetPos rest {} p) = (wflat rest).drop (wflatIdx rest p) := by
    rw [rf_drain_eq rest _ n hrest hwf h3, hidx]
    apply List.take_of_length_le
    have := rp_wflat_length_le rest
    simp only [List.length_drop]; omega
  have hf := rwn_filter_from hrest (hw.toF (f := inRange lo hi) (fun _ h => h)) p
  have e1 : (rDrain rest n (rSetPos rest {} p)).filter (inRange lo hi) = (recordsFrom rest p).filter (inRange lo hi) := by
    rw [hd, hf]; rfl
  have e2 : (rDrain rest n (rSetPos rest {} p)).filter (inRange lo hi) = (flat rest).filter (inRange lo hi) := by
    rw [e1]; unfold recordsFrom; rw [hzero, List.drop_zero]
  exact ⟨e2, by rw [e2]⟩

end Logrange.Props.C09ReaderRanged
