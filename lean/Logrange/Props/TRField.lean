import Logrange.Proofs.TrField
/-!
# TR — `pkg/model/field`: the *translated* `Check` and `(Fields).Value` equal the hand-written models

`Logrange.Translated.Field` is regenerated from the Go source by `tools/go2lean` on every run. `Fields.valueP` (C05: the
look-up the WHERE evaluator uses; C13: no request content crashes the decoders) makes the Go panic visible as `none`; the
theorem says the translated code panics on exactly those inputs, returns the same value otherwise, and never exhausts the
emitted fuel. `Check` is compared with both hand models of it (C13 `WireFields.check`, C08 `FieldsKV.check`).

Side condition of the translation: `int` arithmetic does not overflow (indices are bounded by `len(f) + 256`).
-/
namespace Logrange.Props.TRField
open Go Go.Sem Logrange Logrange.Translated

/-- `(Fields).Value(name)` -/
theorem tr_Fields_Value_eq (f name : Bytes) :
    Field.Fields_Value f name = (match Fields.valueP f name with | some v => .ok v | none => .panic) :=
  Proofs.TrField.value_eq f name

example : Field.Fields_Value [1, 97, 1, 98, 1, 99, 2, 100, 101] [99] = .ok [100, 101] := by decide +kernel
example : Field.Fields_Value [1, 97, 1, 98, 1, 99, 5, 100, 101] [99] = .panic := by decide +kernel

/-- `field.Check(str)` against C13's model -/
theorem tr_Check_eq (str : Bytes) :
    Field.Check str = .ok (if WireFields.check str then (str, false) else ([], true)) :=
  Proofs.TrField.check_eq_wire str

/-- `field.Check(str)` against C08's model -/
theorem tr_Check_eq_kv (str : Bytes) :
    Field.Check str = .ok (if FieldsKV.check (str.length + 1) str then (str, false) else ([], true)) :=
  Proofs.TrField.check_eq_kv str

example : Field.Check [1, 97, 2, 98, 99] = .ok ([1, 97, 2, 98, 99], false) := by decide +kernel
example : Field.Check [1, 97, 3, 98, 99] = .ok ([], true) := by decide +kernel

/-- `(Fields).IsEmpty()` -/
theorem tr_Fields_IsEmpty_eq (f : Bytes) : Field.Fields_IsEmpty f = .ok f.isEmpty := by
  cases f with
  | nil => simp [Field.Fields_IsEmpty, len]
  | cons x xs =>
    have : ¬ ((xs.length : Int) + 1 = 0) := by omega
    simp [Field.Fields_IsEmpty, len, this]

end Logrange.Props.TRField
