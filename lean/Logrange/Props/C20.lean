import Logrange.Proofs.Date
import Logrange.Proofs.DateRoundTrip
import Logrange.Proofs.DateLineParser
import Logrange.Proofs.DateLineSkip
import Logrange.Proofs.DateFloat
import Logrange.Proofs.DatePad
import Logrange.Generated.C20
import Logrange.Props.C20Formats
import Logrange.Props.C20Findings
import Logrange.Props.C20Line
/-!
# C20 — Timestamp text is parsed to the instant it denotes, for every supported format

Property theorems only (model: `Logrange/Model/Date{Terms,Layout,Rx,Parser}.lean`, lemmas:
`Logrange/Proofs/Date.lean`, `Logrange/Proofs/DateRoundTrip.lean`). Both format lists, the `terms` table and the
switches of `parseLqlDateTime` are the **regenerated** `Logrange.Generated.C20.*`: a changed format, term or switch
re-checks every theorem below that evaluates them.

"The same instant" is stated on civil fields in a zone; Go's `time.Date` (fields → instant) is applied by the harness
on both sides (trusted, DESIGN §C20).

The full statement `C20_full` (text alone) is a THEOREM on the repaired tree (`C20_full_holds`, from `C20_collector` / `C20_lql` in
`Props/C20Formats.lean`): the defects that refuted it — LQL lower-casing (F19a), `DDDD` (F19d), the damaged `MST` literal (F19m),
cross-format shadowing (F19s) — are repaired in /repo (ab30677, 65e6bcc, bf37a58, 6279a73) and pinned by obligations below.
-/
namespace Logrange.Props.C20
open Logrange.Date Logrange.Generated

/-! ## Integer literals -/

/-- No format of the regenerated LQL list can claim a signed digit string: its regular expression cannot match inside
one (abstract interpretation `reach`, sound by `ms_reach`), or — `MM.DD.YYYY`, `MM.DD.YY`, whose unescaped `.` does match a
digit — its layout rejects whatever digits were matched. Evaluated on the regenerated table by the kernel. -/
theorem lql_formats_reject_digits : lqlFmts.all fmtRejectsDigits = true := by decide +kernel

/-- The structure of `parseLqlDateTime` the model assumes (four attempts in the order relative, constants, format list,
integer) is what the extractor sees in the source now. -/
theorem lql_attempt_order : C20.lqlOrderRelConstFmtInt = true := by decide

/-- **In LQL an integer literal is taken as Unix nanoseconds exactly** — every `int64`, any "now". -/
theorem integer_literal (now : Now) (n : Int) (hlo : -9223372036854775808 ≤ n) (hhi : n ≤ 9223372036854775807) :
    parseLql gcfg lqlFmts now (decimal n) = .unixNano n :=
  parseLql_decimal gcfg lqlFmts (fun cf hcf => List.all_eq_true.mp lql_formats_reject_digits cf hcf) now n hlo hhi

/-- non-vacuity: the text of 1552305600000000000 is the 19 digits one expects, and of −42 is `-42` -/
example : decimal 1552305600000000000 = [49, 53, 53, 50, 51, 48, 53, 54, 48, 48, 48, 48, 48, 48, 48, 48, 48, 48, 48] ∧
    decimal (-42) = [45, 52, 50] := by decide +kernel

/-- the second disjunct of `fmtRejectsDigits` is needed: the expression of `MM.DD.YYYY` (LQL format 53) does match a run
of ten digits (its `.` is unescaped), it is the layout that then fails (the format is looked up by its text, not by its index) -/
example : ((lqlFmts.find? (fun cf => cf.fmt == [77, 77, 46, 68, 68, 46, 89, 89, 89, 89])).bind (·.rx)).map
      (fun rx => find rx [48, 49, 48, 50, 48, 51, 50, 48, 48, 54]) =
    some (some [48, 49, 48, 50, 48, 51, 50, 48, 48, 54]) := by decide +kernel

/-- one past `int64` is not an integer literal (rejected, as `strconv.ParseInt` does) -/
theorem integer_out_of_range_rejected :
    parseLql gcfg lqlFmts ⟨2026, 9, 26⟩ (decimal 9223372036854775808) = .err := by decide +kernel

/-! ## Relative literals

`strconv.ParseFloat`, the float multiplication and the conversion `time.Duration(val)` are not modelled; they enter as a
contract (IEEE-754 behaviour assumed, exercised against the real library by the harness). The model reports the *shape*
`rel unit numberText` and the theorems are about the instant `now − dur` the contract assigns to it. -/

/-- what is assumed about `time.Duration(ParseFloat(num) * float64(unit))` for decimal natural numbers -/
structure FloatContract where
  /-- nanoseconds subtracted from now for the number text `num` and the unit's nanoseconds; `none` = ParseFloat fails -/
  dur : Bytes → Nat → Option Int
  /-- exact on small integers: the product is below 2^53, so every step is exact -/
  exact_small : ∀ (n mult : Nat), 0 < mult → n * mult < 9007199254740992 → dur (natDecimal n) mult = some ((n * mult : Nat) : Int)
  /-- monotone: a numerically larger text and/or a larger unit never gives a smaller duration (rounding is monotone) -/
  mono : ∀ (a b ma mb : Nat) (da db : Int), a ≤ b → ma ≤ mb → dur (natDecimal a) ma = some da → dur (natDecimal b) mb = some db → da ≤ db
  /-- non-negative numbers give non-negative durations -/
  nonneg : ∀ (a m : Nat) (d : Int), dur (natDecimal a) m = some d → 0 ≤ d

def unitNanos (u : UInt8) : Nat := if u == 109 then 60000000000 else if u == 104 then 3600000000000 else 86400000000000

/-- the relative literal `-<n><unit>` -/
def relText (n : Nat) (u : UInt8) : Bytes := 45 :: (natDecimal n ++ [u])

/-- the instant (Unix nanoseconds) the model's answer denotes under a contract, given now -/
def relInstant (C : FloatContract) (nowNs : Int) : LqlRes → Option Int
  | .rel u num _ => (C.dur num (unitNanos u)).map (fun d => nowNs - d)
  | _ => none

theorem relText_shape (n : Nat) (u : UInt8) (hu : u = 109 ∨ u = 104 ∨ u = 100) (now : Now) :
    ∃ e, parseLql gcfg lqlFmts now (relText n u) = .rel u (natDecimal n) e := by
  have hall := natDecimal_allDig n
  have hb : ∀ c ∈ relText n u, c ≠ 32 ∧ isUpperB c = false := by
    intro c hc
    simp only [relText, List.mem_cons, List.mem_append] at hc
    rcases hc with e | e | e | e
    · subst e; decide
    · exact ⟨(sdByte_facts (Or.inl (hall c e))).1, (sdByte_facts (Or.inl (hall c e))).2.1⟩
    · subst e; rcases hu with h | h | h <;> subst h <;> decide
    · cases e
  have htrim : trimBlanks (relText n u) = relText n u := trimBlanks_id (fun c hc => (hb c hc).1)
  have hlow : toLowerAscii (relText n u) = relText n u := toLowerAscii_id (fun c hc => (hb c hc).2)
  have hdt : (if gcfg.lower then toLowerAscii (if gcfg.trim then trimBlanks (relText n u) else relText n u)
      else (if gcfg.trim then trimBlanks (relText n u) else relText n u)) = relText n u := by
    cases gcfg.lower <;> cases gcfg.trim <;> simp [htrim, hlow]
  have hlast : (relText n u).getLast? = some u := by
    show (45 :: (natDecimal n ++ [u])).getLast? = some u
    rw [← List.cons_append, List.getLast?_append]; simp
  have hlen : ((relText n u).drop 1).take ((relText n u).length - 2) = natDecimal n := by
    simp [relText]
  have hsh : relativeShape (relText n u) = some (u, natDecimal n) := by
    simp only [relativeShape, hlast, hlen]
    simp only [relText]
    rcases hu with h | h | h <;> subst h <;> simp
  simp only [parseLql, hdt, hsh]
  exact ⟨_, rfl⟩

/-- **Relative literals are monotone**: within one unit (and across units when the unit is not smaller) a larger
`-<n>(m|h|d)` denotes an earlier-or-equal instant. Partial: under the float contract. -/
theorem relative_monotone (C : FloatContract) (nowNs : Int) (now : Now) (a b : Nat) (ua ub : UInt8)
    (hua : ua = 109 ∨ ua = 104 ∨ ua = 100) (hub : ub = 109 ∨ ub = 104 ∨ ub = 100)
    (hab : a ≤ b) (hu : unitNanos ua ≤ unitNanos ub) (ta tb : Int)
    (ha : relInstant C nowNs (parseLql gcfg lqlFmts now (relText a ua)) = some ta)
    (hb : relInstant C nowNs (parseLql gcfg lqlFmts now (relText b ub)) = some tb) : tb ≤ ta := by
  obtain ⟨ea, hea⟩ := relText_shape a ua hua now
  obtain ⟨eb, heb⟩ := relText_shape b ub hub now
  rw [hea] at ha; rw [heb] at hb
  simp only [relInstant, Option.map_eq_some_iff] at ha hb
  obtain ⟨da, hda, rfl⟩ := ha
  obtain ⟨db, hdb, rfl⟩ := hb
  have := C.mono a b _ _ da db hab hu hda hdb
  omega

/-- **Relative literals are not later than now.** Partial: under the float contract. -/
theorem relative_not_future (C : FloatContract) (nowNs : Int) (now : Now) (a : Nat) (u : UInt8)
    (hu : u = 109 ∨ u = 104 ∨ u = 100) (t : Int)
    (h : relInstant C nowNs (parseLql gcfg lqlFmts now (relText a u)) = some t) : t ≤ nowNs := by
  obtain ⟨e, he⟩ := relText_shape a u hu now
  rw [he] at h
  simp only [relInstant, Option.map_eq_some_iff] at h
  obtain ⟨d, hd, rfl⟩ := h
  have := C.nonneg a _ d hd
  omega

/-- **Exact on small integers**: `-90m` is exactly 90 minutes before now. -/
theorem relative_exact_small (C : FloatContract) (nowNs : Int) (now : Now) (a : Nat) (u : UInt8)
    (hu : u = 109 ∨ u = 104 ∨ u = 100) (hs : a * unitNanos u < 9007199254740992) :
    relInstant C nowNs (parseLql gcfg lqlFmts now (relText a u)) = some (nowNs - ((a * unitNanos u : Nat) : Int)) := by
  obtain ⟨e, he⟩ := relText_shape a u hu now
  have hpos : 0 < unitNanos u := by unfold unitNanos; split <;> (try split) <;> omega
  rw [he]; simp [relInstant, C.exact_small a _ hpos hs]

/-- non-vacuity: `-90m` has the relative shape with number text `90` -/
example : ∃ e, parseLql gcfg lqlFmts ⟨2026, 9, 26⟩ [45, 57, 48, 109] = .rel 109 [57, 48] e :=
  relText_shape 90 109 (Or.inl rfl) _

/-! ## Relative literals on an IEEE-754 model — no contract

`Model/DateFloat.lean` models `time.Duration(strconv.ParseFloat(num, 64) * float64(unit))` for decimal texts `digits[.digits]` over
`Nat`: the correctly rounded parse (round-half-even to 53 bits, subnormals, overflow = `ParseFloat`'s range error), the correctly rounded
product with the exactly representable unit, truncation to `int64`, and the amd64 result of an out-of-range conversion (`MinInt64`,
whose negation is itself: 2⁶³ ns are subtracted). `Proofs/DateFloat.lean` proves rounding monotone (`rne_mono`, `f64Round_mono`), exact
below 2⁵³ (`f64Round_exact`), and the three laws of the contract — so the contract is INHABITED by the model (`ieeeContract`) and the
theorems above hold without a hypothesis (`…_ieee`), and for decimal fractions too (`…_decimal`). The model is compared with the real
functions on boundary values in every run (harness section `floatmodel`). -/

/-- the IEEE model satisfies the contract -/
def ieeeContract : FloatContract where
  dur := fun num mult => relDur amd64Ovf num mult
  exact_small := fun n mult hm h => relDur_exact_small amd64Ovf n mult hm h
  mono := fun a b ma mb da db hab hm ha hb => relDur_mono_nat amd64Ovf (by decide) a b ma mb hab hm da db ha hb
  nonneg := fun a m d h => relDur_nonneg amd64Ovf (natDecimal a) m d h

/-- **Relative literals are monotone** — on the IEEE model, no float hypothesis -/
theorem relative_monotone_ieee (nowNs : Int) (now : Now) (a b : Nat) (ua ub : UInt8)
    (hua : ua = 109 ∨ ua = 104 ∨ ua = 100) (hub : ub = 109 ∨ ub = 104 ∨ ub = 100)
    (hab : a ≤ b) (hu : unitNanos ua ≤ unitNanos ub) (ta tb : Int)
    (ha : relInstant ieeeContract nowNs (parseLql gcfg lqlFmts now (relText a ua)) = some ta)
    (hb : relInstant ieeeContract nowNs (parseLql gcfg lqlFmts now (relText b ub)) = some tb) : tb ≤ ta :=
  relative_monotone ieeeContract nowNs now a b ua ub hua hub hab hu ta tb ha hb

/-- **Relative literals are not later than now** — on the IEEE model -/
theorem relative_not_future_ieee (nowNs : Int) (now : Now) (a : Nat) (u : UInt8)
    (hu : u = 109 ∨ u = 104 ∨ u = 100) (t : Int)
    (h : relInstant ieeeContract nowNs (parseLql gcfg lqlFmts now (relText a u)) = some t) : t ≤ nowNs :=
  relative_not_future ieeeContract nowNs now a u hu t h

/-- **Exact on small integers** — on the IEEE model: `-<n><unit>` with n·unit < 2⁵³ ns (104 days) is exactly n units before now -/
theorem relative_exact_small_ieee (nowNs : Int) (now : Now) (a : Nat) (u : UInt8)
    (hu : u = 109 ∨ u = 104 ∨ u = 100) (hs : a * unitNanos u < 9007199254740992) :
    relInstant ieeeContract nowNs (parseLql gcfg lqlFmts now (relText a u)) = some (nowNs - ((a * unitNanos u : Nat) : Int)) :=
  relative_exact_small ieeeContract nowNs now a u hu hs

/-- non-vacuity (evaluation): `-90m` is 5 400 000 000 000 ns before now; `-0.1m` is exactly 6 s; `-106752d` is beyond the int64 horizon and
saturates at 2⁶³ ns (≈ 292 years before now, not after it); a 310-digit number is rejected by `ParseFloat` (range error) -/
example : relDur amd64Ovf [57, 48] 60000000000 = some 5400000000000 ∧ relDur amd64Ovf [48, 46, 49] 60000000000 = some 6000000000 ∧
    relDur amd64Ovf [49, 48, 54, 55, 53, 50] 86400000000000 = some 9223372036854775808 ∧
    relDur amd64Ovf (List.replicate 310 57) 60000000000 = none := by decide +kernel

/-- the relative literal `-<s><unit>` for any number text -/
def relTextS (s : Bytes) (u : UInt8) : Bytes := 45 :: (s ++ [u])

/-- a number text of digits and dots reaches `ParseFloat` as written -/
theorem relTextS_shape (s : Bytes) (hs : ∀ c ∈ s, isDig c = true ∨ c = 46) (u : UInt8) (hu : u = 109 ∨ u = 104 ∨ u = 100) (now : Now) :
    ∃ e, parseLql gcfg lqlFmts now (relTextS s u) = .rel u s e := by
  have hb : ∀ c ∈ relTextS s u, c ≠ 32 ∧ isUpperB c = false := by
    intro c hc
    simp only [relTextS, List.mem_cons, List.mem_append] at hc
    rcases hc with e | e | e | e
    · subst e; decide
    · rcases hs c e with hd | hd
      · exact ⟨(sdByte_facts (Or.inl hd)).1, (sdByte_facts (Or.inl hd)).2.1⟩
      · subst hd; decide
    · subst e; rcases hu with h | h | h <;> subst h <;> decide
    · cases e
  have htrim : trimBlanks (relTextS s u) = relTextS s u := trimBlanks_id (fun c hc => (hb c hc).1)
  have hlow : toLowerAscii (relTextS s u) = relTextS s u := toLowerAscii_id (fun c hc => (hb c hc).2)
  have hdt : (if gcfg.lower then toLowerAscii (if gcfg.trim then trimBlanks (relTextS s u) else relTextS s u)
      else (if gcfg.trim then trimBlanks (relTextS s u) else relTextS s u)) = relTextS s u := by
    cases gcfg.lower <;> cases gcfg.trim <;> simp [htrim, hlow]
  have hlast : (relTextS s u).getLast? = some u := by
    show (45 :: (s ++ [u])).getLast? = some u
    rw [← List.cons_append, List.getLast?_append]; simp
  have hlen : ((relTextS s u).drop 1).take ((relTextS s u).length - 2) = s := by
    simp [relTextS]
  have hsh : relativeShape (relTextS s u) = some (u, s) := by
    simp only [relativeShape, hlast, hlen]
    simp only [relTextS]
    rcases hu with h | h | h <;> subst h <;> simp
  simp only [parseLql, hdt, hsh]
  exact ⟨_, rfl⟩

/-- **Relative literals with decimal fractions are monotone** (IEEE model): `-<a>(m|h|d)` and `-<b>(m|h|d)` with the number texts
`digits[.digits]` of values a ≤ b (as rationals: `na/da ≤ nb/db`) and the unit of b not smaller — b denotes an earlier-or-equal instant -/
theorem relative_monotone_decimal (nowNs : Int) (now : Now) (sa sb : Bytes) (hsa : ∀ c ∈ sa, isDig c = true ∨ c = 46)
    (hsb : ∀ c ∈ sb, isDig c = true ∨ c = 46) (na da nb db : Nat) (hva : decValue sa = some (na, da)) (hvb : decValue sb = some (nb, db))
    (hle : na * db ≤ nb * da) (ua ub : UInt8) (hua : ua = 109 ∨ ua = 104 ∨ ua = 100) (hub : ub = 109 ∨ ub = 104 ∨ ub = 100)
    (hu : unitNanos ua ≤ unitNanos ub) (ta tb : Int)
    (ha : relInstant ieeeContract nowNs (parseLql gcfg lqlFmts now (relTextS sa ua)) = some ta)
    (hb : relInstant ieeeContract nowNs (parseLql gcfg lqlFmts now (relTextS sb ub)) = some tb) : tb ≤ ta := by
  obtain ⟨ea, hea⟩ := relTextS_shape sa hsa ua hua now
  obtain ⟨eb, heb⟩ := relTextS_shape sb hsb ub hub now
  rw [hea] at ha; rw [heb] at hb
  simp only [relInstant, Option.map_eq_some_iff] at ha hb
  obtain ⟨ra, hra, rfl⟩ := ha
  obtain ⟨rb, hrb, rfl⟩ := hb
  have := relDur_mono amd64Ovf (by decide) sa sb na da nb db _ _ hva hvb hle hu ra rb hra hrb
  omega

/-- **…and not later than now, and never more than 2⁶³ ns before it** (IEEE model, any number text of digits and dots) -/
theorem relative_not_future_decimal (nowNs : Int) (now : Now) (s : Bytes) (hs : ∀ c ∈ s, isDig c = true ∨ c = 46) (u : UInt8)
    (hu : u = 109 ∨ u = 104 ∨ u = 100) (t : Int)
    (h : relInstant ieeeContract nowNs (parseLql gcfg lqlFmts now (relTextS s u)) = some t) :
    t ≤ nowNs ∧ nowNs - 9223372036854775808 ≤ t := by
  obtain ⟨e, he⟩ := relTextS_shape s hs u hu now
  rw [he] at h
  simp only [relInstant, Option.map_eq_some_iff] at h
  obtain ⟨r, hr, rfl⟩ := h
  have h1 := relDur_nonneg amd64Ovf s _ r hr
  have h2 := relDur_le_ovf amd64Ovf (by decide) s _ r hr
  have h3 : ((amd64Ovf : Nat) : Int) = 9223372036854775808 := by decide
  omega

/-! ## Format round trip on civil fields -/

/-- **`format_parse_fields`** — generic in the layout: for every layout made of literals and the numeric fixed-width
elements `2006 01 02 15 04 05` (`NumericLayout`, decidable), and every instant with valid civil fields, parsing the
text `time.Format` produces gives back exactly the fields the layout carries (`project`), everything else at its
default. Elements outside this subset (names, 1-digit forms, `06`, am/pm, fractions, zones) stay tested. -/
theorem format_parse_fields (L : Layout) (hL : NumericLayout L = true) (i : Inst) (hi : ValidInst i) :
    ∃ txt, formatLayout L i = some txt ∧ parseLayout L txt = .ok (project L i) :=
  format_parse_numeric L hL i hi

/-- the formats of both regenerated lists whose derived layout is in the covered subset -/
def coveredFormats : List CFormat := (colFmts ++ lqlFmts).filter (fun cf => NumericLayout cf.layout)

/-- how many formats of the current lists the generic theorem covers (13 collector + 15 LQL entries) -/
theorem covered_count : coveredFormats.length = 28 := by decide +kernel

/-- instantiated: every covered format of the regenerated lists parses its own `time.Format` text back to the fields it
carries — for all instants, not a sample -/
theorem covered_formats_round_trip (cf : CFormat) (hcf : cf ∈ coveredFormats) (i : Inst) (hi : ValidInst i) :
    ∃ txt, formatLayout cf.layout i = some txt ∧ parseLayout cf.layout txt = .ok (project cf.layout i) := by
  have : NumericLayout cf.layout = true := by
    have := (List.mem_filter.mp hcf).2
    simpa using this
  exact format_parse_numeric cf.layout this i hi

/-- non-vacuity: `YYYY-MM-DD HH:mm:ss` is covered; 2019-03-11 12:04:05 prints as expected and parses back -/
example : let L := (compile gterms C20.regexpLeftGuard [89, 89, 89, 89, 45, 77, 77, 45, 68, 68, 32, 72, 72, 58, 109, 109, 58, 115, 115]).layout
    NumericLayout L = true ∧ ValidInst ⟨2019, 3, 11, 12, 4, 5, 0, 1⟩ ∧
    formatLayout L ⟨2019, 3, 11, 12, 4, 5, 0, 1⟩ =
      some [50, 48, 49, 57, 45, 48, 51, 45, 49, 49, 32, 49, 50, 58, 48, 52, 58, 48, 53] := by
  refine ⟨by decide +kernel, by decide, by decide +kernel⟩

def now0 : Now := ⟨2026, 9, 26⟩

/-! ## At the start of a log line read by the collector: the line parser's remembered format and skip counters -/

def lpcfg : LPCfg :=
  { maxFail := C20.lpMaxFailCnt, maxSkip0 := C20.lpMaxSkipCnt, maxSkipOnDetect := C20.lpMaxSkipCntOnDetect, skipCap := C20.lpSkipCap,
    resetOnFast := C20.lpResetsCountOnFastPath, resetOnDetect := C20.lpResetsCountOnDetect,
    lastOnFast := C20.lpSetsLastDateOnFastPath, lastOnDetect := C20.lpSetsLastDateOnDetect }

/-- `lineParser.parse` resets its failure counter where the full parser detects a format (read from the source now) -/
theorem lp_resets_on_detect : C20.lpResetsCountOnDetect = true := by decide

/-- **Every time-stamped line of a file gets its own date** as long as fewer than `maxFailCnt` (10) undated lines occur in
a row — whatever the mix of headers and continuation lines, any file length: the parser never enters `skipping`.
`hcons`: a line the remembered format dates is also dated by the full parser (which contains that format) — a property of
the date parsers, exercised by the harness (section linefile), assumed here. What the date *is* is `first_match_correct`
(tested) / the theorems above. -/
theorem collector_headers_dated (now : Now) (lines : List Bytes)
    (hruns : okRuns lpcfg.maxFail 0 (lines.map (lineAns gadj colFmts now)) = true)
    (hcons : consistent (lines.map (lineAns gadj colFmts now))) :
    headersDated (lines.map (lineAns gadj colFmts now)) (lpRun lpcfg (LP.init lpcfg) (lines.map (lineAns gadj colFmts now))) = true :=
  lp_headers_dated lpcfg lp_resets_on_detect _ 0 _ (lpInv_init lpcfg) hruns hcons

/-- non-vacuity: header, undated line, header — dated by format 49 `YYYY-MM-DD HH:mm:ss`, carried, dated (through
detection again, because the undated line made the parser forget the format) -/
example : lpRun lpcfg (LP.init lpcfg) ([[50, 48, 49, 57, 45, 48, 51, 45, 49, 49, 32, 49, 51, 58, 49, 52, 58, 49, 53, 32, 99, 111, 109, 46, 97, 99, 109, 101, 46, 83, 101, 114, 118, 101, 114, 32, 104, 97, 110, 100, 108, 101, 10], [73, 78, 70, 79, 58, 32, 114, 101, 113, 117, 101, 115, 116, 32, 104, 97, 110, 100, 108, 101, 100, 10], [50, 48, 49, 57, 45, 48, 51, 45, 49, 49, 32, 49, 51, 58, 50, 49, 58, 49, 54, 32, 99, 111, 109, 46, 97, 99, 109, 101, 46, 83, 101, 114, 118, 101, 114, 32, 104, 97, 110, 100, 108, 101, 10]].map (lineAns gadj colFmts now0)) =
    [.dated 49 ⟨2019, 3, 11, 13, 14, 15, 0, .dflt⟩, .carried (some ⟨2019, 3, 11, 13, 14, 15, 0, .dflt⟩),
     .dated 49 ⟨2019, 3, 11, 13, 21, 16, 0, .dflt⟩] := by decide +kernel

/-! ## At and beyond the skip threshold (`maxFailCnt` undated lines in a row): what the property demands, what the code does

The property has no exemption: a line that starts with a timestamp must get its own date. The parser delivers that **exactly when
it is not in state `skipping`** — `collector_dated_unless_skipping` (any counters, any history) against
`collector_skip_window_loses_every_header` (inside a skip window NO line is dated, whatever it starts with); a window ends after
`maxSkip − cnt` lines and is at most `skipBound` = 200 lines long (`collector_skip_window_ends`). So the line clause of the
property, stated without the threshold (`collector_headers_dated_full`), is FALSE on the current code
(`collector_headers_dated_full_fails`, open finding F68 — the documented CPU guard), and true below the threshold
(`collector_headers_dated`). -/

/-- **whenever the line parser is not skipping, a line the default parser dates gets its own date** — after any history, at the
threshold too (the 10th undated line switches the state; a dated line after 9 undated ones is still read) -/
theorem collector_dated_unless_skipping (now : Now) (lp : LP) (line : Bytes) (hpar : lp.skipping = false)
    (hd : (lineAns gadj colFmts now line).findable = true) :
    (lpStepA lpcfg lp (lineAns gadj colFmts now line)).2.isDated = true :=
  lp_parsing_dates lpcfg lp _ hpar hd

theorem lp_first_skip_positive : 0 < lpcfg.maxSkip0 := by decide

/-- **inside a skip window no line gets its own date**: after any file prefix that left the parser in `skipping`, the next line's
record carries the stale `lastDate`, whatever the line starts with -/
theorem collector_skip_window_loses_every_header (now : Now) (pre : List Bytes) (line : Bytes)
    (hsk : (lpState lpcfg (LP.init lpcfg) (pre.map (lineAns gadj colFmts now))).skipping = true) :
    (lpStepA lpcfg (lpState lpcfg (LP.init lpcfg) (pre.map (lineAns gadj colFmts now))) (lineAns gadj colFmts now line)).2 =
      .carried (lpState lpcfg (LP.init lpcfg) (pre.map (lineAns gadj colFmts now))).last :=
  lp_skipping_carries lpcfg _ _ (lpWf_run lpcfg _ _ (lpWf_init lpcfg lp_first_skip_positive)) hsk

/-- **a skip window ends and is bounded**: from any reachable state in `skipping`, after exactly `maxSkip − cnt` further lines —
whatever they are — the parser reads lines again; that is never more than 200 lines (10, 20, 40, 80, 160 on the current constants) -/
theorem collector_skip_window_ends (now : Now) (pre rest : List Bytes)
    (hsk : (lpState lpcfg (LP.init lpcfg) (pre.map (lineAns gadj colFmts now))).skipping = true)
    (hlen : rest.length = (lpState lpcfg (LP.init lpcfg) (pre.map (lineAns gadj colFmts now))).maxSkip -
      (lpState lpcfg (LP.init lpcfg) (pre.map (lineAns gadj colFmts now))).cnt) :
    (lpState lpcfg (lpState lpcfg (LP.init lpcfg) (pre.map (lineAns gadj colFmts now))) (rest.map (lineAns gadj colFmts now))).skipping = false ∧
    rest.length ≤ 200 := by
  have hwf := lpWf_run lpcfg (pre.map (lineAns gadj colFmts now)) _ (lpWf_init lpcfg lp_first_skip_positive)
  refine ⟨lp_skip_window_ends lpcfg _ _ hwf hsk rfl _ (by simpa using hlen), ?_⟩
  have hb := lp_skip_window_bounded lpcfg _ hwf
  have h200 : skipBound lpcfg = 200 := by decide
  omega

/-- the line clause of the property without the threshold: every line of every file that starts with a timestamp gets its own date -/
def collector_headers_dated_full : Prop :=
  ∀ (now : Now) (lines : List Bytes), consistent (lines.map (lineAns gadj colFmts now)) →
    headersDated (lines.map (lineAns gadj colFmts now)) (lpRun lpcfg (LP.init lpcfg) (lines.map (lineAns gadj colFmts now))) = true

def f68Header1 : Bytes := [50, 48, 49, 57, 45, 48, 49, 45, 48, 50, 32, 48, 51, 58, 48, 52, 58, 48, 53, 32, 97, 10]
def f68Undated : Bytes := [73, 78, 70, 79, 58, 32, 120, 10]
def f68Header2 : Bytes := [50, 48, 49, 57, 45, 48, 49, 45, 48, 50, 32, 48, 51, 58, 48, 57, 58, 48, 48, 32, 122, 10]
def f68File : List Bytes := [f68Header1] ++ List.replicate 10 f68Undated ++ [f68Header2]

theorem f68_facts :
    (lineAns gadj colFmts now0 f68Header1).findable = true ∧ (lineAns gadj colFmts now0 f68Header2).findable = true ∧
    (List.range colFmts.length).all (fun i => ((lineAns gadj colFmts now0 f68Undated).fast i).isNone) = true ∧
    headersDated (f68File.map (lineAns gadj colFmts now0)) (lpRun lpcfg (LP.init lpcfg) (f68File.map (lineAns gadj colFmts now0))) = false := by
  decide +kernel

/-- **the line clause without the threshold is false on the current code** (open finding F68): a time-stamped line, ten undated
lines, a time-stamped line — the last line is not read -/
theorem collector_headers_dated_full_fails : ¬ collector_headers_dated_full := by
  intro h
  obtain ⟨h1, h2, hu, hfalse⟩ := f68_facts
  have hcons : consistent (f68File.map (lineAns gadj colFmts now0)) := by
    intro a ha i c hfast
    simp only [f68File, List.map_append, List.map_cons, List.map_nil, List.map_replicate, List.mem_append, List.mem_cons,
      List.mem_replicate, List.not_mem_nil, or_false] at ha
    rcases ha with (ha | ha) | ha
    · subst ha; exact h1
    · obtain ⟨_, ha⟩ := ha
      subst ha
      exfalso
      by_cases hi : i < colFmts.length
      · have := List.all_eq_true.mp hu i (List.mem_range.mpr hi)
        rw [hfast] at this; simp at this
      · have hnone : colFmts[i]? = none := List.getElem?_eq_none (by omega)
        simp [lineAns, hnone] at hfast
    · subst ha; exact h2
  have := h now0 f68File hcons
  rw [hfalse] at this
  cases this

/-! ## The full statement (text alone) -/

/-- **the property on the model, for a text alone**: for every format of either regenerated list and every valid instant,
the text of the instant in that format is parsed — by the collector's default parser, resp. by `parseLqlDateTime` as an
absolute literal — to exactly the fields the format carries (UTC without a zone; the current/previous year, today's date
when it has none) -/
def C20_full : Prop :=
  (∀ k, k < colFmts.length → ∀ i, ValidX i → ∀ now, ∃ ck txt c j', colFmts[k]? = some ck ∧ renderLayout ck.layout i = some txt ∧
      projectX ck.layout i = .ok c ∧ j' ≤ k ∧ parseFirst gadj colFmts now txt = .ok j' (adjAll gadj ck now c)) ∧
  (∀ k, k < lqlFmts.length → ∀ i, ValidX i → ∀ now, ∃ ck txt c j', lqlFmts[k]? = some ck ∧ renderLayout ck.layout i = some txt ∧
      projectX ck.layout i = .ok c ∧ j' ≤ k ∧ parseLql gcfg lqlFmts now txt = .abs j' (adjAll gadj ck now c))

/-- **C20, text alone, holds for all 59 + 68 formats and every valid instant.** Tested only (differential sweeps): texts with
surrounding text (log-line prefix), and that the model is the code. -/
theorem C20_full_holds : C20_full := ⟨C20_collector, C20_lql⟩

/-! ## LQL literals with surrounding text: blanks -/

theorem lql_trims_blanks : gcfg.trim = true := by decide

/-- **C20 for LQL literals with surrounding blanks** (the only surrounding text `parseLqlDateTime` admits: it trims blanks): the
text of any valid instant in any format of the LQL list, padded with any number of blanks on either side, denotes the fields the
format carries -/
theorem C20_lql_padded (k : Nat) (hk : k < lqlFmts.length) (i : XInst) (hi : ValidX i) (now : Now) (a b : Nat) :
    ∃ ck txt c j', lqlFmts[k]? = some ck ∧ renderLayout ck.layout i = some txt ∧ projectX ck.layout i = .ok c ∧ j' ≤ k ∧
      parseLql gcfg lqlFmts now (List.replicate a 32 ++ txt ++ List.replicate b 32) = .abs j' (adjAll gadj ck now c) := by
  obtain ⟨ck, txt, c, j', hck, ht, hc, hj, hp⟩ := C20_lql k hk i hi now
  have hck' : ck = lqlFmts[k] := by
    rw [List.getElem?_eq_getElem hk] at hck; exact (Option.some.inj hck).symm
  subst hck'
  have hside := List.all_eq_true.mp lql_formats_own_ok _ (List.getElem_mem hk)
  simp only [Bool.and_eq_true] at hside
  obtain ⟨sh, hsh, hs⟩ := renderLayout_shape lqlFmts[k].layout i hi txt ht
  have hok := List.all_eq_true.mp hside.2 sh hsh
  simp only [lqlShapeOK, Bool.and_eq_true] at hok
  obtain ⟨⟨hhead, hlast⟩, _⟩ := hok
  have hh : txt.head? ≠ some 32 ∧ txt ≠ [] := by
    cases hx : sh.head? with
    | none => rw [hx] at hhead; simp at hhead
    | some x =>
      rw [hx] at hhead
      simp only [Bool.and_eq_true, Bool.not_eq_true'] at hhead
      obtain ⟨c0, hc0, hin0⟩ := hasShape_head hs hx
      refine ⟨?_, ?_⟩
      · rw [hc0]; intro e; cases e; rw [hhead.1] at hin0; cases hin0
      · intro e; rw [e] at hc0; cases hc0
  have hl : txt.getLast? ≠ some 32 := by
    cases hy : sh.getLast? with
    | none => rw [hy] at hlast; simp at hlast
    | some y =>
      rw [hy] at hlast
      simp only [Bool.not_eq_true'] at hlast
      obtain ⟨c1, hc1, hin1⟩ := hasShape_last hs hy
      rw [hc1]; intro e; cases e; rw [hlast] at hin1; cases hin1
  exact ⟨_, txt, c, j', hck, ht, hc, hj, by rw [parseLql_padded gcfg lql_trims_blanks lqlFmts now a b txt hh.2 hl hh.1]; exact hp⟩

/-- unit and number text of a relative answer -/
def relHead : LqlRes → Option (UInt8 × Bytes)
  | .rel u num _ => some (u, num)
  | _ => none

/-- **`2019-03-11T12:00:00Z` as an LQL literal denotes noon UTC** (fixed finding F19a, /repo ab30677): the format list sees
the literal as written, `YYYY-MM-DDTHH:mm:ssZ` (format 39) claims it. Evaluated with the regenerated switches, so a
return of the lower-casing (`lqlFormatsSeeLowerCased = true`) breaks this obligation. -/
theorem lql_T_literal_is_noon :
    parseLql gcfg lqlFmts now0 [50, 48, 49, 57, 45, 48, 51, 45, 49, 49, 84, 49, 50, 58, 48, 48, 58, 48, 48, 90]
      = .abs 39 ⟨2019, 3, 11, 12, 0, 0, 0, .dflt⟩ := by decide +kernel

/-- the format list is handed the literal as written: the switch the extractor reads from `parseLqlDateTime` now -/
theorem lql_formats_see_literal_as_written : C20.lqlFormatsSeeLowerCased = false := by decide

/-- what the defect was (kept as a statement about the model with the switch turned back on): lower-casing turns `T` into
`t`, the ISO formats no longer match, and `YYYY-MM-DD` (looked up by its text; format 52 today) claims the date part — midnight instead of noon. -/
theorem lowercasing_would_give_midnight :
    parseLql { gcfg with fmtLower := true } lqlFmts now0 [50, 48, 49, 57, 45, 48, 51, 45, 49, 49, 84, 49, 50, 58, 48, 48, 58, 48, 48, 90]
      = .abs (C20.lqlFormats.idxOf [89, 89, 89, 89, 45, 77, 77, 45, 68, 68]) ⟨2019, 3, 11, 0, 0, 0, 0, .dflt⟩ := by decide +kernel

/-- upper-case relative literals and constants are still accepted (the lower-cased text is kept for them): `-90M`, `WEEK` -/
theorem relative_and_constants_case_insensitive :
    relHead (parseLql gcfg lqlFmts now0 [45, 57, 48, 77]) = some (109, [57, 48]) ∧
    parseLql gcfg lqlFmts now0 [87, 69, 69, 75] = .const 3 := by decide +kernel

/-- `2019/01/01` handed to the collector is claimed by its own format `YYYY/MM/DD` (33): 2019-01-01 (fixed finding F19s, /repo
6279a73: before, the earlier unanchored `DD/MM/YY` claimed `19/01/01` out of the middle of the year — 2001-01-19) -/
theorem slash_date_own_format :
    parseFirst gadj colFmts now0 [50, 48, 49, 57, 47, 48, 49, 47, 48, 49] = .ok 33 ⟨2019, 1, 1, 0, 0, 0, 0, .dflt⟩ := by decide +kernel

/-- **the UnixDate text `Mon Mar 11 13:14:15 UTC 2019` is claimed by format 2 and gives the year 2019**, in the collector
list and as an LQL literal (fixed finding F19m, /repo bf37a58: format 2 names its zone with the term `ZZZ`; before, its
literal `MST` was rewritten to `1ST` by the sequential term replacement and a year-less format claimed the text with the
current year). Evaluated on the regenerated lists and terms. -/
theorem unixdate_claimed_by_format_2 :
    parseFirst gadj colFmts now0 [77, 111, 110, 32, 77, 97, 114, 32, 49, 49, 32, 49, 51, 58, 49, 52, 58, 49, 53, 32, 85, 84, 67, 32, 50, 48, 49, 57] = .ok 2 ⟨2019, 3, 11, 13, 14, 15, 0, .utc⟩ ∧
    parseLql gcfg lqlFmts now0 [77, 111, 110, 32, 77, 97, 114, 32, 49, 49, 32, 49, 51, 58, 49, 52, 58, 49, 53, 32, 85, 84, 67, 32, 50, 48, 49, 57] = .abs 2 ⟨2019, 3, 11, 13, 14, 15, 0, .utc⟩ := by decide +kernel

/-- Go's own `time.UnixDate` reference text `Mon Jan  2 15:04:05 MST 2006` (blank-padded day, zone abbreviation MST) is
claimed by format 2 as well: 2006, fabricated zone `MST` of offset 0 -/
theorem unixdate_reference_text :
    parseFirst gadj colFmts now0 [77, 111, 110, 32, 74, 97, 110, 32, 32, 50, 32, 49, 53, 58, 48, 52, 58, 48, 53, 32, 77, 83, 84, 32, 50, 48, 48, 54] = .ok 2 ⟨2006, 1, 2, 15, 4, 5, 0, .named [77, 83, 84] 0⟩ := by decide +kernel

/-- the layout the code derives for format 2 is Go's UnixDate layout, intact: `Mon Jan _2 15:04:05 MST 2006` -/
theorem unixdate_layout_intact :
    C20.collectorFormats[2]? = some [68, 68, 68, 32, 77, 77, 77, 32, 95, 68, 32, 72, 72, 58, 109, 109, 58, 115, 115, 32, 90, 90, 90, 32, 89, 89, 89, 89] ∧ C20.lqlFormats[2]? = some [68, 68, 68, 32, 77, 77, 77, 32, 95, 68, 32, 72, 72, 58, 109, 109, 58, 115, 115, 32, 90, 90, 90, 32, 89, 89, 89, 89] ∧
    dateMap gterms [68, 68, 68, 32, 77, 77, 77, 32, 95, 68, 32, 72, 72, 58, 109, 109, 58, 115, 115, 32, 90, 90, 90, 32, 89, 89, 89, 89] = [77, 111, 110, 32, 74, 97, 110, 32, 95, 50, 32, 49, 53, 58, 48, 52, 58, 48, 53, 32, 77, 83, 84, 32, 50, 48, 48, 54] := by decide +kernel

/-- **a Wednesday in `DDDD, YY-MMM-DD HH:mm:ss ZZZ` (format 4) is accepted and denotes its instant** (fixed finding F19d,
/repo 65e6bcc: `DDDD` is `[A-Z][a-z]{5,8}`; with `{5,7}` the eight lower-case letters of `Wednesday` could not match).
Text: `Wednesday, 19-Apr-03 13:14:15 UTC`, collector list and LQL literal. -/
theorem wednesday_accepted :
    parseFirst gadj colFmts now0 [87, 101, 100, 110, 101, 115, 100, 97, 121, 44, 32, 49, 57, 45, 65, 112, 114, 45, 48, 51, 32, 49, 51, 58, 49, 52, 58, 49, 53, 32, 85, 84, 67] = .ok 4 ⟨2019, 4, 3, 13, 14, 15, 0, .utc⟩ ∧
    parseLql gcfg lqlFmts now0 [87, 101, 100, 110, 101, 115, 100, 97, 121, 44, 32, 49, 57, 45, 65, 112, 114, 45, 48, 51, 32, 49, 51, 58, 49, 52, 58, 49, 53, 32, 85, 84, 67] = .abs 4 ⟨2019, 4, 3, 13, 14, 15, 0, .utc⟩ := by decide +kernel

/-- `11/3/2019 12:05 AM` handed to the collector is five past midnight: the AM/PM format `D/M/YYYY hh:mm P` (17) comes before the
24-hour formats it extends (fixed finding F19s: before, `D/M/YYYY HH:mm` claimed the prefix — 12:05) -/
theorem am_text_is_midnight :
    parseFirst gadj colFmts now0 [49, 49, 47, 51, 47, 50, 48, 49, 57, 32, 49, 50, 58, 48, 53, 32, 65, 77]
      = .ok 17 ⟨2019, 3, 11, 0, 5, 0, 0, .dflt⟩ := by decide +kernel

end Logrange.Props.C20
