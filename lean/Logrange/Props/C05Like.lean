import Logrange.Props.C05
import Logrange.Proofs.PathMatchGreedy
import Logrange.Proofs.PathMatchGreedyImpl
/-!
# C05 — LIKE with `*`: what `path.Match` means, and exactly when that is the documented pattern language

`Props/C05.lean` proves `path.Match` (model) = the documented pattern language for patterns without `*`, and gives two
counterexamples with `*`. Here the gap is closed from both sides:

* `pathMatch_is_leftmost_commit` — for every well-formed pattern whose `*` bytes are all star terms (`plainStars`: no `\*`,
  no `*` inside a class) and every name (any bytes), Go's algorithm **is** the *leftmost-commit* reading of `*`
  (`PathSpec.greedyMatch`, written on the pattern's terms only: the pattern is cut at its stars into star-free segments; a
  segment after a star is tried at offsets 0, 1, 2 … of the name, never stepping over `/`; the first offset where it
  matches is final — except for the last segment, which must also reach the end of the name and is tried at every
  offset). This is the declarative meaning of LIKE with `*` in logrange.
* `pathMatch_eq_spec_starSafe` — leftmost-commit = the documented (existential) language for **every name** when every
  segment *between two stars* consists of literal bytes other than `/` (`starSafe`, decidable; the segments before the
  first and after the last star are unrestricted: `?`, classes, `/`, escapes).
* `pathMatch_eq_spec_starSafe_ascii` — and for every **ASCII name** when the segments between stars consist of one-byte
  terms that cannot match `/`: literals other than `/`, `?`, non-negated classes whose ranges exclude `/`
  (`starSafeAscii`).
* the counterexamples of `Props/C05.lean` lie in the complement, one per excluded class (`cex_outside_*`).
-/
namespace Logrange.Props.C05Like
open Go Logrange Logrange.Where Logrange.PathSpec

/-- **`path.Match` is the leftmost-commit reading of `*`** on every well-formed pattern with plain stars, every name. -/
theorem pathMatch_is_leftmost_commit (p n : Bytes) (its : List Item) (hp : items? p = some its)
    (hs : plainStars p its = true) : PathMatch.pathMatch p n = some (greedyMatch its n) :=
  pathMatch_eq_greedy p n its hp hs

/-- **…which is the documented pattern language when the segments between stars are literal (no `/`)** — every name,
valid UTF-8 or not. In the form of `pathMatch_correct_noStar`: the answer is `some b` with `b ↔ Matches p n`. -/
theorem pathMatch_eq_spec_starSafe (p n : Bytes) (its : List Item) (hp : items? p = some its)
    (hs : plainStars p its = true) (h : starSafe its = true) :
    PathMatch.pathMatch p n = specMatch p n ∧ PathMatch.pathMatch p n = some (matchItems its n) ∧
    (PathMatch.pathMatch p n = some true ↔ Matches p n) := by
  have e : PathMatch.pathMatch p n = some (matchItems its n) := by
    rw [pathMatch_eq_greedy p n its hp hs, greedy_eq_spec its n h]
  refine ⟨by rw [e]; simp [specMatch, hp], e, ?_⟩
  rw [e]
  constructor
  · intro hm; exact ⟨its, hp, by simpa using hm⟩
  · rintro ⟨its', hp', hm⟩
    rw [hp] at hp'; cases hp'; rw [hm]

/-- **…and on ASCII names when the segments between stars are one-byte terms that cannot match `/`** -/
theorem pathMatch_eq_spec_starSafe_ascii (p n : Bytes) (its : List Item) (hp : items? p = some its)
    (hs : plainStars p its = true) (hn : n.all (fun c => decide (c.toNat < 128)) = true) (h : starSafeAscii its = true) :
    PathMatch.pathMatch p n = specMatch p n ∧ PathMatch.pathMatch p n = some (matchItems its n) := by
  have e : PathMatch.pathMatch p n = some (matchItems its n) := by
    rw [pathMatch_eq_greedy p n its hp hs, greedy_eq_spec_ascii its n hn h]
  exact ⟨by rw [e]; simp [specMatch, hp], e⟩

/-- **The LIKE clause of the reference meaning, declaratively**: for a star-safe pattern `v` the operator of `evalRef`
(`evalStrOp .like`, defined through the model of the algorithm) is membership in the documented language. -/
theorem like_is_documented_language (v s : Bytes) (its : List Item) (hp : items? v = some its)
    (hs : plainStars v its = true) (h : starSafe its = true) :
    evalStrOp .like s v = matchItems its s := by
  simp only [evalStrOp, (pathMatch_eq_spec_starSafe v s its hp hs h).2.1]
  cases matchItems its s <;> rfl

/-- a star-safe well-formed pattern passes the builder's pre-test (so such a LIKE condition is accepted) -/
theorem starSafe_pattern_accepted (v : Bytes) (its : List Item) (hp : items? v = some its)
    (hs : plainStars v its = true) : patternOk v = true := by
  simp [patternOk, pathMatch_eq_greedy v sProbe its hp hs]

/-- **The complement is not empty, class by class.** `**[^a]*` (a class between stars) is in neither class and differs on
the ASCII name `*x*]/`; `*?*\\xAC` (`?` between stars) is outside `starSafe`, inside `starSafeAscii`, and differs on the
non-ASCII name `€` — so the ASCII hypothesis of `pathMatch_eq_spec_starSafe_ascii` cannot be dropped; both are
well-formed with plain stars, so `pathMatch_is_leftmost_commit` covers them: the difference is exactly leftmost-commit
versus existential. -/
theorem cex_outside_starSafe :
    ((items? [42, 42, 91, 94, 97, 93, 42]).map (fun its => (starSafe its, starSafeAscii its, plainStars [42, 42, 91, 94, 97, 93, 42] its)))
      = some (false, false, true) ∧
    ((items? [42, 63, 42, 0xAC]).map (fun its => (starSafe its, starSafeAscii its, plainStars [42, 63, 42, 0xAC] its)))
      = some (false, true, true) ∧
    ([0xE2, 0x82, 0xAC] : Bytes).all (fun c => decide (c.toNat < 128)) = false := by decide

/-- a literal `/` between stars is excluded by both conditions although Go and the documentation happen to agree there
(the conditions are sufficient, not necessary): `*a/b*` -/
example : ((items? [42, 97, 47, 98, 42]).map (fun its => (starSafe its, starSafeAscii its))) = some (false, false) := by decide

/-! ### non-vacuity -/

/-- `a*b*c`, `*.log`, `x?*ab*[a-c]/` are star-safe (any name); `*[a-c]?x*` only for ASCII names -/
example : ((items? (Go.ofAscii "a*b*c")).map (fun its => (starSafe its, plainStars (Go.ofAscii "a*b*c") its))) = some (true, true) ∧
    ((items? (Go.ofAscii "*.log")).map starSafe) = some true ∧
    ((items? (Go.ofAscii "x?*ab*[a-c]/")).map starSafe) = some true ∧
    ((items? (Go.ofAscii "*[a-c]?x*")).map (fun its => (starSafe its, starSafeAscii its))) = some (false, true) := by
  decide +kernel
example : PathMatch.pathMatch (Go.ofAscii "a*b*c") (Go.ofAscii "aXbbYc") = some true ∧
    PathMatch.pathMatch (Go.ofAscii "a*b*c") (Go.ofAscii "aXb/Yc") = some false := by decide +kernel

end Logrange.Props.C05Like
