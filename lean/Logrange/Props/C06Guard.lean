import Logrange.Proofs.TIndexGuard
/-!
# C06 with the write-time guard of the proposed repair F08r — partition identity WITHOUT the `Safe` hypothesis

`proposed-fixes/F08r.diff` makes `getOrCreateJournal` refuse a text whose parsed set's canonical line would not be read
back as the same set (`tag.Set.Reparses`). Whether the code has the guard is the regenerated fact
`Generated.C06.reparseGuardBeforeLookup` (`TIndexGuard.codeGuard`; the model driver runs `getOrCreateG codeGuard`, see
`guarded_decomp`). For the tree as it is the fact is `false` and `getOrCreateG false` is the model of the current code
(`guard_off_is_current`); the theorems below are about `getOrCreateG true` — they start to apply to the code the moment
the fact flips (`code_guarded_identity` consumes the fact).
-/
namespace Logrange.Props.C06Guard
open Go Logrange.KV Logrange.Tags Logrange.TIndexId Logrange.TIndexGuard Logrange.Proofs.TIndexGuard
  Logrange.Proofs.TIndexId

/-- without the guard the guarded model is literally the model of the current code -/
theorem guard_off_is_current (s : St) (raw : Bytes) (create : Bool) :
    getOrCreateG false s raw create = ((getOrCreate s raw create).1, .res (getOrCreate s raw create).2) :=
  guard_off s raw create

/-- what the driver runs: refuse when `guardRejects`, otherwise the step of the current code -/
theorem guarded_step_decomp (g : Bool) (s : St) (raw : Bytes) (create : Bool) :
    getOrCreateG g s raw create =
      if g && guardRejects s raw then (s, .notReparsing)
      else ((getOrCreate s raw create).1, .res (getOrCreate s raw create).2) :=
  guarded_decomp g s raw create

/-- **Invariant of the guarded index** after any history from the empty index: it is an injective map from lines to
partitions (`TInv`) and EVERY key reads back as exactly the set of its partition — no `Safe` hypothesis on the texts. -/
theorem guarded_index_inv (ops : List (Bytes × Bool)) :
    TInv (runG true {} ops) ∧ ∀ e ∈ (runG true {} ops).tmap, e.1 = line e.2.tags ∧ parse e.1 = some e.2.tags := by
  have h := rinv_run {} ops rinv_init
  exact ⟨h.1, fun e he => ⟨(h.1.1 e he).1, h.2 e he⟩⟩

/-- **Partition identity, unconditional**: after any guarded history, two accepted texts — whatever they are — get the
same partition iff they denote the same set. -/
theorem guarded_same_partition_iff (ops : List (Bytes × Bool)) (t1 t2 : Bytes) (c1 c2 : Bool) (i j : Nat) (m1 m2 : Map)
    (h1 : (getOrCreateG true (runG true {} ops) t1 c1).2 = .res (.ok i))
    (h2 : (getOrCreateG true (getOrCreateG true (runG true {} ops) t1 c1).1 t2 c2).2 = .res (.ok j))
    (p1 : parse t1 = some m1) (p2 : parse t2 = some m2) : i = j ↔ m1 = m2 :=
  Logrange.Proofs.TIndexGuard.guarded_same_partition_iff _ (rinv_run {} ops rinv_init) t1 t2 c1 c2 i j m1 m2 h1 h2 p1 p2

/-- every accepted text denotes a non-empty set whose line reads back (so an accepted text never creates an unreadable key) -/
theorem guarded_accepted_reparses (ops : List (Bytes × Bool)) (raw : Bytes) (create : Bool) (i : Nat)
    (h : (getOrCreateG true (runG true {} ops) raw create).2 = .res (.ok i)) :
    ∃ m, parse raw = some m ∧ m ≠ [] ∧ parse (line m) = some m := by
  obtain ⟨m, a, b, c, _⟩ := guarded_accept _ (rinv_run {} ops rinv_init) raw create i h
  exact ⟨m, a, b, c⟩

/-- **The class the guard refuses, exactly**: a text that is not a key already and parses to a non-empty set `m` is
refused iff `parse (line m) ≠ some m` -/
theorem guarded_rejects_exactly (s : St) (raw : Bytes) (create : Bool) (m : Map) (hl : lookup s.tmap raw = none)
    (hp : parse raw = some m) (hne : m ≠ []) :
    (getOrCreateG true s raw create).2 = .notReparsing ↔ parse (line m) ≠ some m :=
  Logrange.Proofs.TIndexGuard.guarded_rejects_exactly s raw create m hl hp hne

/-- nothing the `_partial` theorems cover is refused: every `safeW` (in particular every Safe) parsed set passes -/
theorem guarded_accepts_safeW (t : Bytes) (m : Map) (h : parse t = some m) (hs : safeW m = true) : reparses m = true :=
  safeW_reparses m (Logrange.Proofs.Tags.parse_WF t m h) hs

theorem guarded_accepts_safe (t : Bytes) (m : Map) (h : parse t = some m) (hs : safe m = true) : reparses m = true :=
  guarded_accepts_safeW t m h (Logrange.Proofs.TagsTight.safe_imp_safeW m hs)

/-- persisted keys with the guard: `loadState ∘ saveState` rebuilds the same map after any history -/
theorem guarded_load_save (ops : List (Bytes × Bool)) :
    loadEntries (saveState (runG true {} ops)) = some (runG true {} ops).tmap :=
  Logrange.Proofs.TIndexGuard.guarded_load_save _ (rinv_run {} ops rinv_init)

/-- the theorems apply to the code as soon as the regenerated fact says the guard is there -/
theorem code_guarded_identity (hg : codeGuard = true) (ops : List (Bytes × Bool)) :
    ∀ e ∈ (runG codeGuard {} ops).tmap, parse e.1 = some e.2.tags := by
  rw [hg]; exact fun e he => (guarded_index_inv ops).2 e he |>.2

/-- **Naming an existing partition again, in any spelling, changes nothing** — neither the index nor what the next
`saveStateUnsafe` writes (`tindex.dat` never learns a client's spelling): the model of the CURRENT code -/
theorem respelling_keeps_index (s : St) (raw : Bytes) (create : Bool) (m : Map) (td : Desc)
    (hp : parse raw = some m) (hl : lookup s.tmap (line m) = some td) :
    (getOrCreate s raw create).1 = s ∧ saveState (getOrCreate s raw create).1 = saveState s := by
  have h : (getOrCreate s raw create).1 = s := by
    unfold getOrCreate
    cases lookup s.tmap raw with
    | some td' => rfl
    | none =>
      simp only [hp]
      by_cases h3 : m.isEmpty = true
      · simp only [h3, if_true]
      · simp only [h3, Bool.false_eq_true, if_false, hl]
  exact ⟨h, by rw [h]⟩

/-! ## Non-vacuity and the witnesses of F08-C06 under the guard -/

/-- the two colliding texts of F08-C06 (`a=""` and `a="\"\""`): the first is accepted, the second is REFUSED -/
example : (getOrCreateG true {} [97,61,34,34] true).2 = .res (.ok 0) ∧
    (getOrCreateG true (getOrCreateG true {} [97,61,34,34] true).1 [97,61,34,92,34,92,34,34] true).2 = .notReparsing := by
  decide +kernel

/-- the fast-path capture witness (`a=" c "`): refused, so the raw text `a= c ` later creates its own partition for {a: c} -/
example : (getOrCreateG true {} [97,61,34,32,99,32,34] true).2 = .notReparsing ∧
    (getOrCreateG true {} [97,61,32,99,32] true).2 = .res (.ok 0) := by decide +kernel

/-- a non-trivial accepted history: quoted value with a comma, another spelling of the same set, a different set -/
example : (getOrCreateG true {} [97,61,34,120,44,121,34,44,98,61,49] true).2 = .res (.ok 0) ∧
    (getOrCreateG true (getOrCreateG true {} [97,61,34,120,44,121,34,44,98,61,49] true).1
      [123,98,61,49,44,32,97,61,34,120,44,121,34,125] true).2 = .res (.ok 0) := by decide +kernel

end Logrange.Props.C06Guard
