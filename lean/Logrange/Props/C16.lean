import Logrange.Model.RdQueryLoop
import Logrange.Generated.C03
/-!
# C16 — Backward navigation and offsets are consistent with forward order

Property theorems only; the model is `Logrange/Model/RdOffset.lean` (`crsr.Offset`, `iterateToPos`) over
`RdCursor.lean` (mixer tree, fiterator) and the two journal iterators, compared op by op with the real cursor
by harness/cmd/c16. The universal offset laws are kept as statements (`…_stmt`); beside them are
kernel-evaluated instances over a three-chunk journal with an empty chunk (every k from 0 to beyond both
ends, with and without a filter, one partition and a fixed-order merge of two), and the counterexample for the
open finding on tie order between cursor incarnations.
-/
namespace Logrange.Props.C16
open Logrange.Rd Logrange.Generated.C03

/-- the three repairs the offset model is written for are still in the code (regenerated every run) -/
theorem code_shape_facts :
    offsetPositiveBranchSettles = true ∧ fiteratorSetBackwardDropsCache = true ∧ backwardEofKeepsPos = true := by
  decide

/-- offset 0 leaves the cursor alone -/
theorem offset_zero (c : Cur) : offset c 0 = c := by simp [offset]

def r (l : Nat) (k : Bool := true) (ts : Int := l) : Rec := { lbl := l, ts := ts, keep := k }
def j3 : Journal := [⟨10, [r 0, r 1 false, r 2], 0, maxU32⟩, ⟨20, [], 0, maxU32⟩, ⟨30, [r 3, r 4 false, r 5, r 6], 0, maxU32⟩]

def cur1 (j : Journal) (w : Bool) : Cur := mkCur [{ name := 0, jrnl := j }] w none none false
def keepOf (w : Bool) (x : Rec) : Bool := !w || x.keep
def fwd (j : Journal) (w : Bool) : List Rec := (flat j).filter (keepOf w)
def read (c : Cur) : List Rec := (readLoop 100 c []).2

/-- **head_plus_k** (statement): `head` with offset +k skips exactly the first k matching events -/
def head_plus_k_stmt : Prop :=
  ∀ (j : Journal) (w : Bool) (k : Nat), Sorted j → (flat j).length ≤ 100 →
    read (offset (applyCorner (cur1 j w) false) k) = (fwd j w).drop k
/-- **tail_minus_k** (statement): `tail` with offset -k, then a forward read: the last k events (all if shorter) -/
def tail_minus_k_stmt : Prop :=
  ∀ (j : Journal) (w : Bool) (k : Nat), Sorted j → (flat j).length ≤ 100 →
    read (offset (applyCorner (cur1 j w) true) (-(k : Int))) = (fwd j w).drop ((fwd j w).length - k)
/-- **plus_minus_k** (statement): after i events, +k then -k (both inside the data) leads back to event i -/
def plus_minus_k_stmt : Prop :=
  ∀ (j : Journal) (w : Bool) (i k : Nat), Sorted j → (flat j).length ≤ 100 → i + k ≤ (fwd j w).length →
    (read (offset (offset (readLoop i (cur1 j w) []).1 k) (-(k : Int)))).head? = ((fwd j w).drop i).head?

/-! ### bounded instances evaluated by the kernel -/

theorem head_plus_k_j3 : ∀ w ∈ [false, true], ∀ k ∈ List.range 10,
    read (offset (applyCorner (cur1 j3 w) false) (k : Nat)) = (fwd j3 w).drop k := by decide +kernel

theorem tail_minus_k_j3 : ∀ w ∈ [false, true], ∀ k ∈ List.range 10,
    read (offset (applyCorner (cur1 j3 w) true) (-(k : Int))) = (fwd j3 w).drop ((fwd j3 w).length - k) := by
  decide +kernel

theorem plus_minus_k_j3 : ∀ w ∈ [false, true], ∀ i ∈ List.range 6, ∀ k ∈ List.range 6,
    i + k ≤ (fwd j3 w).length →
    (read (offset (offset (readLoop i (cur1 j3 w) []).1 (k : Nat)) (-(k : Int)))).head? = ((fwd j3 w).drop i).head? := by
  decide +kernel

/-- two partitions, one incarnation (leaf order fixed), timestamps tie across the partitions: head +k and
tail -k are slices of this cursor's own forward read -/
def ja : Journal := [⟨10, [r 0 true 5, r 1 true 5, r 2 true 7], 0, maxU32⟩]
def jb : Journal := [⟨10, [r 100000 true 5, r 100001 true 6], 0, maxU32⟩, ⟨20, [r 100002 true 7], 0, maxU32⟩]
def cur2 (order : List Nat) : Cur :=
  mkCur (order.map (fun n => { name := n, jrnl := if n = 0 then ja else jb })) false none none false

theorem offset_laws_fixed_order_instance : ∀ order ∈ [[0, 1], [1, 0]], ∀ k ∈ List.range 8,
    read (offset (applyCorner (cur2 order) false) (k : Nat)) = (read (cur2 order)).drop k ∧
    read (offset (applyCorner (cur2 order) true) (-(k : Int))) = (read (cur2 order)).drop (6 - k) := by
  decide +kernel

/-! ## open finding #23: tie order depends on the leaf order of the incarnation -/

/-- Read one event under leaf order [0,1] and take the position vector; a cursor built from that vector
with leaf order [1,0] (what Go's map iteration may produce next time) does not come back to the same next
event after +1 and -1, the one with the same leaf order does. -/
theorem cex_tie_order_between_incarnations :
    let a : Journal := [⟨10, [r 0 true 5, r 1 true 5], 0, maxU32⟩]
    let b : Journal := [⟨10, [r 100000 true 5, r 100001 true 5], 0, maxU32⟩]
    let mk : List Nat → Cur := fun order =>
      mkCur (order.map (fun n => { name := n, jrnl := if n = 0 then a else b })) false none none false
    let (c1, _) := readLoop 1 (mk [0, 1]) []
    let (_, vec) := commit c1
    let nextAfter : List Nat → Option Nat := fun order =>
      ((curGet (offset (offset (applyStatePos (mk order) vec) 1) (-1))).2).map (·.lbl)
    nextAfter [0, 1] = some 1 ∧ nextAfter [1, 0] = some 100000 := by decide +kernel

end Logrange.Props.C16
