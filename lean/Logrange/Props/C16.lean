import Logrange.Proofs.RdOffsetBwd
import Logrange.Proofs.RdMerge2Offset
import Logrange.Generated.C03
/-!
# C16 — Backward navigation and offsets are consistent with forward order

Property theorems only; the model is `Logrange/Model/RdOffset.lean` (`crsr.Offset`, `iterateToPos`) over
`RdCursor.lean` (mixer tree, fiterator) and the two journal iterators, compared op by op with the real cursor
by harness/cmd/c16. For ONE partition (un-ranged, with or without a WHERE filter) the three laws are proved
for ALL journals, all `k` and all read lengths (`head_plus_k`, `tail_minus_k`, `plus_minus_k`, and the general
`offset_forward` / `offset_backward`), on the faithful model of `crsr.Offset` (no intermediate model): the proof
goes through a flat-index abstraction of both journal-iterator directions (`Proofs/RdIterFwd.lean`,
`Proofs/RdIterBwd.lean`) and of the one-source cursor with its fiterator cache (`Proofs/RdPaging.lean`,
`RdOffsetLaws.lean`, `RdOffsetBwd.lean`). Merged cursors: kernel-evaluated fixed-order instance and the
counterexample for the open finding on tie order between cursor incarnations.
-/
namespace Logrange.Props.C16
open Logrange.Rd Logrange.Generated.C03

/-- the three repairs the offset model is written for are still in the code (regenerated every run) -/
theorem code_shape_facts :
    offsetPositiveBranchSettles = true ∧ fiteratorSetBackwardDropsCache = true ∧ backwardEofKeepsPos = true ∧
    newCursorSortsSources = true := by
  decide

/-- offset 0 leaves the cursor alone -/
theorem offset_zero (c : Cur) : offset c 0 = c := by simp [offset]

def r (l : Nat) (k : Bool := true) (ts : Int := l) : Rec := { lbl := l, ts := ts, keep := k }
def j3 : Journal := [⟨10, [r 0, r 1 false, r 2], 0, maxU32⟩, ⟨20, [], 0, maxU32⟩, ⟨30, [r 3, r 4 false, r 5, r 6], 0, maxU32⟩]

def curJ (j : Journal) (w : Bool) : Cur := mkCur [{ name := 0, jrnl := j }] w none none false
def fwd (j : Journal) (w : Bool) : List Rec := (flat j).filter (keepW w)
def read (c : Cur) : List Rec := (readLoop 100 c []).2

/-! ## the laws, one partition, for ALL journals

`fwdAll j w` is the forward result (stored order, WHERE applied); `readN n c` reads at most `n` events forward.
Hypotheses: `Sorted j` (chunk ids increase); for the backward walk `PosIds j` (no chunk id 0 — ids are
time-derived), `bw_ChunkBound j` (a chunk holds at most 2^32 records — its count is a uint32; without it the
model's backward chunk entry at index MaxUint32 would lose the tail of a larger chunk, see
`bw_getBwdSpec_false`), and `IdsBelowTail j` (every id is below the `tail` id 0xFFFF…). -/

def fwdAll (j : Journal) (w : Bool) : List Rec := (flat j).filter (keepW w)

/-- **the offset of a request is applied once**: both query loops (backend and RPC) hand back a continuation request whose
`Offset` is 0 (regenerated fact `continuationOffsetZero`), and so does the model's `query` in every branch — a client that sends
the server's `NextQueryRequest` verbatim (as `api.Select` and the shell do) continues where the page ended instead of skipping
`k` events again on every page. -/
theorem continuation_request_offset_zero :
    continuationOffsetZero = true ∧
    ∀ (M : Nat) (srv : Server) (req : Req), (query M srv req).2.next.offset = 0 := by
  refine ⟨by decide, ?_⟩
  intro M srv req
  simp only [query]
  repeat' split
  all_goals rfl

/-- **head_plus_k**: `head` with offset +k skips exactly the first k matching events. -/
theorem head_plus_k (name : Nat) (j : Journal) (w : Bool) (k n : Nat) (hs : Sorted j) :
    readN n (offset (applyCorner (mk1 name j w) false) (k : Int)) = ((fwdAll j w).drop k).take n :=
  ob_head_plus_k getFwd nextFwd name j w k n hs

/-- **tail_minus_k**: `tail` with offset −k followed by a forward read returns exactly the last k events of the
forward result (all of it if shorter). -/
theorem tail_minus_k (name : Nat) (j : Journal) (w : Bool) (k n : Nat) (hs : Sorted j) (hp : PosIds j)
    (hcb : bw_ChunkBound j) (ht : IdsBelowTail j) :
    readN n (offset (applyCorner (mk1 name j w) true) (-(k : Int))) =
      ((fwdAll j w).drop ((fwdAll j w).length - k)).take n :=
  ob_tail_minus_k getFwd nextFwd bw_getBwd_bounded bw_nextBwd_bounded name j w k n hs hp hcb ht

/-- **plus_minus_k**: from the position after any `m` delivered events, moving by +k and then by −k (both inside
the data) leads back to the same next event — indeed to the same remaining read. -/
theorem plus_minus_k (name : Nat) (j : Journal) (w : Bool) (m k n : Nat) (hs : Sorted j) (hp : PosIds j)
    (hcb : bw_ChunkBound j) (hk : m + k ≤ (fwdAll j w).length) :
    readN n (offset (offset (readLoop m (applyCorner (mk1 name j w) false) []).1 (k : Int)) (-(k : Int))) =
      readN n (readLoop m (applyCorner (mk1 name j w) false) []).1 :=
  ob_plus_minus_k getFwd nextFwd bw_getBwd_bounded bw_nextBwd_bounded name j w m k n hs hp hcb hk

/-- general forward law: from any forward state of a one-source cursor (`Abs … c i`: standing at flat index `i`)
`Offset(+k)` drops the first `k` of what was left -/
theorem offset_forward (name : Nat) (j : Journal) (w : Bool) (c : Cur) (i k : Nat) (hs : Sorted j)
    (h : Abs name j w false c i) :
    ∃ i', Abs name j w false (offset c (k : Int)) i' ∧ FL j w i' = (FL j w i).drop k :=
  of_offset_pos getFwd nextFwd hs k h

/-- general backward law: `Offset(−k)` moves the cursor back over `k` matching events, or to the start -/
theorem offset_backward (name : Nat) (j : Journal) (w : Bool) (c : Cur) (i k : Nat) (hs : Sorted j) (hp : PosIds j)
    (hcb : bw_ChunkBound j) (h : Abs name j w false c i) :
    ∃ i', Abs name j w false (offset c (-(k : Int))) i' ∧
      FL j w i' = (FL j w 0).drop (((FL j w 0).length - (FL j w i).length) - k) :=
  ob_offset_neg getFwd nextFwd bw_getBwd_bounded bw_nextBwd_bounded hs hp hcb k h

/-- the backward iterator laws need the chunk bound: without it they are false for the model -/
theorem backward_laws_need_chunk_bound : ¬ GetBwdSpec ∧ ¬ NextBwdSpec :=
  ⟨bw_getBwdSpec_false, bw_nextBwdSpec_false⟩

/-! ### non-vacuity: the hypotheses hold for a concrete journal, and instances evaluated by the kernel -/

example : Sorted j3 ∧ PosIds j3 ∧ bw_ChunkBound j3 ∧ IdsBelowTail j3 := by
  refine ⟨by unfold Sorted j3; decide, ?_, ?_, ?_⟩
  · intro c hc; simp [j3] at hc; rcases hc with rfl | rfl | rfl <;> decide
  · intro c hc; simp [j3] at hc; rcases hc with rfl | rfl | rfl <;> simp [Chunk.cnt, maxU32]
  · intro c hc; simp [j3] at hc; rcases hc with rfl | rfl | rfl <;> decide


theorem head_plus_k_j3 : ∀ w ∈ [false, true], ∀ k ∈ List.range 10,
    read (offset (applyCorner (curJ j3 w) false) (k : Nat)) = (fwd j3 w).drop k := by decide +kernel

theorem tail_minus_k_j3 : ∀ w ∈ [false, true], ∀ k ∈ List.range 10,
    read (offset (applyCorner (curJ j3 w) true) (-(k : Int))) = (fwd j3 w).drop ((fwd j3 w).length - k) := by
  decide +kernel

theorem plus_minus_k_j3 : ∀ w ∈ [false, true], ∀ i ∈ List.range 6, ∀ k ∈ List.range 6,
    i + k ≤ (fwd j3 w).length →
    (read (offset (offset (readLoop i (curJ j3 w) []).1 (k : Nat)) (-(k : Int)))).head? = ((fwd j3 w).drop i).head? := by
  decide +kernel

/-- two partitions, one incarnation (leaf order fixed), timestamps tie across the partitions: head +k and
tail -k are slices of this cursor's own forward read -/
def ja : Journal := [⟨10, [r 0 true 5, r 1 true 5, r 2 true 7], 0, maxU32⟩]
def jb : Journal := [⟨10, [r 100000 true 5, r 100001 true 6], 0, maxU32⟩, ⟨20, [r 100002 true 7], 0, maxU32⟩]
def cur2 (order : List Nat) : Cur :=
  mkCur (order.map (fun n => { name := n, jrnl := if n = 0 then ja else jb })) false none none false

theorem offset_laws_fixed_order_instance : ∀ order ∈ [[0, 1], [1, 0]], ∀ k ∈ List.range 8,
    read (offset (applyCorner (cur2 order) false) (k : Nat)) = (read (cur2 order)).drop k ∧
    read (offset (applyCorner (cur2 order) true) (-(k : Int))) = (read (cur2 order)).drop (6 - k) := by
  decide +kernel

/-! ## open finding F48: the position exported right after a backward walk

One partition, chunks of 2 + 2 records, no filter. The position after 3 delivered events, `Offset −2` with
`Limit 0` (position only): the cursor stands on event 1 (its `Get` returns it) but the exported position is
(chunk 10, idx 2) — one record too far — and a client that follows it gets event 2: event 1 is skipped. -/
set_option maxHeartbeats 2000000 in
theorem cex_exported_position_skips_event :
    let q : Qry := { text := 1 }
    let j : Journal := [⟨10, [r 0, r 1], 0, maxU32⟩, ⟨20, [r 2, r 3], 0, maxU32⟩]
    let s0 : Server := { store := [(0, j)] }
    let (s1, p1) := query queryMaxLimit s0 { query := some q, limit := 3 }
    let (s2, p2) := query queryMaxLimit s1 { query := some q, pos := p1.next.pos, offset := -2, limit := 0 }
    let (_, p3) := query queryMaxLimit s2 { query := some q, pos := p2.next.pos, limit := 1 }
    p1.events.map (·.lbl) = [0, 1, 2] ∧ p2.next.pos = .map [(0, ⟨10, 2⟩)] ∧ p3.events.map (·.lbl) = [2] := by
  decide +kernel

/-! ## merged cursor of TWO partitions: the forward law, for ALL journals

`mk2 n1 n2 j1 j2` is the cursor `newCursor` builds over two partitions (two leaves under one `Mixer`, the faithful
mixer-tree model, no filter); its forward result is the timestamp merge of the partitions, ties to the first source
in leaf order (`Proofs/RdMerge2.lean`). -/

/-- **head_plus_k_two_partitions**: `head` with offset +k skips exactly the first k events of the merged forward
result — ties across the partitions included. -/
theorem head_plus_k_two_partitions (n1 n2 : Nat) (j1 j2 : Journal) (k n : Nat) (hs1 : Sorted j1) (hs2 : Sorted j2) :
    readN n (offset (applyCorner (mk2 n1 n2 j1 j2) false) (k : Int)) =
      ((List.merge (flat j1) (flat j2) leTs).drop k).take n :=
  m2_head_plus_k getFwd nextFwd n1 n2 j1 j2 k n hs1 hs2

/-- general form: from any forward state of the merged cursor with `L` still to deliver, `Offset(+k)` leaves `L.drop k` -/
theorem offset_forward_two_partitions (n1 n2 : Nat) (j1 j2 : Journal) (c : Cur) (L : List Rec) (k : Nat)
    (hs1 : Sorted j1) (hs2 : Sorted j2) (h : Rem2 n1 n2 j1 j2 c L) :
    Rem2 n1 n2 j1 j2 (offset c (k : Int)) (L.drop k) :=
  m2_offset_pos getFwd nextFwd hs1 hs2 k h

/-- **offset_laws_fixed_order** (statement, merged sources — the forward half for two partitions is
`head_plus_k_two_partitions`; the backward half and more than two partitions are not proved): for a cursor over any
sources in a fixed leaf order (after f086c95: the tag-line order), un-ranged and unfiltered, with `fwd` the
cursor's own forward read from `head`: `head + k` and `tail − k` are the slices of `fwd`. Instance:
`offset_laws_fixed_order_instance` (cross-partition ties, both orders); tested at cursor level and through
`Query` across incarnations (sections `cursor`, `incarn`, `offset-api`). The one-source case is the theorems above. -/
def offset_laws_fixed_order_stmt : Prop :=
  ∀ (srcs : List (Nat × Journal)) (k n : Nat),
    (∀ s ∈ srcs, Sorted s.2 ∧ PosIds s.2 ∧ bw_ChunkBound s.2 ∧ IdsBelowTail s.2 ∧
      s.2.Pairwise (fun _ _ => True) ∧ (flat s.2).Pairwise (fun a b => a.ts ≤ b.ts)) →
    (srcs.map (·.1)).Nodup →
    let mk := mkCur ((sortSrcs srcs).map (fun x => { name := x.1, jrnl := x.2 })) false none none false
    let fwd := readN ((srcs.map (fun s => (flat s.2).length)).sum) (applyCorner mk false)
    readN n (offset (applyCorner mk false) (k : Int)) = (fwd.drop k).take n ∧
    readN n (offset (applyCorner mk true) (-(k : Int))) = (fwd.drop (fwd.length - k)).take n

/-! ## tie order between partitions (finding #23, repaired by f086c95)

`newCursor` now sorts its sources by tag line before it builds the mixer tree, so the leaf order — the
priority that breaks timestamp ties, forward to the left and backward to the right — is a function of the set of
sources and no longer of Go's map iteration order. -/

theorem insertSrc_perm (x : Nat × Journal) (l : List (Nat × Journal)) : (insertSrc x l).Perm (x :: l) := by
  induction l with
  | nil => exact List.Perm.refl _
  | cons y ys ih =>
    simp only [insertSrc]; split
    · exact List.Perm.refl _
    · exact ((List.Perm.cons y ih).trans (List.Perm.swap x y ys))

theorem sortSrcs_perm (l : List (Nat × Journal)) : (sortSrcs l).Perm l := by
  induction l with
  | nil => exact List.Perm.refl _
  | cons x xs ih => exact (insertSrc_perm x _).trans (List.Perm.cons x ih)

theorem insertSrc_sorted (x : Nat × Journal) (l : List (Nat × Journal))
    (h : l.Pairwise (fun a b => a.1 ≤ b.1)) : (insertSrc x l).Pairwise (fun a b => a.1 ≤ b.1) := by
  induction l with
  | nil => simp [insertSrc]
  | cons y ys ih =>
    simp only [insertSrc]; split
    · rename_i hxy
      refine List.Pairwise.cons ?_ h
      intro b hb
      rcases List.mem_cons.mp hb with rfl | hb'
      · exact hxy
      · exact Nat.le_trans hxy ((List.pairwise_cons.mp h).1 b hb')
    · rename_i hxy
      obtain ⟨h1, h2⟩ := List.pairwise_cons.mp h
      refine List.Pairwise.cons ?_ (ih h2)
      intro b hb
      rcases List.mem_cons.mp ((insertSrc_perm x ys).subset hb) with rfl | hb'
      · omega
      · exact h1 b hb'

theorem sortSrcs_sorted (l : List (Nat × Journal)) : (sortSrcs l).Pairwise (fun a b => a.1 ≤ b.1) := by
  induction l with
  | nil => simp [sortSrcs]
  | cons x xs ih => exact insertSrc_sorted x _ ih

theorem name_inj_of_nodup : ∀ (l : List (Nat × Journal)), (l.map (·.1)).Nodup →
    ∀ a b, a ∈ l → b ∈ l → a.1 = b.1 → a = b := by
  intro l
  induction l with
  | nil => intro _ a b ha; simp at ha
  | cons x xs ih =>
    intro hn a b ha hb hab
    simp only [List.map_cons, List.nodup_cons, List.mem_map, not_exists, not_and] at hn
    rcases List.mem_cons.mp ha with rfl | ha' <;> rcases List.mem_cons.mp hb with rfl | hb'
    · rfl
    · exact absurd hab.symm (hn.1 b hb')
    · exact absurd hab (hn.1 a ha')
    · exact ih hn.2 a b ha' hb' hab

/-- **cursor incarnations over the same partitions have the same leaf order**: whatever order the sources come
in (Go's map iteration), the sorted list is the same — for any number of partitions with distinct names. -/
theorem leaf_order_independent_of_map_order (l1 l2 : List (Nat × Journal)) (hp : l1.Perm l2)
    (hn : (l1.map (·.1)).Nodup) : sortSrcs l1 = sortSrcs l2 := by
  have hperm : (sortSrcs l1).Perm (sortSrcs l2) := ((sortSrcs_perm l1).trans hp).trans (sortSrcs_perm l2).symm
  refine List.Perm.eq_of_pairwise (le := fun a b => a.1 ≤ b.1) ?_ (sortSrcs_sorted l1) (sortSrcs_sorted l2) hperm
  intro a b ha hb h1 h2
  have ha' : a ∈ l1 := (sortSrcs_perm l1).subset ha
  have hb' : b ∈ l1 := hp.symm.subset ((sortSrcs_perm l2).subset hb)
  have hname : a.1 = b.1 := Nat.le_antisymm h1 h2
  exact name_inj_of_nodup l1 hn a b ha' hb' hname

/-- the cursor a request builds does not depend on the order of the store's partition list -/
theorem new_cursor_independent_of_map_order (s1 s2 : List (Nat × Journal)) (q : Qry) (p : PosText)
    (hp : (resolve s1 q).Perm (resolve s2 q)) (hn : ((resolve s1 q).map (·.1)).Nodup) :
    newCur s1 q p = newCur s2 q p := by
  unfold newCur; rw [leaf_order_independent_of_map_order _ _ hp hn]

/-- the old witness of #23, now passing: two partitions whose records share a timestamp; read one event, take the
position; in a NEW incarnation (the store lists the partitions the other way round) `+1` then `−1` leads back
to the same next event. -/
theorem tie_order_same_across_incarnations :
    let q : Qry := { text := 1 }
    let a : Journal := [⟨10, [r 0 true 5, r 1 true 5], 0, maxU32⟩]
    let b : Journal := [⟨10, [r 100000 true 5, r 100001 true 5], 0, maxU32⟩]
    let nextAfter : List (Nat × Journal) → List Nat := fun store =>
      let (s1, p1) := query queryMaxLimit { store := [(0, a), (1, b)] } { query := some q, limit := 1 }
      let (s2, p2) := query queryMaxLimit { s1 with store := store } { query := some q, pos := p1.next.pos, offset := 1, limit := 0 }
      let (_, p3) := query queryMaxLimit s2 { query := some q, pos := p2.next.pos, offset := -1, limit := 1 }
      p3.events.map (·.lbl)
    nextAfter [(0, a), (1, b)] = [1] ∧ nextAfter [(1, b), (0, a)] = [1] := by decide +kernel

end Logrange.Props.C16
