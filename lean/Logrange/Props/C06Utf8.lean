import Logrange.Proofs.TIndexUtf8
import Logrange.Props.C04Callers
import Logrange.Proofs.TIndexKeyJson
/-!
# C06 — the code as it is after fix a7918dd (UTF-8 guard on creation), and FROM down to the set of opened journals

Part 1. `getOrCreateJournal` refuses a call that may create when the canonical line of the set is not valid UTF-8
(regenerated fact `Generated.C06.utf8GuardOnCreate`; model `TIndexUtf8.getOrCreateU`, `codeStep` = the step with the facts of
the tree). The guard changes nothing when it fires, so the invariant and the identity theorems of `Props/C06.lean` carry over to
the guarded step; what is new: every key created under the guard is valid UTF-8 (so `encoding/json` stores it unchanged —
C07's `jsanitize_valid`), the fast path and look-ups without creation are untouched.

Part 2. **FROM selects exactly the matches, or the query fails** — one statement from the tag-expression evaluator to the set
of journals a query opens: `tindex.Visit` (model `TIndexId.visit`, = filter by the reference evaluator) feeds
`partition.Service.GetJournals` (b-c04's model `MixTree.getJournals`: visit loop with the cursor's limit, read-only import),
whose error reaches the statement through the caller chain (C04's regenerated facts) — and, on the producer side, the visitor
closure's error reaches `GetJournals`' caller (fact `getJournalsVisitorErrorReachesCaller`: not shadowed).
-/
namespace Logrange.Props.C06Utf8
open Go Logrange.KV Logrange.Tags Logrange.TagsEval Logrange.TIndexId Logrange.TIndexUtf8 Logrange.Proofs.TIndexUtf8
  Logrange.Proofs.TIndexId Logrange.Proofs.TIndexRun

/-! ## Part 1: the UTF-8 guard -/

/-- the guard is in the code, in the shape the model has (`create && !utf8.ValidString(line)`, before the look-up of the line) -/
theorem utf8_guard_fact : Logrange.Generated.C06.utf8GuardOnCreate = true := by decide

/-- the step of the code as it is: refuse on invalid UTF-8 when the call may create, otherwise the unguarded step -/
theorem code_step_decomp (s : St) (raw : Bytes) (create : Bool) :
    codeStep s raw create =
      if utf8Rejects s raw create then (s, .badUtf8)
      else ((getOrCreate s raw create).1, .res (getOrCreate s raw create).2) := by
  unfold codeStep getOrCreateU
  have h1 : Logrange.Generated.C06.utf8GuardOnCreate = true := by decide
  have h2 : Logrange.TIndexGuard.codeGuard = false := by decide
  simp [h1, h2]

/-- the invariant of `tindex_map_inv` for the code with the guard (any guard facts, any history) -/
theorem tindex_map_inv_code (u g : Bool) (ops : List (Bytes × Bool)) : TInv (runU u g {} ops) :=
  tinv_runU u g {} ops tinv_init

/-- **every key the guarded index creates is valid UTF-8** (what is written to `tindex.dat` is read back under the same key) -/
theorem created_keys_valid_utf8 (g : Bool) (ops : List (Bytes × Bool)) :
    ∀ e ∈ (runU true g {} ops).tmap, validLine e.1 = true :=
  kinv_runU g {} ops (fun e he => by cases he)

/-- **no key created under the guard changes across a restart**: `encoding/json`'s `Unmarshal ∘ Marshal` on a Go string
(`Registry.jsanitize`, the model C19/C07 validate against the real codec: escapes of `<`, `>`, `&`, U+2028/9 decode back, invalid
bytes become U+FFFD) is the identity on it — the JSON side of "persisted index keys parse back" (F-C07-901 closed by a7918dd) -/
theorem created_keys_survive_json (g : Bool) (ops : List (Bytes × Bool)) :
    ∀ e ∈ (runU true g {} ops).tmap, Logrange.Registry.jsanitize e.1 = e.1 :=
  fun e he => Logrange.Proofs.KeyJson.valid_key_json_stable e.1 (created_keys_valid_utf8 g ops e he)

/-- **refused exactly when it would create under a non-UTF-8 line**: a text that is not a key already and parses to a
non-empty set `m`, in a call that may create, is refused iff `line m` is not valid UTF-8 -/
theorem utf8_refused_iff (g : Bool) (s : St) (raw : Bytes) (m : Map) (hl : lookup s.tmap raw = none)
    (hp : parse raw = some m) (hne : m ≠ []) :
    (getOrCreateU true g s raw true).2 = .badUtf8 ↔ validLine (line m) = false := by
  have h3 : m.isEmpty = false := by cases m with | nil => exact absurd rfl hne | cons _ _ => rfl
  have hr : utf8Rejects s raw true = !validLine (line m) := by
    unfold utf8Rejects; simp [hl, hp, h3]
  unfold getOrCreateU
  cases hv : validLine (line m) with
  | true =>
    simp only [hr, hv, Bool.not_true, Bool.and_false, Bool.false_eq_true, if_false]
    constructor
    · intro e; split at e <;> cases e
    · intro e; cases e
  | false => simp [hr, hv]

/-- **still found when it exists**: the raw-text fast path … -/
theorem existing_found_by_its_line (u g : Bool) (s : St) (raw : Bytes) (create : Bool) (td : Desc)
    (h : lookup s.tmap raw = some td) (hg : g = false) : getOrCreateU u g s raw create = (s, .res (.ok td.src)) := by
  subst hg
  unfold getOrCreateU
  rw [utf8Rejects_fast s raw create td h]
  simp [getOrCreate, h]

/-- … and a look-up without creation (`GetJournal`) are what they were -/
theorem lookup_without_create_unchanged (u : Bool) (s : St) (raw : Bytes) :
    getOrCreateU u false s raw false = ((getOrCreate s raw false).1, .res (getOrCreate s raw false).2) := by
  unfold getOrCreateU utf8Rejects
  simp

/-- **Same partition iff same set, for the code with the guard**: two Safe non-empty sets with valid UTF-8 lines -/
theorem same_partition_iff_code (u : Bool) (s : St) (hinv : TInv s) (hsafe : SafeSt s) (t1 t2 : Bytes) (m1 m2 : Map)
    (hp1 : parse t1 = some m1) (hp2 : parse t2 = some m2) (hne1 : m1 ≠ []) (hne2 : m2 ≠ [])
    (hs1 : safe m1 = true) (hs2 : safe m2 = true) (hu1 : validLine (line m1) = true) (hu2 : validLine (line m2) = true) :
    ∃ i j, (getOrCreateU u false s t1 true).2 = .res (.ok i) ∧
      (getOrCreateU u false (getOrCreateU u false s t1 true).1 t2 true).2 = .res (.ok j) ∧ (i = j ↔ m1 = m2) := by
  obtain ⟨i, j, h1, h2, h3⟩ := Logrange.Proofs.TIndexId.same_partition_iff Logrange.Proofs.Quote.quoteContract s hinv hsafe
    t1 t2 m1 m2 hp1 hp2 hne1 hne2 hs1 hs2
  have e1 : getOrCreateU u false s t1 true = ((getOrCreate s t1 true).1, .res (getOrCreate s t1 true).2) := by
    unfold getOrCreateU; simp [utf8Rejects_valid s t1 true m1 hp1 hu1]
  have e2 : getOrCreateU u false (getOrCreate s t1 true).1 t2 true =
      ((getOrCreate (getOrCreate s t1 true).1 t2 true).1, .res (getOrCreate (getOrCreate s t1 true).1 t2 true).2) := by
    unfold getOrCreateU; simp [utf8Rejects_valid _ t2 true m2 hp2 hu2]
  exact ⟨i, j, by rw [e1]; simp [h1], by rw [e1]; simp only; rw [e2]; simp [h2], h3⟩

/-- non-vacuity: `a=<0xff>` is refused on create; `a=é` (valid) is accepted -/
example : (codeStep {} [97, 61, 255] true).2 = .badUtf8 ∧ (codeStep {} [97, 61, 0xC3, 0xA9] true).2 = .res (.ok 0) ∧
    (codeStep {} [97, 61, 255] false).2 = .res .notFound := by decide +kernel

/-! ## Part 2: FROM → Visit → GetJournals → the query -/

/-- the visitor closure of `GetJournals` hands its failures to the enclosing function (not shadowed) -/
theorem visitor_error_reaches_caller : Logrange.Generated.C06.getJournalsVisitorErrorReachesCaller = true := by decide

/-- a descriptor of the tag index as a partition of the merge model: on an index satisfying `TInv` the journal id identifies
the tag line (keys distinct ⇔ ids distinct) -/
def toPart (d : Desc) : Logrange.MixTree.Part := ⟨d.src, d.src⟩

/-- the partitions whose tags satisfy the reference meaning of the source -/
def matching (so : StrOps) (s : St) (src : Source) : List Desc :=
  (s.tmap.map (·.2)).filter (fun d => evalTagsRef so src d.tags == some true)

theorem visit_eq_matching (so : StrOps) (s : St) (src : Source) (f : Map → Bool) (hb : buildSource so src = some f) :
    visit so s src = some (matching so s src) := by
  unfold visit matching
  rw [hb]
  have := (Logrange.Proofs.TagsEval.tags_eval_correct so src).1 f hb
  simp only [Option.some.injEq]
  apply List.filter_congr
  intro d _
  rw [this d.tags]
  cases f d.tags <;> simp

/-- **FROM selects exactly the matches, or the query fails.** For an index satisfying the invariant and any source
(`{tags}`, expression, empty): a source the builder rejects fails the statement; otherwise `Visit` hands `GetJournals` exactly the
partitions whose tags satisfy the reference meaning of the source, and the query either merges exactly those (fewer than the
cursor's limit) or answers an error (limit reached) — never a part of them. -/
theorem from_selects_exactly_or_fails (so : StrOps) (s : St) (hinv : TInv s) (src : Source) (rd : Logrange.MixTree.Readers) :
    (buildSource so src = none → visit so s src = none) ∧
    (∀ f, buildSource so src = some f →
      visit so s src = some (matching so s src) ∧
      (Logrange.Generated.C04.mergeLimit ≤ (matching so s src).length →
        Logrange.Props.C04Callers.queryMergeSet ((matching so s src).map toPart) rd = none) ∧
      ((matching so s src).length < Logrange.Generated.C04.mergeLimit →
        Logrange.Props.C04Callers.queryMergeSet ((matching so s src).map toPart) rd = some ((matching so s src).map toPart))) := by
  refine ⟨fun hb => by unfold visit; rw [hb], ?_⟩
  intro f hb
  have hnd : (((matching so s src).map toPart).map (·.line)).Nodup := by
    have h1 : ((matching so s src).map toPart).map (·.line) = (matching so s src).map (·.src) := by
      simp [toPart, List.map_map, Function.comp_def]
    rw [h1]
    have h2 : ((s.tmap.map (·.2)).map (·.src)).Nodup := by
      simpa [List.map_map, Function.comp_def] using hinv.2.2
    exact (List.Sublist.map _ (List.filter_sublist)).nodup h2
  obtain ⟨a, b⟩ := Logrange.Props.C04Callers.too_many_partitions_fail_the_query ((matching so s src).map toPart) rd hnd
  refine ⟨visit_eq_matching so s src f hb, ?_, ?_⟩
  · intro h; exact a (by simpa using h)
  · intro h; exact b (by simpa using h)

end Logrange.Props.C06Utf8
