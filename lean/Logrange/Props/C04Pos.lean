import Logrange.Proofs.MixerPosLeaf
import Logrange.Proofs.MixerPosSLeaf
import Logrange.Proofs.MixTree
/-!
# C04 — which position the merged cursor reports while it shows which event

The leaf contract `LawfulSource` speaks about streams only. `LawfulSourcePos` (an ADDED class, `Proofs/MixerPos.lean`; nothing of
`LawfulSource` or of its instances changes) adds the positions `CurrentPos` reports: `pview s` = the positions of the events of
`view s`, in stream order. Lifted to trees of mixers: `It.headPos` (SPEC: the position of the head event of the merged stream =
the head position of the source the merge selects) and `It.curPosS` (`Mixer.CurrentPos`). This is what laws about `crsr.Offset` /
`iterateToPos` on merged cursors need (they remember `CurrentPos()` and walk until it shows up again); attribution by position:
the position reported is a position of the very source whose event is shown.
-/
namespace Logrange.Props.C04Pos
open Logrange.Mixer Logrange.MixTree LawfulSource

variable {σ : Type} [Source σ] [LawfulSource σ] [SourcePos σ] [LawfulSourcePos σ]
set_option linter.unusedSectionVars false

/-- **after a `Get` the merged cursor reports the position of the event it shows** — `CurrentPos()` is the head position of the
source whose event `Get` answered —, from every reachable state (`WFP`: every selected child is placed), and `Get` changes neither
the stream nor the head position. At the end of the stream a mixer reports `IteratorPosUnknown`. -/
theorem merged_cursor_reports_position_of_shown_event (t : It σ) (h : t.WF) (hp : t.WFP) :
    (∀ p, t.headPos = some p → t.get.1.curPosS = some p) ∧ t.get.1.headPos = t.headPos ∧ t.get.1.WFP ∧
    (∀ p, t.headPos = some p → ∃ s ∈ t.leaves, (LawfulSourcePos.pview s).head? = some p) ∧
    (t.view = [] → t.headPos = none) := by
  obtain ⟨g1, g2⟩ := It.get_placed t h hp
  have e := It.headPos_get t h
  refine ⟨fun p hp' => g2 p (by rw [e]; exact hp'), e, g1, fun p hp' => It.headPos_mem_leaves t p hp',
    It.headPos_none_of_empty t h⟩

/-- the invariant is kept by every operation of the cursor and holds for the tree `newCursor` builds -/
theorem position_invariant_is_kept (t : It σ) (h : t.WF) (hp : t.WFP) (bk : Bool) :
    t.get.1.WFP ∧ t.next.WFP ∧ t.release.WFP ∧ (t.setBackward bk).WFP ∧
    t.release.curPosS = t.curPosS ∧ t.release.headPos = t.headPos :=
  ⟨(It.get_placed t h hp).1, It.next_WFP t h hp, It.release_WFP t h hp, It.setBackward_WFP bk t h hp,
    It.release_curPosS t h, It.release_headPos t h⟩

theorem new_cursor_tree_is_placed [Inhabited σ] (srcs : List σ) (t : It σ) (ht : build srcs = some t) : t.WFP := by
  refine build_all (fun t => t.WFP) ?_ srcs ?_ t ht
  · intro a b ha hb; exact It.init_WFP a b ha hb
  · intro s _; trivial

/-- the in-memory iterator meets the added contract: the position it reports after `Get` is (its partition, the index of the
record shown) -/
theorem leaf_position_contract (l : Leaf) (h : LawfulSource.wf l) (p : Int × Int)
    (hp : (LawfulSourcePos.pview l).head? = some p) :
    SourcePos.pos (Source.get l).1 = p ∧ p.1 = l.tags ∧
    (LawfulSourcePos.pview l).length = (LawfulSource.view l).length :=
  ⟨LawfulSourcePos.pos_get l h p hp, by
    have hp' : (Leaf.pview l).head? = some p := hp
    simp only [Leaf.pview, List.head?_map] at hp'
    cases hv : l.idxLeaf.view.head? with
    | none => rw [hv] at hp'; simp at hp'
    | some e => rw [hv] at hp'; simp at hp'; rw [← hp'], LawfulSourcePos.pview_length l h⟩

-- non-vacuity: two in-memory partitions with a tie; partition 1 stands on its second record (7), partition 2 on its first (5):
-- the merge shows partition 2's record and reports ITS position; with both on their first record (a tie) partition 1's
example :
    (It.init (.leaf (⟨1, [⟨5, 0⟩, ⟨7, 1⟩], 1, false⟩ : Leaf)) (.leaf ⟨2, [⟨5, 0⟩], 0, false⟩)).get.1.curPosS = some (2, 0) ∧
    (It.init (.leaf (⟨1, [⟨5, 0⟩, ⟨7, 1⟩], 1, false⟩ : Leaf)) (.leaf ⟨2, [⟨5, 0⟩], 0, false⟩)).headPos = some (2, 0) ∧
    (It.init (.leaf (⟨1, [⟨5, 0⟩, ⟨7, 1⟩], 0, false⟩ : Leaf)) (.leaf ⟨2, [⟨5, 0⟩], 0, false⟩)).get.1.curPosS = some (1, 0) := by
  decide +kernel

/-! ## the variant with a `sync` predicate (`LawfulSourcePosS`) and the direction-switch law -/

section S
variable {τ : Type} [Source τ] [LawfulSource τ] [SourcePos τ] [LawfulSourcePosS τ]

/-- **the same with the position law restricted to `sync` states** (for leaves whose reported position lags behind the event shown
in some states — the journal iterators walking backward over a chunk boundary, finding F48): while every source is in a `sync`
state, after a `Get` the merged cursor reports the position of the event it shows; `Get`, `Next` (after a `Get`), `Release` keep the
sources in `sync` states and the invariant; nothing is claimed across `SetBackward` beyond the invariant `WFPS` (which needs no
`sync`) — the leaf law `head_setBackward` says what a switch does to a source that stands on its head. -/
theorem merged_cursor_reports_position_in_sync_states (t : It τ) (h : t.WF) (hy : t.Synced) (hp : t.WFPS) (bk : Bool) :
    (∀ p, t.headPosS = some p → t.get.1.curPosS = some p) ∧ t.get.1.headPosS = t.headPosS ∧
    t.get.1.WFPS ∧ t.get.1.Synced ∧ t.get.1.next.WFPS ∧ t.get.1.next.Synced ∧
    t.release.WFPS ∧ t.release.Synced ∧ (t.setBackward bk).WFPS := by
  obtain ⟨g1, g2⟩ := It.get_placedS t h hy hp
  have e := It.headPosS_get t h
  have gy := It.get_Synced t h hy
  obtain ⟨_, _, gw, _, gs⟩ := It.get_spec t h
  exact ⟨fun p hp' => g2 p (by rw [e]; exact hp'), e, g1, gy, It.next_WFPS _ gw gy g1, It.next_Synced _ gw gs gy,
    It.release_WFPS t h hp, It.release_Synced t h hy, It.setBackward_WFPS bk t h hp⟩

/-- the in-memory iterator meets the variant too, with the switch law: switched while it stands on its head event, it shows the
same event at the same position in the other direction -/
theorem leaf_direction_switch_keeps_head (bk : Bool) (l : Leaf) (h : LawfulSource.wf l) (p : Int × Int)
    (hp : (LawfulSourcePosS.pview l).head? = some p) (hpos : SourcePos.pos l = p) :
    (LawfulSourcePosS.pview (Source.setBackward bk l)).head? = some p ∧
    (LawfulSource.view (Source.setBackward bk l)).head? = (LawfulSource.view l).head? ∧
    SourcePos.pos (Source.setBackward bk l) = p :=
  LawfulSourcePosS.head_setBackward bk l h trivial p hp hpos

end S

end Logrange.Props.C04Pos
