import Logrange.Proofs.PipeHist
/-!
# C02 — end to end ON THE PIPELINE MODEL (the model the driver runs and the harness compares with the code)

`Props/C02.lean` proves the range property at the Points level (flat point list per chunk) and, separately, that the
block tree answers like the flat list. This file threads them through ONE statement about the executable pipeline model:
`CIndex.onWrite` / `CIndex.rebuild` on the inductive block tree `ITree` (any depth, 41 records per block — regenerated),
`RangedIter.rebuildStatuses` (= `syncChunks` + `updatePoss` through `CIndex.grEqAns/lessAns`), the forward scan as a fold
over the chunk statuses and the `fitInRange` re-check (`PipeRead.absScan` — the value the driver compares with the
stateful iterator `RangedIter.scan` and, through it, with the real iterator on every scan).

The former run-time links "Points-level partition model = pipeline chunk index" and "flat rebuild = rebuilt tree" are
theorems here (`pipeline_refines_points`, `rebuilt_tree_eq_flat_rebuild`); they stay tests in the driver as well.
What remains a run-time link: `RangedIter.scan` (the stateful `JIterator` stepping with cached statuses, chunk-iterator
clamping and fuel) = `PipeRead.absScan` — checked on every scan (driver field `abs`); the stepping itself is proved
on the abstract scan (`scan_is_fold_over_chunks`) and, for the `Rd*` iterator models, under the contract
`chunk_window_sound` exported below.

Regenerated facts consumed (all through the models): `sparseSpace`, `bigGapFactor`, `maxRecsPerBlock`, `onWriteSkipIsStrictLess`,
`onWriteSkipsLateNotification`, `onWriteRecsNeverDecrease`, `staleDropOnlyForSnapshotEntries`, `syncChunksDropsStaleEntries`,
`rebuildSegmentIsStrictLess`, `rebuildSegmentMaxInit`, `updatePossOpensUnknownTail`, `lowerAskMinusOne`, `fitLower/UpperInclusive`.
-/
namespace Logrange.Props.C02Pipe
open Logrange Logrange.Points Logrange.PipeHist

/-! ## the three refinement steps -/

/-- **tree_window_eq_points_window**: for an index entry of the pipeline model that stands for a Points-level entry
(`RefChk`: same hull, `Recs`, `lastRec`, `corrupted`; well-formed tree whose level-0 records are the point list — at any
depth), the window `RangedIter.updatePoss` computes through the tree look-ups is the Points-level `window`, whenever the
entry accounts for every confirmed record (`count ≤ Recs`). -/
theorem tree_window_eq_points_window {x : CIndex.Chk} {c : ChunkHist.ChunkIdx} (h : RefChk x c) (s : RangedIter.St)
    (cid : Nat) (st : Selector.ChkSt) (hf : CIndex.findChk s.cidx (cid / 10) = some x) (hcnt : st.count ≤ x.recs) :
    ((RangedIter.updatePoss s cid st).1.minPos, (RangedIter.updatePoss s cid st).1.maxPos) =
        window ⟨x.minTs, x.maxTs⟩ (ChunkHist.idxOf c) ⟨s.rmin, s.rmax⟩ ∧
      (RangedIter.updatePoss s cid st).1.count = st.count :=
  window_eq h s cid st hf hcnt

/-- **onWrite_tree_refines_points**: one `OnWrite` notification (positions `c.n … c.n+k-1`, hull `[mn, mx]` as the write
loop reports it: `RollHull`) on the partition's last chunk: `CIndex.onWrite` — hull merge, `Recs`, late-notification /
sparse skip, big-gap corruption, `ckindex.addInterval` on the block tree — changes only that entry, and the new entry
stands for `ChunkHist.onWrite` of the old one. Hypotheses: the old entry is sound (`SoundL`), the data monotone, the
positions fit uint32. `ITree.add` never fails here (`tree_append_refines`). -/
theorem onWrite_tree_refines_points {tsOf : Nat → Int} {xs : List CIndex.Chk} {x : CIndex.Chk} {c : ChunkHist.ChunkIdx}
    (h : RefChk x c) (hs : RebuildHist.SoundL tsOf c) (k : Nat) (mn mx : Int) (hk : 0 < k)
    (hm : Monotone tsOf (c.n + k)) (he : RebuildHist.RollHull tsOf c.n k mn mx) (hn : c.n + k - 1 ≤ 4294967295) :
    ∃ x', (CIndex.onWrite ⟨xs ++ [x]⟩ c.n (c.n + k - 1) x.id mn mx).1.chunks = xs ++ [x'] ∧ x'.id = x.id ∧
      RefChk x' (ChunkHist.onWrite CIndex.sparseSpace CIndex.bigGap c k mn mx) :=
  chunk_ref_step h hs k mn mx hk hm he hn

/-- **rebuilt_tree_eq_flat_rebuild**: `rebuildIndexInt` over the first `m > 0` records of monotone int64 data
(`CIndex.rebuildIntWith`: root interval, segments of `sparseSpace` records written at their exclusive end through
`ckindex.addInterval`) never fails, gives a well-formed tree whose level-0 records are exactly the flat rebuild
`RebuildHist.rebuildPts` (the list `rebuild_sound` is about) and reports the scanned hull. -/
theorem rebuilt_tree_eq_flat_rebuild {tsOf : Nat → Int} {m : Nat} (hm0 : 0 < m) (hmono : Monotone tsOf m)
    (hlow : ∀ q, q < m → minI64 ≤ tsOf q) (hhi : ∀ q, q < m → tsOf q ≤ RebuildHist.maxI64) :
    ∃ tr, CIndex.rebuildInt ((List.range m).map tsOf) =
        (some tr, (RebuildHist.scannedHull ((List.range m).map tsOf)).minTs,
          (RebuildHist.scannedHull ((List.range m).map tsOf)).maxTs) ∧
      ITree.WF ITree.maxRecs tr ∧
      ITree.points tr = RebuildHist.rebuildPts CIndex.sparseSpace Generated.C02.rebuildSegmentMaxInit ((List.range m).map tsOf) := by
  have f : Generated.C02.rebuildSegmentMaxInit = minI64 := by decide
  obtain ⟨tr, e1, e2, e3, _⟩ := rebuildInt_ref (segMax0 := Generated.C02.rebuildSegmentMaxInit) hm0 hmono
    (by rw [f]; exact hlow) hhi
  exact ⟨tr, e1, e2, e3⟩

/-! ## whole histories -/

/-- **pipeline_refines_points**: after EVERY history of `Service.Write` calls (any batching, any split of a call over
chunks: `HistOK` only says that pieces are non-empty and that only the first piece of a call continues the last chunk)
and index rebuilds (any chunk, any prefix length, at any point of the history) whose records are monotone non-decreasing
int64 timestamps in stored order, with chunks of at most 2^32 − 1 records: the pipeline state stands, chunk by chunk, for
the Points-level partition `absRun evs` (`Ref`: ids dense, `RefChk` per chunk, same records), and that partition is sound
(`PartInv`: `SoundL` per chunk). This replaces the driver's run-time comparisons `PARTHIST-DIFFERS` / `flat-differs`. -/
theorem pipeline_refines_points (evs : List Ev) (hs : (allTs evs).Pairwise (· ≤ ·))
    (hb : ∀ t ∈ allTs evs, minI64 ≤ t ∧ t ≤ RebuildHist.maxI64) (hok : HistOK {} evs)
    (hsmall : ∀ l ∈ (run evs).tss, l.length ≤ 4294967295) :
    Ref (run evs) (absRun evs) ∧ PartHist.PartInv (absRun evs) := by
  have htss : (run evs).tss = (absRun evs).map (·.tss) := run_tss evs {} [] rfl
  obtain ⟨r1, r2, _⟩ := run_ref_init evs hs hb (evsOK_of_histOK evs {} [] rfl hok) (small_of_tss htss hsmall)
  exact ⟨r1, r2⟩

/-- **range_eq_filter_pipeline** — C02 on monotone data, end to end on the pipeline model. For every such history and
EVERY range `[rmin, rmax]` the ranged read of the pipeline state — `rebuildChunkStatuses` (`syncChunks`, then `updatePoss`
per chunk through hull, `Recs` and the block tree), `getPosForward`/`Get`/`Next`/`advanceChunk` as a fold over the chunk
statuses, `fitInRange` — is EXACTLY the filter of the unbounded read: the positions (chunk, index) of all records with
`rmin ≤ ts ≤ rmax`, in stored order; and the journal holds the history's records in order. -/
theorem range_eq_filter_pipeline (evs : List Ev) (hs : (allTs evs).Pairwise (· ≤ ·))
    (hb : ∀ t ∈ allTs evs, minI64 ≤ t ∧ t ≤ RebuildHist.maxI64) (hok : HistOK {} evs)
    (hsmall : ∀ l ∈ (run evs).tss, l.length ≤ 4294967295) (rmin rmax : Int) :
    read (run evs) rmin rmax =
        (fullRead (run evs).tss 0).filter (fun kq => decide (rmin ≤ tsAt (run evs).tss kq ∧ tsAt (run evs).tss kq ≤ rmax)) ∧
      (run evs).tss.flatten = allTs evs :=
  run_read_eq_filter evs hs hb hok hsmall rmin rmax

/-- **chunk_window_sound** — the contract the iterator-stepping proofs (`Rd*` family, C03/C16) assume about the index
side. After every history as above, for every chunk `k` (journal id `(k + 1) * 10`), every range and WHATEVER status the
selector held for the chunk before (`cs`: any old window, any confirmed count `cs.count` — smaller, equal or larger than
what the index has been told about): the window `updatePoss` gives contains the position of every record of the chunk
with `rmin ≤ ts ≤ rmax`. Covered cases: hull + tree present (any depth); index missing (`corrupted`, or no tree yet /
rebuilt from nothing); index rebuilt from any confirmed prefix at any time; unknown tail (`cs.count > Recs` ⇒ the whole
chunk is open). Not covered: non-monotone data (F04/F24), entries loaded from a snapshot (see
`stale_snapshot_entry_window_complete`), notifications that overtake each other (see `C02.late_notification_skip_sound`). -/
theorem chunk_window_sound (evs : List Ev) (hs : (allTs evs).Pairwise (· ≤ ·))
    (hb : ∀ t ∈ allTs evs, minI64 ≤ t ∧ t ≤ RebuildHist.maxI64) (hok : HistOK {} evs)
    (hsmall : ∀ l ∈ (run evs).tss, l.length ≤ 4294967295) (rmin rmax : Int) (k : Nat) (cs : Selector.ChkSt) (q : Nat)
    (hq : q < ((run evs).tss.getD k []).length)
    (hr : rmin ≤ tsAt (run evs).tss (k, q) ∧ tsAt (run evs).tss (k, q) ≤ rmax) :
    (RangedIter.updatePoss (toSt (run evs) rmin rmax) ((k + 1) * 10) cs).1.minPos ≤ q ∧
      q ≤ (RangedIter.updatePoss (toSt (run evs) rmin rmax) ((k + 1) * 10) cs).1.maxPos :=
  run_chunk_window evs hs hb hok hsmall rmin rmax k cs q hq hr

/-! ## non-vacuity: a history with a roll-over, a rebuild of a prefix and a continued chunk -/

/-- call 1 fills chunk 1 and rolls over into chunk 2; chunk 1 is rebuilt from its first two records; call 2 continues
chunk 2 and opens chunk 3; chunk 2 is rebuilt completely; a rebuild of a chunk that does not exist is a no-op -/
def hist : List Ev :=
  [.call [⟨true, [1, 2, 3]⟩, ⟨true, [4, 5]⟩], .rebuild 0 2, .call [⟨false, [6]⟩, ⟨true, [7, 8]⟩], .rebuild 1 9, .rebuild 7 1]

theorem hist_ok : HistOK {} hist := by
  refine ⟨⟨by decide, by decide, ?_⟩, ⟨by decide, by decide, ?_⟩, trivial⟩ <;> intro q hq <;> simp at hq <;> subst hq <;> decide

example : (run hist).tss = [[1, 2, 3], [4, 5, 6], [7, 8]] := by decide

example : (run hist).cidx.chunks.map (fun c => (c.id, c.minTs, c.maxTs, c.recs)) = [(1, 1, 3, 3), (2, 1, 6, 3), (3, 6, 8, 2)] ∧
    (run hist).cidx.chunks.map (fun c => (c.lastRec, c.corrupted)) = [(0, false), (0, false), (1, false)] ∧
    (run hist).cidx.chunks.map (fun c => c.root.map ITree.points) =
      [some [⟨1, 0⟩, ⟨1, 0⟩, ⟨2, 2⟩], some [⟨4, 0⟩, ⟨4, 0⟩, ⟨6, 3⟩], some [⟨6, 0⟩, ⟨8, 1⟩]] := by
  refine ⟨by decide, by decide, by decide⟩

example : read (run hist) 3 6 = [(0, 2), (1, 0), (1, 1), (1, 2)] := by decide

example (rmin rmax : Int) :
    read (run hist) rmin rmax =
      (fullRead (run hist).tss 0).filter (fun kq => decide (rmin ≤ tsAt (run hist).tss kq ∧ tsAt (run hist).tss kq ≤ rmax)) :=
  (range_eq_filter_pipeline hist (by decide) (by decide) hist_ok (by decide) rmin rmax).1


/-! ## concurrent writers: every delivery order of the write notifications (repair f6d29cf), and what it does not cover -/

open Logrange.Reorder in
/-- **reordered_notifications_sound** — `Service.Write` notifies the index after the chunk's write lock is gone, so the
notifications of the batches of one chunk can reach `cindex.onWrite` in ANY order. For a new chunk `cid` holding `n ≤ 2^32`
monotone records and EVERY list `ds` of notifications of pairwise disjoint batches of it (`NoteOk`: positions inside the
chunk, hull = first and last record, or the over-wide minimum of a rolled-over call on the chunk's first batch) — any
subset of the stored batches, in any order, i.e. every reachable state of the delivery LTS:
`CIndex.onWrite` (block tree) changes only the chunk's entry, the entry stands for the Points-level `Reorder.deliver ds`
(`RefChk`: `ITree.add` never fails, tree points = flat list), and that entry's index — when not dropped — is `LookupSound`
for ALL `n` stored records: both look-ups are sound at every moment, whatever has been announced so far; the hull covers
every announced batch; `Recs` is at least every announced batch's end (`Inv`). No rebuild runs in between (see
`cex_late_notification_after_rebuild`). -/
theorem reordered_notifications_sound {tsOf : Nat → Int} {n : Nat} (hm : Monotone tsOf n) (hn : n ≤ 4294967296)
    (xs : List CIndex.Chk) (cid : Nat) (hx : ∀ l, xs.getLast? = some l → l.id ≠ cid) (ds : List Note) (hne : ds ≠ [])
    (hok : ∀ b ∈ ds, NoteOk tsOf n b) (hp : ds.Pairwise Disj) :
    ∃ x ds', (deliverC cid ⟨xs⟩ ds).chunks = xs ++ [x] ∧ x.id = cid ∧
      RefChk x (deliver CIndex.sparseSpace CIndex.bigGap ds) ∧ (∀ b, b ∈ ds' ↔ b ∈ ds) ∧
      Inv tsOf n ds' (deliver CIndex.sparseSpace CIndex.bigGap ds) ∧
      ((deliver CIndex.sparseSpace CIndex.bigGap ds).corrupted = false →
        RebuildHist.LookupSound tsOf n (deliver CIndex.sparseSpace CIndex.bigGap ds).pts) := by
  obtain ⟨x, ds', h1, h2, h3, h4, h5⟩ := deliverC_new hm hn xs cid hx ds hne hok hp
  refine ⟨x, ds', h1, h2, h3, h4, h5, ?_⟩
  intro hc
  exact lookupSound_of_curve hm (fun p hp' => ⟨(h5.curve hc p hp').1, (h5.curve hc p hp').2.2⟩)

open Logrange.Reorder in
/-- **reordered_notifications_window_complete** — once every stored record has been announced (`hcov`), in whatever
order: every window over the resulting entry contains every in-range position (`n ≤ 2^32 − 1`). With
`tree_window_eq_points_window` (through the `RefChk` of `reordered_notifications_sound`) this is the window the pipeline
computes on the tree. -/
theorem reordered_notifications_window_complete {tsOf : Nat → Int} {n : Nat} (hm : Monotone tsOf n) (hn : n ≤ 4294967295)
    (ds : List Note) (hne : ds ≠ []) (hok : ∀ b ∈ ds, NoteOk tsOf n b) (hp : ds.Pairwise Disj)
    (hcov : ∀ q, q < n → ∃ b ∈ ds, b.f ≤ q ∧ q ≤ b.l) (r : TmRange) (p : Nat) (hpn : p < n) (hr : inRange r (tsOf p)) :
    ∃ h, (deliver CIndex.sparseSpace CIndex.bigGap ds).hull = some h ∧
      inWindow (window h (ChunkHist.idxOf (deliver CIndex.sparseSpace CIndex.bigGap ds)) r) p := by
  obtain ⟨_, ds', _, _, _, h4, h5, h6⟩ := reordered_notifications_sound hm (by omega) [] 1 (by simp) ds hne hok hp
  obtain ⟨b0, hb0, _⟩ := hcov p hpn
  obtain ⟨h, hh, _, _⟩ := h5.hullCov b0 ((h4 b0).mpr hb0)
  refine ⟨h, hh, ?_⟩
  apply RebuildHist.window_complete_of_lookup h _ r ?_ ?_ hn (h5.hullLow h hh) p hpn hr
  · intro q hq
    obtain ⟨b, hb, q1, q2⟩ := hcov q hq
    obtain ⟨h', hh', c1, c2⟩ := h5.hullCov b ((h4 b).mpr hb)
    rw [hh] at hh'
    simp only [Option.some.injEq] at hh'
    subst hh'
    obtain ⟨hfl, hln, hmx, hmn, _⟩ := hok b hb
    have a1 := hm b.f q q1 hq
    have a2 := hm q b.l q2 hln
    rcases hmn with e | ⟨e1, e2⟩
    · constructor <;> omega
    · have := hm 0 q (Nat.zero_le _) hq
      constructor <;> omega
  · intro pts hpts
    unfold ChunkHist.idxOf at hpts
    by_cases hc : (deliver CIndex.sparseSpace CIndex.bigGap ds).corrupted = true
    · simp [hc] at hpts
    · have hc' : (deliver CIndex.sparseSpace CIndex.bigGap ds).corrupted = false := by simpa using hc
      simp [hc'] at hpts
      subst hpts
      exact h6 hc'

/-- four batches of 300 records (ts = 1000 + position) of one chunk announced in the order A, D, B, C — B and C late -/
def reorderNotes : List Reorder.Note := [⟨0, 299, 1000, 1299⟩, ⟨900, 1199, 1900, 2199⟩, ⟨300, 599, 1300, 1599⟩, ⟨600, 899, 1600, 1899⟩]

example : (deliverC 1 {} reorderNotes).chunks.map (fun c => (c.id, c.minTs, c.maxTs, c.recs, c.lastRec)) = [(1, 1000, 2199, 1200, 1199)] ∧
    (deliverC 1 {} reorderNotes).chunks.map (fun c => c.root.map ITree.points) = [some [⟨1000, 0⟩, ⟨1299, 299⟩, ⟨2199, 1199⟩]] ∧
    (Reorder.deliver CIndex.sparseSpace CIndex.bigGap reorderNotes).pts = [⟨1000, 0⟩, ⟨1299, 299⟩, ⟨2199, 1199⟩] := by
  refine ⟨by decide, by decide, by decide⟩

/-- **cex_late_notification_after_rebuild** (open finding F-C02-901): the repair f6d29cf recognises a late notification
by `lastRec <= last.lastRec` guarded with `last.lastRec > 0` — but `rebuildIndex` resets `lastRec` to 0. Batches A
(0…299), B (300…599), C (600…899), ts = 1000 + position, all stored; A and C announced; the chunk's index is rebuilt from
the 900 confirmed records; THEN B's notification arrives: it is not recognised as late, `addInterval` merges it into the
rebuilt tree, the last point becomes (1899, 599) — C's maximum at B's last position — and, `Recs` being 900 already, the
window of `RANGE [1600:1610]` ends at position 599: the in-range records 600…610 are hidden at once. Monotone data.
Stated for both shapes of the code (regenerated fact `onWriteLateByRecs`; false on the current tree): with the proposed
repair the late notification leaves the rebuilt tree alone and the same look-up answers 750. -/
theorem cex_late_notification_after_rebuild :
    let w (s : CIndex.St) (a b : Nat) : CIndex.St := (CIndex.onWrite s a b 1 (1000 + a) (1000 + b)).1
    let s2 := CIndex.rebuild (w (w {} 0 299) 600 899) 1 ((List.range 900).map (fun (q : Nat) => (1000 : Int) + q))
    CIndex.points s2 1 = "1000:0,1000:0,1249:250,1499:500,1749:750,1899:900" ∧
    CIndex.points (w s2 300 599) 1 =
      (if Generated.C02.onWriteLateByRecs then "1000:0,1000:0,1249:250,1499:500,1749:750,1899:900" else "1000:0,1000:0,1249:250,1899:599") ∧
    (CIndex.findChk (w s2 300 599) 1).map (fun c => (c.recs, c.lastRec)) = some (900, if Generated.C02.onWriteLateByRecs then 0 else 599) ∧
    CIndex.lessAns (w s2 300 599) 1 1610 = .ok (if Generated.C02.onWriteLateByRecs then 750 else 599) := by
  decide +kernel


/-! ## paging from a position inside a window, backward entry -/

/-- **scan_from_mid_window**: a cursor that starts at `(chunk k, index pIdx)` — what a page boundary leaves: the new cursor's
`getPosForward` enters the chunk at `pIdx`, `checkPosOrAdvance` corrects it to the window — delivers the positions of that
chunk's window at or behind `pIdx`, then the windows of the chunks that follow. -/
theorem scan_from_mid_window (st : Selector.ChkSt) (rest : List Selector.ChkSt) (pIdx fuel k : Nat) (hf : rest.length + 2 ≤ fuel) :
    PartScan.scan fuel (st :: rest) pIdx k =
      ((PartScan.windowPositions st).filter (fun p => decide (pIdx ≤ p))).map (fun p => (k, p)) ++
        PartScan.journalPositions rest (k + 1) :=
  PartScan.scan_mid_eq st rest pIdx fuel k hf

/-- **resume_read_eq_filter**: with complete windows (`chunk_window_sound` / `allComplete_of_partInv`) a ranged read resumed
at `(k, pIdx)` delivers exactly the in-range records at or behind that position: nothing is lost or repeated at a page
boundary, wherever in a window it falls. -/
theorem resume_read_eq_filter (ts : Nat → Nat → Int) (c : PartScan.ChunkMeta) (rest : List PartScan.ChunkMeta) (r : TmRange)
    (pIdx k : Nat) (hall : PartScan.AllComplete ts (c :: rest) k) :
    (PartScan.scan (rest.length + 2) ((c :: rest).map (PartScan.statusOf r)) pIdx k).filter
        (fun kp => RangedIter.fitInRange r.minTs r.maxTs (ts kp.1 kp.2)) =
      (PartScan.fullFrom (c :: rest) pIdx k).filter (fun kp => decide (inRange r (ts kp.1 kp.2))) :=
  PartScan.resume_read_eq_filter ts c rest r pIdx k hall

example : PartScan.scan 5 [⟨2, 7, 10⟩, ⟨0, 4294967295, 3⟩] 5 0 = [(0, 5), (0, 6), (0, 7), (1, 0), (1, 1), (1, 2)] ∧
    PartScan.scan 5 [⟨2, 7, 10⟩, ⟨0, 4294967295, 3⟩] 9 0 = [(1, 0), (1, 1), (1, 2)] := by decide

/-- **backward_entry_covers**: a backward reader (`getPosBackward` → `checkPosOrReduce`) enters a chunk whose window
contains the position `q` at `min pIdx (min maxPos (count − 1))`: accepted, inside the window and — when it comes from a
later chunk (`pIdx` = MaxUint32) or from a position at or behind `q` — at or behind `q`. With `chunk_window_sound` (every
in-range record's position is inside the window) no in-range record lies behind the backward entry point: the upper side
(`less`) of the window is as sound for backward reading as the lower side (`grEq`) is for forward reading. -/
theorem backward_entry_covers (st : Selector.ChkSt) (pIdx q : Nat) (h1 : st.minPos ≤ q) (h2 : q ≤ st.maxPos)
    (h3 : q < st.count) (hc : st.count ≤ 4294967296) :
    Selector.checkReduce st pIdx = (min pIdx (min st.maxPos (st.count - 1)),
        decide (st.minPos ≤ min pIdx (min st.maxPos (st.count - 1)))) ∧
      (q ≤ pIdx → (Selector.checkReduce st pIdx).2 = true ∧ q ≤ (Selector.checkReduce st pIdx).1 ∧
        (Selector.checkReduce st pIdx).1 ≤ st.maxPos) :=
  PartScan.checkReduce_covers st pIdx q h1 h2 h3 hc

example : Selector.checkReduce ⟨2, 7, 10⟩ 4294967295 = (7, true) ∧ Selector.checkReduce ⟨2, 4294967295, 10⟩ 4294967295 = (9, true) := by decide


/-- **late_notification_after_rebuild_is_skipped** (fix 817f0cf, was finding F-C02-901): one-sided obligation on the regenerated
facts — `onWrite` decides "late" by `Recs` as it was before the notification, `rebuildIndex` raises `Recs` to what it scanned — and
the former counterexample on the repaired branch: B's notification after the rebuild leaves the rebuilt tree alone and the
look-up for 1610 answers 750. (Since 3e8b3c3 `Service.Write` also serialises the writers of a partition, so the reordering is
no longer reachable through it; the index-level statement stands on its own.) -/
theorem late_notification_after_rebuild_is_skipped :
    Generated.C02.onWriteLateByRecs = true ∧ Generated.C02.rebuildRaisesRecs = true ∧
    (let w (s : CIndex.St) (a b : Nat) : CIndex.St := (CIndex.onWrite s a b 1 (1000 + a) (1000 + b)).1
     let s2 := CIndex.rebuild (w (w {} 0 299) 600 899) 1 ((List.range 900).map (fun (q : Nat) => (1000 : Int) + q))
     CIndex.points (w s2 300 599) 1 = "1000:0,1000:0,1249:250,1499:500,1749:750,1899:900" ∧
     CIndex.lessAns (w s2 300 599) 1 1610 = .ok 750) := by
  refine ⟨by decide, by decide, by decide +kernel⟩


/-! ## lightFill scans every record (fix 3cb83a3, was the second half of finding #4) -/

/-- a journal of one chunk the index does not know, holding 1005, 1100, 1001, 1007 (the crash-image witness of the former
finding: first/last record give [1005, 1007]) -/
def unknownChunkSt : RangedIter.St := { cks := #[⟨10, 4⟩], tss := #[#[1005, 1100, 1001, 1007]], cidx := {} }

/-- **lightFill_hull_covers_all_records** (fix 3cb83a3): obligation on the regenerated fact — `lightFill` reads EVERY record of a
chunk the index does not know —, the hull it derives contains every record whatever their order (minimum / maximum fold),
and the former witness on the repaired branch: the chunk 1005, 1100, 1001, 1007 gets the hull [1001, 1100] with `Recs = 4`, so
`RANGE [1100:1100]` no longer excludes it. With this, every way a chunk's hull comes about (`onWrite`: merge of exact batch
hulls; `rebuildIndex`: scan; `lightFill`: scan) is exact or over-wide on ANY data: a loss behind a too narrow hull is never the
open finding #4 (driver field `hullbad`). -/
theorem lightFill_hull_covers_all_records :
    Generated.C02.lightFillScansAllRecords = true ∧
    (∀ (a : Int) (l : List Int), ∀ x ∈ a :: l, (a :: l).foldl min a ≤ x ∧ x ≤ (a :: l).foldl max a) ∧
    (RangedIter.syncChunks unknownChunkSt).cidx.chunks.map (fun c => (c.id, c.minTs, c.maxTs, c.recs)) = [(1, 1001, 1100, 4)] := by
  refine ⟨by decide, ?_, by decide⟩
  intro a l x hx
  exact ⟨(PipeHist.foldl_min_le (a :: l) a).2 x hx, (PipeHist.le_foldl_max (a :: l) a).2 x hx⟩

end Logrange.Props.C02Pipe
