import Logrange.Props.C07
import Logrange.Proofs.PersistInv
/-!
# C07 — consistency of memory and disk is an invariant; restart and crash theorems over every reachable state

`Props/C07.lean` proves the restart theorems for every state that is consistent with its disk (`WF`, a hypothesis). Here the
consistency (`Persist.Inv` = `WF` + "the registry file decodes to the pipe definitions" + "no pipe is called `s`") is
**proved** of the first start (`wf_init`) and preserved by every event of `Model/PersistReach.lean` (`wf_step`): the
operations of a running server under the guards the code has, graceful restart, a crash between two operations, a crash at
any cut inside the file-system steps of a metadata update or of the shutdown saves — each followed by a start, which is
never refused (`start_never_refused`). The restart and crash theorems are then restated over `reach evs`, every state a
history can lead to, with no consistency hypothesis. The only exclusion is finding F33's class, which by
`collision_iff_named_s` is exactly "a pipe event uses the name `s`" (`Ev.ok`; `cex_reachable_pipe_s`).

File-system assumptions (the sequential crash model of `PersistFS`): steps take effect in program order; a rename is atomic
and durable once it returned; a write may be cut at any byte prefix. Not covered: a rename that is lost or overtaken by
later operations after a power failure (none of the three savers calls `fsync`; see `design-notes/C07.md`).
-/
namespace Logrange.Props.C07Reach
open Logrange.Persist Logrange.Generated.C07 Logrange.Props.C07

variable {K : Codecs} {parseOk : TagLine → Bool} {s : Srv}

/-- the invariant contains the hypothesis `WF` of `restart_graceful_partial` -/
theorem wf_of_inv (h : Inv K parseOk s) : WF K parseOk s ∧ nameCollision s.mem.pipes = false := by
  refine ⟨⟨h.tdat, h.parse, h.jrn, h.pos⟩, ?_⟩
  apply List.any_eq_false.mpr
  intro p hp
  have h1 := pipeInfoPath_ne_dat (h.noS p hp)
  have h2 := pipeInfoPath_ne_tmp p.cfg.name
  simp [h1, h2]

/-- **WF init**: the first start on an empty base directory is not refused and gives a consistent server with no
partitions and no pipes -/
theorem wf_init (K : Codecs) (parseOk : TagLine → Bool) :
    recover K parseOk Disk.fresh = .started (initSrv K parseOk) ∧ Inv K parseOk (initSrv K parseOk) ∧
    (initSrv K parseOk).mem = Mem.empty ∧ (initSrv K parseOk).disk.db = [] := init_spec

theorem diskAt_nil (f : Files) (c : Cut) : diskAt f [] c = f := by simp [diskAt, runSteps]

/-- **A crash inside a metadata update**: the process is killed at any cut of the file-system steps of an operation
(after any step, inside any write at any byte prefix; the journals as before the operation). The start on that disk is
not refused; the started server has the tag index from before or after the operation and the pipe definitions from
before or after the operation, and is consistent with its disk again. -/
theorem crash_in_update (hK : K.Laws) (h : Inv K parseOk s) (o : Op) (c : Cut)
    (hen : enabled parseOk s o = true) (hok : o.pipeName ≠ some pipeNameS) :
    ∃ m ps, (m = s.mem.tmap ∨ m = (step K s o).mem.tmap) ∧
      (ps = s.mem.pipes.map (·.cfg) ∨ ps = (step K s o).mem.pipes.map (·.cfg)) ∧
      recover K parseOk { s.disk with files := diskAt s.disk.files (opSteps K s o) c }
        = .started (recovered K { s.disk with files := diskAt s.disk.files (opSteps K s o) c } m ps) ∧
      Inv K parseOk (recovered K { s.disk with files := diskAt s.disk.files (opSteps K s o) c } m ps) := by
  have hnew : Inv K parseOk (step K s o) := by
    have := inv_gstep (parseOk := parseOk) hK h o hok
    simpa [gstep, hen] using this
  have hsOld : ∀ p ∈ s.mem.pipes.map (·.cfg), p.name ≠ pipeNameS := by
    intro p hp; obtain ⟨q, hq, rfl⟩ := List.mem_map.mp hp; exact h.noS q hq
  have hsNew : ∀ p ∈ (step K s o).mem.pipes.map (·.cfg), p.name ≠ pipeNameS := by
    intro p hp; obtain ⟨q, hq, rfl⟩ := List.mem_map.mp hp; exact hnew.noS q hq
  -- the journals on disk (as before the operation) are covered by the new tag index as well
  have hjn : (journalsOnDisk s.disk.db).all (tmapHasSrc (step K s o).mem.tmap) = true := by
    cases o with
    | newPartition tags src =>
      apply List.all_eq_true.mpr
      intro j hj
      exact tmapHasSrc_append _ _ _ (List.all_eq_true.mp h.jrn j hj)
    | dropPartition src =>
      apply List.all_eq_true.mpr
      intro j hj
      have hne : j ≠ src := by
        intro e; subst e
        have hf : deleteJournalRefusesNonEmpty = true := by decide
        have hc : ¬ j ∈ journalsOnDisk s.disk.db := by simpa [enabled, hf] using hen
        exact hc hj
      have := List.all_eq_true.mp h.jrn j hj
      simp only [step, tmapHasSrc, List.any_eq_true, List.mem_filter] at this ⊢
      obtain ⟨x, hx, hxe⟩ := this
      refine ⟨x, ⟨hx, ?_⟩, hxe⟩
      have h1 : x.2 = j := by simpa using hxe
      rw [h1]; simpa using hne
    | write src pieces =>
      have : (step K s (.write src pieces)).mem.tmap = s.mem.tmap := by
        simp only [step]
      rw [this]; exact h.jrn
    | dropChunks src n => exact h.jrn
    | createPipe p => exact h.jrn
    | deletePipe n => exact h.jrn
    | savePipeInfo n pm => exact h.jrn
  -- `tindex.dat` at the cut: the complete old or the complete new content
  have hd : diskAt s.disk.files (opSteps K s o) c .tindexDat = some (K.tidx.enc s.mem.tmap) ∨
      diskAt s.disk.files (opSteps K s o) c .tindexDat = some (K.tidx.enc (step K s o).mem.tmap) := by
    cases o with
    | newPartition tags src => exact dat_at_cut K s.disk.files s.mem.tmap _ c h.tdat
    | dropPartition src => exact dat_at_cut K s.disk.files s.mem.tmap _ c h.tdat
    | write src pieces => left; simp only [opSteps, diskAt_nil]; exact h.tdat
    | dropChunks src n => left; simp only [opSteps, diskAt_nil]; exact h.tdat
    | createPipe p =>
      left
      rw [diskAt_frame]; exact h.tdat
      have hf : pipeDefsSavedOnCreate = true := by decide
      simp only [opSteps, hf, if_true]
      exact savePipesSteps_touch _ _ _ (by simp [pipesDat]) (by simp [pipesTmp])
    | deletePipe n =>
      left
      rw [diskAt_frame]; exact h.tdat
      have hf : pipeDefsSavedOnDelete = true := by decide
      have hf2 : deletePipeRemovesPositionsBeforeSave = true := by decide
      simp only [opSteps, hf, hf2, if_true]
      intro st hst
      rcases List.mem_cons.mp hst with h1 | h1
      · subst h1; simp [Step.touches, pipeInfoPath]
      · exact savePipesSteps_touch _ _ _ (by simp [pipesDat]) (by simp [pipesTmp]) st h1
    | savePipeInfo n pm =>
      left
      rw [diskAt_frame]; exact h.tdat
      intro st hst
      simp only [opSteps, savePipeInfoSteps, writeFile, List.mem_cons, List.mem_nil_iff, or_false] at hst
      rcases hst with h1 | h1 <;> subst h1 <;> simp [Step.touches, pipeInfoPath]
  -- the registry at the cut: the old or the complete new list
  have hr : loadPipes K.pipes (diskAt s.disk.files (opSteps K s o) c) = some (s.mem.pipes.map (·.cfg)) ∨
      loadPipes K.pipes (diskAt s.disk.files (opSteps K s o) c) = some ((step K s o).mem.pipes.map (·.cfg)) := by
    cases o with
    | newPartition tags src =>
      left
      exact (loadPipes_congr _ _ s.disk.files (diskAt_frame _ _ _ _ (tindexSaveSteps_touch _ _ _ _ pipesDat_not_tindex))).trans h.reg
    | dropPartition src =>
      left
      exact (loadPipes_congr _ _ s.disk.files (diskAt_frame _ _ _ _ (tindexSaveSteps_touch _ _ _ _ pipesDat_not_tindex))).trans h.reg
    | write src pieces => left; simp only [opSteps, diskAt_nil]; exact h.reg
    | dropChunks src n => left; simp only [opSteps, diskAt_nil]; exact h.reg
    | createPipe p =>
      have hf : pipeDefsSavedOnCreate = true := by decide
      have := loadPipes_at_cut K hK s.disk.files ((s.mem.pipes ++ [(⟨p, loadPipeInfo K.pinfo s.disk.files p.name⟩ : PPipe)]).map (·.cfg)) [] (by simp) c
      simp only [List.append_nil, h.reg] at this
      simp only [opSteps, hf, if_true]
      exact this
    | deletePipe n =>
      have hf : pipeDefsSavedOnDelete = true := by decide
      have hn : n ≠ pipeNameS := by simpa [Op.pipeName] using hok
      have hf2 : deletePipeRemovesPositionsBeforeSave = true := by decide
      have := loadPipes_at_cut_pre K hK s.disk.files ((s.mem.pipes.filter (fun p => !(p.cfg.name == n))).map (·.cfg))
        [Step.remove (pipeInfoPath n)] [] (by
          intro st hst; simp only [List.mem_singleton] at hst; subst hst
          simpa [Step.touches] using (Ne.symm (pipeInfoPath_ne_dat hn))) (by simp) c
      simp only [h.reg, List.append_nil, List.singleton_append] at this
      simp only [opSteps, hf, hf2, if_true]
      exact this
    | savePipeInfo n pm =>
      left
      have hn : n ≠ pipeNameS := by simpa [Op.pipeName] using hok
      rw [loadPipes_congr _ _ s.disk.files (diskAt_frame _ _ _ _ (by
        intro st hst
        simp only [opSteps, savePipeInfoSteps, writeFile, List.mem_cons, List.mem_nil_iff, or_false] at hst
        rcases hst with h1 | h1 <;> subst h1 <;> simpa [Step.touches] using (Ne.symm (pipeInfoPath_ne_dat hn))))]
      have : (step K s (.savePipeInfo n pm)).mem.pipes.map (·.cfg) = s.mem.pipes.map (·.cfg) := setPoss_cfg _ _ _
      exact h.reg
  rcases hd with hd | hd <;> rcases hr with hr | hr
  · exact ⟨_, _, Or.inl rfl, Or.inl rfl, start_spec K hK parseOk _ _ _ hd h.parse h.jrn hr hsOld⟩
  · exact ⟨_, _, Or.inl rfl, Or.inr rfl, start_spec K hK parseOk _ _ _ hd h.parse h.jrn hr hsNew⟩
  · exact ⟨_, _, Or.inr rfl, Or.inl rfl, start_spec K hK parseOk _ _ _ hd hnew.parse hjn hr hsOld⟩
  · exact ⟨_, _, Or.inr rfl, Or.inr rfl, start_spec K hK parseOk _ _ _ hd hnew.parse hjn hr hsNew⟩

/-- why `deleteJournal` must refuse a journal with records (`deleteJournalRefusesNonEmpty`, the guard of `Op.dropPartition`): were
the record of a journal that holds data dropped, a crash between the tag-index save and the removal of the directory would
leave a journal without a record, and the start is refused. -/
theorem cex_drop_nonempty_partition_crash (hK : K.Laws) (h : Inv K parseOk s) (src : Src) (hne : src ∈ journalsOnDisk s.disk.db) :
    deleteJournalRefusesNonEmpty = true ∧ enabled parseOk s (.dropPartition src) = false ∧
    recover K parseOk { s.disk with files := (step K s (.dropPartition src)).disk.files } = .refusedTIndex := by
  have hf : deleteJournalRefusesNonEmpty = true := by decide
  refine ⟨hf, by simp [enabled, hf, hne], ?_⟩
  have ht : (step K s (.dropPartition src)).disk.files .tindexDat
      = some (K.tidx.enc (s.mem.tmap.filter (fun e => !(e.2 == src)))) := tindexSave_dat K _ _
  have hp : (s.mem.tmap.filter (fun e => !(e.2 == src))).all (fun e => parseOk e.1) = true := by
    apply List.all_eq_true.mpr
    intro e he
    exact List.all_eq_true.mp h.parse e (List.mem_filter.mp he).1
  have hj : (journalsOnDisk s.disk.db).all (tmapHasSrc (s.mem.tmap.filter (fun e => !(e.2 == src)))) = false := by
    apply List.all_eq_false.mpr
    refine ⟨src, hne, ?_⟩
    simp [tmapHasSrc]
  simp [recover, checkConsistency, loadState, ht, hK.tidx.rt, hp, hj]

/-- **A crash inside the saves of a graceful shutdown** (registry through its temp file, then the time-index snapshot in
place): the start is not refused and the started server has the tag index, the pipe definitions and the pipe positions
of the stopped one (the snapshot may be the old one, torn — then empty — or the new one). -/
theorem crash_in_stop (hK : K.Laws) (h : Inv K parseOk s) (c : Cut) :
    recover K parseOk { s.disk with files := diskAt s.disk.files (shutdownSteps K s.mem) c }
      = .started (recovered K { s.disk with files := diskAt s.disk.files (shutdownSteps K s.mem) c } s.mem.tmap (s.mem.pipes.map (·.cfg))) ∧
    Inv K parseOk (recovered K { s.disk with files := diskAt s.disk.files (shutdownSteps K s.mem) c } s.mem.tmap (s.mem.pipes.map (·.cfg))) ∧
    (recovered K { s.disk with files := diskAt s.disk.files (shutdownSteps K s.mem) c } s.mem.tmap (s.mem.pipes.map (·.cfg))).mem.pipes
      = s.mem.pipes := by
  have hsOld : ∀ p ∈ s.mem.pipes.map (·.cfg), p.name ≠ pipeNameS := by
    intro p hp; obtain ⟨q, hq, rfl⟩ := List.mem_map.mp hp; exact h.noS q hq
  have htouch : ∀ q, q ≠ pipesDat → q ≠ pipesTmp → q ≠ .cindexDat → ∀ st ∈ shutdownSteps K s.mem, ¬ st.touches q := by
    intro q h1 h2 h3 st hst
    rcases List.mem_append.mp hst with h' | h'
    · exact savePipesSteps_touch _ _ _ h1 h2 st h'
    · simp only [cindexSaveSteps, writeFile, List.mem_cons, List.mem_nil_iff, or_false] at h'
      rcases h' with e | e <;> subst e <;> simpa [Step.touches] using h3
  have hd : diskAt s.disk.files (shutdownSteps K s.mem) c .tindexDat = some (K.tidx.enc s.mem.tmap) := by
    rw [diskAt_frame _ _ _ _ (htouch _ (by simp [pipesDat]) (by simp [pipesTmp]) (by simp))]; exact h.tdat
  have hr : loadPipes K.pipes (diskAt s.disk.files (shutdownSteps K s.mem) c) = some (s.mem.pipes.map (·.cfg)) := by
    have := loadPipes_at_cut K hK s.disk.files (s.mem.pipes.map (·.cfg)) (cindexSaveSteps K.cidx s.mem.cidx) (by
      intro st hst
      simp only [cindexSaveSteps, writeFile, List.mem_cons, List.mem_nil_iff, or_false] at hst
      rcases hst with e | e <;> subst e <;> simp [Step.touches, pipesDat]) c
    simp only [h.reg, or_self] at this
    exact this
  have hst := start_spec K hK parseOk { s.disk with files := diskAt s.disk.files (shutdownSteps K s.mem) c } _ _ hd h.parse h.jrn hr hsOld
  refine ⟨hst.1, hst.2, ?_⟩
  apply map_cfg_poss
  intro p hp
  rw [← h.pos p hp]
  apply loadPipeInfo_congr'
  exact diskAt_frame _ _ _ _ (htouch _ (pipeInfoPath_ne_dat (h.noS p hp)) (pipeInfoPath_ne_tmp _) (by simp [pipeInfoPath]))

/-- **No start of a reachable history is refused**: whatever event ends a process (graceful stop, kill between two
operations, kill inside a metadata update or inside the shutdown saves, at any cut), the start on the disk it leaves
succeeds, and the started server is consistent with its disk. -/
theorem start_never_refused (hK : K.Laws) (h : Inv K parseOk s) (ev : Ev) (hok : ev.ok = true) (d : Disk)
    (hd : startDisk K parseOk s ev = some d) :
    ∃ s', recover K parseOk d = .started s' ∧ stepEv K parseOk s ev = s' ∧ Inv K parseOk s' := by
  cases ev with
  | op o => simp [startDisk] at hd
  | ensurePipe p => simp [startDisk] at hd
  | restart =>
    have e : d = (shutdown K s).disk := by simpa [startDisk] using hd.symm
    subst e
    have hr := restart_spec (parseOk := parseOk) hK h
    exact ⟨_, hr.1, by simp only [stepEv, startDisk, afterStart, hr.1], hr.2.2.2⟩
  | crash =>
    have e : d = s.disk := by simpa [startDisk] using hd.symm
    subst e
    have hr := crash_spec (parseOk := parseOk) hK h
    exact ⟨_, hr.1, by simp only [stepEv, startDisk, afterStart, hr.1], hr.2.2.2⟩
  | crashIn o c =>
    by_cases hen : enabled parseOk s o = true
    · have e : d = { s.disk with files := diskAt s.disk.files (opSteps K s o) c } := by simpa [startDisk, hen] using hd.symm
      subst e
      obtain ⟨m, ps, _, _, hr, hi⟩ := crash_in_update hK h o c hen (by simpa [Ev.ok] using hok)
      exact ⟨_, hr, by simp only [stepEv, startDisk, hen, if_true, afterStart, hr], hi⟩
    · have e : d = s.disk := by simpa [startDisk, hen] using hd.symm
      subst e
      have hr := crash_spec (parseOk := parseOk) hK h
      exact ⟨_, hr.1, by simp [stepEv, startDisk, hen, afterStart, hr.1], hr.2.2.2⟩
  | crashInStop c =>
    have e : d = { s.disk with files := diskAt s.disk.files (shutdownSteps K s.mem) c } := by simpa [startDisk] using hd.symm
    subst e
    have hr := crash_in_stop (parseOk := parseOk) hK h c
    exact ⟨_, hr.1, by simp only [stepEv, startDisk, afterStart, hr.1], hr.2.1⟩

/-- **WF s → WF (step s ev)**: consistency of memory and disk is preserved by every event — every operation of a running
server under the guard the code has, a graceful restart, a crash between or inside operations followed by a start.
`Ev.ok` excludes pipe events with the name `s` (finding F33, `cex_reachable_pipe_s`). -/
theorem wf_step (hK : K.Laws) (h : Inv K parseOk s) (ev : Ev) (hok : ev.ok = true) : Inv K parseOk (stepEv K parseOk s ev) := by
  cases hd : startDisk K parseOk s ev with
  | some d =>
    obtain ⟨s', _, he, hi⟩ := start_never_refused hK h ev hok d hd
    rw [he]; exact hi
  | none =>
    cases ev with
    | op o => exact inv_gstep hK h o (by simpa [Ev.ok] using hok)
    | ensurePipe p =>
      simp only [stepEv]
      split
      · exact h
      · exact inv_gstep hK h (.createPipe p) (by simpa [Ev.ok, Op.pipeName] using hok)
    | restart => simp [startDisk] at hd
    | crash => simp [startDisk] at hd
    | crashIn o c => simp only [startDisk] at hd; split at hd <;> cases hd
    | crashInStop c => simp [startDisk] at hd

theorem wf_run (hK : K.Laws) : ∀ (evs : List Ev) (s : Srv), Inv K parseOk s → evs.all Ev.ok = true →
    Inv K parseOk (runEv K parseOk s evs)
  | [], _, h, _ => h
  | ev :: evs, s, h, hok => by
    simp only [List.all_cons, Bool.and_eq_true] at hok
    exact wf_run hK evs _ (wf_step hK h ev hok.1) hok.2

/-- **Every reachable state is consistent with its disk**: after any history of events from the first start on an empty
directory (no pipe called `s`) -/
theorem wf_reachable (hK : K.Laws) (parseOk : TagLine → Bool) (evs : List Ev) (hok : evs.all Ev.ok = true) :
    Inv K parseOk (reach K parseOk evs) :=
  wf_run hK evs _ (wf_init K parseOk).2.1 hok

/-! ## the restart and crash theorems, over every reachable state — no `WF` hypothesis -/

/-- **After any history, shutdown then start gives the same observable state**: tag index, chunk hulls and roots, pipe
definitions and positions, journals. -/
theorem restart_graceful_reachable (hK : K.Laws) (parseOk : TagLine → Bool) (evs : List Ev) (hok : evs.all Ev.ok = true) :
    ∃ s', recover K parseOk (shutdown K (reach K parseOk evs)).disk = .started s' ∧
      s'.mem = (reach K parseOk evs).mem ∧ s'.disk.db = (reach K parseOk evs).disk.db := by
  have hr := restart_spec (parseOk := parseOk) hK (wf_reachable hK parseOk evs hok)
  exact ⟨_, hr.1, hr.2.1, hr.2.2.1⟩

/-- … and every RANGE query sees the same hulls -/
theorem hulls_survive_graceful_reachable (hK : K.Laws) (parseOk : TagLine → Bool) (evs : List Ev) (hok : evs.all Ev.ok = true) :
    ∃ s', recover K parseOk (shutdown K (reach K parseOk evs)).disk = .started s' ∧
      ∀ src lo hi, rangeVisible (hullView s'.mem.cidx src ((alookup s'.disk.db src).getD [])) ((alookup s'.disk.db src).getD []) lo hi
        = rangeVisible (hullView (reach K parseOk evs).mem.cidx src ((alookup (reach K parseOk evs).disk.db src).getD []))
            ((alookup (reach K parseOk evs).disk.db src).getD []) lo hi := by
  obtain ⟨s', h1, h2, h3⟩ := restart_graceful_reachable hK parseOk evs hok
  exact ⟨s', h1, by intro src lo hi; rw [h2, h3]⟩

/-- **After any history, a crash between two operations then a start**: not refused; tag index, pipe definitions, pipe
positions and journals are those of the killed server; the time index is the snapshot the disk holds (of the last graceful
stop; what a RANGE query makes of a stale one: `no_event_hidden_after_recovery_from_stale_snapshot`). -/
theorem crash_recover_reachable (hK : K.Laws) (parseOk : TagLine → Bool) (evs : List Ev) (hok : evs.all Ev.ok = true) :
    ∃ s', recover K parseOk (reach K parseOk evs).disk = .started s' ∧
      s'.mem.tmap = (reach K parseOk evs).mem.tmap ∧ s'.mem.pipes = (reach K parseOk evs).mem.pipes ∧
      s'.mem.cidx = cindexLoad K.cidx (reach K parseOk evs).disk.files ∧ s'.disk.db = (reach K parseOk evs).disk.db := by
  have hr := crash_spec (parseOk := parseOk) hK (wf_reachable hK parseOk evs hok)
  refine ⟨_, hr.1, ?_, ?_, ?_, hr.2.2.1⟩ <;> rw [hr.2.1]

/-- **After any history cut at any crash point of a metadata update, the start succeeds** with the tag index from before
or after the update and the pipe definitions from before or after the update; the journals are untouched. -/
theorem crash_in_update_reachable (hK : K.Laws) (parseOk : TagLine → Bool) (evs : List Ev) (hok : evs.all Ev.ok = true)
    (o : Op) (c : Cut) (hen : enabled parseOk (reach K parseOk evs) o = true) (hno : o.pipeName ≠ some pipeNameS) :
    ∃ s', recover K parseOk { (reach K parseOk evs).disk with files := diskAt (reach K parseOk evs).disk.files (opSteps K (reach K parseOk evs) o) c }
        = .started s' ∧
      (s'.mem.tmap = (reach K parseOk evs).mem.tmap ∨ s'.mem.tmap = (step K (reach K parseOk evs) o).mem.tmap) ∧
      (s'.mem.pipes.map (·.cfg) = (reach K parseOk evs).mem.pipes.map (·.cfg) ∨
        s'.mem.pipes.map (·.cfg) = (step K (reach K parseOk evs) o).mem.pipes.map (·.cfg)) ∧
      s'.disk.db = (reach K parseOk evs).disk.db := by
  obtain ⟨m, ps, hm, hps, hr, _⟩ := crash_in_update hK (wf_reachable hK parseOk evs hok) o c hen hno
  refine ⟨_, hr, hm, ?_, rfl⟩
  have : (recovered K { (reach K parseOk evs).disk with files := diskAt (reach K parseOk evs).disk.files (opSteps K (reach K parseOk evs) o) c } m ps).mem.pipes.map (·.cfg) = ps := by
    simp [recovered, List.map_map, Function.comp_def]
  rw [this]; exact hps

/-- **After any history cut at any crash point of the shutdown saves, the start succeeds** with the same tag index, pipe
definitions and pipe positions. -/
theorem crash_in_stop_reachable (hK : K.Laws) (parseOk : TagLine → Bool) (evs : List Ev) (hok : evs.all Ev.ok = true) (c : Cut) :
    ∃ s', recover K parseOk { (reach K parseOk evs).disk with files := diskAt (reach K parseOk evs).disk.files (shutdownSteps K (reach K parseOk evs).mem) c }
        = .started s' ∧
      s'.mem.tmap = (reach K parseOk evs).mem.tmap ∧ s'.mem.pipes = (reach K parseOk evs).mem.pipes ∧
      s'.disk.db = (reach K parseOk evs).disk.db := by
  have hr := crash_in_stop (parseOk := parseOk) hK (wf_reachable hK parseOk evs hok) c
  exact ⟨_, hr.1, rfl, hr.2.2, rfl⟩

/-- **Graceful restart including the last acknowledged write, after any history**: records of an acknowledged write to a
known partition that are still in a chunk writer's buffer at the stop are in the restarted server's journal. -/
theorem restart_graceful_with_pending_reachable (hK : K.Laws) (parseOk : TagLine → Bool) (evs : List Ev)
    (hok : evs.all Ev.ok = true) (src : Src) (pending : List (Nat × List Int))
    (hsrc : tmapHasSrc (reach K parseOk evs).mem.tmap src = true) :
    ∃ s', recover K parseOk (shutdown K { (reach K parseOk evs) with
          disk := { (reach K parseOk evs).disk with db := shutdownDb (reach K parseOk evs).disk.db src pending } }).disk = .started s' ∧
      s'.mem = (reach K parseOk evs).mem ∧ s'.disk.db = flushPending (reach K parseOk evs).disk.db src pending := by
  have h := wf_reachable hK parseOk evs hok
  have he := (acked_events_survive_graceful_stop (reach K parseOk evs).disk.db src pending).2.1
  rw [he]
  have h' := inv_of_db h (reach K parseOk evs).mem.cidx (flushPending (reach K parseOk evs).disk.db src pending) (by
    intro j hj
    obtain ⟨e, hem, hne, rfl⟩ := (mem_journalsOnDisk _ _).mp hj
    rcases mem_aset _ _ _ _ hem with h1 | h1
    · exact List.all_eq_true.mp h.jrn _ ((mem_journalsOnDisk _ _).mpr ⟨e, h1, hne, rfl⟩)
    · subst h1; exact hsrc)
  have hr := restart_spec (parseOk := parseOk) hK h'
  exact ⟨_, hr.1, hr.2.1, hr.2.2.1⟩

/-! ## the excluded class: a pipe called `s` (finding F33) -/

/-- **F33 on a reachable state**: the history "first start, CREATE PIPE `s`, one position save of it" — only the name
violates `Ev.ok` — leaves a registry file that does not decode; the memory is no longer consistent with the disk and a
start on the crash image is refused. -/
theorem cex_reachable_pipe_s (hK : K.Laws) (parseOk : TagLine → Bool) (pm : PosMap) :
    ([Ev.op (.createPipe ⟨pipeNameS, [], []⟩), Ev.op (.savePipeInfo pipeNameS pm)].all Ev.ok = false) ∧
    loadPipes K.pipes (reach K parseOk [Ev.op (.createPipe ⟨pipeNameS, [], []⟩), Ev.op (.savePipeInfo pipeNameS pm)]).disk.files = none ∧
    ¬ Inv K parseOk (reach K parseOk [Ev.op (.createPipe ⟨pipeNameS, [], []⟩), Ev.op (.savePipeInfo pipeNameS pm)]) ∧
    recover K parseOk (reach K parseOk [Ev.op (.createPipe ⟨pipeNameS, [], []⟩), Ev.op (.savePipeInfo pipeNameS pm)]).disk = .refusedPipes := by
  have hi := (wf_init K parseOk).2.1
  have hm := (wf_init K parseOk).2.2.1
  have hp : pipeInfoPath pipeNameS = pipesDat := (collision_iff_named_s _).mpr rfl
  have hf : pipeDefsSavedOnCreate = true := by decide
  generalize hS : reach K parseOk [Ev.op (.createPipe ⟨pipeNameS, [], []⟩), Ev.op (.savePipeInfo pipeNameS pm)] = S
  have hSe : S = step K (step K (initSrv K parseOk) (.createPipe ⟨pipeNameS, [], []⟩)) (.savePipeInfo pipeNameS pm) := by
    have hc : changedByJson pipeNameS = false := by decide +kernel
    have hc0 : changedByJson [] = false := by decide +kernel
    rw [← hS]; simp [reach, runEv, stepEv, gstep, enabled, hc, hc0]
  have hfile : S.disk.files pipesDat = some (K.pinfo.enc pm) := by
    rw [hSe]; simp only [step, savePipeInfoSteps, runSteps_writeFile, hp]; simp
  have hti : S.disk.files .tindexDat = some (K.tidx.enc []) := by
    rw [hSe]; simp only [step, savePipeInfoSteps, runSteps_writeFile, hp, hf, if_true]
    rw [Files.set_other _ _ _ _ (by simp [pipesDat]), savePipes_at, if_neg (by simp [pipesDat]), if_neg (by simp [pipesTmp])]
    have := hi.tdat; rw [hm] at this; exact this
  have hdb : S.disk.db = [] := by
    rw [hSe]; simp only [step]
    exact (wf_init K parseOk).2.2.2
  have hl : loadPipes K.pipes S.disk.files = none := by simp [loadPipes, hfile, hK.crossPipes]
  refine ⟨by simp [Ev.ok, Op.pipeName], hl, ?_, ?_⟩
  · intro hinv; have := hinv.reg; rw [hl] at this; cases this
  · exact recover_refusedPipes K hK parseOk S.disk [] hti rfl (by simp [hdb, journalsOnDisk]) hl

/-- **A position save follows every finished copy** — the code shape behind the event `savePipeInfo` of the histories above: in
`worker.run` nothing but an error path leaves the loop between a copy that succeeded and `saveState`, also while the service
is closing (regenerated fact; the schedule "graceful stop while a worker is inside its copy" is a hook replay in the harness,
section conc). Pinned: a change of the shape breaks this obligation. -/
theorem position_saved_after_every_copy : workerSavesPositionAfterEveryCopy = true := by decide

/-- **Position files reach the disk in the order their snapshots are taken**: `ppipe.saveState` writes the file inside the
critical section of the pipe's lock in which it changed and serialised the position map (regenerated fact), which is what makes
the event `savePipeInfo` of the histories above ONE step (memory and file change together; `inv_savePipeInfo`). Written after
the unlock, two workers of one pipe could store the older snapshot last, and the pipe would re-copy a batch after a graceful
restart. Pinned: a change of the shape breaks this obligation. -/
theorem positions_file_written_under_lock : positionsFileWrittenUnderPipeLock = true := by decide

/-! ## non-vacuity -/

/-- a history with every kind of event that satisfies the only hypothesis of the `…_reachable` theorems -/
example : [Ev.op (.newPartition [97, 61, 49] [49]), Ev.op (.write [49] [(1, [10, 11])]), Ev.ensurePipe ⟨[116], [97, 61, 49], []⟩,
    Ev.op (.savePipeInfo [116] [([49], ⟨1, 2⟩)]), Ev.restart, Ev.crashIn (.createPipe ⟨[117], [], []⟩) ⟨1, 3⟩, Ev.crash,
    Ev.op (.dropChunks [49] 1), Ev.op (.dropPartition [49]), Ev.crashInStop ⟨4, 2⟩, Ev.op (.deletePipe [116])].all Ev.ok = true := by
  decide
example : (Ev.op (.createPipe ⟨[115], [], []⟩)).ok = false := by decide
example : pipeInfoPath [115, 115] ≠ pipesDat := pipeInfoPath_ne_dat (by decide)

end Logrange.Props.C07Reach
