import Logrange.Proofs.TIndexId
import Logrange.Proofs.Quote
import Logrange.Proofs.TIndexRun
import Logrange.Proofs.TIndexGet
import Logrange.Proofs.TIndexSave
/-!
# C06 — Partition identity is tag-set equality; FROM selects exactly the matches

Property theorems only (lemmas: `Logrange/Proofs/{Tags,TagsEval,TIndexId}.lean`; models:
`Logrange/Model/{Tags,TagsEval,TIndexId}.lean`). Every theorem here is an obligation of the C06 check.

Identity rests on C08's round trip, so it is proved on `Safe` sets (`same_partition_iff`); for the code as it is
the full statement is false (open finding F08, shared with C08): two different sets can print the same line and
then share a partition, and a raw text can hit the key of another set on the fast path (`cex_…`).
Selection (`from_tags`, `from_expr`, `from_empty`, `tags_eval_correct`) holds for all sets and expressions.
-/
namespace Logrange.Props.C06
open Go Logrange.KV Logrange.Tags Logrange.TagsEval Logrange.TIndexId Logrange.Proofs.KV Logrange.Proofs.Tags
  Logrange.Proofs.TagsEval Logrange.Proofs.TIndexId Logrange.Proofs.TIndexRun Logrange.Proofs.TIndexGet Logrange.TIndexSave Logrange.Proofs.TIndexSave

/-- full statement: whatever the index holds, two accepted non-empty tag texts get the same partition iff they
denote the same set (false today, see `cex_two_sets_one_partition`) -/
def same_partition_full : Prop :=
  ∀ (ops : List (Bytes × Bool)) (t1 t2 : Bytes) (m1 m2 : Map), parse t1 = some m1 → parse t2 = some m2 → m1 ≠ [] → m2 ≠ [] →
    ∃ i j, (getOrCreate (run {} ops) t1 true).2 = .ok i ∧
      (getOrCreate (getOrCreate (run {} ops) t1 true).1 t2 true).2 = .ok j ∧ (i = j ↔ m1 = m2)

/-- **The index is a map from canonical lines to partitions and stays one**: after any sequence of
`getOrCreateJournal` critical sections — i.e. any interleaving of any number of racing writers, since the whole
look-up-or-create is one critical section of `ims.lock` — every key is the line of its partition's non-empty tag
set, keys are distinct and partition ids are distinct. -/
theorem tindex_map_inv (ops : List (Bytes × Bool)) : TInv (run {} ops) :=
  tinv_run {} ops tinv_init

/-- one step preserves the invariant (what `tindex_map_inv` iterates) -/
theorem tindex_step_inv (s : St) (raw : Bytes) (create : Bool) (h : TInv s) : TInv (getOrCreate s raw create).1 :=
  tinv_step s raw create h

/-- **Same partition iff same set** (on `Safe` sets, whatever order, spacing, braces or quoting the two texts
use; `s` any index state satisfying the invariant whose stored sets are `Safe`): the two writes get ids `i`, `j`
and `i = j ↔ m1 = m2`. -/
theorem same_partition_iff (s : St) (hinv : TInv s) (hsafe : SafeSt s) (t1 t2 : Bytes) (m1 m2 : Map)
    (hp1 : parse t1 = some m1) (hp2 : parse t2 = some m2) (hne1 : m1 ≠ []) (hne2 : m2 ≠ [])
    (hs1 : safe m1 = true) (hs2 : safe m2 = true) :
    ∃ i j, (getOrCreate s t1 true).2 = .ok i ∧ (getOrCreate (getOrCreate s t1 true).1 t2 true).2 = .ok j ∧
      (i = j ↔ m1 = m2) :=
  Logrange.Proofs.TIndexId.same_partition_iff Logrange.Proofs.Quote.quoteContract s hinv hsafe t1 t2 m1 m2 hp1 hp2 hne1 hne2 hs1 hs2

/-- the `Safe`-ness of the stored sets is itself preserved as long as only `Safe` sets are written -/
theorem safe_index_preserved (s : St) (raw : Bytes) (create : Bool) (h : SafeSt s)
    (hr : ∀ m, parse raw = some m → safe m = true) : SafeSt (getOrCreate s raw create).1 :=
  safeSt_step s raw create h hr

/-- a write finds the partition that already holds its set, and creates one otherwise (Safe sets) -/
theorem write_lands_in_its_partition (s : St) (hinv : TInv s) (hsafe : SafeSt s) (t : Bytes) (m : Map)
    (hp : parse t = some m) (hne : m ≠ []) (hs : safe m = true) :
    ∃ i, (getOrCreate s t true).2 = .ok i ∧ (∃ e ∈ (getOrCreate s t true).1.tmap, e.2.src = i ∧ e.2.tags = m) ∧
      (∀ e ∈ s.tmap, e.2.tags = m → e.2.src = i) ∧ (∀ e ∈ s.tmap, e ∈ (getOrCreate s t true).1.tmap) :=
  getOrCreate_spec Logrange.Proofs.Quote.quoteContract s hinv hsafe t m hp hne hs

/-! ### End to end: reachable states, the fast path, racing writers, persisted keys -/

/-- **The raw-text fast path is sound on Safe indexes**: a raw text that hits the map is the canonical line of the
stored set and denotes exactly that set. -/
theorem fast_path_sound (s : St) (hinv : TInv s) (hsafe : SafeSt s) (raw : Bytes) (td : Desc)
    (h : lookup s.tmap raw = some td) : raw = line td.tags ∧ parse raw = some td.tags :=
  Logrange.Proofs.TIndexRun.fast_path_sound s hinv hsafe raw td h

/-- every state reached by a history whose accepted texts denote Safe sets satisfies the invariant and stores Safe
sets only -/
theorem reachable_inv (ops : List (Bytes × Bool)) (ho : SafeOps ops) : TInv (run {} ops) ∧ SafeSt (run {} ops) :=
  Logrange.Proofs.TIndexRun.reachable_inv ops ho

/-- **Same partition iff same set, end to end**: after ANY history of look-ups and creations whose accepted texts
denote Safe sets (any spellings, incl. texts that take the fast path, rejected texts, look-ups without creation), two
accepted non-empty Safe texts get the same partition iff they denote the same set. -/
theorem same_partition_reachable (ops : List (Bytes × Bool)) (ho : SafeOps ops) (t1 t2 : Bytes) (m1 m2 : Map)
    (hp1 : parse t1 = some m1) (hp2 : parse t2 = some m2) (hne1 : m1 ≠ []) (hne2 : m2 ≠ [])
    (hs1 : safe m1 = true) (hs2 : safe m2 = true) :
    ∃ i j, (getOrCreate (run {} ops) t1 true).2 = .ok i ∧
      (getOrCreate (getOrCreate (run {} ops) t1 true).1 t2 true).2 = .ok j ∧ (i = j ↔ m1 = m2) :=
  Logrange.Proofs.TIndexRun.same_partition_reachable ops ho t1 t2 m1 m2 hp1 hp2 hne1 hne2 hs1 hs2

/-- **Racing first writes** (K writers, one critical section each; the list is the schedule — the statement holds for
every list, hence for every order of every multiset of writers): every writer gets a partition, and two writers get
the same partition iff they wrote the same set. -/
theorem racing_writers_ids (s : St) (hinv : TInv s) (hsafe : SafeSt s) (ws : List (Bytes × Map)) (hw : Writers ws) :
    ∃ ids : List Nat, (runRes s (ws.map (·.1))).2 = ids.map Res.ok ∧ ids.length = ws.length ∧
      ∀ a b (ha : a < ws.length) (hb : b < ws.length) (ia ib : Nat), ids[a]? = some ia → ids[b]? = some ib →
        (ia = ib ↔ (ws[a]).2 = (ws[b]).2) :=
  Logrange.Proofs.TIndexRun.racing_writers_ids s hinv hsafe ws hw

/-- … and afterwards, for every schedule, the index holds **exactly one partition per written set**, nothing that was
there before is lost or moved, and there is no partition for a set nobody wrote. -/
theorem racing_writers_one_partition (s : St) (hinv : TInv s) (hsafe : SafeSt s) (ws : List (Bytes × Map))
    (hw : Writers ws) :
    let s' := (runRes s (ws.map (·.1))).1
    TInv s' ∧ SafeSt s' ∧ (∀ e ∈ s.tmap, e ∈ s'.tmap) ∧
    (∀ w ∈ ws, ∃ e ∈ s'.tmap, e.2.tags = w.2 ∧ ∀ e' ∈ s'.tmap, e'.2.tags = w.2 → e' = e) ∧
    (∀ e ∈ s'.tmap, e ∈ s.tmap ∨ ∃ w ∈ ws, e.2.tags = w.2) :=
  Logrange.Proofs.TIndexRun.racing_writers_one_partition s hinv hsafe ws hw

/-- **Persisted index keys**: every key the index stores is the canonical line of its partition's set, and on a Safe
index `loadState`'s re-parse of a key gives back exactly that set … -/
theorem tindex_keys_reparse_partial (s : St) (hinv : TInv s) (hsafe : SafeSt s) :
    ∀ e ∈ s.tmap, e.1 = line e.2.tags ∧ parse e.1 = some e.2.tags :=
  fun e he => ⟨(hinv.1 e he).1, tindex_keys_reparse s hinv hsafe e he⟩

/-- … so saving and loading the index (a clean restart) rebuilds the same map from lines to partitions. -/
theorem load_save_partial (s : St) (hinv : TInv s) (hsafe : SafeSt s) : loadEntries (saveState s) = some s.tmap :=
  load_save s hinv hsafe

/-- **FROM {tags}** selects exactly the partitions whose tag set contains all given pairs. -/
theorem from_tags (so : StrOps) (s : St) (t : Map) :
    visit so s (.tags t) = some ((s.tmap.map (·.2)).filter (fun d => t.all (fun p => d.tags.get? p.1 == some p.2))) :=
  Logrange.Proofs.TIndexId.from_tags so s t

/-- **FROM <expression>** selects exactly the partitions for which the reference meaning of the expression is
true of the partition's tags; an expression the builder rejects selects nothing (the statement fails). -/
theorem from_expr (so : StrOps) (s : St) (e : OrList) :
    (∀ f, buildOr so e = some f → visit so s (.expr e) = some ((s.tmap.map (·.2)).filter (fun d => orRef so e d.tags == some true))) ∧
    (buildOr so e = none → visit so s (.expr e) = none) :=
  Logrange.Proofs.TIndexId.from_expr so s e

/-- **An empty FROM** selects all partitions. -/
theorem from_empty (so : StrOps) (s : St) : visit so s .none = some (s.tmap.map (·.2)) :=
  Logrange.Proofs.TIndexId.from_empty so s

/-- **The compiled tag condition equals the reference evaluator** (structural induction over the expression;
for every case mapping and `path.Match`): accepted ⇒ same truth value on every tag set, rejected ⇒ the reference
evaluator rejects too. -/
theorem tags_eval_correct (so : StrOps) (src : Source) :
    (∀ f, buildSource so src = some f → ∀ m, evalTagsRef so src m = some (f m)) ∧
    (buildSource so src = none → ∀ m, evalTagsRef so src m = none) :=
  Logrange.Proofs.TagsEval.tags_eval_correct so src

/-- a malformed LIKE pattern is rejected when the condition is built (fix 4537423), never at evaluation -/
theorem malformed_like_rejected (so : StrOps) (id : Ident) (pat : Bytes) (h : so.like pat [97, 98, 99] = none) :
    buildCond so ⟨id, .like, pat⟩ = none := by
  unfold buildCond
  cases buildIdent so id <;> simp [h]

/-! ## Counterexamples to the full statement (F08 seen from C06) -/

/-- two different sets, one partition: `a=""` (empty value) and `a="\"\""` (the value `""`) print the same line -/
theorem cex_two_sets_one_partition :
    parse [97,61,34,34] = some [([97],[])] ∧ parse [97,61,34,92,34,92,34,34] = some [([97],[34,34])] ∧
    (getOrCreate {} [97,61,34,34] true).2 = .ok 0 ∧
    (getOrCreate (getOrCreate {} [97,61,34,34] true).1 [97,61,34,92,34,92,34,34] true).2 = .ok 0 := by decide +kernel

/-- the raw-text fast path hits another set's key: after a write for {a: ` c `} (line `a= c `) the text `a= c `,
which denotes {a: `c`}, lands in that partition -/
theorem cex_fast_path_capture :
    parse [97,61,34,32,99,32,34] = some [([97],[32,99,32])] ∧ parse [97,61,32,99,32] = some [([97],[99])] ∧
    (getOrCreate {} [97,61,34,32,99,32,34] true).2 = .ok 0 ∧
    (getOrCreate (getOrCreate {} [97,61,34,32,99,32,34] true).1 [97,61,32,99,32] true).2 = .ok 0 := by decide +kernel

/-- outside the Safe class a persisted key is not read back: the index holding {a: `x"y`} cannot be loaded again (the
server refuses to start), the one holding {a: ` c `} comes back with another set -/
theorem cex_load_unsafe_key :
    loadEntries (saveState (run {} [([97,61,34,120,92,34,121,34], true)])) = none ∧
    (loadEntries (saveState (run {} [([97,61,34,32,99,32,34], true)]))).map (fun l => l.map (fun e => e.2.tags)) =
      some [[([97],[99])]] := by decide +kernel

theorem same_partition_full_false : ¬ same_partition_full := by
  intro h
  obtain ⟨h1, h2, h3, h4⟩ := cex_two_sets_one_partition
  obtain ⟨i, j, hi, hj, hij⟩ := h [] _ _ _ _ h1 h2 (by simp) (by simp)
  simp only [run] at hi hj
  rw [h3] at hi; rw [h4] at hj
  cases hi; cases hj
  have := hij.mp rfl
  simp at this

/-! ## Non-vacuity -/

/-- the hypotheses of `same_partition_iff` hold in a non-trivial state: one partition {a: b} exists; the texts
`{b=2, a=1}` and `a=1,b="2"` are two spellings of one Safe set -/
example : SafeSt (run {} [([97,61,98], true)]) := by
  intro e he
  have : e = ([97,61,98], ⟨0, [([97],[98])]⟩) := by
    have h : (run {} [([97,61,98], true)]).tmap = [([97,61,98], ⟨0, [([97],[98])]⟩)] := by decide +kernel
    rw [h] at he; simpa using he
  subst this; decide +kernel
example : parse [123,98,61,50,44,32,97,61,49,125] = some [([97],[49]), ([98],[50])] ∧
    parse [97,61,49,44,98,61,34,50,34] = some [([97],[49]), ([98],[50])] ∧ safe [([97],[49]), ([98],[50])] = true := by
  decide +kernel
/-- selection on a population of two partitions -/
example : (visit ⟨id, id, fun _ _ => some false⟩ (run {} [([97,61,49], true), ([97,61,50,44,98,61,51], true)])
    (.tags [([98],[51])])).map (fun l => l.map (·.src)) = some [1] := by decide +kernel

/-- `racing_writers_ids` is not vacuous: three writers, two spellings of one set and another set -/
example : Writers [([97,61,49], [([97],[49])]), ([123,97,61,34,49,34,125], [([97],[49])]), ([98,61,50], [([98],[50])])] := by
  intro w hw
  simp only [List.mem_cons, List.mem_nil_iff, or_false] at hw
  rcases hw with rfl | rfl | rfl <;> decide +kernel
example : (runRes {} [[97,61,49], [123,97,61,34,49,34,125], [98,61,50]]).2 = [.ok 0, .ok 0, .ok 1] := by decide +kernel
/-- `same_partition_reachable`'s hypothesis: a history of Safe texts (one of them rejected) -/
example : SafeOps [([97,61,49], true), ([97], true), ([123,98,61,50,125], false)] := by
  intro op hop m hm
  simp only [List.mem_cons, List.mem_nil_iff, or_false] at hop
  rcases hop with rfl | rfl | rfl
  · have : m = [([97],[49])] := by
      have h : parse [97,61,49] = some [([97],[49])] := by decide +kernel
      rw [h] at hm; exact (Option.some.inj hm).symm
    subst this; decide +kernel
  · have h : parse [97] = none := by decide +kernel
    rw [h] at hm; cases hm
  · have : m = [([98],[50])] := by
      have h : parse [123,98,61,50,125] = some [([98],[50])] := by decide +kernel
      rw [h] at hm; exact (Option.some.inj hm).symm
    subst this; decide +kernel

/-! ## A failing index save: `tmap` / `smap` consistency (model `TIndexSave`, facts regenerated from the create branch) -/

/-- the create branch of `getOrCreateJournal` as it is now rolls back correctly: the `tmap` entry is deleted on a failed
save, and since `smap` is written before the save that entry is deleted too (regenerated facts) -/
theorem rollback_facts_good : GoodFacts codeFacts := codeFacts_good

/-- **`tmap` and `smap` hold the same partitions after every sequence of calls, whatever saves fail** (and the
line → partition invariant holds as well) -/
theorem tmap_smap_consistent (ops : List (Bytes × Bool × Bool)) :
    TInv (runS codeFacts {} ops).base ∧ SInv (runS codeFacts {} ops) :=
  inv_runS codeFacts codeFacts_good ops

/-- a refused write (failed save) leaves no trace in either map -/
theorem save_failed_no_trace (s : StS) (raw : Bytes) (create saveOK : Bool)
    (h : (getOrCreateS codeFacts s raw create saveOK).2 = .saveFailed) :
    (getOrCreateS codeFacts s raw create saveOK).1.base = s.base ∧ (getOrCreateS codeFacts s raw create saveOK).1.smap = s.smap :=
  Logrange.Proofs.TIndexSave.save_failed_no_trace codeFacts codeFacts_good s raw create saveOK h

/-- the `Visit` that skips descriptors missing from `smap` is the plain filter on consistent states: `from_tags`,
`from_expr`, `from_empty` apply to it -/
theorem visit_skipping_unregistered_eq (so : StrOps) (s : StS) (h : SInv s) (src : Source) :
    visitS so s src = visit so s.base src :=
  visitS_eq_visit so s h src

/-- **every acknowledged partition is selected by an empty FROM**, also when earlier saves failed and the write was a
retry -/
theorem acknowledged_selectable (so : StrOps) (s : StS) (h : SInv s) (raw : Bytes) (create saveOK : Bool) (i : Nat)
    (hr : (getOrCreateS codeFacts s raw create saveOK).2 = .res (.ok i)) :
    ∃ ds, visitS so (getOrCreateS codeFacts s raw create saveOK).1 .none = some ds ∧ ∃ d ∈ ds, d.src = i :=
  Logrange.Proofs.TIndexSave.acknowledged_selectable so codeFacts codeFacts_good s h raw create saveOK i hr

/-- with the smap registration moved behind the save and the roll-back dropped (seeded change), a failed first write
followed by the retry is acknowledged with a partition that is in no `smap` and that the empty FROM misses -/
theorem cex_half_registered :
    let F : Facts := ⟨false, false, false⟩
    let s1 := (getOrCreateS F {} [97,61,49] true false)
    let s2 := getOrCreateS F s1.1 [97,61,49] true true
    s1.2 = .saveFailed ∧ s2.2 = .res (.ok 0) ∧ s2.1.smap = [] ∧
    (visitS ⟨id, id, fun _ _ => some false⟩ s2.1 .none).map (fun l => l.map (·.src)) = some [] :=
  Logrange.Proofs.TIndexSave.cex_half_registered

/-! ## Look-up without creation, refused texts, `Set.Equals` -/

/-- `GetJournal` (look-up without creation) never changes the index -/
theorem get_no_change (s : St) (raw : Bytes) : (getOrCreate s raw false).1 = s :=
  Logrange.Proofs.TIndexGet.get_no_change s raw

/-- **`GetJournal` finds exactly the partition of the set**: `notFound` iff no partition holds that set, otherwise the id
of the one that does (Safe index, Safe non-empty set, any spelling). -/
theorem get_journal_spec (s : St) (hinv : TInv s) (hsafe : SafeSt s) (t : Bytes) (m : Map) (hp : parse t = some m)
    (hne : m ≠ []) (hs : safe m = true) :
    ((getOrCreate s t false).2 = .notFound ∧ ∀ e ∈ s.tmap, e.2.tags ≠ m) ∨
    (∃ e ∈ s.tmap, e.2.tags = m ∧ (getOrCreate s t false).2 = .ok e.2.src) :=
  Logrange.Proofs.TIndexGet.get_journal_spec s hinv hsafe t m hp hne hs

/-- a text the parser rejects (that is not a stored key) never names a partition, and changes nothing -/
theorem rejected_text_refused (s : St) (raw : Bytes) (create : Bool) (h1 : lookup s.tmap raw = none)
    (hp : parse raw = none) : getOrCreate s raw create = (s, .badTags) :=
  Logrange.Proofs.TIndexGet.rejected_text_refused s raw create h1 hp

/-- the empty tag set never names a partition -/
theorem empty_set_refused (s : St) (raw : Bytes) (create : Bool) (h1 : lookup s.tmap raw = none)
    (hp : parse raw = some []) : getOrCreate s raw create = (s, .empty) :=
  Logrange.Proofs.TIndexGet.empty_set_refused s raw create h1 hp

/-- `Set.Equals` compares lines: on Safe sets that is set equality -/
theorem equals_iff_same_set (m1 m2 : Map) (h1 : Map.WF m1) (h2 : Map.WF m2) (s1 : safe m1 = true) (s2 : safe m2 = true) :
    line m1 = line m2 ↔ m1 = m2 :=
  Logrange.Proofs.TIndexGet.equals_iff_same_set m1 m2 h1 h2 s1 s2

example : (getOrCreate (run {} [([97,61,49], true)]) [123,97,61,34,49,34,125] false).2 = .ok 0 ∧
    (getOrCreate (run {} [([97,61,49], true)]) [97,61,50] false).2 = .notFound := by decide +kernel

end Logrange.Props.C06
