import Logrange.Props.C07Reach
import Logrange.Proofs.PersistCodec
import Logrange.Proofs.PersistStable
/-!
# C07 — the codec contract and `encoding/json`
-/
namespace Logrange.Props.C07Codec
open Logrange.Persist Logrange.Generated.C07

/-- **The codec contract holds of the concrete instance the model driver runs** (`PersistCodec.stdCodecs`, a framed
self-delimiting serialisation): round trip, no strict prefix decodes, registry and position files do not decode as each
other. So `Codecs.Laws` is satisfiable and none of the C07 theorems (all generic in the codecs under that contract) is vacuous. -/
theorem driver_codec_satisfies_contract : stdCodecs.Laws := stdCodecs_laws

/-- the reachable-state theorems instantiated with it: a concrete history, no hypothesis left -/
example : ∃ s', recover stdCodecs (fun _ => true)
      (shutdown stdCodecs (reach stdCodecs (fun _ => true)
        [Ev.op (.newPartition [97, 61, 49] [49]), Ev.op (.write [49] [(1, [10, 11])]), Ev.ensurePipe ⟨[116], [97, 61, 49], []⟩,
         Ev.crashIn (.createPipe ⟨[117], [], []⟩) ⟨1, 3⟩, Ev.restart])).disk = .started s' ∧
    s'.mem = (reach stdCodecs (fun _ => true)
        [Ev.op (.newPartition [97, 61, 49] [49]), Ev.op (.write [49] [(1, [10, 11])]), Ev.ensurePipe ⟨[116], [97, 61, 49], []⟩,
         Ev.crashIn (.createPipe ⟨[117], [], []⟩) ⟨1, 3⟩, Ev.restart]).mem := by
  obtain ⟨s', h1, h2, _⟩ := Logrange.Props.C07Reach.restart_graceful_reachable stdCodecs_laws (fun _ => true)
    [Ev.op (.newPartition [97, 61, 49] [49]), Ev.op (.write [49] [(1, [10, 11])]), Ev.ensurePipe ⟨[116], [97, 61, 49], []⟩,
     Ev.crashIn (.createPipe ⟨[117], [], []⟩) ⟨1, 3⟩, Ev.restart] (by decide)
  exact ⟨s', h1, h2⟩

theorem jsonStrGo_ascii : ∀ (s : Bytes) (f : Nat), s.length < f → (∀ b ∈ s, b.toNat < 0x80) → jsonStrGo f s = s
  | [], f, hf, _ => by cases f <;> simp [jsonStrGo] at *
  | c :: r, f, hf, h => by
    cases f with
    | zero => simp at hf
    | succ f =>
      have hc := h c (List.mem_cons_self ..)
      simp only [jsonStrGo, hc, if_true]
      rw [jsonStrGo_ascii r f (by simpa using hf) (fun b hb => h b (List.mem_cons_of_mem _ hb))]

/-- ASCII strings (every tag line and pipe name the LQL grammar can produce unquoted) pass through `encoding/json` unchanged -/
theorem sanitize_ascii (s : Bytes) (h : ∀ b ∈ s, b.toNat < 0x80) : sanitize s = s :=
  jsonStrGo_ascii s _ (Nat.lt_succ_self _) h

/-- valid multi-byte UTF-8 is kept (`é`, `€`, U+FFFD itself), an invalid byte is not: two different tag lines, one image -/
theorem cex_sanitize :
    sanitize [97, 61, 0xC3, 0xA9] = [97, 61, 0xC3, 0xA9] ∧ sanitize [0xE2, 0x82, 0xAC] = [0xE2, 0x82, 0xAC] ∧
    sanitize [0xEF, 0xBF, 0xBD] = [0xEF, 0xBF, 0xBD] ∧
    sanitize [97, 61, 120, 0xFF, 121] = [97, 61, 120, 0xEF, 0xBF, 0xBD, 121] ∧
    sanitize [97, 61, 120, 0xFE, 121] = sanitize [97, 61, 120, 0xFF, 121] ∧ changedByJson [112, 0xFF] = true := by
  decide +kernel

def tagFF : TagLine := [97, 61, 120, 0xFF, 121]   -- a=x\xffy
def tagFE : TagLine := [97, 61, 120, 0xFE, 121]   -- a=x\xfey

/-- **Finding F-C07-901 (kernel-checked)**: behind `encoding/json`'s treatment of strings — any codec `K` that satisfies the
contract, wrapped in `jsonish` — the history "first start; create the partitions `a=x\xffy` and `a=x\xfey` (two different
tag lines `tag.Parse` accepts unquoted); write one event to each; **graceful** shutdown" leaves a `tindex.dat` with one key
twice; the start on it finds a journal without a record and is refused. -/
theorem cex_invalid_utf8_tag_lines_refuse_restart (K : Codecs) (hK : K.Laws) :
    let J := jsonish K
    let s := run J (initSrv J (fun _ => true))
      [.newPartition tagFF [49], .newPartition tagFE [50], .write [49] [(1, [10])], .write [50] [(1, [11])]]
    tagFF ≠ tagFE ∧ recover J (fun _ => true) (shutdown J s).disk = .refusedTIndex := by
  intro J s
  refine ⟨by decide, ?_⟩
  have hdb0 : (initSrv J (fun _ => true)).disk.db = [] := (init_spec (K := J) (parseOk := fun _ => true)).2.2.2
  have hm0 : (initSrv J (fun _ => true)).mem = Mem.empty := (init_spec (K := J) (parseOk := fun _ => true)).2.2.1
  -- the tag-index file after the second partition was created, untouched by writes and by the shutdown
  have ht : (shutdown J s).disk.files .tindexDat = some (J.tidx.enc [(tagFF, [49]), (tagFE, [50])]) := by
    rw [shutdown_files, if_neg (by simp), if_neg (by simp [pipesDat]), if_neg (by simp [pipesTmp])]
    simp only [s, run, List.foldl]
    rw [Logrange.Props.C07.write_keeps_snapshot, Logrange.Props.C07.write_keeps_snapshot]
    have := tindexSave_dat J (step J (initSrv J (fun _ => true)) (.newPartition tagFF [49])).disk.files
      ((step J (initSrv J (fun _ => true)) (.newPartition tagFF [49])).mem.tmap ++ [(tagFE, [50])])
    simp only [step, hm0, Mem.empty, List.nil_append, List.cons_append] at this ⊢
    exact this
  have hdb : (shutdown J s).disk.db = [([49], [⟨1, [10]⟩]), ([50], [⟨1, [11]⟩])] := by
    simp only [shutdown, s, run, List.foldl, step, hdb0, hm0, Mem.empty]
    decide +kernel
  unfold recover checkConsistency loadState
  rw [ht, hdb]
  have hdec : J.tidx.dec (J.tidx.enc [(tagFF, [49]), (tagFE, [50])]) = some [(sanitize tagFF, [50])] := by
    simp only [J, jsonish, List.map, hK.tidx.rt, Option.map_some]
    decide +kernel
  have hj : (journalsOnDisk [([49], [⟨1, [10]⟩]), ([50], [⟨1, [11]⟩])]).all (tmapHasSrc [(sanitize tagFF, [50])]) = false := by
    decide +kernel
  simp [hdec, hj]

/-! ## F-C07-901 / F-C07-902 repaired (a7918dd, 3cf6638): strings that `encoding/json` would change are refused at creation

`cex_invalid_utf8_tag_lines_refuse_restart` above is the **unrepaired branch**: it runs `step`, the operations without their
guards. The guards (`enabled`) follow two regenerated facts; both branches of each are stated so that the file builds on a
tree with and on a tree without the repair, and the positive theorems consume the facts one-sidedly (a revert breaks them). -/

/-- the guard of partition creation, both branches: with the repair a tag line that `encoding/json` would change is never
created (the witnesses of F-C07-901 are refused at write time); without it, it is created like any other -/
theorem invalid_utf8_tag_line_refused_or_created :
    (getOrCreateJournalRefusesInvalidUtf8 = true ∧
      ∀ (parseOk : TagLine → Bool) (s : Srv) (tags : TagLine) (src : Src), changedByJson tags = true →
        enabled parseOk s (.newPartition tags src) = false) ∨
    (getOrCreateJournalRefusesInvalidUtf8 = false ∧
      ∀ (parseOk : TagLine → Bool) (s : Srv) (tags : TagLine) (src : Src),
        enabled parseOk s (.newPartition tags src) = (parseOk tags && !(s.mem.tmap.any (fun e => e.1 == tags)))) := by
  cases h : getOrCreateJournalRefusesInvalidUtf8 with
  | true => left; exact ⟨rfl, fun parseOk s tags src hc => by simp [enabled, h, hc]⟩
  | false => right; exact ⟨rfl, fun parseOk s tags src => by simp [enabled, h]⟩

/-- the same for CREATE / ENSURE PIPE (F-C07-902) -/
theorem invalid_utf8_pipe_refused_or_created :
    (newPPipeRefusesInvalidUtf8 = true ∧
      ∀ (parseOk : TagLine → Bool) (s : Srv) (p : Pipe), (changedByJson p.name || changedByJson p.tags || changedByJson p.flt) = true →
        enabled parseOk s (.createPipe p) = false) ∨
    (newPPipeRefusesInvalidUtf8 = false ∧ ∀ (parseOk : TagLine → Bool) (s : Srv) (p : Pipe), enabled parseOk s (.createPipe p) = true) := by
  cases h : newPPipeRefusesInvalidUtf8 with
  | true => left; exact ⟨rfl, fun parseOk s p hc => by simp [enabled, h, hc]⟩
  | false => right; exact ⟨rfl, fun parseOk s p => by simp [enabled, h]⟩

/-- the witnesses of the two findings are refused now -/
theorem witnesses_refused (parseOk : TagLine → Bool) (s : Srv) (src : Src) :
    enabled parseOk s (.newPartition tagFF src) = false ∧ enabled parseOk s (.newPartition tagFE src) = false ∧
    enabled parseOk s (.createPipe ⟨[112, 0xFF], [], []⟩) = false := by
  have h1 : getOrCreateJournalRefusesInvalidUtf8 = true := by decide
  have h2 : newPPipeRefusesInvalidUtf8 = true := by decide
  have c1 : changedByJson tagFF = true := by decide +kernel
  have c2 : changedByJson tagFE = true := by decide +kernel
  have c3 : changedByJson [112, 0xFF] = true := by decide +kernel
  simp [enabled, h1, h2, c1, c2, c3]

/-- **Every string a reachable state persists survives `encoding/json`** (F-C07-901/902 repaired): after any history every
tag line and every pipe name / condition in memory is unchanged by `sanitize` and the tag lines are pairwise different, so the
codec the server really uses — a lawful codec behind `encoding/json`'s string treatment, `jsonish K` — writes what `K` writes
and reads back exactly the tag index and the pipe definitions: the codec contract, the one hypothesis of the restart theorems
that `encoding/json` does not satisfy in general, holds on every value that is ever saved. No UTF-8 hypothesis on the history. -/
theorem stored_strings_survive_json_reachable (K : Codecs) (hK : K.Laws) (parseOk : TagLine → Bool) (evs : List Ev)
    (hok : evs.all Ev.ok = true) :
    StableMem (reach K parseOk evs).mem ∧
    (jsonish K).tidx.dec ((jsonish K).tidx.enc (reach K parseOk evs).mem.tmap) = some (reach K parseOk evs).mem.tmap ∧
    (jsonish K).pipes.dec ((jsonish K).pipes.enc ((reach K parseOk evs).mem.pipes.map (·.cfg)))
      = some ((reach K parseOk evs).mem.pipes.map (·.cfg)) ∧
    (jsonish K).tidx.enc (reach K parseOk evs).mem.tmap = K.tidx.enc (reach K parseOk evs).mem.tmap ∧
    (jsonish K).pipes.enc ((reach K parseOk evs).mem.pipes.map (·.cfg)) = K.pipes.enc ((reach K parseOk evs).mem.pipes.map (·.cfg)) := by
  have h1 : getOrCreateJournalRefusesInvalidUtf8 = true := by decide
  have h2 : newPPipeRefusesInvalidUtf8 = true := by decide
  have hi := Logrange.Props.C07Reach.wf_init K parseOk
  have hs0 : StableMem (initSrv K parseOk).mem := by
    rw [hi.2.2.1]
    exact ⟨fun e he => by simp [Mem.empty] at he, by simp [Mem.empty], fun p hp => by simp [Mem.empty] at hp⟩
  have hs := stable_run hK h1 h2 evs _ hi.2.1 hs0 hok
  have hc := codec_contract_on_stable K hK _ hs
  exact ⟨hs, hc.2.1, hc.2.2.2, hc.1, hc.2.2.1⟩

end Logrange.Props.C07Codec
