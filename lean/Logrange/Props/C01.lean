import Logrange.Proofs.WireRT
import Logrange.Proofs.WriteLoopM
import Logrange.Proofs.WritersLts
import Logrange.Proofs.JIterObs
/-!
# C01 — Acknowledged writes are read back intact, exactly once, in write order

Property theorems only (lemmas: `Logrange/Proofs/WireRT.lean`, `Logrange/Proofs/WriteLoopM.lean`; models:
`Logrange/Model/{WireRT,JournalW,WriteLoopM,WritersLts}.lean`). Every theorem here is an obligation of the C01 check.
-/
namespace Logrange.Props.C01
open Go Logrange.WireRT Logrange.JournalW Logrange.WriteLoopM

/-! ## the record codec -/

/-- **A stored record decodes to the event that was written**: for every 64-bit timestamp, all message bytes and
all (binary) fields, `Unmarshal(Marshal(e))` on a released event gives `e` and consumes exactly the record. -/
theorem event_roundtrip (e : Event) (h : e.WF) :
    Event.unmarshal [] e.marshal = .ok (e.marshal.length, e) := by
  have := unmarshal_marshal e [] [] h
  simp only [List.append_nil] at this
  rw [this]
  by_cases hf : e.fields.length > 0
  · simp [hf]
  · have : e.fields = [] := by
      cases hfe : e.fields with
      | nil => rfl
      | cons a as => simp [hfe] at hf
    cases e; simp_all

/-- the quirk behind `LogEventIterator.Next`'s `Release`: unmarshalling a record *without* fields into an event that
still holds fields keeps the old fields -/
theorem event_unmarshal_keeps_stale_fields (e : Event) (prev : Bytes) (h : e.WF) (hf : e.fields = []) :
    Event.unmarshal prev e.marshal = .ok (e.marshal.length, ⟨e.ts, e.msg, prev⟩) := by
  have := unmarshal_marshal e prev [] h
  simp only [List.append_nil] at this
  rw [this]; simp [hf]

example : (⟨5, ofAscii "hi\x00", [1, 107, 1, 118]⟩ : Event).WF := by
  refine ⟨?_, ?_, ?_⟩ <;> simp [two64, Small, two63, ofAscii]

/-! ## the RPC write packet -/

/-- **The server decodes exactly what the client encoded**: for every tag text, every write-level field text the
parser accepts, every list of fewer than 2³² events (any timestamps, any message bytes incl. empty, any per-event tag and
field text), draining the server-side iterator over the client's packet yields the tags and, per event, the same
timestamp and message and the fields `wpIterator.Get` builds (`storedModel`). `parseKV` — the field text parser — is
arbitrary. If `init` validates the packet first (regenerated fact; proposed repair of F20b/F20c) the events' own field texts must
parse — otherwise the packet is rejected (`repaired_init_rejects`). -/
theorem packet_roundtrip (parseKV : Bytes → Option Bytes) (tags flds wf : Bytes) (evs : List WEvent)
    (ht : Small tags) (hf : Small flds) (hp : parseKV flds = some wf) (hn : evs.length < two32)
    (hwf : ∀ e ∈ evs, e.WF)
    (hval : Generated.C01.wpInitValidatesEvents = true → ∀ e ∈ evs, (parseKV e.fields).isSome) :
    wpDrain parseKV (wpEncode tags flds evs) = .ok (tags, evs.map (storedModel parseKV wf)) :=
  wpDrain_encode parseKV tags flds wf evs ht hf hp hn hwf hval

/-- **The bytes sent are the bytes built** — the premise under which the wire theorems speak about what a client receives: in
`api/rpc` no pooled buffer is used after its release (statement order, regenerated from the AST of `ServerQuerier.query` and
the `rc.Collect` sites): whatever another handler does with the pool, the page on the wire is the page the query loop built.
Moving `qr.Close()` in front of `SendResponse` flips the fact and breaks this obligation. -/
theorem response_bytes_are_built_bytes (built : Bytes) (env : Bytes → Bytes) : responseOnWire built env = built := by
  have h : Generated.C01.pooledBuffersReleasedAfterLastUse = true := by decide
  simp [responseOnWire, h]

/-- the regenerated facts about `Fields.Concat` and `wpIterator.Get` put the write-level fields first -/
theorem wpFields_eq (wf ef : Bytes) : wpFields wf ef = wf ++ ef := by
  have h1 : Generated.C01.concatReceiverFirst = true := by decide
  have h2 : Generated.C01.wpConcatReceiverIsWriteLevel = true := by decide
  simp [wpFields, concat, h1, h2]

/-- **… and that is what the property demands when every event's field text parses**: same timestamp, same message,
write-level fields followed by the event's own fields (`storedSpec`). -/
theorem packet_roundtrip_spec (parseKV : Bytes → Option Bytes) (tags flds wf : Bytes) (evs : List WEvent)
    (ht : Small tags) (hf : Small flds) (hp : parseKV flds = some wf) (hn : evs.length < two32)
    (hwf : ∀ e ∈ evs, e.WF) (hok : ∀ e ∈ evs, (parseKV e.fields).isSome) :
    ∃ es, wpDrain parseKV (wpEncode tags flds evs) = .ok (tags, es) ∧ evs.map (storedSpec parseKV wf) = es.map some := by
  refine ⟨_, packet_roundtrip parseKV tags flds wf evs ht hf hp hn hwf (fun _ => hok), ?_⟩
  rw [List.map_map]
  apply List.map_congr_left
  intro e he
  have := hok e he
  cases hpe : parseKV e.fields with
  | none => simp [hpe] at this
  | some ef => simp [storedSpec, storedModel, hpe, wpFields_eq]

example : wpDrain (fun t => if t = ofAscii "w=1" then some [1, 119, 1, 49] else if t = [] then some [] else none)
    (wpEncode (ofAscii "a=b") (ofAscii "w=1") [⟨1, ofAscii "m", [], []⟩, ⟨2, [], [], []⟩])
      = .ok (ofAscii "a=b", [⟨1, ofAscii "m", [1, 119, 1, 49]⟩, ⟨2, [], [1, 119, 1, 49]⟩]) := by decide

/-! ## the write loop -/

/-- **Every acknowledged batch is appended exactly once, in order, and announced exactly**: for every
`maxChunkSize ≥ 1`, every journal (empty, last chunk with room, last chunk full — so every alignment of the batch with
a chunk roll-over), every batch (any length incl. 0, any record sizes) `Service.Write` succeeds and
* the stored record sequence becomes the old one followed by the batch (nothing lost, duplicated, reordered; old
  records untouched);
* the positions of the stored records become the old ones followed by exactly the positions the `OnWrite`
  notifications announce, in order — so the notifications cover exactly the batch's records;
* `WriteEvent.StartPos` is the position of the batch's first record and `EndPos` is one past its last record
  (no event for an empty batch);
* every `OnWrite` notification carries the `iwrapper` hull of ALL records of the batch handed out up to the last record
  it announces (`CallsHull`; by `iwrapper_hull_exact` that hull is their exact minimum and maximum timestamp — the hull
  is never reset, so a later chunk's notification also covers the batch's earlier records). -/
theorem write_appends (maxChunk : Nat) (hm : 1 ≤ maxChunk) (j : Journal) (batch : List Rec) :
    let r := serviceWrite maxChunk j batch
    r.2.err = false ∧
    readAll r.1 = readAll j ++ batch.map (·.data) ∧
    positions r.1 = positions j ++ callPositions r.2.calls ∧
    (callPositions r.2.calls).length = batch.length ∧
    r.2.start = (callPositions r.2.calls).head? ∧
    r.2.endp = (callPositions r.2.calls).getLast?.map after ∧
    CallsHull [] batch r.2.calls := by
  intro r
  have hr : r = serviceWriteLoop maxChunk (batch.length + 1) j batch {} {} := rfl
  have h := serviceWriteLoop_spec maxChunk hm (batch.length + 1) j batch {} {} (by omega)
  rw [← hr] at h
  obtain ⟨e1, e2, nc, e3, e4, e5, e6⟩ := h
  have hc : r.2.calls = nc := by simpa using e3
  have h1 : (positions r.1).length = (positions j).length + batch.length := by
    rw [positions_length, positions_length, e2]; simp
  have h2 : (positions r.1).length = (positions j).length + (callPositions nc).length := by
    rw [e4]; simp
  refine ⟨e1, e2, by rw [hc]; exact e4, by rw [hc]; omega, by rw [hc]; simpa using e5, by rw [hc]; simpa using e6, ?_⟩
  obtain ⟨nc', f1, f2⟩ := serviceWriteLoop_hull maxChunk hm (batch.length + 1) j batch {} {} [] (by omega)
    (by intro x rest' _; rfl)
  rw [← hr] at f1
  have : r.2.calls = nc' := by simpa using f1
  rw [this]; exact f2

example : (serviceWrite 20 [⟨[[1], [2]], 30⟩] [⟨5, [7, 7]⟩, ⟨0, [8]⟩, ⟨9, List.replicate 20 1⟩, ⟨1, [9]⟩]).2.calls.length = 2 := by decide

/-- **Acknowledged ⇒ every event of the batch was handed to a chunk, whatever fails**: in an environment where ANY iteration's
`jrnl.Write` may fail with nothing written (`faultAt`: the next chunk cannot be created — descriptors exhausted, directory
gone —, the context or the chunk is closed; at the first iteration or after the head of the batch already went into earlier
chunks), for every `maxChunkSize ≥ 1`, journal, batch and fault pattern: `Service.Write` stores a PREFIX of the batch after the
old records, in order, and **if it returns no error the prefix is the whole batch**. Consumes the regenerated fact about the
guard `if err1 != nil { if n <= 0 { err = … }; break }` (`writeErrGuardIsNLeZero`): with the guard `!weInit` the error of an
iteration that follows a partial write is dropped and this theorem breaks. (`journal.Write` never returns `n > 0` together
with an error — it returns `nil` as soon as something was written — so the model's failing call has `n = 0`.) -/
theorem acknowledged_write_is_complete_under_faults (faultAt : Nat → Journal → Bool) (maxChunk : Nat) (hm : 1 ≤ maxChunk)
    (j : Journal) (batch : List Rec) :
    let r := serviceWriteF faultAt maxChunk j batch
    (∃ k, k ≤ batch.length ∧ readAll r.1 = readAll j ++ (batch.take k).map (·.data)) ∧
    (r.2.err = false → readAll r.1 = readAll j ++ batch.map (·.data)) := by
  intro r
  have hg : Generated.C01.writeErrGuardIsNLeZero = true := by decide
  obtain ⟨k, hk, h1, h2⟩ := serviceWriteLoopF_spec faultAt maxChunk hm hg (batch.length + 1) 0 j batch {} {} (by omega) rfl
  refine ⟨⟨k, hk, h1⟩, fun he => ?_⟩
  have hk' := h2 he
  rw [hk', List.take_length] at h1
  exact h1

/-- non-vacuity: the context is cancelled while the second record is fetched; two records fit the chunk, the third needs a
new chunk, whose creation fails: an error is returned and the stored prefix has two records. Without a fault the same batch
is acknowledged and stored completely. -/
example : (serviceWriteF (faultCancelAt 1) 20 [] [⟨1, [1, 1, 1, 1, 1, 1]⟩, ⟨2, [2, 2, 2, 2, 2, 2]⟩, ⟨3, [3]⟩]).2.err = true ∧
    readAll (serviceWriteF (faultCancelAt 1) 20 [] [⟨1, [1, 1, 1, 1, 1, 1]⟩, ⟨2, [2, 2, 2, 2, 2, 2]⟩, ⟨3, [3]⟩]).1
      = [[1, 1, 1, 1, 1, 1], [2, 2, 2, 2, 2, 2]] ∧
    (serviceWriteF (fun _ _ => false) 20 [] [⟨1, [1, 1, 1, 1, 1, 1]⟩, ⟨2, [2, 2, 2, 2, 2, 2]⟩, ⟨3, [3]⟩]).2.err = false := by
  decide

/-- **Acknowledged ⇒ read back, also across a graceful restart**: for every chunk size, journal, batch and every number
`durable` of records that were already flushed when the stop began (0 for a brand-new partition whose first write is still in
the chunk writer's buffer): after an acknowledged `Service.Write`, a graceful stop (`partition.Service.Shutdown`) and a restart
on the same directory, the partition holds the old records followed by the whole batch. Consumes the regenerated fact
`shutdownSyncsEveryJournal`: a `Sync()` that is skipped for some journals (e.g. under `Count() > 0`, which counts confirmed
records only) breaks it. -/
theorem acknowledged_survives_graceful_restart (maxChunk : Nat) (hm : 1 ≤ maxChunk) (j : Journal) (batch : List Rec)
    (durable : Nat) :
    let r := serviceWrite maxChunk j batch
    r.2.err = false ∧ readAll (gracefulRestart r.1 durable) = readAll j ++ batch.map (·.data) := by
  intro r
  have hf : Generated.C01.shutdownSyncsEveryJournal = true := by decide
  obtain ⟨e1, e2, _⟩ := write_appends maxChunk hm j batch
  exact ⟨e1, by simp only [gracefulRestart, hf, ↓reduceIte]; exact e2⟩

/-- non-vacuity (and what the other shape would lose): a new partition, two records still buffered -/
example : readAll (gracefulRestart (serviceWrite 100 [] [⟨1, [1]⟩, ⟨2, [2]⟩]).1 0) = [[1], [2]] ∧
    readAll (truncJournal 0 (serviceWrite 100 [] [⟨1, [1]⟩, ⟨2, [2]⟩]).1) = [] := by decide

/-- **The timestamp hull `iwrapper` reports is exact** (after /repo commit 6624754; regenerated fact
`iwrapperUnsetIsFlag`): after handing out the records `r :: rs` — in this order, each possibly several times (`see_idem`) —
since its creation (`resetMinMaxTs` is never called: regenerated fact `writeLoopResetsHull = false`), `minTs`/`maxTs` are the
smallest/largest timestamp handed out, for every batch, including timestamps 0 and negative ones. -/
theorem iwrapper_hull_exact (r : Rec) (rs : List Rec) :
    let w := (r :: rs).foldl IW.see {}
    w.tsSet = true ∧ (∀ x ∈ r :: rs, w.minTs ≤ x.ts ∧ x.ts ≤ w.maxTs) ∧
      (∃ x ∈ r :: rs, x.ts = w.minTs) ∧ (∃ x ∈ r :: rs, x.ts = w.maxTs) := by
  intro w
  have hw : w = rs.foldl IW.see (({} : IW).see r) := rfl
  have h := fold_exact rs (({} : IW).see r) [r] (see_first {} r rfl)
  rw [← hw] at h
  simpa [HullExact] using h

/-- … in the vocabulary of `write_appends`: the hull a notification carries (`hullOf` of a non-empty prefix of the batch)
is that prefix's exact minimum and maximum timestamp -/
theorem notification_hull_exact (r : Rec) (rs : List Rec) :
    (∀ x ∈ r :: rs, (hullOf (r :: rs)).minTs ≤ x.ts ∧ x.ts ≤ (hullOf (r :: rs)).maxTs) ∧
    (∃ x ∈ r :: rs, x.ts = (hullOf (r :: rs)).minTs) ∧ (∃ x ∈ r :: rs, x.ts = (hullOf (r :: rs)).maxTs) :=
  (iwrapper_hull_exact r rs).2

/-- handing a record out twice (`Get` without `Next`, the peek at the end of each `Service.Write` iteration) is harmless -/
theorem iwrapper_see_idempotent (w : IW) (r : Rec) : (w.see r).see r = w.see r := see_idem w r

example : ([⟨5, []⟩, ⟨0, []⟩, ⟨-3, []⟩, ⟨0, []⟩] : List Rec).foldl IW.see {} = ⟨-3, 5, true⟩ := by decide

/-- the hull is never reset inside `Service.Write` (so the hull announced for a later chunk of one batch also covers the
batch's earlier records — wider than needed, never narrower) -/
theorem hull_not_reset_in_write_loop : Generated.C01.writeLoopResetsHull = false := by decide

/-! ## "a write the server cannot serve back must be rejected, not acknowledged" -/

/-- The clause at full strength: whatever request body the server **acknowledges** (`serveWriteSized … = some`: `ServerIngestor.write`
with the record-size limit it knows), over any
readable partition, (a) the partition afterwards reads back as the old events followed by the acknowledged ones, and
(b) the acknowledged events are what the strict decoder (`wpDrainStrict`: complete packet, every field text parses,
write-level fields before own fields) gives for that body. -/
def C01_full : Prop :=
  ∀ (parseKV : Bytes → Option Bytes) (maxChunk maxRec : Nat) (j j' : Journal) (body : Bytes) (es old : List Event),
    1 ≤ maxChunk → readEvents maxRec j = some old → serveWriteSized parseKV maxChunk maxRec j body = some (j', es) →
    readEvents maxRec j' = some (old ++ es) ∧ ∃ tags, wpDrainStrict parseKV body = some (tags, es)

theorem decodeAll_append (m : Nat) : ∀ (a b : List Bytes),
    decodeAll m (a ++ b) = (match decodeAll m a with
      | some xs => (decodeAll m b).map (xs ++ ·)
      | none => none) := by
  intro a
  induction a with
  | nil => intro b; simp [decodeAll]
  | cons r rs ih =>
    intro b
    simp only [List.cons_append, decodeAll]
    split
    · rfl
    · split
      · rw [ih b]
        cases decodeAll m rs <;> cases decodeAll m b <;> simp
      · rfl

theorem decodeAll_marshal (m : Nat) : ∀ (es : List Event), (∀ e ∈ es, e.WF ∧ e.marshal.length ≤ m) →
    decodeAll m (es.map (fun e => (recOf e).data)) = some es := by
  intro es
  induction es with
  | nil => intro _; rfl
  | cons e es ih =>
    intro h
    have ⟨hw, hl⟩ := h e (by simp)
    have hnot : ¬ e.marshal.length > m := by omega
    simp only [List.map_cons, decodeAll, recOf, hnot, ↓reduceIte, event_roundtrip e hw]
    have := ih (fun x hx => h x (by simp [hx]))
    simp only [recOf] at this
    rw [this]; rfl

theorem strictLoop_encode (parseKV : Bytes → Option Bytes) (wf : Bytes) : ∀ (evs : List WEvent),
    (∀ e ∈ evs, e.WF) → (∀ e ∈ evs, (parseKV e.fields).isSome) →
    strictLoop parseKV wf evs.length (encodeEvents evs) = some (evs.map (storedModel parseKV wf)) := by
  intro evs
  induction evs with
  | nil => intro _ _; rfl
  | cons e es ih =>
    intro hwf hok
    have hd := decodeEvent_encode e (encodeEvents es) (hwf e (by simp))
    have hp := hok e (by simp)
    cases hpe : parseKV e.fields with
    | none => simp [hpe] at hp
    | some ef =>
      simp only [List.length_cons, strictLoop, encodeEvents, hd, hpe, drop_encodeEvent]
      rw [ih (fun x hx => hwf x (by simp [hx])) (fun x hx => hok x (by simp [hx]))]
      simp [storedModel, hpe, wpFields_eq]

/-- **Acknowledged ⇒ servable and faithful, outside the three open classes** (finding #20): for a *complete* client
packet (class ii excluded) whose per-event field texts all parse (class iii excluded) and whose records fit
`maxRecordSize` (class i excluded), the server acknowledges, the partition then reads back as the old events followed
by the batch — every chunk size, every alignment, every batch size — and the stored events are exactly what the strict
decoder demands. -/
theorem ackd_implies_servable_partial (parseKV : Bytes → Option Bytes) (maxChunk maxRec : Nat) (j : Journal)
    (old : List Event) (tags flds wf : Bytes) (evs : List WEvent)
    (hm : 1 ≤ maxChunk) (hold : readEvents maxRec j = some old)
    (ht : Small tags) (hf : Small flds) (hp : parseKV flds = some wf) (hn : evs.length < two32)
    (hwf : ∀ e ∈ evs, e.WF)
    (hok : ∀ e ∈ evs, (parseKV e.fields).isSome)
    (hfit : ∀ e ∈ evs, (storedModel parseKV wf e).WF ∧ (storedModel parseKV wf e).marshal.length ≤ maxRec) :
    ∃ j', serveWrite parseKV maxChunk j (wpEncode tags flds evs) = some (j', evs.map (storedModel parseKV wf)) ∧
      readEvents maxRec j' = some (old ++ evs.map (storedModel parseKV wf)) ∧
      wpDrainStrict parseKV (wpEncode tags flds evs) = some (tags, evs.map (storedModel parseKV wf)) := by
  have hd := packet_roundtrip parseKV tags flds wf evs ht hf hp hn hwf (fun _ => hok)
  obtain ⟨e1, e2, _⟩ := write_appends maxChunk hm j ((evs.map (storedModel parseKV wf)).map recOf)
  refine ⟨(serviceWrite maxChunk j ((evs.map (storedModel parseKV wf)).map recOf)).1, ?_, ?_, ?_⟩
  · simp only [serveWrite, hd, e1, Bool.false_eq_true, ↓reduceIte]
  · unfold readEvents at hold ⊢
    have hdata : List.map (fun x => x.data) (List.map recOf (List.map (storedModel parseKV wf) evs))
        = (List.map (storedModel parseKV wf) evs).map (fun e => (recOf e).data) := by
      rw [List.map_map]; rfl
    have := decodeAll_marshal maxRec (evs.map (storedModel parseKV wf)) (by
      intro e he
      obtain ⟨w, hw, rfl⟩ := List.mem_map.mp he
      exact hfit w hw)
    rw [e2, decodeAll_append, hold, hdata, this]; rfl
  · obtain ⟨it, hi, h1, h2, h3, h4, _, _⟩ := wpInit_encode parseKV tags flds wf evs ht hf hp hn hwf (fun _ => hok)
    simp only [wpDrainStrict, hi, h1, h2, h3, h4, strictLoop_encode parseKV wf evs hwf hok]
    rfl

/-- what the repaired `init` (regenerated fact `wpInitValidatesEvents = true`, /repo c6bbc14) guarantees of every iterator it
hands out: the strict decoder accepts the events area -/
theorem wpInit_ok_validated (parseKV : Bytes → Option Bytes) (body : Bytes) (it : WpIter)
    (h : wpInit parseKV body = .ok it) :
    ∃ es, strictLoop parseKV it.flds it.recs it.rest = some es ∧ it.read = false ∧ it.cur = 0 ∧
      it.rest.length ≤ body.length := by
  have hf : Generated.C01.wpInitValidatesEvents = true := by decide
  unfold wpInit at h
  simp only [hf, ↓reduceIte] at h
  repeat' split at h
  all_goals first
    | (simp at h; done)
    | (simp only [Out.ok.injEq] at h; subst h; exact ⟨_, ‹_›, rfl, rfl, by simp only [List.length_drop]; omega⟩)

/-- **Whatever packet the server accepts is a strictly well-formed packet, and the events it stores are the ones the strict
decoder yields** — for EVERY request body (truncated, corrupted, any field text) and every field parser: a packet with fewer
events than announced, or with an event whose own field text does not parse, is never drained (former findings F20b/F20c). -/
theorem acked_packet_is_strict (parseKV : Bytes → Option Bytes) (body tags : Bytes) (es : List Event)
    (h : wpDrain parseKV body = .ok (tags, es)) : wpDrainStrict parseKV body = some (tags, es) := by
  unfold wpDrain at h
  cases hi : wpInit parseKV body with
  | err => simp [hi] at h
  | panic => simp [hi] at h
  | ok it =>
    obtain ⟨es', hs, hr, hc, hl⟩ := wpInit_ok_validated parseKV body it hi
    have hn := strictLoop_len parseKV it.flds it.recs it.rest es' hs
    have hloop := strict_implies_loop parseKV it.recs it es' (body.length + 1) hs hr (by omega) (by omega)
    simp only [hi, hloop, Out.ok.injEq, Prod.mk.injEq] at h
    simp only [wpDrainStrict, hi, hs, Option.map_some, h.1, h.2]

/-- lemma form (the unsized model `serveWrite`, records assumed to fit): for EVERY request body the server
acknowledges over a readable partition — provided the records it produces fit `maxRecordSize` —
the partition afterwards reads back as the old events followed by the acknowledged ones (every chunk size, alignment, batch
size), and the acknowledged events are exactly what the strict decoder yields for that body. -/
theorem ackd_implies_servable_fitting (parseKV : Bytes → Option Bytes) (maxChunk maxRec : Nat) (j j' : Journal) (body : Bytes)
    (es old : List Event) (hm : 1 ≤ maxChunk) (hold : readEvents maxRec j = some old)
    (hack : serveWrite parseKV maxChunk j body = some (j', es))
    (hfit : ∀ e ∈ es, e.WF ∧ e.marshal.length ≤ maxRec) :
    readEvents maxRec j' = some (old ++ es) ∧ ∃ tags, wpDrainStrict parseKV body = some (tags, es) := by
  unfold serveWrite at hack
  cases hd : wpDrain parseKV body with
  | err => simp [hd] at hack
  | panic => simp [hd] at hack
  | ok p =>
    obtain ⟨tags, es0⟩ := p
    simp only [hd] at hack
    obtain ⟨e1, e2, _⟩ := write_appends maxChunk hm j (es0.map recOf)
    simp only [e1, Bool.false_eq_true, ↓reduceIte, Option.some.injEq, Prod.mk.injEq] at hack
    obtain ⟨hj, hes⟩ := hack
    subst hes
    refine ⟨?_, tags, acked_packet_is_strict parseKV body tags es0 hd⟩
    rw [← hj]
    unfold readEvents at hold ⊢
    have hdata : List.map (fun x => x.data) (List.map recOf es0) = es0.map (fun e => (recOf e).data) := by
      rw [List.map_map]; rfl
    rw [e2, decodeAll_append, hold, hdata, decodeAll_marshal maxRec es0 hfit]; rfl

/-- the parser used by the counterexamples: `w=1`-style texts are irrelevant; only `""` parses -/
def onlyEmpty (t : Bytes) : Option Bytes := if t = [] then some [] else none

/-- **Retired counterexample, class (i)** — a statement about the OTHER branch of the regenerated fact (the code before /repo
e9a3bba, `ingestorChecksRecordSize = false`; vacuous on the current tree, see `repaired_ingestor_rejects_oversize`): a record longer than `maxRecordSize` (15 bytes against 12) is acknowledged
and afterwards the partition — readable before — cannot be read at all. -/
theorem cex_oversize_record_acknowledged : Generated.C01.ingestorChecksRecordSize = false →
    readEvents 12 [] = some [] ∧
    (match serveWriteSized onlyEmpty 100 12 [] (wpEncode [] [] [⟨1, [1, 2, 3, 4, 5], [], []⟩]) with
     | some (j', es) => decide (es = [⟨1, [1, 2, 3, 4, 5], []⟩] ∧ readEvents 12 j' = none)
     | none => false) = true := by decide

/-- **Regression statement for former finding F20a** (/repo e9a3bba: the validation pass of `wpIterator.init` rejects a packet
holding an event whose record would exceed the chunk reader's maximum record size): the witness packet is rejected as a whole —
also when the oversize event is not the first one —, and a record of exactly the limit is accepted. Unconditional: reverting
the repair flips the regenerated fact `ingestorChecksRecordSize` and breaks this theorem. -/
theorem repaired_ingestor_rejects_oversize :
    serveWriteSized onlyEmpty 100 12 [] (wpEncode [] [] [⟨1, [1, 2, 3, 4, 5], [], []⟩]) = none ∧
    serveWriteSized onlyEmpty 100 12 [] (wpEncode [] [] [⟨7, [9], [], []⟩, ⟨1, [1, 2, 3, 4, 5], [], []⟩]) = none ∧
    (serveWriteSized onlyEmpty 100 12 [] (wpEncode [] [] [⟨1, [1, 2], [], []⟩])).isSome = true := by decide

/-- **Retired counterexample, class (ii)** — a statement about the OTHER branch of the regenerated fact (the code before
/repo c6bbc14, `wpInitValidatesEvents = false`; vacuous on the current tree, see `repaired_init_rejects`): a request
body cut one byte short of its second event is acknowledged with the first event only; the strict decoder rejects it. -/
theorem cex_truncated_packet_acknowledged : Generated.C01.wpInitValidatesEvents = false →
    let body := (wpEncode [] [] [⟨1, [65], [], []⟩, ⟨2, [66], [], []⟩]).dropLast
    (match serveWrite onlyEmpty 100 [] body with
     | some (_, es) => decide (es = [⟨1, [65], []⟩])
     | none => false) = true ∧ wpDrainStrict onlyEmpty body = none := by decide

/-- **Retired counterexample, class (iii)** (same proviso, vacuous on the current tree): an event whose field text does not parse is acknowledged and stored
without its fields; the strict decoder rejects the packet. -/
theorem cex_unparsable_fields_dropped : Generated.C01.wpInitValidatesEvents = false →
    let body := wpEncode [] [] [⟨1, [65], [], ofAscii "oops"⟩]
    (match serveWrite onlyEmpty 100 [] body with
     | some (_, es) => decide (es = [⟨1, [65], []⟩])
     | none => false) = true ∧ wpDrainStrict onlyEmpty body = none := by decide

/-- **Regression statement for former findings F20b/F20c** (/repo c6bbc14: `wpIterator.init` decodes every announced event and
parses its field text before anything is written): the witnesses are rejected as a whole — nothing is stored, not even the
events before the bad one. Unconditional: reverting the repair flips the regenerated fact and breaks this theorem. -/
theorem repaired_init_rejects :
    serveWrite onlyEmpty 100 [] (wpEncode [] [] [⟨1, [65], [], []⟩, ⟨2, [66], [], []⟩]).dropLast = none ∧
    serveWrite onlyEmpty 100 [] (wpEncode [] [] [⟨1, [65], [], ofAscii "oops"⟩]) = none ∧
    serveWrite onlyEmpty 100 [] (wpEncode [] [] [⟨1, [65], [], []⟩, ⟨2, [66], [], ofAscii "oops"⟩]) = none := by decide

/-- retired with it: on the other branch the full clause fails (vacuous on the current tree; see `C01_full_holds`) -/
theorem not_C01_full : Generated.C01.ingestorChecksRecordSize = false → ¬ C01_full := by
  intro hfact h
  obtain ⟨h2, h1⟩ := cex_oversize_record_acknowledged hfact
  cases hs : serveWriteSized onlyEmpty 100 12 [] (wpEncode [] [] [⟨1, [1, 2, 3, 4, 5], [], []⟩]) with
  | none => simp [hs] at h1
  | some p =>
    obtain ⟨j', es⟩ := p
    simp only [hs, decide_eq_true_eq] at h1
    have := (h onlyEmpty 100 12 [] j' _ es [] (by decide) h2 hs).1
    rw [h1.2] at this
    exact absurd this (by simp)

/-- **The size `init` would check is the size that gets stored**: `LogEvent.WritableSize()` of the event with write-level fields
followed by its own fields — what the proposed check computes — is exactly the length of the record `iwrapper` marshals for
the event `wpIterator.Get` hands over (same fields by `wpFields_eq`; the timestamp has a fixed width). -/
theorem init_size_eq_marshalled_size (parseKV : Bytes → Option Bytes) (wf : Bytes) (e : WEvent) (ef : Bytes)
    (hp : parseKV e.fields = some ef) :
    (⟨e.ts, e.msg, wf ++ ef⟩ : Event).writableSize = (recOf (storedModel parseKV wf e)).data.length := by
  simp [recOf, storedModel, hp, wpFields_eq, writableSize_eq_marshal_length]

/-- **Acknowledged ⇒ servable and faithful — no class excluded** (after /repo c6bbc14 and e9a3bba): for EVERY request body
`ServerIngestor.write` acknowledges over a readable partition, with the record-size limit the readers use (`0 < maxRec`), the
partition afterwards reads back as the old events followed by the acknowledged ones — every chunk size, alignment, batch
size — and the acknowledged events are exactly what the strict decoder yields for that body (complete packet, every field text
parses, write-level fields before own fields). (`e.WF`: the decoded values are Go values — 64-bit timestamp, slices below 2⁶³
bytes.) Scope: the RPC write path; in-process callers of `partition.Service.Write` (the pipe worker) are not covered. -/
theorem ackd_implies_servable (parseKV : Bytes → Option Bytes) (maxChunk maxRec : Nat) (j j' : Journal) (body : Bytes)
    (es old : List Event) (hm : 1 ≤ maxChunk) (hr : 0 < maxRec) (hold : readEvents maxRec j = some old)
    (hack : serveWriteSized parseKV maxChunk maxRec j body = some (j', es))
    (hwf : ∀ e ∈ es, e.WF) :
    readEvents maxRec j' = some (old ++ es) ∧ ∃ tags, wpDrainStrict parseKV body = some (tags, es) := by
  have hfact : Generated.C01.ingestorChecksRecordSize = true := by decide
  unfold serveWriteSized at hack
  split at hack
  · simp at hack
  · rename_i hrej
    -- the strict decoder yields the acknowledged events …
    have hstrict : ∃ tags, wpDrainStrict parseKV body = some (tags, es) := by
      unfold serveWrite at hack
      cases hd : wpDrain parseKV body with
      | err => simp [hd] at hack
      | panic => simp [hd] at hack
      | ok p =>
        obtain ⟨tags, es0⟩ := p
        simp only [hd] at hack
        split at hack
        · simp at hack
        · simp only [Option.some.injEq, Prod.mk.injEq] at hack
          exact ⟨tags, by rw [← hack.2]; exact acked_packet_is_strict parseKV body tags es0 hd⟩
    obtain ⟨tags, hs⟩ := hstrict
    -- … and none of them was too big, or the packet would have been rejected
    have hfit : ∀ e ∈ es, e.WF ∧ e.marshal.length ≤ maxRec := by
      intro e he
      refine ⟨hwf e he, ?_⟩
      have hne : (maxRec != 0) = true := by simp; omega
      simp only [sizeRejected, hfact, hne, hs, Bool.true_and, Bool.not_eq_true, Bool.not_eq_false',
        List.all_eq_true, decide_eq_true_eq] at hrej
      rw [← writableSize_eq_marshal_length]
      exact hrej e he
    exact ackd_implies_servable_fitting parseKV maxChunk maxRec j j' body es old hm hold hack hfit

/-- **The "rejected, not acknowledged" clause now holds of the RPC write path** — `C01_full` for Go values (`e.WF`) and a
positive record-size limit; what remains open for C01 is the reader-side race F34 (library iterator), which this clause is not
about. -/
theorem C01_full_holds (parseKV : Bytes → Option Bytes) (maxChunk maxRec : Nat) (j j' : Journal) (body : Bytes)
    (es old : List Event) (hm : 1 ≤ maxChunk) (hr : 0 < maxRec) (hold : readEvents maxRec j = some old)
    (hack : serveWriteSized parseKV maxChunk maxRec j body = some (j', es)) (hwf : ∀ e ∈ es, e.WF) :
    readEvents maxRec j' = some (old ++ es) ∧ ∃ tags, wpDrainStrict parseKV body = some (tags, es) :=
  ackd_implies_servable parseKV maxChunk maxRec j j' body es old hm hr hold hack hwf

/-- non-vacuity of `ackd_implies_servable_partial`: a two-event packet with write-level and own fields over a
journal whose last chunk is full -/
example : (match serveWrite (fun t => if t = [] then some [] else if t = ofAscii "w=1" then some [1, 119, 1, 49] else if t = ofAscii "k=v" then some [1, 107, 1, 118] else none)
    20 [⟨[[32, 0, 0, 0, 0, 0, 0, 0, 9, 0]], 30⟩] (wpEncode (ofAscii "a=b") (ofAscii "w=1") [⟨1, ofAscii "m", [], ofAscii "k=v"⟩, ⟨2, [], [], []⟩]) with
    | some (j', es) => decide (es = [⟨1, ofAscii "m", [1, 119, 1, 49, 1, 107, 1, 118]⟩, ⟨2, [], [1, 119, 1, 49]⟩] ∧
        readEvents 64 j' = some [⟨9, [], []⟩, ⟨1, ofAscii "m", [1, 119, 1, 49, 1, 107, 1, 118]⟩, ⟨2, [], [1, 119, 1, 49]⟩])
    | none => false) = true := by decide

/-! ## concurrent writers -/

/-- **Per-writer order and exactly-once under every interleaving**: for any number of writers, any batches, any
`maxChunkSize` and EVERY schedule of the atomic steps (`submit`, `GetChunkForWrite`, one `Chunk.write` call) — so also when a
batch spans a roll-over and is split by other writers' records — the journal filtered by writer `w` is the concatenation of
the batches `w` has submitted, in order, minus exactly the not-yet-written rest of its current batch; once `w` is outside
`Service.Write` (all its batches acknowledged) it is exactly its acknowledged batches in write order. -/
theorem writers_interleave (maxChunk : Nat) (sched : List WritersLts.Label) (w : Nat) :
    let s := WritersLts.run maxChunk {} sched
    WritersLts.byWriter w (WritersLts.readAll s.chunks) ++ (s.loc w).pending = (s.loc w).submitted.flatten ∧
    ((s.loc w).active = false →
      WritersLts.byWriter w (WritersLts.readAll s.chunks) = (s.loc w).submitted.flatten) := by
  intro s
  have h := WritersLts.run_inv maxChunk sched {} WritersLts.init_inv w
  refine ⟨h.stored, fun ha => ?_⟩
  have := h.stored
  rw [h.idle ha, List.append_nil] at this
  exact this

/-- **No duplicates, nothing foreign**: under every schedule each record occurs in the journal exactly as often as its
writer submitted it, not counting the unwritten rest of that writer's current batch. -/
theorem writers_exactly_once (maxChunk : Nat) (sched : List WritersLts.Label) (r : WritersLts.TRec) :
    let s := WritersLts.run maxChunk {} sched
    (WritersLts.readAll s.chunks).count r + ((s.loc r.w).pending).count r = ((s.loc r.w).submitted.flatten).count r := by
  intro s
  have h := (writers_interleave maxChunk sched r.w).1
  have hc : (WritersLts.byWriter r.w (WritersLts.readAll s.chunks)).count r = (WritersLts.readAll s.chunks).count r := by
    unfold WritersLts.byWriter
    rw [List.count_filter]; simp
  rw [← hc, ← List.count_append]
  exact congrArg (List.count r) h

/-- non-vacuity: writer 1's three-record batch spans a roll-over (two records fit a chunk) and writer 2's record lands
between its second and third record; both writers end outside `Service.Write` -/
example :
    let s := WritersLts.run 10 {} [.submit 1 [[1], [2], [3]], .submit 2 [[9]], .getChunk 1, .chunkWrite 1, .getChunk 2,
      .chunkWrite 2, .getChunk 2, .chunkWrite 2, .getChunk 1, .chunkWrite 1]
    s.chunks.map (fun c => c.recs.map (fun r => (r.w, r.data))) = [[(1, [1]), (1, [2])], [(2, [9]), (1, [3])]] ∧
    (s.loc 1).active = false ∧ (s.loc 2).active = false := by decide

/-! ## a reader at the tail racing a writer (finding #34, library `journal.JIterator`) -/

/-- **Counterexample (F34)**: the new chunk's confirmed count grows from 0 to 150 between the chunk iterator's end-of-data
decision and the `Count()` read the end-of-data position is built from (script `[0, 150]`): the first `Get` reports EOF with
`Pos = (20, 150)` and none of the 150 records is returned by any of the next ten polls — the class predicate `grew` holds. -/
theorem cex_count_grows_between_decision_and_position :
    JIterObs.probe 3 [0, 150] 700 10 = ⟨true, (20, 150), [], true⟩ := by decide

/-- the same observation one read earlier (script `[150]`) or with both reads of the end-of-data step equal (`[0, 0, 150]`):
every record is delivered, in order (5 records here; the harness runs 150) -/
theorem no_growth_inside_the_step_delivers_all :
    (JIterObs.probe 3 [5] 60 10).delivered = List.range 5 ∧ (JIterObs.probe 3 [5] 60 10).grew = false ∧
    (JIterObs.probe 3 [0, 0, 5] 60 10).delivered = List.range 5 ∧ (JIterObs.probe 3 [0, 0, 5] 60 10).grew = false := by
  decide

/-- the tail model (on which the next theorem is proved) and the general observation model agree on the scripts of the
counterexamples (the harness compares them with each other and with the real iterator on every script it runs) -/
theorem tail_model_agrees_on_witnesses :
    JIterObs.Tail.probe [0, 150] 700 10 = JIterObs.probe 3 [0, 150] 700 10 ∧
    JIterObs.Tail.probe [0, 0, 0, 2] 60 10 = JIterObs.probe 3 [0, 0, 0, 2] 60 10 ∧
    JIterObs.Tail.probe [0, 1, 1, 3] 60 10 = JIterObs.probe 3 [0, 1, 1, 3] 60 10 := by decide

/-- **No skip when every end-of-data step sees one count**: for a reader on the journal's last chunk, every sequence of
confirmed-count observations that only grows, and any number of `Get`/`Next`/poll steps — if in every end-of-data step the
count the position is built from equals the count the EOF decision was taken against (`c₁ = c₂`: the run is `stable`), then at
every step what the reader has been handed is exactly the first `pos` records of the chunk, in stored order (a prefix of the
stored sequence: nothing skipped, nothing repeated), and its position is that prefix's length. -/
theorem tail_read_no_skip_partial (obs : Nat → Nat) (hm : JIterObs.Tail.Mono obs) (n : Nat) :
    let r := JIterObs.Tail.run obs n {}
    r.stable = true → r.delivered = List.range r.delivered.length ∧ r.s.pos = r.delivered.length := by
  intro r hs
  have h := JIterObs.Tail.run_inv obs hm n {} (JIterObs.Tail.init_inv obs) hs
  exact ⟨h.pre, h.pos⟩

/-- non-vacuity: a count that grows 0 → 1 → 3 *between* steps is stable and the reader gets all three records;
the same growth inside an end-of-data step (`[0, 3]`) is not stable and the reader is left at position 3 with nothing -/
example : let r := JIterObs.Tail.run (JIterObs.Tail.scriptObs [0, 0, 1, 1, 1, 1, 1, 3]) 8 {}
    r.stable = true ∧ r.delivered = [0, 1, 2] := by decide
example : let r := JIterObs.Tail.run (JIterObs.Tail.scriptObs [0, 3]) 8 {}
    r.stable = false ∧ r.delivered = [] ∧ r.s.pos = 3 := by decide

end Logrange.Props.C01
