import Logrange.Proofs.LineReader
import Logrange.Proofs.ScanWorker
import Logrange.Proofs.ScanDrain
import Logrange.Model.Descs
import Logrange.Generated.C17
import Logrange.Model.StateFile
/-!
# C17 — Collector ships every byte of a tailed file once, in order; offsets resume

Property theorems only. Models: `Model/LineReader.lean` (bufio.ReadSlice contract on a growing source,
`lineReader.readLine`, parser offsets), `Model/ScanWorker.lean` (the worker loop, persist, stop-on-EOF, cancel as
a labelled transition system), `Model/Descs.lean` (`mergeDescs`). Lemmas: `Proofs/LineReader.lean`,
`Proofs/ScanWorker.lean`.
-/
namespace Logrange.Props.C17
open Logrange.LineReader Logrange.ScanWorker Logrange.Descs

/-! ## the reader: every byte once, in order; split, never dropped -/

/-- **`lines_concat`** For every script `src` (content of the file from `start` on *and* the way it arrives:
pieces, EOFs in between, cancellation), every buffer size `B`, any number `n` of `NextRecord` calls after
`SetStreamPos(start)` (the caller polls again after every EOF): the records are the reader's lines; the returned
lines, then the partial line the reader keeps (`pend`), then what bufio still buffers, then what the source has
not delivered yet are together exactly the file's bytes from `start` — nothing dropped, duplicated or reordered —,
and the parser's position is `start` plus the number of bytes returned (so `lines ++ pend = file[start … consumed)`). -/
theorem lines_concat (B n start : Nat) (src : List Piece) :
    let p := setStreamPos start src
    let recs := (nextRecords B n p).1
    let p' := (nextRecords B n p).2
    recs = (readLines B n p.lr).1 ∧
    recs.flatten ++ p'.lr.pend ++ p'.lr.buf ++ flat p'.lr.pieces = flat src ∧
    p'.pos = start + recs.flatten.length := by
  intro p recs p'
  have h1 := nextRecords_lines B n p
  have h2 := readLines_conserve B n p.lr
  have h3 := nextRecords_pos B n p
  refine ⟨h1.1, ?_, h3⟩
  show (nextRecords B n p).1.flatten ++ (nextRecords B n p).2.lr.pend ++ (nextRecords B n p).2.lr.buf
    ++ flat (nextRecords B n p).2.lr.pieces = _
  rw [h1.1, h1.2, h2]
  simp [p, setStreamPos]

/-- **`line_shape`** Every returned record ends with the newline or is at least one buffer (`B` = the record
limit) long — a long line is split, never dropped — and contains no newline before its last byte (records are cut
at the first newline). -/
theorem line_shape (B n start : Nat) (src : List Piece) (l : Bytes)
    (h : l ∈ (nextRecords B n (setStreamPos start src)).1) :
    (l.getLast? = some 10 ∨ B ≤ l.length) ∧ (10 : UInt8) ∉ l.dropLast := by
  rw [(nextRecords_lines B n _).1] at h
  exact readLines_shape B n _ (by simp [PendOk, setStreamPos]) l h

/-- records are never empty (the record limit the configuration accepts is at least bufio's minimum) -/
theorem record_nonempty (B n start : Nat) (hB : 1 ≤ B) (src : List Piece) (l : Bytes)
    (h : l ∈ (nextRecords B n (setStreamPos start src)).1) : l ≠ [] := by
  have := (line_shape B n start src l h).1
  intro e; subst e
  rcases this with h | h
  · simp at h
  · simp at h; omega

/-- `ReadSlice` always answers: the model's fuel (`sliceFuel`) is sufficient for every source. -/
theorem readSlice_answers (B : Nat) (s : St) : (readSlice B (sliceFuel s) s).2 ≠ .oof :=
  readSlice_fuel B (sliceFuel s) s (by simp [sliceFuel])

/-- **`partial_line_poll_reports_eof`** (what fix 7a8317a establishes at the reader): with nothing buffered and the
source reporting EOF for now, one call answers EOF at once — whatever partial line is pending — and keeps that
partial line unchanged for the next call. (Before the fix the call never returned while a partial line was
pending: finding F50.) -/
theorem partial_line_poll_reports_eof (B : Nat) (hB : 0 < B) (s : St) (ps : List Piece)
    (hc : s.cancelled = false) (hb : s.buf = []) (hp : s.pieces = .eof :: ps) :
    (readLine B s).2 = .eof ∧ (readLine B s).1.pend = s.pend ∧ (readLine B s).1.pieces = ps := by
  rw [readLine_at_source_eof B s ps hc hb hB hp]
  exact ⟨rfl, rfl, rfl⟩

/-- the code facts the model's offset accounting rests on, as the extractor reads them from `/repo` now -/
theorem code_facts :
    Generated.C17.posAdvancesByLineLength = true ∧ Generated.C17.setOffsetOnlyAfterConfirm = true ∧
    Generated.C17.finalPersistAfterLoop = true ∧ Generated.C17.eventGetsOwnRecordSlice = true ∧
    Generated.C17.readerKeepsPartialReportsEOF = true ∧ Generated.C17.stateFileReplacedAtomically = true ∧
    16 ≤ Generated.C17.recordMaxSizeMin ∧
    Generated.C17.recordMaxSizeMin ≤ Generated.C17.recordMaxSizeDefault ∧
    Generated.C17.recordMaxSizeDefault ≤ Generated.C17.recordMaxSizeMax := by decide

/-- two more code shapes the models rest on, regenerated: `scanPaths` lists a file whatever its size — so an emptied file
is SEEN by `mergeDescs` with its size 0 and restarts (`same_id_shrunk_restarts`, `truncated_file_read_from_beginning`)
instead of counting as "missing from this scan" —, and every `persistState` call that could marshal the descriptors
hands them to the storage (the `persist` / `finalPersist` steps of the worker LTS write: `graceful_restart_exact`) -/
theorem scan_and_persist_facts :
    Generated.C17.scanListsFilesOfAnySize = true ∧ Generated.C17.persistAlwaysWrites = true := by decide

/-! ## the worker: persisted offsets are ends of confirmed records -/

theorem step_start (c : Cfg) (s s' : S) (l : L) (hs : step c s l = some s') : s'.start = s.start := by
  cases l <;> simp only [step] at hs <;> (repeat' split at hs) <;>
    first
    | (obtain rfl := Option.some.inj hs; rfl)
    | cases hs

theorem run_start (c : Cfg) : ∀ (tr : List L) (s : S), (run c s tr).start = s.start
  | [], s => rfl
  | l :: ls, s => by
    simp only [run]
    cases hs : step c s l with
    | none => exact run_start c ls s
    | some s' => rw [run_start c ls s', step_start c s s' l hs]

/-- **`offset_is_confirmed_end`** (every configuration, every interleaving of worker steps, consumer, persist
ticks, stop-on-EOF and cancel, any length): the in-memory offset and the persisted offset are the session's start
offset or the parser position at a confirm rendez-vous; each such position is the start plus the bytes of a
prefix of the confirmed records (an end of a confirmed record); `persisted ≤ offset ≤ start + confirmed bytes`;
while no batch was abandoned `offset ≤ parser position`; and the confirmed records are a prefix of what the
parser returned — in order, none skipped, none twice. -/
theorem offset_is_confirmed_end (c : Cfg) (start : Nat) (tr : List L) :
    let s := run c (init start) tr
    s.offset ∈ start :: s.ends ∧ s.persisted ∈ start :: s.ends ∧
    (∀ e ∈ s.ends, ∃ k, k ≤ s.confirmed.length ∧ e = start + bytesOf (s.confirmed.take k)) ∧
    s.persisted ≤ s.offset ∧ s.offset ≤ start + bytesOf s.confirmed ∧
    (s.dropped = false → s.offset ≤ s.pos) ∧
    s.confirmed <+: s.readLog := by
  intro s
  have h : WInv s := winv_run c tr (init start) (winv_init start)
  have hst : s.start = start := run_start c tr (init start)
  obtain ⟨a1, a2, a3, a4, a5, a6, a7, a8, a9, a10, a11, a12⟩ := h
  rw [hst] at a5 a6 a8
  have hoff : s.offset ≤ start + bytesOf s.confirmed := by
    have := a3; simp only [confEnd, hst] at this; omega
  refine ⟨a5, a6, a8, a7, hoff, ?_, a9⟩
  intro hd
  have := a1 hd
  simp only [confEnd, hst] at this
  split at this <;> omega

/-- the worker configuration of the code as it is now: where the state is sampled and where the final persist
stands are regenerated from `/repo` -/
def codeCfg (recsPerEvent : Nat) : Cfg :=
  ⟨recsPerEvent, Generated.C17.stateSampledBeforeNextRecord, Generated.C17.finalPersistAfterWorkersWait⟩

/-- what "a graceful stop and a restart neither re-send a confirmed byte nor skip one" needs from the final
persist: whenever it can run, it stores exactly the end of the confirmed bytes -/
def GracefulExact (c : Cfg) : Prop :=
  ∀ (start : Nat) (tr : List L) (s' : S),
    step c (run c (init start) tr) .finalPersist = some s' →
      s'.persisted = s'.start + bytesOf s'.confirmed ∧ s'.confirmed <+: s'.readLog

/-- **`graceful_restart_exact`** (the code as it is now, fix c6aad9a; every interleaving, no side condition): the
final persist runs only after the worker has left its loop, hence after its last `setOffset`; it stores exactly
the start plus all confirmed bytes, and the confirmed records are a prefix of what was read. The next session's
`SetStreamPos(persisted)` continues with the first unconfirmed byte (`lines_concat` from there): nothing
confirmed is re-sent, nothing skipped. -/
theorem graceful_restart_exact (k : Nat) : GracefulExact (codeCfg k) := by
  intro start tr s' hp
  have hfact : Generated.C17.finalPersistAfterWorkersWait = true := by decide
  have hcfg : (codeCfg k).finalAfterWorkers = true := hfact
  have h : WInv (run (codeCfg k) (init start) tr) := winv_run _ tr (init start) (winv_init start)
  simp only [step, hcfg, Bool.not_true, Bool.false_or] at hp
  split at hp
  · rename_i hcond
    simp only [Bool.and_eq_true, beq_iff_eq] at hcond
    simp only [Option.some.injEq] at hp
    subst hp
    have := h.offEq
    simp only [hcond.2, isSetting, confEnd] at this
    exact ⟨by simpa using this, h.pre⟩
  · cases hp

/-- a *periodic* persist that does not fall between a confirm rendez-vous and its `setOffset` stores exactly the
end of the confirmed bytes (one that does fall there lags by that one event: `crash_resends_bounded`) -/
theorem persist_outside_window_exact (c : Cfg) (start : Nat) (tr : List L) (s' : S)
    (hwin : isSetting (run c (init start) tr).pc = false)
    (hp : step c (run c (init start) tr) .persist = some s') :
    s'.persisted = s'.start + bytesOf s'.confirmed ∧ s'.confirmed <+: s'.readLog := by
  have h := winv_run c tr (init start) (winv_init start)
  simp only [step, Option.some.injEq] at hp
  subst hp
  have := h.offEq
  simp only [hwin, confEnd] at this
  exact ⟨by simpa using this, h.pre⟩

/-- **`cex_final_persist_before_workers`** (finding F17, fixed by c6aad9a — kept as the behaviour of the *old*
order): with the final persist running as soon as the context is cancelled, `confirm, cancel, finalPersist,
setOffset` stores the old offset, so the confirmed record is sent again by the next session. -/
theorem cex_final_persist_before_workers : ¬ GracefulExact ⟨1, true, false⟩ := by
  intro h
  have := (h 0 [.step, .next (.record [97, 10]), .step, .send, .confirm, .cancel] _ rfl).1
  revert this
  decide

/-- **`crash_resends_bounded`** At every moment the stored offset is at most the end of the confirmed bytes and
is an offset the worker had set; unless the last persist fell into the rendez-vous/`setOffset` window it equals
the confirmed end *at that persist*: a crash re-sends exactly what was confirmed since the last save. -/
theorem crash_resends_bounded (c : Cfg) (start : Nat) (tr : List L) :
    let s := run c (init start) tr
    s.persisted ≤ start + bytesOf s.confirmed ∧ s.confAtPersist ≤ start + bytesOf s.confirmed ∧
    (s.persistInWindow = false → s.persisted = s.confAtPersist) := by
  intro s
  have h : WInv s := winv_run c tr (init start) (winv_init start)
  have hst : s.start = start := run_start c tr (init start)
  have h3 := h.offEq
  have h12 := h.confMono
  simp only [confEnd, hst] at h3 h12
  exact ⟨by have := h.perLe; omega, h12, h.noRace⟩

/-- **`drains_when_quiet`** (eventual completeness, bounded form). Take any reachable state at a quiet loop head
(not cancelled, not told to stop, no batch abandoned). If the file has stopped growing with the complete lines
`lines` still unread — `NextRecord` answers them one by one and then EOF (`lines_concat`: these are exactly the file's
bytes up to the last complete line) — and the consumer takes and confirms every event at once, then the system
follows the schedule `drain` of at most `7 · |lines| + 7` steps (`|lines|` ≤ pending bytes, records are
non-empty; per line 4 steps, 7 when it completes a batch of `k`), after which every pending line has been handed
over and confirmed (the batch in progress included), the offset is the parser position = start + all confirmed
bytes, and the next persist stores exactly that end. -/
theorem drains_when_quiet (k start : Nat) (hk : 1 ≤ k) (tr : List L) (lines : List Bytes) :
    let s := run (codeCfg k) (init start) tr
    Quiet s → s.dropped = false →
    let sched := drain k s.recs.length lines
    let s' := run (codeCfg k) s sched
    sched.length ≤ 7 * lines.length + 7 ∧
    s'.confirmed = s.confirmed ++ s.recs ++ lines ∧ s'.recs = [] ∧
    s'.pos = s.pos + bytesOf lines ∧ s'.offset = s'.pos ∧ s'.pos = start + bytesOf s'.confirmed ∧
    ∀ s'', step (codeCfg k) s' .persist = some s'' → s''.persisted = start + bytesOf s''.confirmed := by
  intro s hq hnd sched s'
  have hw : WInv s := winv_run _ tr (init start) (winv_init start)
  have hst : s.start = start := run_start _ tr (init start)
  have hlen : lenOk k s := lenOk_run (codeCfg k) hk tr (init start) (lenOk_init k start hk)
  have hlt : s.recs.length < k := by
    have := hlen; simp only [lenOk, hq.pc] at this; exact this
  have hoff : s.offset + bytesOf s.recs = s.pos := by
    have h1 := hw.offEq; have h2 := hw.posEq hnd
    simp only [hq.pc, isSetting, Bool.false_eq_true, if_false] at h1 h2
    omega
  have hd : Drained s s' lines := drain_drains (codeCfg k) hk lines s hq hlt hoff
  have hw' : WInv s' := winv_run _ _ s hw
  have hnd' : s'.dropped = false := by rw [hd.dropped]; exact hnd
  have hpos' : s'.pos = start + bytesOf s'.confirmed := by
    have := hw'.posEq hnd'
    simp only [hd.quiet.pc, isSetting, Bool.false_eq_true, if_false, hd.recs, bytesOf_nil, confEnd, hd.start, hst] at this
    omega
  refine ⟨drain_length k lines _, hd.confirmed, hd.recs, hd.pos, hd.offset, hpos', ?_⟩
  intro s'' hp
  simp only [step, Option.some.injEq] at hp
  subst hp
  show s'.offset = start + bytesOf s'.confirmed
  rw [hd.offset, hpos']

/-- **`rotated_partial_line_worker_stops`** (what fix 7a8317a establishes at the worker). Take any reachable state
at a loop head of a worker that was told to run until EOF (its file was rotated out or replaced; not cancelled,
nothing abandoned). If the file no longer grows — `NextRecord` answers the pending complete lines and then EOF,
which the reader now reports at its first poll even while a partial last line is pending
(`partial_line_poll_reports_eof`) — and the consumer confirms at once, then after the schedule `drain` of at most
`7 · |lines| + 7` steps (exactly one EOF poll) the worker has left its loop through the "EOF reached" rule, every
pending complete line has been handed over and confirmed, and the offset is the end of the confirmed bytes: the
worker, its goroutine and its file descriptor are released; the never-completed partial line is not shipped. -/
theorem rotated_partial_line_worker_stops (k start : Nat) (hk : 1 ≤ k) (tr : List L) (lines : List Bytes) :
    let s := run (codeCfg k) (init start) tr
    QuietU s → s.dropped = false →
    let sched := drain k s.recs.length lines
    let s' := run (codeCfg k) s sched
    sched.length ≤ 7 * lines.length + 7 ∧
    s'.pc = .done ∧ s'.stoppedByEof = true ∧ s'.wstate = .stopped ∧
    s'.confirmed = s.confirmed ++ s.recs ++ lines ∧ s'.offset = s'.pos ∧ s'.pos = start + bytesOf s'.confirmed := by
  intro s hq hnd sched s'
  have hw : WInv s := winv_run _ tr (init start) (winv_init start)
  have hst : s.start = start := run_start _ tr (init start)
  have hlen : lenOk k s := lenOk_run (codeCfg k) hk tr (init start) (lenOk_init k start hk)
  have hlt : s.recs.length < k := by
    have := hlen; simp only [lenOk, hq.pc] at this; exact this
  have hoff : s.offset + bytesOf s.recs = s.pos := by
    have h1 := hw.offEq; have h2 := hw.posEq hnd
    simp only [hq.pc, isSetting, Bool.false_eq_true, if_false] at h1 h2
    omega
  have hd : Stopped s s' lines := drain_stops (codeCfg k) hk lines s hq hlt hoff
  have hw' : WInv s' := winv_run _ _ s hw
  have hnd' : s'.dropped = false := by rw [hd.dropped]; exact hnd
  have hpos' : s'.pos = start + bytesOf s'.confirmed := by
    have := hw'.posEq hnd'
    simp only [hd.pc, isSetting, Bool.false_eq_true, if_false, hd.recs, bytesOf_nil, confEnd, hd.start, hst] at this
    omega
  exact ⟨drain_length k lines _, hd.pc, hd.byEof, hd.ws, hd.confirmed, hd.offset, hpos'⟩

/-- **`state_file_old_or_new`** (fix e59ee79) At every crash cut of a save, `scanner.json` holds the old or the new
complete content: what a restart loads is a state that was persisted, so `crash_resends_bounded` speaks about every
crash, also one during a save. -/
theorem state_file_old_or_new (old new c : Bytes)
    (h : c ∈ StateFile.crashCuts Generated.C17.stateFileReplacedAtomically old new) : c = old ∨ c = new := by
  have hf : Generated.C17.stateFileReplacedAtomically = true := by decide
  simpa [StateFile.crashCuts, hf] using h

/-- the in-place write of the old code passes through the empty file and every prefix (fixed finding F60) -/
theorem cex_state_file_in_place :
    ([] : Bytes) ∈ StateFile.crashCuts false [1, 2] [3, 4] ∧ ([3] : Bytes) ∈ StateFile.crashCuts false [1, 2] [3, 4] := by
  decide

/-! ## rotation -/

/-- **`rotated_file_drained`** A worker that ended through the "EOF reached" rule has seen, *after* it was told to
run until EOF, a `NextRecord` that found the file exhausted (so whatever was appended before that read was
shipped or is in the batch being confirmed). For every interleaving. -/
theorem rotated_file_drained (k start : Nat) (tr : List L) :
    let s := run (codeCfg k) (init start) tr
    s.stoppedByEof = true → s.eofSeen = true := by
  intro s hst
  have hfact : Generated.C17.stateSampledBeforeNextRecord = true := by decide
  have hc : (codeCfg k).sampleBefore = true := hfact
  exact ((rinv_run (codeCfg k) hc tr (init start) (rinv_init start)).stopped hst).1

/-- **`cex_stale_eof`** (finding F36, fixed by 91d80cf — kept as the behaviour of the *old* loop): with the state
read in the stop test after the sleep, `EOF, (file grows), stopOnEOF, wake` stops the worker on the stale EOF. -/
theorem cex_stale_eof :
    let s := run ⟨1, false, true⟩ (init 0) [.step, .next .eof, .step, .stopOnEOF, .wake, .step]
    s.stoppedByEof = true ∧ s.eofSeen = false := by decide

/-- `mergeDescs` as the code does it now: whether it stats again is regenerated -/
def codeMerge (old : List Desc) (new : List (Desc × Option Nat)) : List (Desc × Bool) :=
  mergeDescs Generated.C17.mergeRestatsAfterOffset old new Generated.C17.mergeKeepsMissedOneScan
def codeMergeOne := mergeOne Generated.C17.mergeRestatsAfterOffset

/-- **`rotation_new_id_from_zero`** a file whose id is not known is taken with the scanned descriptor (offset 0). -/
theorem rotation_new_id_from_zero (old : List Desc) (new : List (Desc × Option Nat)) (nd : Desc) (rs : Option Nat)
    (h : (nd, rs) ∈ new) (hid : lookup old nd.id = none) : (nd, false) ∈ codeMerge old new := by
  simp only [codeMerge, mergeDescs, List.mem_append, List.mem_map]
  exact Or.inl ⟨(nd, rs), h, by simp [hid, mergeOne]⟩

/-- **`same_id_grown_keeps_offset`** (the code as it is now, fix f247e22). A file that only grows — the scanned size
is at least the size seen last time, a later stat gives at least the scanned size — and whose worker offset, as
every offset, is at most the file's size at the moment it is read, hence at most what a *later* stat answers
(`hoff`; no relation between the offset and the *scanned* size is assumed): the old descriptor, i.e. its offset,
is kept. `restat` is what the second `os.Stat` answers; it is only consulted when the offset is beyond the scanned
size, and must then succeed (`hre`). -/
theorem same_id_grown_keeps_offset (od nd : Desc) (restat : Option Nat) (later : Nat)
    (hgrow1 : od.lastSeenSize ≤ nd.lastSeenSize) (hgrow2 : nd.lastSeenSize ≤ later) (hoff : od.offset ≤ later)
    (hre : nd.lastSeenSize < od.offset → restat = some later) :
    (codeMergeOne (some od) nd restat).2 = true ∧ (codeMergeOne (some od) nd restat).1.offset = od.offset := by
  have hfact : Generated.C17.mergeRestatsAfterOffset = true := by decide
  simp only [codeMergeOne, hfact, mergeOne, effSize, Bool.true_and]
  by_cases hlt : nd.lastSeenSize < od.offset
  · simp only [hlt, decide_true, if_true, hre hlt, Option.getD_some]
    have : od.lastSeenSize ≤ later ∧ od.offset ≤ later := ⟨by omega, hoff⟩
    simp [this]
  · simp only [hlt, decide_false, Bool.false_eq_true, if_false]
    have : od.lastSeenSize ≤ nd.lastSeenSize ∧ od.offset ≤ nd.lastSeenSize := ⟨hgrow1, by omega⟩
    simp [this]

/-- the same id with a size (the one the merge decides with) below what was seen or below the offset — a truncated
file — restarts from the scanned descriptor (offset 0) -/
theorem same_id_shrunk_restarts (od nd : Desc) (restat : Option Nat)
    (h : effSize Generated.C17.mergeRestatsAfterOffset od nd restat < od.lastSeenSize ∨
         effSize Generated.C17.mergeRestatsAfterOffset od nd restat < od.offset) :
    (codeMergeOne (some od) nd restat).2 = false ∧ (codeMergeOne (some od) nd restat).1.offset = nd.offset := by
  simp only [codeMergeOne, mergeOne]
  have : ¬ (od.lastSeenSize ≤ effSize Generated.C17.mergeRestatsAfterOffset od nd restat ∧
      od.offset ≤ effSize Generated.C17.mergeRestatsAfterOffset od nd restat) := by omega
  simp [this]

/-- **`truncated_file_read_from_beginning`** A file truncated in place (same id; the size the merge decides with is
below what was seen or below the offset) gets the scanned descriptor, offset 0 as `scanPaths` produces it; the old
worker stops at its next EOF (`rotated_partial_line_worker_stops`), and the new worker's `SetStreamPos(0)` reads
the new content from its first byte: records, pending partial line, buffer and undelivered rest are exactly the
new content. -/
theorem truncated_file_read_from_beginning (od nd : Desc) (restat : Option Nat) (hz : nd.offset = 0)
    (h : effSize Generated.C17.mergeRestatsAfterOffset od nd restat < od.lastSeenSize ∨
         effSize Generated.C17.mergeRestatsAfterOffset od nd restat < od.offset)
    (B n : Nat) (src : List Piece) :
    let d := (codeMergeOne (some od) nd restat).1
    d.offset = 0 ∧
    let p' := (nextRecords B n (setStreamPos d.offset src)).2
    (nextRecords B n (setStreamPos d.offset src)).1.flatten ++ p'.lr.pend ++ p'.lr.buf ++ flat p'.lr.pieces = flat src ∧
    p'.pos = (nextRecords B n (setStreamPos d.offset src)).1.flatten.length := by
  intro d
  have hd : d.offset = 0 := by rw [← hz]; exact (same_id_shrunk_restarts od nd restat h).2
  refine ⟨hd, ?_⟩
  rw [hd]
  have := lines_concat B n 0 src
  simp only [] at this
  exact ⟨this.2.1, by rw [this.2.2]; simp⟩

/-- **`cex_missing_from_one_scan_restarts`** (finding F61; the merge WITHOUT the one-scan grace, `keepsMissed = false` —
the code as long as `Generated.C17.mergeKeepsMissedOneScan` is `false`, and the other branch once
proposed-fixes/F61.diff is committed). `mergeDescs` builds its result from the ids of the new scan only. A file that one
scan does not find (renamed away and back, a failing `os.Stat`) loses its descriptor — and with it the offset 17 —; the
next scan, which finds it again, adds it as a new file with offset 0: the file is sent again although it only grew. -/
theorem cex_missing_from_one_scan_restarts :
    mergeDescs true [⟨[105, 100], 17, 17, false⟩] [] false = [] ∧
    mergeDescs true [] [(⟨[105, 100], 0, 17, false⟩, none)] false = [(⟨[105, 100], 0, 17, false⟩, false)] := by decide

/-- **`missed_once_keeps_offset`** (the merge WITH the one-scan grace, `keepsMissed = true`: proposed-fixes/F61.diff). A
descriptor whose id the scan did not find is kept, flagged, with its offset; found again by the next scan — the file
only grew (hypotheses of `same_id_grown_keeps_offset`) — it is the same descriptor with the same offset and loses the flag;
not found by the next scan either, it is forgotten. -/
theorem missed_once_keeps_offset (restats : Bool) (od : Desc) (hm : od.missed = false) :
    mergeDescs restats [od] [] true = [({ od with missed := true }, true)] ∧
    mergeDescs restats [{ od with missed := true }] [] true = [] ∧
    ∀ (nd : Desc) (restat : Option Nat), od.lastSeenSize ≤ nd.lastSeenSize → od.offset ≤ nd.lastSeenSize →
      (mergeOne restats (some { od with missed := true }) nd restat).2 = true ∧
      (mergeOne restats (some { od with missed := true }) nd restat).1.offset = od.offset ∧
      (mergeOne restats (some { od with missed := true }) nd restat).1.missed = false := by
  refine ⟨by simp [mergeDescs, keptMissed, absent, hm], by simp [mergeDescs, keptMissed, absent], ?_⟩
  intro nd restat h1 h2
  have hs : effSize restats { od with missed := true } nd restat = nd.lastSeenSize := by
    simp only [effSize]
    have : ¬ nd.lastSeenSize < od.offset := by omega
    simp [this]
  simp only [mergeOne, hs]
  have : od.lastSeenSize ≤ nd.lastSeenSize ∧ od.offset ≤ nd.lastSeenSize := ⟨h1, h2⟩
  simp [this]

/-- **`code_merge_keeps_new_ids_first`** whichever branch the code is on: the result is one entry per id of the new scan,
in its order, decided by `mergeOne`, followed by old descriptors the scan did not find — none without the grace; with it
exactly the unflagged ones, flagged now, offsets untouched. -/
theorem code_merge_keeps_new_ids_first (old : List Desc) (new : List (Desc × Option Nat)) :
    codeMerge old new = new.map (fun p => codeMergeOne (lookup old p.1.id) p.1 p.2) ++
      keptMissed Generated.C17.mergeKeepsMissedOneScan old new ∧
    ∀ e ∈ keptMissed Generated.C17.mergeKeepsMissedOneScan old new,
      Generated.C17.mergeKeepsMissedOneScan = true ∧ e.2 = true ∧ e.1.missed = true ∧
      ∃ od ∈ old, od.missed = false ∧ absent new od = true ∧ e.1 = { od with missed := true } := by
  refine ⟨rfl, ?_⟩
  intro e he
  simp only [keptMissed] at he
  split at he
  · rename_i hk
    simp only [List.mem_map, List.mem_filter, Bool.and_eq_true, Bool.not_eq_true'] at he
    obtain ⟨od, ⟨hod, ha, hmf⟩, rfl⟩ := he
    exact ⟨hk, rfl, rfl, od, hod, hmf, ha, rfl⟩
  · cases he

/-- the code has the one-scan grace (fix b5388a7), as the extractor reads it from `/repo` now -/
theorem code_keeps_missed_one_scan : Generated.C17.mergeKeepsMissedOneScan = true := by decide

/-- **`missing_from_one_scan_keeps_offset`** (the code as it is now, fix b5388a7 — finding F61 repaired). A known file the
scan does not find (renamed away for a moment, a failing `os.Stat`) keeps its descriptor, flagged, with its offset; when
the next scan finds it again — it only grew — it is the same descriptor with the same offset (`missed_once_keeps_offset`):
nothing is sent again. Missing from the next scan too, it is forgotten (a file gone for two scans is gone). -/
theorem missing_from_one_scan_keeps_offset (od : Desc) (hm : od.missed = false) :
    codeMerge [od] [] = [({ od with missed := true }, true)] ∧
    codeMerge [{ od with missed := true }] [] = [] := by
  have hf : Generated.C17.mergeKeepsMissedOneScan = true := by decide
  simp only [codeMerge, hf]
  exact ⟨(missed_once_keeps_offset _ od hm).1, (missed_once_keeps_offset _ od hm).2.1⟩

/-- offset 17 survives one missed scan -/
example : codeMerge [⟨[105, 100], 17, 17, false⟩] [] = [(⟨[105, 100], 17, 17, true⟩, true)] := by decide

/-- **`cex_replaced_file_regrown_keeps_offset`** (finding F64) same path and inode, all 26 old bytes shipped, the file
is replaced in place and has 55 bytes at the next scan: the id and the sizes cannot tell, the old descriptor — offset
26 — is kept, the first 26 bytes of the new content are never read. (`truncated_file_read_from_beginning` needs the
size the merge decides with to be below the offset or the size seen last.) -/
theorem cex_replaced_file_regrown_keeps_offset :
    codeMergeOne (some ⟨[105, 100], 26, 26, false⟩) ⟨[105, 100], 0, 55, false⟩ (some 55) = (⟨[105, 100], 26, 55, false⟩, true) := by decide

/-- **`cex_stale_size_resend_old`** (finding F17b, fixed by f247e22 — kept as the behaviour of the *old* merge,
`restats = false`): 17 bytes at the scan's stat, 31 bytes shipped and confirmed by the time of the merge ⇒ the
scanned descriptor (offset 0) replaces the old one and the file is sent again. With the second stat it is kept. -/
theorem cex_stale_size_resend_old :
    mergeOne false (some ⟨[105, 100], 31, 17, false⟩) ⟨[105, 100], 0, 17, false⟩ (some 31) = (⟨[105, 100], 0, 17, false⟩, false) ∧
    mergeOne true (some ⟨[105, 100], 31, 17, false⟩) ⟨[105, 100], 0, 17, false⟩ (some 31) = (⟨[105, 100], 31, 31, false⟩, true) := by
  decide

/-! ### non-vacuity: concrete, non-trivial instances -/

/-- "ab\ncd" arrives as "a", EOF, "b\nc", EOF, "d", then nothing more: one line, and "cd" is the pending partial -/
example :
    let r := readLines 16 5 { pieces := [.data [97], .eof, .data [98, 10, 99], .eof, .data [100]] }
    r.1 = [[97, 98, 10]] ∧ r.2.pend = [99, 100] := by decide

/-- the poll that finds nothing new answers EOF and keeps the partial line "ab" -/
example : (readLine 16 { pieces := [.eof, .data [10]], pend := [97, 98] }).2 = .eof ∧
    (readLine 16 { pieces := [.eof, .data [10]], pend := [97, 98] }).1.pend = [97, 98] := by decide

/-- a 5-byte line with `B = 4` is split into 4 + 1 bytes, nothing dropped -/
example : (nextRecords 4 3 (setStreamPos 7 [.data [1, 2, 3, 4, 10]])).1 = [[1, 2, 3, 4], [10]] ∧
    (nextRecords 4 3 (setStreamPos 7 [.data [1, 2, 3, 4, 10]])).2.pos = 12 := by decide

/-- the record limit is not an upper bound: a line appended in small pieces with pauses accumulates -/
example : (readLines 2 4 { pieces := [.data [1], .eof, .data [2], .eof, .data [3], .eof, .data [10]] }).1
    = [[1, 2, 3, 10]] := by decide

/-- a full batch is sent, confirmed, the offset set, persisted: offset 2 = end of the confirmed record -/
example :
    let s := run ⟨1, true, true⟩ (init 0) [.step, .next (.record [97, 10]), .step, .send, .confirm, .setOffset, .persist]
    s.persisted = 2 ∧ s.confirmed = [[97, 10]] ∧ isSetting s.pc = false := by decide

/-- a quiet period: two pending lines, batches of 2, starting from the initial state: 7 + 7... steps, both lines
confirmed, offset 4 persisted -/
example :
    let s' := run (codeCfg 2) (init 0) (drain 2 0 [[97, 10], [98, 10]] ++ [.persist])
    s'.confirmed = [[97, 10], [98, 10]] ∧ s'.persisted = 4 ∧ s'.pc = .top ∧
    (drain 2 0 [[97, 10], [98, 10]]).length = 16 := by decide

/-- the fixed loop on the stale-EOF schedule keeps running (it goes back to the loop head) -/
example : (run ⟨1, true, true⟩ (init 0) [.step, .next .eof, .step, .stopOnEOF, .wake, .step]).pc = .top := by decide

/-- the hypothesis of `graceful_restart_exact` is met: after a cancel in the rendez-vous window the final persist is
not enabled before `setOffset` and the end of the loop, and then stores 2 = the confirmed end -/
example :
    step (codeCfg 1) (run (codeCfg 1) (init 0) [.step, .next (.record [97, 10]), .step, .send, .confirm, .cancel])
      .finalPersist = none ∧
    ((step (codeCfg 1) (run (codeCfg 1) (init 0) [.step, .next (.record [97, 10]), .step, .send, .confirm, .cancel,
      .setOffset, .step, .step]) .finalPersist).map (·.persisted)) = some 2 := by decide

/-- same path and inode, new content at least as long as the old offset: the old offset is kept (the id cannot
tell; OS behaviour, outside the property's claim) -/
example : mergeOne true (some ⟨[1], 10, 10, false⟩) ⟨[1], 0, 25, false⟩ none = (⟨[1], 10, 25, false⟩, true) := by decide

/-- the one-scan grace (branch `keepsMissed = true`): missing once ⇒ kept and flagged, found again (grown to 20) ⇒ offset
17 kept, flag cleared; missing twice ⇒ forgotten; a new id next to a missing one: both in the result -/
example : mergeDescs true [⟨[1], 17, 17, false⟩] [] true = [(⟨[1], 17, 17, true⟩, true)] ∧
    mergeOne true (some ⟨[1], 17, 17, true⟩) ⟨[1], 0, 20, false⟩ none = (⟨[1], 17, 20, false⟩, true) ∧
    mergeDescs true [⟨[1], 17, 17, true⟩] [] true = [] ∧
    mergeDescs true [⟨[1], 17, 17, false⟩] [(⟨[2], 0, 5, false⟩, none)] true =
      [(⟨[2], 0, 5, false⟩, false), (⟨[1], 17, 17, true⟩, true)] := by decide

/-- if the second stat fails (`none`) the merge falls back to the scanned size -/
example : mergeOne true (some ⟨[1], 31, 17, false⟩) ⟨[1], 0, 17, false⟩ none = (⟨[1], 0, 17, false⟩, false) := by decide

end Logrange.Props.C17
