import Logrange.Proofs.PipeInc
import Logrange.Props.C10Spec
/-!
# C10 — a pipe name that is deleted and created again (incarnations)

Property theorems only (model: `Logrange/Model/PipeLtsInc.lean`, which wraps the unchanged pipe LTS; lemmas:
`Logrange/Proofs/PipeInc.lean`). The former model boundary "one pipe incarnation per name" (finding F74 lived in the harness
only, pinned by `f74_window_closed`) is replaced by theorems over **every interleaving** of deletions, re-creations, the
deleted incarnations' leftover workers, writes, notifications in any order, worker steps, shutdowns and restarts.
-/
namespace Logrange.Props.C10Inc
open Logrange.PipeLts Logrange.PipeLts.Inc Logrange.Props.C10

/-- the incarnation facts as the extractor reads them from the source now -/
def icfgNow : ICfg :=
  ⟨Generated.C10.deleteCleansUpBeforeAcknowledging, Generated.C10.saveStateRefusesDeletedPipe⟩

/-- **Every incarnation is a fresh pipe** (all interleavings; any number of deletions and re-creations of the name, leftover
workers of deleted incarnations, shutdowns and restarts in between): the state of the current incarnation — its descriptors
and positions, its workers, its positions file, the write-event channel and cache, and the part of the pipe's partition it
has written — is a state the plain pipe LTS reaches for a pipe created ONCE, under a name never used before. Nothing of an
earlier incarnation is visible to it: positions are not inherited (F74, for every interleaving, not only the parked one),
and every theorem about `run cfgNow (init …) ls` holds of every incarnation. Consumes the regenerated facts
`deleteCleansUpBeforeAcknowledging`, `saveStateRefusesDeletedPipe`, `createDropsCache`, `createSavesRegistry`. -/
theorem incarnation_is_fresh_pipe (n : Nat) (l : Nat → Bool) (p : Nat → Bytes) (f : Ev → Bool) (o : Bool)
    (tr : List ILabel) :
    ∃ ls, (irun cfgNow icfgNow (iinit n l p f o) tr).cur = run cfgNow (init n l p f o) ls := by
  have h0 : IInv cfgNow (init n l p f o) (iinit n l p f o) :=
    ⟨reach_refl _ _, init n l p f o, reach_refl _ _, shadow_init n l p f o⟩
  obtain ⟨⟨ls, hls⟩, _⟩ := irun_iinv cfgNow icfgNow (init n l p f o) (iinit n l p f o) tr (by decide) (by decide) (by decide) h0
  exact ⟨ls, hls.symm⟩

/-- **A re-created pipe starts from nothing**: right after `CreatePipe` under the name of a deleted pipe there is no
descriptor, no saved position and no worker for any source, its creation point is the source's current end, the pipe is
live, and the pipe's partition is exactly what the earlier incarnations left. -/
theorem recreated_pipe_inherits_nothing (ist ist' : IState) (h : istep cfgNow icfgNow ist .recreate = some ist') (s : Nat) :
    (ist'.cur.srcs s).desc = none ∧ (ist'.cur.srcs s).saved = none ∧ (ist'.cur.srcs s).wk = .none ∧
    (ist'.cur.srcs s).createdAt = (ist.cur.srcs s).log.length ∧ (ist'.cur.srcs s).log = (ist.cur.srcs s).log ∧
    ist'.cur.pipe = .live ∧ ist'.cur.dest = [] ∧ partition ist' = partition ist := by
  have hf : fileSurvives icfgNow = false := by decide
  simp only [istep] at h
  split at h
  · cases h
  · simp only [Option.some.injEq] at h; subst h
    simp [recreated, hf, partition]

/-- the copy invariant, in the words of the property, **for every incarnation**: what the current incarnation has written
into the pipe's partition of source `s` is exactly the records of `[start, Pos)` of ITS OWN descriptor for which the filter
is true, once, in stored order, provenance appended (the descriptor was made by a notification this incarnation handled —
`recreated_pipe_inherits_nothing`); the partition is that, after what earlier incarnations wrote. -/
theorem incarnation_copy_exactly_once_in_order (n : Nat) (l : Nat → Bool) (p : Nat → Bytes) (f : Ev → Bool) (o : Bool)
    (tr : List ILabel) (s : Nat) (d : Desc) :
    let ist := irun cfgNow icfgNow (iinit n l p f o) tr
    (ist.cur.srcs s).desc = some d → (∀ c, (ist.cur.srcs s).wk ≠ .written c) →
    proj s ist.cur.dest = ((slice (ist.cur.srcs s).log d.start d.pos).filter ist.cur.flt).map (addProv (ist.cur.srcs s).prov) ∧
    partition ist = ist.base ++ ist.cur.dest := by
  intro ist hd hw
  obtain ⟨ls, hls⟩ := incarnation_is_fresh_pipe n l p f o tr
  refine ⟨?_, rfl⟩
  have h := pipe_copy_exactly_once_in_order n l p f o ls s d
  simp only at h
  rw [← hls] at h
  exact h hd hw

/-- `no_stranded_data` for every incarnation (also C11's pipe clause): data behind `LastKnwnPos` has a charged worker -/
theorem incarnation_no_stranded_data (n : Nat) (l : Nat → Bool) (p : Nat → Bytes) (f : Ev → Bool) (o : Bool)
    (tr : List ILabel) (s : Nat) (d : Desc) :
    let ist := irun cfgNow icfgNow (iinit n l p f o) tr
    (ist.cur.srcs s).desc = some d →
    ist.cur.closed = true ∨ ist.cur.pipe = .deleted ∨ d.charged = true ∨ ¬ d.pos < d.lastKnown ∨ d.stale = true := by
  intro ist hd
  obtain ⟨ls, hls⟩ := incarnation_is_fresh_pipe n l p f o tr
  have h := no_stranded_data n l p f o ls s d
  simp only at h
  rw [← hls] at h
  exact h hd

/-- **The specification for every incarnation**: there is a trace `ls` of the plain LTS that ends in the current
incarnation's state, and if the monitor finds `ls` clean for a listening source, then in a quiescent running state with the
pipe alive this incarnation's part of the pipe's partition holds exactly the events written to the source **after this
incarnation was created** for which the filter is true — once, in stored order, provenance appended
(`specProj` reads the incarnation's own `createdAt`). -/
theorem incarnation_pipe_spec (n : Nat) (l : Nat → Bool) (p : Nat → Bytes) (f : Ev → Bool) (o : Bool) (tr : List ILabel) :
    let ist := irun cfgNow icfgNow (iinit n l p f o) tr
    ∃ ls, ist.cur = run cfgNow (init n l p f o) ls ∧
      ∀ s, quiescent ist.cur = true → ist.cur.closed = false → ist.cur.down = false → ist.cur.pipe = .live → s < ist.cur.n →
        (ist.cur.srcs s).listens = true → (runM cfgNow (init n l p f o, mon0) ls).2.clean s = true →
        proj s ist.cur.dest = specProj ist.cur s := by
  intro ist
  obtain ⟨ls, hls⟩ := incarnation_is_fresh_pipe n l p f o tr
  refine ⟨ls, hls, ?_⟩
  intro s
  have h := C10Spec.pipe_spec_run n l p f o ls s
  simp only at h
  rw [← hls] at h
  exact h

/-! ### kernel-evaluated runs: the same schedule with and without the repair of F74 -/

/-- pipe copies `evA`; deleted; `evB` is written while no pipe exists; the name is created again; `evC` is written and copied -/
def recreateRun : List ILabel :=
  [.plain .create, .plain (.write 0 [evA]), .plain (.enqueue 0), .plain .notify] ++ copyCycle.map .plain ++
  [.plain .delete, .plain (.write 0 [evB]), .plain (.enqueue 0), .plain .notify, .recreate,
   .plain (.write 0 [⟨3, [99], []⟩]), .plain (.enqueue 0), .plain .notify] ++ copyCycle.map .plain

/-- the code as it is now: the second incarnation copies `evC` only — its part of the partition meets the specification,
the partition is `evA` (first incarnation) followed by `evC` -/
theorem recreate_witness :
    let ist := irun cfgNow icfgNow (iinit 1 (fun _ => true) (fun _ => prov0) (fun _ => true) false) recreateRun
    ist.gen = 1 ∧ quiescent ist.cur = true ∧ ist.cur.pipe = .live ∧
    proj 0 ist.cur.dest = specProj ist.cur 0 ∧
    (partition ist).map (·.2.msg) = [[97], [99]] := by
  decide

/-- **F74 as the model's other branch**: if the deleted pipe's positions file survives until the name is created again
(`deleteCleansUpBeforeAcknowledging = false`: the old asynchronous clean-up, parked), the new pipe has a descriptor before
any notification and copies `evB`, written while no pipe existed. -/
theorem cex_recreate_inherits_positions_without_cleanup :
    let ist := irun cfgNow ⟨false, true⟩ (iinit 1 (fun _ => true) (fun _ => prov0) (fun _ => true) false) recreateRun
    quiescent ist.cur = true ∧ ist.cur.pipe = .live ∧ proj 0 ist.cur.dest ≠ specProj ist.cur 0 ∧
    (partition ist).map (·.2.msg) = [[97], [98], [99]] := by
  decide

/-- non-vacuity of `recreated_pipe_inherits_nothing`: the `recreate` step of that run is enabled, with a leftover worker
of the deleted incarnation still running (deleted while the worker waits) -/
example :
    let ist := irun cfgNow icfgNow (iinit 1 (fun _ => true) (fun _ => prov0) (fun _ => true) false)
      [.plain .create, .plain (.write 0 [evA]), .plain (.enqueue 0), .plain .notify, .plain (.wopen 0), .plain .delete]
    (istep cfgNow icfgNow ist .recreate).isSome = true ∧
    ((istep cfgNow icfgNow ist .recreate).map (·.old)) = some 1 := by
  decide

/-- … and `Shutdown` waits for that leftover worker: `halt` is enabled only after it has gone -/
example :
    let tr : List ILabel := [.plain .create, .plain (.write 0 [evA]), .plain (.enqueue 0), .plain .notify, .plain (.wopen 0),
      .plain .delete, .recreate, .plain .shutdown]
    let ist := irun cfgNow icfgNow (iinit 1 (fun _ => true) (fun _ => prov0) (fun _ => true) false) tr
    (istep cfgNow icfgNow ist (.plain .halt)).isSome = false ∧
    ((istep cfgNow icfgNow ist .oldExit).bind (fun i => istep cfgNow icfgNow i (.plain .halt))).isSome = true := by
  decide

end Logrange.Props.C10Inc
