import Logrange.Translated.Mixer
import Logrange.Model.Mixer
/-!
# TR — `pkg/model`: the *translated* `GetEarliest` equals the hand-written model `Mixer.getEarliest` (C04)

Regenerated from the Go source by `tools/go2lean` on every run. `GetEarliest` is the select function of every `Mixer`:
the tie rule of the time-ordered merge (`<=`: on equal timestamps the first source wins) is what C04's merge theorems are
about. `Int64.toInt` reads the translated `int64` timestamps.
-/
namespace Logrange.Props.TRMixer
open Go.Sem Logrange Logrange.Translated.Mixer

/-- `model.GetEarliest(ev1, ev2)` -/
theorem tr_GetEarliest_eq (ev1 : GetEarliest_ev1) (ev2 : GetEarliest_ev2) (e1 e2 : Mixer.Ev)
    (h1 : e1.ts = ev1.Timestamp.toInt) (h2 : e2.ts = ev2.Timestamp.toInt) :
    GetEarliest ev1 ev2 = .ok (Mixer.getEarliest e1 e2) := by
  simp [GetEarliest, Mixer.getEarliest, h1, h2, Int64.le_iff_toInt_le]

example : GetEarliest { Timestamp := 5 } { Timestamp := 5 } = .ok true := by decide +kernel
example : GetEarliest { Timestamp := 6 } { Timestamp := 5 } = .ok false := by decide +kernel

end Logrange.Props.TRMixer
