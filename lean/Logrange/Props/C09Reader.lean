import Logrange.Proofs.RdIterFwd
/-!
# C09, reader clause — "a reader positioned inside removed data simply continues at the first remaining event"

Stated on the faithful model of the library's journal iterator (`Logrange/Model/RdJIter.lean`, the C03/C16 model of
`journal.JIterator` and `chunkfs.cIterator`, validated against the real iterators by the C03 harness) and proved from
its forward specification (`Rd.getFwd`, `Rd.iter_enumerates`). The journal before the TRUNCATE is `pre ++ rest`
(chunk ids ascending), the TRUNCATE removes the chunks `pre`, the journal afterwards is `rest`.
The hypothesis `it.ci = none` is "no chunk handle open": an uncached read builds its iterator from the position text of
the previous page. With a handle still open on a removed chunk the state is not well-formed for `rest` (`Rd.WF` asks
for the open chunk to exist) — that is finding F26, exhibited in `Props/C09.lean` (`cex_open_handle_after_truncate`).
-/
namespace Logrange.Props.C09Reader
open Logrange.Rd

/-- **A forward reader without an open chunk, positioned anywhere inside removed chunks, continues at the first
remaining record** — for every journal, every removed prefix `pre`, every index inside (or beyond) the removed chunk:
its next `Get` returns the first record of what is left, and draining it delivers exactly the remaining records, each
once, in order. -/
theorem reader_continues (pre rest : Journal) (hs : Sorted (pre ++ rest)) (it : It)
    (hci : it.ci = none) (hb : it.bkwd = false) (hin : ∃ c ∈ pre, c.id = it.cid) :
    (get rest it).2 = (flat rest).head? ∧
    ∀ n, (flat rest).length ≤ n → drain rest n it = flat rest := by
  have hrest : Sorted rest := (List.pairwise_append.mp hs).2.1
  obtain ⟨c0, hc0, hid⟩ := hin
  have hlt : ∀ c ∈ rest, it.cid < c.id := by
    intro c hc
    have := (List.pairwise_append.mp hs).2.2 c0 hc0 c hc
    omega
  have hwf : WF rest it := by unfold WF; rw [hci]; trivial
  have heff : effPos it = it.pos := by unfold effPos; rw [hci]
  have hzero : flatIdx rest it.pos = 0 := by
    apply flatIdx_eq_zero
    intro c hc
    have := hlt c hc
    unfold fiTerm
    have h1 : ¬ c.id < it.pos.cid := by simp only [It.pos]; omega
    have h2 : ¬ c.id = it.pos.cid := by simp only [It.pos]; omega
    simp [h1, h2]
  refine ⟨?_, ?_⟩
  · have g := (getFwd rest it hrest hwf hb).1
    rw [g]
    unfold fIdx
    rw [heff, hzero, List.head?_eq_getElem?]
  · intro n hn
    rw [iter_enumerates rest it n hrest hwf hb hn]
    unfold recordsFrom
    rw [heff, hzero, List.drop_zero]

/-- the same for a position that names no chunk at all any more but lies before everything that is left (the position
text of a page that ended exactly at the end of the last removed chunk, or a chunk removed by an earlier statement) -/
theorem reader_continues_before_all (rest : Journal) (hs : Sorted rest) (it : It)
    (hci : it.ci = none) (hb : it.bkwd = false) (hlt : ∀ c ∈ rest, it.cid < c.id) :
    (get rest it).2 = (flat rest).head? := by
  have hwf : WF rest it := by unfold WF; rw [hci]; trivial
  have heff : effPos it = it.pos := by unfold effPos; rw [hci]
  have hzero : flatIdx rest it.pos = 0 := by
    apply flatIdx_eq_zero
    intro c hc
    have := hlt c hc
    unfold fiTerm
    have h1 : ¬ c.id < it.pos.cid := by simp only [It.pos]; omega
    have h2 : ¬ c.id = it.pos.cid := by simp only [It.pos]; omega
    simp [h1, h2]
  have g := (getFwd rest it hs hwf hb).1
  rw [g]
  unfold fIdx
  rw [heff, hzero, List.head?_eq_getElem?]

/-! ### non-vacuity -/

/-- two removed chunks, two left; the reader stood at index 1 of the first removed chunk -/
example : (get [⟨3, [⟨30, 0, true⟩, ⟨31, 0, true⟩], 0, 4294967295⟩, ⟨4, [⟨40, 0, true⟩], 0, 4294967295⟩]
    { cid := 1, idx := 1 }).2 = some ⟨30, 0, true⟩ := by decide

end Logrange.Props.C09Reader
