import Logrange.Proofs.PipeRep
import Logrange.Proofs.PipeSpecRep
import Logrange.Props.C10
/-!
# C10 — the pipe LTS with the repairs of F79 (catch-up at start, first descriptor persisted) and F10 (publication in storage order)

Property theorems only (model: `Logrange/Model/PipeLtsRep.lean` — the unchanged pipe LTS with three switches; lemmas:
`Logrange/Proofs/PipeRep.lean`). The switches are facts regenerated from the source (`rcNow`); every theorem here is stated
for an arbitrary setting or under the explicit hypothesis that a switch is on, so this file builds on a tree with and without
the repairs. With all switches off `stepR` IS the plain LTS (`unrepaired_is_plain`): `cex_restart_strands_data` and
`cex_first_notification_reordered` (Props/C10) are statements about that branch.
-/
namespace Logrange.Props.C10Rep
open Logrange.PipeLts Logrange.Props.C10

/-- the repairs as the extractor finds them in the source now -/
def rcNow : RCfg :=
  ⟨Generated.C10.initCatchesUpLoadedPipes, Generated.C10.firstNotificationPersistsDescriptor,
   Generated.C10.writePublishesUnderPartitionLock⟩

/-- without the repairs the repaired LTS is the plain pipe LTS, step by step and run by run -/
theorem unrepaired_is_plain (st : State) (l : Label) (ls : List Label) :
    stepR cfgNow unrepaired st l = step cfgNow st l ∧ runR cfgNow unrepaired st ls = run cfgNow st ls :=
  ⟨stepR_unrepaired cfgNow st l, runR_unrepaired cfgNow st ls⟩

/-- **The copy invariant holds with any combination of the repairs** (all interleavings, as `pipe_copy_inv`): what the pipe
partition holds of source `s` is exactly the records of `[start, cursor)` the filter accepts, once, in stored order,
provenance appended; nothing without a descriptor. -/
theorem pipe_copy_inv_rep (rc : RCfg) (n : Nat) (l : Nat → Bool) (p : Nat → Bytes) (f : Ev → Bool) (o : Bool)
    (ls : List Label) (s : Nat) :
    let st := runR cfgNow rc (init n l p f o) ls
    ((st.srcs s).desc = none → proj s st.dest = []) ∧
    (∀ d, (st.srcs s).desc = some d →
      d.start ≤ d.pos ∧ d.pos ≤ curOf (st.srcs s) d ∧ curOf (st.srcs s) d ≤ (st.srcs s).log.length ∧
      proj s st.dest = (sel cfgNow st.flt (slice (st.srcs s).log d.start (curOf (st.srcs s) d))).map (addProv (st.srcs s).prov)) := by
  intro st
  have hg : GInv cfgNow st := runR_ginv cfgNow rc _ ls (ginv_init cfgNow n l p f o)
  constructor
  · intro hd; exact ((hg.1 s).1 hd).1
  · intro d hd
    obtain ⟨a1, a2, a3, _, _, a6, _, _⟩ := (hg.1 s).2 d hd
    exact ⟨a1, a2, a3, a6⟩

/-- … in the words of the property (a worker not between its write and its `saveState`) -/
theorem pipe_copy_exactly_once_in_order_rep (rc : RCfg) (n : Nat) (l : Nat → Bool) (p : Nat → Bytes) (f : Ev → Bool) (o : Bool)
    (ls : List Label) (s : Nat) (d : Desc) :
    let st := runR cfgNow rc (init n l p f o) ls
    (st.srcs s).desc = some d → (∀ c, (st.srcs s).wk ≠ .written c) →
    proj s st.dest = ((slice (st.srcs s).log d.start d.pos).filter st.flt).map (addProv (st.srcs s).prov) := by
  intro st hd hw
  have h := ((pipe_copy_inv_rep rc n l p f o ls s).2 d hd).2.2.2
  have hc : curOf (st.srcs s) d = d.pos := by
    unfold curOf; split
    · rename_i c hc; exact absurd hc (hw c)
    · rfl
  have hf : cfgNow.applyFilter = true := by decide
  rw [hc] at h
  simpa [sel, hf] using h

/-- **F79 repaired (a): a restart never strands data.** With the catch-up at `Init`, in the state right after a restart
every source of the live pipe whose saved position is behind the end of its stored data has a charged worker (`starting`),
its `LastKnwnPos` stands at (or beyond) that end, and the descriptor is not `stale` — whatever was queued, unpublished or
behind when the service stopped. -/
theorem restart_never_strands_data (rc : RCfg) (hc : rc.catchUpAtInit = true) (st st' : State)
    (hs : stepR cfgNow rc st .restart = some st') (hl : st'.pipe = .live) (s : Nat) (d : Desc)
    (hd : (st'.srcs s).desc = some d) (hb : d.pos < (st'.srcs s).log.length) :
    d.charged = true ∧ (st'.srcs s).wk = .starting ∧ (st'.srcs s).log.length ≤ d.lastKnown ∧ d.stale = false := by
  simp only [stepR] at hs
  cases hst : step cfgNow st .restart with
  | none => simp [hst] at hs
  | some s1 =>
    simp only [hst, hc, Bool.true_and] at hs
    have hdesc : ∀ s d0, (s1.srcs s).desc = some d0 → d0.charged = false := by
      intro s d0 h0
      simp only [step] at hst
      split at hst
      · simp only [Option.some.injEq] at hst; subst hst
        simp only at h0
        cases hsv : (st.srcs s).saved with
        | none => simp [hsv] at h0
        | some sv => simp [hsv] at h0; rw [← h0]
      · cases hst
    split at hs
    · simp only [Option.some.injEq] at hs; subst hs
      simp only at hd hb ⊢
      cases h0 : (s1.srcs s).desc with
      | none => rw [catchUpSrc_desc_none _ h0] at hd; cases hd
      | some d0 =>
        have hch := hdesc s d0 h0
        rw [catchUpSrc_log] at hb
        have hlt : d0.pos < max d0.lastKnown (s1.srcs s).log.length → True := fun _ => trivial
        unfold catchUpSrc at hd ⊢
        simp only [h0] at hd ⊢
        unfold startWorker at hd ⊢
        by_cases hcond : d0.pos < max d0.lastKnown (s1.srcs s).log.length
        · simp only [hch, hcond, Bool.not_false, Bool.true_and, decide_true, Bool.and_self, if_true,
            Option.some.injEq] at hd ⊢
          subst hd
          refine ⟨?_, ?_, ?_, ?_⟩ <;> first | rfl | trivial | exact Nat.le_max_right _ _ | simp
        · simp only [hch, hcond, Bool.not_false, Bool.true_and, decide_false, Bool.and_false, Bool.false_eq_true,
            if_false, Option.some.injEq] at hd
          subst hd
          simp only at hb
          exact absurd (Nat.lt_of_lt_of_le hb (Nat.le_max_right _ _)) hcond
    · rename_i hn
      simp only [Option.some.injEq] at hs; subst hs
      simp [hl] at hn

/-- **F79 repaired (b): the descriptor of a source seen for the first time is on disk at once** — the notification that
creates a descriptor leaves the positions file equal to the pipe's positions, so a stop before the first copy does not
forget the start position. -/
theorem first_descriptor_is_persisted (rc : RCfg) (hp : rc.persistFirst = true) (st st' : State)
    (hs : stepR cfgNow rc st .notify = some st') (hfirst : firstSeen st = true) (s : Nat) :
    (st'.srcs s).saved = (st'.srcs s).desc := by
  simp only [stepR] at hs
  cases hst : step cfgNow st .notify with
  | none => simp [hst] at hs
  | some s1 =>
    simp only [hst, hp, hfirst, Bool.and_self, if_true, Option.some.injEq] at hs
    subst hs
    rfl

/-- **F10 repaired: publication in storage order.** With the per-partition write lock, in every reachable state (all
interleavings) the write events of one source stand in the channel and among the unpublished ones in the order of its
records — an event stored earlier is never notified later — and at most one event per source is unpublished. The schedule
of `cex_first_notification_reordered` (`write; write; enqueue 1; enqueue 0`) does not exist. -/
theorem publication_in_storage_order (rc : RCfg) (hw : rc.writeLock = true) (n : Nat) (l : Nat → Bool) (p : Nat → Bytes)
    (f : Ev → Bool) (o : Bool) (ls : List Label) :
    let st := runR cfgNow rc (init n l p f o) ls
    (st.chan ++ st.pend).Pairwise (fun a b => a.src = b.src → a.endPos ≤ b.startPos) ∧
    st.pend.Pairwise (fun a b => a.src ≠ b.src) :=
  runR_pubinv cfgNow rc hw _ ls (ginv_init cfgNow n l p f o) (pubinv_init n l p f o)

/-- the monitor is a ghost of the repaired LTS too -/
theorem monitor_is_ghost_rep (rc : RCfg) (st : State) (m : Mon) (ls : List Label) :
    (runMR cfgNow rc (st, m) ls).1 = runR cfgNow rc st ls :=
  runMR_fst cfgNow rc (st, m) ls

/-- **The specification for every clean schedule, with any combination of the repairs** (`pipe_spec` transferred to
`stepR`; same ghost monitor): in a quiescent state of a running service with the pipe alive, a listening source whose
schedule was clean has in the pipe partition exactly the events written to it after the pipe's creation for which the filter
is true — once, in stored order, provenance appended. Proof: the invariants of `pipe_spec` (`GInv`, `NS`, `PInv`, `MInv`)
plus "a stopped service has nothing queued or unpublished" are kept by `stepR` (`Proofs/PipeSpecRep.stepR_allinv`): the
write lock only removes steps, `resaveAll` rebuilds the file clause from the descriptor clause, and after a clean stop the
catch-up finds `LastKnwnPos` already at the end. -/
theorem pipe_spec_rep (rc : RCfg) (n : Nat) (l : Nat → Bool) (p : Nat → Bytes) (f : Ev → Bool) (o : Bool) (ls : List Label)
    (s : Nat) :
    let r := runMR cfgNow rc (init n l p f o, mon0) ls
    let st := r.1
    quiescent st = true → st.closed = false → st.down = false → st.pipe = .live → s < st.n →
    (st.srcs s).listens = true → r.2.clean s = true →
    proj s st.dest = specProj st s :=
  spec_of_clean_rep cfgNow rc (by decide) (by decide) (by decide) (by decide) n l p f o ls s

/-! ### the former counterexample runs under the repairs (kernel-evaluated) -/

/-- the schedule of `cex_restart_strands_data` with the repairs: right after the restart a worker is charged for the source
that was behind, and its first round — no later write — completes the pipe partition -/
theorem restart_behind_witness :
    let st := runR cfgNow repaired (init 1 (fun _ => true) (fun _ => prov0) (fun _ => true) false)
      [.create, .write 0 [evA], .enqueue 0, .notify, .wopen 0, .wcopy 0 9, .wsave 0, .write 0 [evB], .enqueue 0, .notify,
       .shutdown, .wtimeout 0, .wdone 0, .halt, .restart]
    let st' := runR cfgNow repaired st [.wopen 0, .wcopy 0 9, .wsave 0, .wtimeout 0, .wdone 0]
    ((st.srcs 0).desc.map (fun d => (d.pos, d.lastKnown, d.charged)) = some (1, 2, true) ∧ (st.srcs 0).wk = .starting) ∧
    (quiescent st' = true ∧ proj 0 st'.dest = specProj st' 0 ∧ (proj 0 st'.dest).length = 2) := by
  decide

/-- a first batch whose descriptor was never saved by a worker: notified, the worker cancelled by the stop before it copied —
with the repairs the descriptor is on disk, the restart charges a worker, the batch arrives -/
theorem first_batch_survives_stop_witness :
    let st := runR cfgNow repaired (init 1 (fun _ => true) (fun _ => prov0) (fun _ => true) false)
      [.create, .write 0 [evA], .enqueue 0, .notify, .shutdown, .wtimeout 0, .wdone 0, .halt, .restart,
       .wopen 0, .wcopy 0 9, .wsave 0, .wtimeout 0, .wdone 0]
    quiescent st = true ∧ proj 0 st.dest = specProj st 0 ∧ (proj 0 st.dest).length = 1 := by
  decide

/-- … and without the repairs the same schedule loses the batch (the plain LTS) -/
theorem first_batch_lost_without_repair :
    let st := runR cfgNow unrepaired (init 1 (fun _ => true) (fun _ => prov0) (fun _ => true) false)
      [.create, .write 0 [evA], .enqueue 0, .notify, .shutdown, .wtimeout 0, .wdone 0, .halt, .restart,
       .wopen 0, .wcopy 0 9, .wsave 0, .wtimeout 0, .wdone 0]
    quiescent st = true ∧ proj 0 st.dest = [] ∧ (st.srcs 0).desc = none := by
  decide

/-- **what the repairs do not cover** (the rest of F79's class): a FIRST notification that is still queued when the service
stops — there is no descriptor yet, nothing to persist, nothing to catch up with; the later write defines a new start and the
queued batch is never copied. Same run as `cex_notification_lost_at_shutdown`, here with all repairs on. -/
theorem cex_queued_first_notification_still_lost :
    let st := runR cfgNow repaired (init 1 (fun _ => true) (fun _ => prov0) (fun _ => true) false)
      ([.create, .write 0 [evA], .enqueue 0, .shutdown, .halt, .restart, .write 0 [evB], .enqueue 0, .notify] ++ copyCycle)
    quiescent st = true ∧ proj 0 st.dest = [addProv prov0 evB] ∧ (specProj st 0).length = 2 := by
  decide

/-- … the same with the event not even published when the service stops (a write overlapping the stop: stored and
acknowledged, `onWriteEvent` reaches nobody). This is the schedule of the harness' witness
`stop-first-notification-unpublished` (open finding F-C10-901), which the real server reproduces. -/
theorem cex_unpublished_first_notification_still_lost :
    let st := runR cfgNow repaired (init 1 (fun _ => true) (fun _ => prov0) (fun _ => true) false)
      ([.create, .write 0 [evA], .shutdown, .halt, .restart, .write 0 [evB], .enqueue 0, .notify] ++ copyCycle)
    quiescent st = true ∧ proj 0 st.dest = [addProv prov0 evB] ∧ (specProj st 0).length = 2 := by
  decide

/-- the schedule of `cex_first_notification_reordered` under the write lock: the second write is not enabled while the
first is unpublished; the only schedules left publish in stored order, and the partition meets the specification -/
theorem racing_first_writes_witness :
    let s0 := runR cfgNow repaired (init 1 (fun _ => true) (fun _ => prov0) (fun _ => true) false) [.create, .write 0 [evA]]
    (stepR cfgNow repaired s0 (.write 0 [evB])).isNone = true ∧
    (let st := runR cfgNow repaired s0 ([.enqueue 0, .write 0 [evB], .enqueue 0, .notify, .notify] ++ copyCycle)
     quiescent st = true ∧ proj 0 st.dest = specProj st 0 ∧ (proj 0 st.dest).length = 2) := by
  decide

end Logrange.Props.C10Rep
