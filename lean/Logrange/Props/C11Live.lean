import Logrange.Proofs.WaitLive
/-!
# C11 — bounded liveness: confirmed data is eventually delivered to a waiting reader

Property theorems only (model: `Logrange/Model/WaitLts.lean`; lemmas: `Logrange/Proofs/WaitLive.lean`).
`no_lost_wakeup` (`Logrange/Props/C11.lean`) says a notification is pending; here the notification is followed to the
end. Proved, for all reachable states (any interleaving, any number of waiters, restarts, cancellations of others):

* `eventually_delivered` — if waiter `w` is inside its wait call with confirmed data beyond its position (the delivery
  *obligation*, `Owed`), the explicit schedule `deliver st w` — the lock holder's `subscribe`, the writer side's pending
  `OnNewData` steps, `w`'s own `wake` and `lockCheck`; no `append`, no `confirm`, no `cancel` (`deliver_labels`), at most
  `pendNotif + 4` labels (`deliver_length`) — ends with `w` returning nil;
* `obligation_persists` / `delivered_or_still_deliverable` — no step other than `w`'s own `cancel` removes the
  obligation except the delivery itself; so along every continuation without that cancellation the data was delivered on
  the way or the delivering schedule still exists at the end (the "always eventually possible" form);
* `progress` — a pending `OnNewData` call is never stuck.

Not a theorem here (the model has no scheduler): that a concrete fair scheduler takes these steps. Every label of the
schedule belongs to a goroutine that is runnable and waits for nothing but the listener mutex; `loadWaiters`, `subscribe`
and `wake` stay enabled until taken, `closeAll` and `lockCheck w` compete for the mutex with other waiters' locked
checks (each of which releases it after one `subscribe`, `lock_holder_is_holding`), so delivery under scheduling
needs weak fairness plus a starvation-free mutex. Latency in wall-clock terms is measured by the harness.
-/
namespace Logrange.Props.C11Live
open Logrange.WaitLts

/-- **Deadlock-freedom of the notification**: in every reachable state with an `OnNewData` call pending, the call's
next step (`loadWaiters` or `closeAll`) is enabled, or the listener lock is held by a waiter whose `subscribe` step
(which releases it) is enabled. -/
theorem progress (nWaiters stored : Nat) (ls : List Label) :
    let st := run (init nWaiters stored) ls
    0 < st.pendNotif + st.pendClose →
    (step st .loadWaiters).isSome = true ∨ (step st .closeAll).isSome = true ∨
    ∃ v, st.lock = some v ∧ (step st (.subscribe v)).isSome = true := by
  intro st hp
  exact progress_of_winv2 st (run_winv2 _ ls (winv2_init nWaiters stored)) hp

/-- the listener lock is held only by a waiter between its locked check and its subscription (reachable states) -/
theorem lock_holder_is_holding (nWaiters stored : Nat) (ls : List Label) (v : Nat) :
    let st := run (init nWaiters stored) ls
    st.lock = some v → ∃ x, st.ws[v]? = some x ∧ x.pc = .holding := by
  intro st hl
  exact (run_winv2 _ ls (winv2_init nWaiters stored)).2 v hl

/-- **Eventually delivered** (bounded form): in any reachable state, a waiter inside its wait call (`counted`, `holding`
or `asleep`) with confirmed data beyond its position returns nil (`returning`, `woke`) after the schedule
`deliver st w`. -/
theorem eventually_delivered (nWaiters stored : Nat) (ls : List Label) (w : Nat) (x : WSt) :
    let st := run (init nWaiters stored) ls
    st.ws[w]? = some x → (x.pc = .counted ∨ x.pc = .holding ∨ x.pc = .asleep) → x.pos < st.cfrmd →
    ∃ y, (run st (deliver st w)).ws[w]? = some y ∧ y.pc = .returning ∧ y.woke = true := by
  intro st hx hpc hlt
  exact deliver_delivers st (run_winv2 _ ls (winv2_init nWaiters stored)) w x hx hpc hlt

/-- **The obligation persists**: in a reachable state, no step other than `w`'s own cancellation (the sibling's return,
the timeout) makes a waiter with confirmed data beyond its position lose it — after the step the data is still owed, or
the step was the delivery. -/
theorem obligation_persists (nWaiters stored : Nat) (ls : List Label) (w : Nat) (l : Label) (st' : State) :
    let st := run (init nWaiters stored) ls
    Owed st w → l ≠ .cancel w → step st l = some st' → Owed st' w ∨ Delivered st' w := by
  intro st ho hl hs
  exact owed_step st st' l w (run_cfrmd_le _ ls (Nat.le_refl _)) hs ho hl

/-- **Always eventually deliverable**: from a reachable state that owes data to `w`, along any continuation `ls'` that
does not cancel `w`, the wait call returned nil at some point of `ls'`, or the bounded schedule of `eventually_delivered`
delivers from the state reached. -/
theorem delivered_or_still_deliverable (nWaiters stored : Nat) (ls ls' : List Label) (w : Nat) :
    let st := run (init nWaiters stored) ls
    Owed st w → Label.cancel w ∉ ls' →
    (∃ pre suf, ls' = pre ++ suf ∧ Delivered (run st pre) w) ∨
    Delivered (run (run st ls') (deliver (run st ls') w)) w := by
  intro st ho hn
  rcases owed_run w ls' st (run_cfrmd_le _ ls (Nat.le_refl _)) ho hn with h | h
  · right
    obtain ⟨x, hx, hin, hlt⟩ := h
    exact deliver_delivers _ (run_winv2 _ ls' (run_winv2 _ ls (winv2_init nWaiters stored))) w x hx hin hlt
  · exact Or.inl h

/-- the schedule is bounded by the number of pending `OnNewData` calls plus 4 -/
theorem deliver_length (st : State) (w : Nat) : (deliver st w).length ≤ st.pendNotif + 4 := by
  unfold deliver
  cases st.lock <;> simp <;> omega

/-- the schedule consists of fair/forced steps only: the lock holder's `subscribe`, the writer side's `OnNewData` steps,
`w`'s own `wake` and `lockCheck` — never an `append`, a `confirm`, a `cancel` or another waiter's optional step -/
theorem deliver_labels (st : State) (w : Nat) :
    ∀ l ∈ deliver st w, l = .loadWaiters ∨ l = .closeAll ∨ l = .wake w ∨ l = .lockCheck w ∨
      (∃ v, st.lock = some v ∧ l = .subscribe v) := by
  intro l hl
  unfold deliver at hl
  simp only [List.mem_append, List.mem_replicate, List.mem_cons, List.not_mem_nil, or_false] at hl
  rcases hl with (hl | hl) | hl | hl | hl
  · cases hlock : st.lock with
    | none => rw [hlock] at hl; simp at hl
    | some v =>
      rw [hlock] at hl
      simp only [List.mem_cons, List.not_mem_nil, or_false] at hl
      exact Or.inr (Or.inr (Or.inr (Or.inr ⟨v, rfl, hl⟩)))
  · exact Or.inl hl.2
  · exact Or.inr (Or.inl hl)
  · exact Or.inr (Or.inr (Or.inl hl))
  · exact Or.inr (Or.inr (Or.inr (Or.inl hl)))

/-! ### non-vacuity: kernel-evaluated runs -/

/-- waiter 0 asleep on an open subscription at position 3, two flushes confirmed (two `OnNewData` calls pending), waiter 1
holds the listener lock: the hypotheses of `eventually_delivered` are met … -/
example : let st := run (init 2 3) [.start 0 3, .inc 0, .lockCheck 0, .subscribe 0, .append 2, .confirm, .append 1, .confirm,
      .start 1 10, .inc 1, .lockCheck 1]
    st.ws[0]? = some ⟨.asleep, 3, true, false⟩ ∧ 3 < st.cfrmd ∧ st.pendNotif = 2 ∧ st.lock = some 1 ∧
    deliver st 0 = [.subscribe 1, .loadWaiters, .loadWaiters, .closeAll, .wake 0, .lockCheck 0] := by decide
/-- … and the schedule delivers -/
example : let st := run (init 2 3) [.start 0 3, .inc 0, .lockCheck 0, .subscribe 0, .append 2, .confirm, .append 1, .confirm,
      .start 1 10, .inc 1, .lockCheck 1]
    ((run st (deliver st 0)).ws[0]?).map (fun x => (x.pc, x.woke)) = some (.returning, true) := by decide
/-- the waiter itself holds the lock (flush between its locked check and its subscription) -/
example : let st := run (init 1 3) [.start 0 3, .inc 0, .append 1, .lockCheck 0, .append 1, .confirm]
    (st.ws[0]?).map (fun x => (x.pc, x.pos)) = some (.holding, 3) ∧ st.lock = some 0 ∧ st.cfrmd = 5 ∧
    ((run st (deliver st 0)).ws[0]?).map (fun x => (x.pc, x.woke)) = some (.returning, true) := by decide
/-- a waiter in front of its locked check (`counted`): `closeAll` and `wake` are skipped or irrelevant -/
example : let st := run (init 1 3) [.start 0 3, .append 1, .confirm, .inc 0]
    (st.ws[0]?).map (fun x => x.pc) = some .counted ∧
    ((run st (deliver st 0)).ws[0]?).map (fun x => (x.pc, x.woke)) = some (.returning, true) := by decide
/-- `progress`: a pending call behind a held lock — the holder's `subscribe` is the enabled step -/
example : let st := run (init 1 3) [.start 0 3, .inc 0, .lockCheck 0, .append 1, .confirm, .loadWaiters]
    st.pendClose = 1 ∧ st.lock = some 0 ∧ (step st .closeAll).isSome = false ∧ (step st (.subscribe 0)).isSome = true := by
  decide

/-- `obligation_persists` is not vacuous and `cancel` is the exception: the sleeper of the first example is owed data; its
cancellation returns `ctx.Err()` -/
example : let st := run (init 2 3) [.start 0 3, .inc 0, .lockCheck 0, .subscribe 0, .append 2, .confirm, .subscribe 1]
    ((st.ws[0]?).map (fun x => (x.pc, decide (x.pos < st.cfrmd))) = some (.asleep, true)) ∧
    ((run st [.cancel 0]).ws[0]?).map (fun x => (x.pc, x.woke)) = some (.returning, false) := by decide

end Logrange.Props.C11Live
