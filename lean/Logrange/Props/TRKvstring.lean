import Logrange.Proofs.TrKvTrim
import Logrange.Proofs.TrKvBraces
import Logrange.Proofs.TrKvSplit
/-!
# TR — `pkg/utils/kvstring`: the *translated* `TrimSpaces`, `RemoveCurlyBraces`, `SplitString` equal the hand-written models

`Logrange.Translated.Kvstring` is regenerated from the Go source by `tools/go2lean` on every run (index loops with fuel,
bounds-checked `s[i]` / `s[lo:hi]`, `int` as `Int`). The hand models in `Logrange.KV` (C08, C06: tag lines and field texts
parse back; partition identity) are structural recursions over the byte list. Each theorem holds for **every** input and
also says that the Go code neither panics nor exhausts the emitted fuel (`= .ok …`).

Side condition of the translation (design-notes/translator.md): `int` arithmetic does not overflow — all indices here are
bounded by `len(str) + 1`, and a Go string is shorter than 2^63 bytes.
-/
namespace Logrange.Props.TRKvstring
open Go Go.Sem Logrange Logrange.Translated

/-- `kvstring.TrimSpaces` -/
theorem tr_TrimSpaces_eq (str : Bytes) : Kvstring.TrimSpaces str = .ok (KV.trimSpaces str) :=
  Proofs.TrKvTrim.trimSpaces_eq str

example : Kvstring.TrimSpaces [32, 32, 97, 32, 98, 32] = .ok [97, 32, 98] := by decide +kernel

/-- `kvstring.RemoveCurlyBraces`: the model's `none` is the Go error (which returns the input unchanged) -/
theorem tr_RemoveCurlyBraces_eq (str : Bytes) :
    Kvstring.RemoveCurlyBraces str =
      .ok (match KV.removeCurlyBraces str with | some r => (r, false) | none => (str, true)) :=
  Proofs.TrKvBraces.removeCurlyBraces_eq str

example : Kvstring.RemoveCurlyBraces [32, 123, 123, 97, 98, 125, 32, 125] = .ok ([97, 98], false) := by decide +kernel
example : Kvstring.RemoveCurlyBraces [123, 97, 98] = .ok ([123, 97, 98], true) := by decide +kernel

/-- `kvstring.SplitString` as `ToMap` and `NewFieldsFromKVString` call it (separators `=` and `,` — the regenerated
constants of C08 —, empty buffer): the model's `none` is the Go error -/
theorem tr_SplitString_eq (str : Bytes) :
    Kvstring.SplitString str KV.EQ KV.CM [] =
      .ok (match KV.splitString str with | some l => (l, false) | none => ([], true)) :=
  Proofs.TrKvSplit.splitString_eq str

example : Kvstring.SplitString [97, 61, 34, 44, 92, 34, 34, 44, 98, 61] 61 44 [] =
    .ok ([[97], [34, 44, 92, 34, 34], [98], []], false) := by decide +kernel
example : Kvstring.SplitString [97, 61, 34, 92] 61 44 [] = .ok ([], true) := by decide +kernel

end Logrange.Props.TRKvstring
