import Logrange.Props.C20Parts.Defs
import Logrange.Model.DateLineParser
/-!
# C20 — open findings as kernel-checked facts about the model (F67 … F73)

None of these contradicts `C20_full_holds`: that theorem is about a text ALONE, rendered upper-case from a valid instant, and
states the fields the code's own rules give (Go's convention for zone abbreviations, date.go's previous-year rule). The facts
below are outside it — a second line of a file, a lower-case spelling, a negative number, an abbreviation with a conventional
offset, the literal reading of "current year" — and show that the model has the behaviour the harness observes in the code.
(F71, the wrap of `UnixNano()` in `DateTime.Capture`, is outside the model: harness only.)
-/
namespace Logrange.Props.C20
open Logrange.Date Logrange.Generated

def fnow : Now := ⟨2026, 9, 26⟩

def flpcfg : LPCfg :=
  { maxFail := C20.lpMaxFailCnt, maxSkip0 := C20.lpMaxSkipCnt, maxSkipOnDetect := C20.lpMaxSkipCntOnDetect, skipCap := C20.lpSkipCap,
    resetOnFast := C20.lpResetsCountOnFastPath, resetOnDetect := C20.lpResetsCountOnDetect,
    lastOnFast := C20.lpSetsLastDateOnFastPath, lastOnDetect := C20.lpSetsLastDateOnDetect }

/-- **F67, sticky format**: `2019-01-02 03:04:05 a`, `2019-01-02 03:04:06.789 b`, `2019-01-02 03:04:07.500 +0300 c` read by one line
parser: all three are dated by `YYYY-MM-DD HH:mm:ss` (49), remembered from line 1 — the fraction of line 2 and the fraction and
zone of line 3 are lost (alone, the default parser dates them by formats 42 and 41) -/
theorem cex_sticky_format :
    lpRun flpcfg (LP.init flpcfg)
      ([[50, 48, 49, 57, 45, 48, 49, 45, 48, 50, 32, 48, 51, 58, 48, 52, 58, 48, 53, 32, 97, 10],
        [50, 48, 49, 57, 45, 48, 49, 45, 48, 50, 32, 48, 51, 58, 48, 52, 58, 48, 54, 46, 55, 56, 57, 32, 98, 10],
        [50, 48, 49, 57, 45, 48, 49, 45, 48, 50, 32, 48, 51, 58, 48, 52, 58, 48, 55, 46, 53, 48, 48, 32, 43, 48, 51, 48, 48, 32, 99, 10]].map
        (lineAns gadj colFmts fnow)) =
    [.dated 49 ⟨2019, 1, 2, 3, 4, 5, 0, .dflt⟩, .dated 49 ⟨2019, 1, 2, 3, 4, 6, 0, .dflt⟩, .dated 49 ⟨2019, 1, 2, 3, 4, 7, 0, .dflt⟩] := by
  decide +kernel

/-- **F68, skipping**: a time-stamped line, ten undated lines, a time-stamped line: the last line is not read — it carries the
date of the first -/
theorem cex_skipping_drops_a_dated_line :
    (lpRun flpcfg (LP.init flpcfg)
      ((([[50, 48, 49, 57, 45, 48, 49, 45, 48, 50, 32, 48, 51, 58, 48, 52, 58, 48, 53, 32, 97, 10]] : List Bytes) ++
        List.replicate 10 ([73, 78, 70, 79, 58, 32, 120, 10] : Bytes) ++
        [([50, 48, 49, 57, 45, 48, 49, 45, 48, 50, 32, 48, 51, 58, 48, 57, 58, 48, 48, 32, 122, 10] : Bytes)]).map
        (lineAns gadj colFmts fnow))).getLast? = some (.carried (some ⟨2019, 1, 2, 3, 4, 5, 0, .dflt⟩)) := by decide +kernel

/-- **F69, lower-case pm**: `1/2/2019 03:04:05 pm` — the P format's expression matches, its layout `PM` does not; the 24-hour
`D/M/YYYY HH:mm:ss` (16) claims the prefix: 03:04:05 instead of 15:04:05 -/
theorem cex_lowercase_pm :
    parseFirst gadj colFmts fnow [49, 47, 50, 47, 50, 48, 49, 57, 32, 48, 51, 58, 48, 52, 58, 48, 53, 32, 112, 109]
      = .ok 16 ⟨2019, 2, 1, 3, 4, 5, 0, .dflt⟩ := by decide +kernel

/-- **F70, negative relative number**: of `--5m` the relative branch hands `-5` to `ParseFloat` (which accepts it): now + 5 minutes -/
theorem cex_negative_relative :
    (match parseLql gcfg lqlFmts fnow [45, 45, 53, 109] with | .rel u num _ => some (u, num) | _ => none) = some (109, [45, 53]) := by
  decide +kernel

/-! F71 — `DateTime.Capture` / `buildTsCond` call `time.Time.UnixNano()`, which computes `sec·10⁹ + nsec` in `int64`
(wrap-around; Go documents the result as undefined outside 1678..2262). -/

/-- Go's `int64` arithmetic: two's complement wrap-around -/
def wrapI64 (x : Int) : Int := (x + 9223372036854775808) % 18446744073709551616 - 9223372036854775808

/-- `Time.UnixNano()` = `(t.sec() + internalToUnix) * 1e9 + int64(t.nsec())` in `int64` -/
def unixNanoGo (unixSec nsec : Int) : Int := wrapI64 (wrapI64 (unixSec * 1000000000) + nsec)

/-- **F71, outside int64 nanoseconds**: 2999-12-31 00:00:00 UTC is 32 503 593 600 s after the epoch; its `UnixNano()` wraps to
−4 389 894 547 419 103 232 ns, i.e. 4 389 894 548 s BEFORE the epoch (November 1830) — a RANGE that starts there. Inside the
range the function is exact (2262-04-11 23:47:16 is the last whole second). -/
theorem cex_unixnano_wraps :
    unixNanoGo 32503593600 0 = -4389894547419103232 ∧ (-4389894547419103232 : Int) / 1000000000 = -4389894548 ∧
    unixNanoGo 9223372036 0 = 9223372036000000000 ∧ unixNanoGo 9223372037 0 < 0 := by decide +kernel

/-- **F72, zone abbreviation**: `2019-03-11 10:00:00 PST` is 10:00 in a fabricated zone of offset 0 (18:00 UTC is meant) -/
theorem cex_zone_abbreviation :
    parseFirst gadj colFmts fnow [50, 48, 49, 57, 45, 48, 51, 45, 49, 49, 32, 49, 48, 58, 48, 48, 58, 48, 48, 32, 80, 83, 84]
      = .ok 47 ⟨2019, 3, 11, 10, 0, 0, 0, .named [80, 83, 84] 0⟩ := by decide +kernel

/-- **F73, previous year**: on 2026-09-26 the year-less `Dec 11 13:14:15` is December 2025, not the current year -/
theorem cex_previous_year :
    parseFirst gadj colFmts fnow [68, 101, 99, 32, 49, 49, 32, 49, 51, 58, 49, 52, 58, 49, 53]
      = .ok 57 ⟨2025, 12, 11, 13, 14, 15, 0, .dflt⟩ := by decide +kernel

/-! F-C05-901 (registered by C05; no second id) — the LQL side of the mechanism of F69 / F-C20-901: `parseLqlDateTime` hands the
literal to `Format.Parse`, which finds a date ANYWHERE in the text and ignores the rest. `C20_lql` / `C20_lql_padded` speak about the
renderings of an instant in a format of the LQL list (blank-padded at most); the literals below are none, and what the property's
spirit demands of them — rejected, or read fully — is `C20_lql_strict`, which is false on the current code. -/

def wFrac : Bytes := [50, 48, 49, 57, 45, 48, 49, 45, 48, 50, 32, 49, 50, 58, 48, 48, 58, 48, 48, 46, 57, 48, 48]
def wTrail : Bytes := [50, 48, 49, 57, 45, 48, 49, 45, 48, 50, 32, 49, 50, 58, 48, 48, 58, 48, 48, 32, 116, 114, 97, 105, 108, 105, 110, 103]
def wLead : Bytes := [120, 50, 48, 49, 57, 45, 48, 49, 45, 48, 50, 32, 49, 50, 58, 48, 48, 58, 48, 48]
def wCore : Bytes := [50, 48, 49, 57, 45, 48, 49, 45, 48, 50, 32, 49, 50, 58, 48, 48, 58, 48, 48]

/-- **F-C05-901 on the model**: `2019-01-02 12:00:00.900` as an LQL literal is 12:00:00.000 — the LQL list has no zoneless `.SSS`
format, `YYYY-MM-DD HH:mm:ss` (49) claims the prefix and the fraction is ignored (the collector list reads the same text with its
format 42: 900 ms); `2019-01-02 12:00:00 trailing` and `x2019-01-02 12:00:00` are accepted, the rest of the literal ignored -/
theorem cex_lql_uncovered_text :
    parseLql gcfg lqlFmts fnow wFrac = .abs 49 ⟨2019, 1, 2, 12, 0, 0, 0, .dflt⟩ ∧
    parseFirst gadj colFmts fnow wFrac = .ok 42 ⟨2019, 1, 2, 12, 0, 0, 900000000, .dflt⟩ ∧
    parseLql gcfg lqlFmts fnow wTrail = .abs 49 ⟨2019, 1, 2, 12, 0, 0, 0, .dflt⟩ ∧
    parseLql gcfg lqlFmts fnow wLead = .abs 49 ⟨2019, 1, 2, 12, 0, 0, 0, .dflt⟩ := by decide +kernel

/-- what a strict reading of the LQL clause demands: an absolute literal that is accepted is matched AS A WHOLE (after the blank
trim) by the expression of the format that claims it — nothing of the literal is left uncovered -/
def C20_lql_strict : Prop :=
  ∀ (now : Now) (txt : Bytes) (j : Nat) (c : Civil), parseLql gcfg lqlFmts now txt = .abs j c →
    ∃ cf r, lqlFmts[j]? = some cf ∧ cf.rx = some r ∧ findG cf.guard r (trimBlanks txt) = some (trimBlanks txt)

theorem wTrail_facts :
    (lqlFmts[49]?.bind (fun cf => cf.rx.bind (fun r => findG cf.guard r (trimBlanks wTrail)))) = some wCore ∧
    trimBlanks wTrail ≠ wCore := by decide +kernel

/-- **the strict LQL clause is false on the current code** (F-C05-901): `2019-01-02 12:00:00 trailing` is accepted although the
claiming format's expression covers only the first 19 bytes -/
theorem C20_lql_strict_fails : ¬ C20_lql_strict := by
  intro h
  obtain ⟨cf, r, hcf, hr, hf⟩ := h fnow wTrail 49 _ cex_lql_uncovered_text.2.2.1
  obtain ⟨e, hne⟩ := wTrail_facts
  rw [hcf] at e
  simp only [Option.bind_some, hr, hf, Option.some.injEq] at e
  exact hne e

end Logrange.Props.C20
