import Logrange.Proofs.TagsTight
import Logrange.Proofs.ParsedKeys
import Logrange.Proofs.TagsNecessity
import Logrange.Proofs.TagsNecessityN
import Logrange.Proofs.TagsNecessityS2
/-!
# C08 — how tight is the hypothesis `safe` of `tags_roundtrip_partial`?

* `safe` is NOT the weakest class for sets of two or more pairs: `RemoveCurlyBraces` looks only at the two ends of the
  line, so only the FIRST name must not start with `{` and only the LAST raw value must not end with `}`.
  `tags_roundtrip_weak` proves the round trip on the larger, position-aware class `safeW`; `safeW_strictly_larger` is a
  kernel-checked member of `safeW \ safe` that round-trips.
* On one-pair sets `safeW = safe` (`safeW_eq_safe_on_singletons`) and the class is EXACT, both directions proved:
  `singleton_roundtrip_iff_safe : parse (line [(k, v)]) = some [(k, v)] ↔ safe [(k, v)]` — the partial theorem is tight
  there. The necessity direction rests on `unquote_ne_self` / `unquote_never_restores`: `strconv.Unquote` has no fixed point
  (a length argument fails — an invalid UTF-8 byte grows to U+FFFD, three bytes — the proof counts backslashes and double
  quotes: every step of `UnquoteChar` appends at most as many as it consumes, the two delimiters are lost).
* For any number of pairs `safeW` is EXACT whenever the raw values are inert: `safeW_iff_inert` (`parse (line m) = some m ↔ safeW m`
  under `rawInert m`), `safeW_iff_noDQ` (same under "no unquoted value contains a double quote"); `names_necessary` holds
  without any hypothesis. What stays open of `safeW_necessary : Prop` is exactly a raw value that is NOT inert (an unbalanced
  double quote in a value printed without quotes): the splitter then runs out of step with the pairs, later quoted values are
  read at top level and `mp[k] = v` lets a later pair override an earlier one; no counting argument closes it (lengths fail on
  invalid UTF-8, the backslash/quote count has slack), it needs a positional invariant of the out-of-step run. It is supported by
  kernel-checked counterexamples for each dropped condition (`Props.C08.cex_…`, `cex_first_name_brace`, …) and measured on
  every run by the harness (section `tags`, cross-tab `safeW=0|1 × outcome`: quick 75 288 accepted sets, `safeW=1` ⇒ same
  43 097/43 097, `safeW=0` ⇒ same 0/32 191; a round trip outside `safeW` is kept as a sample).
-/
namespace Logrange.Props.C08Tight
open Go Logrange.Quote Logrange.KV Logrange.Tags Logrange.Proofs.KV Logrange.Proofs.Tags Logrange.Proofs.TagsTight
  Logrange.Proofs.TagsNecessity Logrange.Proofs.UnquoteFix

/-- **Round trip on the larger class `safeW`** for every accepted tag text -/
theorem tags_roundtrip_weak (t : Bytes) (m : Map) (h : parse t = some m) (hs : safeW m = true) :
    parse (line m) = some m :=
  roundtrip_weak Logrange.Proofs.Quote.quoteContract m (parse_WF t m h) hs

/-- the same for any map handed to `tag.MapToSet` -/
theorem mapset_roundtrip_weak (m : Map) (hwf : Map.WF m) (hs : safeW m = true) : parse (line m) = some m :=
  roundtrip_weak Logrange.Proofs.Quote.quoteContract m hwf hs

/-- on `safeW` sets the line determines the set -/
theorem line_injective_weak (m1 m2 : Map) (h1 : Map.WF m1) (h2 : Map.WF m2) (s1 : safeW m1 = true)
    (s2 : safeW m2 = true) (h : line m1 = line m2) : m1 = m2 := by
  have e1 := mapset_roundtrip_weak m1 h1 s1
  have e2 := mapset_roundtrip_weak m2 h2 s2
  rw [h, e2] at e1
  exact (Option.some.inj e1).symm

theorem safe_subset_safeW (m : Map) (hs : safe m = true) : safeW m = true := safe_imp_safeW m hs

theorem safeW_eq_safe_on_singletons (k v : Bytes) : safeW [(k, v)] = safe [(k, v)] := safeW_singleton k v

/-- `safeW` is strictly larger than `safe`: `a=x},{c=2` (a first value ending in `}`, a second name starting with `{`)
is in `safeW`, not in `safe`, and its line reads back as the same set -/
theorem safeW_strictly_larger : safeW [([97], [120, 125]), ([123, 99], [50])] = true ∧
    safe [([97], [120, 125]), ([123, 99], [50])] = false ∧
    parse (line [([97], [120, 125]), ([123, 99], [50])]) = some [([97], [120, 125]), ([123, 99], [50])] := safeW_strict

/-- **The name conditions are necessary**: if the line of a set reads back as the same set, every name is non-empty,
trimmed and inert (`okKey`) -/
theorem names_necessary (m : Map) (h : parse (line m) = some m) : ∀ p ∈ m, okKey p.1 = true := by
  intro p hp
  obtain ⟨h1, h2, h3⟩ := Logrange.Proofs.ParsedKeys.parsed_names_readable (line m) m h p hp
  unfold okKey
  simp only [Bool.and_eq_true, Bool.not_eq_true', h2, h3, and_true]
  cases hk : p.1 with
  | nil => exact absurd hk h1
  | cons _ _ => rfl

/-- **`strconv.Unquote` has no fixed point**: a text that starts with a double quote or a backquote is never its own
unquoted value (all byte strings, valid UTF-8 or not) -/
theorem unquote_ne_self (v : Bytes) (h : v.head? = some DQ ∨ v.head? = some BQ) : unquote v ≠ some v :=
  Logrange.Proofs.UnquoteFix.unquote_ne_self v h

/-- …not even up to surrounding blanks (what `kvstring.ToMap` does to a raw value piece: trim, then unquote) -/
theorem unquote_never_restores (v : Bytes) (h : (trimSpaces v).head? = some DQ ∨ (trimSpaces v).head? = some BQ) :
    unquote (trimSpaces v) ≠ some v :=
  unquote_trim_ne v h

/-- **`safe` is exactly tight on one-pair sets**: the line of `{k: v}` is accepted and denotes `{k: v}` IFF the set is Safe -/
theorem singleton_roundtrip_iff_safe (k v : Bytes) : parse (line [(k, v)]) = some [(k, v)] ↔ safe [(k, v)] = true :=
  ⟨singleton_necessity k v,
   fun hs => roundtrip_core Logrange.Proofs.Quote.quoteContract [(k, v)] (by simp [Map.WF]) hs⟩

/-- non-vacuity of both directions: `a=x"y"z` is Safe; `a=x"y` is not and does not read back -/
example : safe [([97], [120, 34, 121, 34, 122])] = true ∧ safe [([97], [120, 34, 121])] = false ∧
    parse (line [([97], [120, 34, 121])]) = none := by decide +kernel

/-- **`safeW` is exactly tight for ANY number of pairs whose raw values are inert** (every value that is printed without
quotes has balanced double quotes and no dangling backslash inside them): the line reads back as the same set IFF `safeW` -/
theorem safeW_iff_inert (m : Map) (hwf : Map.WF m) (hi : Logrange.Proofs.TagsNecessityN.rawInert m = true) :
    parse (line m) = some m ↔ safeW m = true :=
  Logrange.Proofs.TagsNecessityN.safeW_iff_inert m hwf hi

theorem safeW_necessary_inert (m : Map) (hwf : Map.WF m) (hi : Logrange.Proofs.TagsNecessityN.rawInert m = true)
    (h : parse (line m) = some m) : safeW m = true :=
  Logrange.Proofs.TagsNecessityN.safeW_necessary_inert m hwf hi h

/-- the same under a purely syntactic hypothesis: no raw (unquoted) value contains a double quote -/
theorem safeW_iff_noDQ (m : Map) (hwf : Map.WF m) (h : ∀ p ∈ m, needsQuote p.2 = false → DQ ∉ p.2) :
    parse (line m) = some m ↔ safeW m = true :=
  Logrange.Proofs.TagsNecessityN.safeW_iff_noDQ m hwf h

/-- non-vacuity: `a=x},{c=2` (in `safeW \ safe`) has inert raw values -/
example : Logrange.Proofs.TagsNecessityN.rawInert [([97], [120, 125]), ([123, 99], [50])] = true := by decide +kernel

/-- necessity also when only the LAST value may be a non-inert raw value (all earlier raw values inert): a non-inert raw value
at the end leaves the splitter inside a string — the split fails (`last_raw_not_inert`) -/
theorem safeW_necessary_initInert (A : Map) (k v : Bytes) (hwf : Map.WF (A ++ [(k, v)]))
    (hA : Logrange.Proofs.TagsNecessityN.rawInert A = true)
    (h : parse (line (A ++ [(k, v)])) = some (A ++ [(k, v)])) : safeW (A ++ [(k, v)]) = true :=
  Logrange.Proofs.TagsNecessityS2.safeW_necessary_initInert A k v hwf hA h

/-- a `,` that reaches `ToMap`'s value decoding survives it (raw, double-quoted or back-quoted: `,` is no part of any
escape), so the value piece that runs on past a swallowed separator never decodes to the raw value it started with -/
theorem diverged_piece_ne (v z x : Bytes) (hv : CM ∉ v) (hd : decodeValue (trimSpaces (v ++ CM :: z)) = some x) : x ≠ v :=
  Logrange.Proofs.TagsNecessityS2.diverged_piece_ne v z x hv hd

/-- the full characterisation for any number of pairs — what is left open is exactly the case of a raw value that is NOT
inert (an unbalanced double quote in a value printed without quotes): see the header -/
def safeW_necessary : Prop := ∀ m, Map.WF m → parse (line m) = some m → safeW m = true

/-- the two position-dependent conditions are necessary where they apply: a FIRST name starting with `{` … -/
theorem cex_first_name_brace : okPair ([123, 99], [50]) = true ∧ parse (line [([123, 99], [50])]) = none := by decide +kernel
/-- … and a LAST raw value ending in `}` break the round trip -/
theorem cex_last_value_brace : okPair ([97], [120, 125]) = true ∧ parse (line [([97], [120, 125])]) = none := by decide +kernel
/-- both together are read back as ANOTHER set: `{c=x}` is {c: x} -/
theorem cex_both_braces : parse (line [([123, 99], [120, 125])]) = some [([99], [120])] := by decide +kernel

end Logrange.Props.C08Tight
