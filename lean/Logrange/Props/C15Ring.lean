import Logrange.Model.Ring
/-!
# C15, third part — algebra of the list-level ring (`container.CLElement` as `pkg/cursor/provider.go` uses it)

Every theorem of this namespace is an obligation of `./check C15`.

The provider keeps its holders in two rings and moves a holder between them with `TearOff` followed by `Append` of the
single-element ring. "Released exactly once" and "never pins partitions forever" need the rings to neither lose nor
duplicate a holder under these moves. The theorems below state that for **all** rings and elements at the list level
(`Model/Ring.lean`, which `Props/C15Live.lean` proves to be refined by the pointer-level model, and which the harness
section `ring` compares with the real cells):

* `len_append` — `Append` keeps every cell: lengths add up;
* `mem_append` — membership after `Append` is the union (nothing lost, nothing invented);
* `nodup_append` — two disjoint duplicate-free rings give a duplicate-free ring (a holder is never twice in a ring);
* `len_tearOff_mem` / `len_tearOff_not_mem` — `TearOff` of a member removes exactly one cell, of a stranger none;
* `mem_tearOff` — in a duplicate-free ring `TearOff e` removes `e` and only `e`;
* `tearOff_push` — pushing a fresh holder in front and tearing it off again gives the ring back (a touch that is undone);
* `move_preserves_members` — the provider's move (tear off from one ring, push in front of the other) keeps the union of
  the two rings' members and the total count;
* `nodup_tearOff` / `nodup_push` / `move_preserves_nodup` — the move keeps both rings duplicate-free and disjoint;
* `prev_mem` — `Prev()`/`Next()` of a member is a member (the sweeper never leaves the ring);
* `prev_nextField` — one step along the `next` fields and one step back along `prev` is the identity: the two pointer chains
  describe the same cycle (list level); `nextField_prev` — the converse, so `Prev()` is a bijection of the ring.
-/
namespace Logrange.Props.C15Ring
open Logrange.Ring

theorem len_append (cle chain : Ring) : len (append cle chain) = len cle + len chain := by
  unfold len append
  cases chain with
  | nil => simp
  | cons c cs =>
    cases cle with
    | nil => simp
    | cons h t => simp; omega

theorem mem_append (cle chain : Ring) (x : Nat) : x ∈ append cle chain ↔ x ∈ cle ∨ x ∈ chain := by
  unfold append
  cases chain with
  | nil => simp
  | cons c cs =>
    cases cle with
    | nil => simp
    | cons h t =>
      simp only [List.mem_cons, List.mem_append]
      constructor
      · rintro (h1 | (h2 | h3) | h4)
        · exact Or.inl (Or.inl h1)
        · exact Or.inr (Or.inl h2)
        · exact Or.inr (Or.inr h3)
        · exact Or.inl (Or.inr h4)
      · rintro ((h1 | h4) | (h2 | h3))
        · exact Or.inl h1
        · exact Or.inr (Or.inr h4)
        · exact Or.inr (Or.inl (Or.inl h2))
        · exact Or.inr (Or.inl (Or.inr h3))

theorem nodup_append (cle chain : Ring) (h1 : cle.Nodup) (h2 : chain.Nodup)
    (hd : ∀ x, x ∈ cle → x ∉ chain) : (append cle chain).Nodup := by
  unfold append
  cases chain with
  | nil => simpa using h1
  | cons c cs =>
    cases cle with
    | nil => simpa using h2
    | cons h t =>
      have hh : h ∉ t := (List.nodup_cons.mp h1).1
      have ht : t.Nodup := (List.nodup_cons.mp h1).2
      have hhc : h ∉ c :: cs := hd h (by simp)
      refine List.nodup_cons.mpr ⟨?_, ?_⟩
      · intro hm
        rcases List.mem_append.mp hm with hm | hm
        · exact hhc hm
        · exact hh hm
      · refine List.nodup_append.mpr ⟨h2, ht, ?_⟩
        intro a ha b hb hab
        subst hab
        exact hd a (by simp [hb]) ha

theorem len_tearOff_mem (r : Ring) (e : Nat) (he : e ∈ r) : len (tearOff r (some e)) + 1 = len r := by
  unfold len tearOff
  simp only
  rw [List.length_erase_of_mem he]
  have : 0 < r.length := List.length_pos_of_mem he
  omega

theorem len_tearOff_not_mem (r : Ring) (e : Nat) (he : e ∉ r) : tearOff r (some e) = r := by
  unfold tearOff
  simp only
  exact List.erase_of_not_mem he

theorem tearOff_nil (r : Ring) : tearOff r none = r := rfl

theorem mem_tearOff (r : Ring) (hr : r.Nodup) (e x : Nat) : x ∈ tearOff r (some e) ↔ x ∈ r ∧ x ≠ e := by
  unfold tearOff
  simp only
  rw [hr.mem_erase_iff]
  exact And.comm

theorem tearOff_push (r : Ring) (e : Nat) : tearOff (append [e] r) (some e) = r := by
  unfold tearOff append
  cases r with
  | nil => simp
  | cons c cs => simp

/-- The provider's move of a holder `e` from ring `a` to the front of ring `b`: the members of the two rings together are
the same before and after, and so is their number. -/
theorem move_preserves_members (a b : Ring) (ha : a.Nodup) (e : Nat) (he : e ∈ a) (x : Nat) :
    (x ∈ tearOff a (some e) ∨ x ∈ append [e] b) ↔ (x ∈ a ∨ x ∈ b) := by
  rw [mem_tearOff a ha, mem_append]
  constructor
  · rintro (⟨h, _⟩ | h | h)
    · exact Or.inl h
    · simp at h; subst h; exact Or.inl he
    · exact Or.inr h
  · rintro (h | h)
    · by_cases hx : x = e
      · exact Or.inr (Or.inl (by simp [hx]))
      · exact Or.inl ⟨h, hx⟩
    · exact Or.inr (Or.inr h)

theorem move_preserves_count (a b : Ring) (e : Nat) (he : e ∈ a) :
    len (tearOff a (some e)) + len (append [e] b) = len a + len b := by
  have h1 := len_tearOff_mem a e he
  have h2 := len_append [e] b
  simp only [len] at *
  simp at h2
  omega

theorem prevAux_mem (last : Nat) : ∀ (l : List Nat) (e : Nat), e ∈ l → prevAux last l e = last ∨ prevAux last l e ∈ l
  | [], e, h => by simp at h
  | x :: xs, e, h => by
    unfold prevAux
    by_cases hx : x = e
    · simp [hx]
    · simp only [hx, if_false]
      have he : e ∈ xs := by
        rcases List.mem_cons.mp h with h | h
        · exact absurd h.symm hx
        · exact h
      rcases prevAux_mem x xs e he with h | h
      · right; rw [h]; simp
      · right; exact List.mem_cons_of_mem _ h

theorem prev_mem (r : Ring) (e : Nat) (he : e ∈ r) : prev r e ∈ r := by
  unfold prev
  cases hl : r.getLast? with
  | none =>
    have : r = [] := List.getLast?_eq_none_iff.mp hl
    subst this; simp at he
  | some l =>
    simp only
    have hlm : l ∈ r := List.mem_of_getLast? hl
    rcases prevAux_mem l r e he with h | h
    · rw [h]; exact hlm
    · exact h

theorem next_mem (r : Ring) (e : Nat) (he : e ∈ r) : next r e ∈ r := prev_mem r e he

theorem nodup_tearOff (r : Ring) (hr : r.Nodup) (e : Option Nat) : (tearOff r e).Nodup := by
  cases e with
  | none => exact hr
  | some e => exact hr.erase e

theorem nodup_push (r : Ring) (hr : r.Nodup) (e : Nat) (he : e ∉ r) : (append [e] r).Nodup := by
  refine nodup_append [e] r (by simp) hr ?_
  intro x hx
  have : x = e := by simpa using hx
  subst this
  exact he

/-- The provider's move keeps the ring invariant: both rings stay duplicate-free and disjoint (no holder is ever in two
rings or twice in one). -/
theorem move_preserves_nodup (a b : Ring) (ha : a.Nodup) (hb : b.Nodup) (hd : ∀ x, x ∈ a → x ∉ b) (e : Nat) (he : e ∈ a) :
    (tearOff a (some e)).Nodup ∧ (append [e] b).Nodup ∧ ∀ x, x ∈ tearOff a (some e) → x ∉ append [e] b := by
  refine ⟨nodup_tearOff a ha (some e), nodup_push b hb e (hd e he), ?_⟩
  intro x hx hx2
  rw [mem_tearOff a ha] at hx
  rw [mem_append] at hx2
  rcases hx2 with h | h
  · have : x = e := by simpa using h
    exact hx.2 this
  · exact hd x hx.1 h

/-! ## the `next` chain and the `prev` chain describe the same cycle

`nextField r e` is the cell the `next` *field* of `e` refers to, `prev r e` what `Prev()` (and, by the quirk, `Next()`) returns.
`prev_nextField`: in every duplicate-free ring, going one cell along the `next` fields and one back along `prev` returns to the
start — for all rings (singletons and the wrap-around at the last cell included). -/

theorem go_mid (e h : Nat) : ∀ (l1 : List Nat) (y : Nat) (l2 : List Nat), e ∉ l1 →
    nextField.go e h (l1 ++ e :: y :: l2) = y
  | [], y, l2, _ => by simp [nextField.go]
  | [a], y, l2, hn => by
    have : a ≠ e := by intro h; apply hn; simp [h]
    simp [nextField.go, this]
  | a :: b :: l1, y, l2, hn => by
    have hae : a ≠ e := by intro h; apply hn; simp [h]
    have hn' : e ∉ b :: l1 := by intro h; apply hn; exact List.mem_cons_of_mem _ h
    have ih := go_mid e h (b :: l1) y l2 hn'
    simp only [List.cons_append] at ih ⊢
    simp only [nextField.go, hae, if_false]
    exact ih
theorem go_last (e h : Nat) : ∀ (l1 : List Nat), e ∉ l1 → nextField.go e h (l1 ++ [e]) = h
  | [], _ => by simp [nextField.go]
  | [a], hn => by
    have : a ≠ e := by intro h; apply hn; simp [h]
    simp [nextField.go, this]
  | a :: b :: l1, hn => by
    have hae : a ≠ e := by intro h; apply hn; simp [h]
    have hn' : e ∉ b :: l1 := by intro h; apply hn; exact List.mem_cons_of_mem _ h
    have ih := go_last e h (b :: l1) hn'
    simp only [List.cons_append] at ih ⊢
    simp only [nextField.go, hae, if_false]
    exact ih
theorem prevAux_mid : ∀ (l1 : List Nat) (last e y : Nat) (l2 : List Nat), y ∉ l1 → y ≠ e →
    prevAux last (l1 ++ e :: y :: l2) y = e
  | [], last, e, y, l2, _, hne => by simp [prevAux, Ne.symm hne]
  | a :: l1, last, e, y, l2, hn, hne => by
    have hay : a ≠ y := by intro h; apply hn; simp [h]
    have hn' : y ∉ l1 := by intro h; apply hn; exact List.mem_cons_of_mem _ h
    simp only [List.cons_append, prevAux, hay, if_false]
    exact prevAux_mid l1 a e y l2 hn' hne

theorem nextField_eq_go (r : Ring) (e : Nat) (hne : r ≠ []) : nextField r e = nextField.go e (r.head hne) r := by
  cases r with
  | nil => exact absurd rfl hne
  | cons h t => simp [nextField]

theorem prev_nextField (r : Ring) (hr : r.Nodup) (e : Nat) (he : e ∈ r) : prev r (nextField r e) = e := by
  obtain ⟨l1, l2, rfl⟩ := List.append_of_mem he
  have hnd := List.nodup_append.mp hr
  have hn1 : e ∉ l1 := fun h => hnd.2.2 e h e (by simp) rfl
  have hne : l1 ++ e :: l2 ≠ [] := by simp
  rw [nextField_eq_go _ _ hne]
  cases l2 with
  | nil =>
    rw [go_last _ _ l1 hn1]
    cases l1 with
    | nil => simp [prev, prevAux]
    | cons a l1' =>
      have hl : (a :: (l1' ++ [e])).getLast? = some e := by
        rw [← List.cons_append]; exact List.getLast?_concat
      simp [prev, prevAux, hl]
  | cons y l2' =>
    rw [go_mid _ _ l1 y l2' hn1]
    have hye : y ≠ e := by
      have := (List.nodup_cons.mp hnd.2.1).1
      intro h; apply this; simp [h]
    have hy1 : y ∉ l1 := fun h => hnd.2.2 y h y (by simp) rfl
    unfold prev
    cases hl : (l1 ++ e :: y :: l2').getLast? with
    | none => simp at hl
    | some l => exact prevAux_mid l1 l e y l2' hy1 hye

/-! the converse: one step back along `prev`, one forward along the `next` fields — so `Prev()` is a bijection of the ring
with inverse `nextField` (a walk by `Prev()`/`Next()` visits distinct cells until it is back at its start). -/

theorem snoc_cases (l : List Nat) : l = [] ∨ ∃ l' b, l = l' ++ [b] := by
  rcases List.eq_nil_or_concat l with h | ⟨L, b, h⟩
  · exact Or.inl h
  · exact Or.inr ⟨L, b, by rw [h, List.concat_eq_append]⟩

theorem prev_head_eq_last (e : Nat) (t : List Nat) (z : Nat) : prev (e :: (t ++ [z])) e = z := by
  have hl : (e :: (t ++ [z])).getLast? = some z := by
    rw [← List.cons_append]; exact List.getLast?_concat
  simp [prev, prevAux, hl]

theorem nextField_prev (r : Ring) (hr : r.Nodup) (e : Nat) (he : e ∈ r) : nextField r (prev r e) = e := by
  obtain ⟨l1, l2, rfl⟩ := List.append_of_mem he
  have hnd := List.nodup_append.mp hr
  have hn1 : e ∉ l1 := fun h => hnd.2.2 e h e (by simp) rfl
  rcases snoc_cases l1 with rfl | ⟨l1', p, rfl⟩
  · rcases snoc_cases l2 with rfl | ⟨t, z, rfl⟩
    · simp [prev, prevAux, nextField, nextField.go]
    · simp only [List.nil_append]
      rw [prev_head_eq_last]
      have hz : z ∉ e :: t := by
        have h2 : (e :: (t ++ [z])).Nodup := hnd.2.1
        rw [← List.cons_append] at h2
        have := List.nodup_append.mp h2
        intro hm; exact this.2.2 z hm z (by simp) rfl
      have hne : e :: (t ++ [z]) ≠ [] := by simp
      rw [nextField_eq_go _ _ hne]
      have := go_last z e (e :: t) hz
      simpa using this
  · have hpe : e ≠ p := by intro h; apply hn1; simp [h]
    have he1 : e ∉ l1' := fun h => hn1 (by simp [h])
    have hp1 : p ∉ l1' := by
      have := List.nodup_append.mp hnd.1
      intro hm; exact this.2.2 p hm p (by simp) rfl
    have hne : l1' ++ [p] ++ e :: l2 ≠ [] := by simp
    have hform : l1' ++ [p] ++ e :: l2 = l1' ++ p :: e :: l2 := by simp
    have hprev : prev (l1' ++ [p] ++ e :: l2) e = p := by
      rw [hform]; unfold prev
      cases hl : (l1' ++ p :: e :: l2).getLast? with
      | none => simp at hl
      | some l => exact prevAux_mid l1' l p e l2 he1 hpe
    rw [hprev, nextField_eq_go _ _ hne]
    simp only [hform]
    exact go_mid p _ l1' e l2 hp1

/-- non-vacuity: a concrete move between two rings -/
example : tearOff [1, 2, 3] (some 2) = [1, 3] ∧ append [2] [7, 8] = [2, 7, 8] ∧ prev [1, 2, 3] 1 = 3 := by decide

end Logrange.Props.C15Ring
