import Logrange.Translated.Ckindex
import Logrange.Model.ITree
import Logrange.Proofs.TrCkSearch
/-!
# TR — `pkg/tmindex/ckindex.go`: the *translated* block helpers equal the hand-written tree model (C02)

`Logrange.Translated.Ckindex` is regenerated from the Go source by `tools/go2lean` on every run. The hand model of the time
index tree (`Logrange.ITree`, records as `Points.Pt` with `ts : Int`, `idx : Nat`) is what C02's theorems about look-ups in
the tree are proved on. `absRec`/`absIv` read the translated `record {ts int64, idx uint32}` / `interval`. The block buffer
is represented by its header `hdr count level rest`; `readRecord` is an opaque callee of the translated functions (it decodes
12 bytes with the `xbinary` library): the theorems hold for every function that returns the model's records.
-/
namespace Logrange.Props.TRCkindex
open Go Go.Sem Logrange Logrange.Points Logrange.Translated.Ckindex

/-- the hand models keep `ts` as `Int` and `idx` as `Nat` -/
def absRec (r : record) : Pt := ⟨r.ts.toInt, r.idx.toNat⟩
def absIv (i : interval) : Iv := ⟨absRec i.p0, absRec i.p1⟩

theorem tr_minmax_eq :
    (∀ a b : Int64, ∃ r, maxInt64 a b = .ok r ∧ r.toInt = max a.toInt b.toInt) ∧
    (∀ a b : Int64, ∃ r, minInt64 a b = .ok r ∧ r.toInt = min a.toInt b.toInt) ∧
    (∀ a b : UInt32, ∃ r, maxUint32 a b = .ok r ∧ r.toNat = max a.toNat b.toNat) ∧
    (∀ a b : UInt32, ∃ r, minUint32 a b = .ok r ∧ r.toNat = min a.toNat b.toNat) ∧
    (∀ a b : Int, maxInt a b = .ok (max a b)) := by
  refine ⟨?_, ?_, ?_, ?_, ?_⟩
  · intro a b; simp only [maxInt64, gt_iff_lt, Int64.lt_iff_toInt_lt]
    by_cases h : b.toInt < a.toInt <;> simp [h] <;> omega
  · intro a b; simp only [minInt64, Int64.lt_iff_toInt_lt]
    by_cases h : a.toInt < b.toInt <;> simp [h] <;> omega
  · intro a b; simp only [maxUint32, gt_iff_lt, UInt32.lt_iff_toNat_lt]
    by_cases h : b.toNat < a.toNat <;> simp [h] <;> omega
  · intro a b; simp only [minUint32, UInt32.lt_iff_toNat_lt]
    by_cases h : a.toNat < b.toNat <;> simp [h] <;> omega
  · intro a b; simp only [maxInt, gt_iff_lt]
    by_cases h : b < a <;> simp [h] <;> omega

theorem tr_record_reduce_eq (r r1 : record) :
    ∃ q, record_reduce r r1 = .ok q ∧ absRec q = ITree.reduce (absRec r) (absRec r1) := by
  obtain ⟨_, hmin64, _, hmin32, _⟩ := tr_minmax_eq
  obtain ⟨a, ha, ha'⟩ := hmin64 r.ts r1.ts
  obtain ⟨b, hb, hb'⟩ := hmin32 r.idx r1.idx
  refine ⟨{ ts := a, idx := b }, ?_, ?_⟩
  · simp [record_reduce, ha, hb]
  · simp [absRec, ITree.reduce, ha', hb']

theorem tr_record_extend_eq (r r1 : record) :
    ∃ q, record_extend r r1 = .ok q ∧
      absRec q = ⟨max (absRec r).ts (absRec r1).ts, max (absRec r).idx (absRec r1).idx⟩ := by
  obtain ⟨hmax64, _, hmax32, _, _⟩ := tr_minmax_eq
  obtain ⟨a, ha, ha'⟩ := hmax64 r.ts r1.ts
  obtain ⟨b, hb, hb'⟩ := hmax32 r.idx r1.idx
  refine ⟨{ ts := a, idx := b }, ?_, ?_⟩
  · simp [record_extend, ha, hb]
  · simp [absRec, ha', hb']

theorem tr_applyPrevRecord_eq (i : interval) (r : record) :
    ∃ q, interval_applyPrevRecord i r = .ok q ∧ absIv q = { absIv i with p0 := absRec r } := by
  exact ⟨_, rfl, rfl⟩

/-- a block buffer whose header says `n` records at level `lvl` -/
def hdr (n : Nat) (lvl : UInt8) (rest : Bytes) : Bytes := UInt8.ofNat n :: lvl :: rest

theorem tr_block_records_eq (n : Nat) (hn : n < 256) (lvl : UInt8) (rest : Bytes) :
    block_records { buf := hdr n lvl rest } = .ok (n : Int) := by
  have : (UInt8.ofNat n).toNat = n := by simp [UInt8.toNat_ofNat', Nat.mod_eq_of_lt hn]
  simp [block_records, hdr, index, this]

theorem tr_block_level_eq (n : Nat) (lvl : UInt8) (rest : Bytes) :
    block_level { buf := hdr n lvl rest } = .ok (lvl.toNat : Int) := by
  simp [block_level, hdr, index]

theorem tr_block_intervals_eq (b : ITree.T) (hn : ITree.records b < 256) (lvl : UInt8) (rest : Bytes) :
    block_intervals { buf := hdr (ITree.records b) lvl rest } = .ok (ITree.intervals b : Int) := by
  have e : (UInt8.ofNat (ITree.records b)).toNat = ITree.records b := by simp [UInt8.toNat_ofNat', Nat.mod_eq_of_lt hn]
  have hi : index (hdr (ITree.records b) lvl rest) (0 : Int) = .ok (UInt8.ofNat (ITree.records b)) := by simp [hdr, index]
  simp only [block_intervals, hi, Go.Sem.bind, e, ITree.intervals]
  by_cases h : ITree.records b ≤ 1
  · have h' : ((ITree.records b : Nat) : Int) ≤ 1 := by omega
    simp [h, h']
  · have h' : ¬ ((ITree.records b : Nat) : Int) ≤ 1 := by omega
    simp [h, h']; omega

/-- `theBlockInterval` on a block with records `pts` (C02's tree model does not represent block numbers: `p0.idx` is the
block's own number in the code, compared separately) -/
theorem tr_theBlockInterval_eq (pts : List Pt) (hne : pts ≠ []) (hn : pts.length < 256) (lvl : UInt8) (rest : Bytes) (bi : Int)
    (rr : Int → record) (hrr : ∀ (h : Nat) (hh : h < pts.length), absRec (rr (h : Int)) = pts[h]) :
    ∃ q, block_theBlockInterval { buf := hdr pts.length lvl rest, idx := bi } rr = .ok q ∧
      (absIv q).p0.ts = (ITree.theBlockInterval (.leaf pts)).p0.ts ∧
      (absIv q).p0.idx = (UInt32.ofInt bi).toNat ∧
      (absIv q).p1 = (ITree.theBlockInterval (.leaf pts)).p1 := by
  have hr := tr_block_records_eq pts.length hn lvl rest
  have hpos : 0 < pts.length := List.length_pos_iff.mpr hne
  have hz : ¬ ((pts.length : Int) = 0) := by omega
  have e1 : ((pts.length : Int) - 1) = ((pts.length - 1 : Nat) : Int) := by omega
  have h0 := hrr 0 hpos
  have hl := hrr (pts.length - 1) (by omega)
  simp only [block_theBlockInterval, hr, Go.Sem.bind, beq_iff_eq, hz, if_false, e1]
  refine ⟨_, rfl, ?_, ?_, ?_⟩
  · have : (absRec (rr ((0 : Nat) : Int))).ts = pts[0].ts := by rw [h0]
    cases pts with
    | nil => exact absurd rfl hne
    | cons p r => simpa [absIv, absRec, ITree.theBlockInterval] using this
  · simp [absIv, absRec]
  · simp only [absIv, ITree.theBlockInterval]
    rw [hl]
    cases pts with
    | nil => exact absurd rfl hne
    | cons p r => simp [List.getLastD_eq_getLast?, List.getLast?_eq_getElem?]

/-- … and it panics on an empty block, as the code says -/
theorem tr_theBlockInterval_empty (lvl : UInt8) (rest : Bytes) (bi : Int) (rr : Int → record) :
    block_theBlockInterval { buf := hdr 0 lvl rest, idx := bi } rr = .panic := by
  have hr := tr_block_records_eq 0 (by decide) lvl rest
  simp [block_theBlockInterval, hr]

/-- `findIntervalIdx`: on ts-sorted records the Go binary search computes C02's `ITree.findIntervalIdx` of the leaf -/
theorem tr_findIntervalIdx_eq (pts : List Pt) (hs : SortedTs pts) (hn : pts.length < 256) (lvl : UInt8) (rest : Bytes)
    (rr : Int → record) (hrr : ∀ (h : Nat) (hh : h < pts.length), (rr (h : Int)).ts.toInt = pts[h].ts) (ts : Int64) :
    block_findIntervalIdx { buf := hdr pts.length lvl rest } ts rr = .ok (ITree.findIntervalIdx (.leaf pts) ts.toInt) := by
  rw [hdr, Proofs.TrCkSearch.findIntervalIdx_eq pts hs hn (lvl :: rest) rr hrr ts]
  simp [ITree.findIntervalIdx, ITree.records, ITree.recsOf, ITree.cntLE]

/-- `findIntervalInsertIdx` in terms of the number of records with `ts ≤ t` (`Points.cntLE`) and the block's level byte -/
theorem tr_findIntervalInsertIdx_eq (pts : List Pt) (hs : SortedTs pts) (hn : pts.length < 256) (lvl : UInt8) (rest : Bytes)
    (rr : Int → record) (hrr : ∀ (h : Nat) (hh : h < pts.length), (rr (h : Int)).ts.toInt = pts[h].ts) (ts : Int64) :
    block_findIntervalInsertIdx { buf := hdr pts.length lvl rest } ts rr =
      .ok (if pts.length = 0 then 0
           else if lvl = 0 then (cntLE pts ts.toInt : Int) - 1
           else if cntLE pts ts.toInt = pts.length then (pts.length : Int) - 2
           else max 0 ((cntLE pts ts.toInt : Int) - 1)) :=
  Proofs.TrCkSearch.findIntervalInsertIdx_eq pts hs hn lvl rest rr hrr ts

/-- … which is `ITree.findIntervalInsertIdx` on a leaf (level 0) -/
theorem tr_findIntervalInsertIdx_leaf (pts : List Pt) (hs : SortedTs pts) (hn : pts.length < 256) (rest : Bytes)
    (rr : Int → record) (hrr : ∀ (h : Nat) (hh : h < pts.length), (rr (h : Int)).ts.toInt = pts[h].ts) (ts : Int64) :
    block_findIntervalInsertIdx { buf := hdr pts.length 0 rest } ts rr =
      .ok (ITree.findIntervalInsertIdx (.leaf pts) ts.toInt) := by
  rw [tr_findIntervalInsertIdx_eq pts hs hn 0 rest rr hrr ts]
  simp [ITree.findIntervalInsertIdx, ITree.records, ITree.recsOf, ITree.cntLE]

/-- … and on an upper-level block (level byte ≠ 0; `pts` are the block's records as the model lists them) -/
theorem tr_findIntervalInsertIdx_node (l : Nat) (keys : List Int) (kids : List ITree.T) (last : Pt) (lvl : UInt8) (hl : lvl ≠ 0)
    (hs : SortedTs (ITree.recsOf (.node l keys kids last))) (hn : (ITree.recsOf (.node l keys kids last)).length < 256)
    (rest : Bytes) (rr : Int → record)
    (hrr : ∀ (h : Nat) (hh : h < (ITree.recsOf (.node l keys kids last)).length),
      (rr (h : Int)).ts.toInt = (ITree.recsOf (.node l keys kids last))[h].ts) (ts : Int64) :
    block_findIntervalInsertIdx { buf := hdr (ITree.recsOf (.node l keys kids last)).length lvl rest } ts rr =
      .ok (ITree.findIntervalInsertIdx (.node l keys kids last) ts.toInt) := by
  rw [tr_findIntervalInsertIdx_eq _ hs hn lvl rest rr hrr ts]
  simp only [ITree.findIntervalInsertIdx, ITree.records, ITree.cntLE, hl, if_false]
  by_cases h0 : (ITree.recsOf (.node l keys kids last)).length = 0
  · simp [h0]
  · by_cases h1 : cntLE (ITree.recsOf (.node l keys kids last)) ts.toInt = (ITree.recsOf (.node l keys kids last)).length
    · simp [h0, h1]
    · simp [h0, h1]

end Logrange.Props.TRCkindex
