import Logrange.Props.C01
import Logrange.Proofs.WriteReadE2E
/-!
# C01 — the end-to-end theorem: acknowledged RPC writes, read back through the iterator and the result pages

Property theorems only. `Props/C01.lean` proves the pieces (codec, packet, write loop, acknowledged ⇒ servable); this file composes
them with the READ path: C03's journal-iterator model (`Logrange.Rd`, read-only import; `Rd.iter_enumerates` instantiated by
`E2E.iterLabels_eq`), the record fetch/unmarshal, the query loop with its fields cache and the Query-result page codec
(`Model/WriteReadE2E.lean`, lemmas in `Proofs/WriteReadE2E.lean`).
-/
namespace Logrange.Props.C01E2E
open Go Logrange.WireRT Logrange.JournalW Logrange.WriteLoopM Logrange.E2E

/-- what the strict decoder makes of one acknowledged body: the events, each with the write-level fields `wf` of that body
followed by its own parsed fields -/
def AckOf (parseKV : Bytes → Option Bytes) (body : Bytes) (es : List Event) : Prop :=
  ∃ tags wf, wpDrainStrict parseKV body = some (tags, es) ∧
    ∀ e ∈ es, ∃ (we : WEvent) (ef : Bytes), parseKV we.fields = some ef ∧ e = ⟨we.ts, we.msg, wf ++ ef⟩

/-- body by body -/
def AllAck (parseKV : Bytes → Option Bytes) : List Bytes → List (List Event) → Prop
  | [], [] => True
  | b :: bs, es :: ess => AckOf parseKV b es ∧ AllAck parseKV bs ess
  | _, _ => False

theorem strict_shape (parseKV : Bytes → Option Bytes) (body tags : Bytes) (es : List Event)
    (h : wpDrainStrict parseKV body = some (tags, es)) : AckOf parseKV body es := by
  unfold wpDrainStrict at h
  cases hi : wpInit parseKV body with
  | err => simp [hi] at h
  | panic => simp [hi] at h
  | ok it =>
    simp only [hi] at h
    cases hs : strictLoop parseKV it.flds it.recs it.rest with
    | none => simp [hs] at h
    | some es' =>
      simp only [hs, Option.map_some, Option.some.injEq, Prod.mk.injEq] at h
      obtain ⟨h1, h2⟩ := h
      subst h2
      refine ⟨tags, it.flds, ?_, strictLoop_shape parseKV it.flds it.recs it.rest es' hs⟩
      simp [wpDrainStrict, hi, hs, h1]

/-- the write side, any start: a sequence of acknowledged bodies over a readable partition leaves it reading back as the old
events followed by every body's events, in order -/
theorem writeAll_servable (parseKV : Bytes → Option Bytes) (maxChunk maxRec : Nat) (hm : 1 ≤ maxChunk) (hr : 0 < maxRec) :
    ∀ (bodies : List Bytes) (j j' : Journal) (old : List Event) (acked : List (List Event)),
      readEvents maxRec j = some old → writeAll parseKV maxChunk maxRec j bodies = some (j', acked) →
      (∀ es ∈ acked, ∀ e ∈ es, e.WF) →
      readEvents maxRec j' = some (old ++ acked.flatten) ∧ AllAck parseKV bodies acked := by
  intro bodies
  induction bodies with
  | nil =>
    intro j j' old acked hold h _
    simp only [writeAll, Option.some.injEq, Prod.mk.injEq] at h
    obtain ⟨rfl, rfl⟩ := h
    exact ⟨by simpa using hold, trivial⟩
  | cons b bs ih =>
    intro j j' old acked hold h hwf
    simp only [writeAll] at h
    cases hs : serveWriteSized parseKV maxChunk maxRec j b with
    | none => simp [hs] at h
    | some p =>
      obtain ⟨j1, es⟩ := p
      simp only [hs] at h
      cases hr' : writeAll parseKV maxChunk maxRec j1 bs with
      | none => simp [hr'] at h
      | some q =>
        obtain ⟨j2, rest⟩ := q
        simp only [hr', Option.map_some, Option.some.injEq, Prod.mk.injEq] at h
        obtain ⟨rfl, rfl⟩ := h
        have hes : ∀ e ∈ es, e.WF := hwf es (by simp)
        obtain ⟨h1, tags, h2⟩ := C01.ackd_implies_servable parseKV maxChunk maxRec j j1 b es old hm hr hold hs hes
        obtain ⟨h3, h4⟩ := ih j1 j2 (old ++ es) rest h1 hr' (fun x hx => hwf x (by simp [hx]))
        refine ⟨by simpa [List.append_assoc] using h3, ⟨strict_shape parseKV b tags es h2, h4⟩⟩

/-- **End to end.** For every sequence of RPC `Write` request bodies to one partition that the server ACKNOWLEDGED one after the
other (`writeAll … [] bodies = some …`: from the empty partition; each through `wpIterator.init` with its validation pass and
record-size limit and the `Service.Write` loop over the library's chunk/journal write contract), for every `maxChunkSize ≥ 1`
(every alignment of every batch with a chunk roll-over), every positive record-size limit, every field-text parser `parseKV` and
fields printer `asKV`, every page size `1 ≤ lim < 2³²`: the un-filtered read of the partition —
`journal.JIterator` positioned at the head and drained (C03's iterator model, `Rd.iter_enumerates`), every delivered record
fetched into a `maxRecordSize` buffer and unmarshalled into a released event, the query loop with its fields cache, the result
cut into pages, each page encoded by `queryResultBuilder`, put on the wire and decoded by `unmarshalQueryResult` —
returns **exactly the concatenation of the acknowledged batches: every event once, in write order, with its timestamp, its
message bytes, the partition's tag line and the printed form of its stored fields** (`returned`), and the stored fields of every
event are **the write-level fields of its body followed by the event's own fields**, the events of each body being the ones
the strict decoder yields for it (`AckOf`).

Hypotheses that remain (contracts of code outside this model, all named):
* `hgo`, `htl`, `hkv` — the values are Go values (64-bit timestamps, slices/strings below 2⁶³ bytes);
* `hkv0` — `field.Fields("").AsKVString() = ""` (C08/C13 own `AsKVString`; it is a parameter here, like the parser `parseKV`);
* the library contracts the models state: chunk/journal write (Appendix A.3), chunk/journal iterator (A.1/A.2, C03's model), `xbinary`;
* all bodies are routed to this one partition and `tagLine` is its tag line (tag index: C19/C05);
* the lifetime fact `pooledBuffersReleasedAfterLastUse` (regenerated; consumed here) — the page decoded is the page built;
* the regenerated facts about the query loops' fields cache (`queryCacheRefreshOnAnyDifference`, `queryCacheKeepsCopy`; consumed
  here): the printed fields are refreshed whenever the stored fields differ from a COPY of the previous event's;
* the store is quiescent while it is read (a reader racing a writer at the tail is finding F34). -/
theorem acknowledged_writes_read_back_end_to_end
    (parseKV : Bytes → Option Bytes) (asKV : Bytes → Bytes) (tagLine next : Bytes) (env : Bytes → Bytes)
    (maxChunk maxRec lim : Nat) (bodies : List Bytes) (j' : Journal) (acked : List (List Event))
    (hm : 1 ≤ maxChunk) (hr : 0 < maxRec) (hl : 1 ≤ lim) (hl2 : lim < two32) (hkv0 : asKV [] = [])
    (hack : writeAll parseKV maxChunk maxRec [] bodies = some (j', acked))
    (hgo : ∀ es ∈ acked, ∀ e ∈ es, e.WF) (htl : Small tagLine)
    (hkv : ∀ es ∈ acked, ∀ e ∈ es, Small (asKV e.fields)) :
    readBack asKV tagLine maxRec lim next env j' = some (acked.flatten.map (returned asKV tagLine)) ∧
    AllAck parseKV bodies acked := by
  have hfact : Generated.C01.pooledBuffersReleasedAfterLastUse = true := by decide
  obtain ⟨h1, h2⟩ := writeAll_servable parseKV maxChunk maxRec hm hr bodies [] j' [] acked (by simp [readEvents, readAll, decodeAll]) hack hgo
  refine ⟨?_, h2⟩
  simp only [List.nil_append, readEvents] at h1
  unfold readBack
  rw [iterLabels_eq, fetchDecode_all, h1]
  simp only
  have hq1 : Generated.C01.queryCacheRefreshOnAnyDifference = true := by decide
  have hq2 : Generated.C01.queryCacheKeepsCopy = true := by decide
  rw [queryLoop_eq asKV tagLine hq1 hq2 acked.flatten {} (by simp [hkv0])]
  apply clientRead_ok lim next env _ hfact hl hl2
  intro we hwe
  obtain ⟨e, he, rfl⟩ := List.mem_map.mp hwe
  obtain ⟨es, hes, hee⟩ := List.mem_flatten.mp he
  have hw := hgo es hes e hee
  exact ⟨hw.ts, hw.msg, htl, hkv es hes e hee⟩

/-- exactly once, in the vocabulary of counts: every event occurs in the read exactly as often as in the acknowledged batches -/
theorem end_to_end_exactly_once
    (parseKV : Bytes → Option Bytes) (asKV : Bytes → Bytes) (tagLine next : Bytes) (env : Bytes → Bytes)
    (maxChunk maxRec lim : Nat) (bodies : List Bytes) (j' : Journal) (acked : List (List Event))
    (hm : 1 ≤ maxChunk) (hr : 0 < maxRec) (hl : 1 ≤ lim) (hl2 : lim < two32) (hkv0 : asKV [] = [])
    (hack : writeAll parseKV maxChunk maxRec [] bodies = some (j', acked))
    (hgo : ∀ es ∈ acked, ∀ e ∈ es, e.WF) (htl : Small tagLine)
    (hkv : ∀ es ∈ acked, ∀ e ∈ es, Small (asKV e.fields)) (x : WEvent) :
    ∃ got, readBack asKV tagLine maxRec lim next env j' = some got ∧
      got.count x = (acked.flatten.map (returned asKV tagLine)).count x ∧ got.length = (acked.map List.length).sum := by
  obtain ⟨h, _⟩ := acknowledged_writes_read_back_end_to_end parseKV asKV tagLine next env maxChunk maxRec lim bodies j' acked
    hm hr hl hl2 hkv0 hack hgo htl hkv
  refine ⟨_, h, rfl, ?_⟩
  simp only [List.length_map, List.length_flatten]

/-- the toy parser / printer of the non-vacuity example: `""` and `w=1`, `k=v` parse; the printer is the identity on the binary form -/
def toyKV (t : Bytes) : Option Bytes :=
  if t = [] then some [] else if t = ofAscii "w=1" then some [1, 119, 1, 49] else if t = ofAscii "k=v" then some [1, 107, 1, 118] else none

/-- non-vacuity: two acknowledged bodies (three events; write-level and own fields; one event without own fields), chunks of 40
bytes — the first body fills the first chunk, the second body spans a roll-over —, pages of 2 events: both are acknowledged and
the read returns the three events in order, write-level fields first -/
example :
    (match writeAll toyKV 40 64 [] [wpEncode (ofAscii "a=b") (ofAscii "w=1") [⟨1, ofAscii "m1", [], ofAscii "k=v"⟩, ⟨2, ofAscii "m2", [], []⟩],
                                    wpEncode (ofAscii "a=b") [] [⟨3, ofAscii "m3", [], ofAscii "k=v"⟩]] with
     | some (j', acked) =>
       decide (j'.length = 2 ∧ acked.map List.length = [2, 1] ∧
         readBack id (ofAscii "a=b") 64 2 [9, 9] id j'
           = some [⟨1, ofAscii "m1", ofAscii "a=b", [1, 119, 1, 49, 1, 107, 1, 118]⟩,
                   ⟨2, ofAscii "m2", ofAscii "a=b", [1, 119, 1, 49]⟩,
                   ⟨3, ofAscii "m3", ofAscii "a=b", [1, 107, 1, 118]⟩])
     | none => false) = true := by decide +kernel

/-! ## a page re-requested on a held cursor -/

/-- **A re-requested page is the page at the requested position.** A cursor is held between requests (WaitTimeout > 0 or a capped
limit); its `LogEventIterator` has looked at the record at `a` (the peek that exports the cursor's position); the client asks
again with the `Pos` of an earlier answer, `cursor.ApplyState` repositions the JOURNAL iterator to `b` underneath — and the page
served is exactly the page a fresh cursor at `b` serves: it starts with the event AT `b`, nothing stale in front, nothing skipped.
Consumes the regenerated fact `leiKeepsNoEventAcrossCalls` (`LogEventIterator.Get` does not set the field its early return tests;
a `lei.st = 1` after a successful decode flips it: the memoised event of the old position would be served first and the event
at `b` skipped). -/
theorem resent_page_is_the_page_at_the_requested_position (maxRec : Nat) (store : List Bytes) (a b lim : Nat) :
    (leiPage maxRec store lim b (leiRepositioned (leiGet maxRec store a {}).1)).1 = (leiPage maxRec store lim b {}).1 := by
  have h : Generated.C01.leiKeepsNoEventAcrossCalls = true := by decide
  rw [leiGet_fresh h, leiRepositioned]

/-- the other branch (vacuous on the current tree): with a memoising `Get` the re-requested page starts with the stale event of the
old position and skips the event at the requested one — three stored events, cursor peeked at 2, page re-requested from 0 -/
theorem cex_memoising_get_serves_stale_event : Generated.C01.leiKeepsNoEventAcrossCalls = false →
    (leiPage 64 [(⟨1, [65], []⟩ : Event).marshal, (⟨2, [66], []⟩ : Event).marshal, (⟨3, [67], []⟩ : Event).marshal] 2 0
        (leiRepositioned (leiGet 64 [(⟨1, [65], []⟩ : Event).marshal, (⟨2, [66], []⟩ : Event).marshal, (⟨3, [67], []⟩ : Event).marshal] 2 {}).1)).1
      = [⟨3, [67], []⟩, ⟨2, [66], []⟩] := by decide +kernel

/-- non-vacuity: the same scenario on the current tree gives the page at position 0 -/
example : (leiPage 64 [(⟨1, [65], []⟩ : Event).marshal, (⟨2, [66], []⟩ : Event).marshal, (⟨3, [67], []⟩ : Event).marshal] 2 0
    (leiRepositioned (leiGet 64 [(⟨1, [65], []⟩ : Event).marshal, (⟨2, [66], []⟩ : Event).marshal, (⟨3, [67], []⟩ : Event).marshal] 2 {}).1)).1
      = [⟨1, [65], []⟩, ⟨2, [66], []⟩] := by decide +kernel

end Logrange.Props.C01E2E
