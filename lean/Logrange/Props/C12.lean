import Logrange.Proofs.Lql
/-!
# C12 — LQL statements keep their meaning through print and re-parse

Property theorems only (lemmas: `Logrange/Proofs/Lql.lean`; model: `Logrange/Model/Lql*.lean`; the grammar the engine
interprets: `Logrange/Generated/C12.lean`, regenerated from the struct tags of pkg/lql/parser.go on every run).

* token level, **proved for every nesting depth**: the direct parser inverts `tokensOf` on the parser's image
  (`WF…`, decidable) for identifiers with functions, conditions, expressions and sources;
* character level, proved **under the explicit hypothesis** `Lexable` (`lex (print a) = tokensOf a`; evaluated by the
  harness on every accepted expression / source): `print_parse_partial`, `create_pipe_equiv_partial`;
* the full statement over all statement kinds is `C12_full`; it is **false** today (`not_C12_full`) and each open
  finding class has its counterexample theorem, evaluated on the model (lexer + engine on the regenerated grammar +
  printers).
-/
namespace Logrange.Props.C12
open Logrange.Lql

/-! ## the parser model for whole statements -/

def grammar := Logrange.Generated.C12.grammar

/-- `lql.ParseLql`: lexer, participle engine on the regenerated grammar (root `Lql`), typed application of captures.
`dp` is the opaque date parser (`parseLqlDateTime`, property C20). -/
def parseLql (dp : Bytes → Option Int) (text : Bytes) : Option Lql :=
  match lex text with
  | none => none
  | some ts =>
    match runEngine grammar "Lql" ts with
    | none => none
    | some v => toLql dp (8 * ts.length + 50) v

/-- `lql.ParseExpr` / `lql.ParseSource` on tokens with explicit fuel -/
def parseExprToks (f : Nat) (ts : List Tok) : Option Expr :=
  match dExpr f ts with | some (e, []) => some e | _ => none
def parseSourceToks (f : Nat) (ts : List Tok) : Option Source :=
  match dSource f ts with | some (s, []) => some s | _ => none
def parseExprText (f : Nat) (text : Bytes) : Option Expr := (lex text).bind (parseExprToks f)
def parseSourceText (f : Nat) (text : Bytes) : Option Source := (lex text).bind (parseSourceToks f)

def srcFuel : Source → Nat
  | .tags _ => 0
  | .expr e => szExpr e

/-! ## token level round trip (any depth) -/

/-- identifiers with (nested) function parameters -/
theorem token_roundtrip_ident (i : Ident) (f : Nat) (hf : szIdent i ≤ f) :
    dIdent f (toksIdent i) = some (i, []) := by
  have := dIdent_toks i f [] hf (by simp [headNot])
  simpa using this

/-- conditions `ident op value` -/
theorem token_roundtrip_cond (c : Cond) (f : Nat) (hf : szIdent c.ident ≤ f) (hw : wfCond c = true) :
    dCond f (toksCond c) = some (c, []) := by
  have := dCond_toks c f [] hf hw
  simpa using this

/-- **`parseTokens (tokensOf e) = ok e`** for every expression in the parser's image, any nesting depth -/
theorem token_roundtrip_expr (e : Expr) (f : Nat) (hf : szExpr e ≤ f) (hw : wfExpr e = true) :
    parseExprToks f (toksExpr e) = some e := by
  have := dExpr_toks e f [] hf hw (by simp [headNot]) (by simp [headNot])
  simp only [List.append_nil] at this
  simp [parseExprToks, this]

/-- sources: a `{…}` tag set (under C08's round trip for that set, part of `wfSource`) or an expression -/
theorem token_roundtrip_source (s : Source) (f : Nat) (hf : srcFuel s ≤ f) (hw : wfSource s = true) :
    parseSourceToks f (toksSource s) = some s := by
  have := dSource_toks s f (by cases s <;> simpa [srcFuel] using hf) hw
  simp [parseSourceToks, this]

/-! ## character level, under `Lexable` -/

/-- the printed text lexes to `tokensOf` (strings quoted by `strconv.Quote` give one String token with the same
value, operands / operators / parentheses are separated as printed, no Tags token swallows a later `}`) -/
def LexableExpr (e : Expr) : Prop := lex (printExpr e) = some (toksExpr e)
def LexableSource (s : Source) : Prop := lex (printSource s) = some (toksSource s)

instance (e : Expr) : Decidable (LexableExpr e) := by unfold LexableExpr; exact inferInstance
instance (s : Source) : Decidable (LexableSource s) := by unfold LexableSource; exact inferInstance

/-- **print then parse gives the same expression back** (so the same filter truth values) -/
theorem print_parse_partial (e : Expr) (hw : wfExpr e = true) (hl : LexableExpr e) :
    parseExprText (szExpr e) (printExpr e) = some e := by
  unfold parseExprText
  rw [hl]
  exact token_roundtrip_expr e _ (Nat.le_refl _) hw

theorem print_parse_source_partial (s : Source) (hw : wfSource s = true) (hl : LexableSource s) :
    parseSourceText (srcFuel s) (printSource s) = some s := by
  unfold parseSourceText
  rw [hl]
  exact token_roundtrip_source s _ (Nat.le_refl _) hw

/-- what `cmdCreatePipe` stores for `CREATE PIPE p FROM S WHERE F` (pkg/backend/admin.go) -/
def createPipeStores (p : Pipe) : Bytes × Bytes × Bytes := (p.name, sourceString p.from_, exprString p.where_)

/-- **`CREATE PIPE p FROM S WHERE F` ≡ the pipe defined directly by S and F**: the stored texts are `print S`,
`print F`, and `newPPipe` (which parses the stored texts with `ParseSource` / `ParseExpr`) gets S and F back —
hence the same `srcF` and `fltF` — under the hypotheses of `print_parse_partial`. -/
theorem create_pipe_equiv_partial (name : Bytes) (S : Source) (F : Expr)
    (hS : wfSource S = true) (hF : wfExpr F = true) (lS : LexableSource S) (lF : LexableExpr F) :
    let st := createPipeStores ⟨name, some S, some F⟩
    st.1 = name ∧ parseSourceText (srcFuel S) st.2.1 = some S ∧ parseExprText (szExpr F) st.2.2 = some F := by
  refine ⟨rfl, ?_, ?_⟩
  · exact print_parse_source_partial S hS lS
  · exact print_parse_partial F hF lF

/-! ## the full statement, and why it does not hold today -/

/-- meaning-preserving normal form: `Select.Format` nil ≡ "" (it is only ever printed), `Pipes.Void` is never used -/
def normalize (l : Lql) : Lql :=
  { l with
    select := l.select.map (fun s => { s with format := match s.format with | some [] => none | x => x }),
    show_ := l.show_.map (fun s => { s with pipes := s.pipes.map (fun p => { p with void := none }) }) }

/-- **C12 at full strength**: every accepted statement prints as an accepted text with the same (normalised) AST, for
every date parser `dp` and date printer `rd` that invert each other on the instants the statement prints. -/
def C12_full : Prop :=
  ∀ (dp : Bytes → Option Int) (rd : Int → Bytes) (text : Bytes) (l : Lql), parseLql dp text = some l →
    (∀ v ∈ printedDates l, dp (rd v) = some v) →
    ∃ l', parseLql dp (printLql rd l) = some l' ∧ canonLql (normalize l') = canonLql (normalize l)

/-! ### counterexamples (evaluated on the model by the kernel) -/

def dp0 : Bytes → Option Int := fun _ => none
def rd0 : Int → Bytes := fun _ => []
def txt (s : String) : Bytes := Go.ofAscii s

/-- F12a: `SELECT FROM {a=b} WHERE msg CONTAINS "\x7d"` is accepted and prints `… CONTAINS "}"`, which the lexer
rejects (the greedy Tags token runs to the last `}` of the line and leaves a lone `"`) -/
theorem cex_brace_after_tags :
    (parseLql dp0 (txt "SELECT FROM {a=b} WHERE msg CONTAINS \"\\x7d\"")).map (printLql rd0)
      = some (txt "SELECT FROM {a=b} WHERE msg CONTAINS \"}\"")
    ∧ lex (txt "SELECT FROM {a=b} WHERE msg CONTAINS \"}\"") = none
    ∧ (parseLql dp0 (txt "SELECT FROM {a=b} WHERE msg CONTAINS \"\\x7d\"")).map (classBraceAfterTags rd0) = some true := by
  decide +kernel

/-- F12b: `select from {a="}"}` prints `SELECT FROM {a=}}`, which `tag.Parse` rejects -/
theorem cex_tags_value_brace :
    (parseLql dp0 (txt "select from {a=\"}\"}")).map (printLql rd0) = some (txt "SELECT FROM {a=}}")
    ∧ (parseLql dp0 (txt "SELECT FROM {a=}}")).isNone = true
    ∧ (parseLql dp0 (txt "select from {a=\"}\"}")).map classUnsafeTags = some true := by
  decide +kernel

/-- F12c: `Truncate.makeString` does not look at `MaxDbSize` at all — for every statement -/
theorem cex_maxdbsize_dropped (rd : Int → Bytes) (t : Truncate) (n : Nat) :
    printTruncate rd { t with maxDbSize := some n } = printTruncate rd { t with maxDbSize := none } := rfl

/-- … so `TRUNCATE MAXDBSIZE 5G` re-parses without the bound -/
theorem cex_maxdbsize_witness :
    (parseLql dp0 (txt "TRUNCATE MAXDBSIZE 5G")).map (printLql rd0) = some (txt "TRUNCATE")
    ∧ (parseLql dp0 (txt "TRUNCATE MAXDBSIZE 5G")).map (fun l => l.truncate.map (·.maxDbSize)) = some (some (some 5000000000))
    ∧ (parseLql dp0 (txt "TRUNCATE")).map (fun l => l.truncate.map (·.maxDbSize)) = some (some none) := by
  decide +kernel

/-- the two observations of the real date functions the F12d witness rests on (replayed against the code on every
run: corpus/C12/f12d-range-fraction.json): `time.Unix(0, 1546432495120000000).String()` is
`2019-01-02 12:34:55.12 +0000 UTC`, and `parseLqlDateTime` reads that text as 12:34:55 sharp -/
def dpW : Bytes → Option Int := fun lit =>
  if lit == txt "1546432495120000000" then some 1546432495120000000
  else if lit == txt "2019-01-02 12:34:55.12 +0000 UTC" then some 1546432495000000000 else none
def rdW : Int → Bytes := fun _ => txt "2019-01-02 12:34:55.12 +0000 UTC"

/-- F12d: with those observations, `SELECT RANGE "1546432495120000000"` comes back 120 ms earlier -/
theorem cex_date_fraction :
    (parseLql dpW (txt "SELECT RANGE \"1546432495120000000\"")).map (printLql rdW)
      = some (txt "SELECT RANGE \"2019-01-02 12:34:55.12 +0000 UTC\"")
    ∧ (parseLql dpW (txt "SELECT RANGE \"1546432495120000000\"")).map printedDates = some [1546432495120000000]
    ∧ (parseLql dpW (txt "SELECT RANGE \"2019-01-02 12:34:55.12 +0000 UTC\"")).map printedDates = some [1546432495000000000]
    ∧ (parseLql dpW (txt "SELECT RANGE \"1546432495120000000\"")).map classDateFraction = some true := by
  decide +kernel

/-- F12e: bare `SELECT` is accepted with every field nil and prints the empty text, which is rejected -/
theorem cex_bare_select :
    (parseLql dp0 (txt "SELECT")).map (printLql rd0) = some []
    ∧ (parseLql dp0 []).isNone = true
    ∧ (parseLql dp0 (txt "SELECT")).map classBareKeyword = some true
    ∧ (parseLql dp0 (txt "SELECT")).map printedDates = some [] := by
  decide +kernel

/-- F12f: `MINSIZE 2^63` prints as a negative number, which `humanize.ParseBytes` rejects -/
theorem cex_huge_size_negative :
    (parseLql dp0 (txt "TRUNCATE MINSIZE 9223372036854775808")).map (printLql rd0)
      = some (txt "TRUNCATE MINSIZE -9223372036854775808")
    ∧ (parseLql dp0 (txt "TRUNCATE MINSIZE -9223372036854775808")).isNone = true
    ∧ (parseLql dp0 (txt "TRUNCATE MINSIZE 9223372036854775808")).map classHugeSize = some true := by
  decide +kernel

/-- F12g: `SELECT RANGE [` is accepted (both bounds nil) and prints `SELECT RANGE `, which is rejected -/
theorem cex_empty_range :
    (parseLql dp0 (txt "SELECT RANGE [")).map (printLql rd0) = some (txt "SELECT RANGE ")
    ∧ (parseLql dp0 (txt "SELECT RANGE ")).isNone = true
    ∧ (parseLql dp0 (txt "SELECT RANGE [")).map classEmptyRange = some true := by
  decide +kernel

/-- the full statement is false for the code as it is (witness: bare `SELECT`) -/
theorem not_C12_full : ¬ C12_full := by
  intro h
  obtain ⟨h1, h2, _, h4⟩ := cex_bare_select
  cases hp : parseLql dp0 (txt "SELECT") with
  | none => rw [hp] at h1; cases h1
  | some l =>
    rw [hp] at h1 h4
    simp only [Option.map_some, Option.some.injEq] at h1 h4
    obtain ⟨l', hl', _⟩ := h dp0 rd0 (txt "SELECT") l hp (by intro v hv; rw [h4] at hv; cases hv)
    rw [h1] at hl'
    rw [hl'] at h2
    cases h2

/-! ### non-vacuity: the hypotheses of the round-trip theorems hold for a nested expression and both source kinds -/

/-- `a = "1" AND NOT ( b like "x}" OR f(c,d) PREFIX "5" )` -/
def exE : Expr :=
  .mk (.cons (.mk (.cons (.cond false ⟨.mk [97] .nil, [61], [49]⟩)
      (.cons (.paren true (.mk (.cons (.mk (.cons (.cond false ⟨.mk [98] .nil, txt "like", txt "x}"⟩) .nil))
        (.cons (.mk (.cons (.cond false ⟨.mk [102] (.cons (.mk [99] .nil) (.cons (.mk [100] .nil) .nil)), txt "PREFIX", [53]⟩) .nil)) .nil)))) .nil))) .nil)

example : wfExpr exE = true ∧ LexableExpr exE := by
  unfold LexableExpr; decide +kernel
example : parseExprText (szExpr exE) (printExpr exE) = some exE :=
  print_parse_partial exE (by decide +kernel) (by unfold LexableExpr; decide +kernel)
example : wfSource (.tags [([97], [98]), ([99], txt "x,y")]) = true ∧ LexableSource (.tags [([97], [98]), ([99], txt "x,y")]) ∧
    (parseLql dp0 (txt "select from {c=\"x,y\", a=b}")).map (fun l => l.select.map (fun s => s.source.map wfSource)) = some (some (some true)) := by
  unfold LexableSource; decide +kernel
/-- the F12b witness is excluded by `wfSource`, the F12a shape by `Lexable` -/
example : wfSource (.tags [([97], [125])]) = false := by decide +kernel

end Logrange.Props.C12
