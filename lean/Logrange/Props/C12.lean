import Logrange.Proofs.LqlInt
import Logrange.Proofs.LqlLexNP
import Logrange.Proofs.LqlEngineAll
import Logrange.Proofs.LqlFuel
import Logrange.Proofs.LqlQuoteRT
/-!
# C12 — LQL statements keep their meaning through print and re-parse

Property theorems only (lemmas: `Logrange/Proofs/Lql.lean`; model: `Logrange/Model/Lql*.lean`; the grammar the engine
interprets: `Logrange/Generated/C12.lean`, regenerated from the struct tags of pkg/lql/parser.go on every run).

* token level, **proved for every nesting depth**: the direct parser inverts `tokensOf` on the parser's image
  (`WF…`, decidable) for identifiers with functions, conditions, expressions and sources;
* character level, proved **under the explicit hypothesis** `Lexable` (`lex (print a) = tokensOf a`; evaluated by the
  harness on every accepted expression / source): `print_parse_partial`, `create_pipe_equiv_partial`;
* the full statement over all statement kinds is `C12_full`; it is **false** today (`not_C12_full`) and each open
  finding class has its counterexample theorem, evaluated on the model (lexer + engine on the regenerated grammar +
  printers).
-/
namespace Logrange.Props.C12
open Logrange.Lql

/-! ## the parser model for whole statements -/

def grammar := Logrange.Generated.C12.grammar

/-- `lql.ParseLql`: lexer, participle engine on the regenerated grammar (root `Lql`), typed application of captures,
post-check (a Range without a time point is rejected).
`dp` is the opaque date parser (`parseLqlDateTime`, property C20). -/
def parseLql (dp : Bytes → Option Int) (text : Bytes) : Option Lql :=
  match lex text with
  | none => none
  | some ts =>
    match runEngine grammar "Lql" ts with
    | none => none
    | some v => toLqlChecked dp (8 * ts.length + 50) v

/-- `lql.ParseExpr` / `lql.ParseSource` on tokens with explicit fuel -/
def parseExprToks (f : Nat) (ts : List Tok) : Option Expr :=
  match dExpr f ts with | some (e, []) => some e | _ => none
def parseSourceToks (f : Nat) (ts : List Tok) : Option Source :=
  match dSource f ts with | some (s, []) => some s | _ => none
def parseExprText (f : Nat) (text : Bytes) : Option Expr := (lex text).bind (parseExprToks f)
def parseSourceText (f : Nat) (text : Bytes) : Option Source := (lex text).bind (parseSourceToks f)

def srcFuel : Source → Nat
  | .tags _ => 0
  | .expr e => szExpr e

/-! ## token level round trip (any depth) -/

/-- identifiers with (nested) function parameters -/
theorem token_roundtrip_ident (i : Ident) (f : Nat) (hf : szIdent i ≤ f) :
    dIdent f (toksIdent i) = some (i, []) := by
  have := dIdent_toks i f [] hf (by simp [headNot])
  simpa using this

/-- conditions `ident op value` -/
theorem token_roundtrip_cond (c : Cond) (f : Nat) (hf : szIdent c.ident ≤ f) (hw : wfCond c = true) :
    dCond f (toksCond c) = some (c, []) := by
  have := dCond_toks c f [] hf hw
  simpa using this

/-- **`parseTokens (tokensOf e) = ok e`** for every expression in the parser's image, any nesting depth -/
theorem token_roundtrip_expr (e : Expr) (f : Nat) (hf : szExpr e ≤ f) (hw : wfExpr e = true) :
    parseExprToks f (toksExpr e) = some e := by
  have := dExpr_toks e f [] hf hw (by simp [headNot]) (by simp [headNot])
  simp only [List.append_nil] at this
  simp [parseExprToks, this]

/-- sources: a `{…}` tag set (under C08's round trip for that set, part of `wfSource`) or an expression -/
theorem token_roundtrip_source (s : Source) (f : Nat) (hf : srcFuel s ≤ f) (hw : wfSource s = true) :
    parseSourceToks f (toksSource s) = some s := by
  have := dSource_toks s f (by cases s <;> simpa [srcFuel] using hf) hw
  simp [parseSourceToks, this]

/-! ## character level, under `Lexable` -/

/-- the printed text lexes to `tokensOf` (strings quoted by `strconv.Quote` give one String token with the same
value, operands / operators / parentheses are separated as printed, no Tags token swallows a later `}`) -/
def LexableExpr (e : Expr) : Prop := lex (printExpr e) = some (toksExpr e)
def LexableSource (s : Source) : Prop := lex (printSource s) = some (toksSource s)

instance (e : Expr) : Decidable (LexableExpr e) := by unfold LexableExpr; exact inferInstance
instance (s : Source) : Decidable (LexableSource s) := by unfold LexableSource; exact inferInstance

/-- **print then parse gives the same expression back** (so the same filter truth values) -/
theorem print_parse_partial (e : Expr) (hw : wfExpr e = true) (hl : LexableExpr e) :
    parseExprText (szExpr e) (printExpr e) = some e := by
  unfold parseExprText
  rw [hl]
  exact token_roundtrip_expr e _ (Nat.le_refl _) hw

theorem print_parse_source_partial (s : Source) (hw : wfSource s = true) (hl : LexableSource s) :
    parseSourceText (srcFuel s) (printSource s) = some s := by
  unfold parseSourceText
  rw [hl]
  exact token_roundtrip_source s _ (Nat.le_refl _) hw

/-- what `cmdCreatePipe` stores for `CREATE PIPE p FROM S WHERE F` (pkg/backend/admin.go) -/
def createPipeStores (p : Pipe) : Bytes × Bytes × Bytes := (p.name, sourceString p.from_, exprString p.where_)

/-- **`CREATE PIPE p FROM S WHERE F` ≡ the pipe defined directly by S and F**: the stored texts are `print S`,
`print F`, and `newPPipe` (which parses the stored texts with `ParseSource` / `ParseExpr`) gets S and F back —
hence the same `srcF` and `fltF` — under the hypotheses of `print_parse_partial`. -/
theorem create_pipe_equiv_partial (name : Bytes) (S : Source) (F : Expr)
    (hS : wfSource S = true) (hF : wfExpr F = true) (lS : LexableSource S) (lF : LexableExpr F) :
    let st := createPipeStores ⟨name, some S, some F⟩
    st.1 = name ∧ parseSourceText (srcFuel S) st.2.1 = some S ∧ parseExprText (szExpr F) st.2.2 = some F := by
  refine ⟨rfl, ?_, ?_⟩
  · exact print_parse_source_partial S hS lS
  · exact print_parse_partial F hF lF

/-! ## the full statement, and why it does not hold today -/

/-- meaning-preserving normal form: `Select.Format` nil ≡ "" (it is only ever printed), `Pipes.Void` is never used -/
def normalize (l : Lql) : Lql :=
  { l with
    select := l.select.map (fun s => { s with format := match s.format with | some [] => none | x => x }),
    show_ := l.show_.map (fun s => { s with pipes := s.pipes.map (fun p => { p with void := none }) }) }

/-- **C12 at full strength**: every accepted statement prints as an accepted text with the same (normalised) AST, for
every date parser `dp` and date printer `rd` that invert each other on the instants the statement prints. -/
def C12_full : Prop :=
  ∀ (dp : Bytes → Option Int) (rd : Int → Bytes) (text : Bytes) (l : Lql), parseLql dp text = some l →
    (∀ v ∈ printedDates l, dp (rd v) = some v) →
    ∃ l', parseLql dp (printLql rd l) = some l' ∧ canonLql (normalize l') = canonLql (normalize l)

/-! ### counterexamples (evaluated on the model by the kernel) -/

def dp0 : Bytes → Option Int := fun _ => none
def rd0 : Int → Bytes := fun _ => []
def txt (s : String) : Bytes := Go.ofAscii s

/-- F12a: `SELECT FROM {a=b} WHERE msg CONTAINS "\x7d"` is accepted and prints `… CONTAINS "}"`, which the lexer
rejects (the greedy Tags token runs to the last `}` of the line and leaves a lone `"`) -/
theorem cex_brace_after_tags :
    Logrange.Generated.C12.tagsQuoteAware = true ∨
    ((parseLql dp0 (txt "SELECT FROM {a=b} WHERE msg CONTAINS \"\\x7d\"")).map (printLql rd0)
      = some (txt "SELECT FROM {a=b} WHERE msg CONTAINS \"}\"")
    ∧ lex (txt "SELECT FROM {a=b} WHERE msg CONTAINS \"}\"") = none
    ∧ (parseLql dp0 (txt "SELECT FROM {a=b} WHERE msg CONTAINS \"\\x7d\"")).map (classBraceAfterTags rd0) = some true) := by
  decide +kernel

/-- … and with the quote-aware Tags pattern of proposed-fixes/F12a.diff (regenerated fact `tagsQuoteAware`) the same
statements — a `}` in a WHERE value, in a position, after nested braces — print as texts that parse back to the same AST
(kernel evaluation of lexer + engine + printers on the witnesses of the class; not a ∀-theorem about the pattern) -/
theorem brace_after_tags_roundtrips :
    Logrange.Generated.C12.tagsQuoteAware = false ∨
    (((parseLql dp0 (txt "SELECT FROM {a=b} WHERE msg CONTAINS \"\\x7d\"")).bind (fun l => parseLql dp0 (printLql rd0 l))).map canonLql
        = (parseLql dp0 (txt "SELECT FROM {a=b} WHERE msg CONTAINS \"\\x7d\"")).map canonLql
    ∧ (parseLql dp0 (txt "SELECT FROM {a=b} WHERE msg CONTAINS \"\\x7d\"")).isSome = true
    ∧ ((parseLql dp0 (txt "select from {{a=\"x}y\",b=c}} position \"\\x7d\" limit 5")).bind (fun l => parseLql dp0 (printLql rd0 l))).map canonLql
        = (parseLql dp0 (txt "select from {{a=\"x}y\",b=c}} position \"\\x7d\" limit 5")).map canonLql
    ∧ (parseLql dp0 (txt "select from {{a=\"x}y\",b=c}} position \"\\x7d\" limit 5")).isSome = true
    ∧ lex (txt "{a=b} WHERE msg CONTAINS \"}\"") = some [⟨.tags, txt "{a=b}"⟩, ⟨.keyword, txt "WHERE"⟩, ⟨.ident, txt "msg"⟩, ⟨.keyword, txt "CONTAINS"⟩, ⟨.string, txt "}"⟩]) := by
  decide +kernel

/-- F12b: `select from {a="}"}` prints `SELECT FROM {a=}}`, which `tag.Parse` rejects -/
theorem cex_tags_value_brace :
    (parseLql dp0 (txt "select from {a=\"}\"}")).map (printLql rd0) = some (txt "SELECT FROM {a=}}")
    ∧ (parseLql dp0 (txt "SELECT FROM {a=}}")).isNone = true
    ∧ (parseLql dp0 (txt "select from {a=\"}\"}")).map classUnsafeTags = some true := by
  decide +kernel

/-! (F12c, F12d, F12f were repaired in /repo — 846d74c, 166caa8, 0c67e9a; their counterexamples are replaced by the
positive theorems of the section "TRUNCATE" below.) -/

/-- F12e: bare `SELECT` is accepted with every field nil and prints the empty text, which is rejected -/
theorem cex_bare_select :
    (parseLql dp0 (txt "SELECT")).map (printLql rd0) = some []
    ∧ (parseLql dp0 []).isNone = true
    ∧ (parseLql dp0 (txt "SELECT")).map classBareKeyword = some true
    ∧ (parseLql dp0 (txt "SELECT")).map printedDates = some [] := by
  decide +kernel

/-! (F12g was repaired in /repo — 2681434: `ParseLql` rejects a Range without a time point; its counterexample is replaced
by the positive theorems `parsed_range_has_time_point` / `range_prints_nonempty` below.) -/

/-- the full statement is false for the code as it is (witness: bare `SELECT`) -/
theorem not_C12_full : ¬ C12_full := by
  intro h
  obtain ⟨h1, h2, _, h4⟩ := cex_bare_select
  cases hp : parseLql dp0 (txt "SELECT") with
  | none => rw [hp] at h1; cases h1
  | some l =>
    rw [hp] at h1 h4
    simp only [Option.map_some, Option.some.injEq] at h1 h4
    obtain ⟨l', hl', _⟩ := h dp0 rd0 (txt "SELECT") l hp (by intro v hv; rw [h4] at hv; cases hv)
    rw [h1] at hl'
    rw [hl'] at h2
    cases h2

/-! ### non-vacuity: the hypotheses of the round-trip theorems hold for a nested expression and both source kinds -/

/-- `a = "1" AND NOT ( b like "x}" OR f(c,d) PREFIX "5" )` -/
def exE : Expr :=
  .mk (.cons (.mk (.cons (.cond false ⟨.mk [97] .nil, [61], [49]⟩)
      (.cons (.paren true (.mk (.cons (.mk (.cons (.cond false ⟨.mk [98] .nil, txt "like", txt "x}"⟩) .nil))
        (.cons (.mk (.cons (.cond false ⟨.mk [102] (.cons (.mk [99] .nil) (.cons (.mk [100] .nil) .nil)), txt "PREFIX", [53]⟩) .nil)) .nil)))) .nil))) .nil)

example : wfExpr exE = true ∧ LexableExpr exE := by
  unfold LexableExpr; decide +kernel
example : parseExprText (szExpr exE) (printExpr exE) = some exE :=
  print_parse_partial exE (by decide +kernel) (by unfold LexableExpr; decide +kernel)
example : wfSource (.tags [([97], [98]), ([99], txt "x,y")]) = true ∧ LexableSource (.tags [([97], [98]), ([99], txt "x,y")]) ∧
    (parseLql dp0 (txt "select from {c=\"x,y\", a=b}")).map (fun l => l.select.map (fun s => s.source.map wfSource)) = some (some (some true)) := by
  unfold LexableSource; decide +kernel
/-- the F12b witness is excluded by `wfSource`, the F12a shape by `Lexable` -/
example : wfSource (.tags [([97], [125])]) = false := by decide +kernel

/-! ## TRUNCATE — the repaired printer (0c67e9a, 166caa8, 846d74c): positive theorems replacing the retired
counterexamples of F12c / F12d / F12f -/

/-- the printer shapes these theorems are about are the ones /repo has **now** (regenerated facts): sizes unsigned,
MAXDBSIZE printed, BEFORE quoted once, instants through `Format` with the fixed nine-digit layout -/
theorem truncate_printer_shapes :
    Logrange.Generated.C12.truncateSizesUnsigned = true ∧ Logrange.Generated.C12.truncateDbSizeUnsigned = true
    ∧ Logrange.Generated.C12.truncatePrintsMaxDbSize = true
    ∧ Logrange.Generated.C12.beforeQuotedOnce = true ∧ Logrange.Generated.C12.dateUsesFormat = true
    ∧ Logrange.Generated.C12.dateLayout = txt "2006-01-02 15:04:05.000000000 -0700 MST" := by
  decide +kernel

/-- with those shapes every clause is printed, each size as its unsigned decimal text (no `int64` wrap-around for
sizes ≥ 2^63) and the instant quoted once -/
theorem truncate_prints_every_clause (rd : Int → Bytes) (t : Truncate) :
    printTruncate rd t = bs "TRUNCATE" ++ (if t.dryRun then bs " DRYRUN" else []) ++ printOptSource t.source
      ++ (sizeClause true "MINSIZE" t.minSize ++ sizeClause true "MAXSIZE" t.maxSize
          ++ (match t.before with | none => [] | some v => bs " BEFORE " ++ GoLib.quote (rd v))
          ++ sizeClause true "MAXDBSIZE" t.maxDbSize) := by
  obtain ⟨h1, h1', h2, h3, _, _⟩ := truncate_printer_shapes
  unfold printTruncate truncateTail truncateTailWith
  rw [h1, h1', h2, h3]
  cases t.before <;> simp [beforeClause, printDate]

/-- **TRUNCATE round trip at token level**, all clauses (DRYRUN, source, MINSIZE, MAXSIZE, BEFORE, MAXDBSIZE), every
size with `sizeOK` (decidable: its decimal text is read back to it — see the examples at 2^63 and at the largest
float64 below 2^64), any source in the parser's image at any depth, **given the date contract** for the BEFORE instant
(`dp (rd v) = some v`: the date parser reads the printed text of the instant back to the instant — C20's side of the
boundary; the harness exercises it on every run, section `datecontract`). -/
theorem token_roundtrip_truncate (dp : Bytes → Option Int) (rd : Int → Bytes) (t : Truncate) (f : Nat)
    (hf : (match t.source with | some (.expr e) => szExpr e | _ => 0) ≤ f)
    (hw : wfTruncate rd t = true) (hd : DateContract dp rd t) :
    directTruncateFuel dp f (toksTruncate rd t) = some t :=
  dTruncate_toks dp rd t f hf hw hd

def LexableTruncate (rd : Int → Bytes) (t : Truncate) : Prop := lex (printTruncate rd t) = some (toksTruncate rd t)
instance (rd : Int → Bytes) (t : Truncate) : Decidable (LexableTruncate rd t) := by unfold LexableTruncate; exact inferInstance

/-- **print then parse gives the same TRUNCATE statement back** — same partitions selected, same sizes incl. MAXDBSIZE,
same BEFORE instant, same DRYRUN — under `Lexable` and the date contract -/
theorem print_parse_truncate_partial (dp : Bytes → Option Int) (rd : Int → Bytes) (t : Truncate) (f : Nat)
    (hf : (match t.source with | some (.expr e) => szExpr e | _ => 0) ≤ f)
    (hw : wfTruncate rd t = true) (hd : DateContract dp rd t) (hl : LexableTruncate rd t) :
    (lex (printTruncate rd t)).bind (directTruncateFuel dp f) = some t := by
  rw [hl]; exact token_roundtrip_truncate dp rd t f hf hw hd

/-- the date part in isolation: whatever instant the statement carries, what comes back through the BEFORE clause is
that instant, exactly when the date functions satisfy the contract on it -/
theorem before_instant_preserved (dp : Bytes → Option Int) (rd : Int → Bytes) (v : Int) (rest : List Tok)
    (h : dp (rd v) = some v) :
    dDateClause dp kwBEFORE (beforeToks rd (some v) ++ rest) = some (some v, rest) :=
  dDateClause_toks dp rd (some v) rest (by intro w hw; cases hw; exact h) (by intro hn; cases hn)

/-- sizes the old printer wrapped around are fine now: 2^63, the largest float64 below 2^64, 10000P -/
example : sizeOK (2^63) = true ∧ sizeOK 18446744073709549568 = true ∧ sizeOK 10000000000000000000 = true
    ∧ sizeOK 0 = true ∧ sizeOK 5000000000 = true := by decide +kernel
/-- … and a uint64 that is not a float64 value is not in the parser's image (`ParseBytes` rounds it) -/
example : sizeOK (2^53 + 1) = false := by decide +kernel

def rdEx : Int → Bytes := fun _ => txt "2019-01-02 12:34:55.500000000 +0000 UTC"
def dpEx : Bytes → Option Int := fun b => if b == txt "2019-01-02 12:34:55.500000000 +0000 UTC" then some 1546432495500000000 else none
/-- `TRUNCATE DRYRUN a = "1" … MINSIZE 2^63 MAXSIZE 18446744073709549568 BEFORE "…55.5…" MAXDBSIZE 5000000000` -/
def exT : Truncate :=
  { dryRun := true, source := some (.expr exE), minSize := some (2^63), maxSize := some 18446744073709549568,
    before := some 1546432495500000000, maxDbSize := some 5000000000 }

example : wfTruncate rdEx exT = true ∧ LexableTruncate rdEx exT ∧ dpEx (rdEx 1546432495500000000) = some 1546432495500000000 := by
  unfold LexableTruncate; decide +kernel
/-- the old F12c/F12d/F12f witnesses, through the whole model (lexer + engine on the regenerated grammar + printer) -/
example :
    (parseLql dpEx (txt "TRUNCATE MAXDBSIZE 5G")).map (printLql rdEx) = some (txt "TRUNCATE MAXDBSIZE 5000000000")
    ∧ (parseLql dpEx (txt "TRUNCATE MINSIZE 9223372036854775808")).map (printLql rdEx) = some (txt "TRUNCATE MINSIZE 9223372036854775808")
    ∧ ((parseLql dpEx (txt "TRUNCATE MINSIZE 9223372036854775808")).bind (fun l => parseLql dpEx (printLql rdEx l))).map
        (fun l => l.truncate.map (·.minSize)) = some (some (some (2^63))) := by
  decide +kernel

/-! ## RANGE — the repaired parser (2681434): positive theorems replacing the retired counterexample of F12g -/

/-- **every accepted SELECT with a RANGE clause names at least one time point** (the post-check the extractor finds in
`ParseLql` now: fact `parseLqlRejectsEmptyRange`) -/
theorem parsed_range_has_time_point (dp : Bytes → Option Int) (text : Bytes) (l : Lql) (s : Select) (r : Range)
    (hp : parseLql dp text = some l) (hs : l.select = some s) (hr : s.range = some r) :
    r.p1.isSome = true ∨ r.p2.isSome = true := by
  have hfact : Logrange.Generated.C12.parseLqlRejectsEmptyRange = true := by decide
  unfold parseLql at hp
  split at hp
  · cases hp
  · split at hp
    · cases hp
    · rename_i v _
      unfold toLqlChecked at hp
      cases hl : toLql dp _ v with
      | none => rw [hl] at hp; cases hp
      | some l0 =>
        rw [hl] at hp
        simp only [Option.bind_some, postCheck, hfact, Bool.true_and] at hp
        split at hp
        · cases hp
        · rename_i hne
          cases hp
          simp only [hasEmptyRange, hs, hr, Bool.and_eq_true, Option.isNone_iff_eq_none] at hne
          cases h1 : r.p1 with
          | some _ => left; rfl
          | none =>
            cases h2 : r.p2 with
            | some _ => right; rfl
            | none => exact absurd ⟨h1, h2⟩ hne

/-- … so `Range.makeString` never prints the bare blank that made `SELECT RANGE [` unparsable: at least the blank and
a quoted instant -/
theorem range_prints_nonempty (rd : Int → Bytes) (r : Range) (h : r.p1.isSome = true ∨ r.p2.isSome = true) :
    3 ≤ (printRange rd r).length := by
  cases h2 : r.p2 with
  | some v2 => simp [printRange, h2, printDate, GoLib.quote, bs, Go.ofAscii] <;> omega
  | none =>
    cases h1 : r.p1 with
    | some v1 => simp [printRange, h2, h1, printDate, GoLib.quote] <;> omega
    | none => simp [h1, h2] at h

/-- the old witness is rejected by the model as it is by the code; the bracketed spellings with a time point are not -/
example : (parseLql dp0 (txt "SELECT RANGE [")).isNone = true ∧ (parseLql dp0 (txt "select from a=b range [ limit 5")).isNone = true
    ∧ (parseLql dpEx (txt "select range [\"2019-01-02 12:34:55.500000000 +0000 UTC\"")).map hasEmptyRange = some false := by
  decide +kernel

/-! ## every statement kind at token level -/

/-- **C12_wf: for every statement in the parser's image minus the open classes — SELECT (format, source, RANGE, WHERE,
POSITION, OFFSET, LIMIT), SHOW PARTITIONS / PIPES, DESCRIBE PARTITION / PIPE, TRUNCATE, CREATE PIPE, DELETE PIPE — at
any nesting depth, the direct statement parser returns exactly the statement from `tokensOf` of it**, given the date
contract for the instants it prints and any fuel ≥ the size of its expressions. `wfLql` is decidable and is evaluated
on every accepted statement of every run (it held on all outside F12b / F12e). -/
theorem C12_wf (dp : Bytes → Option Int) (rd : Int → Bytes) (l : Lql) (f : Nat) (hf : lqlSz l ≤ f)
    (hw : wfLql rd l = true) (hc : LqlContract dp rd l) : directLqlFuel dp f (toksLql rd l) = some l :=
  directLql_toks dp rd l f hf hw hc

def LexableLql (rd : Int → Bytes) (l : Lql) : Prop := lex (printLql rd l) = some (toksLql rd l)
instance (rd : Int → Bytes) (l : Lql) : Decidable (LexableLql rd l) := by unfold LexableLql; exact inferInstance

/-- print then parse gives the same statement back, every statement kind, under `Lexable` and the date contract -/
theorem print_parse_lql_partial (dp : Bytes → Option Int) (rd : Int → Bytes) (l : Lql) (f : Nat) (hf : lqlSz l ≤ f)
    (hw : wfLql rd l = true) (hc : LqlContract dp rd l) (hl : LexableLql rd l) :
    (lex (printLql rd l)).bind (directLqlFuel dp f) = some l := by
  rw [hl]; exact C12_wf dp rd l f hf hw hc

/-- `SELECT "{msg}" FROM <exE> RANGE ["…55.5…":"…55.5…"] WHERE <exE> POSITION "tail" OFFSET -5 LIMIT 10` -/
def exS : Select :=
  { format := some (txt "{msg}"), source := some (.expr exE), range := some ⟨some 1546432495500000000, some 1546432495500000000⟩,
    where_ := some exE, position := some (txt "tail"), offset := some (-5), limit := some 10 }

example : wfLql rdEx { select := some exS } = true ∧ LexableLql rdEx { select := some exS } := by
  unfold LexableLql; decide +kernel
example : wfLql rdEx { show_ := some { partitions := some { source := some (.tags [([97], [98])]), offset := some 0, limit := some 7 } } } = true
    ∧ wfLql rdEx { create := some { pipe := some { name := txt "p1", from_ := some (.expr exE), where_ := some exE } } } = true
    ∧ wfLql rdEx { describe := some { pipe := some (txt "a:b/c") } } = true ∧ wfLql rdEx { delete := some { pipeName := some (txt "p") } } = true
    ∧ wfLql rdEx { truncate := some exT } = true := by
  decide +kernel
/-- the open classes are outside `wfLql`: bare keyword (F12e), `SELECT ""` (F12e), unsafe tag value (F12b) -/
example : wfLql rdEx {} = false ∧ wfLql rdEx { select := some { format := some [] } } = false
    ∧ wfLql rdEx { select := some { source := some (.tags [([97], [125])]) } } = false := by
  decide +kernel

/-! ## character level WITHOUT the `Lexable` hypothesis (expressions, expression sources, CREATE PIPE over them) -/

/-- **`lex (print e) = tokensOf e`, proved from the lexer model** (maximal munch over the seven token groups, ties to the
earlier group, blanks skipped, participle's unquote) for every expression with lexable atoms, any nesting depth.
`laExpr` (decidable): operands identifier-shaped (`[a-zA-Z_][a-z./\-A-Z0-9_:]*`; this covers every letter keyword used
as an operand), operators one of the six symbols or an identifier-shaped keyword, every value `strAtomOK` — its
`strconv.Quote` text has the shape the String pattern consumes whole and participle's unquote reads it back (a decidable
per-value condition; `strconv.Quote` gives the shape for every byte string and the unquote half holds for valid UTF-8 —
that general fact about Quote is NOT proved here, it is evaluated per value). -/
theorem lexable_expr (e : Expr) (h : laExpr e = true) : LexableExpr e := lex_printExpr e h

/-- **print then parse is the identity on expressions**, no `Lexable` hypothesis -/
theorem print_parse_expr (e : Expr) (hw : wfExpr e = true) (hl : laExpr e = true) :
    parseExprText (szExpr e) (printExpr e) = some e :=
  print_parse_partial e hw (lexable_expr e hl)

/-- the same for a source condition given as an expression (a `{…}` source still needs `LexableSource`: F12a/F12b live there) -/
theorem print_parse_source_expr (s : Expr) (hw : wfExpr s = true) (hl : laExpr s = true) :
    parseSourceText (szExpr s) (printSource (.expr s)) = some (.expr s) :=
  print_parse_source_partial (.expr s) (by simpa [wfSource] using hw)
    (by unfold LexableSource; simpa [printSource, toksSource] using lex_printExpr s hl)

/-- **`CREATE PIPE p FROM S WHERE F` ≡ the pipe defined directly by S and F, without the `Lexable` hypothesis**, for
S an expression source: the stored texts `print S`, `print F` parse back to S and F -/
theorem create_pipe_equiv (name : Bytes) (S F : Expr) (hS : wfExpr S = true) (hF : wfExpr F = true)
    (lS : laExpr S = true) (lF : laExpr F = true) :
    let st := createPipeStores ⟨name, some (.expr S), some F⟩
    st.1 = name ∧ parseSourceText (szExpr S) st.2.1 = some (.expr S) ∧ parseExprText (szExpr F) st.2.2 = some F :=
  ⟨rfl, print_parse_source_expr S hS lS, print_parse_expr F hF lF⟩

example : laExpr exE = true := by decide +kernel
example : parseExprText (szExpr exE) (printExpr exE) = some exE := print_parse_expr exE (by decide +kernel) (by decide +kernel)

/-! ## integers: the `intOK` hypothesis of `wfLql` holds for every int64 -/

/-- **`strconv.ParseInt(fmt.Sprintf("%d", i), 0, 64) = i` for every int64** (models `decInt`, `parseInt0`: decimal digits
without a leading zero are never read as octal), and the text is never mistaken for an operator or a parenthesis: OFFSET /
LIMIT values need no per-value hypothesis in `C12_wf` -/
theorem intOK_every_int64 (i : Int) (h1 : -(2 ^ 63) ≤ i) (h2 : i < 2 ^ 63) : intOK i = true := intOK_all i h1 h2

theorem offset_limit_text_roundtrip (i : Int) (h1 : -(2 ^ 63) ≤ i) (h2 : i < 2 ^ 63) : parseInt0 (decInt i) = some i :=
  parseInt0_decInt i h1 h2

/-! ## the participle engine on the REGENERATED grammar = the direct parsers (expressions, sources): proved

`Proofs/LqlEngine*.lean`: one-step equations of the interpreter (`parseSeq`/`parseDisj`/`parseRep`/optional group), then per
struct of the regenerated grammar (`grammar "Identifier" = some identBody` … by `rfl` against `Generated/C12.lean`) a
simulation lemma between the interpreter on that struct's node tree and the direct parser function, for EVERY token list, cursor
and nesting depth (induction on the remaining tokens; the `{"," @@}`, `{"AND" @@}`, `{"OR" @@}` loops by their own induction;
swallowed soft errors, the one-token `Stop` rule and nil-vs-empty values are followed exactly). Hypothesis `OperandNotParen`:
no Ident/Keyword token is spelled `(` (decidable; true of every token list the lexer produces — the direct parser commits to
"condition" on an operand token, the engine would still try the parenthesis). Fuels: the engine's `60·n+200` and the direct
parser's `directFuel = 4·n+16` are the ones the models use (both proved sufficient); the conversion fuel must be ≥ `cvExpr e`. -/

instance (toks : List Tok) : Decidable (OperandNotParen toks) := by unfold OperandNotParen; exact inferInstance

/-- **engine = direct parser, root `Expression`** (`lql.ParseExpr` after lexing): same acceptance, same AST -/
theorem engine_eq_direct_expr (toks : List Tok) (hH : OperandNotParen toks) (ft : Nat)
    (hft : ∀ e, directExpr toks = some e → cvExpr e ≤ ft) :
    (runEngine Logrange.Generated.C12.grammar "Expression" toks).bind (toExpr ft) = directExpr toks := by
  have h := engine_direct_expr toks hH
  cases hd : directExpr toks with
  | none => rw [hd] at h; rw [h]; rfl
  | some e =>
    rw [hd] at h
    obtain ⟨v, hv, _, hc⟩ := h
    rw [hv]; simp [hc ft (hft e hd)]

/-- **engine = direct parser, root `Source`** (`lql.ParseSource` after lexing) -/
theorem engine_eq_direct_source (toks : List Tok) (hH : OperandNotParen toks) (ft : Nat)
    (hft : ∀ s, directSource toks = some s → cvSource s ≤ ft) :
    (runEngine Logrange.Generated.C12.grammar "Source" toks).bind (toSource ft) = directSource toks := by
  have h := engine_direct_source toks hH
  cases hd : directSource toks with
  | none =>
    rw [hd] at h
    rcases h with h | ⟨v, hv, hn⟩
    · rw [h]; rfl
    · rw [hv]; simp [hn ft]
  | some s =>
    rw [hd] at h
    obtain ⟨v, hv, hc⟩ := h
    rw [hv]; simp [hc ft (hft s hd)]

/-- acceptance alone needs no fuel hypothesis at all: the engine accepts an expression exactly when the direct parser does -/
theorem engine_accepts_iff_direct_expr (toks : List Tok) (hH : OperandNotParen toks) :
    (runEngine Logrange.Generated.C12.grammar "Expression" toks).isSome = (directExpr toks).isSome := by
  have h := engine_direct_expr toks hH
  cases hd : directExpr toks with
  | none => rw [hd] at h; rw [h]; rfl
  | some e => rw [hd] at h; obtain ⟨v, hv, _, _⟩ := h; rw [hv]; rfl

/-- non-vacuity: the tokens of the nested example satisfy the hypothesis, are accepted, and a mis-spelled operand token is
what the hypothesis excludes (there the two parsers really differ: the engine reads a parenthesis, the direct parser fails) -/
example : OperandNotParen (toksExpr exE) ∧ (directExpr (toksExpr exE)).map canonExpr = some (canonExpr exE)
    ∧ cvExpr exE = 30 := by decide +kernel
example : (runEngine Logrange.Generated.C12.grammar "Expression" (toksExpr exE)).bind (toExpr 30) = directExpr (toksExpr exE) :=
  engine_eq_direct_expr _ (by decide +kernel) 30 (by
    intro e he
    have : (directExpr (toksExpr exE)).map cvExpr = some 30 := by decide +kernel
    rw [he] at this; simp at this; omega)
example : ¬ OperandNotParen [⟨.ident, [40]⟩, ⟨.ident, [97]⟩, ⟨.operator, [61]⟩, ⟨.string, [49]⟩, ⟨.operator, [41]⟩]
    ∧ (runEngine Logrange.Generated.C12.grammar "Expression" [⟨.ident, [40]⟩, ⟨.ident, [97]⟩, ⟨.operator, [61]⟩, ⟨.string, [49]⟩, ⟨.operator, [41]⟩]).isSome = true
    ∧ (directExpr [⟨.ident, [40]⟩, ⟨.ident, [97]⟩, ⟨.operator, [61]⟩, ⟨.string, [49]⟩, ⟨.operator, [41]⟩]).isNone = true := by
  decide +kernel

/-- **the lexer only produces token lists that satisfy the hypothesis** (no Ident/Keyword token is spelled `(`) -/
theorem lexed_tokens_operand_not_paren (text : Bytes) (ts : List Tok) (h : lex text = some ts) : OperandNotParen ts :=
  lex_operandNotParen text ts h

/-- **`lql.ParseExpr` through the engine on the regenerated grammar = through the direct parser, on every text** -/
theorem engine_eq_direct_expr_lexed (text : Bytes) (ts : List Tok) (h : lex text = some ts) (ft : Nat)
    (hft : ∀ e, directExpr ts = some e → cvExpr e ≤ ft) :
    (runEngine Logrange.Generated.C12.grammar "Expression" ts).bind (toExpr ft) = directExpr ts :=
  engine_eq_direct_expr ts (lex_operandNotParen text ts h) ft hft

/-- … and `lql.ParseSource` likewise -/
theorem engine_eq_direct_source_lexed (text : Bytes) (ts : List Tok) (h : lex text = some ts) (ft : Nat)
    (hft : ∀ s, directSource ts = some s → cvSource s ≤ ft) :
    (runEngine Logrange.Generated.C12.grammar "Source" ts).bind (toSource ft) = directSource ts :=
  engine_eq_direct_source ts (lex_operandNotParen text ts h) ft hft

example : (lex (txt "a = \"1\" AND NOT ( b like \"x\" OR f(c,d) PREFIX \"5\" )")).isSome = true := by decide +kernel

/-! ## fuels: `directFuel` always suffices; the conversion fuel `8·n+50` always suffices (`Proofs/LqlFuel.lean`) -/

/-- **the direct expression parser does not depend on its fuel once it is ≥ `directFuel toks = 4·n+16`** -/
theorem direct_fuel_suffices_expr (toks : List Tok) (f f' : Nat) (h : directFuel toks ≤ f) (h' : directFuel toks ≤ f') :
    dExpr f toks = dExpr f' toks := dExpr_fuel_indep toks f f' h h'

theorem direct_fuel_suffices_source (toks : List Tok) (f f' : Nat) (h : directFuel toks ≤ f) (h' : directFuel toks ≤ f') :
    dSource f toks = dSource f' toks := dSource_fuel_indep toks f f' h h'

/-- … and so does the direct statement parser (every statement kind) -/
theorem direct_fuel_suffices_lql (dp : Bytes → Option Int) (toks : List Tok) (f f' : Nat) (h : directFuel toks ≤ f)
    (h' : directFuel toks ≤ f') : directLqlFuel dp f toks = directLqlFuel dp f' toks := directLqlFuel_indep dp toks f f' h h'

/-- **`C12_wf` with the parser's own fuel: no fuel hypothesis left** — `directLql` (fuel `directFuel`) returns exactly the
statement from `tokensOf` of it, every statement kind, any depth -/
theorem C12_wf_canonical_fuel (dp : Bytes → Option Int) (rd : Int → Bytes) (l : Lql) (hw : wfLql rd l = true)
    (hc : LqlContract dp rd l) : directLql dp (toksLql rd l) = some l := directLql_toksLql dp rd l hw hc

theorem token_roundtrip_expr_canonical_fuel (e : Expr) (hw : wfExpr e = true) : directExpr (toksExpr e) = some e :=
  directExpr_toksExpr e hw

/-- **engine = direct parser with the models' own three fuels** (`runEngine`: `60·n+200`, conversion: `8·n+50` as in
`parseLql` and the driver, direct: `directFuel`): the conversion fuel hypothesis of `engine_eq_direct_expr` is discharged
(`cvExpr e ≤ 3·n` for every AST the direct parser returns) -/
theorem engine_eq_direct_expr_canonical (toks : List Tok) (hH : OperandNotParen toks) :
    (runEngine Logrange.Generated.C12.grammar "Expression" toks).bind (toExpr (8 * toks.length + 50)) = directExpr toks :=
  engine_eq_direct_expr toks hH _ (fun e he => directExpr_cv toks e he)

theorem engine_eq_direct_source_canonical (toks : List Tok) (hH : OperandNotParen toks) :
    (runEngine Logrange.Generated.C12.grammar "Source" toks).bind (toSource (8 * toks.length + 50)) = directSource toks :=
  engine_eq_direct_source toks hH _ (fun s hs => directSource_cv toks s hs)

/-- **`lql.ParseExpr` on a TEXT: the engine route (what the driver's `E=` answer computes) = the direct route (`D=`)**,
no hypothesis at all -/
theorem parse_expr_text_engine_eq_direct (text : Bytes) :
    (lex text).bind (fun ts => (runEngine Logrange.Generated.C12.grammar "Expression" ts).bind (toExpr (8 * ts.length + 50)))
      = (lex text).bind directExpr := by
  cases h : lex text with
  | none => rfl
  | some ts => exact engine_eq_direct_expr_canonical ts (lex_operandNotParen text ts h)

theorem parse_source_text_engine_eq_direct (text : Bytes) :
    (lex text).bind (fun ts => (runEngine Logrange.Generated.C12.grammar "Source" ts).bind (toSource (8 * ts.length + 50)))
      = (lex text).bind directSource := by
  cases h : lex text with
  | none => rfl
  | some ts => exact engine_eq_direct_source_canonical ts (lex_operandNotParen text ts h)

/-! ## `strAtomOK` for every valid-UTF-8 value (`Proofs/LqlQuoteRT.lean`) -/

/-- the body `strconv.Quote` produces has the shape the String token pattern consumes whole — EVERY byte string -/
theorem quote_body_shape_every_string (v : Bytes) : strOK (GoLib.quoteBody (v.length + 1) v GoLib.DQ) = true :=
  strOK_quoteBody v

/-- **every valid-UTF-8 value is a lexable atom**: quoted by `strconv.Quote`, lexed as one String token, read back by
participle's unquote — the value clause of `laExpr` holds for every valid-UTF-8 value (for other values it is false:
`\xNN` comes back as a two-byte rune) -/
theorem strAtomOK_every_valid_utf8 (v : Bytes) (h : GoLib.isValidUtf8 v = true) : strAtomOK v = true := strAtomOK_of_valid v h

example : strAtomOK [0xff] = false ∧ GoLib.isValidUtf8 [0xff] = false ∧ GoLib.isValidUtf8 [0xc3, 0xa9, 32, 34, 92, 9, 0xe2, 0x82, 0xac] = true := by
  decide +kernel

/-! ## engine = direct parser for EVERY statement kind (`Proofs/LqlEngineStmt/Select/Trunc/Misc/All.lean`) -/

/-- what the statement-level theorem asks of the opaque date parser: it rejects the eleven texts `(`, `<`, `>`, `>=`, `<=`, `!=`,
`=`, `CONTAINS`, `PREFIX`, `SUFFIX`, `LIKE` (they are no dates; C20's side) -/
def DateRejectsOperators (dp : Bytes → Option Int) : Prop := ∀ b ∈ LP :: condOps, dp b = none

/-- **engine = direct parser, root `Lql`**: for every token list the lexer can produce (`OperandNotParen`), the participle-engine
interpreter on the REGENERATED grammar followed by the typed application of the captures and `ParseLql`'s post-check equals
the direct statement parser `directLql` — SELECT (format, FROM, RANGE, WHERE, POSITION, OFFSET, LIMIT), DESCRIBE, TRUNCATE, SHOW
PARTITIONS / PIPES, CREATE PIPE, DELETE PIPE, bare keywords, rejected statements — with the models' own fuels. Every struct body
is pinned by `rfl` against `Generated/C12.lean` (`g_lql`, `g_select`, `g_range`, `g_position`, `g_truncate`, `g_show`, `g_partitions`,
`g_pipes`, `g_describe`, `g_create`, `g_pipe`, `g_delete`, `g_source`, `g_expr`, `g_or`, `g_x`, `g_cond`, `g_ident`). -/
theorem engine_eq_direct_lql (dp : Bytes → Option Int) (hdp : DateRejectsOperators dp) (toks : List Tok) (hH : OperandNotParen toks) :
    (runEngine Logrange.Generated.C12.grammar "Lql" toks).bind (toLqlChecked dp (8 * toks.length + 50)) = directLql dp toks :=
  engine_direct_lql dp hdp toks hH

/-- **the parser model `parseLql` (lexer, engine on the regenerated grammar, captures, post-check) IS the lexer followed by the
direct statement parser**, on every text -/
theorem parse_lql_eq_direct (dp : Bytes → Option Int) (hdp : DateRejectsOperators dp) (text : Bytes) :
    parseLql dp text = (lex text).bind (directLql dp) := by
  unfold parseLql
  cases h : lex text with
  | none => rfl
  | some ts =>
    have := engine_eq_direct_lql dp hdp ts (lex_operandNotParen text ts h)
    simp only [Option.bind_some]
    rw [← this]
    unfold grammar
    cases runEngine Logrange.Generated.C12.grammar "Lql" ts <;> rfl

/-- **print then parse with the full parser model**: for every statement in the parser's image minus F12b / F12e whose printed
text lexes to its tokens (`LexableLql`: excludes F12a), `parseLql` of the printed text is the statement — every statement kind,
any depth, no fuel hypothesis, given the date contract (C20's side) -/
theorem print_parse_lql_model (dp : Bytes → Option Int) (rd : Int → Bytes) (hdp : DateRejectsOperators dp) (l : Lql)
    (hw : wfLql rd l = true) (hc : LqlContract dp rd l) (hl : LexableLql rd l) :
    parseLql dp (printLql rd l) = some l := by
  rw [parse_lql_eq_direct dp hdp, hl]
  exact C12_wf_canonical_fuel dp rd l hw hc

/-- the hypothesis on the date parser is needed: with a date parser that accepts `(` the two parsers differ on
`TRUNCATE BEFORE "(" MAXDBSIZE 10` (kernel-checked in `Proofs/LqlEngineTrunc.lean`), and it is met by the example parsers -/
example : OperandNotParen cexTruncToks ∧
    ((runEngine Logrange.Generated.C12.grammar "Lql" cexTruncToks).bind (toLqlChecked (fun _ => some 0) 1000)).isSome = false ∧
    (dTruncateRest (fun _ => some 0) (directFuel cexTruncToks) cexTruncToks.tail).isSome = true := cex_truncate_dp
example : DateRejectsOperators dp0 ∧ DateRejectsOperators dpEx := by
  constructor <;> (intro b hb; revert b; decide +kernel)
example : parseLql dpEx (printLql rdEx { select := some exS }) = some { select := some exS } :=
  print_parse_lql_model dpEx rdEx (by intro b hb; revert b hb; decide +kernel) _ (by decide +kernel)
    ⟨fun s hs => by
        cases hs
        intro r hr; cases hr
        have hdr : dpEx (rdEx 1546432495500000000) = some 1546432495500000000 := by decide +kernel
        exact ⟨fun v hv => by cases hv; exact hdr, fun v hv => by cases hv; exact hdr⟩,
      fun t ht => by cases ht⟩ (by unfold LexableLql; decide +kernel)

/-! ## the printed form of an instant and the LQL date format list -/

/-- **the date format list still has the formats the printed layout needs in every local zone**: `DateTime.String()` prints
`2006-01-02 15:04:05.000000000 -0700 MST`; where the zone abbreviation is alphabetic (UTC, CET, PST) the text is read by
`… ss.SSS ZZZZ ZZZ`, where it is numeric (`+04`, `-03`: Asia/Dubai, America/Sao_Paulo …) by `… ss.SSS ZZZZ` — without the
latter the fraction-only format matches and the instant is read as UTC: the RANGE bound / BEFORE instant shifts by the zone
offset although print and parse both succeed (seeded change C12-15). The list is a regenerated fact (`lqlDateFormats`); the
semantics of the formats stays C20's side (`DateContract`), exercised per zone by the harness section `datecontract`. -/
theorem printed_instant_formats_present :
    Logrange.Generated.C12.dateLayout = txt "2006-01-02 15:04:05.000000000 -0700 MST" →
    (Logrange.Generated.C12.lqlDateFormats.contains (txt "YYYY-MM-DD HH:mm:ss.SSS ZZZZ ZZZ") = true
     ∧ Logrange.Generated.C12.lqlDateFormats.contains (txt "YYYY-MM-DD HH:mm:ss.SSS ZZZZ") = true) := by
  decide +kernel

/-! ## the parser and the filter builder are functions of their text -/

/-- **pkg/lql keeps no mutable package-level state** (regenerated fact: no package-level variable that the package's own code
writes — assignment, increment, `Store`/`LoadOrStore`/`Delete`/`Lock` … — or whose type is a map / channel / `sync.*` container).
This is what the model assumes when it reads `ParseLql`, `ParseExpr`, `ParseSource`, `BuildWhereExpFunc`, `BuildTagsExpFunc` as
functions of the text alone (`parseLql dp text`, the evaluators of C05/C06): with a process-wide memo keyed by a normalised text
(seeded change C12-17: blanks collapsed, also inside string literals) the pipe created by `CREATE PIPE p … WHERE msg CONTAINS "a  b"`
would filter with the function built earlier for `"a b"`. The behaviour itself is compared by the harness (section pipes, filter
pairs built back to back in one process). -/
theorem filter_builder_is_function_of_text : Logrange.Generated.C12.lqlMutablePackageVars = 0 := by decide

end Logrange.Props.C12
