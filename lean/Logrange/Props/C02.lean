import Logrange.Proofs.Points
import Logrange.Proofs.WriteLoopHull
import Logrange.Proofs.ChunkHist
import Logrange.Proofs.PointsMerge
import Logrange.Proofs.PartScan
import Logrange.Proofs.RebuildHist
import Logrange.Proofs.ITree
import Logrange.Proofs.PartHist
import Logrange.Proofs.Relight
import Logrange.Model.RangedIter
/-!
# C02 — Time-range queries return exactly the events whose timestamp is in range

Property theorems only (lemmas: `Logrange/Proofs/Points.lean`; models: `Logrange/Model/{Points,IdxTree,CIndex,WriteLoop,
Selector,RangedIter}.lean`). The theorems are about the abstract sparse index `Points` of one chunk — the list of
level-0 records of the chunk's block tree — and about the window `chkSelector.updatePoss` derives from it; the block tree
(`IdxTree`) and the whole pipeline are tied to `Points` and to the code by the correspondence harness (`cmd/c02`).
Every theorem here is an obligation of the C02 check; the audit lists their axioms.

Regenerated facts the statements depend on (`Logrange.Generated.C02`): `lowerAskMinusOne` (the lower bound handed to
the index is `MinTs − 1`, fix 94ffdf8), `fitLower/UpperInclusive` (`fitInRange` uses `>=` / `<=`),
`rangeDefaultLower` (MinInt64 since fix f2a8db2), `iwrapperMin/MaxZeroSentinel`, `iwrapperSeenFlag` (flag instead of the 0
sentinel since fix 6624754), `rebuildSegmentMaxInit` (MinInt64 since fix db44772).
-/
namespace Logrange.Props.C02
open Logrange Logrange.Points

/-! ## soundness of the two index look-ups -/

/-- `less` answers an upper position bound: every position beyond it (inside the chunk) has a timestamp above `t`. -/
theorem less_is_upper_bound {tsOf : Nat → Int} {n : Nat} {pts : List Pt} (hs : IndexSound tsOf n pts) (t : Int) (m : Nat)
    (hm : lessPos pts t = some m) (q : Nat) (hq : m < q) (hqn : q < n) : t < tsOf q :=
  Points.less_is_upper_bound hs t m hm q hq hqn

/-- `grEq` as the code has it (the LAST point with `ts ≤ t`): every position before the answer has `ts ≤ t`. -/
theorem grEq_below {tsOf : Nat → Int} {n : Nat} {pts : List Pt} (hs : IndexSound tsOf n pts) (t : Int) (q : Nat)
    (hq : q < grEqPos pts t) : tsOf q ≤ t :=
  Points.grEq_below hs t q hq

/-- what fix 94ffdf8 establishes: asked for `t − 1`, the answer is at or before every record with `ts ≥ t`
(including the records whose timestamp EQUALS the bound). -/
theorem grEq_minus_one_is_lower_bound {tsOf : Nat → Int} {n : Nat} {pts : List Pt} (hs : IndexSound tsOf n pts) (t : Int)
    (q : Nat) (hq : t ≤ tsOf q) : grEqPos pts (t - 1) ≤ q :=
  Points.grEq_minus_one_is_lower_bound hs t q hq

/-! ## the fixed finding #1 as a counterexample for the un-fixed call -/

def cexPts : List Pt := [⟨100, 0⟩, ⟨200, 299⟩, ⟨200, 599⟩, ⟨300, 899⟩]
def cexTs (q : Nat) : Int := if q = 0 then 100 else if q ≤ 599 then 200 else 300

theorem cexPts_sound : IndexSound cexTs 900 cexPts := by
  refine ⟨by decide, by simp [cexPts, SortedTs], by simp [cexPts, SortedIdx], ?_, by simp [cexPts, HeadOk, cexTs], ?_, by decide⟩
  · simp only [cexPts, Claims, cexTs, and_true]
    refine ⟨?_, ?_, ?_⟩ <;> intro q h1 h2 <;> (repeat' split) <;> omega
  · intro _ q h1 h2
    simp [cexPts, lastD] at h1
    omega

/-- asked for the bound itself the index answers 599 although record 400 carries the bound's timestamp;
asked for `bound − 1` it answers 0 -/
theorem cex_equal_bound : cexTs 400 = 200 ∧ grEqPos cexPts 200 = 599 ∧ ¬ (grEqPos cexPts 200 ≤ 400) ∧ grEqPos cexPts (200 - 1) ≤ 400 := by
  decide

/-- the window of the un-fixed `updatePoss` hides position 400 for `RANGE [200:250]`; the current one keeps it -/
theorem cex_window_unfixed :
    inRange ⟨200, 250⟩ (cexTs 400) ∧ ¬ inWindow (windowUnfixed ⟨100, 300⟩ (some cexPts) ⟨200, 250⟩) 400 ∧
    inWindow (window ⟨100, 300⟩ (some cexPts) ⟨200, 250⟩) 400 := by
  decide

/-! ## the index may only skip events outside the range -/

/-- **window_complete**: with a sound hull and a sound (or missing: `idx = none`) index, every position whose timestamp
is in the range lies inside the window `updatePoss` computes — for every range, including bounds equal to stored
timestamps and the int64 extremes. -/
theorem window_complete {tsOf : Nat → Int} {n : Nat} (h : Hull) (idx : Option (List Pt)) (r : TmRange)
    (hh : HullSound h tsOf n) (hi : ∀ pts, idx = some pts → IndexSound tsOf n pts) (hn : n ≤ maxU32)
    (hmin : minI64 ≤ h.minTs) (p : Nat) (hp : p < n) (hr : inRange r (tsOf p)) : inWindow (window h idx r) p :=
  Points.window_complete h idx r hh hi hn hmin p hp hr

theorem cexHull_sound : HullSound ⟨100, 300⟩ cexTs 900 := by
  intro p _; unfold cexTs; constructor <;> (repeat' split) <;> simp

example : inWindow (window ⟨100, 300⟩ (some cexPts) ⟨200, 200⟩) 150 :=
  window_complete (tsOf := cexTs) (n := 900) ⟨100, 300⟩ (some cexPts) ⟨200, 200⟩ cexHull_sound
    (by intro pts h; cases h; exact cexPts_sound) (by decide) (by decide) 150 (by decide) (by decide)

/-! ## the range re-check of `fiterator` -/

/-- `fiterator.Get`/`Next` over a stream of timestamps: events failing `fitInRange` are skipped -/
def fiterAll (rmin rmax : Int) : List Int → List Int
  | [] => []
  | t :: rest => if RangedIter.fitInRange rmin rmax t then t :: fiterAll rmin rmax rest else fiterAll rmin rmax rest

/-- **fiter_refines_filter**: the filtering iterator delivers exactly the events with `rmin ≤ ts ≤ rmax`, in order
(both comparisons inclusive — regenerated facts `fitLowerInclusive`, `fitUpperInclusive`). -/
theorem fiter_refines_filter (rmin rmax : Int) (l : List Int) :
    fiterAll rmin rmax l = l.filter (fun t => decide (inRange ⟨rmin, rmax⟩ t)) := by
  have h1 : Generated.C02.fitLowerInclusive = true := by decide
  have h2 : Generated.C02.fitUpperInclusive = true := by decide
  induction l with
  | nil => rfl
  | cons t rest ih =>
    simp only [fiterAll, List.filter, ih, RangedIter.fitInRange, h1, h2, if_true, inRange]
    by_cases a : rmin ≤ t <;> by_cases b : t ≤ rmax <;> simp [a, b]

/-! ## one chunk: ranged read = filtered full read -/

/-- the positions a ranged read of one chunk visits (those inside the window), then the `fitInRange` re-check -/
def chunkRangedRead (h : Hull) (idx : Option (List Pt)) (r : TmRange) (tsOf : Nat → Int) (n : Nat) : List Nat :=
  ((List.range n).filter (fun p => decide (inWindow (window h idx r) p))).filter
    (fun p => RangedIter.fitInRange r.minTs r.maxTs (tsOf p))

/-- **range_eq_filter (one chunk)**: with a sound hull and a sound or missing index the ranged read of a chunk is
exactly the filter of the full read. -/
theorem range_eq_filter_chunk {tsOf : Nat → Int} {n : Nat} (h : Hull) (idx : Option (List Pt)) (r : TmRange)
    (hh : HullSound h tsOf n) (hi : ∀ pts, idx = some pts → IndexSound tsOf n pts) (hn : n ≤ maxU32)
    (hmin : minI64 ≤ h.minTs) :
    chunkRangedRead h idx r tsOf n = (List.range n).filter (fun p => decide (inRange r (tsOf p))) := by
  have h1 : Generated.C02.fitLowerInclusive = true := by decide
  have h2 : Generated.C02.fitUpperInclusive = true := by decide
  unfold chunkRangedRead
  rw [List.filter_filter]
  apply List.filter_congr
  intro p hp
  have hpn : p < n := by simpa using hp
  by_cases hr : inRange r (tsOf p)
  · have hw := window_complete h idx r hh hi hn hmin p hpn hr
    have hr' := hr
    unfold inRange at hr'
    simp [RangedIter.fitInRange, h1, h2, hw, hr, hr'.1, hr'.2]
  · have hr' := hr
    unfold inRange at hr'
    simp only [RangedIter.fitInRange, h1, h2, if_true, hr, decide_false]
    by_cases a : r.minTs ≤ tsOf p <;> by_cases b : tsOf p ≤ r.maxTs <;> simp [a, b] <;> omega

/-! ## the write side keeps the index sound -/

/-- **addInterval_preserves (append case and first interval)**: what `onWrite` does whenever the new batch does not
start below an indexed timestamp — always the case on monotone streams (`append_case_of_monotone`). -/
theorem addInterval_preserves_append {tsOf : Nat → Int} {n n' : Nat} {pts : List Pt} (it : Iv) (hs : IndexSound tsOf n pts)
    (hcase : cntLE pts it.p0.ts = pts.length)
    (hn : it.p0.idx = n) (hle : it.p0.idx ≤ it.p1.idx) (hn' : n' = it.p1.idx + 1) (hb : BatchIn it tsOf)
    (hg : GapCovered pts it tsOf) (he : pts = [] → it.p0.idx = 0) : IndexSound tsOf n' (add pts it) :=
  Points.add_preserves_append it hs hcase hn hle hn' hb hg he

/-- **addInterval_preserves** — the full statement, all three cases of `block.addInterval` at level 0: append, merge into
the covering interval (records after it dropped, `p1.ts := max p1.ts last.ts`), collapse (`p0 := reduce p0 first`). The
only hypotheses are the honest ones: the interval covers its batch (`BatchIn`) and the skipped positions before it lie
below its upper timestamp (`GapCovered` — what fails for jittered streams, finding #4). -/
theorem addInterval_preserves {tsOf : Nat → Int} {n n' : Nat} {pts : List Pt} (it : Iv) (hs : IndexSound tsOf n pts)
    (hn : it.p0.idx = n) (hle : it.p0.idx ≤ it.p1.idx) (hn' : n' = it.p1.idx + 1) (hb : BatchIn it tsOf)
    (hg : GapCovered pts it tsOf) (he : pts = [] → it.p0.idx = 0) : IndexSound tsOf n' (add pts it) :=
  Points.add_preserves it hs hn hle hn' hb hg he

/-- a write the sparse index skips keeps the index sound when the new records are not below the last point -/
theorem skip_preserves {tsOf : Nat → Int} {n n' : Nat} {pts : List Pt} (hs : IndexSound tsOf n pts) (hnn : n ≤ n')
    (hnew : ∀ q, n ≤ q → q < n' → (lastD pts).ts ≤ tsOf q) : IndexSound tsOf n' pts :=
  Points.skip_preserves hs hnn hnew

/-- `GapCovered` — the hypothesis the proof forces — follows from monotonicity -/
theorem gapCovered_of_monotone {tsOf : Nat → Int} {n' : Nat} (pts : List Pt) (it : Iv) (hm : Monotone tsOf n')
    (hb : BatchIn it tsOf) (hle : it.p0.idx ≤ it.p1.idx) (hl : it.p1.idx < n') : GapCovered pts it tsOf :=
  Points.gapCovered_of_monotone pts it hm hb hle hl

/-- on a monotone stream every indexed batch takes the append case -/
theorem append_case_of_monotone {tsOf : Nat → Int} {n : Nat} {pts : List Pt} (it : Iv) (hs : IndexSound tsOf n pts)
    (hm : Monotone tsOf (it.p0.idx + 1)) (hn : it.p0.idx = n) (hexact : it.p0.ts = tsOf it.p0.idx)
    (hatt : ∀ p ∈ pts, ∃ q, q < n ∧ p.ts ≤ tsOf q) : cntLE pts it.p0.ts = pts.length :=
  Points.append_case_of_monotone it hs hm hn hexact hatt

example : add cexPts ⟨⟨300, 900⟩, ⟨310, 1199⟩⟩ = cexPts ++ [⟨310, 1199⟩] := by decide          -- append
example : add cexPts ⟨⟨250, 900⟩, ⟨260, 1199⟩⟩ = [⟨100, 0⟩, ⟨200, 299⟩, ⟨200, 599⟩, ⟨300, 1199⟩] := by decide  -- merge
example : add cexPts ⟨⟨50, 900⟩, ⟨60, 1199⟩⟩ = [⟨50, 0⟩, ⟨300, 1199⟩] := by decide               -- collapse

/-! ## the three repaired defects (#2, #3, #45) as positive theorems -/

/-- **iwrapper_hull_exact** (fix 6624754, was finding #2): the hull `Service.Write` reports for a batch is the true
minimum and maximum of the batch's timestamps — for EVERY batch, including timestamps 0 and negative ones. Depends on the
regenerated facts that `iwrapper.Get` no longer compares with 0 and keeps a seen-flag. -/
theorem iwrapper_hull_exact (t : Int) (rest : List Int) :
    let iw := (t :: rest).foldl WriteLoop.IW.see {}
    (∀ x ∈ t :: rest, iw.minTs ≤ x ∧ x ≤ iw.maxTs) ∧ iw.minTs ∈ t :: rest ∧ iw.maxTs ∈ t :: rest := by
  have f1 : Generated.C02.iwrapperMinZeroSentinel = false := by decide
  have f2 : Generated.C02.iwrapperMaxZeroSentinel = false := by decide
  have f3 : Generated.C02.iwrapperSeenFlag = true := by decide
  exact WriteLoop.hull_exact_of_flags {} f1 f2 rfl t rest

/-- the former witness of #2: the batch 5, 0, 7 now gets the hull [0, 7] and `RANGE [0:6]` keeps position 0 -/
example : ((([5, 0, 7] : List Int).foldl WriteLoop.IW.see {}).minTs, (([5, 0, 7] : List Int).foldl WriteLoop.IW.see {}).maxTs) = (0, 7) ∧
    inWindow (window ⟨0, 7⟩ none ⟨0, 6⟩) 0 := by decide

/-- **open_lower_bound_complete** (fix f2a8db2, was finding #3): a missing lower bound is the smallest int64, so the
range re-check of `RANGE [:h]` keeps exactly the events with `ts ≤ h` — negative timestamps included — and
`window_complete` (whose range is `rangeOf none (some h)`) covers them. -/
theorem open_lower_bound_complete (h t : Int) (ht : minI64 ≤ t) :
    RangedIter.fitInRange (RangedIter.rangeOf none (some h)).1 (RangedIter.rangeOf none (some h)).2 t = decide (t ≤ h) ∧
    (t ≤ h → inRange ⟨(RangedIter.rangeOf none (some h)).1, (RangedIter.rangeOf none (some h)).2⟩ t) := by
  have f1 : Generated.C02.rangeDefaultLower = minI64 := by decide
  have h1 : Generated.C02.fitLowerInclusive = true := by decide
  have h2 : Generated.C02.fitUpperInclusive = true := by decide
  simp only [RangedIter.rangeOf, Option.getD_none, Option.getD_some, f1, RangedIter.fitInRange, h1, h2, if_true, inRange]
  constructor
  · by_cases a : t ≤ h <;> simp [a, ht]
  · intro a; exact ⟨ht, a⟩

example : RangedIter.fitInRange (RangedIter.rangeOf none (some 6)).1 (RangedIter.rangeOf none (some 6)).2 (-5) = true := by decide

/-- **rebuild_segment_max_exact** (fix db44772, was finding #45): `rebuildIndexInt` starts a segment's maximum at the
smallest int64, so the maximum recorded for a segment is the true maximum of its (int64) timestamps — negative ones
included; the index point written for the segment is attained by a record of the segment. -/
theorem rebuild_segment_max_exact (t : Int) (rest : List Int) (hlow : ∀ x ∈ t :: rest, minI64 ≤ x) :
    let m := (t :: rest).foldl max Generated.C02.rebuildSegmentMaxInit
    (∀ x ∈ t :: rest, x ≤ m) ∧ m ∈ t :: rest := by
  have f1 : Generated.C02.rebuildSegmentMaxInit = minI64 := by decide
  have gen : ∀ (l : List Int) (a : Int), (∀ x ∈ l, x ≤ l.foldl max a) ∧ a ≤ l.foldl max a ∧ (l.foldl max a = a ∨ l.foldl max a ∈ l) := by
    intro l
    induction l with
    | nil => intro a; simp
    | cons y ys ih =>
      intro a
      obtain ⟨i1, i2, i3⟩ := ih (max a y)
      simp only [List.foldl_cons]
      refine ⟨?_, by omega, ?_⟩
      · intro x hx
        cases hx with
        | head => omega
        | tail _ hx' => exact i1 x hx'
      · rcases i3 with i3 | i3
        · by_cases hay : y ≤ a
          · left; rw [i3]; omega
          · right; rw [i3]; simp; left; omega
        · right; exact List.mem_cons_of_mem _ i3
  obtain ⟨g1, g2, g3⟩ := gen (t :: rest) Generated.C02.rebuildSegmentMaxInit
  refine ⟨g1, ?_⟩
  rcases g3 with g3 | g3
  · -- the maximum stayed at the initial value: then t = minI64 is that value
    have ht := g1 t List.mem_cons_self
    have hl := hlow t List.mem_cons_self
    rw [g3, f1] at ht
    have : t = minI64 := by omega
    rw [g3, f1, ← this]; exact List.mem_cons_self
  · exact g3

example : ([-30, -20, -10] : List Int).foldl max Generated.C02.rebuildSegmentMaxInit = -10 := by decide

/-! ## end to end on monotone histories (Points level) -/

/-- the hull `Service.Write`'s `iwrapper` reports for the records `t :: rest` written at positions `a …` is their
`ExactHull` — the hypothesis of the history theorems below is what the write loop delivers (single-chunk `Write` call). -/
theorem exactHull_of_iwrapper (tsOf : Nat → Int) (a : Nat) (t : Int) (rest : List Int)
    (hl : ∀ i (h : i < (t :: rest).length), tsOf (a + i) = (t :: rest)[i]) :
    ChunkHist.ExactHull tsOf a (t :: rest).length (((t :: rest).foldl WriteLoop.IW.see {}).minTs)
      (((t :: rest).foldl WriteLoop.IW.see {}).maxTs) := by
  obtain ⟨h1, h2, h3⟩ := iwrapper_hull_exact t rest
  refine ⟨?_, ?_, ?_⟩
  · intro q hq1 hq2
    have hi : q - a < (t :: rest).length := by omega
    have := hl (q - a) hi
    have e : a + (q - a) = q := by omega
    rw [e] at this
    rw [this]
    exact h1 _ (List.getElem_mem hi)
  · obtain ⟨i, hi, e⟩ := List.getElem_of_mem h3
    exact ⟨a + i, by omega, by omega, by rw [hl i hi, e]⟩
  · obtain ⟨i, hi, e⟩ := List.getElem_of_mem h2
    exact ⟨a + i, by omega, by omega, by rw [hl i hi, e]⟩

/-- **monotone_history_sound**: over ANY history of `OnWrite` notifications of a chunk (skip / big-gap corruption /
append decisions as `cindex.onWrite` takes them, any sparsity constants) whose timestamps are monotone non-decreasing in
stored order and whose batches carry their exact hulls, the chunk's hull and index stay sound. -/
theorem monotone_history_sound {tsOf : Nat → Int} (sparse bigGap : Nat) (bs : List ChunkHist.Batch)
    (hm : Monotone tsOf (ChunkHist.total bs)) (he : ChunkHist.BatchesExact tsOf 0 bs) :
    ChunkHist.Sound tsOf (ChunkHist.run sparse bigGap bs) ∧ (ChunkHist.run sparse bigGap bs).n = ChunkHist.total bs :=
  ChunkHist.run_sound sparse bigGap bs hm he

/-- the window of any range over the index such a history leaves contains every in-range position -/
theorem window_complete_monotone {tsOf : Nat → Int} (sparse bigGap : Nat) (bs : List ChunkHist.Batch)
    (hm : Monotone tsOf (ChunkHist.total bs)) (he : ChunkHist.BatchesExact tsOf 0 bs) (hn : ChunkHist.total bs ≤ maxU32)
    (hlow : ∀ q, q < ChunkHist.total bs → minI64 ≤ tsOf q) (r : TmRange) (p : Nat) (hp : p < ChunkHist.total bs)
    (hr : inRange r (tsOf p)) :
    ∃ h, (ChunkHist.run sparse bigGap bs).hull = some h ∧
      inWindow (window h (ChunkHist.idxOf (ChunkHist.run sparse bigGap bs)) r) p :=
  ChunkHist.window_complete_monotone sparse bigGap bs hm he hn hlow r p hp hr

/-- **range_eq_filter_monotone** — the core of C02 for one chunk, end to end at the Points level: after any monotone
write history (write loop's exact hulls → `onWrite`'s skip/append decisions → `updatePoss` window → `fitInRange` re-check)
the ranged read of the chunk is EXACTLY the filter of its full read, for every range. -/
theorem range_eq_filter_monotone {tsOf : Nat → Int} (sparse bigGap : Nat) (bs : List ChunkHist.Batch)
    (hm : Monotone tsOf (ChunkHist.total bs)) (he : ChunkHist.BatchesExact tsOf 0 bs) (hn : ChunkHist.total bs ≤ maxU32)
    (hlow : ∀ q, q < ChunkHist.total bs → minI64 ≤ tsOf q) (hpos : 0 < ChunkHist.total bs) (r : TmRange) :
    ∃ h, (ChunkHist.run sparse bigGap bs).hull = some h ∧
      chunkRangedRead h (ChunkHist.idxOf (ChunkHist.run sparse bigGap bs)) r tsOf (ChunkHist.total bs) =
        (List.range (ChunkHist.total bs)).filter (fun p => decide (inRange r (tsOf p))) := by
  obtain ⟨hs, hnn⟩ := ChunkHist.run_sound sparse bigGap bs hm he
  obtain ⟨h, hh, hsound, q, hq, hqe⟩ := hs.hull (by omega)
  rw [hnn] at hsound hq
  refine ⟨h, hh, ?_⟩
  apply range_eq_filter_chunk h _ r hsound _ hn (by rw [hqe]; exact hlow q hq)
  intro pts hpts
  unfold ChunkHist.idxOf at hpts
  by_cases hc : (ChunkHist.run sparse bigGap bs).corrupted = true
  · simp [hc] at hpts
  · have hc' : (ChunkHist.run sparse bigGap bs).corrupted = false := by simpa using hc
    simp [hc'] at hpts
    subst hpts
    have := hs.index hc'
    rw [hnn] at this
    exact this

example : (ChunkHist.run 250 5000 [⟨300, 100, 200⟩, ⟨10, 200, 205⟩, ⟨300, 205, 300⟩]).pts = [⟨100, 0⟩, ⟨200, 299⟩, ⟨300, 609⟩] := by decide

/-! ## the whole partition: selector stepping as a fold over chunks -/

/-- **scan_is_fold_over_chunks**: `getPosForward` (first chunk whose status accepts the entry index, `checkPosOrAdvance`),
`Get` (deliver while below the count), `Next` (leave the chunk when the next position is outside the window) and
`advanceChunk` together deliver, chunk after chunk, exactly the positions inside each chunk's window. -/
theorem scan_is_fold_over_chunks (cs : List Selector.ChkSt) : PartScan.scanAll cs = PartScan.journalPositions cs 0 :=
  PartScan.scanAll_eq cs

/-- **range_eq_filter_partition**: for a journal of chunks whose windows are complete (every in-range position of a
chunk lies inside the window `updatePoss` computes for it), the ranged read over the WHOLE partition equals the filter
of the unbounded read — same events, same order. -/
theorem range_eq_filter_partition (ts : Nat → Nat → Int) (cs : List PartScan.ChunkMeta) (r : TmRange)
    (hall : PartScan.AllComplete ts cs 0) :
    PartScan.rangedRead ts cs r = (PartScan.fullPositions cs 0).filter (fun kp => decide (inRange r (ts kp.1 kp.2))) :=
  PartScan.partition_read_eq_filter ts cs r hall

/-- a sound hull and a sound (or missing) index make a chunk's windows complete -/
theorem windowComplete_of_sound {tsOf : Nat → Int} (c : PartScan.ChunkMeta) (hh : HullSound c.hull tsOf c.n)
    (hi : ∀ pts, c.idx = some pts → IndexSound tsOf c.n pts) (hn : c.n ≤ maxU32) (hmin : minI64 ≤ c.hull.minTs) :
    PartScan.WindowComplete tsOf c :=
  fun r p hp hr => window_complete c.hull c.idx r hh hi hn hmin p hp hr

/-- the index state of chunk `k` after its notification history, as the selector sees it -/
def metaOfRun (sparse bigGap : Nat) (bs : List ChunkHist.Batch) : PartScan.ChunkMeta :=
  { n := ChunkHist.total bs, hull := (ChunkHist.run sparse bigGap bs).hull.getD ⟨0, 0⟩,
    idx := ChunkHist.idxOf (ChunkHist.run sparse bigGap bs) }

/-- every chunk `k, k+1, …` of the partition was written by a non-empty monotone history with exact batch hulls -/
def MonotoneChunks (ts : Nat → Nat → Int) : List (List ChunkHist.Batch) → Nat → Prop
  | [], _ => True
  | bs :: rest, k =>
    (Monotone (ts k) (ChunkHist.total bs) ∧ ChunkHist.BatchesExact (ts k) 0 bs ∧ ChunkHist.total bs ≤ maxU32 ∧
      (∀ q, q < ChunkHist.total bs → minI64 ≤ ts k q)) ∧ MonotoneChunks ts rest (k + 1)

theorem allComplete_of_monotoneChunks (sparse bigGap : Nat) (ts : Nat → Nat → Int) :
    ∀ (bss : List (List ChunkHist.Batch)) (k : Nat), MonotoneChunks ts bss k →
      PartScan.AllComplete ts (bss.map (metaOfRun sparse bigGap)) k := by
  intro bss
  induction bss with
  | nil => intro k _; trivial
  | cons bs rest ih =>
    intro k h
    obtain ⟨⟨hm, he, hn, hlow⟩, hrest⟩ := h
    refine ⟨?_, ih (k + 1) hrest⟩
    intro r p hp hr
    obtain ⟨h, hh, hw⟩ := window_complete_monotone sparse bigGap bs hm he hn hlow r p hp hr
    simp only [metaOfRun, hh, Option.getD_some]
    exact hw

/-- **range_eq_filter_partition_monotone**: a partition whose chunks were each written by a monotone history of OnWrite
notifications with exact batch hulls (any batch sizes, any sparsity constants, skip / big-gap / append decisions as in
`cindex.onWrite`): for EVERY range the ranged read over the whole partition — per-chunk windows from hull and index,
selector/iterator stepping chunk by chunk, range re-check — equals the filter of the unbounded read. -/
theorem range_eq_filter_partition_monotone (sparse bigGap : Nat) (ts : Nat → Nat → Int) (bss : List (List ChunkHist.Batch))
    (h : MonotoneChunks ts bss 0) (r : TmRange) :
    PartScan.rangedRead ts (bss.map (metaOfRun sparse bigGap)) r =
      (PartScan.fullPositions (bss.map (metaOfRun sparse bigGap)) 0).filter (fun kp => decide (inRange r (ts kp.1 kp.2))) :=
  range_eq_filter_partition ts _ r (allComplete_of_monotoneChunks sparse bigGap ts bss 0 h)

example : PartScan.scanAll [⟨2, 4, 10⟩, ⟨4294967295, 4294967295, 5⟩, ⟨0, 4294967295, 3⟩] =
    [(0, 2), (0, 3), (0, 4), (2, 0), (2, 1), (2, 2)] := by decide

/-! ## rebuilds: the exclusive-end index, stated in the form it satisfies -/

/-- what the two look-ups need — every index point separates the chunk's positions by its timestamp — follows from
`IndexSound` … -/
theorem lookupSound_of_indexSound {tsOf : Nat → Int} {n : Nat} {pts : List Pt} (hs : IndexSound tsOf n pts) :
    RebuildHist.LookupSound tsOf n pts :=
  RebuildHist.lookupSound_of_indexSound hs

/-- … and suffices for the completeness of every window -/
theorem window_complete_of_lookup {tsOf : Nat → Int} {n : Nat} (h : Hull) (idx : Option (List Pt)) (r : TmRange)
    (hh : HullSound h tsOf n) (hi : ∀ pts, idx = some pts → RebuildHist.LookupSound tsOf n pts) (hn : n ≤ maxU32)
    (hmin : minI64 ≤ h.minTs) (p : Nat) (hp : p < n) (hr : inRange r (tsOf p)) : inWindow (window h idx r) p :=
  RebuildHist.window_complete_of_lookup h idx r hh hi hn hmin p hp hr

/-- **rebuild_sound**: the index `rebuildIndexInt` builds from the first `m` CONFIRMED records of a chunk holding `n`
monotone int64 records (segments of `sparseSpace` records, each recorded at its EXCLUSIVE end position with its maximum,
segment maximum starting at the regenerated `rebuildSegmentMaxInit` = MinInt64) is `LookupSound` over all `n` records.
It does not satisfy `IndexSound`'s closed-right claim (see the example in `Proofs/RebuildHist.lean`). -/
theorem rebuild_sound {tsOf : Nat → Int} {n m : Nat} (hmono : Monotone tsOf n) (hmn : m ≤ n)
    (hlow : ∀ q, q < n → minI64 ≤ tsOf q) (hhi : ∀ q, q < n → tsOf q ≤ RebuildHist.maxI64) :
    RebuildHist.LookupSound tsOf n
      (RebuildHist.rebuildPts Generated.C02.sparseSpace Generated.C02.rebuildSegmentMaxInit ((List.range m).map tsOf)) := by
  have f : Generated.C02.rebuildSegmentMaxInit = minI64 := by decide
  exact RebuildHist.rebuild_sound _ hmono hmn (by rw [f]; exact hlow) hhi

/-- **window_complete_with_rebuilds**: one chunk, any history of OnWrite notifications (hulls as the write loop reports
them, `RollHull`: exact, or with the call's over-wide minimum on the first notification of a chunk) AND index rebuilds of
any confirmed prefix, on monotone int64 data, with the constants of the code: every window is complete. -/
theorem window_complete_with_rebuilds {tsOf : Nat → Int} (ops : List RebuildHist.Op)
    (hm : Monotone tsOf (RebuildHist.totalOps ops)) (he : RebuildHist.OpsExact tsOf 0 ops)
    (hn : RebuildHist.totalOps ops ≤ maxU32) (hlow : ∀ q, q < RebuildHist.totalOps ops → minI64 ≤ tsOf q)
    (hhi : ∀ q, q < RebuildHist.totalOps ops → tsOf q ≤ RebuildHist.maxI64) (r : TmRange) (p : Nat)
    (hp : p < RebuildHist.totalOps ops) (hr : inRange r (tsOf p)) :
    ∃ h, (RebuildHist.runOps Generated.C02.sparseSpace (Generated.C02.sparseSpace * Generated.C02.bigGapFactor)
          Generated.C02.rebuildSegmentMaxInit tsOf ops).hull = some h ∧
      inWindow (window h (ChunkHist.idxOf (RebuildHist.runOps Generated.C02.sparseSpace
        (Generated.C02.sparseSpace * Generated.C02.bigGapFactor) Generated.C02.rebuildSegmentMaxInit tsOf ops)) r) p :=
  RebuildHist.window_complete_with_rebuilds_code ops hm he hn hlow hhi r p hp hr

/-- the index state of a chunk after its history of writes and rebuilds, as the selector sees it -/
def metaOfOps (tsOf : Nat → Int) (ops : List RebuildHist.Op) : PartScan.ChunkMeta :=
  let c := RebuildHist.runOps Generated.C02.sparseSpace (Generated.C02.sparseSpace * Generated.C02.bigGapFactor)
    Generated.C02.rebuildSegmentMaxInit tsOf ops
  { n := RebuildHist.totalOps ops, hull := c.hull.getD ⟨0, 0⟩, idx := ChunkHist.idxOf c }

/-- the chunks `k, k+1, …` of the partition: each written and rebuilt by a history over monotone int64 data -/
def MonotoneChunkOps (ts : Nat → Nat → Int) : List (List RebuildHist.Op) → Nat → Prop
  | [], _ => True
  | ops :: rest, k =>
    (Monotone (ts k) (RebuildHist.totalOps ops) ∧ RebuildHist.OpsExact (ts k) 0 ops ∧ RebuildHist.totalOps ops ≤ maxU32 ∧
      (∀ q, q < RebuildHist.totalOps ops → minI64 ≤ ts k q) ∧
      (∀ q, q < RebuildHist.totalOps ops → ts k q ≤ RebuildHist.maxI64)) ∧ MonotoneChunkOps ts rest (k + 1)

/-- the chunk metas of a partition whose chunk `k + i` has the history `opss[i]` -/
def metasOfOps (ts : Nat → Nat → Int) : List (List RebuildHist.Op) → Nat → List PartScan.ChunkMeta
  | [], _ => []
  | ops :: rest, k => metaOfOps (ts k) ops :: metasOfOps ts rest (k + 1)

theorem allComplete_of_monotoneChunkOps (ts : Nat → Nat → Int) : ∀ (opss : List (List RebuildHist.Op)) (k : Nat),
    MonotoneChunkOps ts opss k → PartScan.AllComplete ts (metasOfOps ts opss k) k := by
  intro opss
  induction opss with
  | nil => intro k _; trivial
  | cons ops rest ih =>
    intro k h
    obtain ⟨⟨hm, he, hn, hlow, hhi⟩, hrest⟩ := h
    refine ⟨?_, ih (k + 1) hrest⟩
    intro r p hp hr
    obtain ⟨h, hh, hw⟩ := window_complete_with_rebuilds ops hm he hn hlow hhi r p hp hr
    simp only [metaOfOps, hh, Option.getD_some]
    exact hw

/-- **range_eq_filter_partition_with_rebuilds**: whole partition, every chunk with any history of writes and rebuilds
over monotone int64 data: ranged read = filter of the unbounded read, for every range. -/
theorem range_eq_filter_partition_with_rebuilds (ts : Nat → Nat → Int) (opss : List (List RebuildHist.Op))
    (h : MonotoneChunkOps ts opss 0) (r : TmRange) :
    PartScan.rangedRead ts (metasOfOps ts opss 0) r =
      (PartScan.fullPositions (metasOfOps ts opss 0) 0).filter (fun kp => decide (inRange r (ts kp.1 kp.2))) :=
  range_eq_filter_partition ts _ r (allComplete_of_monotoneChunkOps ts opss 0 h)

/-! ## index entries older than their chunk (snapshot entries after a crash: fixes a2ca477 + 7ea0278) -/

/-- **stale_entry_relight_sound**: when `syncChunks` finds a chunk with `m` confirmed records but an index entry READ
FROM THE SNAPSHOT FILE that accounts for fewer (the snapshot was written before a crash; since fix 7ea0278 entries of a
running server are never dropped — regenerated fact `staleDropOnlyForSnapshotEntries`), it drops the entry and
`lightFill` re-derives it from the first and last confirmed record. On monotone int64 data the re-derived entry is sound for all `m` records, whatever the old entry was. -/
theorem stale_entry_relight_sound {tsOf : Nat → Int} {c : ChunkHist.ChunkIdx} (m : Nat) (hs : RebuildHist.SoundL tsOf c)
    (hm : Monotone tsOf m) (hlow : ∀ q, q < m → minI64 ≤ tsOf q) :
    RebuildHist.SoundL tsOf (RebuildHist.relight tsOf m c) :=
  RebuildHist.relight_sound m hs hm hlow

/-- **stale_snapshot_entry_window_complete**: after the re-derivation every range gets a complete window over all `m`
confirmed records: no readable in-range event is hidden behind a hull taken before the crash (C07's F06, seen from the
ranged read). It does NOT apply to finding #46: there the entry is live, not loaded, and is kept. -/
theorem stale_snapshot_entry_window_complete {tsOf : Nat → Int} {c : ChunkHist.ChunkIdx} (m : Nat)
    (hs : RebuildHist.SoundL tsOf c) (hstale : c.n < m) (hm : Monotone tsOf m) (hlow : ∀ q, q < m → minI64 ≤ tsOf q)
    (hn : m ≤ maxU32) (r : TmRange) (p : Nat) (hp : p < m) (hr : inRange r (tsOf p)) :
    ∃ h, (RebuildHist.relight tsOf m c).hull = some h ∧
      inWindow (window h (ChunkHist.idxOf (RebuildHist.relight tsOf m c)) r) p := by
  have hsl := RebuildHist.relight_sound m hs hm hlow
  have hnn : (RebuildHist.relight tsOf m c).n = m := by rw [RebuildHist.relight_n]; omega
  obtain ⟨h, hh, hsound, hmin⟩ := hsl.hull_pos (by omega)
  rw [hnn] at hsound
  refine ⟨h, hh, ?_⟩
  apply window_complete_of_lookup h _ r hsound ?_ hn hmin p hp hr
  intro pts hpts
  have hc : (RebuildHist.relight tsOf m c).corrupted = false := by
    unfold RebuildHist.relight; rw [if_neg (by omega)]
  unfold ChunkHist.idxOf at hpts
  rw [hc] at hpts
  simp only [Bool.false_eq_true, if_false, Option.some.injEq] at hpts
  rw [← hpts]
  have := hsl.lookup hc
  rw [hnn] at this
  exact this

/-- **late_notification_sound**: a notification for positions the tree-less entry already accounts for (`a ≤ n`: after a
re-derivation or after a rebuild that saw nothing) leaves a sound entry; every later write / rebuild then preserves soundness
(`RebuildHist.runOpsFrom_sound`). -/
theorem late_notification_sound {tsOf : Nat → Int} {c : ChunkHist.ChunkIdx} (bigGap a k : Nat) (mn mx : Int)
    (hs : RebuildHist.SoundL tsOf c) (hk : 0 < k) (ha : a ≤ c.n) (hm : Monotone tsOf (max c.n (a + k)))
    (he : RebuildHist.RollHull tsOf a k mn mx) :
    RebuildHist.SoundL tsOf (RebuildHist.lateNotify bigGap c a k mn mx) :=
  RebuildHist.lateNotify_sound bigGap a k mn mx hs hk ha hm he

/-- 10 records accounted for by the snapshot entry, 20 confirmed in the chunk: the entry is re-derived as hull [100, 119]
without a tree; a notification for positions 10…19 then starts a tree at position 10 -/
example : (RebuildHist.relight (fun q => 100 + q) 20
      (RebuildHist.runOps 250 5000 minI64 (fun q => 100 + q) [.write 10 100 109])).hull = some ⟨100, 119⟩ ∧
    (RebuildHist.lateNotify 5000 (RebuildHist.relight (fun q => 100 + q) 20
      (RebuildHist.runOps 250 5000 minI64 (fun q => 100 + q) [.write 10 100 109])) 10 10 110 119).pts = [⟨110, 10⟩, ⟨119, 19⟩] := by
  decide

/-! ## the repaired findings #46 and #53 as obligations on the regenerated facts -/

/-- **unknown_tail_window_open** (fix a7caf30, was finding #46): when the journal has confirmed more records of a chunk
than the time index has been told about (`count > Recs`), `updatePoss` leaves the WHOLE chunk open — whatever hull and
index say — so no readable record can be hidden behind a hull or an index that does not account for it yet, for any data
(monotone or not) and for held cursors as well (the cached status is a superset). -/
theorem unknown_tail_window_open (s : RangedIter.St) (cid : Nat) (st : Selector.ChkSt) (c : CIndex.Chk)
    (hc : CIndex.findChk s.cidx (cid / 10) = some c) (hu : st.count > c.recs) (p : Nat) (hp : p ≤ maxU32) :
    inWindow ((RangedIter.updatePoss s cid st).1.minPos, (RangedIter.updatePoss s cid st).1.maxPos) p := by
  have f : Generated.C02.updatePossOpensUnknownTail = true := by decide
  simp only [RangedIter.updatePoss, hc, f, Bool.true_and, decide_eq_true hu, if_true]
  exact ⟨Nat.zero_le _, hp⟩

/-- (fix d4bea54, was finding #53) `syncChunks` keeps a chunk that was created after the caller's chunk list was taken:
the reachable state "the newest chunk's entry forgotten, re-created from one batch" of the forget-race schedule no longer
exists (driver op `rw.forgetchunk` is the identity; regression schedule `runForgetRace`). -/
theorem syncChunks_keeps_newer_chunks : Generated.C02.syncChunksKeepsNewerChunks = true := by decide

/-- (fix 008ef8e) at the end of the last chunk the ranged iterator's position is where its chunk iterator stopped -/
theorem advanceChunk_keeps_iterator_position : Generated.C02.advanceChunkKeepsIteratorPos = true := by decide

/-! ## the repaired findings #85 and #86 -/

/-- the four notifications of `cex_reordered_notification` — A = 0…299, C = 600…899, then B = 300…599 LATE, then
D = 900…1199, ts = 1000 + position — through the chunk-index model `CIndex.onWrite` -/
def reorderRun : CIndex.St :=
  let w (s : CIndex.St) (a b : Nat) : CIndex.St := (CIndex.onWrite s a b 1 (1000 + a) (1000 + b)).1
  w (w (w (w {} 0 299) 600 899) 300 599) 900 1199

/-- **late_notification_is_skipped** (fix f6d29cf, was finding #85): obligations on the regenerated facts — `onWrite` never
lowers `Recs` and leaves the tree alone for a notification whose last record is not beyond the last indexed one — and the
former counterexample on the other branch: the late notification of B changes nothing (`Recs` stays 900, the tree's last
point stays C's (1899, 899)), after D the index is the one of the history "A, C, D with B skipped", and
`RANGE [1600:1610]` gets a window that contains 600…610. -/
theorem late_notification_is_skipped :
    Generated.C02.onWriteSkipsLateNotification = true ∧ Generated.C02.onWriteRecsNeverDecrease = true ∧
    CIndex.points reorderRun 1 = "1000:0,1299:299,1899:899,2199:1199" ∧
    (CIndex.findChk reorderRun 1).map (fun c => (c.recs, c.lastRec, c.minTs, c.maxTs)) = some (1200, 1199, 1000, 2199) ∧
    window ⟨1000, 2199⟩ (some [⟨1000, 0⟩, ⟨1299, 299⟩, ⟨1899, 899⟩, ⟨2199, 1199⟩]) ⟨1600, 1610⟩ = (299, 899) := by
  refine ⟨by decide, by decide, by decide, by decide, by decide⟩

/-- **late_notification_skip_sound** — why ignoring the late notification is right, for every monotone stream: the index
that was sound for the `a` records in front of a batch whose notification is still on the way (positions `a … it.p0.idx − 1`,
stored but not announced) and then receives the NEXT batch `it`, is sound for every stored record up to `it.p1.idx` — the
unannounced batch is covered like a batch the sparse index skipped. The repaired `onWrite` keeps exactly this index when the
late notification arrives, so `window_complete` applies to it. -/
theorem late_notification_skip_sound {tsOf : Nat → Int} {a : Nat} {pts : List Pt} (it : Iv) (hs : IndexSound tsOf a pts)
    (hab : a ≤ it.p0.idx) (hle : it.p0.idx ≤ it.p1.idx) (hm : Monotone tsOf (it.p1.idx + 1)) (hb : BatchIn it tsOf)
    (hlast : ∀ q, a ≤ q → q < it.p0.idx → (lastD pts).ts ≤ tsOf q) (he : pts = [] → it.p0.idx = 0) :
    IndexSound tsOf (it.p1.idx + 1) (add pts it) :=
  addInterval_preserves it (skip_preserves hs hab hlast) rfl hle rfl hb
    (gapCovered_of_monotone pts it hm hb hle (Nat.lt_succ_self _)) he

/-- a journal of one chunk with 5 records (ts = 100 + position) the index knows as "could not be read": hull [MaxInt64, 0],
`Recs = 0` (what a failed `lightFill` — or an empty chunk — leaves) -/
def unfilledSt : RangedIter.St :=
  { cks := #[⟨10, 5⟩], tss := #[#[100, 101, 102, 103, 104]],
    cidx := { chunks := [{ id := 1, minTs := CIndex.maxI64, maxTs := 0 }] } }

/-- **unfilled_entry_is_refilled** (fix 719d554, was finding #86): obligation on the regenerated fact, and the former
damage on the other branch: the next `syncChunks` gives the known-but-unfilled entry the hull of the chunk's first and last
record and `Recs = count` (the entry `stale_entry_relight_sound` is about: sound on monotone data); a write that follows
EXTENDS that hull instead of replacing it by the batch's own (fourth conjunct: what the write did to the unfilled entry).
An entry that accounts for records (`Recs > 0`) is untouched. -/
theorem unfilled_entry_is_refilled :
    Generated.C02.syncChunksRefillsUnfilledEntries = true ∧
    ((RangedIter.syncChunks unfilledSt).cidx.chunks.map (fun c => (c.id, c.minTs, c.maxTs, c.recs))) = [(1, 100, 104, 5)] ∧
    ((CIndex.onWrite (RangedIter.syncChunks unfilledSt).cidx 5 9 1 2000 2004).1.chunks.map
        (fun c => (c.minTs, c.maxTs, c.recs))) = [(100, 2004, 10)] ∧
    ((CIndex.onWrite unfilledSt.cidx 5 9 1 2000 2004).1.chunks.map
        (fun c => (c.minTs, c.maxTs, c.recs))) = [(2000, 2004, 10)] ∧
    ((RangedIter.syncChunks { unfilledSt with cidx := { chunks := [{ id := 1, minTs := -5, maxTs := -1, recs := 5 }] } }).cidx.chunks.map
        (fun c => (c.minTs, c.maxTs, c.recs))) = [(-5, -1, 5)] := by
  refine ⟨by decide, by decide, by decide, by decide, by decide⟩

/-! ## the headline: every monotone history of Write calls, whole partition -/

/-- **range_eq_filter_calls** — C02 on monotone data, end to end at the Points level. For EVERY history of
`Service.Write` calls on an empty partition — any batch sizes, any split of a call over chunks (roll-over: one
notification per chunk with the hull `iwrapper` accumulated over the call so far; the over-wide minimum of later chunks
included), any sparsity constants — whose records are monotone non-decreasing int64 timestamps in stored order:
the ranged read over the whole partition (per-chunk windows from hull and index, selector/iterator stepping chunk by
chunk, `fitInRange` re-check) equals the filter of the unbounded read, for every range `r`. -/
theorem range_eq_filter_calls (sparse bigGap : Nat) (calls : List (List PartHist.Piece))
    (hok : PartHist.CallsOK sparse bigGap [] calls) (hsorted : (PartHist.allTs calls).Pairwise (· ≤ ·))
    (hlow : ∀ t ∈ PartHist.allTs calls, minI64 ≤ t)
    (hsize : ∀ c ∈ PartHist.runCalls sparse bigGap calls, c.tss.length ≤ maxU32) (r : TmRange) :
    PartScan.rangedRead (PartHist.partTs (PartHist.runCalls sparse bigGap calls))
        ((PartHist.runCalls sparse bigGap calls).map PartHist.metaOf) r =
      (PartScan.fullPositions ((PartHist.runCalls sparse bigGap calls).map PartHist.metaOf) 0).filter
        (fun kp => decide (inRange r (PartHist.partTs (PartHist.runCalls sparse bigGap calls) kp.1 kp.2))) :=
  PartHist.range_eq_filter_calls sparse bigGap calls hok hsorted hlow hsize r

/-- nothing is lost or reordered by the write side: the chunks hold the history's records in order -/
theorem calls_stored_in_order (sparse bigGap : Nat) (calls : List (List PartHist.Piece))
    (hok : PartHist.CallsOK sparse bigGap [] calls) (hsorted : (PartHist.allTs calls).Pairwise (· ≤ ·))
    (hlow : ∀ t ∈ PartHist.allTs calls, minI64 ≤ t) :
    ((PartHist.runCalls sparse bigGap calls).map (·.tss)).flatten = PartHist.allTs calls :=
  PartHist.allTs_eq sparse bigGap calls hok hsorted hlow

/-! ## the block tree answers like the flat point list -/

/-- **tree_eq_points_level0**: one level-0 block. `block.addInterval` (all three cases) is `Points.add` on the block's
records — or `errFullBlock`, exactly when the block holds `maxRecs` records and the append case applies — and
`grEq`/`less` are `Points.grEqPos`/`Points.lessPos` (incl. the `errAllMatches` answers). -/
theorem tree_eq_points_level0 (maxRecs d : Nat) (recs : List Pt) (it : Iv) (hlen : recs.length ≠ 1) :
    (ITree.blockAdd maxRecs (d+1) (.leaf recs) it =
      if recs.length = maxRecs ∧ Points.cntLE recs it.p0.ts = recs.length then (.leaf recs, Points.lastD recs, some .full)
      else (.leaf (Points.add recs it), Points.lastD (Points.add recs it), none)) ∧
    (∀ t, (recs ≠ [] → (ITree.grEq (.leaf recs) t = none ↔ Points.cntLE recs t = 0)) ∧
          (∀ r, ITree.grEq (.leaf recs) t = some r → r.idx = Points.grEqPos recs t) ∧
          (ITree.less (.leaf recs) t).map (·.idx) = Points.lessPos recs t ∧
          (ITree.less (.leaf recs) t = none ↔ Points.cntLE recs t = recs.length)) :=
  ITree.tree_eq_points_level0 maxRecs d recs it hlen

/-- **tree_append_refines**: at ANY depth, for a well-formed tree and an interval that starts at or above every indexed
timestamp (what monotone streams produce, `append_case_of_monotone`), `ckindex.addInterval` never fails, keeps the tree
well-formed and extends its level-0 point list exactly like `Points.add` (new leaves start with the last record of the
full leaf: one new point). `maxRecs` is the code's records-per-block (41, regenerated). -/
theorem tree_append_refines (t : ITree.T) (it : Iv) (hwf : ITree.WF ITree.maxRecs t) (hao : ITree.AppendOnly t it)
    (h01 : it.p0.ts ≤ it.p1.ts) :
    ∃ t', ITree.add ITree.maxRecs t it = some t' ∧ ITree.WF ITree.maxRecs t' ∧
      ITree.points t' = Points.add (ITree.points t) it :=
  ITree.tree_append_refines_add ITree.maxRecs (by decide) t it hwf hao h01

/-- whole append-only streams from the empty tree: the tree's points are the flat fold -/
theorem tree_append_stream (its : List Iv) (hs : ITree.Stream [] its) :
    ∃ t', ITree.addAll ITree.maxRecs (.leaf []) its = some t' ∧ ITree.WF ITree.maxRecs t' ∧
      ITree.points t' = its.foldl Points.add [] := by
  have e : ITree.points (.leaf []) = [] := by decide
  have := ITree.tree_append_stream ITree.maxRecs (by decide) its (.leaf []) (Or.inl rfl) (by rw [e]; exact hs)
  rw [e] at this
  exact this

/-- **tree_lookup_eq_points**: on a well-formed tree of any depth `grEq`/`less` descend to exactly the answers of the
flat list (the LAST point with `ts ≤ t` / the FIRST with `ts > t`), equal timestamps across leaf boundaries included. -/
theorem tree_lookup_eq_points (t : ITree.T) (ts : Int) (hwf : ITree.WF ITree.maxRecs t) :
    (t ≠ .leaf [] → (ITree.grEq t ts = none ↔ Points.cntLE (ITree.points t) ts = 0)) ∧
    (∀ r, ITree.grEq t ts = some r → r.idx = Points.grEqPos (ITree.points t) ts) ∧
    (ITree.less t ts).map (·.idx) = Points.lessPos (ITree.points t) ts ∧
    (ITree.less t ts = none ↔ Points.cntLE (ITree.points t) ts = (ITree.points t).length) :=
  ITree.tree_lookup_eq_points ITree.maxRecs t ts hwf

/-! ## counterexample for the open finding #4 -/

/-- #4 — a batch the sparse index skipped lies below the indexed interval: points (100,0),(200,299) for records 0…299,
records 300…309 carry 50…59; `RANGE [55:55]` gets the window [0, 0] and position 305 (ts 55) is hidden.
`GapCovered`'s counterpart for skipped writes (`skip_preserves`' hypothesis) fails here. -/
def cexSkipPts : List Pt := [⟨100, 0⟩, ⟨200, 299⟩]
def cexSkipTs (q : Nat) : Int := if q < 100 then 100 + q else if q < 300 then 200 else 50 + (q - 300)
theorem cex_skipped_batch_below :
    cexSkipTs 305 = 55 ∧ window ⟨50, 200⟩ (some cexSkipPts) ⟨55, 55⟩ = (0, 0) ∧
    ¬ inWindow (window ⟨50, 200⟩ (some cexSkipPts) ⟨55, 55⟩) 305 ∧ ¬ ((lastD cexSkipPts).ts ≤ cexSkipTs 305) := by
  decide

/-- Finding #85 (fixed by f6d29cf — `late_notification_is_skipped`; this is what `add` makes of a late interval, which the
repaired `onWrite` no longer hands to it): MONOTONE data, but the index notifications of two batches arrive in the other order
than the batches were stored (concurrent writers; `Service.Write` notifies after the chunk's write lock is gone). Batch A =
records 0…299 (ts 1000 + q), batch B = 300…599, batch C = 600…899, D = 900…1199 — all with ts = 1000 + q. Notifications
arrive A, C, B, D: B's interval is merged behind C's point and the last point becomes (C's maximum, B's LAST RECORD);
`RANGE [1600:1610]` (records 600…610 of batch C) then gets a window that ends at position 599. With the notifications in
stored order the same range gets a window that contains 600…610 (`window_complete` applies: the index is sound). -/
def cexReorderTs (q : Nat) : Int := 1000 + q
def cexReorderIv (a b : Nat) : Iv := ⟨⟨cexReorderTs a, a⟩, ⟨cexReorderTs b, b⟩⟩
def cexReorderLate : List Pt :=
  add (add (add (add [] (cexReorderIv 0 299)) (cexReorderIv 600 899)) (cexReorderIv 300 599)) (cexReorderIv 900 1199)
def cexReorderInOrder : List Pt :=
  add (add (add (add [] (cexReorderIv 0 299)) (cexReorderIv 300 599)) (cexReorderIv 600 899)) (cexReorderIv 900 1199)
theorem cex_reordered_notification :
    add (add (add [] (cexReorderIv 0 299)) (cexReorderIv 600 899)) (cexReorderIv 300 599) = [⟨1000, 0⟩, ⟨1299, 299⟩, ⟨1899, 599⟩] ∧
    cexReorderLate = [⟨1000, 0⟩, ⟨1299, 299⟩, ⟨1899, 599⟩, ⟨2199, 1199⟩] ∧
    window ⟨1000, 2199⟩ (some cexReorderLate) ⟨1600, 1610⟩ = (299, 599) ∧
    (∀ q, 600 ≤ q → q ≤ 610 → ¬ inWindow (window ⟨1000, 2199⟩ (some cexReorderLate) ⟨1600, 1610⟩) q) ∧
    inWindow (window ⟨1000, 2199⟩ (some cexReorderInOrder) ⟨1600, 1610⟩) 600 ∧
    inWindow (window ⟨1000, 2199⟩ (some cexReorderInOrder) ⟨1600, 1610⟩) 610 := by
  refine ⟨by decide, by decide, by decide, ?_, by decide, by decide⟩
  intro q h1 _ h
  have hw : window ⟨1000, 2199⟩ (some cexReorderLate) ⟨1600, 1610⟩ = (299, 599) := by decide
  rw [hw] at h
  have := h.2
  simp only at this
  omega

/-! ## full statements that are only partly proved -/

/-- Top level, full strength: for EVERY history of writes and rebuilds the ranged read of a partition equals the
filtered full read. False as it stands (findings #4, #24, #46); proved per chunk under `HullSound`/`IndexSound`
(`range_eq_filter_chunk`), and end to end for monotone histories at the Points level (`range_eq_filter_monotone`). What
remains tested only (IMPL = MODEL = SPEC on every monotone history): that the block tree answers like the flat point list,
the chunk roll-over of the write loop (one `OnWrite` per chunk with the exact hull of the call so far), index rebuilds,
and the stepping of `JIterator`/`chkSelector` inside the windows. -/
def range_eq_filter_full : Prop :=
  ∀ (maxChunk : Nat) (batches : List (List Int)) (lo hi : Option Int),
    let (wj, cidx) := batches.foldl (fun (acc : WriteLoop.J × CIndex.St) b =>
        let (j, c, _, _) := RangedIter.write acc.1 acc.2 (b.map (fun t => (⟨t, 16⟩ : WriteLoop.Rec)))
        (j, c)) (({ maxSize := maxChunk } : WriteLoop.J), ({} : CIndex.St))
    let all := batches.flatten
    let (mn, mx) := RangedIter.rangeOf lo hi
    let tss := (wj.chunks.foldl (fun (acc : Array (Array Int) × Nat) c => (acc.1.push ((all.toArray).extract acc.2 (acc.2 + c.cnt)), acc.2 + c.cnt)) (#[], 0)).1
    let st : RangedIter.St := { cks := (wj.chunks.map (fun c => (⟨c.id * 10, c.cnt⟩ : Selector.JChunk))).toArray, cidx := cidx, tss := tss, rmin := mn, rmax := mx }
    ((RangedIter.scan st 0 (all.length + 2)).2.toList.map (RangedIter.tsAt st)) =
      all.filter (fun t => (match lo with | some l => decide (l ≤ t) | none => true) && (match hi with | some h => decide (t ≤ h) | none => true))

end Logrange.Props.C02
