import Logrange.Proofs.Points
import Logrange.Model.RangedIter
/-!
# C02 — Time-range queries return exactly the events whose timestamp is in range

Property theorems only (lemmas: `Logrange/Proofs/Points.lean`; models: `Logrange/Model/{Points,IdxTree,CIndex,WriteLoop,
Selector,RangedIter}.lean`). The theorems are about the abstract sparse index `Points` of one chunk — the list of
level-0 records of the chunk's block tree — and about the window `chkSelector.updatePoss` derives from it; the block tree
(`IdxTree`) and the whole pipeline are tied to `Points` and to the code by the correspondence harness (`cmd/c02`).
Every theorem here is an obligation of the C02 check; the audit lists their axioms.

Regenerated facts the statements depend on (`Logrange.Generated.C02`): `lowerAskMinusOne` (the lower bound handed to
the index is `MinTs − 1`, fix 94ffdf8), `fitLower/UpperInclusive` (`fitInRange` uses `>=` / `<=`),
`rangeDefaultLower` (0 in the code: finding #3), `iwrapperMin/MaxZeroSentinel` (finding #2).
-/
namespace Logrange.Props.C02
open Logrange Logrange.Points

/-! ## soundness of the two index look-ups -/

/-- `less` answers an upper position bound: every position beyond it (inside the chunk) has a timestamp above `t`. -/
theorem less_is_upper_bound {tsOf : Nat → Int} {n : Nat} {pts : List Pt} (hs : IndexSound tsOf n pts) (t : Int) (m : Nat)
    (hm : lessPos pts t = some m) (q : Nat) (hq : m < q) (hqn : q < n) : t < tsOf q :=
  Points.less_is_upper_bound hs t m hm q hq hqn

/-- `grEq` as the code has it (the LAST point with `ts ≤ t`): every position before the answer has `ts ≤ t`. -/
theorem grEq_below {tsOf : Nat → Int} {n : Nat} {pts : List Pt} (hs : IndexSound tsOf n pts) (t : Int) (q : Nat)
    (hq : q < grEqPos pts t) : tsOf q ≤ t :=
  Points.grEq_below hs t q hq

/-- what fix 94ffdf8 establishes: asked for `t − 1`, the answer is at or before every record with `ts ≥ t`
(including the records whose timestamp EQUALS the bound). -/
theorem grEq_minus_one_is_lower_bound {tsOf : Nat → Int} {n : Nat} {pts : List Pt} (hs : IndexSound tsOf n pts) (t : Int)
    (q : Nat) (hq : t ≤ tsOf q) : grEqPos pts (t - 1) ≤ q :=
  Points.grEq_minus_one_is_lower_bound hs t q hq

/-! ## the fixed finding #1 as a counterexample for the un-fixed call -/

def cexPts : List Pt := [⟨100, 0⟩, ⟨200, 299⟩, ⟨200, 599⟩, ⟨300, 899⟩]
def cexTs (q : Nat) : Int := if q = 0 then 100 else if q ≤ 599 then 200 else 300

theorem cexPts_sound : IndexSound cexTs 900 cexPts := by
  refine ⟨by decide, by simp [cexPts, SortedTs], by simp [cexPts, SortedIdx], ?_, by simp [cexPts, HeadOk, cexTs], ?_, by decide⟩
  · simp only [cexPts, Claims, cexTs, and_true]
    refine ⟨?_, ?_, ?_⟩ <;> intro q h1 h2 <;> (repeat' split) <;> omega
  · intro _ q h1 h2
    simp [cexPts, lastD] at h1
    omega

/-- asked for the bound itself the index answers 599 although record 400 carries the bound's timestamp;
asked for `bound − 1` it answers 0 -/
theorem cex_equal_bound : cexTs 400 = 200 ∧ grEqPos cexPts 200 = 599 ∧ ¬ (grEqPos cexPts 200 ≤ 400) ∧ grEqPos cexPts (200 - 1) ≤ 400 := by
  decide

/-- the window of the un-fixed `updatePoss` hides position 400 for `RANGE [200:250]`; the current one keeps it -/
theorem cex_window_unfixed :
    inRange ⟨200, 250⟩ (cexTs 400) ∧ ¬ inWindow (windowUnfixed ⟨100, 300⟩ (some cexPts) ⟨200, 250⟩) 400 ∧
    inWindow (window ⟨100, 300⟩ (some cexPts) ⟨200, 250⟩) 400 := by
  decide

/-! ## the index may only skip events outside the range -/

/-- **window_complete**: with a sound hull and a sound (or missing: `idx = none`) index, every position whose timestamp
is in the range lies inside the window `updatePoss` computes — for every range, including bounds equal to stored
timestamps and the int64 extremes. -/
theorem window_complete {tsOf : Nat → Int} {n : Nat} (h : Hull) (idx : Option (List Pt)) (r : TmRange)
    (hh : HullSound h tsOf n) (hi : ∀ pts, idx = some pts → IndexSound tsOf n pts) (hn : n ≤ maxU32)
    (hmin : minI64 ≤ h.minTs) (p : Nat) (hp : p < n) (hr : inRange r (tsOf p)) : inWindow (window h idx r) p :=
  Points.window_complete h idx r hh hi hn hmin p hp hr

theorem cexHull_sound : HullSound ⟨100, 300⟩ cexTs 900 := by
  intro p _; unfold cexTs; constructor <;> (repeat' split) <;> simp

example : inWindow (window ⟨100, 300⟩ (some cexPts) ⟨200, 200⟩) 150 :=
  window_complete (tsOf := cexTs) (n := 900) ⟨100, 300⟩ (some cexPts) ⟨200, 200⟩ cexHull_sound
    (by intro pts h; cases h; exact cexPts_sound) (by decide) (by decide) 150 (by decide) (by decide)

/-! ## the range re-check of `fiterator` -/

/-- `fiterator.Get`/`Next` over a stream of timestamps: events failing `fitInRange` are skipped -/
def fiterAll (rmin rmax : Int) : List Int → List Int
  | [] => []
  | t :: rest => if RangedIter.fitInRange rmin rmax t then t :: fiterAll rmin rmax rest else fiterAll rmin rmax rest

/-- **fiter_refines_filter**: the filtering iterator delivers exactly the events with `rmin ≤ ts ≤ rmax`, in order
(both comparisons inclusive — regenerated facts `fitLowerInclusive`, `fitUpperInclusive`). -/
theorem fiter_refines_filter (rmin rmax : Int) (l : List Int) :
    fiterAll rmin rmax l = l.filter (fun t => decide (inRange ⟨rmin, rmax⟩ t)) := by
  have h1 : Generated.C02.fitLowerInclusive = true := by decide
  have h2 : Generated.C02.fitUpperInclusive = true := by decide
  induction l with
  | nil => rfl
  | cons t rest ih =>
    simp only [fiterAll, List.filter, ih, RangedIter.fitInRange, h1, h2, if_true, inRange]
    by_cases a : rmin ≤ t <;> by_cases b : t ≤ rmax <;> simp [a, b]

/-! ## one chunk: ranged read = filtered full read -/

/-- the positions a ranged read of one chunk visits (those inside the window), then the `fitInRange` re-check -/
def chunkRangedRead (h : Hull) (idx : Option (List Pt)) (r : TmRange) (tsOf : Nat → Int) (n : Nat) : List Nat :=
  ((List.range n).filter (fun p => decide (inWindow (window h idx r) p))).filter
    (fun p => RangedIter.fitInRange r.minTs r.maxTs (tsOf p))

/-- **range_eq_filter (one chunk)**: with a sound hull and a sound or missing index the ranged read of a chunk is
exactly the filter of the full read. -/
theorem range_eq_filter_chunk {tsOf : Nat → Int} {n : Nat} (h : Hull) (idx : Option (List Pt)) (r : TmRange)
    (hh : HullSound h tsOf n) (hi : ∀ pts, idx = some pts → IndexSound tsOf n pts) (hn : n ≤ maxU32)
    (hmin : minI64 ≤ h.minTs) :
    chunkRangedRead h idx r tsOf n = (List.range n).filter (fun p => decide (inRange r (tsOf p))) := by
  have h1 : Generated.C02.fitLowerInclusive = true := by decide
  have h2 : Generated.C02.fitUpperInclusive = true := by decide
  unfold chunkRangedRead
  rw [List.filter_filter]
  apply List.filter_congr
  intro p hp
  have hpn : p < n := by simpa using hp
  by_cases hr : inRange r (tsOf p)
  · have hw := window_complete h idx r hh hi hn hmin p hpn hr
    have hr' := hr
    unfold inRange at hr'
    simp [RangedIter.fitInRange, h1, h2, hw, hr, hr'.1, hr'.2]
  · have hr' := hr
    unfold inRange at hr'
    simp only [RangedIter.fitInRange, h1, h2, if_true, hr, decide_false]
    by_cases a : r.minTs ≤ tsOf p <;> by_cases b : tsOf p ≤ r.maxTs <;> simp [a, b] <;> omega

/-! ## the write side keeps the index sound -/

/-- **addInterval_preserves (append case and first interval)**: what `onWrite` does whenever the new batch does not
start below an indexed timestamp — always the case on monotone streams (`append_case_of_monotone`). -/
theorem addInterval_preserves_append {tsOf : Nat → Int} {n n' : Nat} {pts : List Pt} (it : Iv) (hs : IndexSound tsOf n pts)
    (hcase : cntLE pts it.p0.ts = pts.length)
    (hn : it.p0.idx = n) (hle : it.p0.idx ≤ it.p1.idx) (hn' : n' = it.p1.idx + 1) (hb : BatchIn it tsOf)
    (hg : GapCovered pts it tsOf) (he : pts = [] → it.p0.idx = 0) : IndexSound tsOf n' (add pts it) :=
  Points.add_preserves_append it hs hcase hn hle hn' hb hg he

/-- the full statement (all three cases of `block.addInterval`: append / merge into the covering interval / collapse);
only the append case is proved, the other two are exercised by the harness (sections `tree`, `cindex`, `system`) -/
def addInterval_preserves_full : Prop :=
  ∀ (tsOf : Nat → Int) (n n' : Nat) (pts : List Pt) (it : Iv), IndexSound tsOf n pts →
    it.p0.idx = n → it.p0.idx ≤ it.p1.idx → n' = it.p1.idx + 1 → BatchIn it tsOf → GapCovered pts it tsOf →
    (pts = [] → it.p0.idx = 0) → IndexSound tsOf n' (add pts it)

/-- a write the sparse index skips keeps the index sound when the new records are not below the last point -/
theorem skip_preserves {tsOf : Nat → Int} {n n' : Nat} {pts : List Pt} (hs : IndexSound tsOf n pts) (hnn : n ≤ n')
    (hnew : ∀ q, n ≤ q → q < n' → (lastD pts).ts ≤ tsOf q) : IndexSound tsOf n' pts :=
  Points.skip_preserves hs hnn hnew

/-- `GapCovered` — the hypothesis the proof forces — follows from monotonicity -/
theorem gapCovered_of_monotone {tsOf : Nat → Int} {n' : Nat} (pts : List Pt) (it : Iv) (hm : Monotone tsOf n')
    (hb : BatchIn it tsOf) (hle : it.p0.idx ≤ it.p1.idx) (hl : it.p1.idx < n') : GapCovered pts it tsOf :=
  Points.gapCovered_of_monotone pts it hm hb hle hl

/-- on a monotone stream every indexed batch takes the append case -/
theorem append_case_of_monotone {tsOf : Nat → Int} {n : Nat} {pts : List Pt} (it : Iv) (hs : IndexSound tsOf n pts)
    (hm : Monotone tsOf (it.p0.idx + 1)) (hn : it.p0.idx = n) (hexact : it.p0.ts = tsOf it.p0.idx)
    (hatt : ∀ p ∈ pts, ∃ q, q < n ∧ p.ts ≤ tsOf q) : cntLE pts it.p0.ts = pts.length :=
  Points.append_case_of_monotone it hs hm hn hexact hatt

example : add cexPts ⟨⟨300, 900⟩, ⟨310, 1199⟩⟩ = cexPts ++ [⟨310, 1199⟩] := by decide          -- append
example : add cexPts ⟨⟨250, 900⟩, ⟨260, 1199⟩⟩ = [⟨100, 0⟩, ⟨200, 299⟩, ⟨200, 599⟩, ⟨300, 1199⟩] := by decide  -- merge
example : add cexPts ⟨⟨50, 900⟩, ⟨60, 1199⟩⟩ = [⟨50, 0⟩, ⟨300, 1199⟩] := by decide               -- collapse

/-! ## counterexamples for the open findings -/

/-- #2 — `iwrapper`'s 0 sentinel: the batch 5, 0, 7 is reported with the hull [7, 7]; `RANGE [0:6]` then excludes the
whole chunk although records 0 and 1 are in range. With a flag instead of the sentinel the hull is [0, 7]. -/
def cexIW : WriteLoop.IW := ([5, 0, 7] : List Int).foldl WriteLoop.IW.see {}
def cexIWRepaired : WriteLoop.IW := ([5, 0, 7] : List Int).foldl WriteLoop.IW.see WriteLoop.IW.repaired
theorem cex_zero_sentinel :
    (cexIW.minTs, cexIW.maxTs) = (7, 7) ∧
    ¬ inWindow (window ⟨cexIW.minTs, cexIW.maxTs⟩ none ⟨0, 6⟩) 0 ∧ inRange ⟨0, 6⟩ 5 ∧
    (cexIWRepaired.minTs, cexIWRepaired.maxTs) = (0, 7) ∧
    inWindow (window ⟨cexIWRepaired.minTs, cexIWRepaired.maxTs⟩ none ⟨0, 6⟩) 0 := by
  decide

/-- #3 — a missing lower bound becomes 0: `RANGE [:6]` drops the event with timestamp −5 -/
theorem cex_open_lower_bound :
    (RangedIter.rangeOf none (some 6)) = (0, 6) ∧
    RangedIter.fitInRange (RangedIter.rangeOf none (some 6)).1 (RangedIter.rangeOf none (some 6)).2 (-5) = false ∧
    ((-5 : Int) ≤ 6) := by
  decide

/-- #4 — a batch the sparse index skipped lies below the indexed interval: points (100,0),(200,299) for records 0…299,
records 300…309 carry 50…59; `RANGE [55:55]` gets the window [0, 0] and position 305 (ts 55) is hidden.
`GapCovered`'s counterpart for skipped writes (`skip_preserves`' hypothesis) fails here. -/
def cexSkipPts : List Pt := [⟨100, 0⟩, ⟨200, 299⟩]
def cexSkipTs (q : Nat) : Int := if q < 100 then 100 + q else if q < 300 then 200 else 50 + (q - 300)
theorem cex_skipped_batch_below :
    cexSkipTs 305 = 55 ∧ window ⟨50, 200⟩ (some cexSkipPts) ⟨55, 55⟩ = (0, 0) ∧
    ¬ inWindow (window ⟨50, 200⟩ (some cexSkipPts) ⟨55, 55⟩) 305 ∧ ¬ ((lastD cexSkipPts).ts ≤ cexSkipTs 305) := by
  decide

/-- #41 (new) — `rebuildIndexInt` starts every segment's maximum at 0: a chunk with the records −30, −20, −10 is rebuilt
to the points (−30,0),(−30,0),(0,3); the next indexed write (16 records with ts −9) merges into (−30,0),(−30,0),(0,18);
249 further records (ts −8 … −7, monotone) are skipped by the sparse index — and `less (−8)` answers 18 although
position 19 carries −8: the tail is below the last point (`TailAbove` fails although the stream is monotone). With the
segment maximum started at the first timestamp the same steps give the sound points (−30,0),(−30,0),(−10,3),(−9,18). -/
theorem cex_rebuild_negative_max :
    add [⟨-30, 0⟩, ⟨-30, 0⟩] ⟨⟨-30, 0⟩, ⟨max Generated.C02.rebuildSegmentMaxInit (-10), 3⟩⟩ = [⟨-30, 0⟩, ⟨-30, 0⟩, ⟨0, 3⟩] ∧
    add [⟨-30, 0⟩, ⟨-30, 0⟩, ⟨0, 3⟩] ⟨⟨-9, 3⟩, ⟨-9, 18⟩⟩ = [⟨-30, 0⟩, ⟨-30, 0⟩, ⟨0, 18⟩] ∧
    lessPos [⟨-30, 0⟩, ⟨-30, 0⟩, ⟨0, 18⟩] (-8) = some 18 ∧
    add (add [⟨-30, 0⟩, ⟨-30, 0⟩] ⟨⟨-30, 0⟩, ⟨-10, 3⟩⟩) ⟨⟨-9, 3⟩, ⟨-9, 18⟩⟩ = [⟨-30, 0⟩, ⟨-30, 0⟩, ⟨-10, 3⟩, ⟨-9, 18⟩] ∧
    lessPos [⟨-30, 0⟩, ⟨-30, 0⟩, ⟨-10, 3⟩, ⟨-9, 18⟩] (-8) = none := by
  decide

/-! ## full statements that are only partly proved -/

/-- Top level, full strength: for EVERY history of writes and rebuilds the ranged read of a partition equals the
filtered full read. False as it stands (findings #2, #3, #4, #24); proved per chunk under `HullSound`/`IndexSound`
(`range_eq_filter_chunk`), which monotone histories without the #2/#3 classes maintain (`addInterval_preserves_append`,
`skip_preserves`, `append_case_of_monotone`, `gapCovered_of_monotone`). The composition over the write loop, the block
tree and the iterator is checked by the harness (IMPL = MODEL = SPEC on every monotone history), not proved. -/
def range_eq_filter_full : Prop :=
  ∀ (maxChunk : Nat) (batches : List (List Int)) (lo hi : Option Int),
    let (wj, cidx) := batches.foldl (fun (acc : WriteLoop.J × CIndex.St) b =>
        let (j, c, _, _) := RangedIter.write acc.1 acc.2 (b.map (fun t => (⟨t, 16⟩ : WriteLoop.Rec)))
        (j, c)) (({ maxSize := maxChunk } : WriteLoop.J), ({} : CIndex.St))
    let all := batches.flatten
    let (mn, mx) := RangedIter.rangeOf lo hi
    let tss := (wj.chunks.foldl (fun (acc : Array (Array Int) × Nat) c => (acc.1.push ((all.toArray).extract acc.2 (acc.2 + c.cnt)), acc.2 + c.cnt)) (#[], 0)).1
    let st : RangedIter.St := { cks := (wj.chunks.map (fun c => (⟨c.id * 10, c.cnt⟩ : Selector.JChunk))).toArray, cidx := cidx, tss := tss, rmin := mn, rmax := mx }
    ((RangedIter.scan st 0 (all.length + 2)).2.toList.map (RangedIter.tsAt st)) =
      all.filter (fun t => (match lo with | some l => decide (l ≤ t) | none => true) && (match hi with | some h => decide (t ≤ h) | none => true))

/-- the block tree restricted to one level-0 block is the `Points` list (all three `addInterval` cases); checked by the
harness section `tree` on every sequence that never grew beyond one block, not proved -/
def tree_eq_points_level0 : Prop :=
  ∀ (ivs : List Iv), ivs.length ≤ 40 →
    let (store, root) := ivs.foldl (fun (acc : IdxTree.Store × Option Nat) it =>
        IdxTree.add 8 acc.1 acc.2 ⟨⟨it.p0.ts, it.p0.idx⟩, ⟨it.p1.ts, it.p1.idx⟩⟩) ((#[] : IdxTree.Store), none)
    let pts := ivs.foldl add []
    match root with
    | none => True
    | some r => (store[r]!).recs.toList.map (fun x => (⟨x.ts, x.idx⟩ : Pt)) = pts

end Logrange.Props.C02
